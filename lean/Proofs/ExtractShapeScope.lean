import Proofs.ExtractShapeAssoc
import Proofs.ExtractScope
import Proofs.ExtractFuel

/-!
  C14 / C20 — `is_contained_in` and `is_global` of the generated IR (Gen/ExtractShape.lean) against `containedFuel` / `containedIn`
  and `globalFuel` / `isGlobal` (PyxModel/Extract/Diagram.lean), package references (R1402) included.

  The population (`scopeWorld`): a PE_PE row is given by the `Parent` its Package_ID / Component_ID denote; EP_PKG and C_C rows
  are the `Container`s; R8000 / R8003 lead from a PE_PE to the first container with that id, R8001 from a container to its own
  PE_PE, R1402 'is referenced by' from a package over the EP_PKGREF rows whose Referred_Package_ID it is to the referring packages.
  Statements are partial-correctness statements: WHENEVER the interpretation returns (at any recursion depth `f`), it returns what
  the model computes with that fuel; on `TreeOk` and with `f > cs.length` that is `containedIn` / `isGlobal` themselves.
-/

namespace Pyx.XShape
open Pyx.Extract Pyx.Gen.ExtractShape

inductive SI where
  | pe (p : Parent)            -- a PE_PE row (of any element) whose Package_ID / Component_ID denote `p`
  | pkg (k : Container)        -- EP_PKG
  | comp (k : Container)       -- C_C
  deriving DecidableEq

def scopeHop (cs : List Container) (rf : List PkgRef) (x : SI) (h : Hop) : List SI :=
  match x with
  | .pe p =>
    if h = hp "EP_PKG" 8000 then (match p with | .pkg i => ((findContainer cs false i).map SI.pkg).toList | _ => [])
    else if h = hp "C_C" 8003 then (match p with | .comp i => ((findContainer cs true i).map SI.comp).toList | _ => [])
    else []
  | .pkg k =>
    if h = hp "PE_PE" 8001 then [.pe k.parent]
    else if h = { cls := "EP_PKG", rel := 1402, phrase := "is referenced by" } then
      (rf.filter (fun r => r.referred == k.id)).filterMap (fun r => (findContainer cs false r.referring).map SI.pkg)
    else []
  | .comp k => if h = hp "PE_PE" 8001 then [.pe k.parent] else []

def scopeKind : SI → String
  | .pe _ => "PE_PE" | .pkg _ => "EP_PKG" | .comp _ => "C_C"

def scopeWorld (cs : List Container) (rf : List PkgRef) : World SI :=
  { hop := scopeHop cs rf, attr := fun _ _ => .unset, kind := scopeKind, subtype := fun _ _ => none, select := fun _ => [] }

@[simp] theorem scopeWorld_hop (cs : List Container) (rf : List PkgRef) : (scopeWorld cs rf).hop = scopeHop cs rf := rfl
@[simp] theorem scopeWorld_kind (cs : List Container) (rf : List PkgRef) : (scopeWorld cs rf).kind = scopeKind := rfl

/-- the Parent an argument of is_contained_in / is_global stands for: a PE_PE itself, or the PE_PE of a container (R8001) -/
def parentOf : Option SI → Option Parent
  | none => none
  | some (.pe p) => some p
  | some (.pkg k) => some k.parent
  | some (.comp k) => some k.parent

theorem lookup_is_global : defs.lookup "is_global" = some is_global := rfl
theorem lookup_is_contained_in : defs.lookup "is_contained_in" = some is_contained_in := rfl

macro "xsS" "[" ts:Lean.Parser.Tactic.simpLemma,* "]" loc:(Lean.Parser.Tactic.location)? : tactic =>
  `(tactic| simp [iStmts, iStmt, thenStep, eExpr, eCond, eNav, startSet, evalHops, filterE, passes, Loc.set, bindAll, truthy,
        Loc.empty, Except.map, scopeHop, scopeKind, hp, retOf, parentOf, $ts,*] $[$loc]?)

/-! ### is_global -/

/-- whenever `is_global(x)` returns, it returns `globalFuel` at that depth (x a PE_PE, an EP_PKG or a C_C) -/
theorem isGlobal_sound (cs : List Container) (rf : List PkgRef) : ∀ (f : Nat) (x : SI) (Lc : Loc SI) (C : Calls SI) (v : Val SI)
    (C' : Calls SI), callAt (scopeWorld cs rf) defs f "is_global" [.inst (some x)] Lc C = .ok (v, C') →
      ∀ p, parentOf (some x) = some p → v = .bool (globalFuel cs f p) ∧ C' = C := by
  intro f
  induction f with
  | zero => intro x Lc C v C' h; simp [callAt] at h
  | succ f ih =>
    intro x Lc C v C' h p hp'
    rw [callAt_def _ _ f _ _ _ _ _ rfl lookup_is_global rfl] at h
    -- after the conversion to the PE_PE the three kinds of argument run the same code
    have key : ∀ (L0 : Loc SI), L0 "pe_pe" = .inst (some (SI.pe p)) →
        retOf (iStmts (scopeWorld cs rf) (callAt (scopeWorld cs rf) defs f) f (is_global.body.drop 1) L0 C) = .ok (v, C') →
        v = .bool (globalFuel cs (f + 1) p) ∧ C' = C := by
      intro L0 hL0 hrun
      cases p with
      | none => xsS [is_global, hL0, globalFuel] at hrun; simpa [globalFuel, eq_comm] using hrun
      | comp c =>
        cases hc : findContainer cs true c <;> xsS [is_global, hL0, hc] at hrun <;>
          simpa [globalFuel, hc, eq_comm] using hrun
      | pkg i =>
        cases hc : findContainer cs false i with
        | none => xsS [is_global, hL0, hc] at hrun; simpa [globalFuel, hc, eq_comm] using hrun
        | some k =>
          xsS [is_global, hL0, hc] at hrun
          generalize hr : callAt (scopeWorld cs rf) defs f "is_global" _ _ C = r at hrun
          rcases r with e | ⟨v1, C1⟩
          · simp at hrun
          · obtain ⟨hv, hC⟩ := ih _ _ _ _ _ hr k.parent rfl
            subst hv hC
            simpa [globalFuel, hc, eq_comm] using hrun
    cases x with
    | pe q =>
      have hq : q = p := by simpa [parentOf] using hp'
      subst hq
      apply key ((Loc.empty.set "pe_pe" (.inst (some (SI.pe q)))))
      · simp [Loc.set]
      · xsS [is_global] at h ⊢; exact h
    | pkg k =>
      have hq : k.parent = p := by simpa [parentOf] using hp'
      subst hq
      apply key ((Loc.empty.set "pe_pe" (.inst (some (SI.pkg k)))).set "pe_pe" (.inst (some (SI.pe k.parent))))
      · simp [Loc.set]
      · xsS [is_global] at h ⊢; exact h
    | comp k =>
      have hq : k.parent = p := by simpa [parentOf] using hp'
      subst hq
      apply key ((Loc.empty.set "pe_pe" (.inst (some (SI.comp k)))).set "pe_pe" (.inst (some (SI.pe k.parent))))
      · simp [Loc.set]
      · xsS [is_global] at h ⊢; exact h

/-! ### is_contained_in -/

def refLoopBody : List Stmt := [.ite (.truthy (.call "is_contained_in" ["ep_pkg", "root"])) [.ret (.bool true)] []]
def cicTail : List Stmt :=
  [ .forNav "ep_pkg" { card := .many, start := "ep_pkg", hops := [{ cls := "EP_PKG", rel := 1402, phrase := "is referenced by" }], filter := .all } refLoopBody,
    .ret (.bool false) ]
theorem is_contained_in_tail : is_contained_in.body.drop 5 = cicTail := rfl

theorem thenStep_assoc {I : Type} (r : Step I) (k1 k2 : Loc I → Calls I → Step I) :
    thenStep (thenStep r k1) k2 = thenStep r (fun L C => thenStep (k1 L C) k2) := by
  rcases r with e | ⟨L, C, s⟩
  · rfl
  · cases s <;> rfl

theorem iStmts_append {I : Type} [DecidableEq I] (W : World I) (cf : CallF I) (fuel : Nat) (a b : List Stmt) (L : Loc I) (C : Calls I) :
    iStmts W cf fuel (a ++ b) L C = thenStep (iStmts W cf fuel a L C) (iStmts W cf fuel b) := by
  induction a generalizing L C with
  | nil => simp [iStmts, thenStep]
  | cons s a ih =>
    simp only [List.cons_append, iStmts, thenStep_assoc]
    congr 1
    funext L' C'
    exact ih L' C'

/-- what the model says `is_contained_in(x, root)` is at depth f -/
def cont (cs : List Container) (rf : List PkgRef) (root f : Nat) (xo : Option SI) : Bool :=
  match parentOf xo with
  | none => false
  | some p => containedFuel cs rf root f p

def SoundF (cs : List Container) (rf : List PkgRef) (root : Nat) (kr : Container) (cf : CallF SI) (f : Nat) : Prop :=
  ∀ (xo : Option SI) (Lc : Loc SI) (C : Calls SI) (v : Val SI) (C' : Calls SI),
    cf "is_contained_in" [.inst xo, .inst (some (SI.comp kr))] Lc C = .ok (v, C') → v = .bool (cont cs rf root f xo) ∧ C' = C

/-- the packages referring to package `i` (R1402 'is referenced by'), in EP_PKGREF row order -/
def referrers (cs : List Container) (rf : List PkgRef) (i : Nat) : List Container :=
  (rf.filter (fun r => r.referred == i)).filterMap (fun r => findContainer cs false r.referring)

theorem any_referrers (cs : List Container) (rf : List PkgRef) (root f i : Nat) :
    (referrers cs rf i).any (fun kq => containedFuel cs rf root f kq.parent) =
      rf.any (fun r => r.referred == i &&
        match findContainer cs false r.referring with
        | some kq => containedFuel cs rf root f kq.parent
        | none => false) := by
  unfold referrers
  generalize containedFuel cs rf root f = g
  induction rf with
  | nil => rfl
  | cons r rest ih =>
    by_cases h : r.referred = i
    · cases hk : findContainer cs false r.referring <;> simp [List.filter_cons, h, hk, ih]
    · simp [List.filter_cons, h, ih]

theorem refLoop_sound (cs : List Container) (rf : List PkgRef) (root : Nat) (kr : Container) (cf : CallF SI) (f fuel : Nat)
    (hs : SoundF cs rf root kr cf f) :
    ∀ (ks : List Container) (L : Loc SI) (C : Calls SI) (L1 : Loc SI) (C1 : Calls SI) (s : Sig SI),
      L "root" = .inst (some (SI.comp kr)) →
      forLoop (fun x L' C' => iStmts (scopeWorld cs rf) cf fuel refLoopBody (L'.set "ep_pkg" (.inst (some x))) C')
        (ks.map SI.pkg) L C = .ok (L1, C1, s) →
      C1 = C ∧ L1 "root" = .inst (some (SI.comp kr)) ∧
        match s with
        | .ret v => v = .bool true ∧ ks.any (fun k => containedFuel cs rf root f k.parent) = true
        | .next => ks.any (fun k => containedFuel cs rf root f k.parent) = false
        | .cont => False := by
  intro ks
  induction ks with
  | nil => intro L C L1 C1 s hr h; simp [forLoop] at h; obtain ⟨rfl, rfl, rfl⟩ := h; simp [hr]
  | cons k ks ih =>
    intro L C L1 C1 s hr h
    simp only [List.map_cons, forLoop] at h
    have hbody : iStmts (scopeWorld cs rf) cf fuel refLoopBody (L.set "ep_pkg" (.inst (some (SI.pkg k)))) C =
        match cf "is_contained_in" [.inst (some (SI.pkg k)), .inst (some (SI.comp kr))] (L.set "ep_pkg" (.inst (some (SI.pkg k)))) C with
        | .error e => .error e
        | .ok (v, C') => match truthy v with
          | none => .error .stuck
          | some true => .ok (L.set "ep_pkg" (.inst (some (SI.pkg k))), C', .ret (.bool true))
          | some false => .ok (L.set "ep_pkg" (.inst (some (SI.pkg k))), C', .next) := by
      simp only [refLoopBody, iStmts, iStmt, eCond, eExpr, List.map, Loc.set, hr, thenStep]
      simp
      rcases cf "is_contained_in" _ _ C with e | ⟨v, C'⟩
      · rfl
      · simp only []
        cases truthy v with
        | none => rfl
        | some b => cases b <;> rfl
    rw [hbody] at h
    generalize hc : cf "is_contained_in" _ _ C = r at h
    rcases r with e | ⟨v, C'⟩
    · simp at h
    · obtain ⟨hv, hC⟩ := hs _ _ _ _ _ hc
      subst hv hC
      cases hb : cont cs rf root f (some (SI.pkg k)) with
      | true =>
        simp [truthy, hb] at h
        obtain ⟨rfl, rfl, rfl⟩ := h
        have : containedFuel cs rf root f k.parent = true := by simpa [cont, parentOf] using hb
        simp [Loc.set, hr, this]
      | false =>
        simp [truthy, hb] at h
        have hk : containedFuel cs rf root f k.parent = false := by simpa [cont, parentOf] using hb
        obtain ⟨h1, h2, h3⟩ := ih _ _ _ _ _ (by simp [Loc.set, hr]) h
        refine ⟨h1, h2, ?_⟩
        cases s <;> simp_all

end Pyx.XShape
