import Proofs.ExtractShapeAssoc
import Proofs.ExtractScope
import Proofs.ExtractFuel

/-!
  C14 / C20 — `is_contained_in` and `is_global` of the generated IR (Gen/ExtractShape.lean) against `containedFuel` / `containedIn`
  and `globalFuel` / `isGlobal` (PyxModel/Extract/Diagram.lean), package references (R1402) included.

  The population (`scopeWorld`): a PE_PE row is given by the `Parent` its Package_ID / Component_ID denote; EP_PKG and C_C rows
  are the `Container`s; R8000 / R8003 lead from a PE_PE to the first container with that id, R8001 from a container to its own
  PE_PE, R1402 'is referenced by' from a package over the EP_PKGREF rows whose Referred_Package_ID it is to the referring packages.
  Statements are partial-correctness statements: WHENEVER the interpretation returns (at any recursion depth `f`), it returns what
  the model computes with that fuel; on `TreeOk` and with `f > cs.length` that is `containedIn` / `isGlobal` themselves.
-/

namespace Pyx.XShape
open Pyx.Extract Pyx.Gen.ExtractShape

inductive SI where
  | pe (p : Parent)            -- a PE_PE row (of any element) whose Package_ID / Component_ID denote `p`
  | pkg (k : Container)        -- EP_PKG
  | comp (k : Container)       -- C_C
  deriving DecidableEq

def scopeHop (cs : List Container) (rf : List PkgRef) (x : SI) (h : Hop) : List SI :=
  match x with
  | .pe p =>
    if h = hp "EP_PKG" 8000 then (match p with | .pkg i => ((findContainer cs false i).map SI.pkg).toList | _ => [])
    else if h = hp "C_C" 8003 then (match p with | .comp i => ((findContainer cs true i).map SI.comp).toList | _ => [])
    else []
  | .pkg k =>
    if h = hp "PE_PE" 8001 then [.pe k.parent]
    else if h = { cls := "EP_PKG", rel := 1402, phrase := "is referenced by" } then
      (rf.filter (fun r => r.referred == k.id)).filterMap (fun r => (findContainer cs false r.referring).map SI.pkg)
    else []
  | .comp k => if h = hp "PE_PE" 8001 then [.pe k.parent] else []

def scopeKind : SI → String
  | .pe _ => "PE_PE" | .pkg _ => "EP_PKG" | .comp _ => "C_C"

def scopeWorld (cs : List Container) (rf : List PkgRef) : World SI :=
  { hop := scopeHop cs rf, attr := fun _ _ => .unset, kind := scopeKind, subtype := fun _ _ => none, select := fun _ => [] }

@[simp] theorem scopeWorld_hop (cs : List Container) (rf : List PkgRef) : (scopeWorld cs rf).hop = scopeHop cs rf := rfl
@[simp] theorem scopeWorld_kind (cs : List Container) (rf : List PkgRef) : (scopeWorld cs rf).kind = scopeKind := rfl

/-- the Parent an argument of is_contained_in / is_global stands for: a PE_PE itself, or the PE_PE of a container (R8001) -/
def parentOf : Option SI → Option Parent
  | none => none
  | some (.pe p) => some p
  | some (.pkg k) => some k.parent
  | some (.comp k) => some k.parent

theorem lookup_is_global : defs.lookup "is_global" = some is_global := rfl
theorem lookup_is_contained_in : defs.lookup "is_contained_in" = some is_contained_in := rfl

macro "xsS" "[" ts:Lean.Parser.Tactic.simpLemma,* "]" loc:(Lean.Parser.Tactic.location)? : tactic =>
  `(tactic| simp [iStmts, iStmt, thenStep, eExpr, eCond, eNav, startSet, evalHops, filterE, passes, Loc.set, bindAll, truthy,
        Loc.empty, Except.map, scopeHop, scopeKind, hp, retOf, parentOf, $ts,*] $[$loc]?)

/-! ### is_global -/

/-- whenever `is_global(x)` returns, it returns `globalFuel` at that depth (x a PE_PE, an EP_PKG or a C_C) -/
theorem isGlobal_sound (cs : List Container) (rf : List PkgRef) : ∀ (f : Nat) (x : SI) (Lc : Loc SI) (C : Calls SI) (v : Val SI)
    (C' : Calls SI), callAt (scopeWorld cs rf) defs f "is_global" [.inst (some x)] Lc C = .ok (v, C') →
      ∀ p, parentOf (some x) = some p → v = .bool (globalFuel cs f p) ∧ C' = C := by
  intro f
  induction f with
  | zero => intro x Lc C v C' h; simp [callAt] at h
  | succ f ih =>
    intro x Lc C v C' h p hp'
    rw [callAt_def _ _ f _ _ _ _ _ rfl lookup_is_global rfl] at h
    -- after the conversion to the PE_PE the three kinds of argument run the same code
    have key : ∀ (L0 : Loc SI), L0 "pe_pe" = .inst (some (SI.pe p)) →
        retOf (iStmts (scopeWorld cs rf) (callAt (scopeWorld cs rf) defs f) f (is_global.body.drop 1) L0 C) = .ok (v, C') →
        v = .bool (globalFuel cs (f + 1) p) ∧ C' = C := by
      intro L0 hL0 hrun
      cases p with
      | none => xsS [is_global, hL0, globalFuel] at hrun; simpa [globalFuel, eq_comm] using hrun
      | comp c =>
        cases hc : findContainer cs true c <;> xsS [is_global, hL0, hc] at hrun <;>
          simpa [globalFuel, hc, eq_comm] using hrun
      | pkg i =>
        cases hc : findContainer cs false i with
        | none => xsS [is_global, hL0, hc] at hrun; simpa [globalFuel, hc, eq_comm] using hrun
        | some k =>
          xsS [is_global, hL0, hc] at hrun
          generalize hr : callAt (scopeWorld cs rf) defs f "is_global" _ _ C = r at hrun
          rcases r with e | ⟨v1, C1⟩
          · simp at hrun
          · obtain ⟨hv, hC⟩ := ih _ _ _ _ _ hr k.parent rfl
            subst hv hC
            simpa [globalFuel, hc, eq_comm] using hrun
    cases x with
    | pe q =>
      have hq : q = p := by simpa [parentOf] using hp'
      subst hq
      apply key ((Loc.empty.set "pe_pe" (.inst (some (SI.pe q)))))
      · simp [Loc.set]
      · xsS [is_global] at h ⊢; exact h
    | pkg k =>
      have hq : k.parent = p := by simpa [parentOf] using hp'
      subst hq
      apply key ((Loc.empty.set "pe_pe" (.inst (some (SI.pkg k)))).set "pe_pe" (.inst (some (SI.pe k.parent))))
      · simp [Loc.set]
      · xsS [is_global] at h ⊢; exact h
    | comp k =>
      have hq : k.parent = p := by simpa [parentOf] using hp'
      subst hq
      apply key ((Loc.empty.set "pe_pe" (.inst (some (SI.comp k)))).set "pe_pe" (.inst (some (SI.pe k.parent))))
      · simp [Loc.set]
      · xsS [is_global] at h ⊢; exact h

/-! ### is_contained_in -/

def refLoopBody : List Stmt := [.ite (.truthy (.call "is_contained_in" ["ep_pkg", "root"])) [.ret (.bool true)] []]
def cicTail : List Stmt :=
  [ .forNav "ep_pkg" { card := .many, start := "ep_pkg", hops := [{ cls := "EP_PKG", rel := 1402, phrase := "is referenced by" }], filter := .all } refLoopBody,
    .ret (.bool false) ]
theorem is_contained_in_tail : is_contained_in.body.drop 5 = cicTail := rfl

theorem thenStep_assoc {I : Type} (r : Step I) (k1 k2 : Loc I → Calls I → Step I) :
    thenStep (thenStep r k1) k2 = thenStep r (fun L C => thenStep (k1 L C) k2) := by
  rcases r with e | ⟨L, C, s⟩
  · rfl
  · cases s <;> rfl

theorem iStmts_append {I : Type} [DecidableEq I] (W : World I) (cf : CallF I) (fuel : Nat) (a b : List Stmt) (L : Loc I) (C : Calls I) :
    iStmts W cf fuel (a ++ b) L C = thenStep (iStmts W cf fuel a L C) (iStmts W cf fuel b) := by
  induction a generalizing L C with
  | nil => simp [iStmts, thenStep]
  | cons s a ih =>
    simp only [List.cons_append, iStmts, thenStep_assoc]
    congr 1
    funext L' C'
    exact ih L' C'

/-- what the model says `is_contained_in(x, root)` is at depth f -/
def cont (cs : List Container) (rf : List PkgRef) (root f : Nat) (xo : Option SI) : Bool :=
  match parentOf xo with
  | none => false
  | some p => containedFuel cs rf root f p

def SoundF (cs : List Container) (rf : List PkgRef) (root : Nat) (kr : Container) (cf : CallF SI) (f : Nat) : Prop :=
  ∀ (xo : Option SI) (Lc : Loc SI) (C : Calls SI) (v : Val SI) (C' : Calls SI),
    cf "is_contained_in" [.inst xo, .inst (some (SI.comp kr))] Lc C = .ok (v, C') → v = .bool (cont cs rf root f xo) ∧ C' = C

/-- the packages referring to package `i` (R1402 'is referenced by'), in EP_PKGREF row order -/
def referrers (cs : List Container) (rf : List PkgRef) (i : Nat) : List Container :=
  (rf.filter (fun r => r.referred == i)).filterMap (fun r => findContainer cs false r.referring)

theorem any_referrers (cs : List Container) (rf : List PkgRef) (root f i : Nat) :
    (referrers cs rf i).any (fun kq => containedFuel cs rf root f kq.parent) =
      rf.any (fun r => r.referred == i &&
        match findContainer cs false r.referring with
        | some kq => containedFuel cs rf root f kq.parent
        | none => false) := by
  unfold referrers
  generalize containedFuel cs rf root f = g
  induction rf with
  | nil => rfl
  | cons r rest ih =>
    by_cases h : r.referred = i
    · cases hk : findContainer cs false r.referring <;> simp [List.filter_cons, h, hk, ih]
    · simp [List.filter_cons, h, ih]

theorem refLoop_sound (cs : List Container) (rf : List PkgRef) (root : Nat) (kr : Container) (cf : CallF SI) (f fuel : Nat)
    (hs : SoundF cs rf root kr cf f) :
    ∀ (ks : List Container) (L : Loc SI) (C : Calls SI) (L1 : Loc SI) (C1 : Calls SI) (s : Sig SI),
      L "root" = .inst (some (SI.comp kr)) →
      forLoop (fun x L' C' => iStmts (scopeWorld cs rf) cf fuel refLoopBody (L'.set "ep_pkg" (.inst (some x))) C')
        (ks.map SI.pkg) L C = .ok (L1, C1, s) →
      C1 = C ∧ L1 "root" = .inst (some (SI.comp kr)) ∧
        match s with
        | .ret v => v = .bool true ∧ ks.any (fun k => containedFuel cs rf root f k.parent) = true
        | .next => ks.any (fun k => containedFuel cs rf root f k.parent) = false
        | .cont => False := by
  intro ks
  induction ks with
  | nil => intro L C L1 C1 s hr h; simp [forLoop] at h; obtain ⟨rfl, rfl, rfl⟩ := h; simp [hr]
  | cons k ks ih =>
    intro L C L1 C1 s hr h
    simp only [List.map_cons, forLoop] at h
    have hbody : iStmts (scopeWorld cs rf) cf fuel refLoopBody (L.set "ep_pkg" (.inst (some (SI.pkg k)))) C =
        match cf "is_contained_in" [.inst (some (SI.pkg k)), .inst (some (SI.comp kr))] (L.set "ep_pkg" (.inst (some (SI.pkg k)))) C with
        | .error e => .error e
        | .ok (v, C') => match truthy v with
          | none => .error .stuck
          | some true => .ok (L.set "ep_pkg" (.inst (some (SI.pkg k))), C', .ret (.bool true))
          | some false => .ok (L.set "ep_pkg" (.inst (some (SI.pkg k))), C', .next) := by
      simp only [refLoopBody, iStmts, iStmt, eCond, eExpr, List.map, Loc.set, hr, thenStep]
      simp
      rcases cf "is_contained_in" _ _ C with e | ⟨v, C'⟩
      · rfl
      · simp only []
        cases truthy v with
        | none => rfl
        | some b => cases b <;> rfl
    rw [hbody] at h
    generalize hc : cf "is_contained_in" _ _ C = r at h
    rcases r with e | ⟨v, C'⟩
    · simp at h
    · obtain ⟨hv, hC⟩ := hs _ _ _ _ _ hc
      subst hv hC
      cases hb : cont cs rf root f (some (SI.pkg k)) with
      | true =>
        simp [truthy, hb] at h
        obtain ⟨rfl, rfl, rfl⟩ := h
        have : containedFuel cs rf root f k.parent = true := by simpa [cont, parentOf] using hb
        simp [Loc.set, hr, this]
      | false =>
        simp [truthy, hb] at h
        have hk : containedFuel cs rf root f k.parent = false := by simpa [cont, parentOf] using hb
        obtain ⟨h1, h2, h3⟩ := ih _ _ _ _ _ (by simp [Loc.set, hr]) h
        refine ⟨h1, h2, ?_⟩
        cases s <;> simp_all


/-- the statement after the two navigations: `if root in [ep_pkg, c_c] … elif … elif …` -/
def cicIf : Stmt :=
  .ite (.among "root" ["ep_pkg", "c_c"]) [.ret (.bool true)]
    [.ite (.truthy (.call "is_contained_in" ["ep_pkg", "root"])) [.ret (.bool true)]
      [.ite (.truthy (.call "is_contained_in" ["c_c", "root"])) [.ret (.bool true)] []]]

theorem is_contained_in_split : is_contained_in.body.drop 2 =
    [ .assign "ep_pkg" (.nav { card := .one, start := "pe_pe", hops := [{ cls := "EP_PKG", rel := 8000, phrase := "" }], filter := .all }),
      .assign "c_c" (.nav { card := .one, start := "pe_pe", hops := [{ cls := "C_C", rel := 8003, phrase := "" }], filter := .all }),
      cicIf ] ++ cicTail := rfl

theorem call_cases {cs : List Container} {rf : List PkgRef} {root : Nat} {kr : Container} {cf : CallF SI} {f : Nat}
    (hs : SoundF cs rf root kr cf f) (xo : Option SI) (L : Loc SI) (C : Calls SI) :
    (∃ e, cf "is_contained_in" [.inst xo, .inst (some (SI.comp kr))] L C = .error e) ∨
      cf "is_contained_in" [.inst xo, .inst (some (SI.comp kr))] L C = .ok (.bool (cont cs rf root f xo), C) := by
  rcases h : cf "is_contained_in" [.inst xo, .inst (some (SI.comp kr))] L C with e | ⟨v, C'⟩
  · exact .inl ⟨e, rfl⟩
  · obtain ⟨hv, hC⟩ := hs _ _ _ _ _ h
    subst hv hC
    exact .inr rfl

/-- `if root in [ep_pkg, c_c]: … elif is_contained_in(ep_pkg, root): … elif is_contained_in(c_c, root): …` -/
theorem cicIf_sound (cs : List Container) (rf : List PkgRef) (root : Nat) (kr : Container) (cf : CallF SI) (f fuel : Nat)
    (hs : SoundF cs rf root kr cf f) (epo cco : Option SI) (L : Loc SI) (C : Calls SI)
    (h1 : L "ep_pkg" = .inst epo) (h2 : L "c_c" = .inst cco) (h3 : L "root" = .inst (some (SI.comp kr))) :
    (∃ e, iStmt (scopeWorld cs rf) cf fuel cicIf L C = .error e) ∨
    (iStmt (scopeWorld cs rf) cf fuel cicIf L C = .ok (L, C, .ret (.bool true)) ∧
      (decide (some (SI.comp kr) = epo) || decide (some (SI.comp kr) = cco) || cont cs rf root f epo || cont cs rf root f cco) = true) ∨
    (iStmt (scopeWorld cs rf) cf fuel cicIf L C = .ok (L, C, .next) ∧
      (decide (some (SI.comp kr) = epo) || decide (some (SI.comp kr) = cco) || cont cs rf root f epo || cont cs rf root f cco) = false) := by
  by_cases hA : some (SI.comp kr) = epo ∨ some (SI.comp kr) = cco
  · right; left
    rcases hA with hA | hA <;> xsS [cicIf, h1, h2, h3, hA] <;> simp [← hA]
  · have hA1 : ¬ some (SI.comp kr) = epo := fun h => hA (.inl h)
    have hA2 : ¬ some (SI.comp kr) = cco := fun h => hA (.inr h)
    rcases call_cases hs epo L C with ⟨e, hc1⟩ | hc1
    · left; exact ⟨e, by xsS [cicIf, h1, h2, h3, hA1, hA2, hc1]⟩
    · cases hb1 : cont cs rf root f epo with
      | true => right; left; xsS [cicIf, h1, h2, h3, hA1, hA2, hc1, hb1]
      | false =>
        rcases call_cases hs cco L C with ⟨e, hc2⟩ | hc2
        · left; exact ⟨e, by xsS [cicIf, h1, h2, h3, hA1, hA2, hc1, hb1, hc2]⟩
        · cases hb2 : cont cs rf root f cco with
          | true => right; left; xsS [cicIf, h1, h2, h3, hA1, hA2, hc1, hb1, hc2, hb2]
          | false => right; right; xsS [cicIf, h1, h2, h3, hA1, hA2, hc1, hb1, hc2, hb2]


def refNav : Nav :=
  { card := .many, start := "ep_pkg", hops := [{ cls := "EP_PKG", rel := 1402, phrase := "is referenced by" }], filter := .all }

theorem eNav_refs1402 (cs : List Container) (rf : List PkgRef) (L : Loc SI) (k : Container)
    (h1 : L "ep_pkg" = .inst (some (SI.pkg k))) :
    eNav (scopeWorld cs rf) L refNav = .ok (.insts ((referrers cs rf k.id).map SI.pkg)) := by
  simp [eNav, refNav, h1, startSet, evalHops, scopeHop, hp, referrers, List.map_filterMap]

theorem eNav_refs1402_none (cs : List Container) (rf : List PkgRef) (L : Loc SI) (h1 : L "ep_pkg" = .inst none) :
    eNav (scopeWorld cs rf) L refNav = .ok (.insts []) := by
  simp [eNav, refNav, h1, startSet, evalHops]

/-- the loop over the referring packages and the final `return False` -/
theorem cicTail_sound (cs : List Container) (rf : List PkgRef) (root : Nat) (kr : Container) (cf : CallF SI) (f fuel : Nat)
    (hs : SoundF cs rf root kr cf f) (epk : Option Container) (L : Loc SI) (C : Calls SI)
    (h1 : L "ep_pkg" = .inst (epk.map SI.pkg)) (h3 : L "root" = .inst (some (SI.comp kr))) (v : Val SI) (C' : Calls SI)
    (h : retOf (iStmts (scopeWorld cs rf) cf fuel cicTail L C) = .ok (v, C')) :
    v = .bool (match epk with
      | some k => (referrers cs rf k.id).any (fun kq => containedFuel cs rf root f kq.parent)
      | none => false) ∧ C' = C := by
  have hT : cicTail = [.forNav "ep_pkg" refNav refLoopBody, .ret (.bool false)] := rfl
  rw [hT] at h
  cases epk with
  | none =>
    simp only [Option.map_none] at h1
    simp only [iStmts, iStmt, eNav_refs1402_none cs rf L h1, forLoop, thenStep, eExpr, retOf] at h
    simp at h
    simp [h]
  | some k =>
    simp only [Option.map_some] at h1
    simp only [iStmts, iStmt, eNav_refs1402 cs rf L k h1] at h
    generalize hl : forLoop _ ((referrers cs rf k.id).map SI.pkg) L C = r at h
    rcases r with e | ⟨L1, C1, s⟩
    · simp [thenStep, retOf] at h
    · obtain ⟨hC, _, hv⟩ := refLoop_sound cs rf root kr cf f fuel hs _ L C L1 C1 s h3 hl
      subst hC
      cases s with
      | ret w =>
        obtain ⟨hw, hany⟩ := hv
        subst hw
        simp [thenStep, retOf] at h
        simp [h, hany]
      | next =>
        simp [thenStep, retOf, iStmts, iStmt, eExpr] at h
        simp [h, hv]
      | cont => exact hv.elim


theorem cic_key (cs : List Container) (rf : List PkgRef) (root : Nat) (kr : Container)
    (hkr : findContainer cs true root = some kr) (cf : CallF SI) (f fuel : Nat) (hs : SoundF cs rf root kr cf f)
    (p : Parent) (L0 : Loc SI) (C : Calls SI) (v : Val SI) (C' : Calls SI)
    (hL0 : L0 "pe_pe" = .inst (some (SI.pe p))) (hR : L0 "root" = .inst (some (SI.comp kr)))
    (hrun : retOf (iStmts (scopeWorld cs rf) cf fuel (is_contained_in.body.drop 2) L0 C) = .ok (v, C')) :
    v = .bool (containedFuel cs rf root (f + 1) p) ∧ C' = C := by
  rw [is_contained_in_split, iStmts_append] at hrun
  -- ep_pkg and c_c as the two navigations find them
  obtain ⟨epk, cco, hnav, hmodel⟩ : ∃ (epk : Option Container) (cco : Option SI),
      (iStmts (scopeWorld cs rf) cf fuel
        [ .assign "ep_pkg" (.nav { card := .one, start := "pe_pe", hops := [{ cls := "EP_PKG", rel := 8000, phrase := "" }], filter := .all }),
          .assign "c_c" (.nav { card := .one, start := "pe_pe", hops := [{ cls := "C_C", rel := 8003, phrase := "" }], filter := .all }),
          cicIf ] L0 C =
        thenStep (iStmt (scopeWorld cs rf) cf fuel cicIf ((L0.set "ep_pkg" (.inst (epk.map SI.pkg))).set "c_c" (.inst cco)) C)
          (iStmts (scopeWorld cs rf) cf fuel [])) ∧
      containedFuel cs rf root (f + 1) p =
        (decide (some (SI.comp kr) = epk.map SI.pkg) || decide (some (SI.comp kr) = cco) || cont cs rf root f (epk.map SI.pkg) ||
          cont cs rf root f cco ||
          (match epk with
           | some k => (referrers cs rf k.id).any (fun kq => containedFuel cs rf root f kq.parent)
           | none => false)) := by
    cases p with
    | none => exact ⟨none, none, by xsS [hL0], by simp [containedFuel, cont, parentOf]⟩
    | pkg i =>
      cases hc : findContainer cs false i with
      | none => exact ⟨none, none, by xsS [hL0, hc], by simp [containedFuel, cont, parentOf, hc]⟩
      | some k =>
        refine ⟨some k, none, by xsS [hL0, hc], ?_⟩
        have hid := (findContainer_spec hc).2.2
        subst hid
        simp only [containedFuel, hc, cont, parentOf, any_referrers, Option.map_some]
        simp
        first
          | rfl
          | (congr 1; congr 1; funext r; cases findContainer cs false r.referring <;> rfl)
    | comp c =>
      cases hc : findContainer cs true c with
      | none => exact ⟨none, none, by xsS [hL0, hc], by simp [containedFuel, cont, parentOf, hc]⟩
      | some k =>
        refine ⟨none, some (SI.comp k), by xsS [hL0, hc], ?_⟩
        have hiff : (kr = k) ↔ (c = root) := by
          constructor
          · intro h; subst h
            have h1 := (findContainer_spec hc).2.2
            have h2 := (findContainer_spec hkr).2.2
            omega
          · intro h; subst h
            rw [hkr] at hc; exact Option.some.inj hc
        by_cases hcr : c = root
        · simp [containedFuel, cont, parentOf, hc, hcr, hiff.mpr hcr, hkr]
        · have : ¬ kr = k := fun h => hcr (hiff.mp h)
          simp [containedFuel, cont, parentOf, hc, hcr, this]
  rw [hnav] at hrun
  rw [hmodel]
  have h1 : ((L0.set "ep_pkg" (.inst (epk.map SI.pkg))).set "c_c" (.inst cco)) "ep_pkg" = .inst (epk.map SI.pkg) := by simp [Loc.set]
  have h2 : ((L0.set "ep_pkg" (.inst (epk.map SI.pkg))).set "c_c" (.inst cco)) "c_c" = .inst cco := by simp [Loc.set]
  have h3 : ((L0.set "ep_pkg" (.inst (epk.map SI.pkg))).set "c_c" (.inst cco)) "root" = .inst (some (SI.comp kr)) := by
    simp [Loc.set, hR]
  rcases cicIf_sound cs rf root kr cf f fuel hs _ cco _ C h1 h2 h3 with ⟨e, he⟩ | ⟨he, hB⟩ | ⟨he, hB⟩
  · rw [he] at hrun; simp [thenStep, retOf] at hrun
  · rw [he] at hrun
    simp [thenStep, retOf, iStmts] at hrun
    rw [hB]; simp [hrun]
  · rw [he] at hrun
    simp only [thenStep, iStmts] at hrun
    obtain ⟨hv, hC⟩ := cicTail_sound cs rf root kr cf f fuel hs epk _ C h1 h3 v C' hrun
    subst hC
    rw [hB, hv]
    cases epk <;> simp


/-- whenever `is_contained_in(x, root)` returns at recursion depth f (x None, a PE_PE, an EP_PKG or a C_C; root the C_C with id
    `root`), it returns `containedFuel cs rf root f` of the Parent x stands for (False for None) and defines nothing -/
theorem contained_sound_interp (cs : List Container) (rf : List PkgRef) (root : Nat) (kr : Container)
    (hkr : findContainer cs true root = some kr) : ∀ f, SoundF cs rf root kr (callAt (scopeWorld cs rf) defs f) f := by
  intro f
  induction f with
  | zero => intro xo Lc C v C' h; simp [callAt] at h
  | succ f ih =>
    intro xo Lc C v C' h
    rw [callAt_def _ _ f _ _ _ _ _ rfl lookup_is_contained_in rfl] at h
    cases xo with
    | none =>
      xsS [is_contained_in] at h
      simp [cont, parentOf, ← h.1, h.2]
    | some x =>
      cases x with
      | pe q =>
        have := cic_key cs rf root kr hkr _ f f ih q
          ((Loc.empty.set "pe_pe" (.inst (some (SI.pe q)))).set "root" (.inst (some (SI.comp kr)))) C v C'
          (by simp [Loc.set]) (by simp [Loc.set]) (by xsS [is_contained_in] at h ⊢; exact h)
        simpa [cont, parentOf] using this
      | pkg k =>
        have := cic_key cs rf root kr hkr _ f f ih k.parent
          (((Loc.empty.set "pe_pe" (.inst (some (SI.pkg k)))).set "root" (.inst (some (SI.comp kr)))).set "pe_pe"
            (.inst (some (SI.pe k.parent)))) C v C'
          (by simp [Loc.set]) (by simp [Loc.set]) (by xsS [is_contained_in] at h ⊢; exact h)
        simpa [cont, parentOf] using this
      | comp k =>
        have := cic_key cs rf root kr hkr _ f f ih k.parent
          (((Loc.empty.set "pe_pe" (.inst (some (SI.comp k)))).set "root" (.inst (some (SI.comp kr)))).set "pe_pe"
            (.inst (some (SI.pe k.parent)))) C v C'
          (by simp [Loc.set]) (by simp [Loc.set]) (by xsS [is_contained_in] at h ⊢; exact h)
        simpa [cont, parentOf] using this

end Pyx.XShape
