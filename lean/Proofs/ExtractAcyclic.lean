import Proofs.ExtractScope

/-!
  C14 / C20 — the domain `TreeOk` is plain ACYCLICITY: the bound "rank ≤ number of container rows" that `TreeOk` carries
  (it is what makes the fuel `cs.length + 1` of `containedIn` / `isGlobal` sufficient) can always be met — any rank that
  drops along the containment and reference steps can be compressed to one that is bounded by the number of container
  rows (count the container rows of rank at most one's own).
-/

namespace Pyx.Extract

/-- the node a container row is for the walk: `.comp Id` / `.pkg Package_ID` -/
def Container.self (k : Container) : Parent := if k.isComp then .comp k.id else .pkg k.id

theorem filter_length_lt {α : Type} {P P' : α → Bool} :
    ∀ l : List α, (∀ x ∈ l, P' x = true → P x = true) → (∃ x ∈ l, P x = true ∧ P' x = false) →
      (l.filter P').length < (l.filter P).length := by
  intro l
  induction l with
  | nil => rintro _ ⟨x, hx, _⟩; cases hx
  | cons a t ih =>
    intro himp hex
    have hle : (t.filter P').length ≤ (t.filter P).length := by
      clear ih hex
      induction t with
      | nil => exact Nat.le_refl _
      | cons b u ihu =>
        have hb := himp b (by simp)
        have := ihu (fun x hx h => himp x (by
          rcases List.mem_cons.mp hx with rfl | hx
          · simp
          · simp [hx]) h)
        simp only [List.filter_cons]
        cases hp' : P' b
        · cases hp : P b
          · simpa using this
          · simp only [Bool.false_eq_true, if_false, if_true, List.length_cons]; omega
        · simp only [hb hp', if_true, List.length_cons]; omega
    simp only [List.filter_cons]
    obtain ⟨x, hx, hpx, hpx'⟩ := hex
    rcases List.mem_cons.mp hx with rfl | hxt
    · simp only [hpx, hpx', if_true, Bool.false_eq_true, if_false, List.length_cons]; omega
    · have := ih (fun y hy h => himp y (List.mem_cons_of_mem _ hy) h) ⟨x, hxt, hpx, hpx'⟩
      cases hp' : P' a
      · cases hp : P a
        · simpa using this
        · simp only [Bool.false_eq_true, if_false, if_true, List.length_cons]; omega
      · simp only [himp a (by simp) hp', if_true, List.length_cons]; omega

/-- ACYCLIC = `TreeOk`: a rank (ANY natural-valued function) that drops from every container row to its parent and from
    every referred package (that exists) to the parent of every package referring to it (that exists) — i.e. the graph
    `is_contained_in` walks has no cycle — is all the domain asks; the bounded rank `TreeOk` wants exists then -/
theorem TreeOk.of_acyclic {cs : List Container} {rf : List PkgRef} (depth : Parent → Nat)
    (h1 : ∀ k ∈ cs, depth k.parent < depth (if k.isComp then .comp k.id else .pkg k.id))
    (h2 : ∀ r ∈ rf, ∀ k kq, findContainer cs false r.referred = some k → findContainer cs false r.referring = some kq →
      depth kq.parent < depth (.pkg r.referred)) : TreeOk cs rf := by
  let S : List Parent := cs.map Container.self
  let rank : Parent → Nat := fun p =>
    if p ∈ S then (S.filter (fun s => decide (depth s ≤ depth p))).length else 0
  have step : ∀ p p', p ∈ S → depth p' < depth p → rank p' < rank p := by
    intro p p' hp hlt
    have hpos : rank p = (S.filter (fun s => decide (depth s ≤ depth p))).length := by
      show (if p ∈ S then _ else 0) = _
      rw [if_pos hp]
    rw [hpos]
    by_cases hp' : p' ∈ S
    · have : rank p' = (S.filter (fun s => decide (depth s ≤ depth p'))).length := by
        show (if p' ∈ S then _ else 0) = _
        rw [if_pos hp']
      rw [this]
      apply filter_length_lt
      · intro x _ hx
        simp only [decide_eq_true_eq] at hx ⊢
        omega
      · refine ⟨p, hp, ?_, ?_⟩
        · simp
        · simp only [decide_eq_false_iff_not]; omega
    · have : rank p' = 0 := by
        show (if p' ∈ S then _ else 0) = _
        rw [if_neg hp']
      rw [this]
      apply List.length_pos_of_mem (a := p)
      exact List.mem_filter.mpr ⟨hp, by simp⟩
  refine ⟨⟨rank, ?_, ?_, ?_⟩⟩
  · intro k hk
    exact step _ _ (List.mem_map.mpr ⟨k, hk, rfl⟩) (h1 k hk)
  · intro r hr k kq hk hq
    obtain ⟨hm, hb, hi⟩ := findContainer_spec hk
    have hs : Parent.pkg r.referred ∈ S :=
      List.mem_map.mpr ⟨k, hm, by unfold Container.self; rw [hb, hi]; rfl⟩
    exact step _ _ hs (h2 r hr k kq hk hq)
  · intro p
    show (if p ∈ S then _ else 0) ≤ cs.length
    split
    · calc (S.filter _).length ≤ S.length := List.length_filter_le _ _
        _ = cs.length := List.length_map _
    · exact Nat.zero_le _

/-- `TreeOk` is exactly acyclicity -/
theorem treeOk_iff_acyclic {cs : List Container} {rf : List PkgRef} :
    TreeOk cs rf ↔ ∃ depth : Parent → Nat,
      (∀ k ∈ cs, depth k.parent < depth (if k.isComp then .comp k.id else .pkg k.id)) ∧
      (∀ r ∈ rf, ∀ k kq, findContainer cs false r.referred = some k → findContainer cs false r.referring = some kq →
        depth kq.parent < depth (.pkg r.referred)) := by
  constructor
  · rintro ⟨depth, h1, h2, _⟩; exact ⟨depth, h1, h2⟩
  · rintro ⟨depth, h1, h2⟩; exact TreeOk.of_acyclic depth h1 h2

end Pyx.Extract
