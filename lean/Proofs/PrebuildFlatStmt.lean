import Proofs.PrebuildFlat

/-
  C05 / C06 — statement / block level of the flat population model: what one `accept_<statement node>` call and the
  statement-list loop do to the builder state, and that `regenSmt` / `regenChain` read it back.
    TS p        every reverse-searched key of a row (the supertype a subtype row names, Block_ID and
                Previous_Statement_ID of an ACT_SMT, If_Statement_ID of an ACT_EL / ACT_E) names an EARLIER row
-/
set_option linter.unusedSimpArgs false
set_option linter.unusedVariables false

namespace Pyx.Prebuild.Flat
open Pyx.Prebuild

/-- the keys sourcegen searches BACKWARDS for: R602 / R661 of an ACT_SMT, R682 / R683 of an ACT_EL / ACT_E -/
def skeys : Row → List Nat
  | .smt b p => b :: p.toList
  | .el _ _ _ i => [i]
  | .e _ _ i => [i]
  | _ => []

/-- every key of a row names an earlier row -/
def TS (p : FlatPop) : Prop := ∀ (i : Nat) (r : Row), p[i]? = some r →
  (∀ k, r.valOf = some k → k < i) ∧ (∀ k, r.smtOf = some k → k < i) ∧ (∀ k ∈ skeys r, k < i)

theorem TS.tsv {p : FlatPop} (h : TS p) : TSv p := fun i r k hi hk => (h i r hi).1 k hk

theorem TS.append {p d : FlatPop} (h : TS p)
    (hd : ∀ (j : Nat) (r : Row), d[j]? = some r →
      (∀ k, r.valOf = some k → k < p.length + j) ∧ (∀ k, r.smtOf = some k → k < p.length + j) ∧
      (∀ k ∈ skeys r, k < p.length + j)) : TS (p ++ d) := by
  intro i r hi
  by_cases hlt : i < p.length
  · rw [List.getElem?_append_left hlt] at hi; exact h i r hi
  · rw [List.getElem?_append_right (by omega)] at hi
    have := hd (i - p.length) r hi
    have e : p.length + (i - p.length) = i := by omega
    rw [e] at this; exact this

theorem TS.append1 {p : FlatPop} (h : TS p) (r : Row)
    (hr : (∀ k, r.valOf = some k → k < p.length) ∧ (∀ k, r.smtOf = some k → k < p.length) ∧
      (∀ k ∈ skeys r, k < p.length)) : TS (p ++ [r]) := by
  apply h.append
  intro j x hj
  match j, hj with
  | 0, hj => simp at hj; subst hj; simpa using hr
  | j + 1, hj => simp at hj

/-- the rows an expression adds keep `TS` -/
theorem TS.expr {fc : FCtx} {e : Expr} {st : St} (h : TS st.pop) (hs : ExprSpec fc e st) :
    TS (buildExpr fc e st).2.pop := by
  obtain ⟨d, hd, _, hk, ho⟩ := hs.grows
  intro i r hi
  have htv := hs.tsv i r
  by_cases hlt : i < st.pop.length
  · rw [hd, List.getElem?_append_left hlt] at hi; exact h i r hi
  · have hmem : r ∈ d := by
      rw [hd, List.getElem?_append_right (by omega)] at hi
      exact List.mem_of_getElem? hi
    obtain ⟨h1, h2, h3, h4⟩ := ho r hmem
    refine ⟨fun k hk' => htv k hi hk', ?_, ?_⟩
    · intro k hk'; rw [h1] at hk'; cases hk'
    · intro k hk'
      cases r with
      | smt b p => exact absurd rfl (h3 b p)
      | el _ _ _ _ => simp [Row.smtOf] at h1
      | e _ _ _ => simp [Row.smtOf] at h1
      | _ => simp [skeys] at hk'

/-- `subtype(act_smt, 603)` finds the row at index `j`: nothing between the statement and `j` claims the statement -/
theorem smtSub_at {p : FlatPop} {s j : Nat} {sub : Row} (hts : TS p) (hsub : p[j]? = some sub)
    (hv : sub.smtOf = some s) (hmid : ∀ i x, s < i → i < j → p[i]? = some x → x.smtOf ≠ some s)
    (ext : List Row) : smtSub (p ++ ext) s = some sub := by
  unfold smtSub
  have hlt : j < p.length := by
    rcases Nat.lt_or_ge j p.length with h' | h'
    · exact h'
    · simp [List.getElem?_eq_none h'] at hsub
  apply find?_at (n := j)
  · intro i x hi hx
    rw [List.getElem?_append_left (by omega)] at hx
    cases hxv : x.smtOf with
    | none => simp
    | some k =>
      have hk := (hts i x hx).2.1 k hxv
      by_cases hks : k = s
      · subst hks
        exact absurd hxv (hmid i x hk hi hx)
      · simp [hks]
  · rw [List.getElem?_append_left hlt]; exact hsub
  · simp [hv]

/-! ### statements -/

/-- R682 / R683 keys -/
def ikeys : Row → List Nat
  | .el _ _ _ i => [i]
  | .e _ _ i => [i]
  | _ => []

/-- navigation depth of a statement / a statement list (fuel of `regenSmt` / `regenChain`) -/
def szS : Stmt → Nat
  | .assign l r => szV l + szV r + 1
  | .ret (some e) => szV e + 1
  | .selFromW _ _ _ w => szV w + 1
  | _ => 1

def szB : Block → Nat
  | .nil => 1
  | .cons s rest => szS s + szB rest + 1

/-- what later rows must NOT do for the rows of ONE statement (index `lo`, rows up to `hi`) to read back the same:
    name a block or a predecessor strictly inside, or an `if` inside -/
def FreshS (lo hi : Nat) (ext : List Row) : Prop := ∀ x ∈ ext,
  (∀ b' p, x = .smt b' p → (b' ≤ lo ∨ hi ≤ b') ∧ ∀ k, p = some k → k ≤ lo ∨ hi ≤ k) ∧ (∀ k ∈ ikeys x, k < lo ∨ hi ≤ k)

/-- … for the rows of a statement LIST starting at `lo`: no key inside at all -/
def FreshC (lo hi : Nat) (ext : List Row) : Prop := ∀ x ∈ ext, ∀ k ∈ skeys x, k < lo ∨ hi ≤ k

/-- the builder invariant -/
structure Inv (st : St) : Prop where
  ts : TS st.pop
  sym : SymOK st
  blk : ∃ b, curBlk st.scopes = some b ∧ b < st.pop.length

theorem Inv.curBlkD {st : St} (h : Inv st) : curBlkD st.scopes < st.pop.length := by
  obtain ⟨b, hb, hlt⟩ := h.blk
  simp [Flat.curBlkD, hb, hlt]

theorem Inv.isSome {st : St} (h : Inv st) : (curBlk st.scopes).isSome = true := by
  obtain ⟨b, hb, _⟩ := h.blk
  simp [hb]

/-- what one `accept_<statement node>` call does to the builder state -/
structure StmtSpec (fc : FCtx) (prev : Option Nat) (s : Stmt) (st : St) : Prop where
  ok0 : st.ok = true
  fst : (buildStmt fc prev s st).1 = st.pop.length
  grows : ∃ d' : List Row, (buildStmt fc prev s st).2.pop = st.pop ++ (.smt (curBlkD st.scopes) prev :: d') ∧
    szS s ≤ d'.length ∧
    (∀ x ∈ d', (∀ k, x.smtOf = some k → st.pop.length ≤ k) ∧
      (∀ b' p, x = .smt b' p → (b' = curBlkD st.scopes ∨ st.pop.length < b') ∧ ∀ k, p = some k → st.pop.length < k) ∧
      (∀ k ∈ ikeys x, st.pop.length ≤ k))
  inv : Inv (buildStmt fc prev s st).2
  shape : curBlk (buildStmt fc prev s st).2.scopes = curBlk st.scopes ∧
    (buildStmt fc prev s st).2.scopes.tail = st.scopes.tail
  sub : ∀ ext : List Row, ∃ row, smtSub ((buildStmt fc prev s st).2.pop ++ ext) st.pop.length = some row ∧
    ikeys row = []
  regen : ∀ (ext : List Row) (fuel : Nat), FreshS st.pop.length (buildStmt fc prev s st).2.pop.length ext →
    szS s ≤ fuel → regenSmt ((buildStmt fc prev s st).2.pop ++ ext) fuel st.pop.length = genStmt s

/-- a statement without nested blocks: ACT_SMT, then value / variable rows, then the R603 subtype row -/
theorem simple_spec {fc : FCtx} {prev : Option Nat} {s : Stmt} {st : St} (mid : St) (sub : Row)
    (hb : buildStmt fc prev s st = (st.pop.length, (mid.new sub).2))
    (hinv : Inv st) (hok0 : st.ok = true)
    (hmid : ∃ dm : List Row, mid.pop = st.pop ++ (.smt (curBlkD st.scopes) prev :: dm) ∧ szS s ≤ dm.length + 1 ∧
      ∀ x ∈ dm, x.smtOf = none ∧ skeys x = [])
    (hts : TS mid.pop) (hsym : SymOK mid)
    (hshape : curBlk mid.scopes = curBlk st.scopes ∧ mid.scopes.tail = st.scopes.tail)
    (hsub : sub.smtOf = some st.pop.length) (hsk : skeys sub = []) (hval : sub.valOf = none)
    (hregen : ∀ (ext : List Row) (fuel : Nat), szS s ≤ fuel →
      smtSub (mid.pop ++ [sub] ++ ext) st.pop.length = some sub →
      regenSmt (mid.pop ++ [sub] ++ ext) fuel st.pop.length = genStmt s) :
    StmtSpec fc prev s st := by
  obtain ⟨dm, hdm, hsz, hrows⟩ := hmid
  have hlen : mid.pop.length = st.pop.length + 1 + dm.length := by rw [hdm]; simp; omega
  have hts' : TS (mid.pop ++ [sub]) := by
    apply hts.append1
    refine ⟨fun k hk => (by rw [hval] at hk; cases hk), fun k hk => ?_, fun k hk => (by rw [hsk] at hk; cases hk)⟩
    rw [hsub] at hk; cases hk; omega
  have hik : ikeys sub = [] := by cases sub <;> simp [ikeys, skeys] at hsk ⊢
  have hfind : ∀ ext, smtSub (mid.pop ++ [sub] ++ ext) st.pop.length = some sub := by
    intro ext
    apply smtSub_at (j := mid.pop.length) hts' (by simp) hsub
    intro i x hi hj hx
    rw [List.getElem?_append_left hj, hdm, List.getElem?_append_right (by omega)] at hx
    have : i - st.pop.length = (i - st.pop.length - 1) + 1 := by omega
    rw [this, List.getElem?_cons_succ] at hx
    have := (hrows x (List.mem_of_getElem? hx)).1
    rw [this]; simp
  refine ⟨hok0, by rw [hb], ⟨dm ++ [sub], ?_, ?_, ?_⟩, ⟨?_, ?_, ?_⟩, ?_, ?_, ?_⟩
  · rw [hb]; simp [hdm]
  · simp; omega
  · intro x hx
    rcases List.mem_append.1 hx with h | h
    · obtain ⟨h1, h2⟩ := hrows x h
      refine ⟨fun k hk => (by rw [h1] at hk; cases hk), ?_, ?_⟩
      · intro b' p hxe; subst hxe; simp [skeys] at h2
      · intro k hk; cases x <;> simp [ikeys, skeys] at hk h2
    · simp at h; subst h
      refine ⟨fun k hk => (by rw [hsub] at hk; cases hk; exact Nat.le_refl _), ?_, fun k hk => (by rw [hik] at hk; cases hk)⟩
      intro b' p hxe; subst hxe; simp [skeys] at hsk
  · rw [hb]; exact hts'
  · rw [hb]; exact hsym.mono (st' := (mid.new sub).2) rfl (d := [sub]) rfl
  · obtain ⟨b, hbk, hlt⟩ := hinv.blk
    rw [hb]
    refine ⟨b, by simpa [hshape.1] using hbk, ?_⟩
    simp; omega
  · rw [hb]; exact hshape
  · intro ext; rw [hb]; exact ⟨sub, hfind ext, hik⟩
  · intro ext fuel _ hf
    rw [hb]
    exact hregen ext fuel hf (hfind ext)

@[simp] theorem newSmt_fst (prev : Option Nat) (st : St) : (newSmt prev st).1 = st.pop.length := by simp [newSmt]
@[simp] theorem newSmt_pop (prev : Option Nat) (st : St) :
    (newSmt prev st).2.pop = st.pop ++ [.smt (curBlkD st.scopes) prev] := by simp [newSmt]
@[simp] theorem newSmt_scopes (prev : Option Nat) (st : St) : (newSmt prev st).2.scopes = st.scopes := by simp [newSmt]
@[simp] theorem newSmt_ok (prev : Option Nat) (st : St) :
    (newSmt prev st).2.ok = (st.ok && (curBlk st.scopes).isSome) := by simp [newSmt]

theorem newSmt_ts {prev : Option Nat} {st : St} (hinv : Inv st) (hprev : ∀ k, prev = some k → k < st.pop.length) :
    TS (newSmt prev st).2.pop := by
  rw [newSmt_pop]
  apply hinv.ts.append1
  refine ⟨fun k hk => (by simp [Row.valOf] at hk), fun k hk => (by simp [Row.smtOf] at hk), ?_⟩
  intro k hk
  simp [skeys] at hk
  rcases hk with rfl | hk
  · exact hinv.curBlkD
  · exact hprev k hk

theorem newSmt_sym {prev : Option Nat} {st : St} (hinv : Inv st) : SymOK (newSmt prev st).2 :=
  hinv.sym.mono (newSmt_scopes prev st) (newSmt_pop prev st)

/-- the statements the statement-level theorem covers (no nested block; instance names other than `self`) -/
def coreS : Stmt → Bool
  | .brk | .cont | .ctl | .ret none | .createNV _ => true
  | .ret (some e) => coreE e
  | .delete v => v != "self"
  | .relate a b _ _ | .unrelate a b _ _ => a != "self" && b != "self"
  | .relateU a b _ _ u | .unrelateU a b _ _ u => a != "self" && b != "self" && u != "self"
  | _ => false

theorem regenVar_name {q : FlatPop} {v : Nat} {n : String} {b : Nat} (h : q[v]? = some (.var n b)) :
    regenVar q v = [nameTok n] := by simp [regenVar, h]

/-- a symbol found in the state `m` is still the same V_VAR row in any population that extends `m.pop` -/
theorem sym_row {m : St} (hs : SymOK m) {n : String} {v : Nat} (hf : findSym m.scopes n = some v) (d : List Row) :
    ∃ b, (m.pop ++ d)[v]? = some (.var n b) := by
  obtain ⟨b, hb⟩ := hs n v hf
  refine ⟨b, ?_⟩
  have : v < m.pop.length := by
    rcases Nat.lt_or_ge v m.pop.length with h' | h'
    · exact h'
    · simp [List.getElem?_eq_none h'] at hb
  rw [List.getElem?_append_left this]; exact hb

theorem fuel_succ {n : Nat} (h : 1 ≤ n) : ∃ f, n = f + 1 := ⟨n - 1, by omega⟩

/-- statements that are an ACT_SMT followed at once by the subtype row -/
theorem bare_spec {fc : FCtx} {prev : Option Nat} {s : Stmt} {st : St} (sub : Row) (c : Bool)
    (hb : buildStmt fc prev s st = (st.pop.length, ((newSmt prev (st.guard c)).2.new sub).2))
    (hinv : Inv st) (hprev : ∀ k, prev = some k → k < st.pop.length)
    (hok : (buildStmt fc prev s st).2.ok = true) (hsz : szS s = 1)
    (hsub : sub.smtOf = some st.pop.length) (hsk : skeys sub = []) (hval : sub.valOf = none)
    (hregen : ∀ (ext : List Row) (f : Nat), smtSub ((newSmt prev st).2.pop ++ [sub] ++ ext) st.pop.length = some sub →
      regenSmt ((newSmt prev st).2.pop ++ [sub] ++ ext) (f + 1) st.pop.length = genStmt s) :
    StmtSpec fc prev s st := by
  have hok0 : st.ok = true := by
    rw [hb] at hok; simp at hok; exact hok.1.1
  have hg : (newSmt prev (st.guard c)).2.pop = (newSmt prev st).2.pop := by simp
  apply simple_spec (newSmt prev (st.guard c)).2 sub (by rw [hb]) hinv hok0
  · exact ⟨[], by simp, by simp [hsz], by simp⟩
  · rw [hg]; exact newSmt_ts hinv hprev
  · exact hinv.sym.mono (by simp) (d := [.smt (curBlkD st.scopes) prev]) (by simp)
  · simp
  · exact hsub
  · exact hsk
  · exact hval
  · intro ext fuel hf hs
    rw [hsz] at hf
    obtain ⟨f, rfl⟩ := fuel_succ hf
    rw [hg] at hs ⊢
    exact hregen ext f hs

theorem guard_true (st : St) : st.guard true = st := by simp [St.guard]

theorem buildStmt_spec (fc : FCtx) (s : Stmt) (prev : Option Nat) (st : St) (hc : coreS s = true) (hinv : Inv st)
    (hprev : ∀ k, prev = some k → k < st.pop.length) (hok : (buildStmt fc prev s st).2.ok = true) :
    StmtSpec fc prev s st := by
  cases s with
  | brk =>
    exact bare_spec (.brk st.pop.length) true (by simp [buildStmt, guard_true]) hinv hprev hok rfl rfl rfl rfl
      (fun ext f h => by simp only [regenSmt, h, genStmt])
  | cont =>
    exact bare_spec (.con st.pop.length) true (by simp [buildStmt, guard_true]) hinv hprev hok rfl rfl rfl rfl
      (fun ext f h => by simp only [regenSmt, h, genStmt])
  | ctl =>
    exact bare_spec (.ctl st.pop.length) true (by simp [buildStmt, guard_true]) hinv hprev hok rfl rfl rfl rfl
      (fun ext f h => by simp only [regenSmt, h, genStmt])
  | createNV kl =>
    exact bare_spec (.cnv st.pop.length kl) (fc.classes.contains kl) (by simp [buildStmt]) hinv hprev hok rfl rfl rfl rfl
      (fun ext f h => by simp only [regenSmt, h, genStmt])
  | ret oe =>
    cases oe with
    | none =>
      exact bare_spec (.ret st.pop.length none) true (by simp [buildStmt, guard_true]) hinv hprev hok rfl rfl rfl rfl
        (fun ext f h => by simp only [regenSmt, h, genStmt])
    | some e =>
      simp only [coreS] at hc
      have hokE : (buildExpr fc e (newSmt prev st).2).2.ok = true := by simpa [buildStmt] using hok
      have E := buildExpr_spec fc e (newSmt prev st).2 hc (newSmt_sym hinv) (newSmt_ts hinv hprev).tsv hokE
      obtain ⟨d, hd, hl, hk, ho⟩ := E.grows
      have hok0 : st.ok = true := by have := E.ok0; simp at this; exact this.1
      apply simple_spec (buildExpr fc e (newSmt prev st).2).2 (.ret st.pop.length (some (buildExpr fc e (newSmt prev st).2).1))
        (by simp [buildStmt]) hinv hok0
      · refine ⟨d, by rw [hd]; simp, by simp [szS]; omega, ?_⟩
        intro x hx
        obtain ⟨h1, _, h3, _⟩ := ho x hx
        refine ⟨h1, ?_⟩
        cases x with
        | smt b p => exact absurd rfl (h3 b p)
        | el _ _ _ _ => simp [Row.smtOf] at h1
        | e _ _ _ => simp [Row.smtOf] at h1
        | _ => rfl
      · exact (newSmt_ts hinv hprev).expr E
      · exact E.symOK (newSmt_sym hinv)
      · rw [E.scopes]; simp
      · rfl
      · rfl
      · rfl
      · intro ext fuel hf hs
        simp only [szS] at hf
        obtain ⟨f, rfl⟩ := fuel_succ (by omega : 1 ≤ fuel)
        have := E.regen ([.ret st.pop.length (some (buildExpr fc e (newSmt prev st).2).1)] ++ ext) f (by omega)
        rw [← List.append_assoc] at this
        simp only [regenSmt, hs, genStmt, this]
  | delete v =>
    simp only [coreS, bne_iff_ne, ne_eq] at hc
    have hl : (needVar fc v (newSmt prev st).2).2.ok = true := by simpa [buildStmt] using hok
    obtain ⟨x, hf, hnv⟩ := needVar_ok hl hc
    refine bare_spec (.del st.pop.length x) true (by simp [buildStmt, hnv, guard_true]) hinv hprev hok rfl rfl rfl rfl ?_
    intro ext f h
    obtain ⟨b, hb⟩ := sym_row (newSmt_sym (prev := prev) hinv) hf ([.del st.pop.length x] ++ ext)
    rw [← List.append_assoc] at hb
    simp only [regenSmt, h, genStmt, regenVar_name hb]
    rfl
  | relate a b r ph =>
    simp only [coreS, bne_iff_ne, ne_eq, Bool.and_eq_true, decide_eq_true_eq] at hc
    have hl2 : (needVar fc b (needVar fc a (newSmt prev st).2).2).2.ok = true := by simpa [buildStmt] using hok
    have hl1 : (needVar fc a (newSmt prev st).2).2.ok = true := needVar_ok_mono hl2
    obtain ⟨x, hfx, hnx⟩ := needVar_ok hl1 hc.1
    rw [hnx] at hl2
    obtain ⟨y, hfy, hny⟩ := needVar_ok hl2 hc.2
    refine bare_spec (.rel st.pop.length x y r ph) true (by simp [buildStmt, hnx, hny, guard_true]) hinv hprev hok
      rfl rfl rfl rfl ?_
    intro ext f h
    obtain ⟨bx, hbx⟩ := sym_row (newSmt_sym (prev := prev) hinv) hfx ([.rel st.pop.length x y r ph] ++ ext)
    obtain ⟨by', hby⟩ := sym_row (newSmt_sym (prev := prev) hinv) hfy ([.rel st.pop.length x y r ph] ++ ext)
    rw [← List.append_assoc] at hbx hby
    simp only [regenSmt, h, genStmt, regenVar_name hbx, regenVar_name hby, phraseOf, phraseToks]
    rfl
  | unrelate a b r ph =>
    simp only [coreS, bne_iff_ne, ne_eq, Bool.and_eq_true, decide_eq_true_eq] at hc
    have hl2 : (needVar fc b (needVar fc a (newSmt prev st).2).2).2.ok = true := by simpa [buildStmt] using hok
    have hl1 : (needVar fc a (newSmt prev st).2).2.ok = true := needVar_ok_mono hl2
    obtain ⟨x, hfx, hnx⟩ := needVar_ok hl1 hc.1
    rw [hnx] at hl2
    obtain ⟨y, hfy, hny⟩ := needVar_ok hl2 hc.2
    refine bare_spec (.unr st.pop.length x y r ph) true (by simp [buildStmt, hnx, hny, guard_true]) hinv hprev hok
      rfl rfl rfl rfl ?_
    intro ext f h
    obtain ⟨bx, hbx⟩ := sym_row (newSmt_sym (prev := prev) hinv) hfx ([.unr st.pop.length x y r ph] ++ ext)
    obtain ⟨by', hby⟩ := sym_row (newSmt_sym (prev := prev) hinv) hfy ([.unr st.pop.length x y r ph] ++ ext)
    rw [← List.append_assoc] at hbx hby
    simp only [regenSmt, h, genStmt, regenVar_name hbx, regenVar_name hby, phraseOf, phraseToks]
    rfl
  | relateU a b r ph u =>
    simp only [coreS, bne_iff_ne, ne_eq, Bool.and_eq_true, decide_eq_true_eq] at hc
    have hl3 : (needVar fc u (needVar fc b (needVar fc a (newSmt prev st).2).2).2).2.ok = true := by simpa [buildStmt] using hok
    have hl2 : (needVar fc b (needVar fc a (newSmt prev st).2).2).2.ok = true := needVar_ok_mono hl3
    have hl1 : (needVar fc a (newSmt prev st).2).2.ok = true := needVar_ok_mono hl2
    obtain ⟨x, hfx, hnx⟩ := needVar_ok hl1 hc.1.1
    rw [hnx] at hl2 hl3
    obtain ⟨y, hfy, hny⟩ := needVar_ok hl2 hc.1.2
    rw [hny] at hl3
    obtain ⟨z, hfz, hnz⟩ := needVar_ok hl3 hc.2
    refine bare_spec (.ru st.pop.length x y z r ph) true (by simp [buildStmt, hnx, hny, hnz, guard_true]) hinv hprev hok
      rfl rfl rfl rfl ?_
    intro ext f h
    obtain ⟨bx, hbx⟩ := sym_row (newSmt_sym (prev := prev) hinv) hfx ([.ru st.pop.length x y z r ph] ++ ext)
    obtain ⟨by', hby⟩ := sym_row (newSmt_sym (prev := prev) hinv) hfy ([.ru st.pop.length x y z r ph] ++ ext)
    obtain ⟨bz, hbz⟩ := sym_row (newSmt_sym (prev := prev) hinv) hfz ([.ru st.pop.length x y z r ph] ++ ext)
    rw [← List.append_assoc] at hbx hby hbz
    simp only [regenSmt, h, genStmt, regenVar_name hbx, regenVar_name hby, regenVar_name hbz, phraseOf, phraseToks]
    simp
  | unrelateU a b r ph u =>
    simp only [coreS, bne_iff_ne, ne_eq, Bool.and_eq_true, decide_eq_true_eq] at hc
    have hl3 : (needVar fc u (needVar fc b (needVar fc a (newSmt prev st).2).2).2).2.ok = true := by simpa [buildStmt] using hok
    have hl2 : (needVar fc b (needVar fc a (newSmt prev st).2).2).2.ok = true := needVar_ok_mono hl3
    have hl1 : (needVar fc a (newSmt prev st).2).2.ok = true := needVar_ok_mono hl2
    obtain ⟨x, hfx, hnx⟩ := needVar_ok hl1 hc.1.1
    rw [hnx] at hl2 hl3
    obtain ⟨y, hfy, hny⟩ := needVar_ok hl2 hc.1.2
    rw [hny] at hl3
    obtain ⟨z, hfz, hnz⟩ := needVar_ok hl3 hc.2
    refine bare_spec (.uru st.pop.length x y z r ph) true (by simp [buildStmt, hnx, hny, hnz, guard_true]) hinv hprev hok
      rfl rfl rfl rfl ?_
    intro ext f h
    obtain ⟨bx, hbx⟩ := sym_row (newSmt_sym (prev := prev) hinv) hfx ([.uru st.pop.length x y z r ph] ++ ext)
    obtain ⟨by', hby⟩ := sym_row (newSmt_sym (prev := prev) hinv) hfy ([.uru st.pop.length x y z r ph] ++ ext)
    obtain ⟨bz, hbz⟩ := sym_row (newSmt_sym (prev := prev) hinv) hfz ([.uru st.pop.length x y z r ph] ++ ext)
    rw [← List.append_assoc] at hbx hby hbz
    simp only [regenSmt, h, genStmt, regenVar_name hbx, regenVar_name hby, regenVar_name hbz, phraseOf, phraseToks]
    simp
  | _ => simp [coreS] at hc

/-! ### the statement-list loop (R661) -/

def coreB : Block → Bool
  | .nil => true
  | .cons s rest => coreS s && coreB rest

def headOf (n : Nat) : Block → Option Nat
  | .nil => none
  | .cons _ _ => some n

theorem range_find_none {m : Nat} {P : Nat → Bool} (h : ∀ i, i < m → P i = false) : (List.range m).find? P = none := by
  apply List.find?_eq_none.2
  intro x hx
  simp at hx
  simp [h x hx]

theorem range_find_some {m j : Nat} {P : Nat → Bool} (hj : j < m) (hP : P j = true) (h : ∀ i, i < j → P i = false) :
    (List.range m).find? P = some j := by
  apply find?_at (n := j)
  · intro i x hi hx
    have : i < m := by omega
    simp [List.getElem?_range this] at hx
    subst hx; exact h i hi
  · simp [List.getElem?_range hj]
  · exact hP

/-- no row names statement `n` as its predecessor -/
theorem succStmt_none {q : FlatPop} {n : Nat} (h : ∀ x ∈ q, ∀ b', x ≠ .smt b' (some n)) : succStmt q n = none := by
  unfold succStmt
  apply range_find_none
  intro i hi
  cases hq : q[i]? with
  | none => rfl
  | some x =>
    have hm := List.mem_of_getElem? hq
    cases x with
    | smt b' p =>
      cases p with
      | none => rfl
      | some k =>
        by_cases hk : k = n
        · subst hk; exact absurd rfl (h _ hm b')
        · simp [hk]
    | _ => rfl

/-- the row at `j` is the first that names `n` as its predecessor -/
theorem succStmt_some {p ext : FlatPop} {n b' : Nat} (h : ∀ x ∈ p, ∀ b'', x ≠ .smt b'' (some n))
    (hrow : (p ++ ext)[p.length]? = some (.smt b' (some n))) : succStmt (p ++ ext) n = some p.length := by
  unfold succStmt
  have hlt : p.length < (p ++ ext).length := by
    rcases Nat.lt_or_ge p.length (p ++ ext).length with h' | h'
    · exact h'
    · simp [List.getElem?_eq_none h'] at hrow
  apply range_find_some hlt
  · simp [hrow]
  · intro i hi
    rw [List.getElem?_append_left hi]
    cases hq : p[i]? with
    | none => rfl
    | some x =>
      have hm := List.mem_of_getElem? hq
      cases x with
      | smt b'' pp =>
        cases pp with
        | none => rfl
        | some k =>
          by_cases hk : k = n
          · subst hk; exact absurd rfl (h _ hm b'')
          · simp [hk]
      | _ => rfl

/-- the builder is `ok` after EVERY statement of the list (the flag is never set back, so this is `ok` of the final
    state; kept explicit because monotonicity is proved for expressions only) -/
def okAll (fc : FCtx) : Option Nat → Block → St → Bool
  | _, .nil, st => st.ok
  | prev, .cons s rest, st =>
    (buildStmt fc prev s st).2.ok && okAll fc (some (buildStmt fc prev s st).1) rest (buildStmt fc prev s st).2

structure ChainSpec (fc : FCtx) (prev : Option Nat) (ss : Block) (st : St) : Prop where
  ok0 : st.ok = true
  inv : Inv (buildStmts fc prev ss st)
  shape : curBlk (buildStmts fc prev ss st).scopes = curBlk st.scopes ∧
    (buildStmts fc prev ss st).scopes.tail = st.scopes.tail
  grows : ∃ d : List Row, (buildStmts fc prev ss st).pop = st.pop ++ d ∧ szB ss ≤ d.length + 1 ∧
    (∀ s rest, ss = .cons s rest → ∃ d', d = .smt (curBlkD st.scopes) prev :: d') ∧
    (∀ x ∈ d, (∀ b' p, x = .smt b' p → (b' = curBlkD st.scopes ∨ st.pop.length < b') ∧
        ∀ k, p = some k → (p = prev ∨ st.pop.length ≤ k)) ∧ (∀ k ∈ ikeys x, st.pop.length ≤ k))
  first : ∀ (ext : List Row) s rest, ss = .cons s rest →
    ∃ row, smtSub ((buildStmts fc prev ss st).pop ++ ext) st.pop.length = some row ∧ ikeys row = []
  regen : ∀ (ext : List Row) (fuel : Nat), FreshC st.pop.length (buildStmts fc prev ss st).pop.length ext →
    szB ss ≤ fuel → regenChain ((buildStmts fc prev ss st).pop ++ ext) fuel (headOf st.pop.length ss) = genBlock ss

theorem ikeys_sub_skeys (x : Row) : ∀ k ∈ ikeys x, k ∈ skeys x := by
  intro k hk; cases x <;> simp [ikeys, skeys] at hk ⊢ <;> exact hk

theorem buildStmts_spec (fc : FCtx) : ∀ (ss : Block) (prev : Option Nat) (st : St), coreB ss = true → Inv st →
    (∀ k, prev = some k → k < st.pop.length) → okAll fc prev ss st = true → ChainSpec fc prev ss st
  | .nil, prev, st, _, hinv, _, hok => by
    simp only [okAll] at hok
    refine ⟨hok, (by simpa [buildStmts] using hinv), (by simp [buildStmts]), ⟨[], (by simp [buildStmts]), (by simp [szB]),
      (by intro s rest h; cases h), (by simp)⟩, (by intro ext s rest h; cases h), ?_⟩
    intro ext fuel _ hf
    simp only [szB] at hf
    obtain ⟨f, rfl⟩ := fuel_succ hf
    simp [headOf, regenChain, genBlock]
  | .cons s rest, prev, st, hc, hinv, hprev, hok => by
    simp only [coreB, Bool.and_eq_true] at hc
    simp only [okAll, Bool.and_eq_true] at hok
    have S := buildStmt_spec fc s prev st hc.1 hinv hprev hok.1
    have hfst := S.fst
    obtain ⟨d1, hd1, hsz1, hk1⟩ := S.grows
    have hlen1 : (buildStmt fc prev s st).2.pop.length = st.pop.length + 1 + d1.length := by rw [hd1]; simp; omega
    have hprev2 : ∀ k, some (buildStmt fc prev s st).1 = some k → k < (buildStmt fc prev s st).2.pop.length := by
      intro k hk; cases hk; rw [hfst, hlen1]; omega
    have C := buildStmts_spec fc rest (some (buildStmt fc prev s st).1) (buildStmt fc prev s st).2 hc.2 S.inv hprev2 hok.2
    obtain ⟨d2, hd2, hsz2, hhead2, hk2⟩ := C.grows
    have hbs : buildStmts fc prev (.cons s rest) st =
        buildStmts fc (some (buildStmt fc prev s st).1) rest (buildStmt fc prev s st).2 := by simp [buildStmts]
    have hcb : curBlkD (buildStmt fc prev s st).2.scopes = curBlkD st.scopes := by simp [curBlkD, S.shape.1]
    -- no row of the first statement names it as predecessor
    have hno : ∀ x ∈ (buildStmt fc prev s st).2.pop, ∀ b', x ≠ .smt b' (some st.pop.length) := by
      intro x hx b' hxe
      rw [hd1] at hx
      rcases List.mem_append.1 hx with h | h
      · obtain ⟨i, hi⟩ := List.getElem?_of_mem h
        have hlt : i < st.pop.length := by
          rcases Nat.lt_or_ge i st.pop.length with h' | h'
          · exact h'
          · simp [List.getElem?_eq_none h'] at hi
        have := (hinv.ts i x hi).2.2 st.pop.length (by subst hxe; simp [skeys])
        omega
      · simp at h
        rcases h with h | h
        · subst hxe; simp at h
          have := hprev st.pop.length h.2.symm; omega
        · have := ((hk1 x h).2.1 b' _ hxe).2 st.pop.length rfl; omega
    refine ⟨S.ok0, by rw [hbs]; exact C.inv, ?_, ⟨.smt (curBlkD st.scopes) prev :: d1 ++ d2, ?_, ?_, ?_, ?_⟩, ?_, ?_⟩
    · rw [hbs]; exact ⟨C.shape.1.trans S.shape.1, C.shape.2.trans S.shape.2⟩
    · rw [hbs, hd2, hd1]; simp
    · simp [szB]; omega
    · intro s' rest' _; exact ⟨d1 ++ d2, by simp⟩
    · intro x hx
      simp at hx
      rcases hx with rfl | hx | hx
      · refine ⟨?_, by simp [ikeys]⟩
        intro b' p hxe; cases hxe
        exact ⟨.inl rfl, fun k hk => .inl rfl⟩
      · obtain ⟨_, h2, h3⟩ := hk1 x hx
        refine ⟨?_, h3⟩
        intro b' p hxe
        obtain ⟨ha, hb'⟩ := h2 b' p hxe
        exact ⟨ha, fun k hk => .inr (Nat.le_of_lt (hb' k hk))⟩
      · obtain ⟨h2, h3⟩ := hk2 x hx
        refine ⟨?_, fun k hk => by have := h3 k hk; omega⟩
        intro b' p hxe
        obtain ⟨ha, hb'⟩ := h2 b' p hxe
        rw [hcb] at ha
        refine ⟨ha.imp id (fun h => by omega), ?_⟩
        intro k hk
        rcases hb' k hk with h | h
        · right; rw [hk, hfst] at h; cases h; exact Nat.le_refl _
        · right; omega
    · intro ext s' rest' _
      rw [hbs, hd2, List.append_assoc]
      exact S.sub (d2 ++ ext)
    · intro ext fuel hfresh hf
      simp only [szB] at hf
      obtain ⟨f, rfl⟩ := fuel_succ (by omega : 1 ≤ fuel)
      rw [hbs] at hfresh ⊢
      simp only [headOf, regenChain, genBlock]
      -- the statement itself
      have hS : regenSmt ((buildStmts fc (some (buildStmt fc prev s st).1) rest (buildStmt fc prev s st).2).pop ++ ext) f
          st.pop.length = genStmt s := by
        rw [hd2, List.append_assoc]
        apply S.regen (d2 ++ ext) f _ (by omega)
        intro x hx
        rcases List.mem_append.1 hx with h | h
        · obtain ⟨h2, h3⟩ := hk2 x h
          refine ⟨?_, fun k hk => .inr (h3 k hk)⟩
          intro b' p hxe
          obtain ⟨ha, hb'⟩ := h2 b' p hxe
          rw [hcb] at ha
          refine ⟨?_, ?_⟩
          · rcases ha with rfl | ha
            · left; exact Nat.le_of_lt hinv.curBlkD
            · right; omega
          · intro k hk
            rcases hb' k hk with h' | h'
            · left; rw [hk, hfst] at h'; cases h'; exact Nat.le_refl _
            · right; exact h'
        · have hx' := hfresh x h
          rw [hd2] at hx'
          refine ⟨?_, ?_⟩
          · intro b' p hxe
            subst hxe
            refine ⟨?_, ?_⟩
            · have := hx' b' (by simp [skeys]); simp at this; omega
            · intro k hk; subst hk
              have := hx' k (by simp [skeys]); simp at this; omega
          · intro k hk
            have := hx' k (ikeys_sub_skeys x k hk); simp at this; omega
      rw [hS]
      -- the successor
      cases rest with
      | nil =>
        have hnil : buildStmts fc (some (buildStmt fc prev s st).1) .nil (buildStmt fc prev s st).2 =
            (buildStmt fc prev s st).2 := by simp [buildStmts]
        rw [hnil] at hfresh ⊢
        have : succStmt ((buildStmt fc prev s st).2.pop ++ ext) st.pop.length = none := by
          apply succStmt_none
          intro x hx b'
          rcases List.mem_append.1 hx with h | h
          · exact hno x h b'
          · intro hxe; subst hxe
            have := hfresh _ h st.pop.length (by simp [skeys])
            omega
        rw [this]
        have hf1 : 1 ≤ f := by simp [szB] at hf; omega
        obtain ⟨f', rfl⟩ := fuel_succ hf1
        simp [regenChain, genBlock]
      | cons s2 rest2 =>
        obtain ⟨d2', hd2'⟩ := hhead2 s2 rest2 rfl
        have hsucc : succStmt ((buildStmts fc (some (buildStmt fc prev s st).1) (.cons s2 rest2) (buildStmt fc prev s st).2).pop ++ ext)
            st.pop.length = some (buildStmt fc prev s st).2.pop.length := by
          rw [hd2, List.append_assoc]
          apply succStmt_some (b' := curBlkD (buildStmt fc prev s st).2.scopes) hno
          rw [List.getElem?_append_right (Nat.le_refl _), hd2']
          simp [hfst]
        rw [hsucc]
        have := C.regen ext f (by
          intro x hx k hk
          have := hfresh x hx k hk
          omega) (by omega)
        simpa [headOf] using congrArg (fun t => genStmt s ++ [Tok.p Pn.semi] ++ t) this

/-! ### whole bodies -/

/-- the builder state in which `accept_BodyNode` accepts the statement list: the outer ACT_BLK and its scope -/
def bodySt : St := pushScope (.blk 0) (({} : St).new (.blk true)).2

theorem bodySt_inv : Inv bodySt := by
  refine ⟨?_, ?_, ⟨0, rfl, by simp [bodySt, pushScope]⟩⟩
  · intro i r hi
    have := List.mem_of_getElem? hi
    simp [bodySt, pushScope] at this
    subst this
    simp [Row.valOf, Row.smtOf, skeys]
  · intro n v h
    simp [bodySt, pushScope, findSym, List.lookup] at h

theorem isElifOrElse_false {q : FlatPop} {s : Nat} {row : Row} (h : smtSub q s = some row) (hi : ikeys row = []) :
    isElifOrElse q s = false := by
  unfold isElifOrElse
  rw [h]
  cases row <;> simp [ikeys] at hi ⊢

/-- reading back the population of a whole body (`coreB`: statements of `coreS`, no nested block) prints the body -/
theorem regenFlat_prebuildFlat (fc : FCtx) (a : Block) (hc : coreB a = true) (hok : okAll fc none a bodySt = true) :
    regenFlat (prebuildFlat fc a) = genTokens a := by
  have C := buildStmts_spec fc a none bodySt hc bodySt_inv (by intro k h; cases h) hok
  obtain ⟨d, hd, hsz, hhead, _⟩ := C.grows
  have hp : prebuildFlat fc a = (buildStmts fc none a bodySt).pop := by
    simp [prebuildFlat, prebuildSt, popScope, bodySt]
  have hpop : prebuildFlat fc a = .blk true :: d := by rw [hp, hd]; simp [bodySt, pushScope]
  have hlen : (prebuildFlat fc a).length = d.length + 1 := by rw [hpop]; simp
  have houter : outerBlk (prebuildFlat fc a) = some 0 := by
    rw [hpop]; unfold outerBlk; rw [List.findIdx?_cons]; simp
  have hfirst : firstStmt (prebuildFlat fc a) 0 = headOf 1 a := by
    unfold firstStmt
    cases a with
    | nil =>
      have : d = [] := by
        have : (buildStmts fc none .nil bodySt).pop = bodySt.pop := by simp [buildStmts]
        rw [this] at hd; simpa [bodySt, pushScope] using hd.symm
      subst this
      rw [hpop]; simp [headOf]
    | cons s rest =>
      obtain ⟨d', hd'⟩ := hhead s rest rfl
      obtain ⟨row, hrow, hik⟩ := C.first [] s rest rfl
      simp only [List.append_nil, ← hp] at hrow
      have hb0 : curBlkD bodySt.scopes = 0 := rfl
      have hl1 : bodySt.pop.length = 1 := rfl
      rw [hl1] at hrow
      simp only [headOf]
      have hq1 : (prebuildFlat fc (.cons s rest))[1]? = some (.smt 0 none) := by rw [hpop, hd', hb0]; rfl
      have hq0 : (prebuildFlat fc (.cons s rest))[0]? = some (.blk true) := by rw [hpop]; rfl
      apply range_find_some (by rw [hlen, hd']; simp)
      · simp only [hq1]
        simp [isElifOrElse_false hrow hik]
      · intro i hi
        have : i = 0 := by omega
        subst this
        simp only [hq0]
  unfold regenFlat
  rw [houter]
  simp only [regenBlk, hfirst]
  have := C.regen [] (prebuildFlat fc a).length (by intro x hx; cases hx) (by rw [hlen]; exact hsz)
  simp only [List.append_nil, ← hp] at this
  exact this

/-- every reverse-searched key of the population of a whole `coreB` body names an earlier row -/
theorem prebuildFlat_ts (fc : FCtx) (a : Block) (hc : coreB a = true) (hok : okAll fc none a bodySt = true) :
    TS (prebuildFlat fc a) := by
  have C := buildStmts_spec fc a none bodySt hc bodySt_inv (by intro k h; cases h) hok
  have hp : prebuildFlat fc a = (buildStmts fc none a bodySt).pop := by
    simp [prebuildFlat, prebuildSt, popScope, bodySt]
  rw [hp]; exact C.inv.ts

end Pyx.Prebuild.Flat
