import Proofs.PrebuildFlat

/-
  C05 / C06 — statement / block level of the flat population model: what one `accept_<statement node>` call and the
  statement-list loop do to the builder state, and that `regenSmt` / `regenChain` read it back.
    TS p        every reverse-searched key of a row (the supertype a subtype row names, Block_ID and
                Previous_Statement_ID of an ACT_SMT, If_Statement_ID of an ACT_EL / ACT_E) names an EARLIER row
-/
set_option linter.unusedSimpArgs false
set_option linter.unusedVariables false

namespace Pyx.Prebuild.Flat
open Pyx.Prebuild

/-- the keys sourcegen searches BACKWARDS for: R602 / R661 of an ACT_SMT, R682 / R683 of an ACT_EL / ACT_E -/
def skeys : Row → List Nat
  | .smt b p => b :: p.toList
  | .el _ _ _ i => [i]
  | .e _ _ i => [i]
  | _ => []

/-- every key of a row names an earlier row -/
def TS (p : FlatPop) : Prop := ∀ (i : Nat) (r : Row), p[i]? = some r →
  (∀ k, r.valOf = some k → k < i) ∧ (∀ k, r.smtOf = some k → k < i) ∧ (∀ k ∈ skeys r, k < i)

theorem TS.tsv {p : FlatPop} (h : TS p) : TSv p := fun i r k hi hk => (h i r hi).1 k hk

theorem TS.append {p d : FlatPop} (h : TS p)
    (hd : ∀ (j : Nat) (r : Row), d[j]? = some r →
      (∀ k, r.valOf = some k → k < p.length + j) ∧ (∀ k, r.smtOf = some k → k < p.length + j) ∧
      (∀ k ∈ skeys r, k < p.length + j)) : TS (p ++ d) := by
  intro i r hi
  by_cases hlt : i < p.length
  · rw [List.getElem?_append_left hlt] at hi; exact h i r hi
  · rw [List.getElem?_append_right (by omega)] at hi
    have := hd (i - p.length) r hi
    have e : p.length + (i - p.length) = i := by omega
    rw [e] at this; exact this

theorem TS.append1 {p : FlatPop} (h : TS p) (r : Row)
    (hr : (∀ k, r.valOf = some k → k < p.length) ∧ (∀ k, r.smtOf = some k → k < p.length) ∧
      (∀ k ∈ skeys r, k < p.length)) : TS (p ++ [r]) := by
  apply h.append
  intro j x hj
  match j, hj with
  | 0, hj => simp at hj; subst hj; simpa using hr
  | j + 1, hj => simp at hj

/-- the rows an expression adds keep `TS` -/
theorem TS.expr {fc : FCtx} {e : Expr} {st : St} (h : TS st.pop) (hs : ExprSpec fc e st) :
    TS (buildExpr fc e st).2.pop := by
  obtain ⟨d, hd, _, hk, ho⟩ := hs.grows
  intro i r hi
  have htv := hs.tsv i r
  by_cases hlt : i < st.pop.length
  · rw [hd, List.getElem?_append_left hlt] at hi; exact h i r hi
  · have hmem : r ∈ d := by
      rw [hd, List.getElem?_append_right (by omega)] at hi
      exact List.mem_of_getElem? hi
    obtain ⟨h1, h2, h3, h4⟩ := ho r hmem
    refine ⟨fun k hk' => htv k hi hk', ?_, ?_⟩
    · intro k hk'; rw [h1] at hk'; cases hk'
    · intro k hk'
      cases r with
      | smt b p => exact absurd rfl (h3 b p)
      | el _ _ _ _ => simp [Row.smtOf] at h1
      | e _ _ _ => simp [Row.smtOf] at h1
      | _ => simp [skeys] at hk'

/-- `subtype(act_smt, 603)` finds the row at index `j`: nothing between the statement and `j` claims the statement -/
theorem smtSub_at {p : FlatPop} {s j : Nat} {sub : Row} (hts : TS p) (hsub : p[j]? = some sub)
    (hv : sub.smtOf = some s) (hmid : ∀ i x, s < i → i < j → p[i]? = some x → x.smtOf ≠ some s)
    (ext : List Row) : smtSub (p ++ ext) s = some sub := by
  unfold smtSub
  have hlt : j < p.length := by
    rcases Nat.lt_or_ge j p.length with h' | h'
    · exact h'
    · simp [List.getElem?_eq_none h'] at hsub
  apply find?_at (n := j)
  · intro i x hi hx
    rw [List.getElem?_append_left (by omega)] at hx
    cases hxv : x.smtOf with
    | none => simp
    | some k =>
      have hk := (hts i x hx).2.1 k hxv
      by_cases hks : k = s
      · subst hks
        exact absurd hxv (hmid i x hk hi hx)
      · simp [hks]
  · rw [List.getElem?_append_left hlt]; exact hsub
  · simp [hv]

/-! ### statements -/

/-- R682 / R683 keys -/
def ikeys : Row → List Nat
  | .el _ _ _ i => [i]
  | .e _ _ i => [i]
  | _ => []

/- navigation depth of a statement / a statement list (fuel of `regenSmt` / `regenChain`) -/
mutual
  def szS : Stmt → Nat
    | .assign l r => szV l + szV r + 1
    | .ret (some e) => szV e + 1
    | .selFromW _ _ _ w => szV w + 1
    | .while_ e b => szV e + szB b + 2
    | .if_ e b elifs els => szV e + szB b + szEl elifs + szEs els + 2
    | .forEach _ _ b => szB b + 2
    | _ => 1
  def szB : Block → Nat
    | .nil => 1
    | .cons s rest => max (szS s) (szB rest) + 1
  def szEl : Elifs → Nat
    | .nil => 0
    | .cons e b rest => szV e + szB b + szEl rest + 2
  def szEs : Else → Nat
    | .none => 0
    | .some b => szB b + 2
end

/-- what later rows must NOT do for the rows of ONE statement (index `lo`, rows up to `hi`) to read back the same:
    name a block or a predecessor strictly inside, or an `if` inside -/
def FreshS (lo hi : Nat) (ext : List Row) : Prop := ∀ x ∈ ext,
  (∀ b' p, x = .smt b' p → (b' ≤ lo ∨ hi ≤ b') ∧ ∀ k, p = some k → k ≤ lo ∨ hi ≤ k) ∧ (∀ k ∈ ikeys x, k < lo ∨ hi ≤ k)

/-- … for the rows of a statement LIST starting at `lo`: no key inside at all -/
def FreshC (lo hi : Nat) (ext : List Row) : Prop := ∀ x ∈ ext, ∀ k ∈ skeys x, k < lo ∨ hi ≤ k

/-- the builder invariant -/
structure Inv (st : St) : Prop where
  ts : TS st.pop
  sym : SymOK st
  blk : ∃ b, curBlk st.scopes = some b ∧ b < st.pop.length

theorem Inv.curBlkD {st : St} (h : Inv st) : curBlkD st.scopes < st.pop.length := by
  obtain ⟨b, hb, hlt⟩ := h.blk
  simp [Flat.curBlkD, hb, hlt]

theorem Inv.isSome {st : St} (h : Inv st) : (curBlk st.scopes).isSome = true := by
  obtain ⟨b, hb, _⟩ := h.blk
  simp [hb]

/-- number of R603 subtype rows of statement `i` -/
def subCount (q : FlatPop) (i : Nat) : Nat := (q.filter (fun r => r.smtOf == some i)).length

theorem subCount_zero {l : List Row} {i : Nat} (h : ∀ x ∈ l, x.smtOf ≠ some i) : subCount l i = 0 := by
  unfold subCount
  rw [List.length_eq_zero_iff, List.filter_eq_nil_iff]
  intro x hx; simpa using h x hx

theorem subCount_append (a b : List Row) (i : Nat) : subCount (a ++ b) i = subCount a i + subCount b i := by
  simp [subCount, List.filter_append]

theorem subCount_parts {a c : List Row} {r : Row} {i : Nat} (ha : ∀ x ∈ a, x.smtOf ≠ some i)
    (hc : ∀ x ∈ c, x.smtOf ≠ some i) (hr : r.smtOf = some i) : subCount (a ++ [r] ++ c) i = 1 := by
  rw [subCount_append, subCount_append, subCount_zero ha, subCount_zero hc]
  simp [subCount, hr]

/-- what one `accept_<statement node>` call does to the builder state -/
structure StmtSpec (fc : FCtx) (prev : Option Nat) (s : Stmt) (st : St) : Prop where
  ok0 : st.ok = true
  fst : (buildStmt fc prev s st).1 = st.pop.length
  grows : ∃ d' : List Row, (buildStmt fc prev s st).2.pop = st.pop ++ (.smt (curBlkD st.scopes) prev :: d') ∧
    szS s ≤ d'.length + 1 ∧
    (∀ x ∈ d', (∀ k, x.smtOf = some k → st.pop.length ≤ k) ∧
      (∀ b' p, x = .smt b' p → (b' = curBlkD st.scopes ∨ st.pop.length < b') ∧ ∀ k, p = some k → st.pop.length < k) ∧
      (∀ k ∈ ikeys x, st.pop.length ≤ k))
  inv : Inv (buildStmt fc prev s st).2
  shape : curBlk (buildStmt fc prev s st).2.scopes = curBlk st.scopes ∧
    (buildStmt fc prev s st).2.scopes.tail = st.scopes.tail
  sub : ∀ ext : List Row, ∃ row, smtSub ((buildStmt fc prev s st).2.pop ++ ext) st.pop.length = some row ∧
    ikeys row = []
  regen : ∀ (ext : List Row) (fuel : Nat), FreshS st.pop.length (buildStmt fc prev s st).2.pop.length ext →
    szS s ≤ fuel → regenSmt ((buildStmt fc prev s st).2.pop ++ ext) fuel st.pop.length = genStmt s
  subsAll : ∀ (ext : List Row) (i b' : Nat) (p : Option Nat),
    ((buildStmt fc prev s st).2.pop ++ ext)[i]? = some (.smt b' p) → st.pop.length ≤ i →
    i < (buildStmt fc prev s st).2.pop.length →
    ∃ row, smtSub ((buildStmt fc prev s st).2.pop ++ ext) i = some row ∧ row.smtOf = some i ∧
      ((∀ x ∈ ext, ∀ k, x.smtOf = some k → k < st.pop.length ∨ (buildStmt fc prev s st).2.pop.length ≤ k) →
        subCount ((buildStmt fc prev s st).2.pop ++ ext) i = 1)
  uniq : ∀ ext : List Row, (∀ x ∈ ext, x.smtOf ≠ some st.pop.length) →
    subCount ((buildStmt fc prev s st).2.pop ++ ext) st.pop.length = 1

/-- weak freshness: later rows may name, over R682 / R683, the statement itself or an earlier one (the clauses of this
    `if` or of an enclosing one) -/
def FreshW (lo hi : Nat) (ext : List Row) : Prop := ∀ x ∈ ext,
  (∀ b' p, x = .smt b' p → (b' ≤ lo ∨ hi ≤ b') ∧ ∀ k, p = some k → k ≤ lo ∨ hi ≤ k) ∧ (∀ k ∈ ikeys x, k ≤ lo ∨ hi ≤ k)

theorem FreshS.weak {lo hi : Nat} {ext : List Row} (h : FreshS lo hi ext) : FreshW lo hi ext := fun x hx =>
  ⟨(h x hx).1, fun k hk => ((h x hx).2 k hk).imp Nat.le_of_lt id⟩

/-- what an ACT_SMT followed by rows `V`, ONE new block with the statement list `b`, and the R603 subtype row `sub` does
    to the builder state (`X`: the state afterwards) — a `while` / `for each` / `if` head, an `elif` / `else` clause -/
structure BSpec (fc : FCtx) (prev : Option Nat) (b : Block) (n : Nat) (st V : St) (sub : Row) (X : St) : Prop where
  ok0 : st.ok = true
  grows : ∃ dm : List Row, X.pop = st.pop ++ (.smt (curBlkD st.scopes) prev :: (dm ++ [sub])) ∧ n ≤ dm.length + 2 ∧
    (∀ x ∈ dm, (∀ k, x.smtOf = some k → st.pop.length < k) ∧
      (∀ b' p, x = .smt b' p → st.pop.length < b' ∧ ∀ k, p = some k → st.pop.length < k) ∧
      (∀ k ∈ ikeys x, st.pop.length < k))
  inv : Inv X
  shape : curBlk X.scopes = curBlk st.scopes ∧ X.scopes.tail = st.scopes.tail
  sub : ∀ ext : List Row, smtSub (X.pop ++ ext) st.pop.length = some sub
  regen : ∀ (ext : List Row) (fuel : Nat), FreshW st.pop.length X.pop.length ext → n ≤ fuel →
    ∃ rest f, X.pop ++ ext = V.pop ++ rest ∧ fuel = f + 1 ∧
      ((∀ x ∈ ext, ∀ k ∈ ikeys x, k ≠ st.pop.length) → ∀ x ∈ rest, ∀ k ∈ ikeys x, k ≠ st.pop.length) ∧
      regenBlk (V.pop ++ rest) f V.pop.length = genBlock b
  subsAll : ∀ (ext : List Row) (i b' : Nat) (p : Option Nat),
    (X.pop ++ ext)[i]? = some (.smt b' p) → st.pop.length ≤ i → i < X.pop.length →
    ∃ row, smtSub (X.pop ++ ext) i = some row ∧ row.smtOf = some i ∧
      ((∀ x ∈ ext, ∀ k, x.smtOf = some k → k < st.pop.length ∨ X.pop.length ≤ k) → subCount (X.pop ++ ext) i = 1)
  uniq : ∀ ext : List Row, (∀ x ∈ ext, x.smtOf ≠ some st.pop.length) → subCount (X.pop ++ ext) st.pop.length = 1

/-- a statement without nested blocks: ACT_SMT, then value / variable rows, then the R603 subtype row -/
theorem simple_spec {fc : FCtx} {prev : Option Nat} {s : Stmt} {st : St} (mid : St) (sub : Row)
    (hb : buildStmt fc prev s st = (st.pop.length, (mid.new sub).2))
    (hinv : Inv st) (hok0 : st.ok = true)
    (hmid : ∃ dm : List Row, mid.pop = st.pop ++ (.smt (curBlkD st.scopes) prev :: dm) ∧ szS s ≤ dm.length + 1 ∧
      ∀ x ∈ dm, x.smtOf = none ∧ skeys x = [])
    (hts : TS mid.pop) (hsym : SymOK mid)
    (hshape : curBlk mid.scopes = curBlk st.scopes ∧ mid.scopes.tail = st.scopes.tail)
    (hsub : sub.smtOf = some st.pop.length) (hsk : skeys sub = []) (hval : sub.valOf = none)
    (hregen : ∀ (ext : List Row) (fuel : Nat), szS s ≤ fuel →
      smtSub (mid.pop ++ [sub] ++ ext) st.pop.length = some sub →
      regenSmt (mid.pop ++ [sub] ++ ext) fuel st.pop.length = genStmt s) :
    StmtSpec fc prev s st := by
  obtain ⟨dm, hdm, hsz, hrows⟩ := hmid
  have hlen : mid.pop.length = st.pop.length + 1 + dm.length := by rw [hdm]; simp; omega
  have hts' : TS (mid.pop ++ [sub]) := by
    apply hts.append1
    refine ⟨fun k hk => (by rw [hval] at hk; cases hk), fun k hk => ?_, fun k hk => (by rw [hsk] at hk; cases hk)⟩
    rw [hsub] at hk; cases hk; omega
  have hik : ikeys sub = [] := by cases sub <;> simp [ikeys, skeys] at hsk ⊢
  have hfind : ∀ ext, smtSub (mid.pop ++ [sub] ++ ext) st.pop.length = some sub := by
    intro ext
    apply smtSub_at (j := mid.pop.length) hts' (by simp) hsub
    intro i x hi hj hx
    rw [List.getElem?_append_left hj, hdm, List.getElem?_append_right (by omega)] at hx
    have : i - st.pop.length = (i - st.pop.length - 1) + 1 := by omega
    rw [this, List.getElem?_cons_succ] at hx
    have := (hrows x (List.mem_of_getElem? hx)).1
    rw [this]; simp
  refine ⟨hok0, by rw [hb], ⟨dm ++ [sub], ?_, ?_, ?_⟩, ⟨?_, ?_, ?_⟩, ?_, ?_, ?_, ?_, ?_⟩
  · rw [hb]; simp [hdm]
  · simp; omega
  · intro x hx
    rcases List.mem_append.1 hx with h | h
    · obtain ⟨h1, h2⟩ := hrows x h
      refine ⟨fun k hk => (by rw [h1] at hk; cases hk), ?_, ?_⟩
      · intro b' p hxe; subst hxe; simp [skeys] at h2
      · intro k hk; cases x <;> simp [ikeys, skeys] at hk h2
    · simp at h; subst h
      refine ⟨fun k hk => (by rw [hsub] at hk; cases hk; exact Nat.le_refl _), ?_, fun k hk => (by rw [hik] at hk; cases hk)⟩
      intro b' p hxe; subst hxe; simp [skeys] at hsk
  · rw [hb]; exact hts'
  · rw [hb]; exact hsym.mono (st' := (mid.new sub).2) rfl (d := [sub]) rfl
  · obtain ⟨b, hbk, hlt⟩ := hinv.blk
    rw [hb]
    refine ⟨b, by simpa [hshape.1] using hbk, ?_⟩
    simp; omega
  · rw [hb]; exact hshape
  · intro ext; rw [hb]; exact ⟨sub, hfind ext, hik⟩
  · intro ext fuel _ hf
    rw [hb]
    exact hregen ext fuel hf (hfind ext)
  · intro ext i b' p hi hge hlt
    rw [hb] at hi hlt ⊢
    simp only [new_pop] at hi hlt ⊢
    by_cases hin : i = st.pop.length
    · subst hin
      refine ⟨sub, hfind ext, hsub, fun hc => ?_⟩
      apply subCount_parts _ (fun x hx hxe => by have := hc x hx _ hxe; simp at this; omega) hsub
      intro x hx
      rw [hdm] at hx
      rcases List.mem_append.1 hx with h | h
      · obtain ⟨j, hj⟩ := List.getElem?_of_mem h
        intro hx'
        have h1 := (hinv.ts j x hj).2.1 _ hx'
        have h2 : j < st.pop.length := by
          rcases Nat.lt_or_ge j st.pop.length with h' | h'
          · exact h'
          · simp [List.getElem?_eq_none h'] at hj
        omega
      · simp at h
        rcases h with rfl | h
        · simp [Row.smtOf]
        · rw [(hrows x h).1]; simp
    · exfalso
      rw [List.getElem?_append_left hlt, hdm] at hi
      have h1 : (st.pop ++ Row.smt (curBlkD st.scopes) prev :: dm ++ [sub])[i]? =
          (dm ++ [sub])[i - st.pop.length - 1]? := by
        rw [List.append_assoc, List.getElem?_append_right hge]
        have : i - st.pop.length = (i - st.pop.length - 1) + 1 := by omega
        rw [this]; simp
      rw [h1] at hi
      have hm := List.mem_of_getElem? hi
      rcases List.mem_append.1 hm with h | h
      · have := (hrows _ h).2; simp [skeys] at this
      · simp at h; rw [← h] at hsk; simp [skeys] at hsk
  · intro ext hext
    rw [hb]
    simp only [new_pop]
    apply subCount_parts _ hext hsub
    intro x hx
    rw [hdm] at hx
    rcases List.mem_append.1 hx with h | h
    · obtain ⟨i, hi⟩ := List.getElem?_of_mem h
      have hlt : i < st.pop.length := by
        rcases Nat.lt_or_ge i st.pop.length with h' | h'
        · exact h'
        · simp [List.getElem?_eq_none h'] at hi
      intro hx'
      have := (hinv.ts i x hi).2.1 _ hx'
      omega
    · simp at h
      rcases h with rfl | h
      · simp [Row.smtOf]
      · rw [(hrows x h).1]; simp

@[simp] theorem newSmt_fst (prev : Option Nat) (st : St) : (newSmt prev st).1 = st.pop.length := by simp [newSmt]
@[simp] theorem newSmt_pop (prev : Option Nat) (st : St) :
    (newSmt prev st).2.pop = st.pop ++ [.smt (curBlkD st.scopes) prev] := by simp [newSmt]
@[simp] theorem newSmt_scopes (prev : Option Nat) (st : St) : (newSmt prev st).2.scopes = st.scopes := by simp [newSmt]
@[simp] theorem newSmt_ok (prev : Option Nat) (st : St) :
    (newSmt prev st).2.ok = (st.ok && (curBlk st.scopes).isSome) := by simp [newSmt]

theorem newSmt_ts {prev : Option Nat} {st : St} (hinv : Inv st) (hprev : ∀ k, prev = some k → k < st.pop.length) :
    TS (newSmt prev st).2.pop := by
  rw [newSmt_pop]
  apply hinv.ts.append1
  refine ⟨fun k hk => (by simp [Row.valOf] at hk), fun k hk => (by simp [Row.smtOf] at hk), ?_⟩
  intro k hk
  simp [skeys] at hk
  rcases hk with rfl | hk
  · exact hinv.curBlkD
  · exact hprev k hk

theorem newSmt_sym {prev : Option Nat} {st : St} (hinv : Inv st) : SymOK (newSmt prev st).2 :=
  hinv.sym.mono (newSmt_scopes prev st) (newSmt_pop prev st)

/-! ### declaring a variable -/

theorem findSym_install {ss : List Scope} (hne : ss ≠ []) (n : String) (v : Nat) (m : String) :
    findSym (install ss n v) m = if m = n then some v else findSym ss m := by
  cases ss with
  | nil => exact absurd rfl hne
  | cons s rest =>
    simp only [install, findSym, List.lookup]
    by_cases h : m = n
    · subst h; simp
    · have : (m == n) = false := by simpa using h
      simp [this, h]

theorem curBlk_install (ss : List Scope) (n : String) (v : Nat) : curBlk (install ss n v) = curBlk ss := by
  cases ss with
  | nil => rfl
  | cons s rest => cases s with | mk h syms => cases h <;> rfl

theorem install_tail (ss : List Scope) (n : String) (v : Nat) : (install ss n v).tail = ss.tail := by
  cases ss <;> rfl

@[simp] theorem newVar_fst (n : String) (sub : Nat → Row) (m : St) : (newVar n sub m).1 = m.pop.length := by
  simp [newVar]
@[simp] theorem newVar_pop (n : String) (sub : Nat → Row) (m : St) :
    (newVar n sub m).2.pop = m.pop ++ [.var n (curBlkD m.scopes), sub m.pop.length] := by simp [newVar]
@[simp] theorem newVar_scopes (n : String) (sub : Nat → Row) (m : St) :
    (newVar n sub m).2.scopes = install m.scopes n m.pop.length := by simp [newVar]

/-- `v_int` / `v_ins` / `v_trn`: the two rows keep `TS` and `SymOK`, the new symbol is found -/
theorem newVar_ts {n : String} {sub : Nat → Row} {m : St} (hts : TS m.pop)
    (hsub : ∀ i, (sub i).valOf = none ∧ (sub i).smtOf = none ∧ skeys (sub i) = []) : TS (newVar n sub m).2.pop := by
  rw [newVar_pop]
  have : m.pop ++ [Row.var n (curBlkD m.scopes), sub m.pop.length] =
      (m.pop ++ [Row.var n (curBlkD m.scopes)]) ++ [sub m.pop.length] := by simp
  rw [this]
  apply TS.append1
  · apply hts.append1
    simp [Row.valOf, Row.smtOf, skeys]
  · obtain ⟨h1, h2, h3⟩ := hsub m.pop.length
    simp [h1, h2, h3]

theorem newVar_sym {n : String} {sub : Nat → Row} {m : St} (hs : SymOK m) (hne : m.scopes ≠ []) :
    SymOK (newVar n sub m).2 := by
  intro k v hf
  rw [newVar_scopes, findSym_install hne] at hf
  rw [newVar_pop]
  by_cases h : k = n
  · subst h; simp at hf; subst hf
    exact ⟨curBlkD m.scopes, by simp⟩
  · simp [h] at hf
    obtain ⟨b, hb⟩ := hs k v hf
    have : v < m.pop.length := by
      rcases Nat.lt_or_ge v m.pop.length with h' | h'
      · exact h'
      · simp [List.getElem?_eq_none h'] at hb
    exact ⟨b, by rw [List.getElem?_append_left this]; exact hb⟩

theorem scopes_ne_of_curBlk {ss : List Scope} {b : Nat} (h : curBlk ss = some b) : ss ≠ [] := by
  intro h'; subst h'; simp [curBlk] at h

/-- `declVar` under `ok`, for a name other than `self`: the visible variable, or a fresh V_VAR + subtype -/
theorem declVar_cases {fc : FCtx} {v kl : String} {many : Bool} {m : St} (hok : (declVar fc v many kl m).2.ok = true)
    (hv : v ≠ "self") :
    (∃ x, findSym m.scopes v = some x ∧ declVar fc v many kl m = (x, m)) ∨
    (findSym m.scopes v = none ∧ ∃ c : Bool, declVar fc v many kl m =
      newVar v (fun i => if many then .vins i kl else .vint i kl) (m.guard c)) := by
  unfold declVar at hok ⊢
  cases hc : (canonName v != v || lowerStr v == "sender") with
  | true =>
    simp [lookupVar, hc] at hok
    cases many <;> simp [newVar_ok] at hok
  | false =>
    rw [lookupVar_eq hc] at hok ⊢
    have hs : (v == "self") = false := by simpa using hv
    cases hf : findSym m.scopes v with
    | some x => left; exact ⟨x, rfl, by simp⟩
    | none =>
      right
      refine ⟨rfl, (v != "self" && fc.classes.contains kl), ?_⟩
      simp only [hs]
      cases many <;> simp

theorem regenVar_name {q : FlatPop} {v : Nat} {n : String} {b : Nat} (h : q[v]? = some (.var n b)) :
    regenVar q v = [nameTok n] := by simp [regenVar, h]

/-- a symbol found in the state `m` is still the same V_VAR row in any population that extends `m.pop` -/
theorem sym_row {m : St} (hs : SymOK m) {n : String} {v : Nat} (hf : findSym m.scopes n = some v) (d : List Row) :
    ∃ b, (m.pop ++ d)[v]? = some (.var n b) := by
  obtain ⟨b, hb⟩ := hs n v hf
  refine ⟨b, ?_⟩
  have : v < m.pop.length := by
    rcases Nat.lt_or_ge v m.pop.length with h' | h'
    · exact h'
    · simp [List.getElem?_eq_none h'] at hb
  rw [List.getElem?_append_left this]; exact hb

theorem fuel_succ {n : Nat} (h : 1 ≤ n) : ∃ f, n = f + 1 := ⟨n - 1, by omega⟩

/-! ### looking a variable up (`self` is created on first use) -/

/-- row `x` of the population is the V_VAR named `n` -/
def IsVar (p : FlatPop) (x : Nat) (n : String) : Prop := ∃ b, p[x]? = some (.var n b)

theorem IsVar.append {p : FlatPop} {x : Nat} {n : String} (h : IsVar p x n) (d : List Row) : IsVar (p ++ d) x n := by
  obtain ⟨b, hb⟩ := h
  refine ⟨b, ?_⟩
  have : x < p.length := by
    rcases Nat.lt_or_ge x p.length with h' | h'
    · exact h'
    · simp [List.getElem?_eq_none h'] at hb
  rw [List.getElem?_append_left this]; exact hb

theorem IsVar.regen {p : FlatPop} {x : Nat} {n : String} (h : IsVar p x n) (sub : Row) (ext : List Row) :
    regenVar (p ++ [sub] ++ ext) x = [nameTok n] := by
  obtain ⟨b, hb⟩ := (h.append [sub]).append ext
  exact regenVar_name hb

/-- `needVar` under `ok`: the visible variable, or — for the name `self`, not visible, in a home that has a `self` —
    a fresh V_VAR + V_INT of the home's class -/
theorem needVar_cases {fc : FCtx} {n : String} {m : St} (hok : (needVar fc n m).2.ok = true) :
    (∃ v, findSym m.scopes n = some v ∧ needVar fc n m = (v, m)) ∨
    (n = "self" ∧ findSym m.scopes n = none ∧ ∃ kl, fc.selfKl = some kl ∧
      needVar fc n m = newVar "self" (fun v => .vint v kl) m) := by
  unfold needVar at hok ⊢
  cases hc : (canonName n != n || lowerStr n == "sender") with
  | true => simp [lookupVar, hc] at hok
  | false =>
    rw [lookupVar_eq hc] at hok ⊢
    cases hf : findSym m.scopes n with
    | some v => left; exact ⟨v, rfl, by simp⟩
    | none =>
      cases hs : n == "self" with
      | false => simp [hf, hs] at hok
      | true =>
        cases hk : fc.selfKl with
        | none => simp [hf, hs, hk] at hok
        | some kl =>
          right
          refine ⟨by simpa using hs, rfl, kl, rfl, ?_⟩
          simp only [hs, if_true]

/-- what one look-up that must succeed does to the builder state: no rows, or the V_VAR + V_INT of `self` (no statement,
    no value, no key that is searched backwards), the symbol installed in the innermost scope -/
structure LookSpec (fc : FCtx) (n : String) (m : St) : Prop where
  ok0 : m.ok = true
  grows : ∃ dv : List Row, (needVar fc n m).2.pop = m.pop ++ dv ∧ ∀ x ∈ dv, x.smtOf = none ∧ skeys x = []
  ts : TS (needVar fc n m).2.pop
  sym : SymOK (needVar fc n m).2
  shape : curBlk (needVar fc n m).2.scopes = curBlk m.scopes ∧ (needVar fc n m).2.scopes.tail = m.scopes.tail
  row : IsVar (needVar fc n m).2.pop (needVar fc n m).1 n

theorem needVar_spec {fc : FCtx} {n : String} {m : St} (hts : TS m.pop) (hsym : SymOK m)
    (hblk : (curBlk m.scopes).isSome = true) (hok : (needVar fc n m).2.ok = true) : LookSpec fc n m := by
  have hne : m.scopes ≠ [] := by
    intro h; rw [h] at hblk; simp [curBlk] at hblk
  rcases needVar_cases hok with ⟨v, hf, hd⟩ | ⟨hn, hf, kl, hk, hd⟩
  · rw [hd] at hok
    refine ⟨hok, ⟨[], ?_, by simp⟩, ?_, ?_, ?_, ?_⟩ <;> rw [hd]
    · simp
    · exact hts
    · exact hsym
    · exact ⟨rfl, rfl⟩
    · exact hsym n v hf
  · rw [hd] at hok
    simp [newVar_ok] at hok
    refine ⟨hok.1, ⟨[.var "self" (curBlkD m.scopes), .vint m.pop.length kl], ?_, ?_⟩, ?_, ?_, ?_, ?_⟩ <;> (try rw [hd])
    · simp
    · intro x hx
      simp at hx
      rcases hx with rfl | rfl <;> simp [Row.smtOf, skeys]
    · exact newVar_ts hts (fun i => by simp [Row.valOf, Row.smtOf, skeys])
    · exact newVar_sym hsym hne
    · simp [curBlk_install, install_tail]
    · subst hn
      exact ⟨curBlkD m.scopes, by simp⟩

/-- statements that are an ACT_SMT followed at once by the subtype row -/
theorem bare_spec {fc : FCtx} {prev : Option Nat} {s : Stmt} {st : St} (sub : Row) (c : Bool)
    (hb : buildStmt fc prev s st = (st.pop.length, ((newSmt prev (st.guard c)).2.new sub).2))
    (hinv : Inv st) (hprev : ∀ k, prev = some k → k < st.pop.length)
    (hok : (buildStmt fc prev s st).2.ok = true) (hsz : szS s = 1)
    (hsub : sub.smtOf = some st.pop.length) (hsk : skeys sub = []) (hval : sub.valOf = none)
    (hregen : ∀ (ext : List Row) (f : Nat), smtSub ((newSmt prev st).2.pop ++ [sub] ++ ext) st.pop.length = some sub →
      regenSmt ((newSmt prev st).2.pop ++ [sub] ++ ext) (f + 1) st.pop.length = genStmt s) :
    StmtSpec fc prev s st := by
  have hok0 : st.ok = true := by
    rw [hb] at hok; simp at hok; exact hok.1.1
  have hg : (newSmt prev (st.guard c)).2.pop = (newSmt prev st).2.pop := by simp
  apply simple_spec (newSmt prev (st.guard c)).2 sub (by rw [hb]) hinv hok0
  · exact ⟨[], by simp, by simp [hsz], by simp⟩
  · rw [hg]; exact newSmt_ts hinv hprev
  · exact hinv.sym.mono (by simp) (d := [.smt (curBlkD st.scopes) prev]) (by simp)
  · simp
  · exact hsub
  · exact hsk
  · exact hval
  · intro ext fuel hf hs
    rw [hsz] at hf
    obtain ⟨f, rfl⟩ := fuel_succ hf
    rw [hg] at hs ⊢
    exact hregen ext f hs

/-- a statement that is an ACT_SMT, a variable looked up or declared (`v_int` / `v_ins`), and the subtype row -/
theorem decl_spec {fc : FCtx} {prev : Option Nat} {s : Stmt} {st : St} (v kl : String) (many c0 : Bool) (mk : Nat → Row)
    (hb : buildStmt fc prev s st = (st.pop.length,
      ((declVar fc v many kl ((newSmt prev st).2.guard c0)).2.new
        (mk (declVar fc v many kl ((newSmt prev st).2.guard c0)).1)).2))
    (hinv : Inv st) (hprev : ∀ k, prev = some k → k < st.pop.length)
    (hok : (buildStmt fc prev s st).2.ok = true) (hv : v ≠ "self") (hsz : szS s = 1)
    (hmk : ∀ x, (mk x).smtOf = some st.pop.length ∧ skeys (mk x) = [] ∧ (mk x).valOf = none)
    (hregen : ∀ (q : FlatPop) (f x : Nat), smtSub q st.pop.length = some (mk x) → regenVar q x = [nameTok v] →
      regenSmt q (f + 1) st.pop.length = genStmt s) :
    StmtSpec fc prev s st := by
  have hokD : (declVar fc v many kl ((newSmt prev st).2.guard c0)).2.ok = true := by
    rw [hb] at hok; simpa using hok
  have hts0 : TS ((newSmt prev st).2.guard c0).pop := by simpa using newSmt_ts hinv hprev
  have hsym0 : SymOK ((newSmt prev st).2.guard c0) :=
    hinv.sym.mono (by simp) (d := [.smt (curBlkD st.scopes) prev]) (by simp)
  obtain ⟨b, hbk, hblt⟩ := hinv.blk
  rcases declVar_cases hokD hv with ⟨x, hf, hd⟩ | ⟨hf, c, hd⟩
  · rw [hd] at hb hokD
    have hok0 : st.ok = true := by simp at hokD; exact hokD.1.1
    apply simple_spec _ (mk x) hb hinv hok0
    · exact ⟨[], by simp, by simp [hsz], by simp⟩
    · exact hts0
    · exact hsym0
    · simp
    · exact (hmk x).1
    · exact (hmk x).2.1
    · exact (hmk x).2.2
    · intro ext fuel hfu hs
      rw [hsz] at hfu
      obtain ⟨f, rfl⟩ := fuel_succ hfu
      obtain ⟨bx, hbx⟩ := sym_row hsym0 hf ([mk x] ++ ext)
      rw [← List.append_assoc] at hbx
      exact hregen _ f x hs (regenVar_name hbx)
  · rw [hd] at hb hokD
    have hok0 : st.ok = true := by simp [newVar_ok] at hokD; exact hokD.1.1.1.1
    have hsubf : ∀ i, (if many then Row.vins i kl else Row.vint i kl).valOf = none ∧
        (if many then Row.vins i kl else Row.vint i kl).smtOf = none ∧
        skeys (if many then Row.vins i kl else Row.vint i kl) = [] := by
      intro i; cases many <;> simp [Row.valOf, Row.smtOf, skeys]
    simp only [newVar_fst, guard_pop, newSmt_pop] at hb
    apply simple_spec _ _ hb hinv hok0
    · refine ⟨[.var v (curBlkD st.scopes), if many then .vins (st.pop.length + 1) kl else .vint (st.pop.length + 1) kl],
        by simp, by simp [hsz], ?_⟩
      intro y hy
      simp at hy
      rcases hy with rfl | rfl
      · simp [Row.smtOf, skeys]
      · exact ⟨(hsubf _).2.1, (hsubf _).2.2⟩
    · exact newVar_ts (by simpa using hts0) hsubf
    · exact newVar_sym (hsym0.mono (by simp) (d := []) (by simp)) (by simpa using scopes_ne_of_curBlk hbk)
    · simp [curBlk_install, install_tail]
    · exact (hmk _).1
    · exact (hmk _).2.1
    · exact (hmk _).2.2
    · intro ext fuel hfu hs
      rw [hsz] at hfu
      obtain ⟨f, rfl⟩ := fuel_succ hfu
      apply hregen _ f _ hs
      apply regenVar_name (b := curBlkD st.scopes)
      simp

theorem expr_rows_plain {fc : FCtx} {e : Expr} {st : St} {d : List Row}
    (ho : ∀ r ∈ d, r.smtOf = none ∧ r.varOf = none ∧ (∀ b q, r ≠ .smt b q) ∧ (∀ o, r ≠ .blk o)) :
    ∀ x ∈ d, x.smtOf = none ∧ skeys x = [] := by
  intro x hx
  obtain ⟨h1, _, h3, _⟩ := ho x hx
  refine ⟨h1, ?_⟩
  cases x with
  | smt b p => exact absurd rfl (h3 b p)
  | el _ _ _ _ => simp [Row.smtOf] at h1
  | e _ _ _ => simp [Row.smtOf] at h1
  | _ => rfl

/-! ### `self` as an expression (value level: `coreX` ⊇ `coreE`; `coreB` uses `coreX` wherever a statement has an expression) -/

/-- `coreE` + the instance handle `self` ANYWHERE in the expression: as a value (`self == d`, `not_empty self`), as the
    root of an attribute read (`self.attr`), inside unary / binary operations (`self.a + 1`); operators in the normal
    form, as in `coreE` -/
def coreX : Expr → Bool
  | .self => true
  | .field h _ => coreX h
  | .un op e => lowerStr op == op && coreX e
  | .bin l op r => lowerStr op == op && coreX l && coreX r
  | e => coreE e

/-- what one `accept_<expression node>` call does to the builder state when the look-up of `self` may CREATE the
    variable: like `ExprSpec`, but the rows may contain a V_VAR + V_INT and the innermost scope may gain the symbol -/
structure ExprSpecW (fc : FCtx) (e : Expr) (st : St) : Prop where
  ok0 : st.ok = true
  shape : curBlk (buildExpr fc e st).2.scopes = curBlk st.scopes ∧ (buildExpr fc e st).2.scopes.tail = st.scopes.tail
  grows : ∃ d : List Row, (buildExpr fc e st).2.pop = st.pop ++ d ∧ szV e + 1 ≤ d.length ∧
    ∀ x ∈ d, x.smtOf = none ∧ skeys x = []
  ts : TS (buildExpr fc e st).2.pop
  sym : SymOK (buildExpr fc e st).2
  isVal : ∃ b, (buildExpr fc e st).2.pop[(buildExpr fc e st).1]? = some (.val b)
  regen : ∀ (ext : List Row) (fuel : Nat), szV e ≤ fuel →
    regenVal ((buildExpr fc e st).2.pop ++ ext) fuel (buildExpr fc e st).1 = genExpr e

theorem ExprSpec.weak {fc : FCtx} {e : Expr} {st : St} (h : ExprSpec fc e st) (hts : TS st.pop) (hsym : SymOK st) :
    ExprSpecW fc e st := by
  obtain ⟨d, hd, hl, _, ho⟩ := h.grows
  exact ⟨h.ok0, by rw [h.scopes]; exact ⟨rfl, rfl⟩, ⟨d, hd, hl, expr_rows_plain (fc := fc) (e := e) (st := st) ho⟩,
    hts.expr h, h.symOK hsym, h.isVal, h.regen⟩

theorem TS.leaf {p : FlatPop} (h : TS p) (b : Nat) (sub : Row) (hv : sub.valOf = some p.length)
    (hs : sub.smtOf = none) (hk : skeys sub = []) : TS (p ++ [.val b, sub]) := by
  have : p ++ [Row.val b, sub] = (p ++ [Row.val b]) ++ [sub] := by simp
  rw [this]
  apply TS.append1
  · apply h.append1
    simp [Row.valOf, Row.smtOf, skeys]
  · refine ⟨fun k hk' => ?_, fun k hk' => (by rw [hs] at hk'; cases hk'), fun k hk' => (by rw [hk] at hk'; cases hk')⟩
    rw [hv] at hk'; cases hk'; simp

/-- `self` read as a value: the look-up (which may create V_VAR + V_INT), then V_VAL + V_IRF -/
theorem self_specW {fc : FCtx} {st : St} (hts : TS st.pop) (hsym : SymOK st)
    (hblk : (curBlk st.scopes).isSome = true) (hok : (buildExpr fc .self st).2.ok = true) : ExprSpecW fc .self st := by
  have hb : buildExpr fc .self st = mkLeaf (needVar fc "self" st).2 (fun i => .irf i (needVar fc "self" st).1) := by
    simp [buildExpr, mkLeaf]
  have hl : (needVar fc "self" st).2.ok = true := by
    rw [hb] at hok; simp [mkLeaf] at hok; exact hok.1
  have L := needVar_spec hts hsym hblk hl
  obtain ⟨dv, hdv, hrows⟩ := L.grows
  have hpop : (buildExpr fc .self st).2.pop = (needVar fc "self" st).2.pop ++
      [.val (curBlkD (needVar fc "self" st).2.scopes), .irf (needVar fc "self" st).2.pop.length (needVar fc "self" st).1] := by
    rw [hb]; simp [mkLeaf]
  have hfst : (buildExpr fc .self st).1 = (needVar fc "self" st).2.pop.length := by rw [hb]; simp [mkLeaf]
  have hsc : (buildExpr fc .self st).2.scopes = (needVar fc "self" st).2.scopes := by rw [hb]; simp [mkLeaf]
  refine ⟨L.ok0, by rw [hsc]; exact L.shape, ⟨dv ++ [.val (curBlkD (needVar fc "self" st).2.scopes),
    .irf (needVar fc "self" st).2.pop.length (needVar fc "self" st).1], ?_, ?_, ?_⟩, ?_, ?_, ?_, ?_⟩
  · rw [hpop, hdv]; simp
  · simp [szV]
  · intro x hx
    rcases List.mem_append.1 hx with h | h
    · exact hrows x h
    · simp at h
      rcases h with rfl | rfl <;> simp [Row.smtOf, skeys]
  · rw [hpop]; exact L.ts.leaf _ _ rfl rfl rfl
  · exact L.sym.mono hsc hpop
  · exact ⟨curBlkD (needVar fc "self" st).2.scopes, by rw [hpop, hfst]; simp⟩
  · intro ext fuel hf
    obtain ⟨f, rfl⟩ := fuel_succ (by simpa [szV] using hf)
    rw [hpop, hfst]
    have hsub := leaf_spec L.ts.tsv (curBlkD (needVar fc "self" st).2.scopes)
      (.irf (needVar fc "self" st).2.pop.length (needVar fc "self" st).1) rfl ext
    obtain ⟨bx, hbx⟩ := (L.row.append [.val (curBlkD (needVar fc "self" st).2.scopes),
      .irf (needVar fc "self" st).2.pop.length (needVar fc "self" st).1]).append ext
    simp only [regenVal, hsub, regenVar_name hbx, genExpr]
    rfl

/-- an attribute read over a root that may have created `self` -/
theorem field_specW {fc : FCtx} {h : Expr} {a : String} {st : St} (W : ExprSpecW fc h st)
    (hblk : (curBlk st.scopes).isSome = true) (hok : (buildExpr fc (.field h a) st).2.ok = true) :
    ExprSpecW fc (.field h a) st := by
  obtain ⟨g, hb⟩ : ∃ g : Bool, buildExpr fc (.field h a) st =
      mkLeaf ((buildExpr fc h st).2.guard g) (fun i => .avl i (buildExpr fc h st).1 a) := by
    simp only [buildExpr, mkLeaf]
    exact ⟨_, rfl⟩
  obtain ⟨d, hd, hl, hrows⟩ := W.grows
  have hpop : (buildExpr fc (.field h a) st).2.pop = (buildExpr fc h st).2.pop ++
      [.val (curBlkD (buildExpr fc h st).2.scopes), .avl (buildExpr fc h st).2.pop.length (buildExpr fc h st).1 a] := by
    rw [hb]; simp [mkLeaf]
  have hfst : (buildExpr fc (.field h a) st).1 = (buildExpr fc h st).2.pop.length := by rw [hb]; simp [mkLeaf]
  have hsc : (buildExpr fc (.field h a) st).2.scopes = (buildExpr fc h st).2.scopes := by rw [hb]; simp [mkLeaf]
  refine ⟨W.ok0, by rw [hsc]; exact W.shape, ⟨d ++ [.val (curBlkD (buildExpr fc h st).2.scopes),
    .avl (buildExpr fc h st).2.pop.length (buildExpr fc h st).1 a], ?_, ?_, ?_⟩, ?_, ?_, ?_, ?_⟩
  · rw [hpop, hd]; simp
  · simp [szV]; omega
  · intro x hx
    rcases List.mem_append.1 hx with h' | h'
    · exact hrows x h'
    · simp at h'
      rcases h' with rfl | rfl <;> simp [Row.smtOf, skeys]
  · rw [hpop]; exact W.ts.leaf _ _ rfl rfl rfl
  · exact W.sym.mono hsc hpop
  · exact ⟨curBlkD (buildExpr fc h st).2.scopes, by rw [hpop, hfst]; simp⟩
  · intro ext fuel hf
    simp only [szV] at hf
    obtain ⟨f, rfl⟩ := fuel_succ (by omega : 1 ≤ fuel)
    rw [hpop, hfst]
    have hsub := leaf_spec W.ts.tsv (curBlkD (buildExpr fc h st).2.scopes)
      (.avl (buildExpr fc h st).2.pop.length (buildExpr fc h st).1 a) rfl ext
    have hrec := W.regen ([.val (curBlkD (buildExpr fc h st).2.scopes),
      .avl (buildExpr fc h st).2.pop.length (buildExpr fc h st).1 a] ++ ext) f (by omega)
    rw [← List.append_assoc] at hrec
    simp only [regenVal, hsub, hrec, genExpr]

/-- a unary operation over an operand that may have created `self` (`not_empty self`, `not self.Flag`) -/
theorem un_specW {fc : FCtx} {op : String} {e : Expr} {st : St} (W : ExprSpecW fc e st) (hop : lowerStr op = op) :
    ExprSpecW fc (.un op e) st := by
  have hb : buildExpr fc (.un op e) st =
      mkLeaf (buildExpr fc e st).2 (fun i => .uny i (lowerStr op) (buildExpr fc e st).1) := by
    simp [buildExpr, mkLeaf]
  obtain ⟨d, hd, hl, hrows⟩ := W.grows
  have hpop : (buildExpr fc (.un op e) st).2.pop = (buildExpr fc e st).2.pop ++
      [.val (curBlkD (buildExpr fc e st).2.scopes), .uny (buildExpr fc e st).2.pop.length (lowerStr op) (buildExpr fc e st).1] := by
    rw [hb]; simp [mkLeaf]
  have hfst : (buildExpr fc (.un op e) st).1 = (buildExpr fc e st).2.pop.length := by rw [hb]; simp [mkLeaf]
  have hsc : (buildExpr fc (.un op e) st).2.scopes = (buildExpr fc e st).2.scopes := by rw [hb]; simp [mkLeaf]
  refine ⟨W.ok0, by rw [hsc]; exact W.shape, ⟨d ++ [.val (curBlkD (buildExpr fc e st).2.scopes),
    .uny (buildExpr fc e st).2.pop.length (lowerStr op) (buildExpr fc e st).1], ?_, ?_, ?_⟩, ?_, ?_, ?_, ?_⟩
  · rw [hpop, hd]; simp
  · simp [szV]; omega
  · intro x hx
    rcases List.mem_append.1 hx with h' | h'
    · exact hrows x h'
    · simp at h'
      rcases h' with rfl | rfl <;> simp [Row.smtOf, skeys]
  · rw [hpop]; exact W.ts.leaf _ _ rfl rfl rfl
  · exact W.sym.mono hsc hpop
  · exact ⟨curBlkD (buildExpr fc e st).2.scopes, by rw [hpop, hfst]; simp⟩
  · intro ext fuel hf
    simp only [szV] at hf
    obtain ⟨f, rfl⟩ := fuel_succ (by omega : 1 ≤ fuel)
    rw [hpop, hfst]
    have hsub := leaf_spec W.ts.tsv (curBlkD (buildExpr fc e st).2.scopes)
      (.uny (buildExpr fc e st).2.pop.length (lowerStr op) (buildExpr fc e st).1) rfl ext
    have hrec := W.regen ([.val (curBlkD (buildExpr fc e st).2.scopes),
      .uny (buildExpr fc e st).2.pop.length (lowerStr op) (buildExpr fc e st).1] ++ ext) f (by omega)
    rw [← List.append_assoc] at hrec
    simp only [regenVal, hsub, hrec, genExpr]
    rw [hop]

/-- a binary operation whose operands may have created `self` (the left one first: `self.a + self.b`, `self == d`) -/
theorem bin_specW {fc : FCtx} {op : String} {l rr : Expr} {st : St} (A : ExprSpecW fc l st)
    (B : ExprSpecW fc rr (buildExpr fc l st).2) (hop : lowerStr op = op) : ExprSpecW fc (.bin l op rr) st := by
  have hb : buildExpr fc (.bin l op rr) st = mkLeaf (buildExpr fc rr (buildExpr fc l st).2).2
      (fun i => .bin i (lowerStr op) (buildExpr fc l st).1 (buildExpr fc rr (buildExpr fc l st).2).1) := by
    simp [buildExpr, mkLeaf]
  obtain ⟨dA, hdA, hlA, hrA⟩ := A.grows
  obtain ⟨dB, hdB, hlB, hrB⟩ := B.grows
  have Bts := B.ts
  have Bsym := B.sym
  have Bshape := B.shape
  have Bregen := B.regen
  generalize hSB : (buildExpr fc rr (buildExpr fc l st).2).2 = SB at *
  generalize hvB : (buildExpr fc rr (buildExpr fc l st).2).1 = vB at *
  have hpop : (buildExpr fc (.bin l op rr) st).2.pop = SB.pop ++
      [.val (curBlkD SB.scopes), .bin SB.pop.length (lowerStr op) (buildExpr fc l st).1 vB] := by
    rw [hb]; simp [mkLeaf]
  have hfst : (buildExpr fc (.bin l op rr) st).1 = SB.pop.length := by rw [hb]; simp [mkLeaf]
  have hsc : (buildExpr fc (.bin l op rr) st).2.scopes = SB.scopes := by rw [hb]; simp [mkLeaf]
  refine ⟨A.ok0, by rw [hsc]; exact ⟨Bshape.1.trans A.shape.1, Bshape.2.trans A.shape.2⟩,
    ⟨dA ++ dB ++ [.val (curBlkD SB.scopes), .bin SB.pop.length (lowerStr op) (buildExpr fc l st).1 vB], ?_, ?_, ?_⟩,
    ?_, ?_, ?_, ?_⟩
  · rw [hpop, hdB, hdA]; simp
  · simp [szV]; omega
  · intro x hx
    rcases List.mem_append.1 hx with h' | h'
    · rcases List.mem_append.1 h' with h'' | h''
      · exact hrA x h''
      · exact hrB x h''
    · simp at h'
      rcases h' with rfl | rfl <;> simp [Row.smtOf, skeys]
  · rw [hpop]; exact Bts.leaf _ _ rfl rfl rfl
  · exact Bsym.mono hsc hpop
  · exact ⟨curBlkD SB.scopes, by rw [hpop, hfst]; simp⟩
  · intro ext fuel hf
    simp only [szV] at hf
    obtain ⟨f, rfl⟩ := fuel_succ (by omega : 1 ≤ fuel)
    rw [hpop, hfst]
    have hsub := leaf_spec Bts.tsv (curBlkD SB.scopes)
      (.bin SB.pop.length (lowerStr op) (buildExpr fc l st).1 vB) rfl ext
    have hrecB := Bregen ([.val (curBlkD SB.scopes), .bin SB.pop.length (lowerStr op) (buildExpr fc l st).1 vB] ++ ext)
      f (by omega)
    have hrecA := A.regen (dB ++ [.val (curBlkD SB.scopes), .bin SB.pop.length (lowerStr op) (buildExpr fc l st).1 vB] ++ ext)
      f (by omega)
    rw [← List.append_assoc] at hrecB
    rw [← List.append_assoc, ← List.append_assoc, ← hdB] at hrecA
    simp only [regenVal, hsub, hrecA, hrecB, genExpr]
    rw [hop]

/-- value level for `coreX` (= `coreE` with `self` anywhere: as a value, as an attribute's root, inside unary / binary
    operations), from ANY sound builder state: the rows read back as the source expression, `TS` / `SymOK` / the current
    block are kept -/
theorem buildExpr_specW (fc : FCtx) : ∀ (e : Expr) (st : St), coreX e = true → TS st.pop → SymOK st →
    (curBlk st.scopes).isSome = true → (buildExpr fc e st).2.ok = true → ExprSpecW fc e st
  | .self, st, _, hts, hsym, hblk, hok => self_specW hts hsym hblk hok
  | .field h a, st, hc, hts, hsym, hblk, hok => by
    simp only [coreX] at hc
    have hokh : (buildExpr fc h st).2.ok = true := by
      simp [buildExpr] at hok; exact hok.1.1
    exact field_specW (buildExpr_specW fc h st hc hts hsym hblk hokh) hblk hok
  | .un op e, st, hc, hts, hsym, hblk, hok => by
    simp only [coreX, Bool.and_eq_true, beq_iff_eq] at hc
    have hoke : (buildExpr fc e st).2.ok = true := by
      simp [buildExpr] at hok; exact hok.1
    exact un_specW (buildExpr_specW fc e st hc.2 hts hsym hblk hoke) hc.1
  | .bin l op rr, st, hc, hts, hsym, hblk, hok => by
    simp only [coreX, Bool.and_eq_true, beq_iff_eq] at hc
    have hokB : (buildExpr fc rr (buildExpr fc l st).2).2.ok = true := by
      simp [buildExpr] at hok; exact hok.1
    have hokA : (buildExpr fc l st).2.ok = true := buildExpr_ok_mono fc rr _ hokB
    have A := buildExpr_specW fc l st hc.1.2 hts hsym hblk hokA
    exact bin_specW A (buildExpr_specW fc rr (buildExpr fc l st).2 hc.2 A.ts A.sym (by rw [A.shape.1]; exact hblk) hokB)
      hc.1.1
  | .int v, st, hc, hts, hsym, _, hok | .real v, st, hc, hts, hsym, _, hok | .str v, st, hc, hts, hsym, _, hok
  | .bool v, st, hc, hts, hsym, _, hok | .enum _ v, st, hc, hts, hsym, _, hok | .var v, st, hc, hts, hsym, _, hok
  | .selected, st, hc, hts, hsym, _, hok | .param _, st, hc, hts, hsym, _, hok
  | .index _ _, st, hc, hts, hsym, _, hok | .call _ _ _ _, st, hc, hts, hsym, _, hok
  | .icall _ _ _, st, hc, hts, hsym, _, hok =>
    (buildExpr_spec fc _ st (by simpa [coreX] using hc) hsym hts.tsv hok).weak hts hsym

/-- assignment whose l-value is accepted like a value (an attribute, a visible variable) -/
theorem assign_expr_spec {fc : FCtx} {prev : Option Nat} {l r : Expr} {st : St} (M0 : St)
    (hM0p : M0.pop = st.pop ++ [.smt (curBlkD st.scopes) prev]) (hM0s : M0.scopes = st.scopes)
    (hM0ok : M0.ok = true → st.ok = true)
    (hb : buildStmt fc prev (.assign l r) st = (st.pop.length,
      ((buildExpr fc l (buildExpr fc r M0).2).2.new
        (.ai st.pop.length (buildExpr fc r M0).1 (buildExpr fc l (buildExpr fc r M0).2).1)).2))
    (hinv : Inv st) (hprev : ∀ k, prev = some k → k < st.pop.length) (hcr : coreX r = true) (hcl : coreX l = true)
    (hok : (buildStmt fc prev (.assign l r) st).2.ok = true) : StmtSpec fc prev (.assign l r) st := by
  have hokL : (buildExpr fc l (buildExpr fc r M0).2).2.ok = true := by rw [hb] at hok; simpa using hok
  have hokR : (buildExpr fc r M0).2.ok = true := buildExpr_ok_mono fc l _ hokL
  have hts0 : TS M0.pop := by rw [hM0p]; simpa using newSmt_ts hinv hprev
  have hsym0 : SymOK M0 := hinv.sym.mono hM0s hM0p
  have hblk0 : (curBlk M0.scopes).isSome = true := by rw [hM0s]; exact hinv.isSome
  have R := buildExpr_specW fc r M0 hcr hts0 hsym0 hblk0 hokR
  have L := buildExpr_specW fc l (buildExpr fc r M0).2 hcl R.ts R.sym (by rw [R.shape.1]; exact hblk0) hokL
  obtain ⟨dR, hdR, hlR, hoR⟩ := R.grows
  obtain ⟨dL, hdL, hlL, hoL⟩ := L.grows
  apply simple_spec _ _ hb hinv (hM0ok R.ok0)
  · refine ⟨dR ++ dL, by rw [hdL, hdR, hM0p]; simp, by simp [szS]; omega, ?_⟩
    intro x hx
    rcases List.mem_append.1 hx with h | h
    · exact hoR x h
    · exact hoL x h
  · exact L.ts
  · exact L.sym
  · exact ⟨by rw [L.shape.1, R.shape.1, hM0s], by rw [L.shape.2, R.shape.2, hM0s]⟩
  · rfl
  · rfl
  · rfl
  · intro ext fuel hf hs
    simp only [szS] at hf
    obtain ⟨f, rfl⟩ := fuel_succ (by omega : 1 ≤ fuel)
    have h1 := L.regen ([.ai st.pop.length (buildExpr fc r M0).1 (buildExpr fc l (buildExpr fc r M0).2).1] ++ ext) f (by omega)
    have h2 := R.regen (dL ++ [.ai st.pop.length (buildExpr fc r M0).1 (buildExpr fc l (buildExpr fc r M0).2).1] ++ ext) f (by omega)
    rw [← List.append_assoc] at h1
    rw [← List.append_assoc, ← List.append_assoc, ← hdL] at h2
    simp only [regenSmt, hs, genStmt, h1, h2]

theorem new_transient_regen {P ext : FlatPop} {n : String} {b0 b1 s rv : Nat} (hts : TSv P) (hn : n ≠ "self") (f : Nat) :
    regenVal (P ++ [.var n b0, .vtrn P.length] ++ [.val b1] ++ [.tvl (P.length + 2) P.length] ++
      [.ai s rv (P.length + 2)] ++ ext) (f + 1) (P.length + 2) = [Tok.ident n] := by
  have hp : P ++ [Row.var n b0, Row.vtrn P.length] ++ [Row.val b1] ++ [Row.tvl (P.length + 2) P.length] ++
      [Row.ai s rv (P.length + 2)] ++ ext =
      (P ++ [Row.var n b0, Row.vtrn P.length, Row.val b1, Row.tvl (P.length + 2) P.length]) ++
      ([Row.ai s rv (P.length + 2)] ++ ext) := by simp
  rw [hp]
  have hsub : valSub ((P ++ [Row.var n b0, Row.vtrn P.length, Row.val b1, Row.tvl (P.length + 2) P.length]) ++
      ([Row.ai s rv (P.length + 2)] ++ ext)) (P.length + 2) = some (.tvl (P.length + 2) P.length) := by
    apply valSub_at
    · apply hts.append
      intro j r k hj hr
      match j, hj with
      | 0, hj => simp at hj; subst hj; simp [Row.valOf] at hr
      | 1, hj => simp at hj; subst hj; simp [Row.valOf] at hr
      | 2, hj => simp at hj; subst hj; simp [Row.valOf] at hr
      | 3, hj => simp at hj; subst hj; simp [Row.valOf] at hr; omega
      | j + 4, hj => simp at hj
    · have : P.length + 2 + 1 - P.length = 3 := by omega
      rw [List.getElem?_append_right (by omega), this]; rfl
    · rfl
  have hvar : ((P ++ [Row.var n b0, Row.vtrn P.length, Row.val b1, Row.tvl (P.length + 2) P.length]) ++
      ([Row.ai s rv (P.length + 2)] ++ ext))[P.length]? = some (.var n b0) := by simp
  simp only [regenVal, hsub, regenVar_of hvar hn]

/-- first assignment to an unknown name: V_VAR + V_TRN, then the l-value's V_VAL + V_TVL -/
theorem assign_new_spec {fc : FCtx} {prev : Option Nat} {n : String} {r : Expr} {st : St} (M0 : St)
    (hM0p : M0.pop = st.pop ++ [.smt (curBlkD st.scopes) prev]) (hM0s : M0.scopes = st.scopes)
    (hM0ok : M0.ok = true → st.ok = true) (c : Bool)
    (hb : buildStmt fc prev (.assign (.var n) r) st = (st.pop.length,
      (((newVal (newVar n (fun v => .vtrn v) ((buildExpr fc r M0).2.guard c)).2).2.new
        (.tvl (newVal (newVar n (fun v => .vtrn v) ((buildExpr fc r M0).2.guard c)).2).1
          (newVar n (fun v => .vtrn v) ((buildExpr fc r M0).2.guard c)).1)).2.new
        (.ai st.pop.length (buildExpr fc r M0).1
          (newVal (newVar n (fun v => .vtrn v) ((buildExpr fc r M0).2.guard c)).2).1)).2))
    (hinv : Inv st) (hprev : ∀ k, prev = some k → k < st.pop.length) (hcr : coreX r = true) (hn : n ≠ "self")
    (hok : (buildStmt fc prev (.assign (.var n) r) st).2.ok = true) : StmtSpec fc prev (.assign (.var n) r) st := by
  have hokR : (buildExpr fc r M0).2.ok = true := by
    rw [hb] at hok; simp [newVar_ok] at hok; exact hok.1.1.1
  have hts0 : TS M0.pop := by rw [hM0p]; simpa using newSmt_ts hinv hprev
  have hsym0 : SymOK M0 := hinv.sym.mono hM0s hM0p
  have R := buildExpr_specW fc r M0 hcr hts0 hsym0 (by rw [hM0s]; exact hinv.isSome) hokR
  obtain ⟨dR, hdR, hlR, hoR⟩ := R.grows
  obtain ⟨b, hbk, hblt⟩ := hinv.blk
  have hcbR : curBlk (buildExpr fc r M0).2.scopes = curBlk st.scopes := by rw [R.shape.1, hM0s]
  have hsc : curBlkD (buildExpr fc r M0).2.scopes = curBlkD st.scopes := by simp [curBlkD, hcbR]
  have hne : ((buildExpr fc r M0).2.guard c).scopes ≠ [] := by
    simp only [guard_scopes]; exact scopes_ne_of_curBlk (hcbR.trans hbk)
  simp only [newVar_fst, newVal_fst, newVar_pop, guard_pop, List.length_append, List.length_cons, List.length_nil] at hb
  apply simple_spec _ _ hb hinv (hM0ok R.ok0)
  · refine ⟨dR ++ [.var n (curBlkD st.scopes), .vtrn (buildExpr fc r M0).2.pop.length, .val (curBlkD st.scopes),
      .tvl ((buildExpr fc r M0).2.pop.length + 2) (buildExpr fc r M0).2.pop.length], ?_, by simp [szS, szV]; omega, ?_⟩
    · simp [hdR, hM0p, hcbR, curBlkD, curBlk_install]
    · intro x hx
      rcases List.mem_append.1 hx with h | h
      · exact hoR x h
      · simp at h
        rcases h with rfl | rfl | rfl | rfl <;> simp [Row.smtOf, skeys]
  · simp only [new_pop, newVal_pop]
    apply TS.append1
    · apply TS.append1
      · exact newVar_ts (by simpa using R.ts) (fun i => by simp [Row.valOf, Row.smtOf, skeys])
      · simp [Row.valOf, Row.smtOf, skeys]
    · simp [Row.valOf, Row.smtOf, skeys]
  · have hV : SymOK (newVar n (fun v => .vtrn v) ((buildExpr fc r M0).2.guard c)).2 :=
      newVar_sym (R.sym.mono (st' := (buildExpr fc r M0).2.guard c) (by simp) (d := []) (by simp)) hne
    have hW := hV.mono (st' := (newVal (newVar n (fun v => .vtrn v) ((buildExpr fc r M0).2.guard c)).2).2)
      (newVal_scopes _) (newVal_pop _)
    exact hW.mono (new_scopes _ _) (new_pop _ _)
  · simp [curBlk_install, install_tail, hcbR, R.shape.2, hM0s]
  · rfl
  · rfl
  · rfl
  · intro ext fuel hf hs
    simp only [szS, szV] at hf
    obtain ⟨f, rfl⟩ := fuel_succ (by omega : 1 ≤ fuel)
    obtain ⟨f', rfl⟩ := fuel_succ (by omega : 1 ≤ f)
    simp only [regenSmt, hs, genStmt, genExpr]
    have e : (buildExpr fc r M0).2.pop.length + (0 + 1 + 1) = (buildExpr fc r M0).2.pop.length + 2 := rfl
    simp only [e, new_pop, newVal_pop, newVar_pop, guard_pop]
    rw [new_transient_regen R.ts.tsv hn]
    have assoc : ∀ (a b c d x : Row), (buildExpr fc r M0).2.pop ++ [a, b] ++ [c] ++ [d] ++ [x] ++ ext =
        (buildExpr fc r M0).2.pop ++ ([a, b, c, d, x] ++ ext) := by intros; simp
    rw [assoc, R.regen _ (f' + 1) (by omega)]

theorem coreX_of_coreE : ∀ {e : Expr}, coreE e = true → coreX e = true
  | .field h _, hc => by
    simp only [coreE] at hc
    simpa [coreX] using coreX_of_coreE hc
  | .un op e, hc => by
    simp only [coreE, Bool.and_eq_true] at hc
    simp only [coreX, Bool.and_eq_true]
    exact ⟨hc.1, coreX_of_coreE hc.2⟩
  | .bin l op r, hc => by
    simp only [coreE, Bool.and_eq_true] at hc
    simp only [coreX, Bool.and_eq_true]
    exact ⟨⟨hc.1.1, coreX_of_coreE hc.1.2⟩, coreX_of_coreE hc.2⟩
  | .int _, hc | .real _, hc | .str _, hc | .bool _, hc | .enum _ _, hc | .var _, hc | .selected, hc | .param _, hc
  | .self, hc | .index _ _, hc | .call _ _ _ _, hc | .icall _ _ _, hc => by simp_all [coreX, coreE]

/-- the statements the statement-level theorem covers (no nested block).  The instance names of `delete`, `relate` /
    `unrelate` (+ `using`) may be `self` (the look-up creates V_VAR + V_INT the first time, in a home that has a
    `self`); every expression of a statement — the returned value, the assigned attribute's root, the right-hand side
    of an assignment to an attribute or to a (declared) variable — is a `coreX` expression, i.e. may contain `self`
    anywhere (the builder's `plainE` guard on the right-hand side is kept: it is part of `flatOk`); the names a
    statement may DECLARE (`create`, `select`, an assigned transient) are not `self` -/
def coreS0 : Stmt → Bool
  | .brk | .cont | .ctl | .ret none | .createNV _ => true
  | .ret (some e) => coreX e
  | .delete _ => true
  | .create v _ => v != "self"
  | .assign (.var n) r => n != "self" && coreX r
  | .assign (.field h _) r => coreX h && coreX r
  | .selFrom card v _ => v != "self" && lowerStr card == card
  | .relate _ _ _ _ | .unrelate _ _ _ _ => true
  | .relateU _ _ _ _ _ | .unrelateU _ _ _ _ _ => true
  | _ => false

theorem guard_true (st : St) : st.guard true = st := by simp [St.guard]

/-- two look-ups after the ACT_SMT (`relate` / `unrelate`) -/
theorem look2 {fc : FCtx} {prev : Option Nat} {a b : String} {st : St} (hinv : Inv st)
    (hprev : ∀ k, prev = some k → k < st.pop.length)
    (hok : (needVar fc b (needVar fc a (newSmt prev st).2).2).2.ok = true) :
    LookSpec fc a (newSmt prev st).2 ∧ LookSpec fc b (needVar fc a (newSmt prev st).2).2 ∧ st.ok = true ∧
    (∃ dm : List Row, (needVar fc b (needVar fc a (newSmt prev st).2).2).2.pop =
        st.pop ++ (.smt (curBlkD st.scopes) prev :: dm) ∧ ∀ x ∈ dm, x.smtOf = none ∧ skeys x = []) ∧
    (curBlk (needVar fc b (needVar fc a (newSmt prev st).2).2).2.scopes = curBlk st.scopes ∧
      (needVar fc b (needVar fc a (newSmt prev st).2).2).2.scopes.tail = st.scopes.tail) ∧
    IsVar (needVar fc b (needVar fc a (newSmt prev st).2).2).2.pop (needVar fc a (newSmt prev st).2).1 a ∧
    IsVar (needVar fc b (needVar fc a (newSmt prev st).2).2).2.pop
      (needVar fc b (needVar fc a (newSmt prev st).2).2).1 b := by
  have hl1 : (needVar fc a (newSmt prev st).2).2.ok = true := needVar_ok_mono hok
  have L1 := needVar_spec (newSmt_ts hinv hprev) (newSmt_sym hinv) (by simpa using hinv.isSome) hl1
  have L2 := needVar_spec L1.ts L1.sym (by rw [L1.shape.1]; simpa using hinv.isSome) hok
  obtain ⟨d1, hd1, hr1⟩ := L1.grows
  obtain ⟨d2, hd2, hr2⟩ := L2.grows
  refine ⟨L1, L2, ?_, ⟨d1 ++ d2, ?_, ?_⟩, ?_, ?_, L2.row⟩
  · have := L1.ok0; simp at this; exact this.1
  · rw [hd2, hd1]; simp
  · intro x hx
    rcases List.mem_append.1 hx with h | h
    · exact hr1 x h
    · exact hr2 x h
  · rw [L2.shape.1, L2.shape.2, L1.shape.1, L1.shape.2]; simp
  · rw [hd2]; exact L1.row.append d2

/-- three look-ups after the ACT_SMT (`relate` / `unrelate` … `using`) -/
theorem look3 {fc : FCtx} {prev : Option Nat} {a b u : String} {st : St} (hinv : Inv st)
    (hprev : ∀ k, prev = some k → k < st.pop.length)
    (hok : (needVar fc u (needVar fc b (needVar fc a (newSmt prev st).2).2).2).2.ok = true) :
    LookSpec fc u (needVar fc b (needVar fc a (newSmt prev st).2).2).2 ∧ st.ok = true ∧
    (∃ dm : List Row, (needVar fc u (needVar fc b (needVar fc a (newSmt prev st).2).2).2).2.pop =
        st.pop ++ (.smt (curBlkD st.scopes) prev :: dm) ∧ ∀ x ∈ dm, x.smtOf = none ∧ skeys x = []) ∧
    (curBlk (needVar fc u (needVar fc b (needVar fc a (newSmt prev st).2).2).2).2.scopes = curBlk st.scopes ∧
      (needVar fc u (needVar fc b (needVar fc a (newSmt prev st).2).2).2).2.scopes.tail = st.scopes.tail) ∧
    IsVar (needVar fc u (needVar fc b (needVar fc a (newSmt prev st).2).2).2).2.pop (needVar fc a (newSmt prev st).2).1 a ∧
    IsVar (needVar fc u (needVar fc b (needVar fc a (newSmt prev st).2).2).2).2.pop
      (needVar fc b (needVar fc a (newSmt prev st).2).2).1 b ∧
    IsVar (needVar fc u (needVar fc b (needVar fc a (newSmt prev st).2).2).2).2.pop
      (needVar fc u (needVar fc b (needVar fc a (newSmt prev st).2).2).2).1 u := by
  have hl2 : (needVar fc b (needVar fc a (newSmt prev st).2).2).2.ok = true := needVar_ok_mono hok
  obtain ⟨L1, L2, hok0, ⟨dm, hdm, hrows⟩, hshape, hx, hy⟩ := look2 hinv hprev hl2
  have L3 := needVar_spec L2.ts L2.sym (by rw [hshape.1]; exact hinv.isSome) hok
  obtain ⟨d3, hd3, hr3⟩ := L3.grows
  refine ⟨L3, hok0, ⟨dm ++ d3, ?_, ?_⟩, ?_, ?_, ?_, L3.row⟩
  · rw [hd3, hdm]; simp
  · intro x hx'
    rcases List.mem_append.1 hx' with h | h
    · exact hrows x h
    · exact hr3 x h
  · rw [L3.shape.1, L3.shape.2, hshape.1, hshape.2]; simp
  · rw [hd3]; exact hx.append d3
  · rw [hd3]; exact hy.append d3

theorem buildStmt_spec0 (fc : FCtx) (s : Stmt) (prev : Option Nat) (st : St) (hc : coreS0 s = true) (hinv : Inv st)
    (hprev : ∀ k, prev = some k → k < st.pop.length) (hok : (buildStmt fc prev s st).2.ok = true) :
    StmtSpec fc prev s st := by
  cases s with
  | brk =>
    exact bare_spec (.brk st.pop.length) true (by simp [buildStmt, guard_true]) hinv hprev hok rfl rfl rfl rfl
      (fun ext f h => by simp only [regenSmt, h, genStmt])
  | cont =>
    exact bare_spec (.con st.pop.length) true (by simp [buildStmt, guard_true]) hinv hprev hok rfl rfl rfl rfl
      (fun ext f h => by simp only [regenSmt, h, genStmt])
  | ctl =>
    exact bare_spec (.ctl st.pop.length) true (by simp [buildStmt, guard_true]) hinv hprev hok rfl rfl rfl rfl
      (fun ext f h => by simp only [regenSmt, h, genStmt])
  | createNV kl =>
    exact bare_spec (.cnv st.pop.length kl) (fc.classes.contains kl) (by simp [buildStmt]) hinv hprev hok rfl rfl rfl rfl
      (fun ext f h => by simp only [regenSmt, h, genStmt])
  | ret oe =>
    cases oe with
    | none =>
      exact bare_spec (.ret st.pop.length none) true (by simp [buildStmt, guard_true]) hinv hprev hok rfl rfl rfl rfl
        (fun ext f h => by simp only [regenSmt, h, genStmt])
    | some e =>
      simp only [coreS0] at hc
      have hokE : (buildExpr fc e (newSmt prev st).2).2.ok = true := by simpa [buildStmt] using hok
      have E := buildExpr_specW fc e (newSmt prev st).2 hc (newSmt_ts hinv hprev) (newSmt_sym hinv)
        (by simpa using hinv.isSome) hokE
      obtain ⟨d, hd, hl, hrows⟩ := E.grows
      have hok0 : st.ok = true := by have := E.ok0; simp at this; exact this.1
      apply simple_spec (buildExpr fc e (newSmt prev st).2).2 (.ret st.pop.length (some (buildExpr fc e (newSmt prev st).2).1))
        (by simp [buildStmt]) hinv hok0
      · exact ⟨d, by rw [hd]; simp, by simp [szS]; omega, hrows⟩
      · exact E.ts
      · exact E.sym
      · simpa using E.shape
      · rfl
      · rfl
      · rfl
      · intro ext fuel hf hs
        simp only [szS] at hf
        obtain ⟨f, rfl⟩ := fuel_succ (by omega : 1 ≤ fuel)
        have := E.regen ([.ret st.pop.length (some (buildExpr fc e (newSmt prev st).2).1)] ++ ext) f (by omega)
        rw [← List.append_assoc] at this
        simp only [regenSmt, hs, genStmt, this]
  | delete v =>
    have hl : (needVar fc v (newSmt prev st).2).2.ok = true := by simpa [buildStmt] using hok
    have L := needVar_spec (newSmt_ts hinv hprev) (newSmt_sym hinv) (by simpa using hinv.isSome) hl
    obtain ⟨dv, hdv, hrows⟩ := L.grows
    have hok0 : st.ok = true := by have := L.ok0; simp at this; exact this.1
    apply simple_spec (needVar fc v (newSmt prev st).2).2 (.del st.pop.length (needVar fc v (newSmt prev st).2).1)
      (by simp [buildStmt]) hinv hok0
    · exact ⟨dv, by rw [hdv]; simp, by simp [szS], hrows⟩
    · exact L.ts
    · exact L.sym
    · simpa using L.shape
    · rfl
    · rfl
    · rfl
    · intro ext fuel hf hs
      obtain ⟨f, rfl⟩ := fuel_succ (by simpa [szS] using hf)
      simp only [regenSmt, hs, genStmt, L.row.regen]
      rfl
  | relate a b r ph =>
    have hl2 : (needVar fc b (needVar fc a (newSmt prev st).2).2).2.ok = true := by simpa [buildStmt] using hok
    obtain ⟨L1, L2, hok0, ⟨dm, hdm, hrows⟩, hshape, hx, hy⟩ := look2 hinv hprev hl2
    apply simple_spec (needVar fc b (needVar fc a (newSmt prev st).2).2).2
      (.rel st.pop.length (needVar fc a (newSmt prev st).2).1 (needVar fc b (needVar fc a (newSmt prev st).2).2).1 r ph)
      (by simp [buildStmt]) hinv hok0
    · exact ⟨dm, hdm, by simp [szS], hrows⟩
    · exact L2.ts
    · exact L2.sym
    · exact hshape
    · rfl
    · rfl
    · rfl
    · intro ext fuel hf hs
      obtain ⟨f, rfl⟩ := fuel_succ (by simpa [szS] using hf)
      simp only [regenSmt, hs, genStmt, hx.regen, hy.regen, phraseOf, phraseToks]
      rfl
  | unrelate a b r ph =>
    have hl2 : (needVar fc b (needVar fc a (newSmt prev st).2).2).2.ok = true := by simpa [buildStmt] using hok
    obtain ⟨L1, L2, hok0, ⟨dm, hdm, hrows⟩, hshape, hx, hy⟩ := look2 hinv hprev hl2
    apply simple_spec (needVar fc b (needVar fc a (newSmt prev st).2).2).2
      (.unr st.pop.length (needVar fc a (newSmt prev st).2).1 (needVar fc b (needVar fc a (newSmt prev st).2).2).1 r ph)
      (by simp [buildStmt]) hinv hok0
    · exact ⟨dm, hdm, by simp [szS], hrows⟩
    · exact L2.ts
    · exact L2.sym
    · exact hshape
    · rfl
    · rfl
    · rfl
    · intro ext fuel hf hs
      obtain ⟨f, rfl⟩ := fuel_succ (by simpa [szS] using hf)
      simp only [regenSmt, hs, genStmt, hx.regen, hy.regen, phraseOf, phraseToks]
      rfl
  | relateU a b r ph u =>
    have hl3 : (needVar fc u (needVar fc b (needVar fc a (newSmt prev st).2).2).2).2.ok = true := by
      simpa [buildStmt] using hok
    obtain ⟨L3, hok0, ⟨dm, hdm, hrows⟩, hshape, hx, hy, hz⟩ := look3 hinv hprev hl3
    apply simple_spec (needVar fc u (needVar fc b (needVar fc a (newSmt prev st).2).2).2).2
      (.ru st.pop.length (needVar fc a (newSmt prev st).2).1 (needVar fc b (needVar fc a (newSmt prev st).2).2).1
        (needVar fc u (needVar fc b (needVar fc a (newSmt prev st).2).2).2).1 r ph)
      (by simp [buildStmt]) hinv hok0
    · exact ⟨dm, hdm, by simp [szS], hrows⟩
    · exact L3.ts
    · exact L3.sym
    · exact hshape
    · rfl
    · rfl
    · rfl
    · intro ext fuel hf hs
      obtain ⟨f, rfl⟩ := fuel_succ (by simpa [szS] using hf)
      simp only [regenSmt, hs, genStmt, hx.regen, hy.regen, hz.regen, phraseOf, phraseToks]
      simp
  | unrelateU a b r ph u =>
    have hl3 : (needVar fc u (needVar fc b (needVar fc a (newSmt prev st).2).2).2).2.ok = true := by
      simpa [buildStmt] using hok
    obtain ⟨L3, hok0, ⟨dm, hdm, hrows⟩, hshape, hx, hy, hz⟩ := look3 hinv hprev hl3
    apply simple_spec (needVar fc u (needVar fc b (needVar fc a (newSmt prev st).2).2).2).2
      (.uru st.pop.length (needVar fc a (newSmt prev st).2).1 (needVar fc b (needVar fc a (newSmt prev st).2).2).1
        (needVar fc u (needVar fc b (needVar fc a (newSmt prev st).2).2).2).1 r ph)
      (by simp [buildStmt]) hinv hok0
    · exact ⟨dm, hdm, by simp [szS], hrows⟩
    · exact L3.ts
    · exact L3.sym
    · exact hshape
    · rfl
    · rfl
    · rfl
    · intro ext fuel hf hs
      obtain ⟨f, rfl⟩ := fuel_succ (by simpa [szS] using hf)
      simp only [regenSmt, hs, genStmt, hx.regen, hy.regen, hz.regen, phraseOf, phraseToks]
      simp
  | assign l r =>
    have hM0ok : ((newSmt prev st).2.guard (plainE (newSmt prev st).2 r)).ok = true → st.ok = true := by
      intro h; simp at h; exact h.1.1
    cases l with
    | field h a =>
      simp only [coreS0, Bool.and_eq_true] at hc
      exact assign_expr_spec ((newSmt prev st).2.guard (plainE (newSmt prev st).2 r)) (by simp) (by simp) hM0ok
        (by simp [buildStmt, buildLval]) hinv hprev hc.2 (by simp [coreX, hc.1]) hok
    | var n =>
      simp only [coreS0, Bool.and_eq_true, bne_iff_ne, ne_eq] at hc
      have hn : n ≠ "self" := hc.1
      have hg : ∀ m : St, m.guard (n != "self") = m := by intro m; simp [St.guard, hn]
      cases hcnd : (canonName n != n || lowerStr n == "sender") with
      | true =>
        simp [buildStmt, buildLval, lookupVar, hcnd, newVar_ok, hg] at hok
      | false =>
        cases hf : findSym (buildExpr fc r ((newSmt prev st).2.guard (plainE (newSmt prev st).2 r))).2.scopes n with
        | some x =>
          have hbl : buildLval fc (.var n) (buildExpr fc r ((newSmt prev st).2.guard (plainE (newSmt prev st).2 r))).2 =
              buildExpr fc (.var n) (buildExpr fc r ((newSmt prev st).2.guard (plainE (newSmt prev st).2 r))).2 := by
            simp [buildLval, lookupVar_eq hcnd, hg, hf]
          exact assign_expr_spec ((newSmt prev st).2.guard (plainE (newSmt prev st).2 r)) (by simp) (by simp) hM0ok
            (by simp [buildStmt, hbl]) hinv hprev hc.2 rfl hok
        | none =>
          have hs : (n == "self") = false := by simpa using hn
          exact assign_new_spec ((newSmt prev st).2.guard (plainE (newSmt prev st).2 r)) (by simp) (by simp) hM0ok
            (n != "self") (by simp [buildStmt, buildLval, lookupVar_eq hcnd, hg, hf, hs]) hinv hprev hc.2 hn hok
    | _ => simp [coreS0] at hc
  | create v kl =>
    simp only [coreS0, bne_iff_ne, ne_eq] at hc
    refine decl_spec v kl false (v != "self" && fc.classes.contains kl) (fun x => .cr st.pop.length x kl)
      (by simp [buildStmt]) hinv hprev hok hc rfl (fun x => ⟨rfl, rfl, rfl⟩) ?_
    intro q f x h hx
    simp only [regenSmt, h, genStmt, hx]
    simp [nameTok, hc]
  | selFrom card v kl =>
    simp only [coreS0, bne_iff_ne, ne_eq, Bool.and_eq_true, beq_iff_eq, decide_eq_true_eq] at hc
    refine decl_spec v kl (isMany card) (v != "self" && fc.classes.contains kl)
      (fun x => .fio st.pop.length x kl (lowerStr card))
      (by simp [buildStmt]) hinv hprev hok hc.1 rfl (fun x => ⟨rfl, rfl, rfl⟩) ?_
    intro q f x h hx
    simp only [regenSmt, h, genStmt, hx]
    simp [nameTok, hc.1, hc.2]
  | _ => simp [coreS0] at hc

/-! ### the flag is never set back -/

theorem declVar_ok_mono {fc : FCtx} {v kl : String} {many : Bool} {m : St} (hok : (declVar fc v many kl m).2.ok = true)
    (hv : v ≠ "self") : m.ok = true := by
  rcases declVar_cases hok hv with ⟨x, _, hd⟩ | ⟨_, c, hd⟩
  · rw [hd] at hok; exact hok
  · rw [hd] at hok; simp [newVar_ok] at hok; exact hok.1.1

theorem lookupVar_ok_mono {fc : FCtx} {n : String} {m : St} (h : (lookupVar fc n m).2.ok = true) : m.ok = true := by
  cases hc : (canonName n != n || lowerStr n == "sender") with
  | true => simp [lookupVar, hc] at h
  | false =>
    rw [lookupVar_eq hc] at h
    cases hf : findSym m.scopes n with
    | some v => simpa [hf] using h
    | none =>
      cases hs : n == "self" with
      | false => simpa [hf, hs] using h
      | true =>
        cases hk : fc.selfKl with
        | none => simpa [hf, hs, hk] using h
        | some kl => simp [hf, hs, hk, newVar_ok] at h; exact h.1

theorem buildLval_ok_mono {fc : FCtx} {l : Expr} {m : St} (h : (buildLval fc l m).2.ok = true) : m.ok = true := by
  cases l with
  | var n =>
    simp only [buildLval] at h
    split at h
    · exact buildExpr_ok_mono fc _ _ h
    · rename_i s heq
      simp [newVar_ok] at h
      have : (lookupVar fc n (m.guard (n != "self"))).2.ok = true := by rw [heq]; exact h.1.1
      have := lookupVar_ok_mono this
      simp at this; exact this.1
  | field e a => exact buildExpr_ok_mono fc _ _ (by simpa [buildLval] using h)
  | _ => simp [buildLval] at h

theorem buildStmt_ok_mono_core0 {fc : FCtx} {prev : Option Nat} {s : Stmt} {st : St} (hc : coreS0 s = true)
    (h : (buildStmt fc prev s st).2.ok = true) : st.ok = true := by
  cases s with
  | brk | cont | ctl => simp [buildStmt] at h; exact h.1
  | createNV kl => simp [buildStmt] at h; exact h.1.1
  | ret oe =>
    cases oe with
    | none => simp [buildStmt] at h; exact h.1
    | some e =>
      have := buildExpr_ok_mono fc e _ (by simpa [buildStmt] using h)
      simp at this; exact this.1
  | delete v =>
    have := needVar_ok_mono (show (needVar fc v (newSmt prev st).2).2.ok = true by simpa [buildStmt] using h)
    simp at this; exact this.1
  | relate a b r ph =>
    have := needVar_ok_mono (needVar_ok_mono
      (show (needVar fc b (needVar fc a (newSmt prev st).2).2).2.ok = true by simpa [buildStmt] using h))
    simp at this; exact this.1
  | unrelate a b r ph =>
    have := needVar_ok_mono (needVar_ok_mono
      (show (needVar fc b (needVar fc a (newSmt prev st).2).2).2.ok = true by simpa [buildStmt] using h))
    simp at this; exact this.1
  | relateU a b r ph u =>
    have := needVar_ok_mono (needVar_ok_mono (needVar_ok_mono
      (show (needVar fc u (needVar fc b (needVar fc a (newSmt prev st).2).2).2).2.ok = true by
        simpa [buildStmt] using h)))
    simp at this; exact this.1
  | unrelateU a b r ph u =>
    have := needVar_ok_mono (needVar_ok_mono (needVar_ok_mono
      (show (needVar fc u (needVar fc b (needVar fc a (newSmt prev st).2).2).2).2.ok = true by
        simpa [buildStmt] using h)))
    simp at this; exact this.1
  | assign l r =>
    have h1 : (buildLval fc l (buildExpr fc r ((newSmt prev st).2.guard (plainE (newSmt prev st).2 r))).2).2.ok = true := by
      simpa [buildStmt] using h
    have := buildExpr_ok_mono fc r _ (buildLval_ok_mono h1)
    simp at this; exact this.1.1
  | create v kl =>
    simp only [coreS0, bne_iff_ne, ne_eq] at hc
    have := declVar_ok_mono (show (declVar fc v false kl ((newSmt prev st).2.guard
      (v != "self" && fc.classes.contains kl))).2.ok = true by simpa [buildStmt] using h) hc
    simp at this; exact this.1.1
  | selFrom card v kl =>
    simp only [coreS0, bne_iff_ne, ne_eq, Bool.and_eq_true, beq_iff_eq, decide_eq_true_eq] at hc
    have := declVar_ok_mono (show (declVar fc v (isMany card) kl ((newSmt prev st).2.guard
      (v != "self" && fc.classes.contains kl))).2.ok = true by simpa [buildStmt] using h) hc.1
    simp at this; exact this.1.1
  | _ => simp [coreS0] at hc

/-! ### the statement-list loop (R661) -/

@[simp] theorem pushScope_pop (h : Handle) (st : St) : (pushScope h st).pop = st.pop := rfl
@[simp] theorem pushScope_ok (h : Handle) (st : St) : (pushScope h st).ok = st.ok := rfl
@[simp] theorem pushScope_scopes (h : Handle) (st : St) : (pushScope h st).scopes = ⟨h, []⟩ :: st.scopes := rfl
@[simp] theorem popScope_pop (st : St) : (popScope st).pop = st.pop := rfl
@[simp] theorem popScope_ok (st : St) : (popScope st).ok = st.ok := rfl
@[simp] theorem popScope_scopes (st : St) : (popScope st).scopes = st.scopes.tail := rfl

/- the statements / statement lists the body-level theorems cover: `coreS0` and, recursively, `while`, `for each`,
   `select … where` and `if` with any number of `elif` clauses and an optional `else` clause (`coreEl` / `coreEs`);
   the heads of `while` / `if` / `elif` and the where clause are `coreX` expressions (`self` anywhere: a `self` created
   by a head is installed in the block HOLDING the statement, one created by a where clause in the clause's O_OBJ scope,
   which is popped after the clause) -/
mutual
  def coreS : Stmt → Bool
    | .while_ e b => coreX e && coreB b
    | .if_ e b elifs els => coreX e && coreB b && coreEl elifs && coreEs els
    | .forEach v sv b => v != "self" && sv != "self" && coreB b
    | .selFromW card v _ w => v != "self" && lowerStr card == card && coreX w
    | s => coreS0 s
  def coreB : Block → Bool
    | .nil => true
    | .cons s rest => coreS s && coreB rest
  def coreEl : Elifs → Bool
    | .nil => true
    | .cons e b rest => coreX e && coreB b && coreEl rest
  def coreEs : Else → Bool
    | .none => true
    | .some b => coreB b
end

def headOf (n : Nat) : Block → Option Nat
  | .nil => none
  | .cons _ _ => some n

theorem range_find_none {m : Nat} {P : Nat → Bool} (h : ∀ i, i < m → P i = false) : (List.range m).find? P = none := by
  apply List.find?_eq_none.2
  intro x hx
  simp at hx
  simp [h x hx]

theorem range_find_some {m j : Nat} {P : Nat → Bool} (hj : j < m) (hP : P j = true) (h : ∀ i, i < j → P i = false) :
    (List.range m).find? P = some j := by
  apply find?_at (n := j)
  · intro i x hi hx
    have : i < m := by omega
    simp [List.getElem?_range this] at hx
    subst hx; exact h i hi
  · simp [List.getElem?_range hj]
  · exact hP

/-- no row names statement `n` as its predecessor -/
theorem succStmt_none {q : FlatPop} {n : Nat} (h : ∀ x ∈ q, ∀ b', x ≠ .smt b' (some n)) : succStmt q n = none := by
  unfold succStmt
  apply range_find_none
  intro i hi
  cases hq : q[i]? with
  | none => rfl
  | some x =>
    have hm := List.mem_of_getElem? hq
    cases x with
    | smt b' p =>
      cases p with
      | none => rfl
      | some k =>
        by_cases hk : k = n
        · subst hk; exact absurd rfl (h _ hm b')
        · simp [hk]
    | _ => rfl

/-- the row at `j` is the first that names `n` as its predecessor -/
theorem succStmt_some {p ext : FlatPop} {n b' : Nat} (h : ∀ x ∈ p, ∀ b'', x ≠ .smt b'' (some n))
    (hrow : (p ++ ext)[p.length]? = some (.smt b' (some n))) : succStmt (p ++ ext) n = some p.length := by
  unfold succStmt
  have hlt : p.length < (p ++ ext).length := by
    rcases Nat.lt_or_ge p.length (p ++ ext).length with h' | h'
    · exact h'
    · simp [List.getElem?_eq_none h'] at hrow
  apply range_find_some hlt
  · simp [hrow]
  · intro i hi
    rw [List.getElem?_append_left hi]
    cases hq : p[i]? with
    | none => rfl
    | some x =>
      have hm := List.mem_of_getElem? hq
      cases x with
      | smt b'' pp =>
        cases pp with
        | none => rfl
        | some k =>
          by_cases hk : k = n
          · subst hk; exact absurd rfl (h _ hm b'')
          · simp [hk]
      | _ => rfl

/-- the builder is `ok` after EVERY statement of the list (the flag is never set back, so this is `ok` of the final
    state; kept explicit because monotonicity is proved for expressions only) -/
def okAll (fc : FCtx) : Option Nat → Block → St → Bool
  | _, .nil, st => st.ok
  | prev, .cons s rest, st =>
    (buildStmt fc prev s st).2.ok && okAll fc (some (buildStmt fc prev s st).1) rest (buildStmt fc prev s st).2

/-- `accept_ForEachNode` between the ACT_SMT and the block: the loop variable (looked up, or declared as an instance
    handle of the set's class), the set variable, its class -/
def fePre (fc : FCtx) (v sv : String) (M : St) : (Nat × St) × Nat × String :=
  let found := lookupVar fc v (M.guard (v != "self"))
  let set := needVar fc sv found.2
  let kl := (setClass set.2.pop set.1).getD ""
  let x := match found.1 with
    | some var => (var, set.2.guard (setClass set.2.pop set.1).isSome)
    | none => newVar v (fun i => .vint i kl) (set.2.guard (setClass set.2.pop set.1).isSome)
  (x, set.1, kl)

theorem buildStmt_forEach (fc : FCtx) (prev : Option Nat) (v sv : String) (b : Block) (st : St) :
    buildStmt fc prev (.forEach v sv b) st = (st.pop.length,
      ((popScope (buildStmts fc none b (pushScope (.blk (fePre fc v sv (newSmt prev st).2).1.2.pop.length)
        ((fePre fc v sv (newSmt prev st).2).1.2.new (.blk false)).2))).new
        (.for_ st.pop.length (fePre fc v sv (newSmt prev st).2).1.2.pop.length (fePre fc v sv (newSmt prev st).2).1.1
          (fePre fc v sv (newSmt prev st).2).2.1 (fePre fc v sv (newSmt prev st).2).2.2)).2) := by
  simp only [buildStmt, withBlock, fePre, newSmt_fst]
  first | rfl | (congr 2 <;> (split <;> rfl))

theorem fePre_cases {fc : FCtx} {v sv : String} {M : St} (hok : (fePre fc v sv M).1.2.ok = true) (hv : v ≠ "self")
    (hsv : sv ≠ "self") :
    ∃ y, findSym M.scopes sv = some y ∧
      ((∃ xv, findSym M.scopes v = some xv ∧ fePre fc v sv M =
          ((xv, M.guard (setClass M.pop y).isSome), y, (setClass M.pop y).getD "")) ∨
       (findSym M.scopes v = none ∧ fePre fc v sv M =
          (newVar v (fun i => .vint i ((setClass M.pop y).getD "")) (M.guard (setClass M.pop y).isSome), y,
            (setClass M.pop y).getD ""))) := by
  have hg : M.guard (v != "self") = M := by simp [St.guard, hv]
  have hs : (v == "self") = false := by simpa using hv
  unfold fePre at hok
  rw [hg] at hok
  cases hc : (canonName v != v || lowerStr v == "sender") with
  | true =>
    exfalso
    simp only [lookupVar, hc, if_true] at hok
    simp [newVar_ok] at hok
    have := needVar_ok_mono hok.1.1
    simp at this
  | false =>
    rw [lookupVar_eq hc] at hok
    cases hf : findSym M.scopes v with
    | some xv =>
      simp only [hf] at hok
      have hS : (needVar fc sv M).2.ok = true := by simp at hok; exact hok.1
      obtain ⟨y, hfy, hny⟩ := needVar_ok hS hsv
      exact ⟨y, hfy, .inl ⟨xv, rfl, by simp [fePre, hg, lookupVar_eq hc, hf, hny]⟩⟩
    | none =>
      simp only [hf, hs] at hok
      have hS : (needVar fc sv M).2.ok = true := by simp [newVar_ok] at hok; exact hok.1.1
      obtain ⟨y, hfy, hny⟩ := needVar_ok hS hsv
      exact ⟨y, hfy, .inr ⟨rfl, by simp [fePre, hg, lookupVar_eq hc, hf, hs, hny]⟩⟩

theorem fePre_ok_mono {fc : FCtx} {v sv : String} {M : St} (hok : (fePre fc v sv M).1.2.ok = true) (hv : v ≠ "self")
    (hsv : sv ≠ "self") : M.ok = true := by
  obtain ⟨y, _, h | h⟩ := fePre_cases hok hv hsv
  · obtain ⟨xv, _, he⟩ := h
    rw [he] at hok; simp at hok; exact hok.1
  · rw [h.2] at hok; simp [newVar_ok] at hok; exact hok.1.1

/-- `accept_SelectFromWhereNode` after the ACT_SMT: the variable looked up, the where clause accepted in the scope of the
    class (`selected`), the variable declared afterwards when it was not visible -/
def swPre (fc : FCtx) (v kl : String) (w : Expr) (many : Bool) (M : St) : (Nat × St) × Nat :=
  let found := lookupVar fc v M
  let wv := buildExpr fc w (pushScope (.obj kl) found.2)
  let s2 := popScope wv.2
  let x := match found.1 with
    | some var => (var, s2)
    | none => if many then newVar v (fun i => .vins i kl) s2 else newVar v (fun i => .vint i kl) s2
  (x, wv.1)

theorem buildStmt_selFromW (fc : FCtx) (prev : Option Nat) (card v kl : String) (w : Expr) (st : St) :
    buildStmt fc prev (.selFromW card v kl w) st = (st.pop.length,
      ((swPre fc v kl w (isMany card) ((newSmt prev st).2.guard (v != "self" && fc.classes.contains kl))).1.2.new
        (.fiw st.pop.length (swPre fc v kl w (isMany card) ((newSmt prev st).2.guard (v != "self" && fc.classes.contains kl))).1.1
          kl (lowerStr card)
          (swPre fc v kl w (isMany card) ((newSmt prev st).2.guard (v != "self" && fc.classes.contains kl))).2)).2) := by
  simp only [buildStmt, swPre, newSmt_fst]
  first | rfl | (congr 2 <;> (split <;> rfl))

theorem swPre_cases {fc : FCtx} {v kl : String} {w : Expr} {many : Bool} {M : St}
    (hok : (swPre fc v kl w many M).1.2.ok = true) (hv : v ≠ "self") :
    (buildExpr fc w (pushScope (.obj kl) M)).2.ok = true ∧
    ((∃ xv, findSym M.scopes v = some xv ∧ swPre fc v kl w many M =
        ((xv, popScope (buildExpr fc w (pushScope (.obj kl) M)).2), (buildExpr fc w (pushScope (.obj kl) M)).1)) ∨
     (findSym M.scopes v = none ∧ swPre fc v kl w many M =
        (newVar v (fun i => if many then .vins i kl else .vint i kl) (popScope (buildExpr fc w (pushScope (.obj kl) M)).2),
          (buildExpr fc w (pushScope (.obj kl) M)).1))) := by
  have hs : (v == "self") = false := by simpa using hv
  unfold swPre at hok
  cases hc : (canonName v != v || lowerStr v == "sender") with
  | true =>
    exfalso
    simp only [lookupVar, hc, if_true] at hok
    have h1 : (buildExpr fc w (pushScope (.obj kl) M.fail)).2.ok = true := by
      cases many <;> simp [newVar_ok] at hok <;> exact hok.1
    have := buildExpr_ok_mono fc w _ h1
    simp at this
  | false =>
    rw [lookupVar_eq hc] at hok
    cases hf : findSym M.scopes v with
    | some xv =>
      simp only [hf] at hok
      exact ⟨by simpa using hok, .inl ⟨xv, rfl, by simp [swPre, lookupVar_eq hc, hf]⟩⟩
    | none =>
      simp only [hf, hs] at hok
      refine ⟨by cases many <;> simp [newVar_ok] at hok <;> exact hok.1, .inr ⟨rfl, ?_⟩⟩
      cases many <;> simp [swPre, lookupVar_eq hc, hf, hs]

theorem swPre_ok_mono {fc : FCtx} {v kl : String} {w : Expr} {many : Bool} {M : St}
    (hok : (swPre fc v kl w many M).1.2.ok = true) (hv : v ≠ "self") : M.ok = true := by
  have := buildExpr_ok_mono fc w _ (swPre_cases hok hv).1
  simpa using this

attribute [local irreducible] buildStmt buildStmts buildElifs buildElse in
mutual
theorem buildStmt_ok_mono_core (fc : FCtx) : ∀ (s : Stmt) (prev : Option Nat) (st : St), coreS s = true →
    (buildStmt fc prev s st).2.ok = true → st.ok = true
  | .while_ e b, prev, st, hc, h => by
    simp only [coreS, Bool.and_eq_true] at hc
    simp only [buildStmt, withBlock, new_ok, popScope_ok] at h
    have h1 := buildStmts_ok_mono_core fc b none _ hc.2 h
    simp only [pushScope_ok, new_ok] at h1
    have := buildExpr_ok_mono fc e _ h1
    simp at this; exact this.1
  | .assign l r, prev, st, hc, h => buildStmt_ok_mono_core0 (by simpa [coreS] using hc) h
  | .ret oe, prev, st, hc, h => buildStmt_ok_mono_core0 (by simpa [coreS] using hc) h
  | .brk, prev, st, hc, h => buildStmt_ok_mono_core0 (by simpa [coreS] using hc) h
  | .cont, prev, st, hc, h => buildStmt_ok_mono_core0 (by simpa [coreS] using hc) h
  | .ctl, prev, st, hc, h => buildStmt_ok_mono_core0 (by simpa [coreS] using hc) h
  | .create v kl, prev, st, hc, h => buildStmt_ok_mono_core0 (by simpa [coreS] using hc) h
  | .createNV kl, prev, st, hc, h => buildStmt_ok_mono_core0 (by simpa [coreS] using hc) h
  | .delete v, prev, st, hc, h => buildStmt_ok_mono_core0 (by simpa [coreS] using hc) h
  | .relate a b r ph, prev, st, hc, h => buildStmt_ok_mono_core0 (by simpa [coreS] using hc) h
  | .relateU a b r ph u, prev, st, hc, h => buildStmt_ok_mono_core0 (by simpa [coreS] using hc) h
  | .unrelate a b r ph, prev, st, hc, h => buildStmt_ok_mono_core0 (by simpa [coreS] using hc) h
  | .unrelateU a b r ph u, prev, st, hc, h => buildStmt_ok_mono_core0 (by simpa [coreS] using hc) h
  | .selFrom c v kl, prev, st, hc, h => buildStmt_ok_mono_core0 (by simpa [coreS] using hc) h
  | .selFromW c v kl w, prev, st, hc, h => by
    simp only [coreS, Bool.and_eq_true, bne_iff_ne, ne_eq] at hc
    rw [buildStmt_selFromW] at h
    simp only [new_ok] at h
    have := swPre_ok_mono h hc.1.1
    simp at this; exact this.1.1
  | .selRel c v hd ch, prev, st, hc, h => by simp [coreS, coreS0] at hc
  | .selRelW c v hd ch w, prev, st, hc, h => by simp [coreS, coreS0] at hc
  | .forEach v sv b, prev, st, hc, h => by
    simp only [coreS, Bool.and_eq_true, bne_iff_ne, ne_eq] at hc
    rw [buildStmt_forEach] at h
    simp only [new_ok, popScope_ok] at h
    have h1 := buildStmts_ok_mono_core fc b none _ hc.2 h
    simp only [pushScope_ok, new_ok] at h1
    have := fePre_ok_mono h1 hc.1.1 hc.1.2
    simp at this; exact this.1
  | .if_ e b elifs els, prev, st, hc, h => by
    simp only [coreS, Bool.and_eq_true] at hc
    simp only [buildStmt] at h
    have h0 := buildElifs_ok_mono_core fc elifs _ _ hc.1.2 (buildElse_ok_mono_core fc els _ _ hc.2 h)
    simp only [withBlock, new_ok, popScope_ok] at h0
    have h1 := buildStmts_ok_mono_core fc b none _ hc.1.1.2 h0
    simp only [pushScope_ok, new_ok] at h1
    have := buildExpr_ok_mono fc e _ h1
    simp at this; exact this.1
  | .invoke e, prev, st, hc, h => by simp [coreS, coreS0] at hc
  | .genEvt l m d t, prev, st, hc, h => by simp [coreS, coreS0] at hc
  | .createEvt v l m d t, prev, st, hc, h => by simp [coreS, coreS0] at hc
  | .genPre e, prev, st, hc, h => by simp [coreS, coreS0] at hc
theorem buildStmts_ok_mono_core (fc : FCtx) : ∀ (ss : Block) (prev : Option Nat) (st : St), coreB ss = true →
    (buildStmts fc prev ss st).ok = true → st.ok = true
  | .nil, _, st, _, h => by simpa [buildStmts] using h
  | .cons s rest, prev, st, hc, h => by
    simp only [coreB, Bool.and_eq_true] at hc
    simp only [buildStmts] at h
    exact buildStmt_ok_mono_core fc s prev st hc.1 (buildStmts_ok_mono_core fc rest _ _ hc.2 h)
theorem buildElifs_ok_mono_core (fc : FCtx) : ∀ (el : Elifs) (ifS : Nat) (st : St), coreEl el = true →
    (buildElifs fc ifS el st).ok = true → st.ok = true
  | .nil, _, st, _, h => by simpa [buildElifs] using h
  | .cons e b rest, ifS, st, hc, h => by
    simp only [coreEl, Bool.and_eq_true] at hc
    simp only [buildElifs] at h
    have h0 := buildElifs_ok_mono_core fc rest ifS _ hc.2 h
    simp only [withBlock, new_ok, popScope_ok] at h0
    have h1 := buildStmts_ok_mono_core fc b none _ hc.1.2 h0
    simp only [pushScope_ok, new_ok] at h1
    have := buildExpr_ok_mono fc e _ h1
    simp at this; exact this.1
theorem buildElse_ok_mono_core (fc : FCtx) : ∀ (els : Else) (ifS : Nat) (st : St), coreEs els = true →
    (buildElse fc ifS els st).ok = true → st.ok = true
  | .none, _, st, _, h => by simpa [buildElse] using h
  | .some b, ifS, st, hc, h => by
    simp only [coreEs] at hc
    simp only [buildElse, withBlock, new_ok, popScope_ok] at h
    have h1 := buildStmts_ok_mono_core fc b none _ hc h
    simp only [pushScope_ok, new_ok] at h1
    simp at h1; exact h1.1
end

/-- `ok` of the final state is `ok` after every statement -/
theorem okAll_of_ok (fc : FCtx) : ∀ (ss : Block) (prev : Option Nat) (st : St), coreB ss = true →
    (buildStmts fc prev ss st).ok = true → okAll fc prev ss st = true
  | .nil, _, st, _, h => by simpa [buildStmts, okAll] using h
  | .cons s rest, prev, st, hc, h => by
    simp only [coreB, Bool.and_eq_true] at hc
    simp only [buildStmts] at h
    simp only [okAll, Bool.and_eq_true]
    exact ⟨buildStmts_ok_mono_core fc rest _ _ hc.2 h, okAll_of_ok fc rest _ _ hc.2 h⟩

/-- the R661 chain of a block as a list: the first statement by the R602 filter, then successor by successor -/
def chainFrom (q : FlatPop) : Nat → Option Nat → List Nat
  | 0, _ => []
  | _ + 1, none => []
  | f + 1, some s => s :: chainFrom q f (succStmt q s)

def chainOf (q : FlatPop) (b : Nat) : List Nat := chainFrom q q.length (firstStmt q b)

def lenB : Block → Nat
  | .nil => 0
  | .cons _ rest => lenB rest + 1

/-- the ACT_SMT rows the statement-list loop creates for the statements of the list itself, in source order -/
def stmtIds (fc : FCtx) : Option Nat → Block → St → List Nat
  | _, .nil, _ => []
  | prev, .cons s rest, st =>
    st.pop.length :: stmtIds fc (some (buildStmt fc prev s st).1) rest (buildStmt fc prev s st).2

/-- every listed statement is an ACT_SMT of block `b` whose Previous_Statement_ID names the one listed before it -/
def linked (q : FlatPop) (b : Nat) : Option Nat → List Nat → Prop
  | _, [] => True
  | prev, i :: rest => q[i]? = some (.smt b prev) ∧ linked q b (some i) rest

theorem stmtIds_length (fc : FCtx) : ∀ (ss : Block) (prev : Option Nat) (st : St),
    (stmtIds fc prev ss st).length = lenB ss
  | .nil, _, _ => rfl
  | .cons s rest, prev, st => by simp [stmtIds, lenB, stmtIds_length fc rest]

/-- a linked list of statements is strictly increasing (each row names an EARLIER row): no statement twice, no cycle -/
theorem linked_increasing {q : FlatPop} {b : Nat} (hts : TS q) : ∀ (ids : List Nat) (prev : Option Nat),
    linked q b prev ids → (∀ k, prev = some k → ∀ i ∈ ids, k < i) ∧ ids.Pairwise (· < ·)
  | [], _, _ => by simp
  | i :: rest, prev, h => by
    obtain ⟨hrow, hrest⟩ := h
    obtain ⟨h1, h2⟩ := linked_increasing hts rest (some i) hrest
    have hk : ∀ k, prev = some k → k < i := by
      intro k hk; subst hk
      exact (hts i _ hrow).2.2 k (by simp [skeys])
    refine ⟨?_, ?_⟩
    · intro k hkp j hj
      simp at hj
      rcases hj with rfl | hj
      · exact hk k hkp
      · exact Nat.lt_trans (hk k hkp) (h1 i rfl j hj)
    · simp only [List.pairwise_cons]
      exact ⟨fun j hj => h1 i rfl j hj, h2⟩

structure ChainSpec (fc : FCtx) (prev : Option Nat) (ss : Block) (st : St) : Prop where
  ok0 : st.ok = true
  inv : Inv (buildStmts fc prev ss st)
  shape : curBlk (buildStmts fc prev ss st).scopes = curBlk st.scopes ∧
    (buildStmts fc prev ss st).scopes.tail = st.scopes.tail
  grows : ∃ d : List Row, (buildStmts fc prev ss st).pop = st.pop ++ d ∧ szB ss ≤ d.length + 1 ∧
    (∀ s rest, ss = .cons s rest → ∃ d', d = .smt (curBlkD st.scopes) prev :: d') ∧
    (∀ x ∈ d, (∀ b' p, x = .smt b' p → (b' = curBlkD st.scopes ∨ st.pop.length < b') ∧
        ∀ k, p = some k → (p = prev ∨ st.pop.length ≤ k)) ∧ (∀ k ∈ ikeys x, st.pop.length ≤ k))
  first : ∀ (ext : List Row) s rest, ss = .cons s rest →
    ∃ row, smtSub ((buildStmts fc prev ss st).pop ++ ext) st.pop.length = some row ∧ ikeys row = []
  regen : ∀ (ext : List Row) (fuel : Nat), FreshC st.pop.length (buildStmts fc prev ss st).pop.length ext →
    szB ss ≤ fuel → regenChain ((buildStmts fc prev ss st).pop ++ ext) fuel (headOf st.pop.length ss) = genBlock ss
  subsAll : ∀ (ext : List Row) (i b' : Nat) (p : Option Nat),
    ((buildStmts fc prev ss st).pop ++ ext)[i]? = some (.smt b' p) → st.pop.length ≤ i →
    i < (buildStmts fc prev ss st).pop.length →
    ∃ row, smtSub ((buildStmts fc prev ss st).pop ++ ext) i = some row ∧ row.smtOf = some i ∧
      ((∀ x ∈ ext, ∀ k, x.smtOf = some k → k < st.pop.length ∨ (buildStmts fc prev ss st).pop.length ≤ k) →
        subCount ((buildStmts fc prev ss st).pop ++ ext) i = 1)
  chain : ∀ (ext : List Row) (fuel : Nat), FreshC st.pop.length (buildStmts fc prev ss st).pop.length ext →
    lenB ss ≤ fuel → chainFrom ((buildStmts fc prev ss st).pop ++ ext) fuel (headOf st.pop.length ss) = stmtIds fc prev ss st
  linked : ∀ ext : List Row, linked ((buildStmts fc prev ss st).pop ++ ext) (curBlkD st.scopes) prev (stmtIds fc prev ss st)
  keysGe : ∀ d : List Row, (buildStmts fc prev ss st).pop = st.pop ++ d →
    ∀ x ∈ d, ∀ k, x.smtOf = some k → st.pop.length ≤ k
  uniq : ∀ ext : List Row,
    (∀ x ∈ ext, ∀ k, x.smtOf = some k → k < st.pop.length ∨ (buildStmts fc prev ss st).pop.length ≤ k) →
    ∀ i ∈ stmtIds fc prev ss st, subCount ((buildStmts fc prev ss st).pop ++ ext) i = 1

theorem ikeys_sub_skeys (x : Row) : ∀ k ∈ ikeys x, k ∈ skeys x := by
  intro k hk; cases x <;> simp [ikeys, skeys] at hk ⊢ <;> exact hk

theorem isElifOrElse_false {q : FlatPop} {s : Nat} {row : Row} (h : smtSub q s = some row) (hi : ikeys row = []) :
    isElifOrElse q s = false := by
  unfold isElifOrElse
  rw [h]
  cases row <;> simp [ikeys] at hi ⊢

theorem one_le_szB : ∀ b : Block, 1 ≤ szB b
  | .nil => by simp [szB]
  | .cons s r => by simp only [szB]; omega

theorem firstStmt_some {q : FlatPop} {kb : Nat} (hrow : q[kb + 1]? = some (.smt kb none))
    (hne : isElifOrElse q (kb + 1) = false)
    (hbefore : ∀ i x, i ≤ kb → q[i]? = some x → ∀ p, x ≠ .smt kb p) : firstStmt q kb = some (kb + 1) := by
  unfold firstStmt
  have hlt : kb + 1 < q.length := by
    rcases Nat.lt_or_ge (kb + 1) q.length with h' | h'
    · exact h'
    · simp [List.getElem?_eq_none h'] at hrow
  apply range_find_some hlt
  · simp [hrow, hne]
  · intro i hi
    cases hq : q[i]? with
    | none => rfl
    | some x =>
      cases x with
      | smt b' p =>
        cases p with
        | some k => rfl
        | none =>
          have : b' ≠ kb := by
            intro h; subst h
            exact hbefore i _ (by omega) hq none rfl
          simp [this]
      | _ => rfl

theorem firstStmt_none {q : FlatPop} {kb : Nat} (h : ∀ x ∈ q, ∀ p, x ≠ .smt kb p) : firstStmt q kb = none := by
  unfold firstStmt
  apply range_find_none
  intro i hi
  cases hq : q[i]? with
  | none => rfl
  | some x =>
    have hm := List.mem_of_getElem? hq
    cases x with
    | smt b' p =>
      cases p with
      | some k => rfl
      | none =>
        have : b' ≠ kb := by
          intro h'; subst h'
          exact h _ hm none rfl
        simp [this]
    | _ => rfl

theorem getElem?_lt_of_some {l : List Row} {i : Nat} {x : Row} (h : l[i]? = some x) : i < l.length := by
  rcases Nat.lt_or_ge i l.length with h' | h'
  · exact h'
  · simp [List.getElem?_eq_none h'] at h

/-- an ACT_SMT, rows `dE` without statements (values, variables), a new ACT_BLK with its scope and statement list
    (`accept_BlockNode`), then the R603 subtype row `mk blk` (which may name an earlier `if` over R682 / R683) -/
theorem block_gen {fc : FCtx} {prev : Option Nat} {b : Block} {st : St} (n : Nat) (V : St) (mk : Nat → Row)
    (dE : List Row) (X : St)
    (hX : X = ((popScope (buildStmts fc none b (pushScope (.blk V.pop.length) (V.new (.blk false)).2))).new
      (mk V.pop.length)).2)
    (hinv : Inv st) (hok : X.ok = true)
    (hdE' : V.pop = st.pop ++ (.smt (curBlkD st.scopes) prev :: dE))
    (hplain : ∀ x ∈ dE, x.smtOf = none ∧ skeys x = [])
    (hVts : TS V.pop) (hVsym : SymOK V) (hVcb : curBlk V.scopes = curBlk st.scopes)
    (hVtl : V.scopes.tail = st.scopes.tail) (hVok : V.ok = true → st.ok = true)
    (hmk : (mk V.pop.length).smtOf = some st.pop.length ∧ (∀ k ∈ skeys (mk V.pop.length), k < st.pop.length) ∧
      (mk V.pop.length).valOf = none)
    (hsz1 : n ≤ dE.length + szB b + 2) (hsz2 : szB b + 2 ≤ n)
    (hM : ∀ st' : St, (buildStmts fc none b st').ok = true → st'.ok = true)
    (hC : ∀ st' : St, Inv st' → (buildStmts fc none b st').ok = true → ChainSpec fc none b st') :
    BSpec fc prev b n st V (mk V.pop.length) X := by
  subst hX
  generalize hK : pushScope (.blk V.pop.length)
        (V.new (.blk false)).2 = K at hok ⊢
  have hKpop : K.pop = V.pop ++ [Row.blk false] := by rw [← hK]; simp
  have hKsc : K.scopes = ⟨.blk V.pop.length, []⟩ ::
      V.scopes := by rw [← hK]; simp
  have hKok : K.ok = V.ok := by rw [← hK]; simp
  have hinner : (buildStmts fc none b K).ok = true := by simpa using hok
  have hVlen : V.pop.length = st.pop.length + 1 + dE.length := by rw [hdE']; simp; omega
  obtain ⟨b0, hb0, hb0lt⟩ := hinv.blk
  have invK : Inv K := by
    refine ⟨?_, ?_, ⟨V.pop.length, by rw [hKsc]; rfl, by rw [hKpop]; simp⟩⟩
    · rw [hKpop]; exact hVts.append1 _ (by simp [Row.valOf, Row.smtOf, skeys])
    · intro n v hf
      rw [hKsc] at hf
      simp only [findSym, List.lookup] at hf
      obtain ⟨bb, hbb⟩ := hVsym n v hf
      refine ⟨bb, ?_⟩
      rw [hKpop, List.getElem?_append_left (getElem?_lt_of_some hbb)]; exact hbb
  have C := hC K invK hinner
  obtain ⟨dC, hdC, hszC, hheadC, hkC⟩ := C.grows
  have hKlen : K.pop.length = V.pop.length + 1 := by rw [hKpop]; simp
  have hcbK : curBlkD K.scopes = V.pop.length := by rw [hKsc]; rfl
  have hok0 : st.ok = true := hVok (by rw [← hKok]; exact hM K hinner)
  have hmkne : ∀ b' p, mk V.pop.length ≠ .smt b' p := by
    intro b' p h; have := hmk.1; rw [h] at this; simp [Row.smtOf] at this
  have hmkik : ∀ k ∈ ikeys (mk V.pop.length), k < st.pop.length :=
    fun k hk => hmk.2.1 k (ikeys_sub_skeys _ k hk)
  -- the rows between the ACT_SMT and the subtype row
  have hD : ∀ x ∈ dE ++ [Row.blk false] ++ dC, (∀ k, x.smtOf = some k → st.pop.length < k) ∧
      (∀ b' p, x = .smt b' p → st.pop.length < b' ∧ ∀ k, p = some k → st.pop.length < k) ∧
      (∀ k ∈ ikeys x, st.pop.length < k) := by
    intro x hx
    rcases List.mem_append.1 hx with hx | hx
    · rcases List.mem_append.1 hx with hx | hx
      · obtain ⟨h1, h2⟩ := hplain x hx
        refine ⟨fun k hk => (by rw [h1] at hk; cases hk), ?_, ?_⟩
        · intro b' p hxe; subst hxe; simp [skeys] at h2
        · intro k hk; cases x <;> simp [ikeys, skeys] at hk h2
      · simp at hx; subst hx
        exact ⟨fun k hk => (by simp [Row.smtOf] at hk), fun b' p h => (by cases h), fun k hk => (by simp [ikeys] at hk)⟩
    · obtain ⟨h2, h3⟩ := hkC x hx
      refine ⟨fun k hk => (by have := C.keysGe dC hdC x hx k hk; omega), ?_, fun k hk => (by have := h3 k hk; omega)⟩
      intro b' p hxe
      obtain ⟨ha, hb'⟩ := h2 b' p hxe
      refine ⟨(by rcases ha with h | h <;> omega), ?_⟩
      intro k hk
      rcases hb' k hk with h | h
      · rw [hk] at h; cases h
      · omega
  have hP : ((popScope (buildStmts fc none b K)).new (mk V.pop.length)).2.pop =
      st.pop ++ (.smt (curBlkD st.scopes) prev :: (dE ++ [Row.blk false] ++ dC ++ [mk V.pop.length])) := by
    simp [hdC, hKpop, hdE']
  have hPin : (buildStmts fc none b K).pop = st.pop ++ (.smt (curBlkD st.scopes) prev :: (dE ++ [Row.blk false] ++ dC)) := by
    simp [hdC, hKpop, hdE']
  have hinlen : (buildStmts fc none b K).pop.length = st.pop.length + 1 + (dE ++ [Row.blk false] ++ dC).length := by
    rw [hPin]; simp; omega
  have hTS : TS ((popScope (buildStmts fc none b K)).new (mk V.pop.length)).2.pop := by
    simp only [new_pop, popScope_pop]
    apply C.inv.ts.append1
    refine ⟨fun k hk => (by rw [hmk.2.2] at hk; cases hk), fun k hk => ?_, fun k hk => (by have := hmk.2.1 k hk; omega)⟩
    rw [hmk.1] at hk; cases hk; omega
  -- no row before the subtype row claims the statement
  have hnone : ∀ x ∈ (buildStmts fc none b K).pop, x.smtOf ≠ some st.pop.length := by
    intro x hx hxe
    rw [hPin] at hx
    rcases List.mem_append.1 hx with h | h
    · obtain ⟨i, hi⟩ := List.getElem?_of_mem h
      have := (hinv.ts i x hi).2.1 _ hxe
      have := getElem?_lt_of_some hi
      omega
    · simp only [List.mem_cons] at h
      rcases h with rfl | h
      · simp [Row.smtOf] at hxe
      · have := (hD x h).1 _ hxe; omega
  have hfind : ∀ ext, smtSub (((popScope (buildStmts fc none b K)).new (mk V.pop.length)).2.pop ++ ext)
      st.pop.length = some (mk V.pop.length) := by
    intro ext
    apply smtSub_at (j := (buildStmts fc none b K).pop.length) hTS (by simp) hmk.1
    intro i x hi hj hx
    simp only [new_pop, popScope_pop] at hx
    rw [List.getElem?_append_left hj] at hx
    exact hnone x (List.mem_of_getElem? hx)
  have hFsc : ((popScope (buildStmts fc none b K)).new (mk V.pop.length)).2.scopes = V.scopes := by
    simp [C.shape.2, hKsc]
  refine ⟨hok0, ⟨dE ++ [Row.blk false] ++ dC, hP, by simp; omega, hD⟩, ⟨hTS, ?_, ?_⟩, ?_, hfind, ?_, ?_, ?_⟩
  · exact hVsym.mono hFsc (d := [Row.blk false] ++ dC ++ [mk V.pop.length])
      (by simp [hdC, hKpop])
  · refine ⟨b0, by rw [hFsc, hVcb]; exact hb0, ?_⟩
    rw [hP]; simp; omega
  · rw [hFsc]; exact ⟨hVcb, hVtl⟩
  · intro ext fuel hfr hf
    have hszb := one_le_szB b
    obtain ⟨f, rfl⟩ := fuel_succ (by omega : 1 ≤ fuel)
    obtain ⟨g, rfl⟩ := fuel_succ (by omega : 1 ≤ f)
    simp only [new_pop, popScope_pop] at hfr ⊢
    have hFlen : ((buildStmts fc none b K).pop ++ [mk V.pop.length]).length =
        (buildStmts fc none b K).pop.length + 1 := by simp
    rw [hFlen] at hfr
    have hinl : (buildStmts fc none b K).pop.length = K.pop.length + dC.length := by rw [hdC]; simp
    -- rows up to the new block are no statement of it
    have hbefore : ∀ i x, i ≤ V.pop.length →
        ((buildStmts fc none b K).pop ++ [mk V.pop.length] ++ ext)[i]? = some x →
        ∀ p, x ≠ .smt V.pop.length p := by
      intro i x hi hx p hxe
      have h2 : i < (buildStmts fc none b K).pop.length := by omega
      rw [List.append_assoc, List.getElem?_append_left h2, hdC, List.getElem?_append_left (by omega), hKpop] at hx
      by_cases h3 : i < V.pop.length
      · rw [List.getElem?_append_left h3] at hx
        have := (hVts i x hx).2.2 V.pop.length (by subst hxe; simp [skeys])
        omega
      · have : i = V.pop.length := by omega
        subst this
        rw [List.getElem?_append_right (Nat.le_refl _)] at hx
        simp at hx; subst hx; cases hxe
    have hfirst : firstStmt ((buildStmts fc none b K).pop ++ [mk V.pop.length] ++ ext)
        V.pop.length = headOf K.pop.length b := by
      cases b with
      | nil =>
        have hk : buildStmts fc none .nil K = K := by simp [buildStmts]
        simp only [headOf]
        apply firstStmt_none
        intro x hx p hxe
        rw [hk] at hx
        rcases List.mem_append.1 hx with h | h
        · rcases List.mem_append.1 h with h | h
          · obtain ⟨i, hi⟩ := List.getElem?_of_mem h
            have hil := getElem?_lt_of_some hi
            rw [hk] at hbefore
            exact hbefore i x (by rw [hKpop] at hil; simp at hil; omega)
              (by rw [List.append_assoc, List.getElem?_append_left hil]; exact hi) p hxe
          · simp at h; rw [h] at hxe; exact hmkne _ _ hxe
        · obtain ⟨h1, _⟩ := hfr x h
          have := (h1 _ p hxe).1
          rw [hk] at this
          omega
      | cons s r =>
        obtain ⟨d', hd'⟩ := hheadC s r rfl
        obtain ⟨row, hrow, hik⟩ := C.first ([mk V.pop.length] ++ ext) s r rfl
        rw [← List.append_assoc] at hrow
        simp only [headOf]
        rw [hKlen] at hrow ⊢
        have hdl : 1 ≤ dC.length := by rw [hd']; simp
        apply firstStmt_some _ (isElifOrElse_false hrow hik) hbefore
        rw [List.append_assoc, List.getElem?_append_left (by rw [hinl, hKlen]; omega), hdC,
          List.getElem?_append_right (by omega), hd', hcbK]
        simp [hKlen]
    have hblk : regenBlk ((buildStmts fc none b K).pop ++ [mk V.pop.length] ++ ext) (g + 1)
        V.pop.length = genBlock b := by
      simp only [regenBlk, hfirst]
      rw [List.append_assoc]
      apply C.regen ([mk V.pop.length] ++ ext) g _ (by omega)
      intro x hx k hk
      rcases List.mem_append.1 hx with h | h
      · simp at h; subst h; have := hmk.2.1 k hk; left; omega
      · obtain ⟨h1, h2⟩ := hfr x h
        cases x with
        | smt b' p =>
          obtain ⟨ha, hb'⟩ := h1 b' p rfl
          simp only [skeys, List.mem_cons] at hk
          rcases hk with rfl | hk
          · omega
          · cases p with
            | none => simp at hk
            | some k' => simp at hk; subst hk; have := hb' k rfl; omega
        | el a1 a2 a3 a4 => simp [skeys] at hk; subst hk; have := h2 k (by simp [ikeys]); omega
        | e a1 a2 a3 => simp [skeys] at hk; subst hk; have := h2 k (by simp [ikeys]); omega
        | _ => simp [skeys] at hk
    have e1 : (buildStmts fc none b K).pop ++ [mk V.pop.length] ++ ext =
        V.pop ++ ([Row.blk false] ++ dC ++ [mk V.pop.length] ++ ext) := by simp [hdC, hKpop]
    rw [e1] at hblk
    refine ⟨[Row.blk false] ++ dC ++ [mk V.pop.length] ++ ext, g + 1, e1, rfl, ?_, hblk⟩
    intro hext x hx k hk hkn
    subst hkn
    simp only [List.mem_append, List.mem_singleton] at hx
    rcases hx with ((hx | hx) | hx) | hx
    · subst hx; simp [ikeys] at hk
    · have := (hkC x hx).2 _ hk; omega
    · subst hx; have := hmkik _ hk; omega
    · exact hext x hx _ hk rfl
  · intro ext i b' p hi hge hlt
    by_cases hin : i = st.pop.length
    · subst hin
      refine ⟨_, hfind ext, hmk.1, fun hc => ?_⟩
      simp only [new_pop, popScope_pop] at hc ⊢
      exact subCount_parts hnone (fun x hx hxe => by have := hc x hx _ hxe; simp at this; omega) hmk.1
    · simp only [new_pop, popScope_pop] at hi hlt ⊢
      by_cases h1 : i < K.pop.length
      · exfalso
        have h2 : i < (buildStmts fc none b K).pop.length := by rw [hdC]; simp; omega
        rw [List.append_assoc, List.getElem?_append_left h2, hdC, List.getElem?_append_left h1, hKpop, hdE',
          List.append_assoc, List.getElem?_append_right hge] at hi
        have e1 : i - st.pop.length = (i - st.pop.length - 1) + 1 := by omega
        rw [e1] at hi
        simp only [List.cons_append, List.getElem?_cons_succ] at hi
        have hm := List.mem_of_getElem? hi
        rcases List.mem_append.1 hm with h | h
        · have := (hplain _ h).2; simp [skeys] at this
        · simp at h
      · by_cases h2 : i < (buildStmts fc none b K).pop.length
        · rw [List.append_assoc] at hi ⊢
          obtain ⟨row, hr1, hr2, hr3⟩ := C.subsAll ([mk V.pop.length] ++ ext) i b' p hi (by omega) h2
          refine ⟨row, hr1, hr2, fun hc => hr3 ?_⟩
          intro x hx k hk
          rcases List.mem_append.1 hx with h | h
          · simp at h; subst h; rw [hmk.1] at hk; cases hk; left; omega
          · have := hc x h k hk
            simp at this; omega
        · exfalso
          have : i = (buildStmts fc none b K).pop.length := by simp at hlt; omega
          subst this
          rw [List.append_assoc, List.getElem?_append_right (Nat.le_refl _)] at hi
          simp at hi; exact hmkne _ _ hi
  · intro ext hext
    simp only [new_pop, popScope_pop]
    exact subCount_parts hnone hext hmk.1

/-- a statement with ONE nested block: ACT_SMT, rows `dE` without statements (values, variables), a new ACT_BLK with its
    scope and statement list (`accept_BlockNode`), then the R603 subtype row `mk blk` -/
theorem blockStmt_spec {fc : FCtx} {prev : Option Nat} {s : Stmt} {b : Block} {st : St} (V : St) (mk : Nat → Row)
    (dE : List Row)
    (hb : buildStmt fc prev s st = (st.pop.length,
      ((popScope (buildStmts fc none b (pushScope (.blk V.pop.length) (V.new (.blk false)).2))).new (mk V.pop.length)).2))
    (hinv : Inv st) (hok : (buildStmt fc prev s st).2.ok = true)
    (hdE' : V.pop = st.pop ++ (.smt (curBlkD st.scopes) prev :: dE))
    (hplain : ∀ x ∈ dE, x.smtOf = none ∧ skeys x = [])
    (hVts : TS V.pop) (hVsym : SymOK V) (hVcb : curBlk V.scopes = curBlk st.scopes)
    (hVtl : V.scopes.tail = st.scopes.tail) (hVok : V.ok = true → st.ok = true)
    (hmk : (mk V.pop.length).smtOf = some st.pop.length ∧ skeys (mk V.pop.length) = [] ∧ (mk V.pop.length).valOf = none)
    (hsz1 : szS s ≤ dE.length + szB b + 2) (hsz2 : szB b + 2 ≤ szS s)
    (hM : ∀ st' : St, (buildStmts fc none b st').ok = true → st'.ok = true)
    (hC : ∀ st' : St, Inv st' → (buildStmts fc none b st').ok = true → ChainSpec fc none b st')
    (hprint : ∀ (rest : List Row) (f : Nat), szS s ≤ f + 1 → (∀ x ∈ rest, ∀ k ∈ ikeys x, k ≠ st.pop.length) →
      smtSub (V.pop ++ rest) st.pop.length = some (mk V.pop.length) →
      regenBlk (V.pop ++ rest) f V.pop.length = genBlock b →
      regenSmt (V.pop ++ rest) (f + 1) st.pop.length = genStmt s) :
    StmtSpec fc prev s st := by
  have G := block_gen (fc := fc) (prev := prev) (b := b) (st := st) (szS s) V mk dE (buildStmt fc prev s st).2
    (by rw [hb]) hinv hok hdE' hplain hVts hVsym hVcb hVtl hVok
    ⟨hmk.1, (fun k hk => by rw [hmk.2.1] at hk; cases hk), hmk.2.2⟩ hsz1 hsz2 hM hC
  have hmkik : ikeys (mk V.pop.length) = [] := by
    have := hmk.2.1; cases hm : mk V.pop.length <;> simp [hm, skeys, ikeys] at this ⊢
  obtain ⟨dm, hdm, hszm, hrows⟩ := G.grows
  refine ⟨G.ok0, by rw [hb], ⟨dm ++ [mk V.pop.length], hdm, by simp; omega, ?_⟩, G.inv, G.shape,
    fun ext => ⟨_, G.sub ext, hmkik⟩, ?_, G.subsAll, G.uniq⟩
  · intro x hx
    rcases List.mem_append.1 hx with h | h
    · obtain ⟨h1, h2, h3⟩ := hrows x h
      refine ⟨fun k hk => Nat.le_of_lt (h1 k hk), ?_, fun k hk => Nat.le_of_lt (h3 k hk)⟩
      intro b' p hxe
      exact ⟨.inr (h2 b' p hxe).1, (h2 b' p hxe).2⟩
    · simp at h; subst h
      refine ⟨fun k hk => (by rw [hmk.1] at hk; cases hk; exact Nat.le_refl _), ?_,
        fun k hk => (by rw [hmkik] at hk; cases hk)⟩
      intro b' p h; have := hmk.2.1; rw [h] at this; simp [skeys] at this
  · intro ext fuel hfr hf
    obtain ⟨rest, f, e1, rfl, hne, hblk⟩ := G.regen ext fuel hfr.weak hf
    have hs := G.sub ext
    rw [e1] at hs ⊢
    have hXlen : st.pop.length < (buildStmt fc prev s st).2.pop.length := by rw [hdm]; simp
    exact hprint rest f hf (hne (fun x hx k hk => by have := (hfr x hx).2 k hk; omega)) hs hblk

/-- `while`: ACT_SMT, the condition's values, a new ACT_BLK with its scope and statement list, ACT_WHL -/
theorem while_spec {fc : FCtx} {prev : Option Nat} {e : Expr} {b : Block} {st : St} (hce : coreX e = true)
    (hinv : Inv st) (hprev : ∀ k, prev = some k → k < st.pop.length)
    (hok : (buildStmt fc prev (.while_ e b) st).2.ok = true)
    (hM : ∀ st' : St, (buildStmts fc none b st').ok = true → st'.ok = true)
    (hC : ∀ st' : St, Inv st' → (buildStmts fc none b st').ok = true → ChainSpec fc none b st') :
    StmtSpec fc prev (.while_ e b) st := by
  have hb : buildStmt fc prev (.while_ e b) st = (st.pop.length,
      ((popScope (buildStmts fc none b (pushScope (.blk (buildExpr fc e (newSmt prev st).2).2.pop.length)
        ((buildExpr fc e (newSmt prev st).2).2.new (.blk false)).2))).new
        (.whl st.pop.length (buildExpr fc e (newSmt prev st).2).2.pop.length (buildExpr fc e (newSmt prev st).2).1)).2) := by
    simp [buildStmt, withBlock]
  have hokV : (buildExpr fc e (newSmt prev st).2).2.ok = true := by
    have h1 : (buildStmts fc none b (pushScope (.blk (buildExpr fc e (newSmt prev st).2).2.pop.length)
        ((buildExpr fc e (newSmt prev st).2).2.new (.blk false)).2)).ok = true := by rw [hb] at hok; simpa using hok
    simpa using hM _ h1
  have hts0 := newSmt_ts hinv hprev
  have E := buildExpr_specW fc e (newSmt prev st).2 hce hts0 (newSmt_sym hinv) (by simpa using hinv.isSome) hokV
  obtain ⟨dE, hdE, hlE, hoE⟩ := E.grows
  apply blockStmt_spec (buildExpr fc e (newSmt prev st).2).2
    (fun k => .whl st.pop.length k (buildExpr fc e (newSmt prev st).2).1) dE hb hinv hok
    (by rw [hdE]; simp) hoE E.ts
    E.sym (by rw [E.shape.1]; simp) (by rw [E.shape.2]; simp)
    (fun h => by have := E.ok0; simp at this; exact this.1)
    ⟨rfl, rfl, rfl⟩ (by simp [szS]; omega) (by simp [szS]) hM hC
  intro rest f hf _ hs hblk
  simp only [szS] at hf
  have := E.regen rest f (by omega)
  simp only [regenSmt, hs, genStmt, this, hblk]

theorem no_clauses {q : FlatPop} {n : Nat} (h : ∀ x ∈ q, ∀ k ∈ ikeys x, k ≠ n) : elifsOf q n = [] ∧ elseOf q n = none := by
  constructor
  · unfold elifsOf
    rw [List.filter_eq_nil_iff]
    intro x hx
    cases x with
    | el a1 a2 a3 a4 => have := h _ hx a4 (by simp [ikeys]); simpa using this
    | _ => simp
  · unfold elseOf
    rw [List.find?_eq_none]
    intro x hx
    cases x with
    | e a1 a2 a3 => have := h _ hx a3 (by simp [ikeys]); simpa using this
    | _ => simp

/-- `if` without elif / else: ACT_SMT, the condition's values, a new ACT_BLK and its statement list, ACT_IF; no ACT_EL /
    ACT_E row names the statement (R682 / R683 navigate to nothing) -/
theorem if_spec {fc : FCtx} {prev : Option Nat} {e : Expr} {b : Block} {st : St} (hce : coreX e = true)
    (hinv : Inv st) (hprev : ∀ k, prev = some k → k < st.pop.length)
    (hok : (buildStmt fc prev (.if_ e b .nil .none) st).2.ok = true)
    (hM : ∀ st' : St, (buildStmts fc none b st').ok = true → st'.ok = true)
    (hC : ∀ st' : St, Inv st' → (buildStmts fc none b st').ok = true → ChainSpec fc none b st') :
    StmtSpec fc prev (.if_ e b .nil .none) st := by
  have hb : buildStmt fc prev (.if_ e b .nil .none) st = (st.pop.length,
      ((popScope (buildStmts fc none b (pushScope (.blk (buildExpr fc e (newSmt prev st).2).2.pop.length)
        ((buildExpr fc e (newSmt prev st).2).2.new (.blk false)).2))).new
        (.if_ st.pop.length (buildExpr fc e (newSmt prev st).2).2.pop.length (buildExpr fc e (newSmt prev st).2).1)).2) := by
    simp [buildStmt, buildElifs, buildElse, withBlock]
  have hokV : (buildExpr fc e (newSmt prev st).2).2.ok = true := by
    have h1 : (buildStmts fc none b (pushScope (.blk (buildExpr fc e (newSmt prev st).2).2.pop.length)
        ((buildExpr fc e (newSmt prev st).2).2.new (.blk false)).2)).ok = true := by rw [hb] at hok; simpa using hok
    simpa using hM _ h1
  have hts0 := newSmt_ts hinv hprev
  have E := buildExpr_specW fc e (newSmt prev st).2 hce hts0 (newSmt_sym hinv) (by simpa using hinv.isSome) hokV
  obtain ⟨dE, hdE, hlE, hoE⟩ := E.grows
  have hplain := hoE
  have hVpop : (buildExpr fc e (newSmt prev st).2).2.pop = st.pop ++ (.smt (curBlkD st.scopes) prev :: dE) := by
    rw [hdE]; simp
  apply blockStmt_spec (buildExpr fc e (newSmt prev st).2).2
    (fun k => .if_ st.pop.length k (buildExpr fc e (newSmt prev st).2).1) dE hb hinv hok
    hVpop hplain E.ts
    E.sym (by rw [E.shape.1]; simp) (by rw [E.shape.2]; simp)
    (fun h => by have := E.ok0; simp at this; exact this.1)
    ⟨rfl, rfl, rfl⟩ (by simp [szS, szEl, szEs]; omega) (by simp [szS, szEl, szEs]) hM hC
  intro rest f hf hik hs hblk
  simp only [szS, szEl, szEs] at hf
  have hszb := one_le_szB b
  obtain ⟨g, rfl⟩ := fuel_succ (by omega : 1 ≤ f)
  have := E.regen rest (g + 1) (by omega)
  have hnc : ∀ x ∈ (buildExpr fc e (newSmt prev st).2).2.pop ++ rest, ∀ k ∈ ikeys x, k ≠ st.pop.length := by
    intro x hx k hk
    rcases List.mem_append.1 hx with h | h
    · rw [hVpop] at h
      rcases List.mem_append.1 h with h | h
      · obtain ⟨i, hi⟩ := List.getElem?_of_mem h
        have h1 := (hinv.ts i x hi).2.2 k (ikeys_sub_skeys x k hk)
        have h2 := getElem?_lt_of_some hi
        omega
      · simp only [List.mem_cons] at h
        rcases h with rfl | h
        · simp [ikeys] at hk
        · have := (hplain x h).2
          have := ikeys_sub_skeys x k hk
          simp_all
    · exact hik x h k hk
  obtain ⟨h1, h2⟩ := no_clauses hnc
  simp only [regenSmt, hs, genStmt, this, hblk, h1, h2, regenElifs, genElifs, genElse]

/-- `for each`: ACT_SMT, the loop variable (visible, or V_VAR + V_INT), a new ACT_BLK and its statement list, ACT_FOR -/
theorem forEach_spec {fc : FCtx} {prev : Option Nat} {v sv : String} {b : Block} {st : St} (hv : v ≠ "self")
    (hsv : sv ≠ "self") (hinv : Inv st) (hprev : ∀ k, prev = some k → k < st.pop.length)
    (hok : (buildStmt fc prev (.forEach v sv b) st).2.ok = true)
    (hM : ∀ st' : St, (buildStmts fc none b st').ok = true → st'.ok = true)
    (hC : ∀ st' : St, Inv st' → (buildStmts fc none b st').ok = true → ChainSpec fc none b st') :
    StmtSpec fc prev (.forEach v sv b) st := by
  have hb := buildStmt_forEach fc prev v sv b st
  have hPok : (fePre fc v sv (newSmt prev st).2).1.2.ok = true := by
    have h1 : (buildStmts fc none b (pushScope (.blk (fePre fc v sv (newSmt prev st).2).1.2.pop.length)
        ((fePre fc v sv (newSmt prev st).2).1.2.new (.blk false)).2)).ok = true := by rw [hb] at hok; simpa using hok
    simpa using hM _ h1
  have hts0 := newSmt_ts hinv hprev
  have hsym0 := newSmt_sym (prev := prev) hinv
  obtain ⟨b0, hb0, hb0lt⟩ := hinv.blk
  have hprint : ∀ (V : St) (xid y : Nat) (kl : String), SymOK V → findSym V.scopes v = some xid →
      findSym V.scopes sv = some y →
      ∀ (rest : List Row) (f : Nat), szS (.forEach v sv b) ≤ f + 1 → (∀ x ∈ rest, ∀ k ∈ ikeys x, k ≠ st.pop.length) →
      smtSub (V.pop ++ rest) st.pop.length = some (.for_ st.pop.length V.pop.length xid y kl) →
      regenBlk (V.pop ++ rest) f V.pop.length = genBlock b →
      regenSmt (V.pop ++ rest) (f + 1) st.pop.length = genStmt (.forEach v sv b) := by
    intro V xid y kl hVs hfx hfy rest f _ _ hs hblk
    obtain ⟨bx, hbx⟩ := sym_row hVs hfx rest
    obtain ⟨by', hby⟩ := sym_row hVs hfy rest
    simp only [regenSmt, hs, genStmt, regenVar_of hbx hv, regenVar_of hby hsv, hblk]
    simp
  obtain ⟨y, hfy, h | h⟩ := fePre_cases hPok hv hsv
  · obtain ⟨xv, hfx, he⟩ := h
    rw [he] at hb hPok
    simp only [] at hb
    have hVsym : SymOK ((newSmt prev st).2.guard (setClass (newSmt prev st).2.pop y).isSome) :=
      hsym0.mono (by simp) (d := []) (by simp)
    exact blockStmt_spec _ (fun k => .for_ st.pop.length k xv y ((setClass (newSmt prev st).2.pop y).getD "")) [] hb hinv hok
      (by simp) (by simp) (by simpa using hts0) hVsym (by simp) (by simp) (fun h => by simp at h; exact h.1.1)
      ⟨rfl, rfl, rfl⟩ (by simp [szS]) (by simp [szS]) hM hC
      (hprint _ xv y _ hVsym (by simpa using hfx) (by simpa using hfy))
  · obtain ⟨hfx, he⟩ := h
    rw [he] at hb hPok
    simp only [newVar_fst, guard_pop] at hb
    have hne : ((newSmt prev st).2.guard (setClass (newSmt prev st).2.pop y).isSome).scopes ≠ [] := by
      simp; exact scopes_ne_of_curBlk hb0
    have hVsym : SymOK (newVar v (fun i => Row.vint i ((setClass (newSmt prev st).2.pop y).getD ""))
        ((newSmt prev st).2.guard (setClass (newSmt prev st).2.pop y).isSome)).2 :=
      newVar_sym (hsym0.mono (by simp) (d := []) (by simp)) hne
    refine blockStmt_spec _ (fun k => .for_ st.pop.length k (newSmt prev st).2.pop.length y
        ((setClass (newSmt prev st).2.pop y).getD ""))
      [.var v (curBlkD st.scopes), .vint (st.pop.length + 1) ((setClass (newSmt prev st).2.pop y).getD "")] hb hinv hok
      (by simp) ?_ (newVar_ts (by simpa using hts0) (fun i => by simp [Row.valOf, Row.smtOf, skeys])) hVsym
      (by simp [curBlk_install]) (by simp [install_tail]) (fun h => by simp [newVar_ok] at h; exact h.1.1.1)
      ⟨rfl, rfl, rfl⟩ (by simp [szS]) (by simp [szS]) hM hC ?_
    · intro x hx
      simp at hx
      rcases hx with rfl | rfl <;> simp [Row.smtOf, skeys]
    · have hsvne : sv ≠ v := by
        intro h; subst h; simp at hfx hfy; rw [hfx] at hfy; cases hfy
      refine hprint _ _ y _ hVsym ?_ ?_
      · rw [newVar_scopes, findSym_install hne]; simp
      · rw [newVar_scopes, findSym_install hne]; simp [hsvne]; simpa using hfy

/-- `select any|many v from instances of KL where <expr>`: ACT_SMT, the where clause's values (accepted in the O_OBJ scope:
    `selected`), the variable visible or declared AFTER the clause, ACT_FIW -/
theorem selFromW_spec {fc : FCtx} {prev : Option Nat} {card v kl : String} {w : Expr} {st : St} (hv : v ≠ "self")
    (hcard : lowerStr card = card) (hcw : coreX w = true) (hinv : Inv st)
    (hprev : ∀ k, prev = some k → k < st.pop.length)
    (hok : (buildStmt fc prev (.selFromW card v kl w) st).2.ok = true) : StmtSpec fc prev (.selFromW card v kl w) st := by
  have hb := buildStmt_selFromW fc prev card v kl w st
  generalize hG : (newSmt prev st).2.guard (v != "self" && fc.classes.contains kl) = G at hb
  have hGpop : G.pop = st.pop ++ [.smt (curBlkD st.scopes) prev] := by rw [← hG]; simp
  have hGsc : G.scopes = st.scopes := by rw [← hG]; simp
  have hGok : G.ok = true → st.ok = true := by rw [← hG]; intro h; simp at h; exact h.1.1
  have hPok : (swPre fc v kl w (isMany card) G).1.2.ok = true := by rw [hb] at hok; simpa using hok
  obtain ⟨hWok, hcases⟩ := swPre_cases hPok hv
  have hts0 : TS G.pop := by rw [hGpop]; simpa using newSmt_ts hinv hprev
  have hsymG : SymOK G := hinv.sym.mono hGsc hGpop
  obtain ⟨b0, hb0, hb0lt⟩ := hinv.blk
  have hsymP : SymOK (pushScope (.obj kl) G) := by
    intro n x hf
    simp only [pushScope_scopes, findSym, List.lookup] at hf
    exact hsymG n x hf
  have E := buildExpr_specW fc w (pushScope (.obj kl) G) hcw (by simpa using hts0) hsymP
    (by simpa [curBlk, hGsc] using hinv.isSome) hWok
  obtain ⟨dW, hdW, hlW, hoW⟩ := E.grows
  -- a `self` created by the clause is installed in the O_OBJ scope, which is popped: the scopes below are untouched
  have hWtl : (buildExpr fc w (pushScope (.obj kl) G)).2.scopes.tail = st.scopes := by
    rw [E.shape.2]; simp [hGsc]
  have hWts : TS (buildExpr fc w (pushScope (.obj kl) G)).2.pop := E.ts
  have hWpop : (buildExpr fc w (pushScope (.obj kl) G)).2.pop = st.pop ++ (.smt (curBlkD st.scopes) prev :: dW) := by
    rw [hdW]; simp [hGpop]
  have hok0 : st.ok = true := hGok (by have := E.ok0; simpa using this)
  have hS2sym : SymOK (popScope (buildExpr fc w (pushScope (.obj kl) G)).2) :=
    hinv.sym.mono (by simp [hWtl]) (d := .smt (curBlkD st.scopes) prev :: dW) (by simp [hWpop])
  have hprint : ∀ (mid : St) (x : Nat) (dx : List Row), SymOK mid → findSym mid.scopes v = some x →
      mid.pop = (buildExpr fc w (pushScope (.obj kl) G)).2.pop ++ dx →
      ∀ (ext : List Row) (fuel : Nat), szS (.selFromW card v kl w) ≤ fuel →
      smtSub (mid.pop ++ [.fiw st.pop.length x kl (lowerStr card) (buildExpr fc w (pushScope (.obj kl) G)).1] ++ ext)
        st.pop.length = some (.fiw st.pop.length x kl (lowerStr card) (buildExpr fc w (pushScope (.obj kl) G)).1) →
      regenSmt (mid.pop ++ [.fiw st.pop.length x kl (lowerStr card) (buildExpr fc w (pushScope (.obj kl) G)).1] ++ ext)
        fuel st.pop.length = genStmt (.selFromW card v kl w) := by
    intro mid x dx hms hfx hmp ext fuel hf hs
    simp only [szS] at hf
    obtain ⟨f, rfl⟩ := fuel_succ (by omega : 1 ≤ fuel)
    obtain ⟨bx, hbx⟩ := sym_row hms hfx ([.fiw st.pop.length x kl (lowerStr card) (buildExpr fc w (pushScope (.obj kl) G)).1] ++ ext)
    rw [← List.append_assoc] at hbx
    have hv' := E.regen (dx ++ [.fiw st.pop.length x kl (lowerStr card) (buildExpr fc w (pushScope (.obj kl) G)).1] ++ ext) f (by omega)
    rw [← List.append_assoc, ← List.append_assoc, ← hmp] at hv'
    simp only [hcard] at hs hbx hv' ⊢
    simp only [regenSmt, hs, genStmt, regenVar_of hbx hv, hv']
    simp
  rcases hcases with ⟨xv, hfx, he⟩ | ⟨hfx, he⟩
  · rw [he] at hb
    simp only [] at hb
    apply simple_spec _ _ hb hinv hok0
    · exact ⟨dW, by simp [hWpop], by simp [szS]; omega, hoW⟩
    · simpa using hWts
    · exact hS2sym
    · simp [hWtl]
    · rfl
    · rfl
    · rfl
    · exact hprint _ xv [] hS2sym (by simpa [hWtl, hGsc] using hfx) (by simp)
  · rw [he] at hb
    simp only [newVar_fst, popScope_pop] at hb
    have hne : (popScope (buildExpr fc w (pushScope (.obj kl) G)).2).scopes ≠ [] := by
      simp only [popScope_scopes, hWtl]; exact scopes_ne_of_curBlk hb0
    have hsubf : ∀ i, (if isMany card then Row.vins i kl else Row.vint i kl).valOf = none ∧
        (if isMany card then Row.vins i kl else Row.vint i kl).smtOf = none ∧
        skeys (if isMany card then Row.vins i kl else Row.vint i kl) = [] := by
      intro i; cases isMany card <;> simp [Row.valOf, Row.smtOf, skeys]
    have hVsym := newVar_sym (n := v) (sub := fun i => if isMany card then Row.vins i kl else Row.vint i kl) hS2sym hne
    apply simple_spec _ _ hb hinv hok0
    · refine ⟨dW ++ [.var v (curBlkD st.scopes), if isMany card then .vins ((buildExpr fc w (pushScope (.obj kl) G)).2.pop.length) kl
          else .vint ((buildExpr fc w (pushScope (.obj kl) G)).2.pop.length) kl], by simp [hWpop, hWtl],
        by simp [szS]; omega, ?_⟩
      intro x hx
      rcases List.mem_append.1 hx with h | h
      · exact hoW x h
      · simp at h
        rcases h with rfl | rfl
        · simp [Row.smtOf, skeys]
        · exact ⟨(hsubf _).2.1, (hsubf _).2.2⟩
    · exact newVar_ts (by simpa using hWts) hsubf
    · exact hVsym
    · simp [curBlk_install, install_tail, hWtl]
    · rfl
    · rfl
    · rfl
    · refine hprint _ _ [.var v (curBlkD st.scopes), if isMany card then .vins ((buildExpr fc w (pushScope (.obj kl) G)).2.pop.length) kl
          else .vint ((buildExpr fc w (pushScope (.obj kl) G)).2.pop.length) kl] hVsym ?_ ?_
      · rw [newVar_scopes, findSym_install hne]; simp
      · simp [hWtl]

/-! ### `if` with elif / else clauses -/

theorem elifsOf_append (a b : FlatPop) (n : Nat) : elifsOf (a ++ b) n = elifsOf a n ++ elifsOf b n := by
  simp [elifsOf, List.filter_append]

theorem elseOf_append (a b : FlatPop) (n : Nat) : elseOf (a ++ b) n = (elseOf a n).or (elseOf b n) := by
  simp [elseOf, List.find?_append]

theorem FreshW.mono {lo hi lo' hi' : Nat} {ext : List Row} (h : FreshW lo hi ext) (h1 : lo ≤ lo') (h2 : hi' ≤ hi) :
    FreshW lo' hi' ext := by
  intro x hx
  obtain ⟨a, c⟩ := h x hx
  refine ⟨fun b' p hxe => ⟨?_, fun k hk => ?_⟩, fun k hk => ?_⟩
  · rcases (a b' p hxe).1 with h | h
    · left; omega
    · right; omega
  · rcases (a b' p hxe).2 k hk with h | h
    · left; omega
    · right; omega
  · rcases c k hk with h | h
    · left; omega
    · right; omega

/-- what a run of elif / else clauses of the `if` statement `ifS` does to the builder state (`st` before, `X` after) -/
structure SeqSpec (ifS : Nat) (n : Nat) (st X : St) : Prop where
  inv : Inv X
  shape : curBlk X.scopes = curBlk st.scopes ∧ X.scopes.tail = st.scopes.tail
  grows : ∃ d : List Row, X.pop = st.pop ++ d ∧ n ≤ d.length ∧
    (∀ x ∈ d, (∀ k, x.smtOf = some k → st.pop.length ≤ k) ∧
      (∀ b' p, x = .smt b' p → (b' = curBlkD st.scopes ∨ st.pop.length < b') ∧ ∀ k, p = some k → st.pop.length < k) ∧
      (∀ k ∈ ikeys x, k = ifS ∨ st.pop.length ≤ k))
  subsAll : ∀ (ext : List Row) (i b' : Nat) (p : Option Nat),
    (X.pop ++ ext)[i]? = some (.smt b' p) → st.pop.length ≤ i → i < X.pop.length →
    ∃ row, smtSub (X.pop ++ ext) i = some row ∧ row.smtOf = some i ∧
      ((∀ x ∈ ext, ∀ k, x.smtOf = some k → k < st.pop.length ∨ X.pop.length ≤ k) → subCount (X.pop ++ ext) i = 1)

theorem SeqSpec.refl {ifS : Nat} {st : St} (hinv : Inv st) : SeqSpec ifS 0 st st :=
  ⟨hinv, ⟨rfl, rfl⟩, ⟨[], by simp, by simp, by simp⟩, by intro ext i b' p _ h1 h2; omega⟩

theorem SeqSpec.le {ifS n n' : Nat} {st X : St} (h : SeqSpec ifS n st X) (hn : n' ≤ n) : SeqSpec ifS n' st X := by
  obtain ⟨d, hd, hs, hr⟩ := h.grows
  exact ⟨h.inv, h.shape, ⟨d, hd, by omega, hr⟩, h.subsAll⟩

theorem SeqSpec.of_block {fc : FCtx} {ifS n : Nat} {b : Block} {st V X : St} {sub : Row}
    (G : BSpec fc none b n st V sub X) (hs : sub.smtOf = some st.pop.length) (hk : ∀ k ∈ ikeys sub, k = ifS) :
    SeqSpec ifS n st X := by
  obtain ⟨dm, hdm, hsz, hrows⟩ := G.grows
  refine ⟨G.inv, G.shape, ⟨.smt (curBlkD st.scopes) none :: (dm ++ [sub]), hdm, by simp; omega, ?_⟩, G.subsAll⟩
  intro x hx
  simp only [List.mem_cons, List.mem_append, List.mem_singleton, List.not_mem_nil, or_false] at hx
  rcases hx with rfl | hx | rfl
  · exact ⟨fun k hk => by simp [Row.smtOf] at hk,
      fun b' p h => by cases h; exact ⟨.inl rfl, fun k hk => by cases hk⟩, fun k hk => by simp [ikeys] at hk⟩
  · obtain ⟨h1, h2, h3⟩ := hrows x hx
    exact ⟨fun k hk => Nat.le_of_lt (h1 k hk), fun b' p h => ⟨.inr (h2 b' p h).1, (h2 b' p h).2⟩,
      fun k hk => .inr (Nat.le_of_lt (h3 k hk))⟩
  · exact ⟨fun k hk' => by rw [hs] at hk'; cases hk'; exact Nat.le_refl _,
      fun b' p h => by rw [h] at hs; simp [Row.smtOf] at hs, fun k hk' => .inl (hk k hk')⟩

theorem SeqSpec.trans {ifS n1 n2 : Nat} {st X1 X : St} (A : SeqSpec ifS n1 st X1) (B : SeqSpec ifS n2 X1 X) :
    SeqSpec ifS (n1 + n2) st X := by
  obtain ⟨d1, hd1, hs1, hr1⟩ := A.grows
  obtain ⟨d2, hd2, hs2, hr2⟩ := B.grows
  have hcb : curBlkD X1.scopes = curBlkD st.scopes := by simp [curBlkD, A.shape.1]
  have hl1 : X1.pop.length = st.pop.length + d1.length := by rw [hd1]; simp
  have hl2 : X.pop.length = X1.pop.length + d2.length := by rw [hd2]; simp
  refine ⟨B.inv, ⟨B.shape.1.trans A.shape.1, B.shape.2.trans A.shape.2⟩,
    ⟨d1 ++ d2, by rw [hd2, hd1, List.append_assoc], by simp; omega, ?_⟩, ?_⟩
  · intro x hx
    rcases List.mem_append.1 hx with h | h
    · exact hr1 x h
    · obtain ⟨h1, h2, h3⟩ := hr2 x h
      refine ⟨fun k hk => by have := h1 k hk; omega, ?_, fun k hk => (h3 k hk).imp id (fun h => by omega)⟩
      intro b' p hxe
      obtain ⟨ha, hb'⟩ := h2 b' p hxe
      rw [hcb] at ha
      exact ⟨ha.imp id (fun h => by omega), fun k hk => by have := hb' k hk; omega⟩
  · intro ext i b' p hi hge hlt
    by_cases h1 : i < X1.pop.length
    · have hq : X.pop ++ ext = X1.pop ++ (d2 ++ ext) := by rw [hd2, List.append_assoc]
      rw [hq] at hi ⊢
      obtain ⟨row, hr1', hr2', hr3⟩ := A.subsAll (d2 ++ ext) i b' p hi hge h1
      refine ⟨row, hr1', hr2', fun hc => hr3 ?_⟩
      intro x hx k hk
      rcases List.mem_append.1 hx with h | h
      · right; exact (hr2 x h).1 k hk
      · have := hc x h k hk
        omega
    · obtain ⟨row, hr1', hr2', hr3⟩ := B.subsAll ext i b' p hi (by omega) hlt
      refine ⟨row, hr1', hr2', fun hc => hr3 ?_⟩
      intro x hx k hk
      have := hc x hx k hk
      omega

/-- the rows of later clauses, followed by weakly fresh rows, are weakly fresh for what precedes them -/
theorem freshW_seq {ifS n lo : Nat} {X1 X : St} (B : SeqSpec ifS n X1 X) {d2 ext : List Row}
    (hd2 : X.pop = X1.pop ++ d2) (hcb : curBlkD X1.scopes ≤ lo) (hif : ifS ≤ lo)
    (hext : FreshW lo X.pop.length ext) : FreshW lo X1.pop.length (d2 ++ ext) := by
  obtain ⟨d2', hd2', _, hr2⟩ := B.grows
  have : d2' = d2 := List.append_cancel_left (hd2'.symm.trans hd2)
  subst this
  have hl : X1.pop.length ≤ X.pop.length := by rw [hd2]; simp
  intro x hx
  rcases List.mem_append.1 hx with h | h
  · obtain ⟨h1, h2, h3⟩ := hr2 x h
    refine ⟨fun b' p hxe => ?_, fun k hk => ?_⟩
    · obtain ⟨ha, hb'⟩ := h2 b' p hxe
      refine ⟨?_, fun k hk => .inr (Nat.le_of_lt (hb' k hk))⟩
      rcases ha with h | h
      · left; omega
      · right; omega
    · rcases h3 k hk with h | h
      · left; omega
      · right; omega
  · exact (hext.mono (Nat.le_refl _) hl) x h

theorem clause_rows {lo ifS a : Nat} {c : Option Nat} {dm : List Row} (hif : ifS < lo)
    (hrows : ∀ x ∈ dm, (∀ k, x.smtOf = some k → lo < k) ∧
      (∀ b' p, x = .smt b' p → lo < b' ∧ ∀ k, p = some k → lo < k) ∧ (∀ k ∈ ikeys x, lo < k)) :
    elifsOf (.smt a c :: dm) ifS = [] ∧ elseOf (.smt a c :: dm) ifS = none := by
  apply no_clauses
  intro x hx k hk
  simp only [List.mem_cons] at hx
  rcases hx with rfl | hx
  · simp [ikeys] at hk
  · have := (hrows x hx).2.2 k hk; omega

theorem append_eq_nil_of_self {l d : List Row} (h : l = l ++ d) : d = [] := by
  have : l ++ [] = l ++ d := by simpa using h
  exact (List.append_cancel_left this).symm

/-- the else tokens `regenSmt` prints for the ACT_E found over R683 -/
def elseToks (q : FlatPop) (f : Nat) : Option Row → List Tok
  | some (.e _ eb _) => [Tok.kw Kw.else_] ++ regenBlk q f eb
  | _ => []

structure ElifsSpec (fc : FCtx) (ifS : Nat) (el : Elifs) (st : St) : Prop where
  seq : SeqSpec ifS (szEl el) st (buildElifs fc ifS el st)
  noElse : ∀ d, (buildElifs fc ifS el st).pop = st.pop ++ d → elseOf d ifS = none
  regen : ∀ d, (buildElifs fc ifS el st).pop = st.pop ++ d → ∀ (ext : List Row) (f : Nat),
    FreshW st.pop.length (buildElifs fc ifS el st).pop.length ext → szEl el + 1 ≤ f →
    regenElifs ((buildElifs fc ifS el st).pop ++ ext) f (elifsOf d ifS) = genElifs el

structure ElseSpec (fc : FCtx) (ifS : Nat) (els : Else) (st : St) : Prop where
  seq : SeqSpec ifS (szEs els) st (buildElse fc ifS els st)
  noElif : ∀ d, (buildElse fc ifS els st).pop = st.pop ++ d → elifsOf d ifS = []
  regen : ∀ d, (buildElse fc ifS els st).pop = st.pop ++ d → ∃ r : Option Row, elseOf d ifS = r ∧
    ∀ (ext : List Row) (f : Nat), FreshW st.pop.length (buildElse fc ifS els st).pop.length ext → szEs els + 1 ≤ f →
    elseToks ((buildElse fc ifS els st).pop ++ ext) f r = genElse els

theorem elifs_nil_spec {fc : FCtx} {ifS : Nat} {st : St} (hinv : Inv st) : ElifsSpec fc ifS .nil st := by
  have h : buildElifs fc ifS .nil st = st := by simp [buildElifs]
  refine ⟨by rw [h]; exact SeqSpec.refl hinv, ?_, ?_⟩
  · intro d hd
    rw [h] at hd
    have := append_eq_nil_of_self hd
    subst this; rfl
  · intro d hd ext f _ hf
    rw [h] at hd ⊢
    have := append_eq_nil_of_self hd
    subst this
    obtain ⟨f', rfl⟩ := fuel_succ (by omega : 1 ≤ f)
    simp [elifsOf, regenElifs, genElifs]

theorem else_none_spec {fc : FCtx} {ifS : Nat} {st : St} (hinv : Inv st) : ElseSpec fc ifS .none st := by
  have h : buildElse fc ifS .none st = st := by simp [buildElse]
  refine ⟨by rw [h]; exact SeqSpec.refl hinv, ?_, ?_⟩
  · intro d hd
    rw [h] at hd
    have := append_eq_nil_of_self hd
    subst this; rfl
  · intro d hd
    rw [h] at hd
    have := append_eq_nil_of_self hd
    subst this
    exact ⟨none, rfl, fun ext f _ _ => by simp [elseToks, genElse]⟩

/-- `else`: ACT_SMT (in the block holding the `if`, chained nowhere), a new ACT_BLK and its statement list, ACT_E -/
theorem else_some_spec {fc : FCtx} {ifS : Nat} {eb : Block} {st : St} (hinv : Inv st) (hif : ifS < st.pop.length)
    (hok : (buildElse fc ifS (.some eb) st).ok = true)
    (hM : ∀ st' : St, (buildStmts fc none eb st').ok = true → st'.ok = true)
    (hC : ∀ st' : St, Inv st' → (buildStmts fc none eb st').ok = true → ChainSpec fc none eb st') :
    ElseSpec fc ifS (.some eb) st := by
  have hbe : buildElse fc ifS (.some eb) st =
      ((popScope (buildStmts fc none eb (pushScope (.blk (newSmt none st).2.pop.length)
        ((newSmt none st).2.new (.blk false)).2))).new (.e st.pop.length (newSmt none st).2.pop.length ifS)).2 := by
    simp [buildElse, withBlock]
  have G := block_gen (fc := fc) (prev := none) (b := eb) (st := st) (szB eb + 2) (newSmt none st).2
    (fun k => .e st.pop.length k ifS) [] (buildElse fc ifS (.some eb) st) hbe hinv hok (by simp) (by simp)
    (newSmt_ts hinv (by intro k h; cases h)) (newSmt_sym hinv) (by simp) (by simp)
    (fun h => by simp at h; exact h.1)
    ⟨rfl, (fun k hk => by simp [skeys] at hk; omega), rfl⟩ (by simp) (by simp) hM hC
  obtain ⟨dm, hdm, hszm, hrows⟩ := G.grows
  have hcr := clause_rows (a := curBlkD st.scopes) (c := none) hif hrows
  refine ⟨(SeqSpec.of_block (ifS := ifS) G rfl (by intro k hk; simpa [ikeys] using hk)).le (by simp [szEs]), ?_, ?_⟩
  · intro d hd
    have : d = .smt (curBlkD st.scopes) none :: (dm ++ [.e st.pop.length (newSmt none st).2.pop.length ifS]) :=
      List.append_cancel_left (hd.symm.trans hdm)
    subst this
    rw [← List.cons_append, elifsOf_append, hcr.1]
    simp [elifsOf]
  · intro d hd
    have : d = .smt (curBlkD st.scopes) none :: (dm ++ [.e st.pop.length (newSmt none st).2.pop.length ifS]) :=
      List.append_cancel_left (hd.symm.trans hdm)
    subst this
    refine ⟨some (.e st.pop.length (newSmt none st).2.pop.length ifS), ?_, ?_⟩
    · rw [← List.cons_append, elseOf_append, hcr.2]
      simp [elseOf]
    · intro ext f hfr hf
      simp only [szEs] at hf
      obtain ⟨rest, f', e1, hff, _, hblk⟩ := G.regen ext (f + 1) hfr (by omega)
      have : f' = f := by omega
      subst this
      simp only [elseToks, genElse]
      rw [e1, hblk]

/-- one `elif`: ACT_SMT (in the block holding the `if`, chained nowhere), the condition's values, a new ACT_BLK and its
    statement list, ACT_EL; then the remaining clauses -/
theorem elifs_cons_spec {fc : FCtx} {ifS : Nat} {e : Expr} {b : Block} {rest : Elifs} {st : St} (hce : coreX e = true)
    (hinv : Inv st) (hif : ifS < st.pop.length) (hok : (buildElifs fc ifS (.cons e b rest) st).ok = true)
    (hMr : ∀ st' : St, (buildElifs fc ifS rest st').ok = true → st'.ok = true)
    (hM : ∀ st' : St, (buildStmts fc none b st').ok = true → st'.ok = true)
    (hC : ∀ st' : St, Inv st' → (buildStmts fc none b st').ok = true → ChainSpec fc none b st')
    (hR : ∀ st' : St, Inv st' → ifS < st'.pop.length → (buildElifs fc ifS rest st').ok = true →
      ElifsSpec fc ifS rest st') : ElifsSpec fc ifS (.cons e b rest) st := by
  generalize hX1 : ((popScope (buildStmts fc none b (pushScope (.blk (buildExpr fc e (newSmt none st).2).2.pop.length)
      ((buildExpr fc e (newSmt none st).2).2.new (.blk false)).2))).new
      (.el st.pop.length (buildExpr fc e (newSmt none st).2).2.pop.length (buildExpr fc e (newSmt none st).2).1 ifS)).2 = X1
  have hbe : buildElifs fc ifS (.cons e b rest) st = buildElifs fc ifS rest X1 := by
    rw [← hX1]; simp [buildElifs, withBlock]
  rw [hbe] at hok
  have hok1 : X1.ok = true := hMr _ hok
  have hokV : (buildExpr fc e (newSmt none st).2).2.ok = true := by
    have h1 : (buildStmts fc none b (pushScope (.blk (buildExpr fc e (newSmt none st).2).2.pop.length)
        ((buildExpr fc e (newSmt none st).2).2.new (.blk false)).2)).ok = true := by rw [← hX1] at hok1; simpa using hok1
    simpa using hM _ h1
  have hts0 := newSmt_ts (prev := none) hinv (by intro k h; cases h)
  have E := buildExpr_specW fc e (newSmt none st).2 hce hts0 (newSmt_sym hinv) (by simpa using hinv.isSome) hokV
  obtain ⟨dE, hdE, hlE, hoE⟩ := E.grows
  have G := block_gen (fc := fc) (prev := none) (b := b) (st := st) (szV e + szB b + 2) (buildExpr fc e (newSmt none st).2).2
    (fun k => .el st.pop.length k (buildExpr fc e (newSmt none st).2).1 ifS) dE X1 hX1.symm hinv hok1
    (by rw [hdE]; simp) hoE E.ts
    E.sym (by rw [E.shape.1]; simp) (by rw [E.shape.2]; simp)
    (fun h => by have := E.ok0; simp at this; exact this.1)
    ⟨rfl, (fun k hk => by simp [skeys] at hk; omega), rfl⟩ (by omega) (by omega) hM hC
  obtain ⟨dm, hdm, hszm, hrows⟩ := G.grows
  have hcr := clause_rows (a := curBlkD st.scopes) (c := none) hif hrows
  have hX1len : st.pop.length < X1.pop.length := by rw [hdm]; simp
  have R := hR X1 G.inv (by omega) hok
  obtain ⟨dr, hdr, hszr, hrr⟩ := R.seq.grows
  have A := SeqSpec.of_block (ifS := ifS) G rfl (by intro k hk; simpa [ikeys] using hk)
  have hcb1 : curBlkD X1.scopes = curBlkD st.scopes := by simp [curBlkD, G.shape.1]
  have hdd : ∀ d, (buildElifs fc ifS rest X1).pop = st.pop ++ d →
      d = (.smt (curBlkD st.scopes) none :: dm ++
        [.el st.pop.length (buildExpr fc e (newSmt none st).2).2.pop.length (buildExpr fc e (newSmt none st).2).1 ifS]) ++ dr := by
    intro d hd
    apply List.append_cancel_left (as := st.pop)
    rw [← hd, hdr, hdm]; simp
  refine ⟨by rw [hbe]; exact (A.trans R.seq).le (by simp [szEl]; omega), ?_, ?_⟩
  · intro d hd
    rw [hbe] at hd
    rw [hdd d hd, elseOf_append, elseOf_append, hcr.2, R.noElse dr hdr]
    simp [elseOf]
  · intro d hd ext f hfr hf
    rw [hbe] at hd hfr ⊢
    simp only [szEl] at hf
    have hszb := one_le_szB b
    obtain ⟨f', rfl⟩ := fuel_succ (by omega : 1 ≤ f)
    have hel : elifsOf d ifS =
        .el st.pop.length (buildExpr fc e (newSmt none st).2).2.pop.length (buildExpr fc e (newSmt none st).2).1 ifS ::
          elifsOf dr ifS := by
      rw [hdd d hd, elifsOf_append, elifsOf_append, hcr.1]
      simp [elifsOf]
    have hW1 : FreshW st.pop.length X1.pop.length (dr ++ ext) :=
      freshW_seq R.seq hdr (by rw [hcb1]; exact Nat.le_of_lt hinv.curBlkD) (Nat.le_of_lt hif) hfr
    obtain ⟨rst, f'', e1, hff, _, hblk⟩ := G.regen (dr ++ ext) (f' + 1) hW1 (by omega)
    have : f'' = f' := by omega
    subst this
    have hq : (buildElifs fc ifS rest X1).pop ++ ext = (buildExpr fc e (newSmt none st).2).2.pop ++ rst := by
      rw [hdr, List.append_assoc]; exact e1
    have hval := E.regen rst f'' (by omega)
    have hrest := R.regen dr hdr ext f'' (hfr.mono (Nat.le_of_lt hX1len) (Nat.le_refl _)) (by omega)
    rw [hel]
    simp only [regenElifs, genElifs]
    rw [hrest, hq, hval, hblk]

/-- the state after the ACT_IF row: ACT_SMT, the condition's values, a new ACT_BLK and its statement list, ACT_IF -/
theorem if_head {fc : FCtx} {prev : Option Nat} {e : Expr} {b : Block} {st : St} (hce : coreX e = true)
    (hinv : Inv st) (hprev : ∀ k, prev = some k → k < st.pop.length)
    (hok : (buildStmt fc prev (.if_ e b .nil .none) st).2.ok = true)
    (hM : ∀ st' : St, (buildStmts fc none b st').ok = true → st'.ok = true)
    (hC : ∀ st' : St, Inv st' → (buildStmts fc none b st').ok = true → ChainSpec fc none b st') :
    BSpec fc prev b (szV e + szB b + 2) st (buildExpr fc e (newSmt prev st).2).2
      (.if_ st.pop.length (buildExpr fc e (newSmt prev st).2).2.pop.length (buildExpr fc e (newSmt prev st).2).1)
      (buildStmt fc prev (.if_ e b .nil .none) st).2 ∧ ExprSpecW fc e (newSmt prev st).2 := by
  have hb : (buildStmt fc prev (.if_ e b .nil .none) st).2 =
      ((popScope (buildStmts fc none b (pushScope (.blk (buildExpr fc e (newSmt prev st).2).2.pop.length)
        ((buildExpr fc e (newSmt prev st).2).2.new (.blk false)).2))).new
        (.if_ st.pop.length (buildExpr fc e (newSmt prev st).2).2.pop.length (buildExpr fc e (newSmt prev st).2).1)).2 := by
    simp [buildStmt, buildElifs, buildElse, withBlock]
  have hokV : (buildExpr fc e (newSmt prev st).2).2.ok = true := by
    have h1 : (buildStmts fc none b (pushScope (.blk (buildExpr fc e (newSmt prev st).2).2.pop.length)
        ((buildExpr fc e (newSmt prev st).2).2.new (.blk false)).2)).ok = true := by rw [hb] at hok; simpa using hok
    simpa using hM _ h1
  have hts0 := newSmt_ts hinv hprev
  have E := buildExpr_specW fc e (newSmt prev st).2 hce hts0 (newSmt_sym hinv) (by simpa using hinv.isSome) hokV
  obtain ⟨dE, hdE, hlE, hoE⟩ := E.grows
  refine ⟨?_, E⟩
  exact block_gen (fc := fc) (prev := prev) (b := b) (st := st) (szV e + szB b + 2) (buildExpr fc e (newSmt prev st).2).2
    (fun k => .if_ st.pop.length k (buildExpr fc e (newSmt prev st).2).1) dE _ hb hinv hok
    (by rw [hdE]; simp) hoE E.ts
    E.sym (by rw [E.shape.1]; simp) (by rw [E.shape.2]; simp)
    (fun h => by have := E.ok0; simp at this; exact this.1)
    ⟨rfl, (fun k hk => by simp [skeys] at hk), rfl⟩ (by omega) (by omega) hM hC

/-- `if` with its elif / else clauses: the rows up to the ACT_IF, then every clause's ACT_SMT (in the block HOLDING the
    if, no R661 link), values, block and ACT_EL / ACT_E row naming the if over R682 / R683 -/
theorem ifFull_spec {fc : FCtx} {prev : Option Nat} {e : Expr} {b : Block} {elifs : Elifs} {els : Else} {st : St}
    (hce : coreX e = true) (hinv : Inv st) (hprev : ∀ k, prev = some k → k < st.pop.length)
    (hok : (buildStmt fc prev (.if_ e b elifs els) st).2.ok = true)
    (hM : ∀ st' : St, (buildStmts fc none b st').ok = true → st'.ok = true)
    (hC : ∀ st' : St, Inv st' → (buildStmts fc none b st').ok = true → ChainSpec fc none b st')
    (hMel : ∀ st' : St, (buildElifs fc st.pop.length elifs st').ok = true → st'.ok = true)
    (hMes : ∀ st' : St, (buildElse fc st.pop.length els st').ok = true → st'.ok = true)
    (hEl : ∀ st' : St, Inv st' → st.pop.length < st'.pop.length → (buildElifs fc st.pop.length elifs st').ok = true →
      ElifsSpec fc st.pop.length elifs st')
    (hEs : ∀ st' : St, Inv st' → st.pop.length < st'.pop.length → (buildElse fc st.pop.length els st').ok = true →
      ElseSpec fc st.pop.length els st') :
    StmtSpec fc prev (.if_ e b elifs els) st := by
  have hb : buildStmt fc prev (.if_ e b elifs els) st = (st.pop.length,
      buildElse fc st.pop.length els (buildElifs fc st.pop.length elifs (buildStmt fc prev (.if_ e b .nil .none) st).2)) := by
    simp [buildStmt, buildElifs, buildElse]
  have hokX : (buildElse fc st.pop.length els
      (buildElifs fc st.pop.length elifs (buildStmt fc prev (.if_ e b .nil .none) st).2)).ok = true := by
    rw [hb] at hok; exact hok
  have hok1 := hMes _ hokX
  have hok0' := hMel _ hok1
  obtain ⟨G, E⟩ := if_head hce hinv hprev hok0' hM hC
  generalize (buildStmt fc prev (.if_ e b .nil .none) st).2 = S0 at hb hokX hok1 hok0' G
  obtain ⟨dm, hdm, hszm, hrows⟩ := G.grows
  have hS0len : st.pop.length < S0.pop.length := by rw [hdm]; simp
  have EL := hEl S0 G.inv hS0len hok1
  obtain ⟨d1, hd1, hs1, hr1⟩ := EL.seq.grows
  have hX1len : S0.pop.length ≤ (buildElifs fc st.pop.length elifs S0).pop.length := by rw [hd1]; simp
  have ES := hEs _ EL.seq.inv (by omega) hokX
  obtain ⟨d2, hd2, hs2, hr2⟩ := ES.seq.grows
  have hXlen : (buildElifs fc st.pop.length elifs S0).pop.length ≤
      (buildElse fc st.pop.length els (buildElifs fc st.pop.length elifs S0)).pop.length := by rw [hd2]; simp
  have SQ := EL.seq.trans ES.seq
  obtain ⟨dq, hdq, hsq, hrq⟩ := SQ.grows
  have hdq12 : dq = d1 ++ d2 := by
    apply List.append_cancel_left (as := S0.pop)
    rw [← hdq, hd2, hd1, List.append_assoc]
  have hcb : curBlkD S0.scopes = curBlkD st.scopes := by simp [curBlkD, G.shape.1]
  have hcb1 : curBlkD (buildElifs fc st.pop.length elifs S0).scopes = curBlkD S0.scopes := by
    simp [curBlkD, EL.seq.shape.1]
  have hqe : ∀ ext : List Row, (buildElse fc st.pop.length els (buildElifs fc st.pop.length elifs S0)).pop ++ ext =
      S0.pop ++ (dq ++ ext) := by intro ext; rw [hdq, List.append_assoc]
  refine ⟨G.ok0, by rw [hb], ⟨dm ++ [.if_ st.pop.length (buildExpr fc e (newSmt prev st).2).2.pop.length
      (buildExpr fc e (newSmt prev st).2).1] ++ dq, ?_, ?_, ?_⟩, by rw [hb]; exact SQ.inv,
    by rw [hb]; exact ⟨SQ.shape.1.trans G.shape.1, SQ.shape.2.trans G.shape.2⟩, ?_, ?_, ?_, ?_⟩
  · rw [hb]; simp only []; rw [hdq, hdm]; simp
  · simp [szS]; omega
  · intro x hx
    rcases List.mem_append.1 hx with h | h
    · rcases List.mem_append.1 h with h | h
      · obtain ⟨h1, h2, h3⟩ := hrows x h
        exact ⟨fun k hk => Nat.le_of_lt (h1 k hk), fun b' p hxe => ⟨.inr (h2 b' p hxe).1, (h2 b' p hxe).2⟩,
          fun k hk => Nat.le_of_lt (h3 k hk)⟩
      · simp at h; subst h
        exact ⟨(fun k hk => by simp [Row.smtOf] at hk; omega), (fun b' p h => by cases h), (fun k hk => by simp [ikeys] at hk)⟩
    · obtain ⟨h1, h2, h3⟩ := hrq x h
      refine ⟨fun k hk => by have := h1 k hk; omega, ?_, fun k hk => by rcases h3 k hk with h | h <;> omega⟩
      intro b' p hxe
      obtain ⟨ha, hb'⟩ := h2 b' p hxe
      rw [hcb] at ha
      exact ⟨ha.imp id (fun h => by omega), fun k hk => by have := hb' k hk; omega⟩
  · intro ext
    rw [hb]; simp only []
    rw [hqe]
    exact ⟨_, G.sub (dq ++ ext), rfl⟩
  · intro ext fuel hfr hf
    rw [hb] at hfr ⊢
    simp only [] at hfr ⊢
    simp only [szS] at hf
    have hszb := one_le_szB b
    have hW := hfr.weak
    have hW0 : FreshW st.pop.length S0.pop.length (dq ++ ext) :=
      freshW_seq SQ hdq (by rw [hcb]; exact Nat.le_of_lt hinv.curBlkD) (Nat.le_refl _) hW
    obtain ⟨rest, f, e1, rfl, _, hblk⟩ := G.regen (dq ++ ext) fuel hW0 (by omega)
    have hq := (hqe ext).trans e1
    have hsub := G.sub (dq ++ ext)
    rw [← hqe] at hsub
    have hval := E.regen rest f (by omega)
    rw [← hq] at hval hblk
    -- the clauses found over R682 / R683
    have hn0 : ∀ x ∈ st.pop, ∀ k ∈ ikeys x, k ≠ st.pop.length := by
      intro x hx k hk
      obtain ⟨i, hi⟩ := List.getElem?_of_mem hx
      have h1 := (hinv.ts i x hi).2.2 k (ikeys_sub_skeys x k hk)
      have h2 := getElem?_lt_of_some hi
      omega
    have hn1 : ∀ x ∈ Row.smt (curBlkD st.scopes) prev :: (dm ++ [Row.if_ st.pop.length
        (buildExpr fc e (newSmt prev st).2).2.pop.length (buildExpr fc e (newSmt prev st).2).1]),
        ∀ k ∈ ikeys x, k ≠ st.pop.length := by
      intro x hx k hk
      simp only [List.mem_cons, List.mem_append, List.not_mem_nil, or_false] at hx
      rcases hx with rfl | hx | rfl
      · simp [ikeys] at hk
      · have := (hrows x hx).2.2 k hk; omega
      · simp [ikeys] at hk
    have hn2 : ∀ x ∈ ext, ∀ k ∈ ikeys x, k ≠ st.pop.length := by
      intro x hx k hk
      have := (hfr x hx).2 k hk
      omega
    have hpopX : (buildElse fc st.pop.length els (buildElifs fc st.pop.length elifs S0)).pop ++ ext =
        st.pop ++ (Row.smt (curBlkD st.scopes) prev :: (dm ++ [Row.if_ st.pop.length
          (buildExpr fc e (newSmt prev st).2).2.pop.length (buildExpr fc e (newSmt prev st).2).1])) ++ d1 ++ d2 ++ ext := by
      rw [hd2, hd1, hdm]
    have helifs : elifsOf ((buildElse fc st.pop.length els (buildElifs fc st.pop.length elifs S0)).pop ++ ext)
        st.pop.length = elifsOf d1 st.pop.length := by
      rw [hpopX]
      simp only [elifsOf_append, (no_clauses hn0).1, (no_clauses hn1).1, (no_clauses hn2).1, ES.noElif d2 hd2,
        List.nil_append, List.append_nil]
    obtain ⟨r, hr, hrt⟩ := ES.regen d2 hd2
    have helse : elseOf ((buildElse fc st.pop.length els (buildElifs fc st.pop.length elifs S0)).pop ++ ext)
        st.pop.length = r := by
      rw [hpopX]
      simp only [elseOf_append, (no_clauses hn0).2, (no_clauses hn1).2, (no_clauses hn2).2, EL.noElse d1 hd1, hr,
        Option.or_none, Option.none_or]
    have hWe : FreshW S0.pop.length (buildElse fc st.pop.length els (buildElifs fc st.pop.length elifs S0)).pop.length ext :=
      hW.mono (Nat.le_of_lt hS0len) (Nat.le_refl _)
    have hEl' := EL.regen d1 hd1 (d2 ++ ext) f
      (freshW_seq ES.seq hd2 (by rw [hcb1]; exact Nat.le_of_lt G.inv.curBlkD) (Nat.le_of_lt hS0len) hWe) (by omega)
    rw [← List.append_assoc, ← hd2] at hEl'
    have hEs' := hrt ext f (hW.mono (by omega) (Nat.le_refl _)) (by omega)
    simp only [regenSmt, hsub, hval, hblk, helifs, helse, hEl', genStmt]
    rw [← hEs']
    cases r with
    | none => rfl
    | some x => cases x <;> rfl
  · intro ext i b' p hi hge hlt
    rw [hb] at hi hlt ⊢
    simp only [] at hi hlt ⊢
    by_cases h1 : i < S0.pop.length
    · rw [hqe] at hi ⊢
      obtain ⟨row, ha, hb2, hc2⟩ := G.subsAll (dq ++ ext) i b' p hi hge h1
      refine ⟨row, ha, hb2, fun hc => hc2 ?_⟩
      intro x hx k hk
      rcases List.mem_append.1 hx with h | h
      · right; exact (hrq x h).1 k hk
      · have := hc x h k hk
        omega
    · obtain ⟨row, ha, hb2, hc2⟩ := SQ.subsAll ext i b' p hi (by omega) hlt
      refine ⟨row, ha, hb2, fun hc => hc2 ?_⟩
      intro x hx k hk
      have := hc x hx k hk
      omega
  · intro ext hext
    rw [hb]; simp only []
    rw [hqe]
    apply G.uniq
    intro x hx hxe
    rcases List.mem_append.1 hx with h | h
    · have := (hrq x h).1 _ hxe; omega
    · exact hext x h hxe

attribute [local irreducible] buildStmt buildStmts buildElifs buildElse in
mutual
theorem buildStmt_spec (fc : FCtx) : ∀ (s : Stmt) (prev : Option Nat) (st : St), coreS s = true → Inv st →
    (∀ k, prev = some k → k < st.pop.length) → (buildStmt fc prev s st).2.ok = true → StmtSpec fc prev s st
  | .while_ e b, prev, st, hc, hinv, hprev, hok => by
    simp only [coreS, Bool.and_eq_true] at hc
    exact while_spec hc.1 hinv hprev hok (fun st' ho => buildStmts_ok_mono_core fc b none st' hc.2 ho) (fun st' hi ho =>
      buildStmts_spec fc b none st' hc.2 hi (by intro k h; cases h) (okAll_of_ok fc b none st' hc.2 ho))
  | .assign l r, prev, st, hc, hinv, hprev, hok =>
    buildStmt_spec0 fc _ prev st (by simpa [coreS] using hc) hinv hprev hok
  | .ret oe, prev, st, hc, hinv, hprev, hok =>
    buildStmt_spec0 fc _ prev st (by simpa [coreS] using hc) hinv hprev hok
  | .brk, prev, st, hc, hinv, hprev, hok =>
    buildStmt_spec0 fc _ prev st (by simpa [coreS] using hc) hinv hprev hok
  | .cont, prev, st, hc, hinv, hprev, hok =>
    buildStmt_spec0 fc _ prev st (by simpa [coreS] using hc) hinv hprev hok
  | .ctl, prev, st, hc, hinv, hprev, hok =>
    buildStmt_spec0 fc _ prev st (by simpa [coreS] using hc) hinv hprev hok
  | .create v kl, prev, st, hc, hinv, hprev, hok =>
    buildStmt_spec0 fc _ prev st (by simpa [coreS] using hc) hinv hprev hok
  | .createNV kl, prev, st, hc, hinv, hprev, hok =>
    buildStmt_spec0 fc _ prev st (by simpa [coreS] using hc) hinv hprev hok
  | .delete v, prev, st, hc, hinv, hprev, hok =>
    buildStmt_spec0 fc _ prev st (by simpa [coreS] using hc) hinv hprev hok
  | .relate a b r ph, prev, st, hc, hinv, hprev, hok =>
    buildStmt_spec0 fc _ prev st (by simpa [coreS] using hc) hinv hprev hok
  | .relateU a b r ph u, prev, st, hc, hinv, hprev, hok =>
    buildStmt_spec0 fc _ prev st (by simpa [coreS] using hc) hinv hprev hok
  | .unrelate a b r ph, prev, st, hc, hinv, hprev, hok =>
    buildStmt_spec0 fc _ prev st (by simpa [coreS] using hc) hinv hprev hok
  | .unrelateU a b r ph u, prev, st, hc, hinv, hprev, hok =>
    buildStmt_spec0 fc _ prev st (by simpa [coreS] using hc) hinv hprev hok
  | .selFrom c v kl, prev, st, hc, hinv, hprev, hok =>
    buildStmt_spec0 fc _ prev st (by simpa [coreS] using hc) hinv hprev hok
  | .selFromW c v kl w, prev, st, hc, hinv, hprev, hok => by
    simp only [coreS, Bool.and_eq_true, bne_iff_ne, ne_eq, beq_iff_eq] at hc
    exact selFromW_spec hc.1.1 hc.1.2 hc.2 hinv hprev hok
  | .selRel c v hd ch, prev, st, hc, hinv, hprev, hok => by simp [coreS, coreS0] at hc
  | .selRelW c v hd ch w, prev, st, hc, hinv, hprev, hok => by simp [coreS, coreS0] at hc
  | .forEach v sv b, prev, st, hc, hinv, hprev, hok => by
    simp only [coreS, Bool.and_eq_true, bne_iff_ne, ne_eq] at hc
    exact forEach_spec hc.1.1 hc.1.2 hinv hprev hok (fun st' ho => buildStmts_ok_mono_core fc b none st' hc.2 ho)
      (fun st' hi ho =>
        buildStmts_spec fc b none st' hc.2 hi (by intro k h; cases h) (okAll_of_ok fc b none st' hc.2 ho))
  | .if_ e b elifs els, prev, st, hc, hinv, hprev, hok => by
    simp only [coreS, Bool.and_eq_true] at hc
    exact ifFull_spec hc.1.1.1 hinv hprev hok (fun st' ho => buildStmts_ok_mono_core fc b none st' hc.1.1.2 ho)
      (fun st' hi ho =>
        buildStmts_spec fc b none st' hc.1.1.2 hi (by intro k h; cases h) (okAll_of_ok fc b none st' hc.1.1.2 ho))
      (fun st' ho => buildElifs_ok_mono_core fc elifs _ st' hc.1.2 ho)
      (fun st' ho => buildElse_ok_mono_core fc els _ st' hc.2 ho)
      (fun st' hi hl ho => buildElifs_spec fc elifs _ st' hc.1.2 hi hl ho)
      (fun st' hi hl ho => buildElse_spec fc els _ st' hc.2 hi hl ho)
  | .invoke e, prev, st, hc, hinv, hprev, hok => by simp [coreS, coreS0] at hc
  | .genEvt l m d t, prev, st, hc, hinv, hprev, hok => by simp [coreS, coreS0] at hc
  | .createEvt v l m d t, prev, st, hc, hinv, hprev, hok => by simp [coreS, coreS0] at hc
  | .genPre e, prev, st, hc, hinv, hprev, hok => by simp [coreS, coreS0] at hc
theorem buildStmts_spec (fc : FCtx) : ∀ (ss : Block) (prev : Option Nat) (st : St), coreB ss = true → Inv st →
    (∀ k, prev = some k → k < st.pop.length) → okAll fc prev ss st = true → ChainSpec fc prev ss st
  | .nil, prev, st, _, hinv, _, hok => by
    simp only [okAll] at hok
    refine ⟨hok, (by simpa [buildStmts] using hinv), (by simp [buildStmts]), ⟨[], (by simp [buildStmts]), (by simp [szB]),
      (by intro s rest h; cases h), (by simp)⟩, (by intro ext s rest h; cases h), ?_, ?_, ?_, ?_, ?_, ?_⟩
    · intro ext fuel _ hf
      simp only [szB] at hf
      obtain ⟨f, rfl⟩ := fuel_succ hf
      simp [headOf, regenChain, genBlock]
    · intro ext i b' p _ hge hlt
      simp [buildStmts] at hlt; omega
    · intro ext fuel _ _
      cases fuel <;> simp [chainFrom, stmtIds, headOf]
    · intro ext; simp [stmtIds, linked]
    · intro d hd x hx
      have : d = [] := by simpa [buildStmts] using hd.symm
      subst this; cases hx
    · intro ext _ i hi; simp [stmtIds] at hi
  | .cons s rest, prev, st, hc, hinv, hprev, hok => by
    simp only [coreB, Bool.and_eq_true] at hc
    simp only [okAll, Bool.and_eq_true] at hok
    have S := buildStmt_spec fc s prev st hc.1 hinv hprev hok.1
    have hfst := S.fst
    obtain ⟨d1, hd1, hsz1, hk1⟩ := S.grows
    have hlen1 : (buildStmt fc prev s st).2.pop.length = st.pop.length + 1 + d1.length := by rw [hd1]; simp; omega
    have hprev2 : ∀ k, some (buildStmt fc prev s st).1 = some k → k < (buildStmt fc prev s st).2.pop.length := by
      intro k hk; cases hk; rw [hfst, hlen1]; omega
    have C := buildStmts_spec fc rest (some (buildStmt fc prev s st).1) (buildStmt fc prev s st).2 hc.2 S.inv hprev2 hok.2
    obtain ⟨d2, hd2, hsz2, hhead2, hk2⟩ := C.grows
    have hbs : buildStmts fc prev (.cons s rest) st =
        buildStmts fc (some (buildStmt fc prev s st).1) rest (buildStmt fc prev s st).2 := by simp [buildStmts]
    have hcb : curBlkD (buildStmt fc prev s st).2.scopes = curBlkD st.scopes := by simp [curBlkD, S.shape.1]
    -- no row of the first statement names it as predecessor
    have hno : ∀ x ∈ (buildStmt fc prev s st).2.pop, ∀ b', x ≠ .smt b' (some st.pop.length) := by
      intro x hx b' hxe
      rw [hd1] at hx
      rcases List.mem_append.1 hx with h | h
      · obtain ⟨i, hi⟩ := List.getElem?_of_mem h
        have hlt : i < st.pop.length := by
          rcases Nat.lt_or_ge i st.pop.length with h' | h'
          · exact h'
          · simp [List.getElem?_eq_none h'] at hi
        have := (hinv.ts i x hi).2.2 st.pop.length (by subst hxe; simp [skeys])
        omega
      · simp at h
        rcases h with h | h
        · subst hxe; simp at h
          have := hprev st.pop.length h.2.symm; omega
        · have := ((hk1 x h).2.1 b' _ hxe).2 st.pop.length rfl; omega
    have hsuccAll : ∀ ext : List Row, FreshC st.pop.length (buildStmts fc prev (.cons s rest) st).pop.length ext →
        succStmt ((buildStmts fc prev (.cons s rest) st).pop ++ ext) st.pop.length =
          headOf (buildStmt fc prev s st).2.pop.length rest := by
      intro ext hfresh
      rw [hbs] at hfresh ⊢
      cases rest with
      | nil =>
        have hnil : buildStmts fc (some (buildStmt fc prev s st).1) .nil (buildStmt fc prev s st).2 =
            (buildStmt fc prev s st).2 := by simp [buildStmts]
        rw [hnil] at hfresh ⊢
        simp only [headOf]
        apply succStmt_none
        intro x hx b'
        rcases List.mem_append.1 hx with h | h
        · exact hno x h b'
        · intro hxe; subst hxe
          have := hfresh _ h st.pop.length (by simp [skeys])
          omega
      | cons s2 rest2 =>
        obtain ⟨d2', hd2'⟩ := hhead2 s2 rest2 rfl
        simp only [headOf]
        rw [hd2, List.append_assoc]
        apply succStmt_some (b' := curBlkD (buildStmt fc prev s st).2.scopes) hno
        rw [List.getElem?_append_right (Nat.le_refl _), hd2']
        simp [hfst]
    refine ⟨S.ok0, by rw [hbs]; exact C.inv, ?_, ⟨.smt (curBlkD st.scopes) prev :: d1 ++ d2, ?_, ?_, ?_, ?_⟩, ?_, ?_, ?_, ?_, ?_, ?_, ?_⟩
    · rw [hbs]; exact ⟨C.shape.1.trans S.shape.1, C.shape.2.trans S.shape.2⟩
    · rw [hbs, hd2, hd1]; simp
    · simp [szB]; omega
    · intro s' rest' _; exact ⟨d1 ++ d2, by simp⟩
    · intro x hx
      simp at hx
      rcases hx with rfl | hx | hx
      · refine ⟨?_, by simp [ikeys]⟩
        intro b' p hxe; cases hxe
        exact ⟨.inl rfl, fun k hk => .inl rfl⟩
      · obtain ⟨_, h2, h3⟩ := hk1 x hx
        refine ⟨?_, h3⟩
        intro b' p hxe
        obtain ⟨ha, hb'⟩ := h2 b' p hxe
        exact ⟨ha, fun k hk => .inr (Nat.le_of_lt (hb' k hk))⟩
      · obtain ⟨h2, h3⟩ := hk2 x hx
        refine ⟨?_, fun k hk => by have := h3 k hk; omega⟩
        intro b' p hxe
        obtain ⟨ha, hb'⟩ := h2 b' p hxe
        rw [hcb] at ha
        refine ⟨ha.imp id (fun h => by omega), ?_⟩
        intro k hk
        rcases hb' k hk with h | h
        · right; rw [hk, hfst] at h; cases h; exact Nat.le_refl _
        · right; omega
    · intro ext s' rest' _
      rw [hbs, hd2, List.append_assoc]
      exact S.sub (d2 ++ ext)
    · intro ext fuel hfresh hf
      simp only [szB] at hf
      obtain ⟨f, rfl⟩ := fuel_succ (by omega : 1 ≤ fuel)
      rw [hbs] at hfresh ⊢
      simp only [headOf, regenChain, genBlock]
      -- the statement itself
      have hS : regenSmt ((buildStmts fc (some (buildStmt fc prev s st).1) rest (buildStmt fc prev s st).2).pop ++ ext) f
          st.pop.length = genStmt s := by
        rw [hd2, List.append_assoc]
        apply S.regen (d2 ++ ext) f _ (by omega)
        intro x hx
        rcases List.mem_append.1 hx with h | h
        · obtain ⟨h2, h3⟩ := hk2 x h
          refine ⟨?_, fun k hk => .inr (h3 k hk)⟩
          intro b' p hxe
          obtain ⟨ha, hb'⟩ := h2 b' p hxe
          rw [hcb] at ha
          refine ⟨?_, ?_⟩
          · rcases ha with rfl | ha
            · left; exact Nat.le_of_lt hinv.curBlkD
            · right; omega
          · intro k hk
            rcases hb' k hk with h' | h'
            · left; rw [hk, hfst] at h'; cases h'; exact Nat.le_refl _
            · right; exact h'
        · have hx' := hfresh x h
          rw [hd2] at hx'
          refine ⟨?_, ?_⟩
          · intro b' p hxe
            subst hxe
            refine ⟨?_, ?_⟩
            · have := hx' b' (by simp [skeys]); simp at this; omega
            · intro k hk; subst hk
              have := hx' k (by simp [skeys]); simp at this; omega
          · intro k hk
            have := hx' k (ikeys_sub_skeys x k hk); simp at this; omega
      rw [hS]
      -- the successor
      cases rest with
      | nil =>
        have hnil : buildStmts fc (some (buildStmt fc prev s st).1) .nil (buildStmt fc prev s st).2 =
            (buildStmt fc prev s st).2 := by simp [buildStmts]
        rw [hnil] at hfresh ⊢
        have : succStmt ((buildStmt fc prev s st).2.pop ++ ext) st.pop.length = none := by
          apply succStmt_none
          intro x hx b'
          rcases List.mem_append.1 hx with h | h
          · exact hno x h b'
          · intro hxe; subst hxe
            have := hfresh _ h st.pop.length (by simp [skeys])
            omega
        rw [this]
        have hf1 : 1 ≤ f := by simp [szB] at hf; omega
        obtain ⟨f', rfl⟩ := fuel_succ hf1
        simp [regenChain, genBlock]
      | cons s2 rest2 =>
        obtain ⟨d2', hd2'⟩ := hhead2 s2 rest2 rfl
        have hsucc : succStmt ((buildStmts fc (some (buildStmt fc prev s st).1) (.cons s2 rest2) (buildStmt fc prev s st).2).pop ++ ext)
            st.pop.length = some (buildStmt fc prev s st).2.pop.length := by
          rw [hd2, List.append_assoc]
          apply succStmt_some (b' := curBlkD (buildStmt fc prev s st).2.scopes) hno
          rw [List.getElem?_append_right (Nat.le_refl _), hd2']
          simp [hfst]
        rw [hsucc]
        have := C.regen ext f (by
          intro x hx k hk
          have := hfresh x hx k hk
          omega) (by omega)
        simpa [headOf] using congrArg (fun t => genStmt s ++ [Tok.p Pn.semi] ++ t) this
    · intro ext i b' p hi hge hlt
      rw [hbs] at hi hlt ⊢
      by_cases h1 : i < (buildStmt fc prev s st).2.pop.length
      · rw [hd2, List.append_assoc] at hi ⊢
        obtain ⟨row, hr1, hr2, hr3⟩ := S.subsAll (d2 ++ ext) i b' p hi hge h1
        refine ⟨row, hr1, hr2, fun hc => hr3 ?_⟩
        intro x hx k hk
        rcases List.mem_append.1 hx with h | h
        · right; exact C.keysGe d2 hd2 x h k hk
        · have := hc x h k hk
          simp at this; omega
      · obtain ⟨row, hr1, hr2, hr3⟩ := C.subsAll ext i b' p hi (by omega) hlt
        refine ⟨row, hr1, hr2, fun hc => hr3 ?_⟩
        intro x hx k hk
        have := hc x hx k hk
        omega
    · intro ext fuel hfresh hf
      simp only [lenB] at hf
      obtain ⟨f, rfl⟩ := fuel_succ (by omega : 1 ≤ fuel)
      have hs := hsuccAll ext hfresh
      rw [hbs] at hfresh hs ⊢
      have hh : headOf st.pop.length (.cons s rest) = some st.pop.length := rfl
      rw [hh]
      have := C.chain ext f (by
        intro x hx k hk
        have := hfresh x hx k hk
        omega) (by omega)
      simp only [chainFrom, stmtIds, hs, this]
    · intro ext
      simp only [stmtIds, linked]
      rw [hbs]
      refine ⟨?_, ?_⟩
      · rw [hd2, hd1]; simp
      · have := C.linked ext
        rw [hcb] at this
        rw [hfst] at this ⊢
        exact this
    · intro d hd x hx k hk
      rw [hbs, hd2, hd1, List.append_assoc] at hd
      have hdd := List.append_cancel_left hd
      rw [← hdd] at hx
      simp at hx
      rcases hx with rfl | hx | hx
      · simp [Row.smtOf] at hk
      · exact (hk1 x hx).1 k hk
      · have := C.keysGe d2 hd2 x hx k hk; omega
    · intro ext hext i hi
      rw [hbs] at hext ⊢
      simp only [stmtIds, List.mem_cons] at hi
      rcases hi with rfl | hi
      · rw [hd2, List.append_assoc]
        apply S.uniq
        intro x hx hxe
        rcases List.mem_append.1 hx with h | h
        · have := C.keysGe d2 hd2 x h _ hxe; omega
        · have := hext x h _ hxe
          rw [hd2] at this; simp at this; omega
      · apply C.uniq ext _ i hi
        intro x hx k hk
        have := hext x hx k hk
        omega
theorem buildElifs_spec (fc : FCtx) : ∀ (el : Elifs) (ifS : Nat) (st : St), coreEl el = true → Inv st →
    ifS < st.pop.length → (buildElifs fc ifS el st).ok = true → ElifsSpec fc ifS el st
  | .nil, ifS, st, _, hinv, _, _ => elifs_nil_spec hinv
  | .cons e b rest, ifS, st, hc, hinv, hif, hok => by
    simp only [coreEl, Bool.and_eq_true] at hc
    exact elifs_cons_spec hc.1.1 hinv hif hok (fun st' ho => buildElifs_ok_mono_core fc rest ifS st' hc.2 ho)
      (fun st' ho => buildStmts_ok_mono_core fc b none st' hc.1.2 ho)
      (fun st' hi ho =>
        buildStmts_spec fc b none st' hc.1.2 hi (by intro k h; cases h) (okAll_of_ok fc b none st' hc.1.2 ho))
      (fun st' hi hl ho => buildElifs_spec fc rest ifS st' hc.2 hi hl ho)
theorem buildElse_spec (fc : FCtx) : ∀ (els : Else) (ifS : Nat) (st : St), coreEs els = true → Inv st →
    ifS < st.pop.length → (buildElse fc ifS els st).ok = true → ElseSpec fc ifS els st
  | .none, ifS, st, _, hinv, _, _ => else_none_spec hinv
  | .some eb, ifS, st, hc, hinv, hif, hok => by
    simp only [coreEs] at hc
    exact else_some_spec hinv hif hok (fun st' ho => buildStmts_ok_mono_core fc eb none st' hc ho)
      (fun st' hi ho =>
        buildStmts_spec fc eb none st' hc hi (by intro k h; cases h) (okAll_of_ok fc eb none st' hc ho))
end

/-! ### whole bodies -/

/-- the builder state in which `accept_BodyNode` accepts the statement list: the outer ACT_BLK and its scope -/
def bodySt : St := pushScope (.blk 0) (({} : St).new (.blk true)).2

theorem bodySt_inv : Inv bodySt := by
  refine ⟨?_, ?_, ⟨0, rfl, by simp [bodySt, pushScope]⟩⟩
  · intro i r hi
    have := List.mem_of_getElem? hi
    simp [bodySt, pushScope] at this
    subst this
    simp [Row.valOf, Row.smtOf, skeys]
  · intro n v h
    simp [bodySt, pushScope, findSym, List.lookup] at h

/-- reading back the population of a whole body (`coreB`: statements of `coreS`, no nested block) prints the body -/
theorem lenB_le_szB : ∀ ss : Block, lenB ss ≤ szB ss
  | .nil => by simp [lenB]
  | .cons s rest => by have := lenB_le_szB rest; simp [lenB, szB]; omega

/-- the first statement of the outer block found by the R602 filter -/
theorem firstStmt_prebuildFlat (fc : FCtx) (a : Block) (hc : coreB a = true) (hok : okAll fc none a bodySt = true) :
    firstStmt (prebuildFlat fc a) 0 = headOf 1 a ∧ szB a ≤ (prebuildFlat fc a).length := by
  have C := buildStmts_spec fc a none bodySt hc bodySt_inv (by intro k h; cases h) hok
  obtain ⟨d, hd, hsz, hhead, _⟩ := C.grows
  have hp : prebuildFlat fc a = (buildStmts fc none a bodySt).pop := by
    simp [prebuildFlat, prebuildSt, popScope, bodySt]
  have hpop : prebuildFlat fc a = .blk true :: d := by rw [hp, hd]; simp [bodySt, pushScope]
  have hlen : (prebuildFlat fc a).length = d.length + 1 := by rw [hpop]; simp
  have houter : outerBlk (prebuildFlat fc a) = some 0 := by
    rw [hpop]; unfold outerBlk; rw [List.findIdx?_cons]; simp
  have hfirst : firstStmt (prebuildFlat fc a) 0 = headOf 1 a := by
    unfold firstStmt
    cases a with
    | nil =>
      have : d = [] := by
        have : (buildStmts fc none .nil bodySt).pop = bodySt.pop := by simp [buildStmts]
        rw [this] at hd; simpa [bodySt, pushScope] using hd.symm
      subst this
      rw [hpop]; simp [headOf]
    | cons s rest =>
      obtain ⟨d', hd'⟩ := hhead s rest rfl
      obtain ⟨row, hrow, hik⟩ := C.first [] s rest rfl
      simp only [List.append_nil, ← hp] at hrow
      have hb0 : curBlkD bodySt.scopes = 0 := rfl
      have hl1 : bodySt.pop.length = 1 := rfl
      rw [hl1] at hrow
      simp only [headOf]
      have hq1 : (prebuildFlat fc (.cons s rest))[1]? = some (.smt 0 none) := by rw [hpop, hd', hb0]; rfl
      have hq0 : (prebuildFlat fc (.cons s rest))[0]? = some (.blk true) := by rw [hpop]; rfl
      apply range_find_some (by rw [hlen, hd']; simp)
      · simp only [hq1]
        simp [isElifOrElse_false hrow hik]
      · intro i hi
        have : i = 0 := by omega
        subst this
        simp only [hq0]
  exact ⟨hfirst, by rw [hlen]; exact hsz⟩

/-- the R661 chain of the outer block, as a list: exactly the ACT_SMT rows the builder created for the statements of the
    body, in source order; each names its predecessor; strictly increasing -/
theorem chainOf_prebuildFlat (fc : FCtx) (a : Block) (hc : coreB a = true) (hok : okAll fc none a bodySt = true) :
    chainOf (prebuildFlat fc a) 0 = stmtIds fc none a bodySt ∧
    linked (prebuildFlat fc a) 0 none (stmtIds fc none a bodySt) ∧
    (stmtIds fc none a bodySt).Pairwise (· < ·) := by
  have C := buildStmts_spec fc a none bodySt hc bodySt_inv (by intro k h; cases h) hok
  have hp : prebuildFlat fc a = (buildStmts fc none a bodySt).pop := by
    simp [prebuildFlat, prebuildSt, popScope, bodySt]
  obtain ⟨hfirst, hsz⟩ := firstStmt_prebuildFlat fc a hc hok
  have hl : linked (prebuildFlat fc a) 0 none (stmtIds fc none a bodySt) := by
    have := C.linked []
    have hb0 : curBlkD bodySt.scopes = 0 := rfl
    rw [hb0] at this
    simpa [← hp] using this
  refine ⟨?_, hl, ?_⟩
  · unfold chainOf
    rw [hfirst]
    have := C.chain [] (prebuildFlat fc a).length (by intro x hx; cases hx)
      (Nat.le_trans (lenB_le_szB a) hsz)
    have hl1 : bodySt.pop.length = 1 := rfl
    rw [hl1] at this
    simpa [← hp] using this
  · have hts : TS (prebuildFlat fc a) := by rw [hp]; exact C.inv.ts
    exact (linked_increasing hts _ none hl).2

theorem regenFlat_prebuildFlat (fc : FCtx) (a : Block) (hc : coreB a = true) (hok : okAll fc none a bodySt = true) :
    regenFlat (prebuildFlat fc a) = genTokens a := by
  have C := buildStmts_spec fc a none bodySt hc bodySt_inv (by intro k h; cases h) hok
  obtain ⟨d, hd, hsz, hhead, _⟩ := C.grows
  have hp : prebuildFlat fc a = (buildStmts fc none a bodySt).pop := by
    simp [prebuildFlat, prebuildSt, popScope, bodySt]
  have hpop : prebuildFlat fc a = .blk true :: d := by rw [hp, hd]; simp [bodySt, pushScope]
  have hlen : (prebuildFlat fc a).length = d.length + 1 := by rw [hpop]; simp
  have houter : outerBlk (prebuildFlat fc a) = some 0 := by
    rw [hpop]; unfold outerBlk; rw [List.findIdx?_cons]; simp
  have hfirst : firstStmt (prebuildFlat fc a) 0 = headOf 1 a := by
    unfold firstStmt
    cases a with
    | nil =>
      have : d = [] := by
        have : (buildStmts fc none .nil bodySt).pop = bodySt.pop := by simp [buildStmts]
        rw [this] at hd; simpa [bodySt, pushScope] using hd.symm
      subst this
      rw [hpop]; simp [headOf]
    | cons s rest =>
      obtain ⟨d', hd'⟩ := hhead s rest rfl
      obtain ⟨row, hrow, hik⟩ := C.first [] s rest rfl
      simp only [List.append_nil, ← hp] at hrow
      have hb0 : curBlkD bodySt.scopes = 0 := rfl
      have hl1 : bodySt.pop.length = 1 := rfl
      rw [hl1] at hrow
      simp only [headOf]
      have hq1 : (prebuildFlat fc (.cons s rest))[1]? = some (.smt 0 none) := by rw [hpop, hd', hb0]; rfl
      have hq0 : (prebuildFlat fc (.cons s rest))[0]? = some (.blk true) := by rw [hpop]; rfl
      apply range_find_some (by rw [hlen, hd']; simp)
      · simp only [hq1]
        simp [isElifOrElse_false hrow hik]
      · intro i hi
        have : i = 0 := by omega
        subst this
        simp only [hq0]
  unfold regenFlat
  rw [houter]
  simp only [regenBlk, hfirst]
  have := C.regen [] (prebuildFlat fc a).length (by intro x hx; cases hx) (by rw [hlen]; exact hsz)
  simp only [List.append_nil, ← hp] at this
  exact this

/-- every reverse-searched key of the population of a whole `coreB` body names an earlier row -/
theorem prebuildFlat_ts (fc : FCtx) (a : Block) (hc : coreB a = true) (hok : okAll fc none a bodySt = true) :
    TS (prebuildFlat fc a) := by
  have C := buildStmts_spec fc a none bodySt hc bodySt_inv (by intro k h; cases h) hok
  have hp : prebuildFlat fc a = (buildStmts fc none a bodySt).pop := by
    simp [prebuildFlat, prebuildSt, popScope, bodySt]
  rw [hp]; exact C.inv.ts

/-- every ACT_SMT of the population of a whole `coreB` body has an R603 subtype row -/
theorem prebuildFlat_subtypes (fc : FCtx) (a : Block) (hc : coreB a = true) (hok : okAll fc none a bodySt = true)
    (i b' : Nat) (p : Option Nat) (hi : (prebuildFlat fc a)[i]? = some (.smt b' p)) :
    ∃ row, smtSub (prebuildFlat fc a) i = some row ∧ row.smtOf = some i := by
  have C := buildStmts_spec fc a none bodySt hc bodySt_inv (by intro k h; cases h) hok
  have hp : prebuildFlat fc a = (buildStmts fc none a bodySt).pop := by
    simp [prebuildFlat, prebuildSt, popScope, bodySt]
  obtain ⟨d, hd, _⟩ := C.grows
  have hlt : i < (prebuildFlat fc a).length := by
    rcases Nat.lt_or_ge i (prebuildFlat fc a).length with h' | h'
    · exact h'
    · simp [List.getElem?_eq_none h'] at hi
  have hge : bodySt.pop.length ≤ i := by
    rcases Nat.lt_or_ge i bodySt.pop.length with h' | h'
    · rw [hp, hd, List.getElem?_append_left h'] at hi
      have : i = 0 := by simp [bodySt, pushScope] at h'; omega
      subst this; simp [bodySt, pushScope] at hi
    · exact h'
  obtain ⟨row, h1, h2, _⟩ := C.subsAll [] i b' p (by simpa [← hp] using hi) hge (by rw [← hp]; exact hlt)
  exact ⟨row, by simpa [← hp] using h1, h2⟩

/-- EVERY statement of the population — of the outer block and of every nested block — has exactly one R603 subtype row -/
theorem prebuildFlat_subCount_all (fc : FCtx) (a : Block) (hc : coreB a = true) (hok : okAll fc none a bodySt = true)
    (i b' : Nat) (p : Option Nat) (hi : (prebuildFlat fc a)[i]? = some (.smt b' p)) :
    subCount (prebuildFlat fc a) i = 1 := by
  have C := buildStmts_spec fc a none bodySt hc bodySt_inv (by intro k h; cases h) hok
  have hp : prebuildFlat fc a = (buildStmts fc none a bodySt).pop := by
    simp [prebuildFlat, prebuildSt, popScope, bodySt]
  obtain ⟨d, hd, _⟩ := C.grows
  have hlt : i < (prebuildFlat fc a).length := getElem?_lt_of_some hi
  have hge : bodySt.pop.length ≤ i := by
    rcases Nat.lt_or_ge i bodySt.pop.length with h' | h'
    · rw [hp, hd, List.getElem?_append_left h'] at hi
      have : i = 0 := by simp [bodySt, pushScope] at h'; omega
      subst this; simp [bodySt, pushScope] at hi
    · exact h'
  obtain ⟨row, _, _, h3⟩ := C.subsAll [] i b' p (by simpa [← hp] using hi) hge (by rw [← hp]; exact hlt)
  have := h3 (by intro x hx; cases hx)
  simpa [← hp] using this

/-- every statement of the body has EXACTLY ONE R603 subtype row (as a count) -/
theorem prebuildFlat_subCount (fc : FCtx) (a : Block) (hc : coreB a = true) (hok : okAll fc none a bodySt = true) :
    ∀ i ∈ stmtIds fc none a bodySt, subCount (prebuildFlat fc a) i = 1 := by
  have C := buildStmts_spec fc a none bodySt hc bodySt_inv (by intro k h; cases h) hok
  have hp : prebuildFlat fc a = (buildStmts fc none a bodySt).pop := by
    simp [prebuildFlat, prebuildSt, popScope, bodySt]
  intro i hi
  have := C.uniq [] (by intro x hx; cases hx) i hi
  simpa [← hp] using this

theorem okAll_of_flatOk (fc : FCtx) (a : Block) (hc : coreB a = true) (h : flatOk fc a = true) :
    okAll fc none a bodySt = true := by
  apply okAll_of_ok fc a none bodySt hc
  simpa [flatOk, prebuildSt, popScope, bodySt] using h

/-! ### non-vacuity: a body with `if` / `elif` / `else` (nested, with an empty elif block) lies in `coreB` and is `flatOk` -/

/-- `n = 0; if (n < 1) n = 2; elif (n < 2) if (true) break; else control stop; end if; elif (false) else return n; end if;
    return;` -/
def ifElifElseBody : Block :=
  .cons (.assign (.var "n") (.int "0"))
  (.cons (.if_ (.bin (.var "n") "<" (.int "1")) (.cons (.assign (.var "n") (.int "2")) .nil)
      (.cons (.bin (.var "n") "<" (.int "2"))
        (.cons (.if_ (.bool "true") (.cons .brk .nil) .nil (.some (.cons .ctl .nil))) .nil)
        (.cons (.bool "false") .nil .nil))
      (.some (.cons (.ret (some (.var "n"))) .nil)))
  (.cons (.ret none) .nil))

def ifElifElseFc : FCtx := { ees := [], classes := ["DOG"] }

example : coreB ifElifElseBody = true ∧ flatOk ifElifElseFc ifElifElseBody = true := by decide

example : regenFlat (prebuildFlat ifElifElseFc ifElifElseBody) = genTokens ifElifElseBody :=
  regenFlat_prebuildFlat ifElifElseFc ifElifElseBody (by decide)
    (okAll_of_flatOk ifElifElseFc ifElifElseBody (by decide) (by decide))

/-- the ACT_EL / ACT_E rows of the outer `if` (statement 9) are found over R682 / R683 -/
example : (elifsOf (prebuildFlat ifElifElseFc ifElifElseBody) 9).length = 2 ∧
    (elseOf (prebuildFlat ifElifElseFc ifElifElseBody) 9).isSome = true := by decide

/-! ### non-vacuity: `self` as the instance name of relate / unrelate (+ using) / delete, in a home that has a `self` -/

/-- `select any d from instances of DOG; while (true) unrelate d from self across R1.'chases' using self; end while;
    relate self to d across R1; relate self to d across R1 using self; delete object instance self;`
    (the look-up inside the loop creates V_VAR + V_INT in the scope of the loop's block; after the loop the name is
    not visible any more and is created again in the outer block) -/
def selfBody : Block :=
  .cons (.selFrom "any" "d" "DOG")
  (.cons (.while_ (.bool "true") (.cons (.unrelateU "d" "self" "R1" "'chases'" "self") .nil))
  (.cons (.relate "self" "d" "R1" "")
  (.cons (.relateU "self" "d" "R1" "" "self")
  (.cons (.delete "self") .nil))))

def selfFc : FCtx := { ees := [], classes := ["DOG"], selfKl := some "DOG" }

example : coreB selfBody = true ∧ flatOk selfFc selfBody = true := by decide

example : regenFlat (prebuildFlat selfFc selfBody) = genTokens selfBody :=
  regenFlat_prebuildFlat selfFc selfBody (by decide) (okAll_of_flatOk selfFc selfBody (by decide) (by decide))

/-- `self` is created twice (rows 10 / 11 in the loop's block 8, rows 15 / 16 in the outer block 0), each time as a
    V_VAR + a V_INT of the home's class; the printed text has the keyword -/
example : (prebuildFlat selfFc selfBody)[10]? = some (.var "self" 8) ∧
    (prebuildFlat selfFc selfBody)[11]? = some (.vint 10 "DOG") ∧
    (prebuildFlat selfFc selfBody)[12]? = some (.uru 9 2 10 10 "R1" "'chases'") ∧
    (prebuildFlat selfFc selfBody)[15]? = some (.var "self" 0) ∧
    (prebuildFlat selfFc selfBody)[16]? = some (.vint 15 "DOG") ∧
    (prebuildFlat selfFc selfBody)[19]? = some (.ru 18 15 2 15 "R1" "") ∧
    ((prebuildFlat selfFc selfBody).filter (fun r => r.cls == "V_VAR")).length = 3 ∧
    Tok.kw .self_ ∈ genTokens selfBody := by decide

/-- in a home without a `self` the same body is rejected (the real code raises) -/
example : flatOk { selfFc with selfKl := none } selfBody = false := by decide

/-- `self.Age = 3; select any d from instances of DOG; d.Age = self.Age; while (true) self.Age = d.Age; end while;
    return self.Age;` (`self` as the root of an assigned / a read attribute; the first statement creates the variable,
    the loop body finds it in the enclosing scope) -/
def selfBody2 : Block :=
  .cons (.assign (.field .self "Age") (.int "3"))
  (.cons (.selFrom "any" "d" "DOG")
  (.cons (.assign (.field (.var "d") "Age") (.field .self "Age"))
  (.cons (.while_ (.bool "true") (.cons (.assign (.field .self "Age") (.field (.var "d") "Age")) .nil))
  (.cons (.ret (some (.field .self "Age"))) .nil))))

set_option maxRecDepth 100000 in
example : coreB selfBody2 = true ∧ flatOk selfFc selfBody2 = true := by decide

set_option maxRecDepth 100000 in
example : regenFlat (prebuildFlat selfFc selfBody2) = genTokens selfBody2 :=
  regenFlat_prebuildFlat selfFc selfBody2 (by decide) (okAll_of_flatOk selfFc selfBody2 (by decide) (by decide))

set_option maxRecDepth 100000 in
example : ((prebuildFlat selfFc selfBody2).filter (fun r => r == .var "self" 0)).length = 1 := by decide

/-! ### non-vacuity: `self` inside expressions — heads of if / elif / while, a declaring assignment, a where clause -/

/-- `if (self.Age > 1) self.Age = 1; elif (not_empty self) return self.Age + 1; else x = 0; end if;
    while (self.Age < 3) self.Age = self.Age + 1; end while; x = self.Age * 2;
    select any d from instances of DOG where (selected.Age == self.Age);`
    (the head of the `if` creates the variable in the outer block; every later `self` finds it) -/
def selfBody3 : Block :=
  .cons (.if_ (.bin (.field .self "Age") ">" (.int "1"))
      (.cons (.assign (.field .self "Age") (.int "1")) .nil)
      (.cons (.un "not_empty" .self) (.cons (.ret (some (.bin (.field .self "Age") "+" (.int "1")))) .nil) .nil)
      (.some (.cons (.assign (.var "x") (.int "0")) .nil)))
  (.cons (.while_ (.bin (.field .self "Age") "<" (.int "3"))
      (.cons (.assign (.field .self "Age") (.bin (.field .self "Age") "+" (.int "1"))) .nil))
  (.cons (.assign (.var "x") (.bin (.field .self "Age") "*" (.int "2")))
  (.cons (.selFromW "any" "d" "DOG" (.bin (.field .selected "Age") "==" (.field .self "Age"))) .nil)))

set_option maxRecDepth 100000 in
example : coreB selfBody3 = true ∧ flatOk selfFc selfBody3 = true := by decide

set_option maxRecDepth 100000 in
example : regenFlat (prebuildFlat selfFc selfBody3) = genTokens selfBody3 :=
  regenFlat_prebuildFlat selfFc selfBody3 (by decide) (okAll_of_flatOk selfFc selfBody3 (by decide) (by decide))

/- the variable is created ONCE, by the head of the `if` (rows 2 / 3, in the outer block 0) -/
set_option maxRecDepth 100000 in
example : (prebuildFlat selfFc selfBody3)[2]? = some (.var "self" 0) ∧
    (prebuildFlat selfFc selfBody3)[3]? = some (.vint 2 "DOG") ∧
    ((prebuildFlat selfFc selfBody3).filter (fun r => match r with | .var n _ => n == "self" | _ => false)).length = 1 := by
  decide

/- in a home without a `self` the body is rejected -/
set_option maxRecDepth 100000 in
example : flatOk { selfFc with selfKl := none } selfBody3 = false := by decide

/-- `select any d from instances of DOG where (selected.Age == self.Age); x = (self == d); while (not_empty self) break;
    end while;`: a `self` first used in a where clause is installed in the O_OBJ scope of the clause and dropped with it
    (its V_VAR / V_INT rows stay), so the next statement creates the variable again -/
def selfBody4 : Block :=
  .cons (.selFromW "any" "d" "DOG" (.bin (.field .selected "Age") "==" (.field .self "Age")))
  (.cons (.assign (.var "x") (.bin .self "==" (.var "d")))
  (.cons (.while_ (.un "not_empty" .self) (.cons .brk .nil)) .nil))

set_option maxRecDepth 100000 in
example : coreB selfBody4 = true ∧ flatOk selfFc selfBody4 = true := by decide

set_option maxRecDepth 100000 in
example : regenFlat (prebuildFlat selfFc selfBody4) = genTokens selfBody4 :=
  regenFlat_prebuildFlat selfFc selfBody4 (by decide) (okAll_of_flatOk selfFc selfBody4 (by decide) (by decide))

set_option maxRecDepth 100000 in
example : ((prebuildFlat selfFc selfBody4).filter (fun r => r == .var "self" 0)).length = 2 := by decide

end Pyx.Prebuild.Flat
