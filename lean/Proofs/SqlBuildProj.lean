import Proofs.SqlBuildOk

set_option linter.unusedSimpArgs false

/-! the folds of `build_ok` computed: what a declared class holds after the build, in terms of the statements that
    concern it -/
namespace Pyx.Sql

/-- the identifier definitions (with attributes) of the statements for a class kind, in statement order -/
def idxOf (u : UC) (k : Name) : List Stmt → List (Name × List Name)
  | [] => []
  | .createIndex kind name attrs :: rest =>
    if !attrs.isEmpty && sameKind u k kind then (name, attrs) :: idxOf u k rest else idxOf u k rest
  | _ :: rest => idxOf u k rest

/-- the referential attribute names the association statements give a class kind -/
def refsOf (u : UC) (k : Name) : List Stmt → List Name
  | [] => []
  | .createRop _ sk _ skeys _ _ _ _ _ :: rest => if sameKind u k sk then skeys ++ refsOf u k rest else refsOf u k rest
  | _ :: rest => refsOf u k rest

/-- the value lists of the INSERT statements for a class kind, in statement order -/
def insOf (u : UC) (k : Name) : List Stmt → List (List Text)
  | [] => []
  | .insert kind values _ :: rest => if sameKind u k kind then values :: insOf u k rest else insOf u k rest
  | _ :: rest => insOf u k rest

theorem foldl_identsStep (u : UC) : ∀ (stmts : List Stmt) (c : ClassB),
    stmts.foldl (identsStep u) c =
      { c with indices := (idxOf u c.kind stmts).foldl (fun d na => dictSet na.1 na.2 d) c.indices } := by
  intro stmts
  induction stmts with
  | nil => intro c; rfl
  | cons st rest ih =>
    intro c
    rw [List.foldl_cons, ih]
    cases st with
    | createIndex kind name attrs =>
      simp only [identsStep, idxOf]
      by_cases hc : (!attrs.isEmpty && sameKind u c.kind kind) = true
      · simp only [hc, if_true, List.foldl_cons]
      · have hc' := Bool.eq_false_iff.mpr hc
        simp only [hc', Bool.false_eq_true, if_false]
    | createTable _ _ => rfl
    | createRop _ _ _ _ _ _ _ _ _ => rfl
    | insert _ _ _ => rfl

theorem foldl_assocStep (u : UC) : ∀ (stmts : List Stmt) (c : ClassB),
    stmts.foldl (assocStep u) c = { c with referential := c.referential ++ refsOf u c.kind stmts } := by
  intro stmts
  induction stmts with
  | nil => intro c; simp [refsOf]
  | cons st rest ih =>
    intro c
    rw [List.foldl_cons, ih]
    cases st with
    | createRop rel sk sc skeys sp tk tc tkeys tp =>
      simp only [assocStep, refsOf]
      by_cases hc : sameKind u c.kind sk = true
      · simp only [hc, if_true, List.append_assoc]
      · have hc' := Bool.eq_false_iff.mpr hc
        simp only [hc', Bool.false_eq_true, if_false]
    | createTable _ _ => rfl
    | createIndex _ _ _ => rfl
    | insert _ _ _ => rfl

theorem specCells_congr (u : UC) (c c' : ClassB) (h : c.referential = c'.referential) :
    ∀ (attrs : List (Name × Name)) (vals : List Text), specCells u c attrs vals = specCells u c' attrs vals := by
  intro attrs
  induction attrs with
  | nil => intro vals; rfl
  | cons a attrs ih =>
    intro vals
    cases vals with
    | nil => simp only [specCells, initialCell, h]
    | cons v vs => obtain ⟨n, ty⟩ := a; simp only [specCells, ih vs]

theorem foldl_instStep (u : UC) : ∀ (stmts : List Stmt) (c : ClassB),
    stmts.foldl (instStep u) c = { c with rows := c.rows ++ (insOf u c.kind stmts).map (specCells u c c.attrs) } := by
  intro stmts
  induction stmts with
  | nil => intro c; simp [insOf]
  | cons st rest ih =>
    intro c
    rw [List.foldl_cons, ih]
    cases st with
    | insert kind values names =>
      simp only [instStep, insOf]
      by_cases hc : sameKind u c.kind kind = true
      · simp only [hc, if_true, List.map_cons, List.append_assoc, List.singleton_append]
        congr 3
        apply List.map_congr_left
        intro vs _
        apply specCells_congr; rfl
      · have hc' := Bool.eq_false_iff.mpr hc
        simp only [hc', Bool.false_eq_true, if_false]
    | createTable _ _ => rfl
    | createIndex _ _ _ => rfl
    | createRop _ _ _ _ _ _ _ _ _ => rfl

/-- a declared class after the build, explicitly -/
theorem builtClass_eq (u : UC) (stmts : List Stmt) (kind : Name) (attrs : List (Name × Name)) :
    builtClass u stmts ⟨kind, attrs, [], [], []⟩ =
      ⟨kind, attrs, (idxOf u kind stmts).foldl (fun d na => dictSet na.1 na.2 d) [], refsOf u kind stmts,
        (insOf u kind stmts).map (specCells u ⟨kind, attrs, [], refsOf u kind stmts, []⟩ attrs)⟩ := by
  unfold builtClass
  rw [foldl_identsStep, foldl_assocStep, foldl_instStep]
  simp only [List.nil_append]
  congr 1
  apply List.map_congr_left
  intro vs _
  apply specCells_congr; rfl

/-- an insertion-ordered dict filled with distinct keys is the list of its entries -/
theorem foldl_dictSet_nodup : ∀ (entries acc : List (Name × List Name)),
    ((acc ++ entries).map fun e => e.1).Nodup →
    entries.foldl (fun d na => dictSet na.1 na.2 d) acc = acc ++ entries := by
  intro entries
  induction entries with
  | nil => intro acc _; simp
  | cons e es ih =>
    intro acc hn
    have hset : dictSet e.1 e.2 acc = acc ++ [e] := by
      have hnot : e.1 ∉ acc.map (fun x => x.1) := by
        simp only [List.map_append, List.map_cons] at hn
        have := (List.nodup_append.mp hn).2.2
        intro hm; exact this e.1 hm e.1 (by simp) rfl
      clear hn ih
      induction acc with
      | nil => rfl
      | cons a as iha =>
        obtain ⟨k', v'⟩ := a
        have hk : k' ≠ e.1 := fun h => hnot (by simp [h])
        simp only [dictSet, hk, if_false, List.cons_append]
        rw [iha (fun hm => hnot (by simp [hm]))]
    rw [List.foldl_cons, hset, ih (acc ++ [e]) (by simpa [List.append_assoc] using hn)]
    simp [List.append_assoc]

end Pyx.Sql
