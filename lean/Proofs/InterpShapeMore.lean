import Proofs.InterpShape

/-!
  C04 source tie, additions (builder 8): the generator `accept_NavigationListNode`, the handlers `accept_BodyNode`,
  `accept_ElseNode`, `accept_ElIfListNode` as equations of their own, `accept_RealNode`, the inventory of translated handlers,
  and relate / unrelate (+ using) as EXACT equations (error text included) under the weakest hypothesis that makes them true.
-/
set_option linter.unusedSimpArgs false
set_option linter.unusedVariables false
namespace Pyx.IShape
open Pyx.Interp Pyx.Interp.M Pyx.Gen.InterpShape

/-! ### the generator `accept_NavigationListNode` -/

/-- what a generator body has yielded so far -/
def yielded (L : Locals) : List PV :=
  match L.get "$yield" with
  | .list l => l
  | _ => []

/-- a generator handler run to exhaustion: the objects it yields, in order.  (Python runs the generator lazily, interleaved with
    the consumer's loop body; the equation below shows that it delivers `pure …`: it touches nothing, so the interleaving cannot
    be observed.) -/
def sigG (L : Locals) : Sig → M (List PV)
  | .next => pure (yielded L)
  | .exc _ => fail "a control exception left the generator"
  | _ => fail "return / break / continue at the top of a generator"

def handlerG (C : Ctx) (nd : Node) (body : List PyStmt) : M (List PV) := do
  let r ← iStmts C nd body []
  sigG r.1 r.2

def stepOf : PV → M NavStep
  | .step s => pure s
  | _ => fail "the handler of a navigation step did not return a step closure"

/-- a NavigationStepNode as the parser delivers it: key letter, rel id, phrase WITH its ticks -/
abbrev RawStep := String × String × String

def decodeStep (r : RawStep) : NavStep := ⟨r.1, r.2.1, stripTicks r.2.2⟩

/-- `self.accept(child)` for a child that is a NavigationStepNode: the interpreted accept_NavigationStepNode -/
def stepChild (C : Ctx) (r : RawStep) : M NavStep :=
  handlerP C (strNode [("key_letter", r.1), ("rel_id", r.2.1), ("phrase", r.2.2)]) accept_NavigationStepNode >>= stepOf

theorem stepChild_eq (C : Ctx) (r : RawStep) : stepChild C r = pure (decodeStep r) := by
  simp only [stepChild, navigationStep_eq, pure_bind, stepOf, decodeStep]

def navListNode (C : Ctx) (raws : List RawStep) : Node := { pchildren := raws.map (stepChild C) }

theorem yielded_set_child (L : Locals) (v : PV) : yielded (("child", v) :: L) = yielded L := by
  simp only [yielded, get_cons_ne _ "$yield" "child" _ (by decide)]

theorem yielded_set_yield (L : Locals) (l : List PV) : yielded (("$yield", .list l) :: L) = l := by
  simp only [yielded, get_cons_eq]

/-- one round of `for child in node.children: yield self.accept(child)` -/
def yieldBody (C : Ctx) (nd : Node) (var : String) (body : List PyStmt) : M NavStep → Locals → M (Locals × Sig) :=
  fun m L' => iStmts C nd body (L'.set var (.pchild m))

theorem forChildren_p (C : Ctx) (nd : Node) (var : String) (body : List PyStmt) (L : Locals) (p : M NavStep) (ps : List (M NavStep))
    (h : nd.pchildren = p :: ps) :
    iStmt C nd (.forChildren var body) L = iLoop (yieldBody C nd var body) (p :: ps) L := by
  simp only [iStmt, h]
  rfl

theorem yieldBody_eq (C : Ctx) (nd : Node) (r : RawStep) (L : Locals) :
    yieldBody C nd "child" [.yield_ (.acceptLocal "child")] (stepChild C r) L =
      pure (("$yield", .list (yielded L ++ [.step (decodeStep r)])) :: ("child", .pchild (stepChild C r)) :: L, .next) := by
  simp only [yieldBody, iStmts, iStmt, iCall, Locals.set, get_cons_eq, stepChild_eq, pure_bind, bind_assoc, thenSig_next]
  rw [← yielded_set_child L (.pchild (pure (decodeStep r)))]
  rfl

theorem yield_loop (C : Ctx) (nd : Node) : ∀ (raws : List RawStep) (L : Locals),
    ∃ L', iLoop (yieldBody C nd "child" [.yield_ (.acceptLocal "child")]) (raws.map (stepChild C)) L = pure (L', .next) ∧
      yielded L' = yielded L ++ raws.map (fun r => PV.step (decodeStep r))
  | [], L => ⟨L, rfl, by simp⟩
  | r :: rest, L => by
    obtain ⟨L', h1, h2⟩ := yield_loop C nd rest
      (("$yield", .list (yielded L ++ [.step (decodeStep r)])) :: ("child", .pchild (stepChild C r)) :: L)
    refine ⟨L', ?_, ?_⟩
    · rw [← h1]
      simp only [List.map, iLoop, yieldBody_eq, pure_bind]
    · rw [h2, yielded_set_yield]
      simp

theorem navigationList_eq (C : Ctx) (raws : List RawStep) :
    handlerG C (navListNode C raws) accept_NavigationListNode = pure (raws.map (fun r => PV.step (decodeStep r))) := by
  cases raws with
  | nil =>
    simp only [handlerG, accept_NavigationListNode, navListNode, iStmts, iStmt, List.map, iLoop, pure_bind, thenSig_next, sigG,
      yielded, Locals.get, List.lookup, Option.getD_none]
  | cons r rest =>
    obtain ⟨L', h1, h2⟩ := yield_loop C (navListNode C (r :: rest)) (r :: rest) []
    have hp : (navListNode C (r :: rest)).pchildren = stepChild C r :: rest.map (stepChild C) := rfl
    simp only [List.map] at h1
    simp only [handlerG, accept_NavigationListNode, iStmts, forChildren_p C _ _ _ _ _ _ hp, h1, pure_bind, thenSig_next, sigG, h2]
    rfl

/-! ### body, else clause, elif list -/

/-- accept_BodyNode: a new scope, the block; ReturnException / StopException end the body normally and the scope is left; a
    BreakException / ContinueException that no loop caught passes through — and `leave_scope` is then NOT reached -/
def bodySem (rec : Oracle) (body : Block) : M Out := do
  setEnv [[]]
  let o ← execBlock rec body
  match o with
  | .brk => pure .brk
  | .cont => pure .cont
  | _ => do
    setEnv []
    pure .normal

theorem bodyNode_eq (C : Ctx) (rec : Oracle) (body : Block) :
    handlerS C (bodyNode rec body) accept_BodyNode = bodySem rec body := by
  ishape [accept_BodyNode, bodyNode, bodySem, blockChild]
  apply bind_congr; intro _
  apply bind_congr; intro o
  cases o <;> ishape [] <;> rfl

/-- accept_ElIfListNode: the children in order; the first that returns True ends the search (True); a control exception
    leaves; no child true: None -/
def firstTaken (rec : Oracle) : List (Expr × Block) → M (Out × Bool)
  | [] => pure (.normal, false)
  | cb :: rest => do
    let x ← elifSem rec cb
    match x.1 with
    | .normal => if x.2 then pure (.normal, true) else firstTaken rec rest
    | o => pure (o, false)

theorem firstTaken_loop (rec : Oracle) (body : M (Out × Bool) → Locals → M (Locals × Sig))
    (g : M (Out × Bool) → Locals → Locals)
    (hb : ∀ m L, body m L = do
      let x ← m
      pure (g m L, match x.1 with
        | .normal => if x.2 then Sig.ret (.val (.bool true)) else .next
        | o => .exc o)) :
    ∀ (elifs : List (Expr × Block)) (L : Locals),
      (do let r ← iLoop body (elifs.map (elifSem rec)) L
          sigT r.2) = firstTaken rec elifs
  | [], L => rfl
  | cb :: rest, L => by
    have ih := firstTaken_loop rec body g hb rest
    simp only [List.map, iLoop, firstTaken, bind_assoc, hb, pure_bind]
    apply bind_congr; intro x
    obtain ⟨o, b⟩ := x
    cases o <;> cases b <;> simp only [Bool.false_eq_true, ↓reduceIte, pure_bind, sigT] <;> first | exact ih _ | rfl

theorem elifList_eq (C : Ctx) (rec : Oracle) (elifs : List (Expr × Block)) :
    elifListSem C rec elifs = firstTaken rec elifs := by
  have hmap : elifs.map (fun cb => handlerT C (elifNode rec cb) accept_ElIfNode) = elifs.map (elifSem rec) := by
    congr 1; funext cb; exact elif_eq C rec cb
  simp only [elifListSem, hmap]
  simp only [handlerT, accept_ElIfListNode, iStmts, iStmt, thenSig_pure, bind_pure, bind_assoc]
  refine firstTaken_loop rec _ (fun m L => ("child", .child m) :: L) ?_ elifs []
  intro m L
  ishape []
  apply bind_congr; intro x
  obtain ⟨o, b⟩ := x
  cases o <;> cases b <;> ishape [asBool]

/-! ### reals; the inventory -/

/-- accept_RealNode is `float(node.value)`: outside the modelled subset (no real values in `Val`); the interpretation says so -/
theorem real_eq (C : Ctx) (nd : Node) : handlerE C nd accept_RealNode = fail "reals are not modelled" := by
  ishape [accept_RealNode]
  rfl

/-! ### relate / unrelate (+ using), exact -/

/-- the variable, when it is found, holds an instance handle -/
def HoldsInst (C : Ctx) (c : Cfg) (x : String) : Prop := ∀ v, lookupVar C x c = some (.ok (v, c)) → ∃ i, v = .inst i

theorem relate_exact (C : Ctx) (rec : Oracle) (a b rel ph : String) (c : Cfg)
    (h : (∃ e, lookupVar C b c = some (.error e)) → HoldsInst C c a) :
    execStep C rec (.relate a b rel (stripTicks ph)) c = handlerS C (relNode a b rel ph "") accept_RelateNode c := by
  simp only [handlerS, sigOut, thenSig_next, thenSig_pure, accept_RelateNode, iStmts, iStmt, iCall, execStep, bind_assoc, pure_bind, nameOf, relNode, strNode,
    Locals.get, Locals.set, List.lookup, pvInst, ↓reduceIte, String.reduceEq, String.reduceBEq, Option.getD_some]
  rcases lookupVar_run C a c with ⟨va, ha⟩ | ⟨e, ha⟩ <;>
  rcases lookupVar_run C b c with ⟨vb, hb⟩ | ⟨e', hb⟩
  · rcases asInst_run va with ⟨i, rfl⟩ | ⟨e, hi⟩ <;> simp only [bind_run, asInst_inst, pure_run, fail_run, *]
  · obtain ⟨i, rfl⟩ := h ⟨e', hb⟩ va ha
    simp only [bind_run, asInst_inst, pure_run, fail_run, *]
  · simp only [bind_run, *]
  · simp only [bind_run, *]

theorem unrelate_exact (C : Ctx) (rec : Oracle) (a b rel ph : String) (c : Cfg)
    (h : (∃ e, lookupVar C b c = some (.error e)) → HoldsInst C c a) :
    execStep C rec (.unrelate a b rel (stripTicks ph)) c = handlerS C (relNode a b rel ph "") accept_UnrelateNode c := by
  simp only [handlerS, sigOut, thenSig_next, thenSig_pure, accept_UnrelateNode, iStmts, iStmt, iCall, execStep, bind_assoc, pure_bind, nameOf, relNode, strNode,
    Locals.get, Locals.set, List.lookup, pvInst, ↓reduceIte, String.reduceEq, String.reduceBEq, Option.getD_some]
  rcases lookupVar_run C a c with ⟨va, ha⟩ | ⟨e, ha⟩ <;>
  rcases lookupVar_run C b c with ⟨vb, hb⟩ | ⟨e', hb⟩
  · rcases asInst_run va with ⟨i, rfl⟩ | ⟨e, hi⟩ <;> simp only [bind_run, asInst_inst, pure_run, fail_run, *]
  · obtain ⟨i, rfl⟩ := h ⟨e', hb⟩ va ha
    simp only [bind_run, asInst_inst, pure_run, fail_run, *]
  · simp only [bind_run, *]
  · simp only [bind_run, *]

theorem relateUsing_exact (C : Ctx) (rec : Oracle) (a b rel ph u : String) (c : Cfg)
    (ha : ((∃ e, lookupVar C b c = some (.error e)) ∨ (∃ e, lookupVar C u c = some (.error e))) → HoldsInst C c a)
    (hb : HoldsInst C c b) :
    execStep C rec (.relateUsing a b rel (stripTicks ph) u) c = handlerS C (relNode a b rel ph u) accept_RelateUsingNode c := by
  simp only [handlerS, sigOut, thenSig_next, thenSig_pure, accept_RelateUsingNode, iStmts, iStmt, iCall, execStep, bind_assoc, pure_bind, nameOf, relNode, strNode,
    Locals.get, Locals.set, List.lookup, pvInst, ↓reduceIte, String.reduceEq, String.reduceBEq, Option.getD_some]
  rcases lookupVar_run C a c with ⟨va, hla⟩ | ⟨e, hla⟩
  · rcases lookupVar_run C b c with ⟨vb, hlb⟩ | ⟨e', hlb⟩
    · obtain ⟨j, rfl⟩ := hb vb hlb
      rcases lookupVar_run C u c with ⟨vu, hlu⟩ | ⟨e'', hlu⟩
      · rcases asInst_run va with ⟨i, rfl⟩ | ⟨e, hi⟩
        · rcases asInst_run vu with ⟨k, rfl⟩ | ⟨e, hk⟩
          · simp only [bind_run, asInst_inst, pure_run, fail_run, modifySt_run, relateUsing, *]
            cases relate C i k rel (stripTicks ph) c.st with
            | error e => rfl
            | ok st1 => cases relate C k j rel (stripTicks ph) st1 <;> rfl
          · simp only [bind_run, asInst_inst, pure_run, fail_run, *]
        · simp only [bind_run, asInst_inst, pure_run, fail_run, *]
      · obtain ⟨i, rfl⟩ := ha (.inr ⟨e'', hlu⟩) va hla
        simp only [bind_run, asInst_inst, pure_run, fail_run, *]
    · obtain ⟨i, rfl⟩ := ha (.inl ⟨e', hlb⟩) va hla
      simp only [bind_run, asInst_inst, pure_run, fail_run, *]
  · simp only [bind_run, *]

theorem unrelateUsing_exact (C : Ctx) (rec : Oracle) (a b rel ph u : String) (c : Cfg)
    (ha : ((∃ e, lookupVar C b c = some (.error e)) ∨ (∃ e, lookupVar C u c = some (.error e))) → HoldsInst C c a)
    (hb : HoldsInst C c b) :
    execStep C rec (.unrelateUsing a b rel (stripTicks ph) u) c = handlerS C (relNode a b rel ph u) accept_UnrelateUsingNode c := by
  simp only [handlerS, sigOut, thenSig_next, thenSig_pure, accept_UnrelateUsingNode, iStmts, iStmt, iCall, execStep, bind_assoc, pure_bind, nameOf, relNode, strNode,
    Locals.get, Locals.set, List.lookup, pvInst, ↓reduceIte, String.reduceEq, String.reduceBEq, Option.getD_some]
  rcases lookupVar_run C a c with ⟨va, hla⟩ | ⟨e, hla⟩
  · rcases lookupVar_run C b c with ⟨vb, hlb⟩ | ⟨e', hlb⟩
    · obtain ⟨j, rfl⟩ := hb vb hlb
      rcases lookupVar_run C u c with ⟨vu, hlu⟩ | ⟨e'', hlu⟩
      · rcases asInst_run va with ⟨i, rfl⟩ | ⟨e, hi⟩
        · rcases asInst_run vu with ⟨k, rfl⟩ | ⟨e, hk⟩
          · simp only [bind_run, asInst_inst, pure_run, fail_run, modifySt_run, unrelateUsing, *]
            cases unrelate C i k rel (stripTicks ph) c.st with
            | error e => rfl
            | ok st1 => cases unrelate C k j rel (stripTicks ph) st1 <;> rfl
          · simp only [bind_run, asInst_inst, pure_run, fail_run, *]
        · simp only [bind_run, asInst_inst, pure_run, fail_run, *]
      · obtain ⟨i, rfl⟩ := ha (.inr ⟨e'', hlu⟩) va hla
        simp only [bind_run, asInst_inst, pure_run, fail_run, *]
    · obtain ⟨i, rfl⟩ := ha (.inl ⟨e', hlb⟩) va hla
      simp only [bind_run, asInst_inst, pure_run, fail_run, *]
  · simp only [bind_run, *]

end Pyx.IShape
