import Proofs.NewInst
import Gen.NewShape

/-!
  C19 source tie: a GENERIC interpreter of the IR that translator/gen_newshape.py extracts from
  `MetaClass.new` (its assignment loops) and from the id generators, and the lemmas showing that
  PyxModel/NewInst.lean equals that interpretation of the IR generated from the current source.
-/
namespace Pyx.NShape
open Pyx.Attr Pyx.NewInst Pyx.Gen.NewShape

/-! ### the assignment loops of MetaClass.new, statement by statement -/

structure IState where
  acc : NewAcc
  pos : Nat                          -- position of the id generator
  defs : List (Name × Val)           -- defaults computed so far
  ok : Bool                          -- `false` once an exception was raised: nothing more is executed

/-- the items a loop visits: (name, type name, value given) -/
def loopItems (c : Cls) (args : List Val) (kwargs : List (Name × Val)) : Source → List (Name × Name × Option Val)
  | .attributes => c.attrs.map (fun a => (a.1, a.2, none))
  | .zipAttributesArgs => (c.attrs.zip args).map (fun p => (p.1.1, p.1.2, some p.2))
  | .kwargs => kwargs.map (fun kw => (kw.1, [], some kw.2))

/-- one pass through a loop body: resolve the name if the loop does, test `name not in referential_attributes`,
    execute the branch taken; defaults are computed (and ids drawn) at the moment their branch is executed -/
def iItem (lp : AssignLoop) (c : Cls) (dflt : DfltFn) (st : IState) (it : Name × Name × Option Val) : IState :=
  if st.ok = false then st else
  let name := if lp.resolvesName then (declMatch c it.1).getD it.1 else it.1
  match (if name ∈ c.refs then lp.whenReferential else lp.whenNotReferential), it.2.2 with
  | .setattr, some v =>
    let r := setattr c st.acc.dict name v
    { st with acc := { st.acc with dict := r.1 }, ok := decide (r.2 = .ok) }
  | .setattrDefault, _ =>
    match dflt it.2.1 st.pos with
    | none => { st with ok := false }                        -- default_value raised MetaException
    | some (v, p) =>
      let r := setattr c st.acc.dict name v
      { acc := { st.acc with dict := r.1 }, pos := p, defs := st.defs ++ [(name, v)], ok := decide (r.2 = .ok) }
  | .storeReferential, some v => { st with acc := { st.acc with refd := dset st.acc.refd name v } }
  | _, _ => st

def iLoop (c : Cls) (dflt : DfltFn) (args : List Val) (kwargs : List (Name × Val)) (st : IState) (lp : AssignLoop) : IState :=
  (loopItems c args kwargs lp.source).foldl (iItem lp c dflt) st

def iNewOne (loops : List AssignLoop) (stream : Nat → Int) (call : Call) (pos : Nat) : Made × Nat :=
  let st := loops.foldl (iLoop call.cls (typedDefault stream) call.args call.kwargs) ⟨⟨[], []⟩, pos, [], true⟩
  ({ dict := st.acc.dict, defs := st.defs, ok := st.ok }, st.pos)

/-! ### the id generators -/

structure GRegs where
  current : Int                      -- self._current
  saved : Option Int                 -- the local `val` (unbound until `val = self._current` ran)
  ret : Option Int                   -- the value returned, if a return statement was executed
  done : Bool                        -- a return statement was executed: nothing after it runs

def iGStmt (readfunc : Int → Int) (r : GRegs) : GStmt → GRegs
  | .drawCurrent => { r with current := readfunc r.current }
  | .saveCurrent => { r with saved := some r.current }
  | .returnCurrent => { r with ret := some r.current, done := true }
  | .returnSaved => { r with ret := r.saved, done := true }       -- an unbound `val` yields no value (NameError)

/-- the statements in order; a `return` ENDS the method (statements after it do not run); a method that ends without a
    return statement returns no value (`ret = none`, Python's None) -/
def iGSteps (readfunc : Int → Int) : List GStmt → GRegs → GRegs
  | [], r => r
  | s :: rest, r =>
    let r' := iGStmt readfunc r s
    if r'.done then r' else iGSteps readfunc rest r'

def iGRun (readfunc : Int → Int) (body : List GStmt) (current : Int) : GRegs :=
  iGSteps readfunc body { current := current, saved := none, ret := none, done := false }

/-! ### equalities -/

theorem foldl_iItem_failed (lp : AssignLoop) (c : Cls) (dflt : DfltFn) : ∀ (items : List (Name × Name × Option Val))
    (st : IState), st.ok = false → items.foldl (iItem lp c dflt) st = st
  | [], _, _ => rfl
  | it :: r, st, h => by
    have : iItem lp c dflt st it = st := by unfold iItem; simp [h]
    rw [List.foldl_cons, this]
    exact foldl_iItem_failed lp c dflt r st h

theorem assignAll_append (c : Cls) : ∀ (l1 l2 : List (Name × Val)) (acc : NewAcc),
    assignAll c acc (l1 ++ l2) =
      match assignAll c acc l1 with
      | (acc', .ok) => assignAll c acc' l2
      | (acc', .metaExc) => (acc', .metaExc)
  | [], _, _ => rfl
  | (n, v) :: r, l2, acc => by
    simp only [List.cons_append, assignAll]
    cases h : assignArg c acc n v with
    | mk acc' res =>
      cases res with
      | ok => simp only; exact assignAll_append c r l2 acc'
      | metaExc => rfl

/-- the defaults loop, executed statement by statement, draws and assigns exactly what the model's
    `computeDefaults` followed by `assignAll` does (declared names distinct after case folding) -/
theorem defaults_loop_eq {c : Cls} (hwf : WF c) (dflt : DfltFn) (lp : AssignLoop) (hr : lp.resolvesName = false)
    (h1 : lp.whenNotReferential = .setattrDefault) (h2 : lp.whenReferential = .nothing) :
    ∀ (attrs : List (Name × Name)) (st : IState), (∀ a ∈ attrs, a.1 ∈ c.names) → st.ok = true →
    (attrs.map (fun a => (a.1, a.2, (none : Option Val)))).foldl (iItem lp c dflt) st =
      { acc := (assignAll c st.acc (computeDefaults dflt c attrs st.pos).1).1,
        pos := (computeDefaults dflt c attrs st.pos).2.1,
        defs := st.defs ++ (computeDefaults dflt c attrs st.pos).1,
        ok := (computeDefaults dflt c attrs st.pos).2.2 }
  | [], st, _, hok => by
    cases st; simp_all [computeDefaults, assignAll]
  | (b, ty) :: rest, st, hmem, hok => by
    have hb : b ∈ c.names := hmem (b, ty) (by simp)
    have hrest : ∀ a ∈ rest, a.1 ∈ c.names := fun a ha => hmem a (by simp [ha])
    simp only [List.map_cons, List.foldl_cons]
    unfold computeDefaults
    by_cases hbr : b ∈ c.refs
    · have hstep : iItem lp c dflt st (b, ty, none) = st := by
        unfold iItem; simp [hok, hr, hbr, h2]
      rw [hstep]
      simp only [hbr, ↓reduceIte]
      exact defaults_loop_eq hwf dflt lp hr h1 h2 rest st hrest hok
    · simp only [hbr, ↓reduceIte]
      cases hd : dflt ty st.pos with
      | none =>
        have hstep : iItem lp c dflt st (b, ty, none) = { st with ok := false } := by
          unfold iItem; simp [hok, hr, hbr, h1, hd]
        rw [hstep, foldl_iItem_failed lp c dflt _ _ rfl]
        cases st; simp [assignAll]
      | some vp =>
        obtain ⟨v, p⟩ := vp
        have hset : setattr c st.acc.dict b v = (dset st.acc.dict b v, .ok) := setattr_plain hwf st.acc.dict v hb hbr rfl
        have hstep : iItem lp c dflt st (b, ty, none) =
            { acc := { st.acc with dict := dset st.acc.dict b v }, pos := p, defs := st.defs ++ [(b, v)], ok := true } := by
          unfold iItem; simp [hok, hr, hbr, h1, hd, hset]
        rw [hstep, defaults_loop_eq hwf dflt lp hr h1 h2 rest _ hrest rfl]
        simp only [assignAll, assignArg, hbr, ↓reduceIte, hset, List.append_assoc, List.singleton_append]

/-- a loop over given values (positional arguments, keywords) is the model's `assignAll` over its items -/
theorem given_loop_eq (c : Cls) (dflt : DfltFn) (lp : AssignLoop) (h1 : lp.whenNotReferential = .setattr)
    (h2 : lp.whenReferential = .storeReferential) :
    ∀ (items : List (Name × Name × Val)) (st : IState), st.ok = true →
    (items.map (fun it => (it.1, it.2.1, some it.2.2))).foldl (iItem lp c dflt) st =
      { st with
        acc := (assignAll c st.acc (items.map fun it =>
          ((if lp.resolvesName then (declMatch c it.1).getD it.1 else it.1), it.2.2))).1,
        ok := decide ((assignAll c st.acc (items.map fun it =>
          ((if lp.resolvesName then (declMatch c it.1).getD it.1 else it.1), it.2.2))).2 = .ok) }
  | [], st, hok => by cases st; simp_all [assignAll]
  | (n, ty, v) :: rest, st, hok => by
    simp only [List.map_cons, List.foldl_cons, assignAll]
    generalize hname : (if lp.resolvesName then (declMatch c n).getD n else n) = name
    by_cases hnr : name ∈ c.refs
    · have hstep : iItem lp c dflt st (n, ty, some v) = { st with acc := { st.acc with refd := dset st.acc.refd name v } } := by
        unfold iItem; simp [hok, hname, hnr, h2]
      rw [hstep, given_loop_eq c dflt lp h1 h2 rest
        { st with acc := { st.acc with refd := dset st.acc.refd name v } } hok]
      simp [assignArg, hnr]
    · cases hs : setattr c st.acc.dict name v with
      | mk d res =>
        have hstep : iItem lp c dflt st (n, ty, some v) =
            { st with acc := { st.acc with dict := d }, ok := decide (res = .ok) } := by
          unfold iItem; simp [hok, hname, hnr, h1, hs]
        rw [hstep]
        cases res with
        | ok =>
          rw [given_loop_eq c dflt lp h1 h2 rest
            { st with acc := { st.acc with dict := d }, ok := decide (SetRes.ok = SetRes.ok) } (by simp)]
          simp [assignArg, hnr, hs]
        | metaExc =>
          rw [foldl_iItem_failed lp c dflt _
            { st with acc := { st.acc with dict := d }, ok := decide (SetRes.metaExc = SetRes.ok) } (by simp)]
          simp [assignArg, hnr, hs]

theorem defs_assign_ok {c : Cls} (hwf : WF c) (dflt : DfltFn) (acc : NewAcc) (pos : Nat) :
    (assignAll c acc (computeDefaults dflt c c.attrs pos).1).2 = .ok := by
  have hres : ∀ it ∈ (computeDefaults dflt c c.attrs pos).1, Resolved c it.1 := by
    intro it hi
    obtain ⟨n, v⟩ := it
    obtain ⟨_, ty, _, _, hm, _⟩ := computeDefaults_mem _ _ _ _ n v hi
    exact Or.inl (List.mem_map.mpr ⟨(n, ty), hm, rfl⟩)
  obtain ⟨rd, h⟩ := assignAll_resolved hwf _ acc hres
  rw [h]

theorem foldl_iLoop_failed (c : Cls) (dflt : DfltFn) (args : List Val) (kwargs : List (Name × Val)) :
    ∀ (loops : List AssignLoop) (st : IState), st.ok = false → loops.foldl (iLoop c dflt args kwargs) st = st
  | [], _, _ => rfl
  | lp :: r, st, h => by
    have : iLoop c dflt args kwargs st lp = st := foldl_iItem_failed lp c dflt _ st h
    rw [List.foldl_cons, this]
    exact foldl_iLoop_failed c dflt args kwargs r st h

/-- `MetaClass.new` of the model = the three loops of the source, executed statement by statement -/
theorem newOne_eq (stream : Nat → Int) (call : Call) (pos : Nat) (hwf : WF call.cls) :
    newOne stream call pos = iNewOne newLoops stream call pos := by
  unfold iNewOne newLoops
  rw [List.foldl_cons]
  -- loop 1: defaults
  have h0 : iLoop call.cls (typedDefault stream) call.args call.kwargs ⟨⟨[], []⟩, pos, [], true⟩
      { source := .attributes, resolvesName := false, whenNotReferential := .setattrDefault, whenReferential := .nothing } =
      { acc := (assignAll call.cls ⟨[], []⟩ (computeDefaults (typedDefault stream) call.cls call.cls.attrs pos).1).1,
        pos := (computeDefaults (typedDefault stream) call.cls call.cls.attrs pos).2.1,
        defs := (computeDefaults (typedDefault stream) call.cls call.cls.attrs pos).1,
        ok := (computeDefaults (typedDefault stream) call.cls call.cls.attrs pos).2.2 } := by
    unfold iLoop loopItems
    rw [defaults_loop_eq hwf (typedDefault stream) _ rfl rfl rfl call.cls.attrs ⟨⟨[], []⟩, pos, [], true⟩
      (fun a ha => List.mem_map.mpr ⟨a, ha, rfl⟩) rfl]
    simp
  rw [h0]
  unfold newOne
  cases hok : (computeDefaults (typedDefault stream) call.cls call.cls.attrs pos).2.2 with
  | false =>
    -- an unknown type: the remaining loops are not executed
    rw [foldl_iLoop_failed _ _ _ _ _ _ rfl]
    simp [hok]
  | true =>
    have hdefs := defs_assign_ok hwf (typedDefault stream) ⟨[], []⟩ pos
    cases hA : assignAll call.cls ⟨[], []⟩ (computeDefaults (typedDefault stream) call.cls call.cls.attrs pos).1 with
    | mk accD resD =>
      have hresD : resD = .ok := by rw [hA] at hdefs; exact hdefs
      subst hresD
      -- loop 2: positional values
      rw [List.foldl_cons]
      have hzitems : loopItems call.cls call.args call.kwargs .zipAttributesArgs =
          ((call.cls.attrs.zip call.args).map (fun p => (p.1.1, p.1.2, p.2))).map (fun it => (it.1, it.2.1, some it.2.2)) := by
        simp [loopItems, List.map_map, Function.comp_def]
      have hzip : ((call.cls.attrs.zip call.args).map (fun p => (p.1.1, p.1.2, p.2))).map
          (fun it => ((if false = true then (declMatch call.cls it.1).getD it.1 else it.1), it.2.2)) =
          call.cls.names.zip call.args := by
        simp only [Bool.false_eq_true, ↓reduceIte, List.map_map, Function.comp_def, Cls.names]
        rw [List.zip_map_left]
        simp [List.map_map, Function.comp_def]
      have h1 : iLoop call.cls (typedDefault stream) call.args call.kwargs
          { acc := accD, pos := (computeDefaults (typedDefault stream) call.cls call.cls.attrs pos).2.1,
            defs := (computeDefaults (typedDefault stream) call.cls call.cls.attrs pos).1, ok := true }
          { source := .zipAttributesArgs, resolvesName := false, whenNotReferential := .setattr, whenReferential := .storeReferential } =
          { acc := (assignAll call.cls accD (call.cls.names.zip call.args)).1,
            pos := (computeDefaults (typedDefault stream) call.cls call.cls.attrs pos).2.1,
            defs := (computeDefaults (typedDefault stream) call.cls call.cls.attrs pos).1,
            ok := decide ((assignAll call.cls accD (call.cls.names.zip call.args)).2 = .ok) } := by
        unfold iLoop
        rw [hzitems, given_loop_eq _ _ _ rfl rfl _ _ rfl, hzip]
      rw [h1]
      -- the model's single assignAll over the concatenation, split
      have hsplit := assignAll_append call.cls (computeDefaults (typedDefault stream) call.cls call.cls.attrs pos).1
        (call.cls.names.zip call.args ++ call.kwargs.map (resolveKw call.cls)) ⟨[], []⟩
      have hsplit2 := assignAll_append call.cls (call.cls.names.zip call.args) (call.kwargs.map (resolveKw call.cls)) accD
      rw [hA] at hsplit
      simp only at hsplit
      simp only [hok, ↓reduceIte, newItems, List.append_assoc, hsplit, hsplit2]
      cases hB : assignAll call.cls accD (call.cls.names.zip call.args) with
      | mk accZ resZ =>
        cases resZ with
        | metaExc =>
          rw [foldl_iLoop_failed _ _ _ _ _ _ (by simp)]
        | ok =>
          -- loop 3: keywords, resolved to the declared names
          rw [List.foldl_cons, List.foldl_nil]
          have hkitems : loopItems call.cls call.args call.kwargs .kwargs =
              (call.kwargs.map (fun kw => (kw.1, ([] : Name), kw.2))).map (fun it => (it.1, it.2.1, some it.2.2)) := by
            simp [loopItems, List.map_map, Function.comp_def]
          have hkw : (call.kwargs.map (fun kw => (kw.1, ([] : Name), kw.2))).map
              (fun it => ((if true = true then (declMatch call.cls it.1).getD it.1 else it.1), it.2.2)) =
              call.kwargs.map (resolveKw call.cls) := by
            simp [List.map_map, Function.comp_def, resolveKw]
          unfold iLoop
          rw [hkitems, given_loop_eq _ _ _ rfl rfl _ _ (by simp), hkw]

/-! the integer generator -/

theorem intGen_eq (g : IntGen) :
    IntGen.init = { current := (iGRun (fun cur => cur + intIncrement) genInit intStart).current } ∧
    (iGRun (fun cur => cur + intIncrement) genPeek g.current).ret = some (IntGen.peek g) ∧
    (iGRun (fun cur => cur + intIncrement) genPeek g.current).current = g.current ∧
    (iGRun (fun cur => cur + intIncrement) genNext g.current).ret = some (IntGen.next g).1 ∧
    (IntGen.next g).2 = { current := (iGRun (fun cur => cur + intIncrement) genNext g.current).current } :=
  ⟨rfl, rfl, rfl, rfl, rfl⟩

end Pyx.NShape
