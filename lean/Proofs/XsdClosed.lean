import Proofs.XsdShape

/-!
  C20 source tie, continued (additive to Proofs/XsdShape.lean; nothing there is changed):

  * `selfRec` — the calls of a SELF-recursive function of the module EXECUTED by the generic interpreter (no oracle): depth `n`
    is the number of nested activations allowed, a call of any other name (and a call beyond the depth) is STUCK.
    `get_refered_attribute_rec_eq`: the body of get_refered_attribute, run that way, returns `referred d a` for EVERY attribute at
    every depth >= 2 (R113 lands on an O_BATTR row, whose O_ATTR is not referential: the recursion ends after one hop).
  * `calleesOf` — the names a function body calls; `build_struct_type` is called by no function of the module.
  * `interpMain` — the generic meaning of the `MainShape` record (what main selects, what it passes to build_schema, how it
    exits without a component).
-/
set_option linter.unusedSimpArgs false
set_option linter.unusedVariables false
namespace Pyx.XShape
open Pyx.Extract Pyx.Gen.XsdShape

/-! ### the recursion of get_refered_attribute, executed -/

def selfRec (d : ClassDiagram) (fuel : Nat) (f : Fn) : Nat → String → List V → Option V
  | 0, _, _ => none
  | n + 1, fn, args => if fn = f.name then run d (selfRec d fuel f n) fuel f args else none

/-- an attribute that is not referential: one activation, no call -/
theorem refered_rec_base (d : ClassDiagram) (fuel n : Nat) (a : Attr) (h : ∀ c b, a.kind ≠ .ref c b) :
    selfRec d fuel get_refered_attribute (n + 1) "get_refered_attribute" [.ent (.attr a)] = some (.ent (.attr a)) := by
  cases hk : a.kind with
  | ref c b => exact absurd hk (h c b)
  | base dt => xshape [selfRec, get_refered_attribute, hk]
  | derived dt => xshape [selfRec, get_refered_attribute, hk]

theorem get_refered_attribute_rec_eq (d : ClassDiagram) (fuel n : Nat) (a : Attr) :
    selfRec d fuel get_refered_attribute (n + 2) "get_refered_attribute" [.ent (.attr a)] = some (.ent (.attr (referred d a))) := by
  cases hk : a.kind with
  | base dt =>
    rw [refered_rec_base d fuel (n + 1) a (by intro c b h; rw [hk] at h; cases h)]
    simp only [referred, hk]
  | derived dt =>
    rw [refered_rec_base d fuel (n + 1) a (by intro c b h; rw [hk] at h; cases h)]
    simp only [referred, hk]
  | ref c b =>
    cases hl : (findClass d c).bind (fun k => k.findAttr b) with
    | none => xshape [selfRec, get_refered_attribute, referred, hk, hl]
    | some ba =>
      cases hb : ba.kind with
      | ref c' b' => xshape [selfRec, get_refered_attribute, referred, hk, hl, hb]
      | base dt =>
        have hf := refered_rec_base d fuel n ba (by intro c b h; rw [hb] at h; cases h)
        simp only [get_refered_attribute] at hf
        rw [selfRec]
        xshape [get_refered_attribute, referred, hk, hl, hb, hf]
      | derived dt =>
        have hf := refered_rec_base d fuel n ba (by intro c b h; rw [hb] at h; cases h)
        simp only [get_refered_attribute] at hf
        rw [selfRec]
        xshape [get_refered_attribute, referred, hk, hl, hb, hf]

/-! ### the call graph of the module, read off the IR -/

def exprCalls : Expr → List String
  | .call fn _ => [fn]
  | .inRange e _ _ => exprCalls e
  | .eqStr e _ => exprCalls e
  | .and_ a b => exprCalls a ++ exprCalls b
  | .not_ a => exprCalls a
  | .isNotNone e => exprCalls e
  | _ => []

mutual
  def stmtCalls : Stmt → List String
    | .assign _ e => exprCalls e
    | .lambda _ _ b => exprCalls b
    | .element _ _ attrs => attrs.flatMap (fun p => exprCalls p.2)
    | .subElement _ _ _ attrs => attrs.flatMap (fun p => exprCalls p.2)
    | .append _ e => exprCalls e
    | .setAttr _ _ e => exprCalls e
    | .log _ => []
    | .ifThen c t e => exprCalls c ++ stmtsCalls t ++ stmtsCalls e
    | .whileDo c b => exprCalls c ++ stmtsCalls b
    | .forIn _ e b => exprCalls e ++ stmtsCalls b
    | .ret e => exprCalls e
  def stmtsCalls : List Stmt → List String
    | [] => []
    | s :: r => stmtCalls s ++ stmtsCalls r
end

/-- the names a function calls (own functions and ooaofooa.*), in source order, each once -/
def calleesOf (f : Fn) : List String := (stmtsCalls f.body).eraseDups

/-! ### what `main` does with the selected component -/

inductive MainOut where
  | exit (code : Nat)          -- sys.exit(code), nothing written
  | written (t : XmlTree)      -- the tree handed to ET.tostring / prettify / f.write

/-- the generic meaning of a `MainShape`: `m.<selectFn>('<selectClass>', lambda inst: inst.<selectField> == opts.component)`
    over the C_C rows (any other class / field / selector: stuck), `build_schema(<buildArgs…>)` with `m` and `c_c` bound the way
    main binds them, `sys.exit(missingExit)` without a hit -/
def interpMain (d : ClassDiagram) (fuel : Nat) (s : MainShape) (name : String) : Option MainOut :=
  if s.selectClass = "C_C" ∧ s.selectFn = "select_any" then
    match ((d.containers.filter (·.isComp)).map Ent.cc).find? (fun e => match fieldOf e s.selectField with | some (.str t) => t == name | _ => false) with
    | none => some (.exit s.missingExit)
    | some e =>
      match lookupAll [("m", .model), ("c_c", .ent e)] s.buildArgs with
      | some args =>
        match interp d fuel build_schema args with
        | some (.tree t) => some (.written t)
        | _ => none
      | none => none
  else none

theorem interpMain_find (d : ClassDiagram) (name : String) :
    ((d.containers.filter (·.isComp)).map Ent.cc).find? (fun e => match fieldOf e "name" with | some (.str t) => t == name | _ => false) =
      (d.containers.find? (fun k => k.isComp && k.name == name)).map Ent.cc := by
  rw [List.find?_map, List.find?_filter]
  congr 1
  have : (fun a : Container => decide (a.isComp = true ∧ ((fun e => match fieldOf e "name" with | some (V.str t) => t == name | _ => false) ∘ Ent.cc) a = true)) =
      (fun k => k.isComp && k.name == name) := by
    funext k
    simp [fieldOf, Function.comp]
    cases k.isComp <;> simp [BEq.beq]
  rw [this]

/-! ### counting declarations -/

theorem inj_of_nodup_map {α β : Type} (f : α → β) : ∀ (l : List α), (l.map f).Nodup → ∀ a ∈ l, ∀ b ∈ l, f a = f b → a = b
  | [], _, a, ha, _, _, _ => by cases ha
  | x :: xs, hn, a, ha, b, hb, hab => by
    simp only [List.map_cons, List.nodup_cons, List.mem_map, not_exists, not_and] at hn
    rcases List.mem_cons.mp ha with rfl | ha' <;> rcases List.mem_cons.mp hb with rfl | hb'
    · rfl
    · exact absurd hab.symm (hn.1 b hb')
    · exact absurd hab (hn.1 a ha')
    · exact inj_of_nodup_map f xs hn.2 a ha' b hb' hab

theorem nodup_map_some {β : Type} {m : List β} (h : m.Nodup) : (m.map some).Nodup := by
  unfold List.Nodup at *
  rw [List.pairwise_map]
  exact h.imp (fun hab h' => hab (Option.some.inj h'))

/-- names identify the rows (`Nodup`): a row of the list is named exactly once among the rows kept by `p` if `p` keeps it, and
    not at all otherwise -/
theorem count_names_filter {α : Type} (f : α → String) (p : α → Bool) (l : List α) (hn : (l.map f).Nodup) (c : α) (hc : c ∈ l) :
    ((l.filter p).map (fun x => some (f x))).count (some (f c)) = if p c = true then 1 else 0 := by
  have nd : ((l.filter p).map (fun x => some (f x))).Nodup := by
    have h1 : ((l.filter p).map f).Nodup := ((List.filter_sublist (p := p) (l := l)).map f).nodup hn
    have := nodup_map_some h1
    rwa [List.map_map] at this
  rw [nd.count]
  by_cases hp : p c = true
  · rw [if_pos hp, if_pos]
    exact List.mem_map.mpr ⟨c, List.mem_filter.mpr ⟨hc, hp⟩, rfl⟩
  · rw [if_neg hp, if_neg]
    intro hm
    obtain ⟨c', hc', he⟩ := List.mem_map.mp hm
    have hf := List.mem_filter.mp hc'
    have : c' = c := inj_of_nodup_map f l hn c' hf.1 c hc (Option.some.inj he)
    rw [this] at hf
    exact hp hf.2

end Pyx.XShape
