import Proofs.ExtractRelEdits
import Proofs.ExtractAttrEdits

/-!
  C14 — all edit kinds together, preservation of well-formedness, edit scripts.
-/

namespace Pyx.Extract

/-- when an edit is applicable (the sites the harness generates):
    * rename: the new name is not the name of another attribute of the class
    * retype (of a base / derived attribute): the old and the new data type are supported ones
    * reorder: the new order is a permutation of the class's attributes -/
def EditOk (d : ClassDiagram) : Edit → Prop
  | .renameAttr c a new => ∀ kc, findClass d c = some kc → ∀ x ∈ kc.attrs, x.name = new → x.id = a
  | .retypeAttr c a dt => ∀ kc xa, findClass d c = some kc → kc.findAttr a = some xa →
      (∀ c' b, xa.kind ≠ .ref c' b) → (dtTypeName d.dts dt).isSome = true ∧ (attrTy d xa).isSome = true
  | .reorderAttrs c perm => ∀ kc, findClass d c = some kc → perm.Perm (kc.attrs.map (·.id))
  | _ => True

theorem edit_commutes_all {d : ClassDiagram} (wf : WF d) (e : Edit) (ok : EditOk d e)
    (comp : Option Nat) (drv : Bool) :
    extract (applyEdit e d) comp drv = schemaEdit (resolve d comp drv e) (extract d comp drv) := by
  cases e with
  | renameAttr c a new => exact rename_commutes wf c a new comp drv
  | retypeAttr c a dt => exact retype_commutes wf c a dt comp drv ok
  | reorderAttrs c perm => exact reorder_commutes wf c perm comp drv ok
  | setMult r sel v => exact setMult_commutes wf r sel v comp drv
  | setCond r sel v => exact setCond_commutes wf r sel v comp drv
  | setPhrase r sel v => exact setPhrase_commutes wf r sel v comp drv
  | moveClass c p => exact moveClass_commutes wf c p comp drv
  | moveRel r p => exact moveRel_commutes wf r p comp drv

/-! ### edits keep the diagram well-formed -/

theorem nodup_map_of_inj_on {α β : Type} {f : α → β} {l : List α} (nd : l.Nodup)
    (inj : ∀ x ∈ l, ∀ y ∈ l, f x = f y → x = y) : (l.map f).Nodup := by
  induction l with
  | nil => simp
  | cons a t ih =>
    simp only [List.nodup_cons] at nd
    simp only [List.map_cons, List.nodup_cons]
    constructor
    · intro hm
      obtain ⟨y, hy, hfy⟩ := List.mem_map.mp hm
      have := inj y (by simp [hy]) a (by simp) hfy
      exact nd.1 (this ▸ hy)
    · exact ih nd.2 (fun x hx y hy h => inj x (by simp [hx]) y (by simp [hy]) h)

theorem nodup_of_nodup_map {α β : Type} (f : α → β) {l : List α} (nd : (l.map f).Nodup) : l.Nodup := by
  induction l with
  | nil => simp
  | cons a t ih =>
    simp only [List.map_cons, List.nodup_cons] at nd
    simp only [List.nodup_cons]
    exact ⟨fun h => nd.1 (List.mem_map_of_mem h), ih nd.2⟩

/-- a class update that keeps Obj_ID and key letters and keeps the attributes' uniqueness keeps `WF` -/
theorem wf_mapClasses {d : ClassDiagram} (wf : WF d) {g : Class → Class}
    (hid : ∀ k, (g k).id = k.id) (hkl : ∀ k, (g k).kl = k.kl)
    (hai : ∀ k ∈ d.classes, ((g k).attrs.map (·.id)).Nodup)
    (han : ∀ k ∈ d.classes, ((g k).attrs.map (·.name)).Nodup) :
    WF { d with classes := d.classes.map g } where
  clsIds := by
    simp only [List.map_map]
    have : ((fun (k : Class) => k.id) ∘ g) = fun k => k.id := by funext k; exact hid k
    rw [this]; exact wf.clsIds
  kls := by
    simp only [List.map_map]
    have : ((fun (k : Class) => k.kl) ∘ g) = fun k => k.kl := by funext k; exact hkl k
    rw [this]; exact wf.kls
  attrIds := by
    intro c hc
    obtain ⟨k, hk, rfl⟩ := List.mem_map.mp hc
    exact hai k hk
  attrNames := by
    intro c hc
    obtain ⟨k, hk, rfl⟩ := List.mem_map.mp hc
    exact han k hk
  relIds := wf.relIds
  relNumbs := wf.relNumbs

theorem wf_mapRels {d : ClassDiagram} (wf : WF d) {g : Rel → Rel}
    (hid : ∀ k, (g k).id = k.id) (hnumb : ∀ k, (g k).numb = k.numb) :
    WF { d with rels := d.rels.map g } where
  clsIds := wf.clsIds
  kls := wf.kls
  attrIds := wf.attrIds
  attrNames := wf.attrNames
  relIds := by
    simp only [List.map_map]
    have : ((fun (k : Rel) => k.id) ∘ g) = fun k => k.id := by funext k; exact hid k
    rw [this]; exact wf.relIds
  relNumbs := by
    simp only [List.map_map]
    have : ((fun (k : Rel) => k.numb) ∘ g) = fun k => k.numb := by funext k; exact hnumb k
    rw [this]; exact wf.relNumbs

theorem applyEdit_wf {d : ClassDiagram} (wf : WF d) (e : Edit) (ok : EditOk d e) : WF (applyEdit e d) := by
  cases e with
  | renameAttr c a new =>
    show WF { d with classes := d.classes.map (rnG c a new) }
    apply wf_mapClasses wf rnG_keepsId
    · intro k; unfold rnG Class.mapAttr; split <;> rfl
    · intro k hk
      unfold rnG Class.mapAttr
      split
      · simp only [List.map_map]
        have : ((fun (x : Attr) => x.id) ∘ fun x => if x.id == a then { x with name := new } else x) =
            fun (x : Attr) => x.id := by
          funext x; simp only [Function.comp]; split <;> rfl
        rw [this]; exact wf.attrIds k hk
      · exact wf.attrIds k hk
    · intro k hk
      unfold rnG Class.mapAttr
      split
      · rename_i hkc
        have hkc' : k.id = c := by simpa using hkc
        have hfc : findClass d c = some k := by rw [← hkc']; exact findClass_of_mem wf hk
        simp only [List.map_map]
        apply nodup_map_of_inj_on (nodup_of_nodup_map _ (wf.attrIds k hk))
        intro x hx y hy hxy
        simp only [Function.comp] at hxy
        by_cases hxa : x.id = a <;> by_cases hya : y.id = a
        · exact eq_of_key_eq (fun (z : Attr) => z.id) (wf.attrIds k hk) hx hy (by rw [hxa, hya])
        · simp [hxa, hya] at hxy
          exact absurd (ok k hfc y hy hxy.symm) hya
        · simp [hxa, hya] at hxy
          exact absurd (ok k hfc x hx hxy) hxa
        · simp [hxa, hya] at hxy
          exact eq_of_key_eq (fun (z : Attr) => z.name) (wf.attrNames k hk) hx hy hxy
      · exact wf.attrNames k hk
  | retypeAttr c a dt =>
    show WF { d with classes := d.classes.map (rtG c a dt) }
    apply wf_mapClasses wf rtG_keepsId rtG_kl
    · intro k hk
      unfold rtG
      split
      · simp only [List.map_map]
        have : ((fun (x : Attr) => x.id) ∘ rtH a dt) = fun (x : Attr) => x.id := by funext x; exact rtH_id x
        rw [this]; exact wf.attrIds k hk
      · exact wf.attrIds k hk
    · intro k hk
      unfold rtG
      split
      · simp only [List.map_map]
        have : ((fun (x : Attr) => x.name) ∘ rtH a dt) = fun (x : Attr) => x.name := by funext x; exact rtH_name x
        rw [this]; exact wf.attrNames k hk
      · exact wf.attrNames k hk
  | reorderAttrs c perm =>
    show WF { d with classes := d.classes.map (roG c perm) }
    have hperm : ∀ k ∈ d.classes, k.id = c → (perm.filterMap k.findAttr).Perm k.attrs := by
      intro k hk hkc
      have hfc : findClass d c = some k := by rw [← hkc]; exact findClass_of_mem wf hk
      exact reorder_perm (wf.attrIds k hk) (ok k hfc)
    apply wf_mapClasses wf roG_keepsId roG_kl
    · intro k hk
      unfold roG
      split
      · rename_i hkc
        exact ((hperm k hk (by simpa using hkc)).map _).nodup_iff.mpr (wf.attrIds k hk)
      · exact wf.attrIds k hk
    · intro k hk
      unfold roG
      split
      · rename_i hkc
        exact ((hperm k hk (by simpa using hkc)).map _).nodup_iff.mpr (wf.attrNames k hk)
      · exact wf.attrNames k hk
  | setMult r sel v => exact wf_mapRels wf (fun k => by split <;> rfl) (fun k => by split <;> rfl)
  | setCond r sel v => exact wf_mapRels wf (fun k => by split <;> rfl) (fun k => by split <;> rfl)
  | setPhrase r sel v => exact wf_mapRels wf (fun k => by split <;> rfl) (fun k => by split <;> rfl)
  | moveClass c p =>
    show WF { d with classes := d.classes.map (mvG c p) }
    apply wf_mapClasses wf mvG_keepsId mvG_kl
    · intro k hk; rw [mvG_attrs]; exact wf.attrIds k hk
    · intro k hk; rw [mvG_attrs]; exact wf.attrNames k hk
  | moveRel r p => exact wf_mapRels wf (fun k => by split <;> rfl) (fun k => by split <;> rfl)

/-! ### scripts -/

/-- every edit of the script is applicable to the diagram it is applied to -/
def ScriptOk : ClassDiagram → List Edit → Prop
  | _, [] => True
  | d, e :: es => EditOk d e ∧ ScriptOk (applyEdit e d) es

theorem applyEdits_cons (e : Edit) (es : List Edit) (d : ClassDiagram) :
    applyEdits (e :: es) d = applyEdits es (applyEdit e d) := rfl

theorem schemaEdits_cons (e : SEdit) (es : List SEdit) (s : Schema) :
    schemaEdits (e :: es) s = schemaEdits es (schemaEdit e s) := rfl

theorem script_commutes {d : ClassDiagram} (wf : WF d) (es : List Edit) (ok : ScriptOk d es)
    (comp : Option Nat) (drv : Bool) :
    extract (applyEdits es d) comp drv = schemaEdits (resolveAll d comp drv es) (extract d comp drv) := by
  induction es generalizing d with
  | nil => rfl
  | cons e es ih =>
    rw [applyEdits_cons]
    show _ = schemaEdits (resolve d comp drv e :: resolveAll (applyEdit e d) comp drv es) _
    rw [schemaEdits_cons, ← edit_commutes_all wf e ok.1 comp drv]
    exact ih (applyEdit_wf wf e ok.1) ok.2

theorem script_wf {d : ClassDiagram} (wf : WF d) (es : List Edit) (ok : ScriptOk d es) : WF (applyEdits es d) := by
  induction es generalizing d with
  | nil => exact wf
  | cons e es ih =>
    rw [applyEdits_cons]
    exact ih (applyEdit_wf wf e ok.1) ok.2

end Pyx.Extract
