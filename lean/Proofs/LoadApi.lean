import PyxModel.LoadApi
import Proofs.LoadPerm

/-! Helper lemmas for C03, part 5: the API route (`MetaClass.new` with its batch relate). -/

namespace Pyx.Load

/-! ### growing a population by one row -/

theorem enumFrom_append {α : Type} (n : Nat) (l1 l2 : List α) :
    enumFrom n (l1 ++ l2) = enumFrom n l1 ++ enumFrom (n + l1.length) l2 := by
  induction l1 generalizing n with
  | nil => simp [enumFrom]
  | cons x xs ih =>
    have e : n + 1 + xs.length = n + (xs.length + 1) := by omega
    simp only [List.cons_append, enumFrom, ih, List.length_cons, e]

theorem selectIdx_append_singleton {α : Type} (n : Nat) (l : List α) (x : α) (c : α → Bool) :
    selectIdx n (l ++ [x]) c = selectIdx n l c ++ (if c x then [n + l.length] else []) := by
  unfold selectIdx
  rw [enumFrom_append, List.filterMap_append]
  simp only [enumFrom, List.filterMap_cons, List.filterMap_nil]
  by_cases h : c x <;> simp [h]

theorem mem_selectIdx_lt {α : Type} {l : List α} {c : α → Bool} {i : Nat} (h : i ∈ selectIdx 0 l c) : i < l.length := by
  obtain ⟨x, hx, _⟩ := (mem_selectIdx_zero l c i).mp h
  exact (List.getElem?_eq_some_iff.mp hx).1

/-- the links after one more referring row `s` (position `i`) has been related to the referred rows `hits` -/
def addSource (L : Links) (i : Nat) (hits : List Nat) : Links :=
  ⟨fun j => if j ∈ hits then L.src j ++ [i] else L.src j, fun z => if z = i then hits else L.tgt z⟩

theorem nestedJoin_snoc_src (a : AssocStmt) (S T : List Row) (s : Row) :
    nestedJoin a (S ++ [s]) T = addSource (nestedJoin a S T) S.length (selectIdx 0 T (fun t => matchesB a s t)) := by
  apply Links.ext'
  · intro j
    simp only [nestedJoin, addSource]
    cases hj : T[j]? with
    | none =>
      have : j ∉ selectIdx 0 T (fun t => matchesB a s t) := by
        intro hm
        have := mem_selectIdx_lt hm
        have := (List.getElem?_eq_none_iff.mp hj)
        omega
      simp [this]
    | some t =>
      simp only
      have hsel := selectIdx_append_singleton 0 S s (fun x => matchesB a x t)
      unfold selectIdx at hsel
      rw [hsel]
      have hmem : j ∈ selectIdx 0 T (fun t => matchesB a s t) ↔ matchesB a s t = true := by
        rw [mem_selectIdx_zero]
        constructor
        · rintro ⟨x, hx, hc⟩; rw [hj] at hx; cases hx; exact hc
        · intro hc; exact ⟨t, hj, hc⟩
      by_cases hm : matchesB a s t
      · simp [hm, hmem.mpr hm]
      · have : j ∉ selectIdx 0 T (fun t => matchesB a s t) := fun h => hm (hmem.mp h)
        simp [hm, this]
  · intro z
    simp only [nestedJoin, addSource]
    by_cases hz : z = S.length
    · subst hz
      simp [selectIdx]
    · simp only [hz, if_false]
      by_cases hlt : z < S.length
      · rw [List.getElem?_append_left hlt]
      · have h1 : (S ++ [s])[z]? = none := by
          rw [List.getElem?_eq_none_iff]; simp; omega
        have h2 : S[z]? = none := by
          rw [List.getElem?_eq_none_iff]; omega
        simp [h1, h2]

theorem nestedJoin_nil_src (a : AssocStmt) (T : List Row) : nestedJoin a [] T = Links.empty := by
  apply Links.ext'
  · intro j
    simp only [nestedJoin, Links.empty]
    cases T[j]? <;> simp [enumFrom]
  · intro z
    simp [nestedJoin, Links.empty]

/-! ### stored (stripped) rows still carry the identifying values -/

theorem get_stripRow (refs : List String) (r : Row) (x : String) (h : x ∉ refs) :
    Row.get (stripRow refs r) x = Row.get r x := by
  unfold Row.get stripRow
  induction r with
  | nil => rfl
  | cons p ps ih =>
    obtain ⟨k, v⟩ := p
    by_cases hk : k = x
    · subst hk
      simp [List.filter_cons, h, List.lookup_cons]
    · have hkx : (x == k) = false := by
        simpa using fun e => hk e.symm
      by_cases hr : refs.contains k
      · simp only [List.filter_cons, hr, Bool.not_true, Bool.false_eq_true, if_false, List.lookup_cons, hkx]
        exact ih
      · simp only [List.filter_cons, hr, Bool.not_false, if_true, List.lookup_cons, hkx]
        exact ih

/-! ### `Link.connect` with the cardinality check -/

theorem connectChecked_fresh (m : Nat → List Nat) (many : Bool) (x y : Nat) (hy : y ∉ m x)
    (hc : many = false → m x = []) :
    connectChecked m many x y = some (fun z => if z = x then m x ++ [y] else m z) := by
  unfold connectChecked
  simp only [hy, if_false]
  by_cases hm : many = false
  · simp [hc hm]
  · simp [hm]

end Pyx.Load

namespace Pyx.Load

/-! ### `updateAt` -/

theorem map_fst_updateAt {α β : Type} (l : List (α × β)) (n : Nat) (f : α × β → α × β)
    (h : ∀ p, (f p).1 = p.1) : (updateAt l n f).map (·.1) = l.map (·.1) := by
  induction l generalizing n with
  | nil => rfl
  | cons x xs ih =>
    cases n with
    | zero => simp [updateAt, h]
    | succ n => simp [updateAt, ih]

theorem getElem?_updateAt_self {α : Type} (l : List α) (n : Nat) (f : α → α) (x : α) (h : l[n]? = some x) :
    (updateAt l n f)[n]? = some (f x) := by
  induction l generalizing n with
  | nil => simp at h
  | cons y ys ih =>
    cases n with
    | zero => simp at h; simp [updateAt, h]
    | succ n => simp at h; simp [updateAt, ih n h]

theorem getElem?_updateAt_ne {α : Type} (l : List α) (n k : Nat) (f : α → α) (h : k ≠ n) :
    (updateAt l n f)[k]? = l[k]? := by
  induction l generalizing n k with
  | nil => rfl
  | cons y ys ih =>
    cases n with
    | zero =>
      cases k with
      | zero => exact absurd rfl h
      | succ k => simp [updateAt]
    | succ n =>
      cases k with
      | zero => simp [updateAt]
      | succ k => simp [updateAt]; exact ih n k (by omega)

theorem updateAt_updateAt {α : Type} (l : List α) (n : Nat) (f g : α → α) :
    updateAt (updateAt l n f) n g = updateAt l n (g ∘ f) := by
  induction l generalizing n with
  | nil => rfl
  | cons y ys ih =>
    cases n with
    | zero => rfl
    | succ n => simp [updateAt, ih]

theorem updateAt_fix {α : Type} (l : List α) (n : Nat) (f : α → α) (x : α) (h : l[n]? = some x) (hf : f x = x) :
    updateAt l n f = l := by
  induction l generalizing n with
  | nil => rfl
  | cons y ys ih =>
    cases n with
    | zero =>
      simp only [List.getElem?_cons_zero, Option.some.injEq] at h
      subst h
      simp [updateAt, hf]
    | succ n =>
      simp only [List.getElem?_cons_succ] at h
      simp [updateAt, ih n h]

/-! ### the loop `for other_inst in hits: relate(other_inst, inst, rel, phrase)` -/

/-- the association found for the new instance's link is the association itself, in the right orientation
    (what `_find_link` must answer for `relate(referred, referring, rel, source phrase)`) -/
def ResolvesAt (as : List AssocStmt) (n : Nat) (a : AssocStmt) : Prop :=
  findLink as a.tgtKind a.srcKind a.rel a.srcPhrase = some (n, false)

/-- the links of one association after the new referring row `i` has been related to the rows `hs` -/
def relatedTo (L : Links) (i : Nat) (hs : List Nat) : Links :=
  ⟨fun z => if z ∈ hs then L.src z ++ [i] else L.src z, fun z => if z = i then L.tgt i ++ hs else L.tgt z⟩

theorem relatedTo_nil (L : Links) (i : Nat) : relatedTo L i [] = L := by
  apply Links.ext'
  · intro z; simp [relatedTo]
  · intro z; by_cases hz : z = i <;> simp [relatedTo, hz]

theorem relateHits_spec (a : AssocStmt) (n i : Nat) (hs : List Nat) :
    ∀ (m : Model) (L : Links), m.assocs[n]? = some (a, L) →
      ResolvesAt (m.assocs.map (·.1)) n a → hs.Nodup →
      (∀ j ∈ hs, i ∉ L.src j ∧ (a.srcMany = false → L.src j = []) ∧ j ∉ L.tgt i) →
      (a.tgtMany = false → hs ≠ [] → L.tgt i = [] ∧ hs.length ≤ 1) →
      relateHits a.tgtKind a.srcKind i a.rel a.srcPhrase hs m =
        ({ m with assocs := updateAt m.assocs n (fun p => (p.1, relatedTo L i hs)) }, .ok) := by
  induction hs with
  | nil =>
    intro m L hm _ _ _ _
    simp only [relateHits, relatedTo_nil]
    rw [updateAt_fix m.assocs n _ (a, L) hm rfl]
  | cons j js ih =>
    intro m L hm hres hnd hcond hcard
    rw [List.nodup_cons] at hnd
    obtain ⟨hj1, hj2, hj3⟩ := hcond j List.mem_cons_self
    have hc1 := connectChecked_fresh L.src a.srcMany j i hj1 hj2
    have hc2 : connectChecked L.tgt a.tgtMany i j = some (fun z => if z = i then L.tgt i ++ [j] else L.tgt z) :=
      connectChecked_fresh L.tgt a.tgtMany i j hj3 (fun h => (hcard h (List.cons_ne_nil _ _)).1)
    let L1 : Links := ⟨fun z => if z = j then L.src j ++ [i] else L.src z, fun z => if z = i then L.tgt i ++ [j] else L.tgt z⟩
    let m1 : Model := { m with assocs := updateAt m.assocs n (fun p => (p.1, L1)) }
    have hstep : relate m a.tgtKind j a.srcKind i a.rel a.srcPhrase = (m1, .ok) := by
      unfold ResolvesAt at hres
      simp only [relate, hres, hm, Bool.false_eq_true, if_false, relateAt, hc1, hc2, if_true]
      rfl
    have hm1 : m1.assocs[n]? = some (a, L1) := getElem?_updateAt_self _ _ _ _ hm
    have hres1 : ResolvesAt (m1.assocs.map (·.1)) n a := by
      show findLink ((updateAt m.assocs n (fun p => (p.1, L1))).map (·.1)) _ _ _ _ = _
      rw [map_fst_updateAt m.assocs n (fun p => (p.1, L1)) (fun _ => rfl)]
      exact hres
    have hcond1 : ∀ j' ∈ js, i ∉ L1.src j' ∧ (a.srcMany = false → L1.src j' = []) ∧ j' ∉ L1.tgt i := by
      intro j' hj'
      have hne : j' ≠ j := fun e => hnd.1 (e ▸ hj')
      obtain ⟨h1, h2, h3⟩ := hcond j' (List.mem_cons_of_mem _ hj')
      refine ⟨by simp [L1, hne, h1], by simp only [L1, hne, if_false]; exact h2, ?_⟩
      simp only [L1, if_true, List.mem_append, List.mem_singleton, not_or]
      exact ⟨h3, hne⟩
    have hcard1 : a.tgtMany = false → js ≠ [] → L1.tgt i = [] ∧ js.length ≤ 1 := by
      intro h hjs
      have := (hcard h (List.cons_ne_nil _ _)).2
      cases js with
      | nil => exact absurd rfl hjs
      | cons _ _ => simp at this
    simp only [relateHits, hstep]
    rw [ih m1 L1 hm1 hres1 hnd.2 hcond1 hcard1]
    simp only [m1, updateAt_updateAt]
    congr 2
    have : relatedTo L1 i js = relatedTo L i (j :: js) := by
      apply Links.ext'
      · intro z
        simp only [relatedTo, L1, List.mem_cons]
        by_cases hzj : z = j
        · subst hzj
          simp [hnd.1]
        · by_cases hzs : z ∈ js <;> simp [hzj, hzs]
      · intro z
        simp only [relatedTo, L1]
        by_cases hz : z = i <;> simp [hz]
    congr 1
    funext p
    simp [Function.comp, this]

end Pyx.Load

namespace Pyx.Load

/-! ### one link of the batch relate: the query finds exactly the key-matching referred rows -/

theorem lookup_filter_fst (r : Row) (q : String → Bool) (x : String) :
    (r.filter (fun p => q p.1)).lookup x = if q x then r.lookup x else none := by
  induction r with
  | nil => by_cases h : q x <;> simp [h]
  | cons p ps ih =>
    obtain ⟨k, v⟩ := p
    by_cases hk : x = k
    · subst hk
      by_cases hq : q x
      · simp [List.filter_cons, hq, List.lookup_cons]
      · simp only [List.filter_cons, hq, Bool.false_eq_true, if_false, ih]
    · have hb : (x == k) = false := by simpa using hk
      by_cases hqk : q k
      · simp only [List.filter_cons, hqk, if_true, List.lookup_cons, hb, ih]
      · simp only [List.filter_cons, hqk, Bool.false_eq_true, if_false, List.lookup_cons, hb, ih]

theorem get_eq_lookup_getD (r : Row) (x : String) : Row.get r x = (r.lookup x).getD .none := by
  unfold Row.get
  cases r.lookup x <;> rfl

theorem enumFrom_map {α β : Type} (n : Nat) (l : List α) (f : α → β) :
    enumFrom n (l.map f) = (enumFrom n l).map (fun p => (p.1, f p.2)) := by
  induction l generalizing n with
  | nil => rfl
  | cons x xs ih => simp [enumFrom, ih]

theorem selectIdx_map {α β : Type} (n : Nat) (l : List α) (f : α → β) (c : β → Bool) :
    selectIdx n (l.map f) c = selectIdx n l (fun x => c (f x)) := by
  unfold selectIdx
  rw [enumFrom_map, List.filterMap_map]
  rfl

theorem revKeyMap_eq (a : AssocStmt) (h : a.tgtKeys.Nodup) : revKeyMap a = a.tgtKeys.zip a.srcKeys :=
  dictOfPairs_eq_self _ (zip_fst_nodup _ _ h)

theorem all_zip_swap {α β : Type} (l1 : List α) (l2 : List β) (f : β × α → Bool) :
    (l2.zip l1).all f = (l1.zip l2).all (fun p => f (p.2, p.1)) := by
  induction l1 generalizing l2 with
  | nil => cases l2 <;> simp
  | cons x xs ih =>
    cases l2 with
    | nil => simp
    | cons y ys => simp [ih]

theorem any_zip_swap {α β : Type} (l1 : List α) (l2 : List β) (f : β × α → Bool) :
    (l2.zip l1).any f = (l1.zip l2).any (fun p => f (p.2, p.1)) := by
  induction l1 generalizing l2 with
  | nil => cases l2 <;> simp
  | cons x xs ih =>
    cases l2 with
    | nil => simp
    | cons y ys => simp [ih]

theorem all_congr_mem {α : Type} {l : List α} {f g : α → Bool} (h : ∀ x ∈ l, f x = g x) : l.all f = l.all g := by
  induction l with
  | nil => rfl
  | cons x xs ih =>
    simp only [List.all_cons, h x List.mem_cons_self, ih (fun y hy => h y (List.mem_cons_of_mem _ hy))]

theorem queryRows_eq (rows : List Row) (kwargs : List (String × Val)) :
    queryRows rows kwargs = selectIdx 0 rows (fun r => kwargs.all (fun kv => r.get kv.1 == kv.2)) := rfl

theorem relateLink_target (a : AssocStmt) (m : Model) (s : Row) (i : Nat) (T : List Row)
    (hk : KeysOk a) (hlen : a.srcKeys.length = a.tgtKeys.length) (hne : a.srcKeys ≠ [])
    (hsrc : ∀ sk ∈ a.srcKeys, sk ∈ referential (m.assocs.map (·.1)) a.srcKind ∧ sk ∈ s.map (·.1))
    (hnc : ∀ tk ∈ a.tgtKeys, tk ∉ referential (m.assocs.map (·.1)) a.tgtKind)
    (hT : rowsOf m.classes a.tgtKind = T.map (stripRow (referential (m.assocs.map (·.1)) a.tgtKind))) :
    relateLink (s.filter (fun p => (referential (m.assocs.map (·.1)) a.srcKind).contains p.1))
        (m.assocs.map (·.1)) (revKeyMap a) a.tgtKind a.srcKind i a.rel a.srcPhrase m =
      relateHits a.tgtKind a.srcKind i a.rel a.srcPhrase (selectIdx 0 T (fun t => matchesB a s t)) m := by
  -- the referential values handed to `new`
  have hget : ∀ sk ∈ a.srcKeys,
      ((s.filter (fun p => (referential (m.assocs.map (·.1)) a.srcKind).contains p.1)).lookup sk).getD .none = s.get sk := by
    intro sk hsk
    rw [lookup_filter_fst s (fun x => (referential (m.assocs.map (·.1)) a.srcKind).contains x) sk]
    have : (referential (m.assocs.map (·.1)) a.srcKind).contains sk = true := by
      simpa using (hsrc sk hsk).1
    simp only [this, if_true]
    exact (get_eq_lookup_getD s sk).symm
  have hmem : ∀ sk ∈ a.srcKeys,
      sk ∈ (s.filter (fun p => (referential (m.assocs.map (·.1)) a.srcKind).contains p.1)).map (·.1) := by
    intro sk hsk
    obtain ⟨h1, h2⟩ := hsrc sk hsk
    obtain ⟨p, hp, hpk⟩ := List.mem_map.mp h2
    refine List.mem_map.mpr ⟨p, List.mem_filter.mpr ⟨hp, ?_⟩, hpk⟩
    simpa [hpk] using h1
  unfold relateLink
  rw [revKeyMap_eq a hk.tgt]
  -- every key attribute was given
  have c1 : ((a.tgtKeys.zip a.srcKeys).all (fun p =>
      ((s.filter (fun p => (referential (m.assocs.map (·.1)) a.srcKind).contains p.1)).map (·.1)).contains p.2)) = true := by
    simp only [List.all_eq_true, List.contains_iff_mem]
    intro p hp
    exact hmem p.2 (List.of_mem_zip hp).2
  simp only [c1, Bool.not_true, Bool.false_eq_true, if_false]
  -- the null test
  have c2 : ((a.tgtKeys.zip a.srcKeys).any (fun p => isNull
      (((s.filter (fun p => (referential (m.assocs.map (·.1)) a.srcKind).contains p.1)).lookup p.2).getD .none)))
      = (keyPairs a).any (fun p => isNull (s.get p.1)) := by
    unfold keyPairs
    rw [any_zip_swap a.srcKeys a.tgtKeys]
    rw [Bool.eq_iff_iff]
    simp only [List.any_eq_true]
    constructor
    · rintro ⟨p, hp, hq⟩
      exact ⟨p, hp, by rw [← hget p.1 (List.of_mem_zip hp).1]; exact hq⟩
    · rintro ⟨p, hp, hq⟩
      exact ⟨p, hp, by rw [hget p.1 (List.of_mem_zip hp).1]; exact hq⟩
  rw [c2]
  by_cases hnull : (keyPairs a).any (fun p => isNull (s.get p.1))
  · -- a null referential value refers to nothing: no referred row matches
    simp only [hnull, if_true]
    have : selectIdx 0 T (fun t => matchesB a s t) = [] := by
      rw [selectIdx_congr 0 T _ (fun _ => false), selectIdx_false]
      intro t _
      simp only [List.any_eq_true] at hnull
      obtain ⟨p, hp, hq⟩ := hnull
      cases hm : matchesB a s t with
      | false => rfl
      | true =>
        have := ((matchesB_iff a s t).mp hm p hp).1
        simp [hq] at this
    rw [this]
    rfl
  · simp only [hnull, Bool.false_eq_true, if_false]
    -- the key list is not empty
    have c3 : (a.tgtKeys.zip a.srcKeys).isEmpty = false := by
      cases hs : a.srcKeys with
      | nil => exact absurd hs hne
      | cons x xs =>
        cases ht : a.tgtKeys with
        | nil => rw [hs, ht] at hlen; simp at hlen
        | cons y ys => simp
    simp only [c3, Bool.false_eq_true, if_false]
    -- no identifying attribute is read through a link
    have c4 : ((a.tgtKeys.zip a.srcKeys).any (fun p => (referential (m.assocs.map (·.1)) a.tgtKind).contains p.1)) = false := by
      rw [Bool.eq_false_iff]
      simp only [ne_eq, List.any_eq_true, List.contains_iff_mem, not_exists, not_and]
      intro p hp
      exact hnc p.1 (List.of_mem_zip hp).1
    simp only [c4, Bool.false_eq_true, if_false]
    congr 1
    rw [queryRows_eq, hT, selectIdx_map]
    apply selectIdx_congr
    intro t _
    rw [List.all_map]
    rw [all_zip_swap a.srcKeys a.tgtKeys]
    unfold matchesB
    apply all_congr_mem
    intro p hp
    simp only [Function.comp]
    have hnn : isNull (s.get p.1) = false := by
      cases hq : isNull (s.get p.1) with
      | false => rfl
      | true =>
        exfalso
        apply hnull
        simp only [List.any_eq_true]
        exact ⟨p, hp, hq⟩
    rw [hget p.1 (List.of_mem_zip hp).1, get_stripRow _ _ _ (hnc p.2 (List.of_mem_zip hp).2), hnn]
    simp only [Bool.not_false, Bool.true_and]
    rw [Bool.eq_iff_iff]
    simp only [beq_iff_eq]
    exact eq_comm

end Pyx.Load

namespace Pyx.Load

/-! ### the batch relate of one `new`: every association whose referring class is the new row's class gets the
    new row related to its key-matching referred rows; nothing else changes -/

theorem mem_referential {as : List AssocStmt} {a : AssocStmt} (ha : a ∈ as) {sk : String} (hs : sk ∈ a.srcKeys) :
    sk ∈ referential as a.srcKind := by
  unfold referential
  simp only [List.mem_flatMap, List.mem_filter, decide_eq_true_eq]
  exact ⟨a, ⟨ha, rfl⟩, hs⟩

theorem relateLink_source_skip (b : AssocStmt) (m : Model) (refs : List (String × Val)) (all : List AssocStmt) (i : Nat)
    (hk : KeysOk b) (hlen : b.srcKeys.length = b.tgtKeys.length) (hne : b.srcKeys ≠ [])
    (hrefs : ∀ x ∈ refs.map (·.1), x ∈ referential all b.tgtKind)
    (hnc : ∀ tk ∈ b.tgtKeys, tk ∉ referential all b.tgtKind) :
    relateLink refs all (keyMap b) b.srcKind b.tgtKind i b.rel b.tgtPhrase m = (m, .ok) := by
  unfold relateLink
  rw [keyMap_eq b hk.src]
  have : ((keyPairs b).all (fun p => (refs.map (·.1)).contains p.2)) = false := by
    unfold keyPairs
    cases hs : b.srcKeys with
    | nil => exact absurd hs hne
    | cons x xs =>
      cases ht : b.tgtKeys with
      | nil => rw [hs, ht] at hlen; simp at hlen
      | cons y ys =>
        have hy : ¬ y ∈ refs.map (·.1) := fun h => hnc y (by rw [ht]; exact List.mem_cons_self) (hrefs y h)
        simp only [List.zip_cons_cons, List.all_cons, Bool.and_eq_false_imp]
        intro h
        simp only [List.contains_iff_mem] at h
        exact absurd h hy
  simp only [this, Bool.not_false, if_true]

/-- what the batch relate does to one association -/
def stepAssoc (kind : String) (s : Row) (i : Nat) (rowsRaw : String → List Row) (p : AssocStmt × Links) :
    AssocStmt × Links :=
  if p.1.srcKind = kind then
    (p.1, relatedTo p.2 i (selectIdx 0 (rowsRaw p.1.tgtKind) (fun t => matchesB p.1 s t)))
  else p

theorem stepAssoc_fst (kind : String) (s : Row) (i : Nat) (rowsRaw : String → List Row) (p : AssocStmt × Links) :
    (stepAssoc kind s i rowsRaw p).1 = p.1 := by
  unfold stepAssoc
  by_cases h : p.1.srcKind = kind <;> simp [h]

/-- everything `relateLinks` needs to know about one association (at position `n`, with links `L`) -/
structure LinkReady (all : List AssocStmt) (kind : String) (s : Row) (i : Nat) (m : Model)
    (rowsRaw : String → List Row) (n : Nat) (a : AssocStmt) (L : Links) : Prop where
  keys : KeysOk a
  len : a.srcKeys.length = a.tgtKeys.length
  ne : a.srcKeys ≠ []
  nonrefl : a.srcKind ≠ a.tgtKind
  noChain : ∀ tk ∈ a.tgtKeys, tk ∉ referential all a.tgtKind
  mem : a ∈ all
  resolves : a.srcKind = kind → ResolvesAt all n a
  given : a.srcKind = kind → ∀ sk ∈ a.srcKeys, sk ∈ s.map (·.1)
  stored : a.srcKind = kind →
    rowsOf m.classes a.tgtKind = (rowsRaw a.tgtKind).map (stripRow (referential all a.tgtKind))
  fresh : a.srcKind = kind → ∀ j ∈ selectIdx 0 (rowsRaw a.tgtKind) (fun t => matchesB a s t),
    i ∉ L.src j ∧ (a.srcMany = false → L.src j = []) ∧ j ∉ L.tgt i
  card : a.srcKind = kind → a.tgtMany = false →
    selectIdx 0 (rowsRaw a.tgtKind) (fun t => matchesB a s t) ≠ [] →
    L.tgt i = [] ∧ (selectIdx 0 (rowsRaw a.tgtKind) (fun t => matchesB a s t)).length ≤ 1

theorem updateAt_append_length {α : Type} (l1 : List α) (x : α) (l2 : List α) (f : α → α) :
    updateAt (l1 ++ x :: l2) l1.length f = l1 ++ f x :: l2 := by
  induction l1 with
  | nil => rfl
  | cons y ys ih => simp [updateAt, ih]

theorem relateLinks_spec (kind : String) (s : Row) (i : Nat) (rowsRaw : String → List Row) (all : List AssocStmt)
    (rest : List (AssocStmt × Links)) :
    ∀ (done : List (AssocStmt × Links)) (m : Model), m.assocs = done ++ rest →
      (done ++ rest).map (·.1) = all →
      (∀ q p, rest[q]? = some p → LinkReady all kind s i m rowsRaw (done.length + q) p.1 p.2) →
      relateLinks (s.filter (fun p => (referential all kind).contains p.1)) all kind i
          (linksOfKind (rest.map (·.1)) kind) m =
        ({ m with assocs := done ++ rest.map (stepAssoc kind s i rowsRaw) }, .ok) := by
  induction rest with
  | nil =>
    intro done m hm _ _
    simp only [linksOfKind, List.map_nil, List.flatMap_nil, relateLinks, List.append_nil] at hm ⊢
    rw [← hm]
  | cons p rest ih =>
    intro done m hm hall hready
    obtain ⟨a, L⟩ := p
    have hr := hready 0 (a, L) rfl
    simp only [Nat.add_zero] at hr
    have hmn : m.assocs[done.length]? = some (a, L) := by
      rw [hm]; simp
    have hmap : m.assocs.map (·.1) = all := by rw [hm]; exact hall
    -- the rest of the loop, from any state whose associations are `done' ++ rest`
    have hrest : ∀ (m' : Model) (x : AssocStmt × Links), x.1 = a → m'.classes = m.classes →
        m'.assocs = (done ++ [x]) ++ rest →
        relateLinks (s.filter (fun p => (referential all kind).contains p.1)) all kind i
          (linksOfKind (rest.map (·.1)) kind) m' =
        ({ m' with assocs := (done ++ [x]) ++ rest.map (stepAssoc kind s i rowsRaw) }, .ok) := by
      intro m' x hx hcls hm'
      apply ih (done ++ [x]) m' hm'
      · rw [← hall]; simp [hx]
      · intro q p hq
        have := hready (q + 1) p (by simpa using hq)
        have e : (done ++ [x]).length + q = done.length + (q + 1) := by simp; omega
        rw [e]
        exact { this with stored := fun h => by rw [hcls]; exact this.stored h }
    simp only [List.map_cons, linksOfKind, List.flatMap_cons]
    by_cases hsrc : a.srcKind = kind
    · -- the new row refers across `a`
      have htgt : ¬ a.tgtKind = kind := fun h => hr.nonrefl (hsrc.trans h.symm)
      simp only [htgt, if_false, hsrc, if_true, List.nil_append, List.singleton_append, relateLinks]
      subst hsrc
      have hsrcs : ∀ sk ∈ a.srcKeys, sk ∈ referential (m.assocs.map (·.1)) a.srcKind ∧ sk ∈ s.map (·.1) := by
        intro sk hsk
        rw [hmap]
        exact ⟨mem_referential hr.mem hsk, hr.given rfl sk hsk⟩
      have h1 := relateLink_target a m s i (rowsRaw a.tgtKind) hr.keys hr.len hr.ne hsrcs
        (by rw [hmap]; exact hr.noChain) (by rw [hmap]; exact hr.stored rfl)
      rw [hmap] at h1
      rw [h1]
      have h2 := relateHits_spec a done.length i _ m L hmn (by rw [hmap]; exact hr.resolves rfl)
        (selectIdx_nodup _ _ _) (hr.fresh rfl) (hr.card rfl)
      rw [h2]
      simp only
      have hupd : updateAt m.assocs done.length (fun p => (p.1, relatedTo L i
          (selectIdx 0 (rowsRaw a.tgtKind) (fun t => matchesB a s t)))) =
          (done ++ [stepAssoc a.srcKind s i rowsRaw (a, L)]) ++ rest := by
        rw [hm, updateAt_append_length]
        simp [stepAssoc]
      have := hrest { m with assocs := updateAt m.assocs done.length (fun p => (p.1, relatedTo L i
          (selectIdx 0 (rowsRaw a.tgtKind) (fun t => matchesB a s t)))) }
        (stepAssoc a.srcKind s i rowsRaw (a, L)) (stepAssoc_fst _ _ _ _ _) rfl hupd
      simp only [linksOfKind] at this
      rw [this]
      simp
    · by_cases htgt : a.tgtKind = kind
      · -- the new row is a referred row of `a`: its identifying attributes are not referential, nothing to relate
        simp only [htgt, if_true, hsrc, if_false, List.append_nil, List.singleton_append, relateLinks]
        subst htgt
        have hskip := relateLink_source_skip a m (s.filter (fun p => (referential all a.tgtKind).contains p.1)) all i
          hr.keys hr.len hr.ne
          (by
            intro x hx
            obtain ⟨p, hp, rfl⟩ := List.mem_map.mp hx
            have := (List.mem_filter.mp hp).2
            simpa using this)
          hr.noChain
        rw [hskip]
        simp only
        have := hrest m (a, L) rfl rfl (by rw [hm]; simp)
        simp only [linksOfKind] at this
        rw [this]
        simp [stepAssoc, hsrc]
      · simp only [htgt, hsrc, if_false, List.append_nil, List.nil_append]
        have := hrest m (a, L) rfl rfl (by rw [hm]; simp)
        simp only [linksOfKind] at this
        rw [this]
        simp [stepAssoc, hsrc]

end Pyx.Load
