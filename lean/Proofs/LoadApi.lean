import PyxModel.LoadApi
import Proofs.LoadPerm

/-! Helper lemmas for C03, part 5: the API route (`MetaClass.new` with its batch relate). -/

namespace Pyx.Load

/-! ### growing a population by one row -/

theorem enumFrom_append {α : Type} (n : Nat) (l1 l2 : List α) :
    enumFrom n (l1 ++ l2) = enumFrom n l1 ++ enumFrom (n + l1.length) l2 := by
  induction l1 generalizing n with
  | nil => simp [enumFrom]
  | cons x xs ih =>
    have e : n + 1 + xs.length = n + (xs.length + 1) := by omega
    simp only [List.cons_append, enumFrom, ih, List.length_cons, e]

theorem selectIdx_append_singleton {α : Type} (n : Nat) (l : List α) (x : α) (c : α → Bool) :
    selectIdx n (l ++ [x]) c = selectIdx n l c ++ (if c x then [n + l.length] else []) := by
  unfold selectIdx
  rw [enumFrom_append, List.filterMap_append]
  simp only [enumFrom, List.filterMap_cons, List.filterMap_nil]
  by_cases h : c x <;> simp [h]

theorem mem_selectIdx_lt {α : Type} {l : List α} {c : α → Bool} {i : Nat} (h : i ∈ selectIdx 0 l c) : i < l.length := by
  obtain ⟨x, hx, _⟩ := (mem_selectIdx_zero l c i).mp h
  exact (List.getElem?_eq_some_iff.mp hx).1

/-- the links after one more referring row `s` (position `i`) has been related to the referred rows `hits` -/
def addSource (L : Links) (i : Nat) (hits : List Nat) : Links :=
  ⟨fun j => if j ∈ hits then L.src j ++ [i] else L.src j, fun z => if z = i then hits else L.tgt z⟩

theorem nestedJoin_snoc_src (a : AssocStmt) (S T : List Row) (s : Row) :
    nestedJoin a (S ++ [s]) T = addSource (nestedJoin a S T) S.length (selectIdx 0 T (fun t => matchesB a s t)) := by
  apply Links.ext'
  · intro j
    simp only [nestedJoin, addSource]
    cases hj : T[j]? with
    | none =>
      have : j ∉ selectIdx 0 T (fun t => matchesB a s t) := by
        intro hm
        have := mem_selectIdx_lt hm
        have := (List.getElem?_eq_none_iff.mp hj)
        omega
      simp [this]
    | some t =>
      simp only
      have hsel := selectIdx_append_singleton 0 S s (fun x => matchesB a x t)
      unfold selectIdx at hsel
      rw [hsel]
      have hmem : j ∈ selectIdx 0 T (fun t => matchesB a s t) ↔ matchesB a s t = true := by
        rw [mem_selectIdx_zero]
        constructor
        · rintro ⟨x, hx, hc⟩; rw [hj] at hx; cases hx; exact hc
        · intro hc; exact ⟨t, hj, hc⟩
      by_cases hm : matchesB a s t
      · simp [hm, hmem.mpr hm]
      · have : j ∉ selectIdx 0 T (fun t => matchesB a s t) := fun h => hm (hmem.mp h)
        simp [hm, this]
  · intro z
    simp only [nestedJoin, addSource]
    by_cases hz : z = S.length
    · subst hz
      simp [selectIdx]
    · simp only [hz, if_false]
      by_cases hlt : z < S.length
      · rw [List.getElem?_append_left hlt]
      · have h1 : (S ++ [s])[z]? = none := by
          rw [List.getElem?_eq_none_iff]; simp; omega
        have h2 : S[z]? = none := by
          rw [List.getElem?_eq_none_iff]; omega
        simp [h1, h2]

theorem nestedJoin_nil_src (a : AssocStmt) (T : List Row) : nestedJoin a [] T = Links.empty := by
  apply Links.ext'
  · intro j
    simp only [nestedJoin, Links.empty]
    cases T[j]? <;> simp [enumFrom]
  · intro z
    simp [nestedJoin, Links.empty]

/-! ### stored (stripped) rows still carry the identifying values -/

theorem get_stripRow (refs : List String) (r : Row) (x : String) (h : x ∉ refs) :
    Row.get (stripRow refs r) x = Row.get r x := by
  unfold Row.get stripRow
  induction r with
  | nil => rfl
  | cons p ps ih =>
    obtain ⟨k, v⟩ := p
    by_cases hk : k = x
    · subst hk
      simp [List.filter_cons, h, List.lookup_cons]
    · have hkx : (x == k) = false := by
        simpa using fun e => hk e.symm
      by_cases hr : refs.contains k
      · simp only [List.filter_cons, hr, Bool.not_true, Bool.false_eq_true, if_false, List.lookup_cons, hkx]
        exact ih
      · simp only [List.filter_cons, hr, Bool.not_false, if_true, List.lookup_cons, hkx]
        exact ih

/-! ### `Link.connect` with the cardinality check -/

theorem connectChecked_fresh (m : Nat → List Nat) (many : Bool) (x y : Nat) (hy : y ∉ m x)
    (hc : many = false → m x = []) :
    connectChecked m many x y = some (fun z => if z = x then m x ++ [y] else m z) := by
  unfold connectChecked
  simp only [hy, if_false]
  by_cases hm : many = false
  · simp [hc hm]
  · simp [hm]

end Pyx.Load

namespace Pyx.Load

/-! ### `updateAt` -/

theorem map_fst_updateAt {α β : Type} (l : List (α × β)) (n : Nat) (f : α × β → α × β)
    (h : ∀ p, (f p).1 = p.1) : (updateAt l n f).map (·.1) = l.map (·.1) := by
  induction l generalizing n with
  | nil => rfl
  | cons x xs ih =>
    cases n with
    | zero => simp [updateAt, h]
    | succ n => simp [updateAt, ih]

theorem getElem?_updateAt_self {α : Type} (l : List α) (n : Nat) (f : α → α) (x : α) (h : l[n]? = some x) :
    (updateAt l n f)[n]? = some (f x) := by
  induction l generalizing n with
  | nil => simp at h
  | cons y ys ih =>
    cases n with
    | zero => simp at h; simp [updateAt, h]
    | succ n => simp at h; simp [updateAt, ih n h]

theorem getElem?_updateAt_ne {α : Type} (l : List α) (n k : Nat) (f : α → α) (h : k ≠ n) :
    (updateAt l n f)[k]? = l[k]? := by
  induction l generalizing n k with
  | nil => rfl
  | cons y ys ih =>
    cases n with
    | zero =>
      cases k with
      | zero => exact absurd rfl h
      | succ k => simp [updateAt]
    | succ n =>
      cases k with
      | zero => simp [updateAt]
      | succ k => simp [updateAt]; exact ih n k (by omega)

theorem updateAt_updateAt {α : Type} (l : List α) (n : Nat) (f g : α → α) :
    updateAt (updateAt l n f) n g = updateAt l n (g ∘ f) := by
  induction l generalizing n with
  | nil => rfl
  | cons y ys ih =>
    cases n with
    | zero => rfl
    | succ n => simp [updateAt, ih]

theorem updateAt_fix {α : Type} (l : List α) (n : Nat) (f : α → α) (x : α) (h : l[n]? = some x) (hf : f x = x) :
    updateAt l n f = l := by
  induction l generalizing n with
  | nil => rfl
  | cons y ys ih =>
    cases n with
    | zero =>
      simp only [List.getElem?_cons_zero, Option.some.injEq] at h
      subst h
      simp [updateAt, hf]
    | succ n =>
      simp only [List.getElem?_cons_succ] at h
      simp [updateAt, ih n h]

/-! ### the loop `for other_inst in hits: relate(other_inst, inst, rel, phrase)` -/

/-- the association found for the new instance's link is the association itself, in the right orientation
    (what `_find_link` must answer for `relate(referred, referring, rel, source phrase)`) -/
def ResolvesAt (as : List AssocStmt) (n : Nat) (a : AssocStmt) : Prop :=
  findLink as a.tgtKind a.srcKind a.rel a.srcPhrase = some (n, false)

/-- the links of one association after the new referring row `i` has been related to the rows `hs` -/
def relatedTo (L : Links) (i : Nat) (hs : List Nat) : Links :=
  ⟨fun z => if z ∈ hs then L.src z ++ [i] else L.src z, fun z => if z = i then L.tgt i ++ hs else L.tgt z⟩

theorem relatedTo_nil (L : Links) (i : Nat) : relatedTo L i [] = L := by
  apply Links.ext'
  · intro z; simp [relatedTo]
  · intro z; by_cases hz : z = i <;> simp [relatedTo, hz]

theorem relateHits_spec (a : AssocStmt) (n i : Nat) (hs : List Nat) :
    ∀ (m : Model) (L : Links), m.assocs[n]? = some (a, L) →
      ResolvesAt (m.assocs.map (·.1)) n a → hs.Nodup →
      (∀ j ∈ hs, i ∉ L.src j ∧ (a.srcMany = false → L.src j = []) ∧ j ∉ L.tgt i) →
      (a.tgtMany = false → hs ≠ [] → L.tgt i = [] ∧ hs.length ≤ 1) →
      relateHits a.tgtKind a.srcKind i a.rel a.srcPhrase hs m =
        ({ m with assocs := updateAt m.assocs n (fun p => (p.1, relatedTo L i hs)) }, .ok) := by
  induction hs with
  | nil =>
    intro m L hm _ _ _ _
    simp only [relateHits, relatedTo_nil]
    rw [updateAt_fix m.assocs n _ (a, L) hm rfl]
  | cons j js ih =>
    intro m L hm hres hnd hcond hcard
    rw [List.nodup_cons] at hnd
    obtain ⟨hj1, hj2, hj3⟩ := hcond j List.mem_cons_self
    have hc1 := connectChecked_fresh L.src a.srcMany j i hj1 hj2
    have hc2 : connectChecked L.tgt a.tgtMany i j = some (fun z => if z = i then L.tgt i ++ [j] else L.tgt z) :=
      connectChecked_fresh L.tgt a.tgtMany i j hj3 (fun h => (hcard h (List.cons_ne_nil _ _)).1)
    let L1 : Links := ⟨fun z => if z = j then L.src j ++ [i] else L.src z, fun z => if z = i then L.tgt i ++ [j] else L.tgt z⟩
    let m1 : Model := { m with assocs := updateAt m.assocs n (fun p => (p.1, L1)) }
    have hstep : relate m a.tgtKind j a.srcKind i a.rel a.srcPhrase = (m1, .ok) := by
      unfold ResolvesAt at hres
      simp only [relate, hres, hm, Bool.false_eq_true, if_false, relateAt, hc1, hc2, if_true]
      rfl
    have hm1 : m1.assocs[n]? = some (a, L1) := getElem?_updateAt_self _ _ _ _ hm
    have hres1 : ResolvesAt (m1.assocs.map (·.1)) n a := by
      show findLink ((updateAt m.assocs n (fun p => (p.1, L1))).map (·.1)) _ _ _ _ = _
      rw [map_fst_updateAt m.assocs n (fun p => (p.1, L1)) (fun _ => rfl)]
      exact hres
    have hcond1 : ∀ j' ∈ js, i ∉ L1.src j' ∧ (a.srcMany = false → L1.src j' = []) ∧ j' ∉ L1.tgt i := by
      intro j' hj'
      have hne : j' ≠ j := fun e => hnd.1 (e ▸ hj')
      obtain ⟨h1, h2, h3⟩ := hcond j' (List.mem_cons_of_mem _ hj')
      refine ⟨by simp [L1, hne, h1], by simp only [L1, hne, if_false]; exact h2, ?_⟩
      simp only [L1, if_true, List.mem_append, List.mem_singleton, not_or]
      exact ⟨h3, hne⟩
    have hcard1 : a.tgtMany = false → js ≠ [] → L1.tgt i = [] ∧ js.length ≤ 1 := by
      intro h hjs
      have := (hcard h (List.cons_ne_nil _ _)).2
      cases js with
      | nil => exact absurd rfl hjs
      | cons _ _ => simp at this
    simp only [relateHits, hstep]
    rw [ih m1 L1 hm1 hres1 hnd.2 hcond1 hcard1]
    simp only [m1, updateAt_updateAt]
    congr 2
    have : relatedTo L1 i js = relatedTo L i (j :: js) := by
      apply Links.ext'
      · intro z
        simp only [relatedTo, L1, List.mem_cons]
        by_cases hzj : z = j
        · subst hzj
          simp [hnd.1]
        · by_cases hzs : z ∈ js <;> simp [hzj, hzs]
      · intro z
        simp only [relatedTo, L1]
        by_cases hz : z = i <;> simp [hz]
    congr 1
    funext p
    simp [Function.comp, this]

end Pyx.Load

namespace Pyx.Load

/-! ### one link of the batch relate: the query finds exactly the key-matching referred rows -/

theorem lookup_filter_fst (r : Row) (q : String → Bool) (x : String) :
    (r.filter (fun p => q p.1)).lookup x = if q x then r.lookup x else none := by
  induction r with
  | nil => by_cases h : q x <;> simp [h]
  | cons p ps ih =>
    obtain ⟨k, v⟩ := p
    by_cases hk : x = k
    · subst hk
      by_cases hq : q x
      · simp [List.filter_cons, hq, List.lookup_cons]
      · simp only [List.filter_cons, hq, Bool.false_eq_true, if_false, ih]
    · have hb : (x == k) = false := by simpa using hk
      by_cases hqk : q k
      · simp only [List.filter_cons, hqk, if_true, List.lookup_cons, hb, ih]
      · simp only [List.filter_cons, hqk, Bool.false_eq_true, if_false, List.lookup_cons, hb, ih]

theorem get_eq_lookup_getD (r : Row) (x : String) : Row.get r x = (r.lookup x).getD .none := by
  unfold Row.get
  cases r.lookup x <;> rfl

theorem enumFrom_map {α β : Type} (n : Nat) (l : List α) (f : α → β) :
    enumFrom n (l.map f) = (enumFrom n l).map (fun p => (p.1, f p.2)) := by
  induction l generalizing n with
  | nil => rfl
  | cons x xs ih => simp [enumFrom, ih]

theorem selectIdx_map {α β : Type} (n : Nat) (l : List α) (f : α → β) (c : β → Bool) :
    selectIdx n (l.map f) c = selectIdx n l (fun x => c (f x)) := by
  unfold selectIdx
  rw [enumFrom_map, List.filterMap_map]
  rfl

theorem revKeyMap_eq (a : AssocStmt) (h : a.tgtKeys.Nodup) : revKeyMap a = a.tgtKeys.zip a.srcKeys :=
  dictOfPairs_eq_self _ (zip_fst_nodup _ _ h)

theorem all_zip_swap {α β : Type} (l1 : List α) (l2 : List β) (f : β × α → Bool) :
    (l2.zip l1).all f = (l1.zip l2).all (fun p => f (p.2, p.1)) := by
  induction l1 generalizing l2 with
  | nil => cases l2 <;> simp
  | cons x xs ih =>
    cases l2 with
    | nil => simp
    | cons y ys => simp [ih]

theorem any_zip_swap {α β : Type} (l1 : List α) (l2 : List β) (f : β × α → Bool) :
    (l2.zip l1).any f = (l1.zip l2).any (fun p => f (p.2, p.1)) := by
  induction l1 generalizing l2 with
  | nil => cases l2 <;> simp
  | cons x xs ih =>
    cases l2 with
    | nil => simp
    | cons y ys => simp [ih]

theorem all_congr_mem {α : Type} {l : List α} {f g : α → Bool} (h : ∀ x ∈ l, f x = g x) : l.all f = l.all g := by
  induction l with
  | nil => rfl
  | cons x xs ih =>
    simp only [List.all_cons, h x List.mem_cons_self, ih (fun y hy => h y (List.mem_cons_of_mem _ hy))]

/-! ### the query loop: with the hits decided by a state-independent test, `relateQuery` is `relateHits` -/

theorem relateQuery_spec (a : AssocStmt) (n i fuel : Nat) (kwargs : List (String × Val)) (c : Nat → Bool)
    (ps : List Nat) :
    ∀ (m : Model) (L : Links), m.assocs[n]? = some (a, L) →
      ResolvesAt (m.assocs.map (·.1)) n a → ps.Nodup →
      (∀ j ∈ ps, c j = true → i ∉ L.src j ∧ (a.srcMany = false → L.src j = []) ∧ j ∉ L.tgt i) →
      (a.tgtMany = false → ps.filter c ≠ [] → L.tgt i = [] ∧ (ps.filter c).length ≤ 1) →
      (∀ L' : Links, (∀ u, u ≠ i → L'.tgt u = L.tgt u) → ∀ j ∈ ps,
        rowMatches { m with assocs := updateAt m.assocs n (fun p => (p.1, L')) } fuel a.tgtKind j kwargs = some (c j)) →
      relateQuery fuel kwargs a.tgtKind a.srcKind i a.rel a.srcPhrase ps m =
        ({ m with assocs := updateAt m.assocs n (fun p => (p.1, relatedTo L i (ps.filter c))) }, .ok) := by
  induction ps with
  | nil =>
    intro m L hm _ _ _ _ _
    simp only [relateQuery, List.filter_nil, relatedTo_nil]
    rw [updateAt_fix m.assocs n _ (a, L) hm rfl]
  | cons j js ih =>
    intro m L hm hres hnd hcond hcard hread
    rw [List.nodup_cons] at hnd
    have hself : ({ m with assocs := updateAt m.assocs n (fun p => (p.1, L)) } : Model) = m := by
      rw [updateAt_fix m.assocs n _ (a, L) hm rfl]
    have hmj := hread L (fun _ _ => rfl) j List.mem_cons_self
    rw [hself] at hmj
    simp only [relateQuery, hmj]
    by_cases hc : c j = true
    · -- a hit: relate, then go on from the updated state
      simp only [hc, List.filter_cons, if_true]
      obtain ⟨hj1, hj2, hj3⟩ := hcond j List.mem_cons_self hc
      have hfne : (j :: js).filter c ≠ [] := by simp [List.filter_cons, hc]
      have hc1 := connectChecked_fresh L.src a.srcMany j i hj1 hj2
      have hc2 : connectChecked L.tgt a.tgtMany i j = some (fun z => if z = i then L.tgt i ++ [j] else L.tgt z) :=
        connectChecked_fresh L.tgt a.tgtMany i j hj3 (fun h => (hcard h hfne).1)
      let L1 : Links := ⟨fun z => if z = j then L.src j ++ [i] else L.src z, fun z => if z = i then L.tgt i ++ [j] else L.tgt z⟩
      let m1 : Model := { m with assocs := updateAt m.assocs n (fun p => (p.1, L1)) }
      have hstep : relate m a.tgtKind j a.srcKind i a.rel a.srcPhrase = (m1, .ok) := by
        unfold ResolvesAt at hres
        simp only [relate, hres, hm, Bool.false_eq_true, if_false, relateAt, hc1, hc2, if_true]
        rfl
      have hm1 : m1.assocs[n]? = some (a, L1) := getElem?_updateAt_self _ _ _ _ hm
      have hres1 : ResolvesAt (m1.assocs.map (·.1)) n a := by
        show findLink ((updateAt m.assocs n (fun p => (p.1, L1))).map (·.1)) _ _ _ _ = _
        rw [map_fst_updateAt m.assocs n (fun p => (p.1, L1)) (fun _ => rfl)]
        exact hres
      have hcond1 : ∀ j' ∈ js, c j' = true → i ∉ L1.src j' ∧ (a.srcMany = false → L1.src j' = []) ∧ j' ∉ L1.tgt i := by
        intro j' hj' hcj'
        have hne : j' ≠ j := fun e => hnd.1 (e ▸ hj')
        obtain ⟨h1, h2, h3⟩ := hcond j' (List.mem_cons_of_mem _ hj') hcj'
        refine ⟨by simp [L1, hne, h1], by simp only [L1, hne, if_false]; exact h2, ?_⟩
        simp only [L1, if_true, List.mem_append, List.mem_singleton, not_or]
        exact ⟨h3, hne⟩
      have hcard1 : a.tgtMany = false → js.filter c ≠ [] → L1.tgt i = [] ∧ (js.filter c).length ≤ 1 := by
        intro h hjs
        have := (hcard h hfne).2
        simp only [List.filter_cons, hc, if_true, List.length_cons] at this
        cases hf : js.filter c with
        | nil => exact absurd hf hjs
        | cons _ _ => rw [hf] at this; simp at this
      have hread1 : ∀ L' : Links, (∀ u, u ≠ i → L'.tgt u = L1.tgt u) → ∀ j' ∈ js,
          rowMatches { m1 with assocs := updateAt m1.assocs n (fun p => (p.1, L')) } fuel a.tgtKind j' kwargs = some (c j') := by
        intro L' hL' j' hj'
        have e : updateAt m1.assocs n (fun p => (p.1, L')) = updateAt m.assocs n (fun p => (p.1, L')) := by
          show updateAt (updateAt m.assocs n (fun p => (p.1, L1))) n (fun p => (p.1, L')) = _
          rw [updateAt_updateAt]
          rfl
        show rowMatches { m with assocs := updateAt m1.assocs n (fun p => (p.1, L')) } fuel a.tgtKind j' kwargs = _
        rw [e]
        apply hread L' _ j' (List.mem_cons_of_mem _ hj')
        intro u hu
        rw [hL' u hu]
        simp [L1, hu]
      simp only [hstep]
      rw [ih m1 L1 hm1 hres1 hnd.2 hcond1 hcard1 hread1]
      simp only [m1, updateAt_updateAt]
      congr 2
      have : relatedTo L1 i (js.filter c) = relatedTo L i (j :: js.filter c) := by
        apply Links.ext'
        · intro z
          simp only [relatedTo, L1, List.mem_cons]
          have hjn : j ∉ js.filter c := fun h => hnd.1 (List.mem_filter.mp h).1
          by_cases hzj : z = j
          · subst hzj
            simp [hjn]
          · by_cases hzs : z ∈ js.filter c <;> simp [hzj, hzs]
        · intro z
          simp only [relatedTo, L1]
          by_cases hz : z = i <;> simp [hz]
      congr 1
      funext p
      simp [Function.comp, this]
    · -- no hit: the state is unchanged
      have hc' : c j = false := by simpa using hc
      simp only [hc', List.filter_cons, Bool.false_eq_true, if_false]
      exact ih m L hm hres hnd.2
        (fun j' hj' => hcond j' (List.mem_cons_of_mem _ hj'))
        (by
          intro h hne
          have := hcard h (by simpa [List.filter_cons, hc'] using hne)
          simpa [List.filter_cons, hc'] using this)
        (fun L' hL' j' hj' => hread L' hL' j' (List.mem_cons_of_mem _ hj'))

/-- a query none of whose candidates matches relates nothing -/
theorem relateQuery_none (fuel : Nat) (kwargs : List (String × Val)) (okind kind : String) (i : Nat) (rel phrase : String)
    (m : Model) (ps : List Nat) (h : ∀ j ∈ ps, rowMatches m fuel okind j kwargs = some false) :
    relateQuery fuel kwargs okind kind i rel phrase ps m = (m, .ok) := by
  induction ps with
  | nil => rfl
  | cons j js ih =>
    simp only [relateQuery, h j List.mem_cons_self]
    exact ih (fun j' hj' => h j' (List.mem_cons_of_mem _ hj'))

theorem range_filter_eq_selectIdx {α : Type} (l : List α) (p : α → Bool) :
    (List.range l.length).filter (fun j => (l[j]?.map p).getD false) = selectIdx 0 l p := by
  have key : ∀ (n : Nat) (l : List α),
      (List.range' n l.length).filter (fun j => (l[j - n]?.map p).getD false) = selectIdx n l p := by
    intro n l
    induction l generalizing n with
    | nil => simp [selectIdx, enumFrom]
    | cons x xs ih =>
      simp only [List.length_cons, List.range'_succ, selectIdx, enumFrom, List.filter_cons, List.filterMap_cons,
        Nat.sub_self, List.getElem?_cons_zero]
      have hrest : (List.range' (n + 1) xs.length).filter (fun j => ((x :: xs)[j - n]?.map p).getD false)
          = (List.range' (n + 1) xs.length).filter (fun j => (xs[j - (n + 1)]?.map p).getD false) := by
        apply List.filter_congr
        intro j hj
        have hj' := (List.mem_range'_1.mp hj).1
        have e : j - n = (j - (n + 1)) + 1 := by omega
        rw [e, List.getElem?_cons_succ]
      rw [hrest, ih (n + 1)]
      by_cases hx : p x <;> simp [hx, selectIdx]
  have := key 0 l
  simpa [List.range_eq_range'] using this

/-! ### one link of the batch relate: the query finds exactly the key-matching referred rows -/

theorem mem_referential {as : List AssocStmt} {a : AssocStmt} (ha : a ∈ as) {sk : String} (hs : sk ∈ a.srcKeys) :
    sk ∈ referential as a.srcKind := by
  unfold referential
  simp only [List.mem_flatMap, List.mem_filter, decide_eq_true_eq]
  exact ⟨a, ⟨ha, rfl⟩, hs⟩

/-- the referential values `new` was given, as `kwargs` of the query over the referred class -/
def kwargsOf (a : AssocStmt) (s : Row) : List (String × Val) :=
  (a.tgtKeys.zip a.srcKeys).map (fun p => (p.1, s.get p.2))

/-- the target link of association `a` (at position `n`, links `L`) in the batch relate of the new row `s`
    (position `i` of class `a.srcKind`): given that in every state the loop passes through the query's test on the
    j-th referred row answers the key predicate (`hread`), the new row gets related to exactly the matching rows -/
theorem relateLink_target (a : AssocStmt) (m : Model) (s : Row) (i n : Nat) (L : Links) (T : List Row)
    (hk : KeysOk a) (hlen : a.srcKeys.length = a.tgtKeys.length) (hne : a.srcKeys ≠ [])
    (hsrc : ∀ sk ∈ a.srcKeys, sk ∈ referential (m.assocs.map (·.1)) a.srcKind ∧ sk ∈ s.map (·.1))
    (hm : m.assocs[n]? = some (a, L)) (hres : ResolvesAt (m.assocs.map (·.1)) n a)
    (hrows : (rowsOf m.classes a.tgtKind).length = T.length)
    (hfresh : ∀ j ∈ selectIdx 0 T (fun t => matchesB a s t),
      i ∉ L.src j ∧ (a.srcMany = false → L.src j = []) ∧ j ∉ L.tgt i)
    (hcard : a.tgtMany = false → selectIdx 0 T (fun t => matchesB a s t) ≠ [] →
      L.tgt i = [] ∧ (selectIdx 0 T (fun t => matchesB a s t)).length ≤ 1)
    (hread : (∀ p ∈ keyPairs a, isNull (s.get p.1) = false) →
      ∀ L' : Links, (∀ u, u ≠ i → L'.tgt u = L.tgt u) → ∀ j t, T[j]? = some t →
        rowMatches { m with assocs := updateAt m.assocs n (fun p => (p.1, L')) } (fuelOf m) a.tgtKind j (kwargsOf a s)
          = some (matchesB a s t)) :
    relateLink (s.filter (fun p => (referential (m.assocs.map (·.1)) a.srcKind).contains p.1))
        (revKeyMap a) a.tgtKind a.srcKind i a.rel a.srcPhrase m =
      ({ m with assocs := updateAt m.assocs n (fun p => (p.1,
          relatedTo L i (selectIdx 0 T (fun t => matchesB a s t)))) }, .ok) := by
  have hget : ∀ sk ∈ a.srcKeys,
      ((s.filter (fun p => (referential (m.assocs.map (·.1)) a.srcKind).contains p.1)).lookup sk).getD .none = s.get sk := by
    intro sk hsk
    rw [lookup_filter_fst s (fun x => (referential (m.assocs.map (·.1)) a.srcKind).contains x) sk]
    have : (referential (m.assocs.map (·.1)) a.srcKind).contains sk = true := by
      simpa using (hsrc sk hsk).1
    simp only [this, if_true]
    exact (get_eq_lookup_getD s sk).symm
  have hmem : ∀ sk ∈ a.srcKeys,
      sk ∈ (s.filter (fun p => (referential (m.assocs.map (·.1)) a.srcKind).contains p.1)).map (·.1) := by
    intro sk hsk
    obtain ⟨h1, h2⟩ := hsrc sk hsk
    obtain ⟨p, hp, hpk⟩ := List.mem_map.mp h2
    refine List.mem_map.mpr ⟨p, List.mem_filter.mpr ⟨hp, ?_⟩, hpk⟩
    simpa [hpk] using h1
  unfold relateLink
  rw [revKeyMap_eq a hk.tgt]
  have c1 : ((a.tgtKeys.zip a.srcKeys).all (fun p =>
      ((s.filter (fun p => (referential (m.assocs.map (·.1)) a.srcKind).contains p.1)).map (·.1)).contains p.2)) = true := by
    simp only [List.all_eq_true, List.contains_iff_mem]
    intro p hp
    exact hmem p.2 (List.of_mem_zip hp).2
  simp only [c1, Bool.not_true, Bool.false_eq_true, if_false]
  have c2 : ((a.tgtKeys.zip a.srcKeys).any (fun p => isNull
      (((s.filter (fun p => (referential (m.assocs.map (·.1)) a.srcKind).contains p.1)).lookup p.2).getD .none)))
      = (keyPairs a).any (fun p => isNull (s.get p.1)) := by
    unfold keyPairs
    rw [any_zip_swap a.srcKeys a.tgtKeys]
    rw [Bool.eq_iff_iff]
    simp only [List.any_eq_true]
    constructor
    · rintro ⟨p, hp, hq⟩
      exact ⟨p, hp, by rw [← hget p.1 (List.of_mem_zip hp).1]; exact hq⟩
    · rintro ⟨p, hp, hq⟩
      exact ⟨p, hp, by rw [hget p.1 (List.of_mem_zip hp).1]; exact hq⟩
  rw [c2]
  by_cases hnull : (keyPairs a).any (fun p => isNull (s.get p.1))
  · -- a null referential value refers to nothing: no referred row matches
    simp only [hnull, if_true]
    have : selectIdx 0 T (fun t => matchesB a s t) = [] := by
      rw [selectIdx_congr 0 T _ (fun _ => false), selectIdx_false]
      intro t _
      simp only [List.any_eq_true] at hnull
      obtain ⟨p, hp, hq⟩ := hnull
      cases hmt : matchesB a s t with
      | false => rfl
      | true =>
        have := ((matchesB_iff a s t).mp hmt p hp).1
        simp [hq] at this
    rw [this, relatedTo_nil, updateAt_fix m.assocs n _ (a, L) hm rfl]
  · simp only [hnull, Bool.false_eq_true, if_false]
    have c3 : (a.tgtKeys.zip a.srcKeys).isEmpty = false := by
      cases hs : a.srcKeys with
      | nil => exact absurd hs hne
      | cons x xs =>
        cases ht : a.tgtKeys with
        | nil => rw [hs, ht] at hlen; simp at hlen
        | cons y ys => simp
    simp only [c3, Bool.false_eq_true, if_false]
    have hkw : (a.tgtKeys.zip a.srcKeys).map (fun p => (p.1,
        ((s.filter (fun p => (referential (m.assocs.map (·.1)) a.srcKind).contains p.1)).lookup p.2).getD .none))
        = kwargsOf a s := by
      unfold kwargsOf
      apply List.map_congr_left
      intro p hp
      rw [hget p.2 (List.of_mem_zip hp).2]
    rw [hkw, hrows]
    have hnn : ∀ p ∈ keyPairs a, isNull (s.get p.1) = false := by
      intro p hp
      cases hq : isNull (s.get p.1) with
      | false => rfl
      | true =>
        exfalso
        apply hnull
        simp only [List.any_eq_true]
        exact ⟨p, hp, hq⟩
    have hspec := relateQuery_spec a n i (fuelOf m) (kwargsOf a s)
      (fun j => (T[j]?.map (fun t => matchesB a s t)).getD false) (List.range T.length) m L hm hres
      List.nodup_range
    have hfe : (List.range T.length).filter (fun j => (T[j]?.map (fun t => matchesB a s t)).getD false)
        = selectIdx 0 T (fun t => matchesB a s t) := range_filter_eq_selectIdx T (fun t => matchesB a s t)
    rw [hfe] at hspec
    apply hspec
    · intro j _ hc
      apply hfresh
      rw [mem_selectIdx_zero]
      cases htj : T[j]? with
      | none => simp [htj] at hc
      | some t => exact ⟨t, rfl, by simpa [htj] using hc⟩
    · exact hcard
    · intro L' hL' j hj
      have hjlt : j < T.length := List.mem_range.mp hj
      have htj : T[j]? = some T[j] := List.getElem?_eq_getElem hjlt
      rw [hread hnn L' hL' j _ htj, htj]
      rfl

end Pyx.Load

namespace Pyx.Load

/-! ### the batch relate of one `new`: every association whose referring class is the new row's class gets the
    new row related to its key-matching referred rows; nothing else changes -/

/-- `m'` differs from `m0` at most in the links of the new row `(kind, i)`: same classes, same association
    statements, and every referred-row list `tgt u` is as in `m0` unless it is the new row's -/
structure Agrees (m0 m' : Model) (kind : String) (i : Nat) : Prop where
  classes : m'.classes = m0.classes
  stmts : m'.assocs.map (·.1) = m0.assocs.map (·.1)
  tgt : ∀ (q : Nat) p0 p', m0.assocs[q]? = some p0 → m'.assocs[q]? = some p' →
    ∀ u, (p0.1.srcKind ≠ kind ∨ u ≠ i) → p'.2.tgt u = p0.2.tgt u

theorem Agrees.refl (m : Model) (kind : String) (i : Nat) : Agrees m m kind i :=
  ⟨rfl, rfl, fun q p0 p' h0 h' u _ => by rw [h0] at h'; cases h'; rfl⟩

theorem getElem?_updateAt {α : Type} (l : List α) (n k : Nat) (f : α → α) :
    (updateAt l n f)[k]? = if k = n then l[k]?.map f else l[k]? := by
  by_cases h : k = n
  · subst h
    cases hl : l[k]? with
    | none =>
      simp only [if_true, Option.map_none]
      have : ∀ (l : List α) (k : Nat), l[k]? = none → (updateAt l k f)[k]? = none := by
        intro l
        induction l with
        | nil => intro k _; rfl
        | cons y ys ih =>
          intro k hk
          cases k with
          | zero => simp at hk
          | succ k => simp only [List.getElem?_cons_succ] at hk; simp [updateAt, ih k hk]
      exact this l k hl
    | some x => simp [getElem?_updateAt_self l k f x hl]
  · simp [h, getElem?_updateAt_ne l n k f h]

/-- replacing the links of an association whose referring class is `kind` by links that agree off row `i` -/
theorem Agrees.updateAt {m0 m' : Model} {kind : String} {i : Nat} (h : Agrees m0 m' kind i) (n : Nat)
    (a : AssocStmt) (L L' : Links) (hm : m'.assocs[n]? = some (a, L)) (hk : a.srcKind = kind)
    (hL : ∀ u, u ≠ i → L'.tgt u = L.tgt u) :
    Agrees m0 { m' with assocs := Pyx.Load.updateAt m'.assocs n (fun p => (p.1, L')) } kind i := by
  refine ⟨h.classes, ?_, ?_⟩
  · show (Pyx.Load.updateAt m'.assocs n (fun p => (p.1, L'))).map (·.1) = _
    rw [map_fst_updateAt m'.assocs n (fun p => (p.1, L')) (fun _ => rfl)]
    exact h.stmts
  · intro q p0 p' h0 h' u hu
    simp only [getElem?_updateAt] at h'
    by_cases hq : q = n
    · subst hq
      simp only [if_true, hm, Option.map_some, Option.some.injEq] at h'
      subst h'
      simp only
      have hst : p0.1 = a := by
        have h1 := congrArg (fun l => l[q]?) h.stmts
        simp only [List.getElem?_map, hm, h0, Option.map_some, Option.some.injEq] at h1
        exact h1.symm
      rcases hu with hu | hu
      · exact absurd (by rw [hst]; exact hk) hu
      · rw [hL u hu]
        exact h.tgt q p0 (a, L) h0 hm u (Or.inr hu)
    · simp only [hq, if_false] at h'
      exact h.tgt q p0 p' h0 h' u hu

/-- what the batch relate does to one association -/
def stepAssoc (kind : String) (s : Row) (i : Nat) (rowsRaw : String → List Row) (p : AssocStmt × Links) :
    AssocStmt × Links :=
  if p.1.srcKind = kind then
    (p.1, relatedTo p.2 i (selectIdx 0 (rowsRaw p.1.tgtKind) (fun t => matchesB p.1 s t)))
  else p

theorem stepAssoc_fst (kind : String) (s : Row) (i : Nat) (rowsRaw : String → List Row) (p : AssocStmt × Links) :
    (stepAssoc kind s i rowsRaw p).1 = p.1 := by
  unfold stepAssoc
  by_cases h : p.1.srcKind = kind <;> simp [h]

/-- the referential values `new` collects from its arguments -/
def refsOf (all : List AssocStmt) (kind : String) (s : Row) : List (String × Val) :=
  s.filter (fun p => (referential all kind).contains p.1)

/-- everything `relateLinks` needs to know about one association (at position `n`, with links `L`); `m0` is the
    state in which the batch relate starts (the new row stored, no link of it yet) -/
structure LinkReady (all : List AssocStmt) (kind : String) (s : Row) (i : Nat) (m0 : Model)
    (rowsRaw : String → List Row) (n : Nat) (a : AssocStmt) (L : Links) : Prop where
  keys : KeysOk a
  len : a.srcKeys.length = a.tgtKeys.length
  ne : a.srcKeys ≠ []
  nonrefl : a.srcKind ≠ a.tgtKind
  mem : a ∈ all
  resolves : a.srcKind = kind → ResolvesAt all n a
  given : a.srcKind = kind → ∀ sk ∈ a.srcKeys, sk ∈ s.map (·.1)
  rowsLen : a.srcKind = kind → (rowsOf m0.classes a.tgtKind).length = (rowsRaw a.tgtKind).length
  /-- in every state the loop passes through, the query's test on a referred row answers the key predicate -/
  reads : a.srcKind = kind → (∀ p ∈ keyPairs a, isNull (s.get p.1) = false) →
    ∀ m', Agrees m0 m' kind i → ∀ j t, (rowsRaw a.tgtKind)[j]? = some t →
      rowMatches m' (fuelOf m0) a.tgtKind j (kwargsOf a s) = some (matchesB a s t)
  /-- the new row as a REFERRED row of `a`: its link from the referring class finds nothing to relate -/
  srcSkip : a.tgtKind = kind → ∀ m', Agrees m0 m' kind i →
    relateLink (refsOf all kind s) (keyMap a) a.srcKind kind i a.rel a.tgtPhrase m' = (m', .ok)
  fresh : a.srcKind = kind → ∀ j ∈ selectIdx 0 (rowsRaw a.tgtKind) (fun t => matchesB a s t),
    i ∉ L.src j ∧ (a.srcMany = false → L.src j = []) ∧ j ∉ L.tgt i
  card : a.srcKind = kind → a.tgtMany = false →
    selectIdx 0 (rowsRaw a.tgtKind) (fun t => matchesB a s t) ≠ [] →
    L.tgt i = [] ∧ (selectIdx 0 (rowsRaw a.tgtKind) (fun t => matchesB a s t)).length ≤ 1

theorem updateAt_append_length {α : Type} (l1 : List α) (x : α) (l2 : List α) (f : α → α) :
    updateAt (l1 ++ x :: l2) l1.length f = l1 ++ f x :: l2 := by
  induction l1 with
  | nil => rfl
  | cons y ys ih => simp [updateAt, ih]

theorem fuelOf_classes {m m' : Model} (h : m'.classes = m.classes) : fuelOf m' = fuelOf m := by
  unfold fuelOf; rw [h]

theorem relateLinks_spec (kind : String) (s : Row) (i : Nat) (rowsRaw : String → List Row) (all : List AssocStmt)
    (m0 : Model) (rest : List (AssocStmt × Links)) :
    ∀ (done : List (AssocStmt × Links)) (m : Model), m.assocs = done ++ rest →
      (done ++ rest).map (·.1) = all → Agrees m0 m kind i →
      (∀ q p, rest[q]? = some p → LinkReady all kind s i m0 rowsRaw (done.length + q) p.1 p.2) →
      relateLinks (refsOf all kind s) kind i (linksOfKind (rest.map (·.1)) kind) m =
        ({ m with assocs := done ++ rest.map (stepAssoc kind s i rowsRaw) }, .ok) := by
  induction rest with
  | nil =>
    intro done m hm _ _ _
    simp only [linksOfKind, List.map_nil, List.flatMap_nil, relateLinks, List.append_nil] at hm ⊢
    rw [← hm]
  | cons p rest ih =>
    intro done m hm hall hag hready
    obtain ⟨a, L⟩ := p
    have hr := hready 0 (a, L) rfl
    simp only [Nat.add_zero] at hr
    have hmn : m.assocs[done.length]? = some (a, L) := by
      rw [hm]; simp
    have hmap : m.assocs.map (·.1) = all := by rw [hm]; exact hall
    have hrest : ∀ (m' : Model) (x : AssocStmt × Links), x.1 = a → Agrees m0 m' kind i →
        m'.assocs = (done ++ [x]) ++ rest →
        relateLinks (refsOf all kind s) kind i (linksOfKind (rest.map (·.1)) kind) m' =
        ({ m' with assocs := (done ++ [x]) ++ rest.map (stepAssoc kind s i rowsRaw) }, .ok) := by
      intro m' x hx hag' hm'
      apply ih (done ++ [x]) m' hm' _ hag'
      · intro q p hq
        have := hready (q + 1) p (by simpa using hq)
        have e : (done ++ [x]).length + q = done.length + (q + 1) := by simp; omega
        rw [e]
        exact this
      · rw [← hall]; simp [hx]
    simp only [List.map_cons, linksOfKind, List.flatMap_cons]
    by_cases hsrc : a.srcKind = kind
    · -- the new row refers across `a`
      have htgt : ¬ a.tgtKind = kind := fun h => hr.nonrefl (hsrc.trans h.symm)
      simp only [htgt, if_false, hsrc, if_true, List.nil_append, List.singleton_append, relateLinks]
      subst hsrc
      have hsrcs : ∀ sk ∈ a.srcKeys, sk ∈ referential (m.assocs.map (·.1)) a.srcKind ∧ sk ∈ s.map (·.1) := by
        intro sk hsk
        rw [hmap]
        exact ⟨mem_referential hr.mem hsk, hr.given rfl sk hsk⟩
      have h1 := relateLink_target a m s i done.length L (rowsRaw a.tgtKind) hr.keys hr.len hr.ne hsrcs hmn
        (by rw [hmap]; exact hr.resolves rfl)
        (by rw [hag.classes]; exact hr.rowsLen rfl) (hr.fresh rfl) (hr.card rfl)
        (by
          intro hnn L' hL' j t htj
          rw [fuelOf_classes hag.classes]
          exact hr.reads rfl hnn _ (hag.updateAt done.length a L L' hmn rfl hL') j t htj)
      rw [hmap] at h1
      unfold refsOf
      rw [h1]
      simp only
      have hupd : updateAt m.assocs done.length (fun p => (p.1, relatedTo L i
          (selectIdx 0 (rowsRaw a.tgtKind) (fun t => matchesB a s t)))) =
          (done ++ [stepAssoc a.srcKind s i rowsRaw (a, L)]) ++ rest := by
        rw [hm, updateAt_append_length]
        simp [stepAssoc]
      have hag1 : Agrees m0 { m with assocs := updateAt m.assocs done.length (fun p => (p.1, relatedTo L i
          (selectIdx 0 (rowsRaw a.tgtKind) (fun t => matchesB a s t)))) } a.srcKind i :=
        hag.updateAt done.length a L _ hmn rfl (by intro u hu; simp [relatedTo, hu])
      have := hrest _ (stepAssoc a.srcKind s i rowsRaw (a, L)) (stepAssoc_fst _ _ _ _ _) hag1 hupd
      simp only [linksOfKind, refsOf] at this
      rw [this]
      simp
    · by_cases htgt : a.tgtKind = kind
      · -- the new row is a referred row of `a`
        simp only [htgt, if_true, hsrc, if_false, List.append_nil, List.singleton_append, relateLinks]
        have hskip := hr.srcSkip htgt m hag
        rw [hskip]
        simp only
        have := hrest m (a, L) rfl hag (by rw [hm]; simp)
        simp only [linksOfKind] at this
        rw [this]
        simp [stepAssoc, hsrc]
      · simp only [htgt, hsrc, if_false, List.append_nil, List.nil_append]
        have := hrest m (a, L) rfl hag (by rw [hm]; simp)
        simp only [linksOfKind] at this
        rw [this]
        simp [stepAssoc, hsrc]

end Pyx.Load

namespace Pyx.Load

/-! ### reads of attributes that are stored (not referential) -/

theorem readAttr_stored (m : Model) (f : Nat) (kind : String) (i : Nat) (x : String)
    (h : x ∉ referential (m.assocs.map (·.1)) kind) :
    readAttr m (f + 1) kind i x = some (((rowsOf m.classes kind)[i]?.getD []).get x) := by
  have : (referential (m.assocs.map (·.1)) kind).contains x = false := by simpa using h
  simp only [readAttr, this, Bool.false_eq_true, if_false]

theorem rowMatches_of_reads (m : Model) (fuel : Nat) (kind : String) (j : Nat) (kwargs : List (String × Val))
    (r : String → Val) (h : ∀ kv ∈ kwargs, readAttr m fuel kind j kv.1 = some (r kv.1)) :
    rowMatches m fuel kind j kwargs = some (kwargs.all (fun kv => r kv.1 == kv.2)) := by
  induction kwargs with
  | nil => rfl
  | cons kv rest ih =>
    obtain ⟨n, v⟩ := kv
    simp only [rowMatches, h (n, v) List.mem_cons_self, List.all_cons]
    by_cases hv : r n == v
    · simp only [hv, if_true, Bool.true_and]
      exact ih (fun kv hkv => h kv (List.mem_cons_of_mem _ hkv))
    · simp [hv]

theorem fuelOf_pos (m : Model) : ∃ f, fuelOf m = f + 1 := ⟨_, rfl⟩

/-- with no chained key the query's test reads stored identifying values only: it answers the key predicate -/
theorem rowMatches_nochain (a : AssocStmt) (m' : Model) (fuel : Nat) (s t : Row) (j : Nat)
    (hnc : ∀ tk ∈ a.tgtKeys, tk ∉ referential (m'.assocs.map (·.1)) a.tgtKind)
    (hrow : (rowsOf m'.classes a.tgtKind)[j]? = some (stripRow (referential (m'.assocs.map (·.1)) a.tgtKind) t))
    (hnn : ∀ p ∈ keyPairs a, isNull (s.get p.1) = false) :
    rowMatches m' (fuel + 1) a.tgtKind j (kwargsOf a s) = some (matchesB a s t) := by
  rw [rowMatches_of_reads m' (fuel + 1) a.tgtKind j (kwargsOf a s) (fun x => t.get x)]
  · congr 1
    unfold kwargsOf matchesB
    rw [List.all_map, all_zip_swap a.srcKeys a.tgtKeys]
    apply all_congr_mem
    intro p hp
    simp only [Function.comp, hnn p hp, Bool.not_false, Bool.true_and]
    rw [Bool.eq_iff_iff]
    simp only [beq_iff_eq]
    exact eq_comm
  · intro kv hkv
    unfold kwargsOf at hkv
    obtain ⟨p, hp, rfl⟩ := List.mem_map.mp hkv
    have htk := hnc p.1 (List.of_mem_zip hp).1
    rw [readAttr_stored m' fuel a.tgtKind j p.1 htk, hrow]
    simp only [Option.getD_some]
    rw [get_stripRow _ _ _ htk]

/-- with no chained key the new row, as a referred row, has an identifying attribute that is not among the
    referential values given: the link from the referring class is skipped -/
theorem relateLink_source_skip (b : AssocStmt) (m : Model) (refs : List (String × Val)) (all : List AssocStmt) (i : Nat)
    (hk : KeysOk b) (hlen : b.srcKeys.length = b.tgtKeys.length) (hne : b.srcKeys ≠ [])
    (hrefs : ∀ x ∈ refs.map (·.1), x ∈ referential all b.tgtKind)
    (hnc : ∀ tk ∈ b.tgtKeys, tk ∉ referential all b.tgtKind) :
    relateLink refs (keyMap b) b.srcKind b.tgtKind i b.rel b.tgtPhrase m = (m, .ok) := by
  unfold relateLink
  rw [keyMap_eq b hk.src]
  have : ((keyPairs b).all (fun p => (refs.map (·.1)).contains p.2)) = false := by
    unfold keyPairs
    cases hs : b.srcKeys with
    | nil => exact absurd hs hne
    | cons x xs =>
      cases ht : b.tgtKeys with
      | nil => rw [hs, ht] at hlen; simp at hlen
      | cons y ys =>
        have hy : ¬ y ∈ refs.map (·.1) := fun h => hnc y (by rw [ht]; exact List.mem_cons_self) (hrefs y h)
        simp only [List.zip_cons_cons, List.all_cons, Bool.and_eq_false_imp]
        intro h
        simp only [List.contains_iff_mem] at h
        exact absurd h hy
  simp only [this, Bool.not_false, if_true]

end Pyx.Load
