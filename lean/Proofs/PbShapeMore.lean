import Proofs.PbShape

/-!
  C06 source tie, continued: more `accept_*` handlers of the generated IR (`Pyx.Gen.PbShape`) proved equal — under the
  generic interpreter of Proofs/PbShape.lean — to the clauses of `buildStmt` / `buildExpr` of PyxModel/Prebuild/Flat.lean.
-/
set_option linter.unusedVariables false
set_option linter.unusedSimpArgs false
namespace Pyx.PbShape
open Pyx.Prebuild Pyx.Prebuild.Flat Pyx.Gen.PbShape

/-! ### the look-ups of a statement: `find_symbol` after `find_symbol` -/

/-- a failure flag set BEFORE a look-up is the same flag set after it (the model fails at `needVar`, the source at the
    asserting `relate` that comes later) -/
theorem lookupVar_fail (fc : FCtx) (n : String) (st : St) :
    lookupVar fc n st.fail = ((lookupVar fc n st).1, (lookupVar fc n st).2.fail) := by
  obtain ⟨pop, scopes, ok⟩ := st
  unfold lookupVar
  simp only [St.fail]
  split
  · rfl
  · split
    · rfl
    · split
      · split
        · simp [newVar, St.new, St.guard, St.fail]; split <;> simp
        · rfl
      · rfl

theorem lookupVar_fail' (fc : FCtx) (n : String) (st : St) :
    lookupVar fc n { pop := st.pop, scopes := st.scopes, ok := false }
      = ((lookupVar fc n st).1, { pop := (lookupVar fc n st).2.pop, scopes := (lookupVar fc n st).2.scopes, ok := false }) :=
  lookupVar_fail fc n st

/-- what a look-up answers is a V_VAR row of the population it leaves -/
def VarAns (r : Option Nat × St) : Prop := ∀ v, r.1 = some v → ∃ nm b, r.2.pop[v]? = some (.var nm b)

theorem VarAns.of_eq {r : Option Nat × St} {v : Nat} {nm : String} {b : Nat} (h : r.1 = some v)
    (hv : r.2.pop[v]? = some (.var nm b)) : VarAns r := by
  intro w hw; rw [h] at hw; cases hw; exact ⟨nm, b, hv⟩

theorem VarAns.of_none {r : Option Nat × St} (h : r.1 = none) : VarAns r := by
  intro w hw; rw [h] at hw; cases hw

theorem getElem?_lt {α} {l : List α} {i : Nat} {x : α} (h : l[i]? = some x) : i < l.length := by
  rcases Nat.lt_or_ge i l.length with h' | h'
  · exact h'
  · simp [List.getElem?_eq_none h'] at h

theorem getElem?_app {α} {l : List α} {i : Nat} {x : α} (h : l[i]? = some x) (d : List α) : (l ++ d)[i]? = some x := by
  rw [List.getElem?_append_left (getElem?_lt h)]; exact h

theorem set_last {α} (P : List α) (r0 r' : α) : (P ++ [r0]).set P.length r' = P ++ [r'] := by simp

/-- the unfolding shared by the statement handlers below -/
local macro "pb_simp" "[" ts:Lean.Parser.Tactic.simpLemma,* "]" : tactic =>
  `(tactic| simp [callFn, bindParams, exec, ↓call_act_smt, evalE, evalA, evalKw, Fr.set, Fr.get, List.lookup,
      blankRow, St.new, relateV, linkFrom, setRef, partnerOk, linkKey, setElem, buildStmt, atomCall, needVar, lookupVar_fail',
      gfail, St.fail, kwStr, $ts,*])

theorem relate_eq (fc : FCtx) (nd : Node) (g : G) (n : Nat) (a b r ph : String) (hb : BlkOK g.st)
    (ha : nd.strs.lookup "from_variable_name" = some a) (hbn : nd.strs.lookup "to_variable_name" = some b)
    (hr : nd.strs.lookup "rel_id" = some r) (hph : nd.strs.lookup "phrase" = some ph)
    (hva : VarAns (lookupVar fc a (newSmt none g.st).2))
    (hvb : VarAns (lookupVar fc b (lookupVar fc a (newSmt none g.st).2).2)) :
    callFn (mkEnv fc nd) (n + 20) accept_RelateNode [.node] [] g
      = some (.inst (buildStmt fc none (.relate a b r ph) g.st).1,
              { g with st := (buildStmt fc none (.relate a b r ph) g.st).2 }) := by
  obtain ⟨e1, he1⟩ := lookupVar_pop fc a (newSmt none g.st).2
  obtain ⟨e2, he2⟩ := lookupVar_pop fc b (lookupVar fc a (newSmt none g.st).2).2
  have hs : (lookupVar fc b (lookupVar fc a (newSmt none g.st).2).2).2.pop[(newSmt none g.st).1]?
      = some (.smt (curBlkD g.st.scopes) none) := by
    rw [he2, he1]; simp [newSmt, St.new]
  have hva' : ∀ v, (lookupVar fc a (newSmt none g.st).2).1 = some v →
      ∃ nm b', (lookupVar fc b (lookupVar fc a (newSmt none g.st).2).2).2.pop[v]? = some (.var nm b') := by
    intro v hv; obtain ⟨nm, b', h⟩ := hva v hv; exact ⟨nm, b', by rw [he2]; exact getElem?_app h _⟩
  unfold VarAns at hvb
  clear he1 he2 hva
  generalize hL1 : lookupVar fc a (newSmt none g.st).2 = L1 at hs hva' hvb
  obtain ⟨l1, S1⟩ := L1
  simp only at hs hva' hvb
  generalize hL2 : lookupVar fc b S1 = L2 at hs hva' hvb
  obtain ⟨l2, ⟨P, sc, ok⟩⟩ := L2
  simp only at hs hva' hvb
  have hslt := getElem?_lt hs
  cases l1 with
  | none =>
    cases l2 with
    | none => pb_simp [accept_RelateNode, hb, ha, hbn, hr, hph, hL1, hL2, hs, List.getElem?_append_left hslt]
    | some v2 =>
      obtain ⟨nm2, b2, hv2⟩ := hvb v2 rfl
      have hv2lt := getElem?_lt hv2
      pb_simp [accept_RelateNode, hb, ha, hbn, hr, hph, hL1, hL2, hs, List.getElem?_append_left hslt, hv2,
        List.getElem?_append_left hv2lt]
  | some v1 =>
    obtain ⟨nm1, b1, hv1⟩ := hva' v1 rfl
    have hv1lt := getElem?_lt hv1
    cases l2 with
    | none =>
      pb_simp [accept_RelateNode, hb, ha, hbn, hr, hph, hL1, hL2, hs, List.getElem?_append_left hslt, hv1,
        List.getElem?_append_left hv1lt]
    | some v2 =>
      obtain ⟨nm2, b2, hv2⟩ := hvb v2 rfl
      have hv2lt := getElem?_lt hv2
      pb_simp [accept_RelateNode, hb, ha, hbn, hr, hph, hL1, hL2, hs, List.getElem?_append_left hslt, hv1,
        List.getElem?_append_left hv1lt, hv2, List.getElem?_append_left hv2lt]

theorem unrelate_eq (fc : FCtx) (nd : Node) (g : G) (n : Nat) (a b r ph : String) (hb : BlkOK g.st)
    (ha : nd.strs.lookup "from_variable_name" = some a) (hbn : nd.strs.lookup "to_variable_name" = some b)
    (hr : nd.strs.lookup "rel_id" = some r) (hph : nd.strs.lookup "phrase" = some ph)
    (hva : VarAns (lookupVar fc a (newSmt none g.st).2))
    (hvb : VarAns (lookupVar fc b (lookupVar fc a (newSmt none g.st).2).2)) :
    callFn (mkEnv fc nd) (n + 20) accept_UnrelateNode [.node] [] g
      = some (.inst (buildStmt fc none (.unrelate a b r ph) g.st).1,
              { g with st := (buildStmt fc none (.unrelate a b r ph) g.st).2 }) := by
  obtain ⟨e1, he1⟩ := lookupVar_pop fc a (newSmt none g.st).2
  obtain ⟨e2, he2⟩ := lookupVar_pop fc b (lookupVar fc a (newSmt none g.st).2).2
  have hs : (lookupVar fc b (lookupVar fc a (newSmt none g.st).2).2).2.pop[(newSmt none g.st).1]?
      = some (.smt (curBlkD g.st.scopes) none) := by
    rw [he2, he1]; simp [newSmt, St.new]
  have hva' : ∀ v, (lookupVar fc a (newSmt none g.st).2).1 = some v →
      ∃ nm b', (lookupVar fc b (lookupVar fc a (newSmt none g.st).2).2).2.pop[v]? = some (.var nm b') := by
    intro v hv; obtain ⟨nm, b', h⟩ := hva v hv; exact ⟨nm, b', by rw [he2]; exact getElem?_app h _⟩
  unfold VarAns at hvb
  clear he1 he2 hva
  generalize hL1 : lookupVar fc a (newSmt none g.st).2 = L1 at hs hva' hvb
  obtain ⟨l1, S1⟩ := L1
  simp only at hs hva' hvb
  generalize hL2 : lookupVar fc b S1 = L2 at hs hva' hvb
  obtain ⟨l2, ⟨P, sc, ok⟩⟩ := L2
  simp only at hs hva' hvb
  have hslt := getElem?_lt hs
  cases l1 with
  | none =>
    cases l2 with
    | none => pb_simp [accept_UnrelateNode, hb, ha, hbn, hr, hph, hL1, hL2, hs, List.getElem?_append_left hslt]
    | some v2 =>
      obtain ⟨nm2, b2, hv2⟩ := hvb v2 rfl
      have hv2lt := getElem?_lt hv2
      pb_simp [accept_UnrelateNode, hb, ha, hbn, hr, hph, hL1, hL2, hs, List.getElem?_append_left hslt, hv2,
        List.getElem?_append_left hv2lt]
  | some v1 =>
    obtain ⟨nm1, b1, hv1⟩ := hva' v1 rfl
    have hv1lt := getElem?_lt hv1
    cases l2 with
    | none =>
      pb_simp [accept_UnrelateNode, hb, ha, hbn, hr, hph, hL1, hL2, hs, List.getElem?_append_left hslt, hv1,
        List.getElem?_append_left hv1lt]
    | some v2 =>
      obtain ⟨nm2, b2, hv2⟩ := hvb v2 rfl
      have hv2lt := getElem?_lt hv2
      pb_simp [accept_UnrelateNode, hb, ha, hbn, hr, hph, hL1, hL2, hs, List.getElem?_append_left hslt, hv1,
        List.getElem?_append_left hv1lt, hv2, List.getElem?_append_left hv2lt]

theorem relate_using_eq (fc : FCtx) (nd : Node) (g : G) (n : Nat) (a b r ph u : String) (hb : BlkOK g.st)
    (ha : nd.strs.lookup "from_variable_name" = some a) (hbn : nd.strs.lookup "to_variable_name" = some b)
    (hun : nd.strs.lookup "using_variable_name" = some u)
    (hr : nd.strs.lookup "rel_id" = some r) (hph : nd.strs.lookup "phrase" = some ph)
    (hva : VarAns (lookupVar fc a (newSmt none g.st).2))
    (hvb : VarAns (lookupVar fc b (lookupVar fc a (newSmt none g.st).2).2))
    (hvc : VarAns (lookupVar fc u (lookupVar fc b (lookupVar fc a (newSmt none g.st).2).2).2)) :
    callFn (mkEnv fc nd) (n + 20) accept_RelateUsingNode [.node] [] g
      = some (.inst (buildStmt fc none (.relateU a b r ph u) g.st).1,
              { g with st := (buildStmt fc none (.relateU a b r ph u) g.st).2 }) := by
  obtain ⟨e1, he1⟩ := lookupVar_pop fc a (newSmt none g.st).2
  obtain ⟨e2, he2⟩ := lookupVar_pop fc b (lookupVar fc a (newSmt none g.st).2).2
  obtain ⟨e3, he3⟩ := lookupVar_pop fc u (lookupVar fc b (lookupVar fc a (newSmt none g.st).2).2).2
  have hs : (lookupVar fc u (lookupVar fc b (lookupVar fc a (newSmt none g.st).2).2).2).2.pop[(newSmt none g.st).1]?
      = some (.smt (curBlkD g.st.scopes) none) := by
    rw [he3, he2, he1]; simp [newSmt, St.new]
  have hva' : ∀ v, (lookupVar fc a (newSmt none g.st).2).1 = some v →
      ∃ nm b', (lookupVar fc u (lookupVar fc b (lookupVar fc a (newSmt none g.st).2).2).2).2.pop[v]? = some (.var nm b') := by
    intro v hv; obtain ⟨nm, b', h⟩ := hva v hv
    exact ⟨nm, b', by rw [he3, he2]; exact getElem?_app (getElem?_app h _) _⟩
  have hvb' : ∀ v, (lookupVar fc b (lookupVar fc a (newSmt none g.st).2).2).1 = some v →
      ∃ nm b', (lookupVar fc u (lookupVar fc b (lookupVar fc a (newSmt none g.st).2).2).2).2.pop[v]? = some (.var nm b') := by
    intro v hv; obtain ⟨nm, b', h⟩ := hvb v hv
    exact ⟨nm, b', by rw [he3]; exact getElem?_app h _⟩
  unfold VarAns at hvc
  clear he1 he2 he3 hva hvb
  generalize hL1 : lookupVar fc a (newSmt none g.st).2 = L1 at hs hva' hvb' hvc
  obtain ⟨l1, S1⟩ := L1
  simp only at hs hva' hvb' hvc
  generalize hL2 : lookupVar fc b S1 = L2 at hs hva' hvb' hvc
  obtain ⟨l2, S2⟩ := L2
  simp only at hs hva' hvb' hvc
  generalize hL3 : lookupVar fc u S2 = L3 at hs hva' hvb' hvc
  obtain ⟨l3, ⟨P, sc, ok⟩⟩ := L3
  simp only at hs hva' hvb' hvc
  have hslt := getElem?_lt hs
  cases l1 with
  | none =>
    cases l2 with
    | none =>
      cases l3 with
      | none =>
        pb_simp [accept_RelateUsingNode, hb, ha, hbn, hun, hr, hph, hL1, hL2, hL3, hs, List.getElem?_append_left hslt]
      | some v3 =>
        obtain ⟨nm3, b3, hv3⟩ := hvc v3 rfl
        have hv3lt := getElem?_lt hv3
        pb_simp [accept_RelateUsingNode, hb, ha, hbn, hun, hr, hph, hL1, hL2, hL3, hs, List.getElem?_append_left hslt, hv3, List.getElem?_append_left hv3lt]
    | some v2 =>
      obtain ⟨nm2, b2, hv2⟩ := hvb' v2 rfl
      have hv2lt := getElem?_lt hv2
      cases l3 with
      | none =>
        pb_simp [accept_RelateUsingNode, hb, ha, hbn, hun, hr, hph, hL1, hL2, hL3, hs, List.getElem?_append_left hslt, hv2, List.getElem?_append_left hv2lt]
      | some v3 =>
        obtain ⟨nm3, b3, hv3⟩ := hvc v3 rfl
        have hv3lt := getElem?_lt hv3
        pb_simp [accept_RelateUsingNode, hb, ha, hbn, hun, hr, hph, hL1, hL2, hL3, hs, List.getElem?_append_left hslt, hv2, List.getElem?_append_left hv2lt, hv3, List.getElem?_append_left hv3lt]
  | some v1 =>
    obtain ⟨nm1, b1, hv1⟩ := hva' v1 rfl
    have hv1lt := getElem?_lt hv1
    cases l2 with
    | none =>
      cases l3 with
      | none =>
        pb_simp [accept_RelateUsingNode, hb, ha, hbn, hun, hr, hph, hL1, hL2, hL3, hs, List.getElem?_append_left hslt, hv1, List.getElem?_append_left hv1lt]
      | some v3 =>
        obtain ⟨nm3, b3, hv3⟩ := hvc v3 rfl
        have hv3lt := getElem?_lt hv3
        pb_simp [accept_RelateUsingNode, hb, ha, hbn, hun, hr, hph, hL1, hL2, hL3, hs, List.getElem?_append_left hslt, hv1, List.getElem?_append_left hv1lt, hv3, List.getElem?_append_left hv3lt]
    | some v2 =>
      obtain ⟨nm2, b2, hv2⟩ := hvb' v2 rfl
      have hv2lt := getElem?_lt hv2
      cases l3 with
      | none =>
        pb_simp [accept_RelateUsingNode, hb, ha, hbn, hun, hr, hph, hL1, hL2, hL3, hs, List.getElem?_append_left hslt, hv1, List.getElem?_append_left hv1lt, hv2, List.getElem?_append_left hv2lt]
      | some v3 =>
        obtain ⟨nm3, b3, hv3⟩ := hvc v3 rfl
        have hv3lt := getElem?_lt hv3
        pb_simp [accept_RelateUsingNode, hb, ha, hbn, hun, hr, hph, hL1, hL2, hL3, hs, List.getElem?_append_left hslt, hv1, List.getElem?_append_left hv1lt, hv2, List.getElem?_append_left hv2lt, hv3, List.getElem?_append_left hv3lt]

theorem unrelate_using_eq (fc : FCtx) (nd : Node) (g : G) (n : Nat) (a b r ph u : String) (hb : BlkOK g.st)
    (ha : nd.strs.lookup "from_variable_name" = some a) (hbn : nd.strs.lookup "to_variable_name" = some b)
    (hun : nd.strs.lookup "using_variable_name" = some u)
    (hr : nd.strs.lookup "rel_id" = some r) (hph : nd.strs.lookup "phrase" = some ph)
    (hva : VarAns (lookupVar fc a (newSmt none g.st).2))
    (hvb : VarAns (lookupVar fc b (lookupVar fc a (newSmt none g.st).2).2))
    (hvc : VarAns (lookupVar fc u (lookupVar fc b (lookupVar fc a (newSmt none g.st).2).2).2)) :
    callFn (mkEnv fc nd) (n + 20) accept_UnrelateUsingNode [.node] [] g
      = some (.inst (buildStmt fc none (.unrelateU a b r ph u) g.st).1,
              { g with st := (buildStmt fc none (.unrelateU a b r ph u) g.st).2 }) := by
  obtain ⟨e1, he1⟩ := lookupVar_pop fc a (newSmt none g.st).2
  obtain ⟨e2, he2⟩ := lookupVar_pop fc b (lookupVar fc a (newSmt none g.st).2).2
  obtain ⟨e3, he3⟩ := lookupVar_pop fc u (lookupVar fc b (lookupVar fc a (newSmt none g.st).2).2).2
  have hs : (lookupVar fc u (lookupVar fc b (lookupVar fc a (newSmt none g.st).2).2).2).2.pop[(newSmt none g.st).1]?
      = some (.smt (curBlkD g.st.scopes) none) := by
    rw [he3, he2, he1]; simp [newSmt, St.new]
  have hva' : ∀ v, (lookupVar fc a (newSmt none g.st).2).1 = some v →
      ∃ nm b', (lookupVar fc u (lookupVar fc b (lookupVar fc a (newSmt none g.st).2).2).2).2.pop[v]? = some (.var nm b') := by
    intro v hv; obtain ⟨nm, b', h⟩ := hva v hv
    exact ⟨nm, b', by rw [he3, he2]; exact getElem?_app (getElem?_app h _) _⟩
  have hvb' : ∀ v, (lookupVar fc b (lookupVar fc a (newSmt none g.st).2).2).1 = some v →
      ∃ nm b', (lookupVar fc u (lookupVar fc b (lookupVar fc a (newSmt none g.st).2).2).2).2.pop[v]? = some (.var nm b') := by
    intro v hv; obtain ⟨nm, b', h⟩ := hvb v hv
    exact ⟨nm, b', by rw [he3]; exact getElem?_app h _⟩
  unfold VarAns at hvc
  clear he1 he2 he3 hva hvb
  generalize hL1 : lookupVar fc a (newSmt none g.st).2 = L1 at hs hva' hvb' hvc
  obtain ⟨l1, S1⟩ := L1
  simp only at hs hva' hvb' hvc
  generalize hL2 : lookupVar fc b S1 = L2 at hs hva' hvb' hvc
  obtain ⟨l2, S2⟩ := L2
  simp only at hs hva' hvb' hvc
  generalize hL3 : lookupVar fc u S2 = L3 at hs hva' hvb' hvc
  obtain ⟨l3, ⟨P, sc, ok⟩⟩ := L3
  simp only at hs hva' hvb' hvc
  have hslt := getElem?_lt hs
  cases l1 with
  | none =>
    cases l2 with
    | none =>
      cases l3 with
      | none =>
        pb_simp [accept_UnrelateUsingNode, hb, ha, hbn, hun, hr, hph, hL1, hL2, hL3, hs, List.getElem?_append_left hslt]
      | some v3 =>
        obtain ⟨nm3, b3, hv3⟩ := hvc v3 rfl
        have hv3lt := getElem?_lt hv3
        pb_simp [accept_UnrelateUsingNode, hb, ha, hbn, hun, hr, hph, hL1, hL2, hL3, hs, List.getElem?_append_left hslt, hv3, List.getElem?_append_left hv3lt]
    | some v2 =>
      obtain ⟨nm2, b2, hv2⟩ := hvb' v2 rfl
      have hv2lt := getElem?_lt hv2
      cases l3 with
      | none =>
        pb_simp [accept_UnrelateUsingNode, hb, ha, hbn, hun, hr, hph, hL1, hL2, hL3, hs, List.getElem?_append_left hslt, hv2, List.getElem?_append_left hv2lt]
      | some v3 =>
        obtain ⟨nm3, b3, hv3⟩ := hvc v3 rfl
        have hv3lt := getElem?_lt hv3
        pb_simp [accept_UnrelateUsingNode, hb, ha, hbn, hun, hr, hph, hL1, hL2, hL3, hs, List.getElem?_append_left hslt, hv2, List.getElem?_append_left hv2lt, hv3, List.getElem?_append_left hv3lt]
  | some v1 =>
    obtain ⟨nm1, b1, hv1⟩ := hva' v1 rfl
    have hv1lt := getElem?_lt hv1
    cases l2 with
    | none =>
      cases l3 with
      | none =>
        pb_simp [accept_UnrelateUsingNode, hb, ha, hbn, hun, hr, hph, hL1, hL2, hL3, hs, List.getElem?_append_left hslt, hv1, List.getElem?_append_left hv1lt]
      | some v3 =>
        obtain ⟨nm3, b3, hv3⟩ := hvc v3 rfl
        have hv3lt := getElem?_lt hv3
        pb_simp [accept_UnrelateUsingNode, hb, ha, hbn, hun, hr, hph, hL1, hL2, hL3, hs, List.getElem?_append_left hslt, hv1, List.getElem?_append_left hv1lt, hv3, List.getElem?_append_left hv3lt]
    | some v2 =>
      obtain ⟨nm2, b2, hv2⟩ := hvb' v2 rfl
      have hv2lt := getElem?_lt hv2
      cases l3 with
      | none =>
        pb_simp [accept_UnrelateUsingNode, hb, ha, hbn, hun, hr, hph, hL1, hL2, hL3, hs, List.getElem?_append_left hslt, hv1, List.getElem?_append_left hv1lt, hv2, List.getElem?_append_left hv2lt]
      | some v3 =>
        obtain ⟨nm3, b3, hv3⟩ := hvc v3 rfl
        have hv3lt := getElem?_lt hv3
        pb_simp [accept_UnrelateUsingNode, hb, ha, hbn, hun, hr, hph, hL1, hL2, hL3, hs, List.getElem?_append_left hslt, hv1, List.getElem?_append_left hv1lt, hv2, List.getElem?_append_left hv2lt, hv3, List.getElem?_append_left hv3lt]

/-! ### return with a value, for any oracle of the expression child that only appends rows -/

theorem return_value_eq (fc : FCtx) (nd : Node) (g g1 : G) (n v b : Nat) (acc : Acc) (d : List Row) (hb : BlkOK g.st)
    (hk : nd.kids.lookup "expression" = some acc)
    (ha : acc [] { g with st := ((newSmt none g.st).2.new (.ret 0 none)).2 } = (.inst v, g1))
    (hext : g1.st.pop = ((newSmt none g.st).2.new (.ret 0 none)).2.pop ++ d)
    (hv : g1.st.pop[v]? = some (.val b)) :
    callFn (mkEnv fc nd) (n + 20) accept_ReturnNode [.node] [] g
      = some (.inst (newSmt none g.st).1,
              { g1 with st := { g1.st with pop := g1.st.pop.set ((newSmt none g.st).1 + 1)
                                                  (.ret (newSmt none g.st).1 (some v)) } }) := by
  obtain ⟨⟨pop1, sc1, ok1⟩, lv1, ty1⟩ := g1
  simp only at hext hv
  have hs1 : (newSmt none g.st).1 = g.st.pop.length := by simp [newSmt, St.new]
  have hs : pop1[g.st.pop.length]? = some (.smt (curBlkD g.st.scopes) none) := by
    rw [hext]; simp [newSmt, St.new]
  have hr : pop1[g.st.pop.length + 1]? = some (.ret 0 none) := by
    rw [hext]; simp only [newSmt, St.new, guard_pop]
    have h2 : (g.st.pop ++ [Row.smt (curBlkD g.st.scopes) none]).length = g.st.pop.length + 1 := by simp
    rw [← h2, List.getElem?_append_left (by simp)]; simp
  have hne : ¬ v = g.st.pop.length + 1 := by
    intro h; rw [h, hr] at hv; cases hv
  have hlt := getElem?_lt hr
  simp [newSmt, St.new] at ha
  have hset1 : ∀ r', (pop1.set (g.st.pop.length + 1) r')[g.st.pop.length + 1]? = some r' := by intro r'; simp [hlt]
  have hset2 : ∀ r', (pop1.set (g.st.pop.length + 1) r')[v]? = some (.val b) := by
    intro r'; rw [List.getElem?_set_ne (Ne.symm hne)]; exact hv
  simp [callFn, accept_ReturnNode, ha, hs, hr, hv, hset1, hset2, bindParams, exec, ↓call_act_smt, hb, evalE, evalA, evalKw, Fr.set, Fr.get, List.lookup,
    blankRow, St.new, relateV, linkFrom, newSmt, setRef, partnerOk, linkKey, mkEnv_nd, hk]

section Compound
variable (fc : FCtx) (nd : Node) (g g1 g2 : G) (n v k b bb : Nat) (pp : Option Nat) (o : Bool) (accE accB : Acc)
    (hb : BlkOK g.st)
    (hkE : nd.kids.lookup "expression" = some accE) (hkB : nd.kids.lookup "block" = some accB)
    (haE : accE [] { g with st := (newSmt none g.st).2 } = (.inst v, g1)) (haB : accB [] g1 = (.inst k, g2))
    (hs : g2.st.pop[(newSmt none g.st).1]? = some (.smt bb pp))
    (hv : g2.st.pop[v]? = some (.val b)) (hk : g2.st.pop[k]? = some (.blk o))
include hb hkE hkB haE haB hs hv hk

theorem while_eq :
    callFn (mkEnv fc nd) (n + 20) accept_WhileNode [.node] [] g
      = some (.inst (newSmt none g.st).1, { g2 with st := (g2.st.new (.whl (newSmt none g.st).1 k v)).2 }) := by
  obtain ⟨⟨pop2, sc2, ok2⟩, lv2, ty2⟩ := g2
  simp only at hs hv hk
  have hslt := getElem?_lt hs
  have hvlt := getElem?_lt hv
  have hklt := getElem?_lt hk
  simp [callFn, accept_WhileNode, bindParams, exec, ↓call_act_smt, hb, evalE, evalA, evalKw, Fr.set, Fr.get, List.lookup,
    blankRow, St.new, relateV, linkFrom, setRef, partnerOk, linkKey, mkEnv_nd, hkE, hkB, haE, haB, hs, hv, hk,
    List.getElem?_append_left hslt, List.getElem?_append_left hvlt, List.getElem?_append_left hklt]

end Compound
/-! ### if / elif / else, for any oracles of the children -/

/-- accepting an optional child (`self.accept(None)` answers None) -/
def kid (nd : Node) (c : String) : Acc := match nd.kids.lookup c with | some a => a | none => fun _ g => (.none, g)

theorem else_eq (fc : FCtx) (nd : Node) (g g1 : G) (n k i si bi vi : Nat) (bb : Nat) (pp : Option Nat) (o : Bool) (accB : Acc)
    (hb : BlkOK g.st) (hkB : nd.kids.lookup "block" = some accB)
    (haB : accB [] { g with st := (newSmt none g.st).2 } = (.inst k, g1))
    (hs : g1.st.pop[(newSmt none g.st).1]? = some (.smt bb pp))
    (hk : g1.st.pop[k]? = some (.blk o)) (hi : g1.st.pop[i]? = some (.if_ si bi vi)) :
    callFn (mkEnv fc nd) (n + 20) accept_ElseNode [.node] [("act_if", .inst i)] g
      = some (.inst (newSmt none g.st).1, { g1 with st := (g1.st.new (.e (newSmt none g.st).1 k si)).2 }) := by
  obtain ⟨⟨pop1, sc1, ok1⟩, lv1, ty1⟩ := g1
  simp only at hs hk hi
  have hslt := getElem?_lt hs
  have hklt := getElem?_lt hk
  have hilt := getElem?_lt hi
  simp [callFn, accept_ElseNode, bindParams, exec, ↓call_act_smt, hb, evalE, evalA, evalKw, Fr.set, Fr.get, List.lookup,
    blankRow, St.new, relateV, linkFrom, setRef, partnerOk, linkKey, mkEnv_nd, hkB, haB, hs, hk, hi,
    List.getElem?_append_left hslt, List.getElem?_append_left hklt, List.getElem?_append_left hilt]

theorem elif_eq (fc : FCtx) (nd : Node) (g g1 g2 : G) (n v k b i si bi vi : Nat) (bb : Nat) (pp : Option Nat) (o : Bool)
    (accE accB : Acc) (hb : BlkOK g.st)
    (hkE : nd.kids.lookup "expression" = some accE) (hkB : nd.kids.lookup "block" = some accB)
    (haE : accE [] { g with st := (newSmt none g.st).2 } = (.inst v, g1)) (haB : accB [] g1 = (.inst k, g2))
    (hs : g2.st.pop[(newSmt none g.st).1]? = some (.smt bb pp))
    (hv : g2.st.pop[v]? = some (.val b)) (hk : g2.st.pop[k]? = some (.blk o)) (hi : g2.st.pop[i]? = some (.if_ si bi vi)) :
    callFn (mkEnv fc nd) (n + 20) accept_ElIfNode [.node] [("act_if", .inst i)] g
      = some (.inst (newSmt none g.st).1, { g2 with st := (g2.st.new (.el (newSmt none g.st).1 k v si)).2 }) := by
  obtain ⟨⟨pop2, sc2, ok2⟩, lv2, ty2⟩ := g2
  simp only at hs hv hk hi
  have hslt := getElem?_lt hs
  have hvlt := getElem?_lt hv
  have hklt := getElem?_lt hk
  have hilt := getElem?_lt hi
  simp [callFn, accept_ElIfNode, bindParams, exec, ↓call_act_smt, hb, evalE, evalA, evalKw, Fr.set, Fr.get, List.lookup,
    blankRow, St.new, relateV, linkFrom, setRef, partnerOk, linkKey, mkEnv_nd, hkE, hkB, haE, haB, hs, hv, hk, hi,
    List.getElem?_append_left hslt, List.getElem?_append_left hvlt, List.getElem?_append_left hklt,
    List.getElem?_append_left hilt]

theorem if_eq (fc : FCtx) (nd : Node) (g g1 g2 : G) (n v k b : Nat) (bb : Nat) (pp : Option Nat) (o : Bool)
    (accE accB : Acc) (hb : BlkOK g.st)
    (hkE : nd.kids.lookup "expression" = some accE) (hkB : nd.kids.lookup "block" = some accB)
    (haE : accE [] { g with st := (newSmt none g.st).2 } = (.inst v, g1)) (haB : accB [] g1 = (.inst k, g2))
    (hs : g2.st.pop[(newSmt none g.st).1]? = some (.smt bb pp))
    (hv : g2.st.pop[v]? = some (.val b)) (hk : g2.st.pop[k]? = some (.blk o)) :
    callFn (mkEnv fc nd) (n + 20) accept_IfNode [.node] [] g
      = some (.inst (newSmt none g.st).1,
              (kid nd "else_clause" [("act_if", .inst g2.st.pop.length)]
                (kid nd "elif_list" [("act_if", .inst g2.st.pop.length)]
                  { g2 with st := (g2.st.new (.if_ (newSmt none g.st).1 k v)).2 }).2).2) := by
  obtain ⟨⟨pop2, sc2, ok2⟩, lv2, ty2⟩ := g2
  simp only at hs hv hk
  have hslt := getElem?_lt hs
  have hvlt := getElem?_lt hv
  have hklt := getElem?_lt hk
  cases h1 : nd.kids.lookup "elif_list" <;> cases h2 : nd.kids.lookup "else_clause" <;>
  simp [callFn, accept_IfNode, bindParams, exec, ↓call_act_smt, hb, evalE, evalA, evalKw, Fr.set, Fr.get, List.lookup,
    blankRow, St.new, relateV, linkFrom, setRef, partnerOk, linkKey, mkEnv_nd, hkE, hkB, haE, haB, hs, hv, hk, kid, h1, h2,
    List.getElem?_append_left hslt, List.getElem?_append_left hvlt, List.getElem?_append_left hklt]

/-! ### `selected`, and the loop of accept_ElIfListNode -/

theorem selected_eq (fc : FCtx) (nd : Node) (g : G) (n : Nat) (hb : BlkOK g.st) :
    callFn (mkEnv fc nd) (n + 20) accept_SelectedAccessNode [.node] [] g
      = some (.inst (buildExpr fc .selected g.st).1,
              { g with st := (buildExpr fc .selected g.st).2,
                       tys := ((buildExpr fc .selected g.st).1, "inst_ref<Object>") :: g.tys }) := by
  simp [callFn, accept_SelectedAccessNode, bindParams, exec, ↓call_v_val, ↓call_s_dt, hb, evalE, evalA, evalKw, Fr.set, Fr.get,
    List.lookup, blankRow, St.new, relateV, linkFrom, newVal, setRef, partnerOk, linkKey, buildExpr, kwStr]

/-- the children accepted in order, each with the same keywords -/
def foldAcc (kw : Kw) : List Acc → G → G
  | [], g => g
  | a :: rest, g => foldAcc kw rest (a kw g).2

def elifListBody : List S := [ .expr (.accept (.loc "child") [("act_if", (.loc "act_if"))]) ]

theorem elif_loop (fc : FCtx) (nd : Node) (a : V) : ∀ (is : List Nat) (accs : List Acc) (m : Nat) (g : G) (fr : Fr),
    fr.get "act_if" = a → is.length = accs.length →
    (∀ j, j < is.length → nd.children[is[j]!]? = accs[j]?) →
    ∃ fr', fr'.get "act_if" = a ∧
      loop (mkEnv fc nd) (is.length + m + 4) g fr "child" elifListBody is = some (.next fr', foldAcc [("act_if", a)] accs g) := by
  intro is
  induction is with
  | nil =>
    intro accs m g fr hfr hl _
    cases accs with
    | nil => exact ⟨fr, hfr, by simp [loop, foldAcc]⟩
    | cons _ _ => simp at hl
  | cons i is ih =>
    intro accs m g fr hfr hl hch
    cases accs with
    | nil => simp at hl
    | cons acc accs =>
      have h0 : nd.children[i]? = some acc := by simpa using hch 0 (by simp)
      have hfr' : ((fr.set "child" (.child i)).get "act_if") = a := by
        simpa [Fr.set, Fr.get, List.lookup] using hfr
      obtain ⟨fr', hfr'', hloop⟩ := ih accs m (acc [("act_if", a)] g).2 (fr.set "child" (.child i)) hfr'
        (by simpa using hl) (by
          intro j hj
          have := hch (j + 1) (by simp; omega)
          simpa using this)
      refine ⟨fr', hfr'', ?_⟩
      have hlen : (i :: is).length + m + 4 = (is.length + m + 4) + 1 := by simp; omega
      rw [hlen, loop]
      have hfuel : is.length + m + 4 = (is.length + m + 2) + 2 := by omega
      have hx : exec (mkEnv fc nd) (is.length + m + 4) g (fr.set "child" (.child i)) elifListBody
          = some (.next (fr.set "child" (.child i)), (acc [("act_if", a)] g).2) := by
        rw [hfuel]
        have hfr2 : (List.lookup "act_if" fr.loc).getD V.none = a := by simpa [Fr.get] using hfr
        simp [elifListBody, exec, evalE, evalA, evalKw, Fr.set, Fr.get, List.lookup, h0, hfr2]
      rw [hx]
      simpa [foldAcc] using hloop

theorem elif_list_eq (fc : FCtx) (nd : Node) (g : G) (n : Nat) (a : V) :
    callFn (mkEnv fc nd) (nd.children.length + n + 5) accept_ElIfListNode [.node] [("act_if", a)] g
      = some (.none, foldAcc [("act_if", a)] nd.children g) := by
  obtain ⟨fr', hfr', hloop⟩ := elif_loop fc nd a (List.range nd.children.length) nd.children n g
    ((({} : Fr).set "act_if" a).set "node" .node) (by simp [Fr.get, Fr.set, List.lookup]) (by simp)
    (by intro j hj; simp at hj; simp [hj])
  simp only [List.length_range] at hloop
  have hf : nd.children.length + n + 5 = (nd.children.length + n + 4) + 1 := by omega
  have hbody : accept_ElIfListNode.body = [.forChildren "child" false elifListBody] := rfl
  have hpar : bindParams accept_ElIfListNode.params [.node] [("act_if", a)] = some ((({} : Fr).set "act_if" a).set "node" .node) := by
    simp [accept_ElIfListNode, bindParams, Fr.set, List.lookup]
  rw [callFn, hpar, hbody, hf]
  simp only [exec, mkEnv_nd, Bool.false_eq_true, if_false, hloop]

/-! ### the compound statements with the MODEL's oracles: the clauses of `buildStmt` / `buildElifs` / `buildElse` -/

/-- the oracle of an expression child: Flat.lean's `buildExpr` -/
def exprAcc (fc : FCtx) (e : Expr) : Acc := fun _ g => let r := buildExpr fc e g.st; (.inst r.1, { g with st := r.2 })
/-- the oracle of a block child: Flat.lean's `withBlock … (buildStmts fc none b)` (= accept_BlockNode, `block_eq`) -/
def blockAcc (fc : FCtx) (b : Block) : Acc :=
  fun _ g => let r := withBlock g.st (buildStmts fc none b); (.inst r.1, { g with st := r.2 })

/-- the state after the condition / after the block of `while e b`, `if e b …`, `elif e b` begun in `st` -/
def condOf (fc : FCtx) (e : Expr) (st : St) : Nat × St := buildExpr fc e (newSmt none st).2
def blockOf (fc : FCtx) (e : Expr) (b : Block) (st : St) : Nat × St := withBlock (condOf fc e st).2 (buildStmts fc none b)

theorem while_model_eq (fc : FCtx) (nd : Node) (g : G) (n : Nat) (e : Expr) (b : Block) (bb bv : Nat) (pp : Option Nat) (o : Bool)
    (hb : BlkOK g.st)
    (hkE : nd.kids.lookup "expression" = some (exprAcc fc e)) (hkB : nd.kids.lookup "block" = some (blockAcc fc b))
    (hs : (blockOf fc e b g.st).2.pop[(newSmt none g.st).1]? = some (.smt bb pp))
    (hv : (blockOf fc e b g.st).2.pop[(condOf fc e g.st).1]? = some (.val bv))
    (hk : (blockOf fc e b g.st).2.pop[(blockOf fc e b g.st).1]? = some (.blk o)) :
    callFn (mkEnv fc nd) (n + 20) accept_WhileNode [.node] [] g
      = some (.inst (buildStmt fc none (.while_ e b) g.st).1, { g with st := (buildStmt fc none (.while_ e b) g.st).2 }) := by
  rw [while_eq fc nd g { g with st := (condOf fc e g.st).2 } { g with st := (blockOf fc e b g.st).2 } n (condOf fc e g.st).1
    (blockOf fc e b g.st).1 bv bb pp o (exprAcc fc e) (blockAcc fc b) hb hkE hkB rfl rfl hs hv hk]
  simp [buildStmt, condOf, blockOf]

theorem elif_model_eq (fc : FCtx) (nd : Node) (g : G) (n i si bi vi : Nat) (e : Expr) (b : Block) (bb bv : Nat) (pp : Option Nat)
    (o : Bool) (hb : BlkOK g.st)
    (hkE : nd.kids.lookup "expression" = some (exprAcc fc e)) (hkB : nd.kids.lookup "block" = some (blockAcc fc b))
    (hs : (blockOf fc e b g.st).2.pop[(newSmt none g.st).1]? = some (.smt bb pp))
    (hv : (blockOf fc e b g.st).2.pop[(condOf fc e g.st).1]? = some (.val bv))
    (hk : (blockOf fc e b g.st).2.pop[(blockOf fc e b g.st).1]? = some (.blk o))
    (hi : (blockOf fc e b g.st).2.pop[i]? = some (.if_ si bi vi)) :
    callFn (mkEnv fc nd) (n + 20) accept_ElIfNode [.node] [("act_if", .inst i)] g
      = some (.inst (newSmt none g.st).1, { g with st := buildElifs fc si (.cons e b .nil) g.st }) := by
  rw [elif_eq fc nd g { g with st := (condOf fc e g.st).2 } { g with st := (blockOf fc e b g.st).2 } n (condOf fc e g.st).1
    (blockOf fc e b g.st).1 bv i si bi vi bb pp o (exprAcc fc e) (blockAcc fc b) hb hkE hkB rfl rfl hs hv hk hi]
  simp [buildElifs, condOf, blockOf]

theorem else_model_eq (fc : FCtx) (nd : Node) (g : G) (n i si bi vi : Nat) (b : Block) (bb : Nat) (pp : Option Nat)
    (o : Bool) (hb : BlkOK g.st) (hkB : nd.kids.lookup "block" = some (blockAcc fc b))
    (hs : (withBlock (newSmt none g.st).2 (buildStmts fc none b)).2.pop[(newSmt none g.st).1]? = some (.smt bb pp))
    (hk : (withBlock (newSmt none g.st).2 (buildStmts fc none b)).2.pop[(withBlock (newSmt none g.st).2 (buildStmts fc none b)).1]?
      = some (.blk o))
    (hi : (withBlock (newSmt none g.st).2 (buildStmts fc none b)).2.pop[i]? = some (.if_ si bi vi)) :
    callFn (mkEnv fc nd) (n + 20) accept_ElseNode [.node] [("act_if", .inst i)] g
      = some (.inst (newSmt none g.st).1, { g with st := buildElse fc si (.some b) g.st }) := by
  rw [else_eq fc nd g { g with st := (withBlock (newSmt none g.st).2 (buildStmts fc none b)).2 } n
    (withBlock (newSmt none g.st).2 (buildStmts fc none b)).1 i si bi vi bb pp o (blockAcc fc b) hb hkB rfl hs hk hi]
  simp [buildElse]

/-- `accept_IfNode` with the model's oracles for the condition and the block, and oracles of the elif list / the else clause
    that do what `buildElifs` / `buildElse` do -/
theorem if_model_eq (fc : FCtx) (nd : Node) (g : G) (n : Nat) (e : Expr) (b : Block) (elifs : Elifs) (els : Else)
    (bb bv : Nat) (pp : Option Nat) (o : Bool) (hb : BlkOK g.st)
    (hkE : nd.kids.lookup "expression" = some (exprAcc fc e)) (hkB : nd.kids.lookup "block" = some (blockAcc fc b))
    (hs : (blockOf fc e b g.st).2.pop[(newSmt none g.st).1]? = some (.smt bb pp))
    (hv : (blockOf fc e b g.st).2.pop[(condOf fc e g.st).1]? = some (.val bv))
    (hk : (blockOf fc e b g.st).2.pop[(blockOf fc e b g.st).1]? = some (.blk o))
    (hEl : ∀ st, (kid nd "elif_list" [("act_if", .inst (blockOf fc e b g.st).2.pop.length)] { g with st := st }).2
        = { g with st := buildElifs fc (newSmt none g.st).1 elifs st })
    (hE : ∀ st, (kid nd "else_clause" [("act_if", .inst (blockOf fc e b g.st).2.pop.length)] { g with st := st }).2
        = { g with st := buildElse fc (newSmt none g.st).1 els st }) :
    callFn (mkEnv fc nd) (n + 20) accept_IfNode [.node] [] g
      = some (.inst (buildStmt fc none (.if_ e b elifs els) g.st).1,
              { g with st := (buildStmt fc none (.if_ e b elifs els) g.st).2 }) := by
  rw [if_eq fc nd g { g with st := (condOf fc e g.st).2 } { g with st := (blockOf fc e b g.st).2 } n (condOf fc e g.st).1
    (blockOf fc e b g.st).1 bv bb pp o (exprAcc fc e) (blockAcc fc b) hb hkE hkB rfl rfl hs hv hk]
  simp only [hEl, hE]
  simp [buildStmt, condOf, blockOf]

end Pyx.PbShape
