import PyxModel.Check

/-! helper lemmas for C11 -/
namespace Pyx.Check
open Pyx.Meta

/-- the partner count `n` lies outside the end's bounds `[lo, hi]` with `lo = 0` if conditional else `1`,
    `hi = ∞` if many else `1` -/
theorem violates_iff (cond many : Bool) (n : Nat) :
    violates cond many n = true ↔ ¬ ((if cond then 0 else 1) ≤ n ∧ (many = true ∨ n ≤ 1)) := by
  unfold violates
  cases cond <;> cases many <;> simp <;> omega

theorem checkAssocFrom_eq (w : World) (rel : Option String) : ∀ (l : Schema) (n : Nat),
    checkAssocFrom w rel n l =
      ((List.range l.length).map (fun j =>
        if rel = none ∨ rel = some (l.getD j (specAt [] 0)).rel then checkLink w (n + j) true + checkLink w (n + j) false
        else 0)).sum
  | [], n => by simp [checkAssocFrom]
  | a :: rest, n => by
    rw [checkAssocFrom, checkAssocFrom_eq w rel rest (n + 1)]
    simp only [List.length_cons, List.range_succ_eq_map, List.map_cons, List.sum_cons, List.map_map,
      List.getD_cons_zero, Nat.add_zero]
    congr 2
    apply List.map_congr_left
    intro j _
    simp only [Function.comp, List.getD_cons_succ]
    have : n + 1 + j = n + (j + 1) := by omega
    rw [this]

theorem sum_pos_iff {α : Type} (f : α → Nat) : ∀ (l : List α), 0 < (l.map f).sum ↔ ∃ x ∈ l, 0 < f x
  | [] => by simp
  | a :: l => by
    simp only [List.map_cons, List.sum_cons, List.mem_cons, exists_eq_or_imp]
    rw [← sum_pos_iff f l]; omega

theorem sum_eq_zero_iff {α : Type} (f : α → Nat) (l : List α) : (l.map f).sum = 0 ↔ ∀ x ∈ l, f x = 0 := by
  have := sum_pos_iff f l
  constructor
  · intro h x hx
    apply Classical.byContradiction
    intro hne
    have : 0 < (l.map f).sum := this.2 ⟨x, hx, by omega⟩
    omega
  · intro h
    apply Classical.byContradiction
    intro hne
    obtain ⟨x, hx, hp⟩ := this.1 (by omega)
    have := h x hx; omega

/-! identifier repetition -/

/-- "instances repeating an earlier instance's identifier": an instance counts when its key equals
    the key of an instance seen before it -/
def repeatsSpec {κ : Type} [BEq κ] (key : Inst → κ) : List Inst → List κ → Nat
  | [], _ => 0
  | x :: xs, seen => (if seen.contains (key x) then 1 else 0) + repeatsSpec key xs (key x :: seen)

abbrev Key := List (String × Option Int)

/-- the tagged seen-list restricted to one identifier -/
def seenOf (name : String) (seen : List (String × Key)) : List Key :=
  (seen.filter (fun p => p.1 == name)).map (·.2)

theorem contains_tagged (name : String) (k : Key) (seen : List (String × Key)) :
    seen.contains (name, k) = (seenOf name seen).contains k := by
  induction seen with
  | nil => rfl
  | cons p ps ih =>
    obtain ⟨n, k'⟩ := p
    simp only [List.contains_cons, seenOf, List.filter_cons] at ih ⊢
    by_cases hn : n = name
    · subst hn
      simp only [beq_self_eq_true, ↓reduceIte, List.map_cons, List.contains_cons]
      rw [ih]
      congr 1
      show ((n, k) == (n, k')) = (k == k')
      by_cases hk : k = k'
      · subst hk; simp
      · have : (k == k') = false := by simpa using hk
        rw [this]
        simp only [beq_eq_false_iff_ne, ne_eq, Prod.mk.injEq, true_and]
        exact hk
    · have h1 : (n == name) = false := by simpa using hn
      simp only [h1, Bool.false_eq_true, ↓reduceIte]
      rw [← ih]
      have : ((name, k) == (n, k')) = false := by
        simp only [beq_eq_false_iff_ne, ne_eq, Prod.mk.injEq, not_and]
        intro h; exact absurd h.symm hn
      simp [this]

end Pyx.Check

namespace Pyx.Check
open Pyx.Meta

theorem seenOf_cons (name n : String) (k : Key) (seen : List (String × Key)) :
    seenOf name ((n, k) :: seen) = if n = name then k :: seenOf name seen else seenOf name seen := by
  unfold seenOf
  by_cases h : n = name
  · subst h; simp
  · have : (n == name) = false := by simpa using h
    simp [List.filter_cons, this, h]

/-- the fold step of `uniqStep`, named so that lemmas can refer to it -/
def uStep (val : Inst → String → Option Int) (x : Inst) (acc : Nat × List (String × Key)) (idn : String × List String) :
    Nat × List (String × Key) :=
  ((if acc.2.contains (idn.1, identKey val x idn.2) then acc.1 + 1 else acc.1), (idn.1, identKey val x idn.2) :: acc.2)

theorem uniqStep_eq (ci : ClassInfo) (val : Inst → String → Option Int) (x : Inst) (seen : List (String × Key)) :
    uniqStep ci val x seen = ci.idents.foldl (uStep val x) (0, seen) := rfl

theorem foldl_uStep (val : Inst → String → Option Int) (x : Inst) : ∀ (ids : List (String × List String))
    (c : Nat) (seen : List (String × Key)), (ids.map (·.1)).Nodup →
    (ids.foldl (uStep val x) (c, seen)).1 =
      c + (ids.map (fun idn => if (seenOf idn.1 seen).contains (identKey val x idn.2) then 1 else 0)).sum ∧
    (∀ nm, nm ∉ ids.map (·.1) → seenOf nm (ids.foldl (uStep val x) (c, seen)).2 = seenOf nm seen) ∧
    (∀ idn ∈ ids, seenOf idn.1 (ids.foldl (uStep val x) (c, seen)).2 = identKey val x idn.2 :: seenOf idn.1 seen)
  | [], c, seen, _ => by simp
  | i0 :: rest, c, seen, hnd => by
    have hnd' : (rest.map (·.1)).Nodup := (List.nodup_cons.mp hnd).2
    have hi0 : i0.1 ∉ rest.map (·.1) := (List.nodup_cons.mp hnd).1
    have ih := foldl_uStep val x rest
      (if seen.contains (i0.1, identKey val x i0.2) then c + 1 else c) ((i0.1, identKey val x i0.2) :: seen) hnd'
    simp only [List.foldl_cons, uStep] at ih ⊢
    refine ⟨?_, ?_, ?_⟩
    · rw [ih.1]
      have hrest : ∀ idn ∈ rest, seenOf idn.1 ((i0.1, identKey val x i0.2) :: seen) = seenOf idn.1 seen := by
        intro idn hidn
        rw [seenOf_cons]
        have : i0.1 ≠ idn.1 := fun h => hi0 (h ▸ List.mem_map.mpr ⟨idn, hidn, rfl⟩)
        simp [this]
      have hsum : (rest.map (fun idn => if (seenOf idn.1 ((i0.1, identKey val x i0.2) :: seen)).contains
            (identKey val x idn.2) then 1 else 0)).sum =
          (rest.map (fun idn => if (seenOf idn.1 seen).contains (identKey val x idn.2) then 1 else 0)).sum := by
        congr 1
        apply List.map_congr_left
        intro idn hidn; rw [hrest idn hidn]
      rw [hsum, contains_tagged]
      simp only [List.map_cons, List.sum_cons]
      split <;> omega
    · intro nm hnm
      simp only [List.map_cons, List.mem_cons, not_or] at hnm
      rw [ih.2.1 nm hnm.2, seenOf_cons]
      have : i0.1 ≠ nm := fun h => hnm.1 h.symm
      simp [this]
    · intro idn hidn
      rcases List.mem_cons.mp hidn with rfl | hidn
      · rw [ih.2.1 _ hi0, seenOf_cons]; simp
      · rw [ih.2.2 idn hidn, seenOf_cons]
        have : i0.1 ≠ idn.1 := fun h => hi0 (h ▸ List.mem_map.mpr ⟨idn, hidn, rfl⟩)
        simp [this]

/-- what `check_uniqueness_constraint` must report for one class: null identifying values plus, per
    identifier, the instances repeating an earlier instance's identifier -/
def uniqSpec (ci : ClassInfo) (val : Inst → String → Option Int) (pool : List Inst) (seen : List (String × Key)) : Nat :=
  (pool.map (nullCount ci val)).sum +
    (ci.idents.map (fun idn => repeatsSpec (fun x => identKey val x idn.2) pool (seenOf idn.1 seen))).sum

theorem sum_map_add {α : Type} (f g : α → Nat) : ∀ (l : List α),
    (l.map (fun a => f a + g a)).sum = (l.map f).sum + (l.map g).sum
  | [] => rfl
  | a :: l => by simp only [List.map_cons, List.sum_cons, sum_map_add f g l]; omega

theorem uniqLoop_eq (ci : ClassInfo) (val : Inst → String → Option Int) (hnd : (ci.idents.map (·.1)).Nodup) :
    ∀ (pool : List Inst) (seen : List (String × Key)), uniqLoop ci val pool seen = uniqSpec ci val pool seen
  | [], seen => by
    have hz : ∀ (l : List (String × List String)),
        (l.map (fun idn => repeatsSpec (fun x => identKey val x idn.2) [] (seenOf idn.1 seen))).sum = 0 := by
      intro l
      induction l with
      | nil => rfl
      | cons a l ih =>
        rw [List.map_cons, List.sum_cons, ih]; rfl
    unfold uniqLoop uniqSpec
    rw [hz]; rfl
  | x :: xs, seen => by
    have hf := foldl_uStep val x ci.idents 0 seen hnd
    rw [uniqLoop, uniqStep_eq, uniqLoop_eq ci val hnd xs, hf.1]
    unfold uniqSpec
    have hseen : ∀ idn ∈ ci.idents, seenOf idn.1 (ci.idents.foldl (uStep val x) (0, seen)).2 =
        identKey val x idn.2 :: seenOf idn.1 seen := hf.2.2
    have hmap : (ci.idents.map (fun idn => repeatsSpec (fun x => identKey val x idn.2) xs
          (seenOf idn.1 (ci.idents.foldl (uStep val x) (0, seen)).2))) =
        (ci.idents.map (fun idn => repeatsSpec (fun x => identKey val x idn.2) xs
          (identKey val x idn.2 :: seenOf idn.1 seen))) := by
      apply List.map_congr_left
      intro idn hidn; rw [hseen idn hidn]
    rw [hmap]
    simp only [List.map_cons, List.sum_cons, repeatsSpec, Nat.zero_add]
    rw [sum_map_add]
    omega

/-- no repetition when the keys are pairwise distinct and none was seen before -/
theorem repeatsSpec_zero {κ : Type} [BEq κ] [LawfulBEq κ] (key : Inst → κ) : ∀ (l : List Inst) (seen : List κ),
    (l.map key).Nodup → (∀ x ∈ l, key x ∉ seen) → repeatsSpec key l seen = 0
  | [], _, _, _ => rfl
  | x :: xs, seen, hnd, hs => by
    have hx : key x ∉ seen := hs x (by simp)
    have hnd' : key x ∉ xs.map key ∧ (xs.map key).Nodup := by
      rw [List.map_cons] at hnd; exact List.nodup_cons.mp hnd
    unfold repeatsSpec
    have : seen.contains (key x) = false := by simpa using hx
    rw [this, repeatsSpec_zero key xs (key x :: seen) hnd'.2]
    · rfl
    · intro y hy
      simp only [List.mem_cons, not_or]
      refine ⟨?_, hs y (by simp [hy])⟩
      intro h
      exact hnd'.1 (h ▸ List.mem_map.mpr ⟨y, hy, rfl⟩)

end Pyx.Check

/-! ### extension: `check_subtype_integrity` counts the supertype instances without any subtype partner -/
namespace Pyx.Check
open Pyx.Meta Pyx.Query

/-- does navigating from `x` to the link key's class over `rel` (phrase '') yield nothing? (`false` if it raises) -/
def keyEmpty (sch : Schema) (s : State) (x : Inst) (rel : String) (e : LinkEntry) : Bool :=
  match navigate sch s x e.toKind rel "" with
  | some l => l.isEmpty
  | none => false

/-- every link key with the rel id has an empty partner list for `x` -/
def noSubtype (sch : Schema) (s : State) (x : Inst) (rel : String) (d : List LinkEntry) : Bool :=
  d.all (fun e => !(e.rel == rel) || keyEmpty sch s x rel e)

theorem navSubtypeFrom_nothing_iff (sch : Schema) (s : State) (x : Inst) (rel : String) : ∀ (d : List LinkEntry),
    (∀ e ∈ d, e.rel = rel → ∃ l, navigate sch s x e.toKind rel "" = some l) →
    (match navSubtypeFrom sch s x rel d with
      | some (some _) => false
      | _ => true) = noSubtype sch s x rel d
  | [], _ => rfl
  | e :: r, h => by
    have ih := navSubtypeFrom_nothing_iff sch s x rel r (fun e' he' => h e' (by simp [he']))
    unfold navSubtypeFrom noSubtype
    by_cases he : e.rel = rel
    · obtain ⟨l, hl⟩ := h e (by simp) he
      simp only [he, beq_self_eq_true, ↓reduceIte, hl, List.all_cons, Bool.not_true, Bool.false_or, keyEmpty]
      cases l with
      | nil =>
        simp only [List.head?_nil, List.isEmpty_nil, Bool.true_and]
        exact ih
      | cons y t => simp
    · have hb : (e.rel == rel) = false := by simpa using he
      simp only [hb, Bool.false_eq_true, ↓reduceIte, List.all_cons, Bool.not_false, Bool.true_or, Bool.true_and]
      exact ih

theorem countP_congr' {α : Type} (p q : α → Bool) : ∀ (l : List α), (∀ x ∈ l, p x = q x) → l.countP p = l.countP q
  | [], _ => rfl
  | a :: l, h => by
    simp only [List.countP_cons, h a (by simp), countP_congr' p q l (fun x hx => h x (by simp [hx]))]

theorem all_congr_mem {α : Type} (p q : α → Bool) : ∀ (l : List α), (∀ x ∈ l, p x = q x) → l.all p = l.all q
  | [], _ => rfl
  | a :: l, h => by
    simp only [List.all_cons, h a (by simp), all_congr_mem p q l (fun x hx => h x (by simp [hx]))]

/-- DECLARATIVE reading of "instances repeating an earlier instance's identifier": the number of positions `j`
    of the pool whose key also occurs at some EARLIER position (or in `seen`) -/
def repeatsDecl {κ : Type} [BEq κ] (key : Inst → κ) (l : List Inst) (seen : List κ) : Nat :=
  (List.range l.length).countP fun j =>
    seen.contains (key (l.getD j 0)) || ((l.take j).map key).contains (key (l.getD j 0))

theorem repeatsSpec_eq_decl {κ : Type} [BEq κ] (key : Inst → κ) (l : List Inst) (seen : List κ) :
    repeatsSpec key l seen = repeatsDecl key l seen := by
  induction l generalizing seen with
  | nil => simp [repeatsSpec, repeatsDecl]
  | cons x xs ih =>
    unfold repeatsSpec
    rw [ih]
    unfold repeatsDecl
    simp only [List.length_cons, List.range_succ_eq_map, List.countP_cons, List.countP_map]
    have h0 : (seen.contains (key ((x :: xs).getD 0 0)) || (((x :: xs).take 0).map key).contains (key ((x :: xs).getD 0 0)))
        = seen.contains (key x) := by simp
    rw [h0]
    have hfun : ((fun j => seen.contains (key ((x :: xs).getD j 0)) ||
          (((x :: xs).take j).map key).contains (key ((x :: xs).getD j 0))) ∘ Nat.succ)
        = fun j => (key x :: seen).contains (key (xs.getD j 0)) || ((xs.take j).map key).contains (key (xs.getD j 0)) := by
      funext j
      simp only [Function.comp, List.getD_cons_succ, List.take_succ_cons, List.map_cons, List.contains_cons]
      cases (key (xs.getD j 0) == key x) <;> cases seen.contains (key (xs.getD j 0)) <;> simp
    rw [hfun]
    omega

end Pyx.Check
