import Gen.ExtractShape
import PyxModel.Extract.Rows

/-!
  C14 — generic interpreter of the IR of Gen/ExtractShape.lean (the statement structure of the extraction functions of
  bridgepoint/ooaofooa.py) and the proofs that the hand-written model functions of PyxModel/Extract ARE that interpretation.

  The interpreter (`Pyx.XShape`: `eNav`, `eExpr`, `eCond`, `iStmt` / `iStmts`, `callAt`) works for ANY IR value over an abstract
  population `World I`: instance handles `I`, one navigation step `hop` (the instances related across `<CLS>[<rel>, '<phrase>']`,
  in link order), attribute reading `attr`, `type(x).__name__` = `kind`, `subtype(x, rel)`, `select_many(cls)` = `select`.  It
  records the `define_class` / `define_unique_identifier` / `define_association` calls with the value handed to EACH parameter.
  Python's `None.attr` is the error `attributeError`, calling `None` is `typeError`; anything the IR cannot express is `stuck`.

  The model of C14 is stated over the class diagram (PyxModel/Extract/Diagram.lean), not over rows.  The population a diagram
  denotes is given here as hand-written worlds (`relWorld`, `dtWorld`, `scopeWorld`): the same diagram -> rows reading as
  harness/ooa_encoder.py, in navigation form (an end row together with its R_RGO / R_RTO / R_OIR supertype rows, the O_REF rows
  of an (R_RGO, R_RTO) pair with their O_RATTR / O_RTIDA / O_OIDA rows, ...).  THIS reading is hand-modelled (validated by the
  correspondence K of the harness); everything between it and the `define_*` arguments is the generated IR.
-/

namespace Pyx.XShape
open Pyx.Extract Pyx.Gen.ExtractShape

inductive Err where
  | attributeError            -- None.<attr>
  | typeError                 -- None(...)
  | raised (exc : String)     -- raise <exc>(...)
  | stuck                     -- outside the interpreted fragment (ill-typed IR, fuel)
  deriving DecidableEq, Repr

inductive Val (I : Type) where
  | inst (o : Option I)                 -- an instance or None
  | insts (l : List I)                  -- a set of instances, in navigation order
  | str (s : String)
  | nat (n : Nat)
  | bool (b : Bool)
  | strs (l : List String)
  | pairs (l : List (String × String))
  | tup (a b : Val I)
  | table (t : List (String × String))
  | fn (name : Option String)           -- a function of the file / None
  | opaque                              -- the metamodel under construction, a metaclass, ...
  | unset

/-- one `m.define_*` call: the value handed to each parameter (positional ones are "0", "1", …), and the `*names` -/
structure Call (I : Type) where
  fn : String
  args : List (String × Val I)
  star : List String

structure World (I : Type) where
  hop : I → Hop → List I
  attr : I → String → Val I
  kind : I → String
  subtype : I → Nat → Option I
  select : String → List I

abbrev Loc (I : Type) := String → Val I
def Loc.set {I : Type} (L : Loc I) (x : String) (v : Val I) : Loc I := fun y => if y = x then v else L y
def Loc.empty {I : Type} : Loc I := fun _ => .unset

def bindAll {I : Type} (L : Loc I) : List String → List (Val I) → Loc I
  | p :: ps, a :: as => bindAll (L.set p a) ps as
  | _, _ => L

inductive Sig (I : Type) where
  | next
  | ret (v : Val I)
  | cont

abbrev Calls (I : Type) := List (Call I)
abbrev CallF (I : Type) := String → List (Val I) → Loc I → Calls I → Except Err (Val I × Calls I)

def truthy {I : Type} : Val I → Option Bool
  | .inst o => some o.isSome
  | .insts l => some (!l.isEmpty)
  | .str s => some (s != "")
  | .nat n => some (n != 0)
  | .bool b => some b
  | .strs l => some (!l.isEmpty)
  | .pairs l => some (!l.isEmpty)
  | _ => none

section
variable {I : Type} [DecidableEq I]

def startSet : Val I → Option (List I)
  | .inst o => some o.toList
  | .insts l => some l
  | _ => none

def evalHops (W : World I) : List I → List Hop → List I
  | xs, [] => xs
  | xs, h :: t => evalHops W (xs.flatMap (fun x => W.hop x h)) t

/-- the filter of a navigation, evaluated per candidate (lazily: no candidate, no evaluation) -/
def passes (W : World I) (L : Loc I) : Filter → I → Except Err Bool
  | .all, _ => .ok true
  | .neVar v, x =>
    match L v with
    | .inst o => .ok (decide (o ≠ some x))
    | _ => .error .stuck
  | .attrEqAttr f v g, x =>
    match L v with
    | .inst (some y) =>
      match W.attr x f, W.attr y g with
      | .nat a, .nat b => .ok (a == b)
      | _, _ => .error .stuck
    | .inst none => .error .attributeError
    | _ => .error .stuck
  | .lacks hops, x => .ok (evalHops W [x] hops).isEmpty

def filterE (p : I → Except Err Bool) : List I → Except Err (List I)
  | [] => .ok []
  | x :: xs =>
    match p x with
    | .error e => .error e
    | .ok b =>
      match filterE p xs with
      | .error e => .error e
      | .ok r => .ok (if b then x :: r else r)

def eNav (W : World I) (L : Loc I) (n : Nav) : Except Err (Val I) :=
  match startSet (L n.start) with
  | none => .error .stuck
  | some xs =>
    match filterE (passes W L n.filter) (evalHops W xs n.hops) with
    | .error e => .error e
    | .ok ys =>
      match n.card with
      | .many => .ok (.insts ys)
      | _ => .ok (.inst ys.head?)

def namesE (W : World I) (f : String) : List I → Except Err (List String)
  | [] => .ok []
  | x :: xs =>
    match W.attr x f, namesE W f xs with
    | .str s, .ok r => .ok (s :: r)
    | _, .error e => .error e
    | _, _ => .error .stuck

def eExpr (W : World I) (callF : CallF I) (L : Loc I) (C : Calls I) : Expr → Except Err (Val I × Calls I)
  | .nav n => (eNav W L n).map (fun v => (v, C))
  | .var v => .ok (L v, C)
  | .attr v f =>
    match L v with
    | .inst (some x) => .ok (W.attr x f, C)
    | .inst none => .error .attributeError
    | _ => .error .stuck
  | .attrSucc v f =>
    match L v with
    | .inst (some x) => match W.attr x f with
      | .nat n => .ok (.nat (n + 1), C)
      | _ => .error .stuck
    | .inst none => .error .attributeError
    | _ => .error .stuck
  | .attrUpper v f =>
    match L v with
    | .inst (some x) => match W.attr x f with
      | .str s => .ok (.str (upper s), C)
      | _ => .error .stuck
    | .inst none => .error .attributeError
    | _ => .error .stuck
  | .str s => .ok (.str s, C)
  | .bool b => .ok (.bool b, C)
  | .none => .ok (.inst none, C)
  | .emptyList => .ok (.strs [], C)
  | .listOf v => .ok (L v, C)
  | .namesOf f v =>
    match L v with
    | .insts l => (namesE W f l).map (fun r => (.strs r, C))
    | _ => .error .stuck
  | .pair a b => .ok (.tup (L a) (L b), C)
  | .call fn args => callF fn (args.map L) L C
  | .callVar v args =>
    match L v with
    | .fn (some name) => callF name (args.map L) L C
    | .fn none => .error .typeError
    | _ => .error .stuck
  | .table t => .ok (.table t, C)
  | .tableGet tbl v =>
    match L tbl, L v with
    | .table t, .inst (some x) => .ok (.fn (t.lookup (W.kind x)), C)
    | .table t, .inst none => .ok (.fn (t.lookup "NoneType"), C)
    | _, _ => .error .stuck
  | .subtype v rel =>
    match L v with
    | .inst (some x) => .ok (.inst (W.subtype x rel), C)
    | _ => .error .stuck
  | .selectAnyWhere cls a v =>
    match L v with
    | .str s => .ok (.inst ((W.select cls).find? (fun x => match W.attr x a with
        | .str t => t == s
        | _ => false)), C)
    | .inst none => .ok (.inst none, C)
    | _ => .error .stuck

def eCond (W : World I) (callF : CallF I) (L : Loc I) : Cond → Calls I → Except Err (Bool × Calls I)
  | .truthy e, C =>
    match eExpr W callF L C e with
    | .error e => .error e
    | .ok (v, C') => match truthy v with
      | some b => .ok (b, C')
      | none => .error .stuck
  | .not c, C => (eCond W callF L c C).map (fun r => (!r.1, r.2))
  | .and a b, C =>
    match eCond W callF L a C with
    | .error e => .error e
    | .ok (false, C') => .ok (false, C')
    | .ok (true, C') => eCond W callF L b C'
  | .or a b, C =>
    match eCond W callF L a C with
    | .error e => .error e
    | .ok (true, C') => .ok (true, C')
    | .ok (false, C') => eCond W callF L b C'
  | .attrNe a f b g, C =>
    match L a, L b with
    | .inst (some x), .inst (some y) =>
      match W.attr x f, W.attr y g with
      | .nat m, .nat n => .ok (m != n, C)
      | _, _ => .error .stuck
    | .inst none, .inst _ => .error .attributeError
    | .inst _, .inst none => .error .attributeError
    | _, _ => .error .stuck
  | .typeNameNe v name, C =>
    match L v with
    | .inst (some x) => .ok (W.kind x != name, C)
    | .inst none => .ok ("NoneType" != name, C)
    | _ => .error .stuck
  | .isNone v, C =>
    match L v with
    | .inst o => .ok (o.isNone, C)
    | _ => .error .stuck
  | .among v vs, C =>
    match L v with
    | .inst o => .ok (vs.any (fun w => match L w with
        | .inst o' => decide (o = o')
        | _ => false), C)
    | _ => .error .stuck
  | .attrInRange v f lo hi, C =>
    match L v with
    | .inst (some x) => match W.attr x f with
      | .nat n => .ok (decide (lo ≤ n ∧ n < hi), C)
      | _ => .error .stuck
    | .inst none => .error .attributeError
    | _ => .error .stuck

abbrev Step (I : Type) := Except Err (Loc I × Calls I × Sig I)

def forLoop (body : I → Loc I → Calls I → Step I) : List I → Loc I → Calls I → Step I
  | [], L, C => .ok (L, C, .next)
  | x :: xs, L, C =>
    match body x L C with
    | .error e => .error e
    | .ok (L', C', .ret v) => .ok (L', C', .ret v)
    | .ok (L', C', _) => forLoop body xs L' C'

def whileLoop (v : String) (body : Loc I → Calls I → Step I) : Nat → Loc I → Calls I → Step I
  | 0, _, _ => .error .stuck
  | n + 1, L, C =>
    match truthy (L v) with
    | none => .error .stuck
    | some false => .ok (L, C, .next)
    | some true =>
      match body L C with
      | .error e => .error e
      | .ok (L', C', .ret r) => .ok (L', C', .ret r)
      | .ok (L', C', _) => whileLoop v body n L' C'

def evalArgs (W : World I) (callF : CallF I) (L : Loc I) : List (String × Expr) → Calls I → Except Err (List (String × Val I) × Calls I)
  | [], C => .ok ([], C)
  | (p, e) :: rest, C =>
    match eExpr W callF L C e with
    | .error e => .error e
    | .ok (v, C') =>
      match evalArgs W callF L rest C' with
      | .error e => .error e
      | .ok (r, C'') => .ok ((p, v) :: r, C'')

def thenStep (r : Step I) (k : Loc I → Calls I → Step I) : Step I :=
  match r with
  | .error e => .error e
  | .ok (L, C, .next) => k L C
  | .ok (L, C, s) => .ok (L, C, s)

mutual
  def iStmt (W : World I) (callF : CallF I) (fuel : Nat) : Stmt → Loc I → Calls I → Step I
    | .assign dst e, L, C =>
      match eExpr W callF L C e with
      | .error e => .error e
      | .ok (v, C') => .ok (L.set dst v, C', .next)
    | .assignAll dsts e, L, C =>
      match eExpr W callF L C e with
      | .error e => .error e
      | .ok (v, C') => .ok (dsts.foldl (fun L' d => L'.set d v) L, C', .next)
    | .unpack d1 d2 e, L, C =>
      match eExpr W callF L C e with
      | .error e => .error e
      | .ok (.tup a b, C') => .ok ((L.set d1 a).set d2 b, C', .next)
      | .ok _ => .error .stuck
    | .append l e, L, C =>
      match eExpr W callF L C e with
      | .error e => .error e
      | .ok (.str s, C') =>
        match L l with
        | .strs xs => .ok (L.set l (.strs (xs ++ [s])), C', .next)
        | _ => .error .stuck
      | .ok _ => .error .stuck
    | .appendPair l e1 e2, L, C =>
      match eExpr W callF L C e1 with
      | .error e => .error e
      | .ok (.str a, C') =>
        match eExpr W callF L C' e2 with
        | .error e => .error e
        | .ok (.str b, C'') =>
          match L l with
          | .strs [] => .ok (L.set l (.pairs [(a, b)]), C'', .next)
          | .pairs xs => .ok (L.set l (.pairs (xs ++ [(a, b)])), C'', .next)
          | _ => .error .stuck
        | .ok _ => .error .stuck
      | .ok _ => .error .stuck
    | .ite c thn els, L, C =>
      match eCond W callF L c C with
      | .error e => .error e
      | .ok (true, C') => iStmts W callF fuel thn L C'
      | .ok (false, C') => iStmts W callF fuel els L C'
    | .forNav v n body, L, C =>
      match eNav W L n with
      | .error e => .error e
      | .ok (.insts xs) => forLoop (fun x L' C' => iStmts W callF fuel body (L'.set v (.inst (some x))) C') xs L C
      | .ok _ => .error .stuck
    | .forSelect v cls sel scope body, L, C =>
      match filterE (fun x => (eCond W callF (L.set sel (.inst (some x))) scope []).map (·.1)) (W.select cls) with
      | .error e => .error e
      | .ok xs => forLoop (fun x L' C' => iStmts W callF fuel body (L'.set v (.inst (some x))) C') xs L C
    | .whileVar v body, L, C => whileLoop v (fun L' C' => iStmts W callF fuel body L' C') fuel L C
    | .log, L, C => .ok (L, C, .next)
    | .pass, L, C => .ok (L, C, .next)
    | .continue, L, C => .ok (L, C, .cont)
    | .ret e, L, C =>
      match eExpr W callF L C e with
      | .error e => .error e
      | .ok (v, C') => .ok (L, C', .ret v)
    | .raise exc, _, _ => .error (.raised exc)
    | .define fn args star bind, L, C =>
      match evalArgs W callF L args C with
      | .error e => .error e
      | .ok (vs, C') =>
        match (match star with
          | none => some []
          | some s => match L s with
            | .strs l => some l
            | _ => none) with
        | none => .error .stuck
        | some st =>
          .ok ((match bind with
            | some b => L.set b .opaque
            | none => L), C' ++ [{ fn := fn, args := vs, star := st }], .next)
    | .callStmt fn args, L, C =>
      match callF fn (args.map L) L C with
      | .error e => .error e
      | .ok (_, C') => .ok (L, C', .next)
    | .opaque _, L, C => .ok (L, C, .next)
  def iStmts (W : World I) (callF : CallF I) (fuel : Nat) : List Stmt → Loc I → Calls I → Step I
    | [], L, C => .ok (L, C, .next)
    | s :: rest, L, C => thenStep (iStmt W callF fuel s L C) (iStmts W callF fuel rest)
end

/-- functions of other ties (gen_callshape.py): their result is an opaque value, they define nothing -/
def foreign : List String := ["mk_operation", "mk_derived_attribute", "mk_function", "mk_enum", "mk_constant", "mk_external_entity"]

/-- calling a function of the file: a fresh frame (a nested function: the caller's), the parameters bound in order; falling off
    the end returns None.  `fuel` bounds the call depth and the iterations of each `while`. -/
def callAt (W : World I) (defs : List (String × Def)) : Nat → CallF I
  | 0, _, _, _, _ => .error .stuck
  | n + 1, f, args, Lc, C =>
    if foreign.contains f then .ok (.opaque, C) else
    match defs.lookup f with
    | none => .error .stuck
    | some d =>
      if d.params.length ≠ args.length then .error .stuck else
      match iStmts W (callAt W defs n) n d.body (bindAll (if d.nested then Lc else Loc.empty) d.params args) C with
      | .error e => .error e
      | .ok (_, C', .ret v) => .ok (v, C')
      | .ok (_, C', _) => .ok (.inst none, C')

/-- `f(args)` from outside: the value and the `define_*` calls made -/
def run (W : World I) (defs : List (String × Def)) (fuel : Nat) (f : String) (args : List (Val I)) : Except Err (Val I × Calls I) :=
  callAt W defs fuel f args Loc.empty []

end

end Pyx.XShape

/-! ## (iii) the data-type mapping: `_get_data_type_name` -/
namespace Pyx.XShape
open Pyx.Extract Pyx.Gen.ExtractShape

/-- the S_DT rows with their R17 subtype rows -/
inductive DI where
  | dt (t : DataType)
  | cdt (t : DataType)
  | edt (t : DataType)
  | udt (t : DataType)
  deriving DecidableEq

/-- the data types of a diagram as a population: S_DT —R17→ S_CDT (Core_Typ) / S_EDT / S_UDT —R18→ S_DT -/
def dtWorld (dts : List DataType) : World DI where
  hop x h :=
    match x with
    | .dt t =>
      if h = { cls := "S_CDT", rel := 17, phrase := "" } then (match t.kind with | .core _ => [.cdt t] | _ => [])
      else if h = { cls := "S_EDT", rel := 17, phrase := "" } then (match t.kind with | .enum _ => [.edt t] | _ => [])
      else if h = { cls := "S_UDT", rel := 17, phrase := "" } then (match t.kind with | .user _ => [.udt t] | _ => [])
      else []
    | .udt t =>
      if h = { cls := "S_DT", rel := 18, phrase := "" } then
        (match t.kind with | .user b => ((findDt dts b).map DI.dt).toList | _ => [])
      else []
    | _ => []
  attr x f :=
    match x with
    | .dt t => if f = "Name" then .str t.name else .unset
    | .cdt t => if f = "Core_Typ" then (match t.kind with | .core n => .nat n | _ => .unset) else .unset
    | _ => .unset
  kind x := match x with | .dt _ => "S_DT" | .cdt _ => "S_CDT" | .edt _ => "S_EDT" | .udt _ => "S_UDT"
  subtype _ _ := none
  select _ := []

/-- what `mk_class` makes of the result: `elif not ty:` — None and the empty string are no type; an error is no type either -/
def tyOf {I : Type} : Except Err (Val I × Calls I) → Option String
  | .ok (.str s, _) => if s = "" then none else some s
  | _ => none

theorem upper_eq_empty (s : String) : upper s = "" ↔ s = "" := by
  unfold upper
  constructor
  · intro h
    have h2 : (String.ofList (s.toList.map Char.toUpper)).toList = [] := by rw [h]; rfl
    simp at h2
    exact h2
  · intro h; subst h; rfl

theorem lookup_get_data_type_name : defs.lookup "_get_data_type_name" = some get_data_type_name := rfl
theorem lookup_get_related_attributes : defs.lookup "_get_related_attributes" = some get_related_attributes := rfl
theorem lookup_mk_simple_association : defs.lookup "mk_simple_association" = some mk_simple_association := rfl
theorem lookup_mk_linked_association : defs.lookup "mk_linked_association" = some mk_linked_association := rfl
theorem lookup_mk_assoc : defs.lookup "_mk_assoc" = some mk_linked_association_mk_assoc := rfl
theorem lookup_mk_subsuper_association : defs.lookup "mk_subsuper_association" = some mk_subsuper_association := rfl
theorem lookup_mk_derived_association : defs.lookup "mk_derived_association" = some mk_derived_association := rfl
theorem lookup_mk_association : defs.lookup "mk_association" = some mk_association := rfl

theorem dtWorld_hop (dts : List DataType) (x : DI) (h : Hop) : (dtWorld dts).hop x h =
    match x with
    | .dt t =>
      if h = { cls := "S_CDT", rel := 17, phrase := "" } then (match t.kind with | .core _ => [.cdt t] | _ => [])
      else if h = { cls := "S_EDT", rel := 17, phrase := "" } then (match t.kind with | .enum _ => [.edt t] | _ => [])
      else if h = { cls := "S_UDT", rel := 17, phrase := "" } then (match t.kind with | .user _ => [.udt t] | _ => [])
      else []
    | .udt t =>
      if h = { cls := "S_DT", rel := 18, phrase := "" } then
        (match t.kind with | .user b => ((findDt dts b).map DI.dt).toList | _ => [])
      else []
    | _ => [] := rfl
theorem dtWorld_attr (dts : List DataType) (x : DI) (f : String) : (dtWorld dts).attr x f =
    match x with
    | .dt t => if f = "Name" then .str t.name else .unset
    | .cdt t => if f = "Core_Typ" then (match t.kind with | .core n => .nat n | _ => .unset) else .unset
    | _ => .unset := rfl

/-- symbolic evaluation of the interpreter on a concrete IR -/
macro "xshape" "[" ts:Lean.Parser.Tactic.simpLemma,* "]" : tactic =>
  `(tactic| simp [callAt, foreign, iStmts, iStmt, thenStep, eExpr, eCond, eNav, startSet,
        evalHops, filterE, passes, Loc.set, bindAll, truthy, Loc.empty, Except.map, evalArgs, forLoop,
        lookup_get_data_type_name, lookup_get_related_attributes, lookup_mk_simple_association, lookup_mk_linked_association,
        lookup_mk_assoc, lookup_mk_subsuper_association, lookup_mk_derived_association, lookup_mk_association, $ts,*])

theorem dtType_eq (dts : List DataType) : ∀ (f id : Nat) (L : Loc DI) (C : Calls DI),
    tyOf (callAt (dtWorld dts) defs f "_get_data_type_name" [.inst ((findDt dts id).map DI.dt)] L C) =
      dtTypeFuel dts f id := by
  intro f
  induction f with
  | zero => intro id L C; rfl
  | succ f ih =>
    intro id L C
    cases ht : findDt dts id with
    | none => xshape [get_data_type_name, tyOf, dtTypeFuel, ht]
    | some t =>
      cases hk : t.kind with
      | core n =>
        by_cases h1 : 1 ≤ n <;> by_cases h2 : n < 6
        · have h3 : n ≤ 5 := by omega
          xshape [get_data_type_name, tyOf, dtTypeFuel, ht, dtWorld_hop, dtWorld_attr, hk, upper_eq_empty, h1, h2, h3]
        · have h3 : ¬ n ≤ 5 := by omega
          xshape [get_data_type_name, tyOf, dtTypeFuel, ht, dtWorld_hop, dtWorld_attr, hk, upper_eq_empty, h1, h2, h3]
        · have h3 : n ≤ 5 := by omega
          xshape [get_data_type_name, tyOf, dtTypeFuel, ht, dtWorld_hop, dtWorld_attr, hk, upper_eq_empty, h1, h2, h3]
        · have h3 : ¬ n ≤ 5 := by omega
          xshape [get_data_type_name, tyOf, dtTypeFuel, ht, dtWorld_hop, dtWorld_attr, hk, upper_eq_empty, h1, h2, h3]
      | enum es => xshape [get_data_type_name, tyOf, dtTypeFuel, ht, dtWorld_hop, dtWorld_attr, hk]
      | other => xshape [get_data_type_name, tyOf, dtTypeFuel, ht, dtWorld_hop, dtWorld_attr, hk]
      | user b =>
        cases hb : findDt dts b with
        | none =>
          have hm : dtTypeFuel dts f b = none := by cases f <;> simp [dtTypeFuel, hb]
          xshape [get_data_type_name, tyOf, dtTypeFuel, ht, dtWorld_hop, dtWorld_attr, hk, hb, hm]
        | some tb =>
          xshape [get_data_type_name, tyOf, dtTypeFuel, ht, dtWorld_hop, dtWorld_attr, hk, hb]
          have hi := ih b (((Loc.empty.set "s_dt" (Val.inst (some (DI.dt t)))).set "s_cdt" (Val.inst none)).set "s_dt"
                  (Val.inst (some (DI.dt tb)))) C
          rw [hb] at hi
          simp only [Option.map] at hi
          rw [← hi]
          generalize callAt (dtWorld dts) defs f "_get_data_type_name" _ _ C = r
          rcases r with e | ⟨v, C'⟩
          · rfl
          · cases v <;> rfl
end Pyx.XShape

/-! ## (i) the association constructors -/
namespace Pyx.XShape
open Pyx.Extract Pyx.Gen.ExtractShape

/-- the end rows of one R_REL -/
inductive EndId where
  | form | part (i : Nat) | aone | aoth | assr | super | sub (j : Nat)
  deriving DecidableEq

/-- the rows that hang on one R_REL (`RelRows`) and what they lead to -/
inductive RI where
  | rel | simp | assoc | subsup | comp          -- R_REL and its R206 subtype row
  | row (e : EndId)                             -- R_FORM / R_PART / R_AONE / R_AOTH / R_ASSR / R_SUPER / R_SUB
  | rgo (e : EndId) | rto (e : EndId) | oir (e : EndId)   -- its R_RGO / R_RTO and R_OIR supertype rows
  | obj (c : Class)                             -- O_OBJ
  | rtida (g t : EndId) (r : Ref)               -- per O_REF of the pair (referring end g, referred end t): O_RTIDA,
  | ref (g t : EndId) (r : Ref)                 --   O_REF,
  | rattr (g t : EndId) (r : Ref)               --   O_RATTR,
  | oida (g t : EndId) (r : Ref)                --   O_OIDA
  | attr (a : Attr)                             -- O_ATTR
  deriving DecidableEq

def plainEnd (c : Nat) : End := { cls := c, mult := false, cond := false, phrase := "" }

def endOf (w : RelRows) : EndId → Option End
  | .form => w.form
  | .part i => w.parts[i]?
  | .aone => w.aone
  | .aoth => w.aoth
  | .assr => w.assr.map plainEnd
  | .super => w.super.map plainEnd
  | .sub j => w.subs[j]?.map (fun s => plainEnd s.1)

def classOfEnd (d : ClassDiagram) (w : RelRows) (e : EndId) : Option Class := (endOf w e).bind (fun en => findClass d en.cls)

/-- attribute `i` of the class at end `e` -/
def attrAt (d : ClassDiagram) (w : RelRows) (e : EndId) (i : Nat) : Option Attr := (classOfEnd d w e).bind (fun c => c.findAttr i)

/-- OIR_ID: one R_OIR row per end row -/
def oirId : EndId → Nat
  | .form => 0 | .aone => 1 | .aoth => 2 | .assr => 3 | .super => 4
  | .part i => 5 + 2 * i
  | .sub j => 6 + 2 * j

def subRefs : Nat → List (Nat × List Ref) → List (EndId × Ref)
  | _, [] => []
  | j, s :: rest => s.2.map (fun r => (EndId.sub j, r)) ++ subRefs (j + 1) rest

/-- the O_REF rows hanging (over O_RTIDA) on the R_RTO of end `t`, each with the end that refers -/
def refsOn (w : RelRows) : EndId → List (EndId × Ref)
  | .part 0 => w.refs.map (fun r => (if w.form.isSome then EndId.form else EndId.part 1, r))
  | .aone => w.refsOne.map (fun r => (EndId.assr, r))
  | .aoth => w.refsOth.map (fun r => (EndId.assr, r))
  | .super => subRefs 0 w.subs
  | _ => []

def rowsFrom {α : Type} (mk : Nat → EndId) : Nat → List α → List RI
  | _, [] => []
  | i, _ :: rest => RI.row (mk i) :: rowsFrom mk (i + 1) rest

def hp (c : String) (r : Nat) : Hop := { cls := c, rel := r, phrase := "" }

/-- one navigation step from a row of the R_REL -/
def relHop (d : ClassDiagram) (w : RelRows) (x : RI) (h : Hop) : List RI :=
    match x with
    | .simp =>
      if h = hp "R_REL" 206 then [.rel]
      else if h = hp "R_FORM" 208 then (if w.form.isSome then [.row .form] else [])
      else if h = hp "R_PART" 207 then rowsFrom EndId.part 0 w.parts
      else []
    | .assoc =>
      if h = hp "R_REL" 206 then [.rel]
      else if h = hp "R_ASSR" 211 then (if w.assr.isSome then [.row .assr] else [])
      else if h = hp "R_AONE" 209 then (if w.aone.isSome then [.row .aone] else [])
      else if h = hp "R_AOTH" 210 then (if w.aoth.isSome then [.row .aoth] else [])
      else []
    | .subsup =>
      if h = hp "R_REL" 206 then [.rel]
      else if h = hp "R_SUPER" 212 then (if w.super.isSome then [.row .super] else [])
      else if h = hp "R_SUB" 213 then rowsFrom EndId.sub 0 w.subs
      else []
    | .comp => if h = hp "R_REL" 206 then [.rel] else []
    | .row e =>
      if h = hp "R_RGO" 205 then (match e with | .form | .assr | .sub _ => [.rgo e] | _ => [])
      else if h = hp "R_RTO" 204 then (match e with | .part _ | .aone | .aoth | .super => [.rto e] | _ => [])
      else []
    | .rgo e => if h = hp "R_OIR" 203 then [.oir e] else []
    | .rto e =>
      if h = hp "R_OIR" 203 then [.oir e]
      else if h = hp "O_RTIDA" 110 then (refsOn w e).map (fun p => RI.rtida p.1 e p.2)
      else []
    | .oir e => if h = hp "O_OBJ" 201 then ((classOfEnd d w e).map RI.obj).toList else []
    | .rtida g t r =>
      if h = hp "O_REF" 111 then [.ref g t r]
      else if h = hp "O_OIDA" 110 then [.oida g t r]
      else []
    | .ref g t r =>
      if h = hp "O_RATTR" 108 then [.rattr g t r]
      else if h = hp "O_RTIDA" 111 then [.rtida g t r]
      else []
    | .rattr g _ r =>
      if h = hp "O_ATTR" 106 then ((attrAt d w g r.rattr).map RI.attr).toList else []
    | .oida _ t r =>
      if h = hp "O_ATTR" 105 then ((attrAt d w t r.iattr).map RI.attr).toList else []
    | _ => []

def relAttr (numb : Nat) (w : RelRows) (x : RI) (f : String) : Val RI :=
    match x with
    | .rel => if f = "Numb" then .nat numb else .unset
    | .row e =>
      match endOf w e with
      | some en =>
        if f = "Mult" then .bool en.mult else if f = "Cond" then .bool en.cond
        else if f = "Txt_Phrs" then .str en.phrase else if f = "Obj_ID" then .nat en.cls else .unset
      | none => .unset
    | .rgo e => if f = "OIR_ID" then .nat (oirId e) else .unset
    | .rto e => if f = "OIR_ID" then .nat (oirId e) else .unset
    | .ref g _ _ => if f = "OIR_ID" then .nat (oirId g) else .unset
    | .obj c => if f = "Obj_ID" then .nat c.id else if f = "Key_Lett" then .str c.kl else .unset
    | .attr a => if f = "Name" then .str a.name else .unset
    | _ => .unset

def relKind (x : RI) : String :=
    match x with
    | .simp => "R_SIMP" | .assoc => "R_ASSOC" | .subsup => "R_SUBSUP" | .comp => "R_COMP" | .rel => "R_REL" | _ => ""

/-- `subtype(r_rel, 206)`: navigate_subtype tries the R206 links in the order of bridgepoint/schema.py (`RelRows.dispatch`) -/
def relSubtype (w : RelRows) (x : RI) (r : Nat) : Option RI :=
    match x with
    | .rel =>
      if r = 206 then
        (match w.dispatch with
         | .linked => some .assoc | .comp => some .comp | .simple => some .simp | .subsup => some .subsup | .none => none)
      else none
    | _ => none

/-- the rows of one R_REL of diagram `d` as a population -/
def relWorld (d : ClassDiagram) (numb : Nat) (w : RelRows) : World RI :=
  { hop := relHop d w, attr := relAttr numb w, kind := relKind, subtype := relSubtype w, select := fun _ => [] }

@[simp] theorem relWorld_hop (d : ClassDiagram) (numb : Nat) (w : RelRows) : (relWorld d numb w).hop = relHop d w := rfl
@[simp] theorem relWorld_attr (d : ClassDiagram) (numb : Nat) (w : RelRows) : (relWorld d numb w).attr = relAttr numb w := rfl
@[simp] theorem relWorld_kind (d : ClassDiagram) (numb : Nat) (w : RelRows) : (relWorld d numb w).kind = relKind := rfl
@[simp] theorem relWorld_subtype (d : ClassDiagram) (numb : Nat) (w : RelRows) : (relWorld d numb w).subtype = relSubtype w := rfl

/-! decoding the recorded `define_association` calls -/

def argStr {I : Type} (a : List (String × Val I)) (k : String) : Option String :=
  match a.lookup k with | some (.str s) => some s | _ => none
def argBool {I : Type} (a : List (String × Val I)) (k : String) : Option Bool :=
  match a.lookup k with | some (.bool b) => some b | _ => none
def argStrs {I : Type} (a : List (String × Val I)) (k : String) : Option (List String) :=
  match a.lookup k with | some (.strs l) => some l | _ => none
def argNat {I : Type} (a : List (String × Val I)) (k : String) : Option Nat :=
  match a.lookup k with | some (.nat n) => some n | _ => none

/-- a `define_association` call as (rel_id, source side, target side): every keyword parameter by ITS OWN name -/
def decodeAssoc {I : Type} (c : Call I) : Option (Nat × SAssoc) :=
  if c.fn ≠ "define_association" ∨ c.args.length ≠ 11 ∨ c.star ≠ [] then none else
  match argNat c.args "rel_id", argStr c.args "source_kind", argStrs c.args "source_keys", argBool c.args "source_many",
        argBool c.args "source_conditional", argStr c.args "source_phrase", argStr c.args "target_kind",
        argStrs c.args "target_keys", argBool c.args "target_many", argBool c.args "target_conditional",
        argStr c.args "target_phrase" with
  | some n, some sk, some sks, some sm, some sc, some sp, some tk, some tks, some tm, some tc, some tp =>
    some (n, { src := { kind := sk, keys := sks, many := sm, cond := sc, phrase := sp },
               tgt := { kind := tk, keys := tks, many := tm, cond := tc, phrase := tp } })
  | _, _, _, _, _, _, _, _, _, _, _ => none

def decodeAll {I : Type} : List (Call I) → Option (List (Nat × SAssoc))
  | [] => some []
  | c :: cs => match decodeAssoc c, decodeAll cs with
    | some a, some r => some (a :: r)
    | _, _ => none

/-- how a run of `mk_association` ends, in the model's terms -/
def assocsOf {I : Type} : Except Err (Val I × Calls I) → Except Err (List (Nat × SAssoc))
  | .ok (_, cs) => match decodeAll cs with
    | some l => .ok l
    | none => .error .stuck
  | .error e => .error e

def expected (numb : Nat) : AssocOutcome → Except Err (List (Nat × SAssoc))
  | .defined items => .ok (items.map (fun a => (numb, a)))
  | .attributeError => .error .attributeError
  | .typeError => .error .typeError

end Pyx.XShape

namespace Pyx.XShape
open Pyx.Extract Pyx.Gen.ExtractShape

theorem findClass_id {d : ClassDiagram} {id : Nat} {c : Class} (h : findClass d id = some c) : c.id = id := by
  unfold findClass at h
  have := List.find?_some h
  simpa using this

theorem filterE_all {I : Type} (p : I → Except Err Bool) (xs : List I) (h : ∀ x ∈ xs, p x = .ok true) :
    filterE p xs = .ok xs := by
  induction xs with
  | nil => rfl
  | cons x xs ih =>
    simp only [filterE, h x (List.mem_cons_self), ih (fun y hy => h y (List.mem_cons_of_mem _ hy))]
    rfl

/-- one pass through the body of the loop of `_get_related_attributes` -/
theorem relStep (d : ClassDiagram) (numb : Nat) (w : RelRows) (callF : CallF RI) (fuel : Nat) (g t : EndId) (rc tc : Class)
    (hrc : classOfEnd d w g = some rc) (htc : classOfEnd d w t = some tc) (r : Ref) (ra ia : Attr)
    (hra : rc.findAttr r.rattr = some ra) (hia : tc.findAttr r.iattr = some ia) (L : Loc RI) (C : Calls RI) (a b : List String)
    (h1 : L "l1" = .strs a) (h2 : L "l2" = .strs b) :
    iStmts (relWorld d numb w) callF fuel
      [ .assign "o_attr" (.nav { card := .one, start := "o_ref", hops := [{ cls := "O_RATTR", rel := 108, phrase := "" }, { cls := "O_ATTR", rel := 106, phrase := "" }], filter := .all }),
        .append "l1" (.attr "o_attr" "Name"),
        .assign "o_attr" (.nav { card := .one, start := "o_ref", hops := [{ cls := "O_RTIDA", rel := 111, phrase := "" }, { cls := "O_OIDA", rel := 110, phrase := "" }, { cls := "O_ATTR", rel := 105, phrase := "" }], filter := .all }),
        .append "l2" (.attr "o_attr" "Name") ]
      (L.set "o_ref" (.inst (some (RI.ref g t r)))) C =
    .ok (((((L.set "o_ref" (.inst (some (RI.ref g t r)))).set "o_attr" (.inst (some (RI.attr ra)))).set "l1" (.strs (a ++ [ra.name]))).set
        "o_attr" (.inst (some (RI.attr ia)))).set "l2" (.strs (b ++ [ia.name])), C, .next) := by
  xshape [relHop, relAttr, hp, attrAt, hrc, htc, hra, hia, h1, h2]

/-- the loop of `_get_related_attributes` over the O_REF rows of one (referring end, referred end) pair -/
theorem relLoop (d : ClassDiagram) (numb : Nat) (w : RelRows) (callF : CallF RI) (fuel : Nat) (g t : EndId) (rc tc : Class)
    (hrc : classOfEnd d w g = some rc) (htc : classOfEnd d w t = some tc) :
    ∀ (refs : List Ref), refsResolved rc tc refs = true → ∀ (L : Loc RI) (C : Calls RI) (a b : List String),
      L "l1" = .strs a → L "l2" = .strs b →
      ∃ L', forLoop (fun x L' C' => iStmts (relWorld d numb w) callF fuel
              [ .assign "o_attr" (.nav { card := .one, start := "o_ref", hops := [{ cls := "O_RATTR", rel := 108, phrase := "" }, { cls := "O_ATTR", rel := 106, phrase := "" }], filter := .all }),
                .append "l1" (.attr "o_attr" "Name"),
                .assign "o_attr" (.nav { card := .one, start := "o_ref", hops := [{ cls := "O_RTIDA", rel := 111, phrase := "" }, { cls := "O_OIDA", rel := 110, phrase := "" }, { cls := "O_ATTR", rel := 105, phrase := "" }], filter := .all }),
                .append "l2" (.attr "o_attr" "Name") ]
              (L'.set "o_ref" (.inst (some x))) C') (refs.map (RI.ref g t)) L C = .ok (L', C, .next) ∧
        L' "l1" = .strs (a ++ keyNames rc (refs.map (·.rattr))) ∧ L' "l2" = .strs (b ++ keyNames tc (refs.map (·.iattr))) := by
  intro refs
  induction refs with
  | nil => intro _ L C a b h1 h2; exact ⟨L, rfl, by simp [keyNames, h1], by simp [keyNames, h2]⟩
  | cons r rest ih =>
    intro hres L C a b h1 h2
    simp only [refsResolved, List.all_cons, Bool.and_eq_true] at hres
    obtain ⟨⟨hra, hia⟩, hrest⟩ := hres
    obtain ⟨ra, hra⟩ := Option.isSome_iff_exists.mp hra
    obtain ⟨ia, hia⟩ := Option.isSome_iff_exists.mp hia
    have hrest' : refsResolved rc tc rest = true := by simpa [refsResolved] using hrest
    obtain ⟨L', hL, hl1, hl2⟩ := ih hrest'
      (((((L.set "o_ref" (.inst (some (RI.ref g t r)))).set "o_attr" (.inst (some (RI.attr ra)))).set "l1" (.strs (a ++ [ra.name]))).set
        "o_attr" (.inst (some (RI.attr ia)))).set "l2" (.strs (b ++ [ia.name]))) C (a ++ [ra.name]) (b ++ [ia.name])
      (by simp [Loc.set]) (by simp [Loc.set])
    refine ⟨L', ?_, ?_, ?_⟩
    · simp only [List.map_cons, forLoop]
      rw [relStep d numb w callF fuel g t rc tc hrc htc r ra ia hra hia L C a b h1 h2]
      exact hL
    · simp [hl1, keyNames, hra]
    · simp [hl2, keyNames, hia]

end Pyx.XShape

namespace Pyx.XShape
open Pyx.Extract Pyx.Gen.ExtractShape

/-- equality of two endings of `mk_association`, as a Boolean (for kernel evaluation) -/
def sameR (a b : Except Err (List (Nat × SAssoc))) : Bool :=
  match a, b with
  | .ok x, .ok y => x == y
  | .error e, .error f => e == f
  | _, _ => false

/-- `mk_association(m, r_rel)` of the generated IR `ds` on the rows `w` of a relationship numbered `numb` -/
def iMkAssociation (ds : List (String × Def)) (d : ClassDiagram) (numb : Nat) (w : RelRows) : Except Err (List (Nat × SAssoc)) :=
  assocsOf (run (relWorld d numb w) ds 6 "mk_association" [.opaque, .inst (some .rel)])

/-- `dtTypeName` is the interpretation of `_get_data_type_name` -/
theorem dtTypeName_eq (dts : List DataType) (id : Nat) :
    dtTypeName dts id = tyOf (run (dtWorld dts) defs (dts.length + 1) "_get_data_type_name" [.inst ((findDt dts id).map DI.dt)]) := by
  unfold dtTypeName run
  exact (dtType_eq dts _ id _ _).symm

end Pyx.XShape
