import PyxModel.Oal.Expr

/-!
  Helper lemmas for C07 (expression level): the round trip `parseExpr (render e ++ rest) = (e, rest)`
  for an ARBITRARY well-formed precedence table, by structural induction on the tree in continuation
  form, with explicit fuel bounds (so that the fuel-free `parseExprTop` is covered).
-/
set_option linter.unusedSimpArgs false

namespace Pyx.Oal

/-- what the round trip needs of a table; `decide`d for the generated one (`Props/C07.lean`) -/
structure Tbl.WF (t : Tbl) : Prop where
  /-- every binary level is below the level of the unary production -/
  binLt : ∀ k l a, t.bin k = some (l, a) → l < t.ulevel
  /-- operators of one level share the associativity (a row of PLY's `precedence`) -/
  sameAssoc : ∀ k k' l a a', t.bin k = some (l, a) → t.bin k' = some (l, a') → a = a'
  /-- `. [ ( ) ] ,` are not binary operators -/
  structural : ∀ k, k.isStructural = true → t.bin k = none
  /-- a token that starts an operand is not a unary operator -/
  unAtom : ∀ k, k.isAtomStart = true → t.un k = false

/-- `rest` does not continue an access chain / open an argument list -/
def NoExt (ts : List Tok) : Prop :=
  hk ts ≠ some .DOT ∧ hk ts ≠ some .LSQBR ∧ hk ts ≠ some .LPAREN

/-- `rest` does not begin with a binary operator of level ≥ `m` -/
def OpsBelow (t : Tbl) (m : Nat) (ts : List Tok) : Prop :=
  ∀ k l a, hk ts = some k → t.bin k = some (l, a) → l < m

/-- `rest` cannot extend an expression that was parsed with minimal level `m` -/
def Stops (t : Tbl) (m : Nat) (ts : List Tok) : Prop := NoExt ts ∧ OpsBelow t m ts

theorem OpsBelow.mono {t : Tbl} {a b : Nat} (h : a ≤ b) {ts} (hs : OpsBelow t a ts) : OpsBelow t b ts := by
  intro k l as e hb
  have := hs k l as e hb
  omega

theorem Stops.mono {t : Tbl} {a b : Nat} (h : a ≤ b) {ts} (hs : Stops t a ts) : Stops t b ts :=
  ⟨hs.1, hs.2.mono h⟩

/-- a token that is structural but none of `. [ (` stops every expression -/
theorem stops_of_structural {t : Tbl} (wf : t.WF) (m : Nat) (tok : Tok) (ts : List Tok)
    (hs : tok.kind.isStructural = true) (h1 : tok.kind ≠ .DOT) (h2 : tok.kind ≠ .LSQBR) (h3 : tok.kind ≠ .LPAREN) :
    Stops t m (tok :: ts) := by
  refine ⟨⟨?_, ?_, ?_⟩, ?_⟩
  · simpa using h1
  · simpa using h2
  · simpa using h3
  · intro k l a hk' hb
    simp only [hk_cons, Option.some.injEq] at hk'
    subst hk'
    rw [wf.structural _ hs] at hb
    cases hb

theorem stops_rp {t : Tbl} (wf : t.WF) (m : Nat) (rp : Tok) (h : rp.kind = .RPAREN) (ts : List Tok) :
    Stops t m (rp :: ts) :=
  stops_of_structural wf m rp ts (by rw [h]; rfl) (by rw [h]; decide) (by rw [h]; decide) (by rw [h]; decide)

theorem stops_rsq {t : Tbl} (wf : t.WF) (m : Nat) (tok : Tok) (h : tok.kind = .RSQBR) (ts : List Tok) :
    Stops t m (tok :: ts) :=
  stops_of_structural wf m tok ts (by rw [h]; rfl) (by rw [h]; decide) (by rw [h]; decide) (by rw [h]; decide)

theorem stops_comma {t : Tbl} (wf : t.WF) (m : Nat) (tok : Tok) (h : tok.kind = .COMMA) (ts : List Tok) :
    Stops t m (tok :: ts) :=
  stops_of_structural wf m tok ts (by rw [h]; rfl) (by rw [h]; decide) (by rw [h]; decide) (by rw [h]; decide)

/-! ### fuel needed, as a function of the tree -/

mutual
def cost : Expr → Nat
  | .field h _ => cost h + 1
  | .index h i => cost h + cost i + 4
  | .fcall _ ps => costP ps + 2
  | .icall _ _ ps => costP ps + 2
  | .ocall h _ ps => cost h + costP ps + 2
  | .un _ e => cost e + 5
  | .bin l _ r => cost l + cost r + 6
  | .var _ | .self | .selected | .param _ => 3
  | _ => 2
def costP : Params → Nat
  | .nil => 1
  | .cons _ e ps => cost e + costP ps + 4
end

theorem cost_ge (e : Expr) : 1 ≤ cost e := by
  cases e <;> simp only [cost] <;> omega

/-! ### the name classes on the kinds the parser dispatches on -/

theorem isVarName_NUMBER : Kind.isVarName .NUMBER = false := rfl
theorem isVarName_FRACTION : Kind.isVarName .FRACTION = false := rfl
theorem isVarName_STRING : Kind.isVarName .STRING = false := rfl
theorem isVarName_TRUE : Kind.isVarName .TRUE = false := rfl
theorem isVarName_FALSE : Kind.isVarName .FALSE = false := rfl
theorem isVarName_NAMESPACE : Kind.isVarName .NAMESPACE = false := rfl
theorem isVarName_SELF : Kind.isVarName .SELF = false := rfl
theorem isVarName_SELECTED : Kind.isVarName .SELECTED = false := rfl
theorem isVarName_PARAM : Kind.isVarName .PARAM = false := rfl
theorem isVarName_RCVD_EVT : Kind.isVarName .RCVD_EVT = false := rfl
theorem isVarName_DOUBLECOLON : Kind.isVarName .DOUBLECOLON = false := rfl
theorem isVarName_LPAREN : Kind.isVarName .LPAREN = false := rfl
theorem isVarName_RPAREN : Kind.isVarName .RPAREN = false := rfl
theorem isIdent_RPAREN : Kind.isIdent .RPAREN = false := rfl
theorem isIdent_ID : Kind.isIdent .ID = true := rfl
theorem isVarName_ID : Kind.isVarName .ID = true := rfl

/-! ### equation lemmas of the renderers -/

@[simp] theorem LP_kind : LP.kind = .LPAREN := rfl
@[simp] theorem RP_kind : RP.kind = .RPAREN := rfl
@[simp] theorem tk_kind (k : Kind) (s : String) : (tk k s).kind = k := rfl
@[simp] theorem tk_lex (k : Kind) (s : String) : (tk k s).lex = s := rfl

theorem wrap_true (ts : List Tok) : wrap true ts = LP :: (ts ++ [RP]) := rfl
theorem wrap_false (ts : List Tok) : wrap false ts = ts := rfl

theorem render_raw (t : Tbl) {e : Expr} {need : Nat} (h : ¬ e.level t < need) :
    render t e need = renderRaw t e := by
  simp only [render, h, decide_false, wrap_false]

theorem render_paren (t : Tbl) {e : Expr} {need : Nat} (h : e.level t < need) :
    render t e need = LP :: (renderRaw t e ++ [RP]) := by
  simp only [render, h, decide_true, wrap_true]

theorem render_zero (t : Tbl) (e : Expr) : render t e 0 = renderRaw t e :=
  render_raw t (Nat.not_lt_zero _)

theorem renderRaw_field (t : Tbl) (h : Expr) (n : Tok) :
    renderRaw t (.field h n) = renderRaw t h ++ [tk .DOT ".", n] := by
  rw [renderRaw]
theorem renderRaw_index (t : Tbl) (h i : Expr) :
    renderRaw t (.index h i) = renderRaw t h ++ tk .LSQBR "[" :: (render t i 0 ++ [tk .RSQBR "]"]) := by
  rw [renderRaw]; rfl
theorem renderRaw_fcall (t : Tbl) (n : Tok) (ps : Params) :
    renderRaw t (.fcall n ps) = tk .DOUBLECOLON "::" :: n :: LP :: (renderParams t ps ++ [RP]) := by
  rw [renderRaw]
theorem renderRaw_icall (t : Tbl) (ns : String) (n : Tok) (ps : Params) :
    renderRaw t (.icall ns n ps) =
      tk .NAMESPACE ns :: tk .DOUBLECOLON "::" :: n :: LP :: (renderParams t ps ++ [RP]) := by
  rw [renderRaw]
theorem renderRaw_ocall (t : Tbl) (h : Expr) (n : Tok) (ps : Params) :
    renderRaw t (.ocall h n ps) =
      renderRaw t h ++ tk .DOT "." :: n :: LP :: (renderParams t ps ++ [RP]) := by
  rw [renderRaw]
theorem renderRaw_un (t : Tbl) (op : Tok) (e : Expr) :
    renderRaw t (.un op e) = op :: render t e t.ulevel := by
  rw [renderRaw]; rfl
theorem renderRaw_bin (t : Tbl) (l : Expr) (op : Tok) (r : Expr) {lv a} (h : t.bin op.kind = some (lv, a)) :
    renderRaw t (.bin l op r) = render t l (lmin lv a) ++ op :: render t r (rmin lv a) := by
  rw [renderRaw]; simp only [h]; rfl
theorem renderParams_nil (t : Tbl) : renderParams t .nil = [] := by rw [renderParams]
theorem renderParams_one (t : Tbl) (n : Tok) (e : Expr) :
    renderParams t (.cons n e .nil) = n :: tk .COLON ":" :: render t e 0 := by
  rw [renderParams]; rfl
theorem renderParams_more (t : Tbl) (n : Tok) (e : Expr) (n' : Tok) (e' : Expr) (ps : Params) :
    renderParams t (.cons n e (.cons n' e' ps)) =
      n :: tk .COLON ":" :: (render t e 0 ++ tk .COMMA "," :: renderParams t (.cons n' e' ps)) := by
  rw [renderParams]
  · rfl
  · intro h; cases h

/-! ### the two renderers share the atom layer: a renderer, abstractly -/

/-- how atoms are written: `R` the operand itself, `RI` an expression in an index / argument position,
    `RPs` an argument list.  Instances: `rawRend t` (`renderRaw` / `render · 0`) and `fullRend` (`renderFull`). -/
structure Rend where
  R : Expr → List Tok
  RI : Expr → List Tok
  RPs : Params → List Tok
  int : ∀ v, R (.int v) = [tk .NUMBER v]
  real : ∀ v, R (.real v) = [tk .FRACTION v]
  str : ∀ v, R (.str v) = [tk .STRING v]
  bool : ∀ b v, R (.bool b v) = [tk (if b then .TRUE else .FALSE) v]
  enumc : ∀ ns n, R (.enumc ns n) = [tk .NAMESPACE ns, tk .DOUBLECOLON "::", n]
  var : ∀ n, R (.var n) = [n]
  self : R .self = [tk .SELF "self"]
  selected : R .selected = [tk .SELECTED "selected"]
  param : ∀ n, R (.param n) = [tk .PARAM "param", tk .DOT ".", n]
  field : ∀ h n, R (.field h n) = R h ++ [tk .DOT ".", n]
  index : ∀ h i, R (.index h i) = R h ++ tk .LSQBR "[" :: (RI i ++ [tk .RSQBR "]"])
  fcall : ∀ n ps, R (.fcall n ps) = tk .DOUBLECOLON "::" :: n :: LP :: (RPs ps ++ [RP])
  icall : ∀ ns n ps, R (.icall ns n ps) =
    tk .NAMESPACE ns :: tk .DOUBLECOLON "::" :: n :: LP :: (RPs ps ++ [RP])
  ocall : ∀ h n ps, R (.ocall h n ps) = R h ++ tk .DOT "." :: n :: LP :: (RPs ps ++ [RP])
  pnil : RPs .nil = []
  pone : ∀ n e, RPs (.cons n e .nil) = n :: tk .COLON ":" :: RI e
  pmore : ∀ n e n' e' ps, RPs (.cons n e (.cons n' e' ps)) =
    n :: tk .COLON ":" :: (RI e ++ tk .COMMA "," :: RPs (.cons n' e' ps))

def rawRend (t : Tbl) : Rend where
  R := renderRaw t
  RI := fun e => render t e 0
  RPs := renderParams t
  int := fun _ => by rw [renderRaw]
  real := fun _ => by rw [renderRaw]
  str := fun _ => by rw [renderRaw]
  bool := fun _ _ => by rw [renderRaw]
  enumc := fun _ _ => by rw [renderRaw]
  var := fun _ => by rw [renderRaw]
  self := by rw [renderRaw]
  selected := by rw [renderRaw]
  param := fun _ => by rw [renderRaw]
  field := renderRaw_field t
  index := renderRaw_index t
  fcall := renderRaw_fcall t
  icall := renderRaw_icall t
  ocall := renderRaw_ocall t
  pnil := renderParams_nil t
  pone := renderParams_one t
  pmore := renderParams_more t

def fullRend : Rend where
  R := renderFull
  RI := renderFull
  RPs := renderFullParams
  int := fun _ => by rw [renderFull]
  real := fun _ => by rw [renderFull]
  str := fun _ => by rw [renderFull]
  bool := fun _ _ => by rw [renderFull]
  enumc := fun _ _ => by rw [renderFull]
  var := fun _ => by rw [renderFull]
  self := by rw [renderFull]
  selected := by rw [renderFull]
  param := fun _ => by rw [renderFull]
  field := fun _ _ => by rw [renderFull]
  index := fun _ _ => by rw [renderFull]
  fcall := fun _ _ => by rw [renderFull]
  icall := fun _ _ _ => by rw [renderFull]
  ocall := fun _ _ _ => by rw [renderFull]
  pnil := by rw [renderFullParams]
  pone := fun _ _ => by rw [renderFullParams]
  pmore := fun _ _ _ _ _ => by
    rw [renderFullParams]
    intro h; cases h

/-! ### the round trip -/

def Expr.naFlag (t : Tbl) : Expr → Option Nat
  | .bin _ op _ => match t.bin op.kind with | some (l, .nonassoc) => some l | _ => none
  | _ => none

/-- what must hold of the text that follows the unparenthesised rendering of `e` -/
def StopsAfter (t : Tbl) : Expr → List Tok → Prop
  | .bin _ op _, rest => NoExt rest ∧ ∀ lv a, t.bin op.kind = some (lv, a) → OpsBelow t (rmin lv a) rest
  | _, rest => NoExt rest

theorem StopsAfter.noExt {t : Tbl} {e : Expr} {rest : List Tok} (h : StopsAfter t e rest) : NoExt rest := by
  cases e <;> first | exact h | exact h.1

theorem fuel_succ {f n : Nat} (h : n + 1 ≤ f) : ∃ f', f = f' + 1 := ⟨f - 1, by omega⟩

theorem loop_stops (t : Tbl) {m na e rest} (h : OpsBelow t m rest) :
    ∀ g, 1 ≤ g → parseLoop t g m na e rest = some (e, rest) := by
  intro g hg
  obtain ⟨g', rfl⟩ := fuel_succ hg
  cases rest with
  | nil => simp only [parseLoop]
  | cons tok ts =>
    simp only [parseLoop]
    cases hb : t.bin tok.kind with
    | none => rfl
    | some la =>
      obtain ⟨l, a⟩ := la
      have := h tok.kind l a rfl hb
      simp only [this, ↓reduceIte]

theorem suffix_stops (t : Tbl) {e rest} (h : NoExt rest) :
    ∀ g, 1 ≤ g → parseSuffix t g e rest = some (e, rest) := by
  intro g hg
  obtain ⟨g', rfl⟩ := fuel_succ hg
  cases rest with
  | nil => simp only [parseSuffix]
  | cons tok ts =>
    obtain ⟨h1, h2, _⟩ := h
    simp only [hk_cons, ne_eq, Option.some.injEq] at h1 h2
    simp only [parseSuffix]

/-- continuation form: if looping on from `(e, rest)` gives `r`, parsing `renderRaw e ++ rest` gives `r` -/
def Q2 (t : Tbl) (e : Expr) : Prop :=
  ∀ m rest r G, m ≤ e.level t → StopsAfter t e rest →
    (∀ g, G ≤ g → parseLoop t g m (e.naFlag t) e rest = some r) →
    ∀ f, G + cost e ≤ f → parseExpr t f m (renderRaw t e ++ rest) = some r

def P3 (t : Tbl) (e : Expr) : Prop :=
  ∀ need rest, Stops t need rest → ∀ f, cost e + 3 ≤ f →
    parseExpr t f need (render t e need ++ rest) = some (e, rest)

/-- continuation form for access chains: if the suffix loop from `(e, rest)` gives `r`, the operand
    parser on `renderRaw e ++ rest` gives `r` -/
def CHg (rd : Rend) (t : Tbl) (e : Expr) : Prop :=
  ∀ rest r G, hk rest ≠ some .LPAREN →
    (∀ g, G ≤ g → parseSuffix t g e rest = some r) →
    ∀ f, G + cost e ≤ f + 2 → parsePrefix t f (rd.R e ++ rest) = some r

def PPg (rd : Rend) (t : Tbl) (ps : Params) : Prop :=
  ∀ rp rest, rp.kind = .RPAREN → ∀ f, costP ps ≤ f →
    parseParams t f (rd.RPs ps ++ rp :: rest) = some (ps, rp :: rest)

/-- operand form: the operand parser reads an atom back -/
def P1g (rd : Rend) (t : Tbl) (e : Expr) : Prop :=
  ∀ rest, NoExt rest → ∀ f, cost e ≤ f + 1 → parsePrefix t f (rd.R e ++ rest) = some (e, rest)

/-- an expression in index / argument position is read back -/
def P3I (rd : Rend) (t : Tbl) (e : Expr) : Prop :=
  ∀ rest, Stops t 0 rest → ∀ f, cost e + 3 ≤ f → parseExpr t f 0 (rd.RI e ++ rest) = some (e, rest)

abbrev CH (t : Tbl) (e : Expr) : Prop := CHg (rawRend t) t e
abbrev PP (t : Tbl) (ps : Params) : Prop := PPg (rawRend t) t ps
abbrev P1 (t : Tbl) (e : Expr) : Prop := P1g (rawRend t) t e

theorem stopsAfter_of_stops (t : Tbl) {e : Expr} {need : Nat} {rest : List Tok}
    (hn : need ≤ e.level t) (hs : Stops t need rest) : StopsAfter t e rest := by
  cases e with
  | bin l op r =>
    refine ⟨hs.1, ?_⟩
    intro lv a hb
    simp only [Expr.level, hb] at hn
    exact hs.2.mono (Nat.le_trans hn (by cases a <;> simp [rmin]))
  | _ => exact hs.1

theorem stopsAfter_rp {t : Tbl} (wf : t.WF) (e : Expr) (rp : Tok) (h : rp.kind = .RPAREN) (ts : List Tok) :
    StopsAfter t e (rp :: ts) :=
  stopsAfter_of_stops t (Nat.zero_le _) (stops_rp wf 0 rp h ts)

/-- a parenthesised group in operand position -/
theorem prefix_paren {t : Tbl} (wf : t.WF) {e : Expr} (h2 : Q2 t e) (rest : List Tok) :
    ∀ f, cost e + 2 ≤ f → parsePrefix t f (LP :: (renderRaw t e ++ RP :: rest)) = some (e, rest) := by
  intro f hf
  obtain ⟨f', rfl⟩ := fuel_succ (f := f) (n := 0) (by omega)
  have hin : parseExpr t f' 0 (renderRaw t e ++ RP :: rest) = some (e, RP :: rest) :=
    h2 0 (RP :: rest) (e, RP :: rest) 1 (Nat.zero_le _) (stopsAfter_rp wf e RP rfl rest)
      (loop_stops t (stops_rp wf 0 RP rfl rest).2) f' (by omega)
  have hu : t.un Kind.LPAREN = false := wf.unAtom _ rfl
  simp only [parsePrefix, isVarName_NUMBER, isVarName_FRACTION, isVarName_STRING, isVarName_TRUE, isVarName_FALSE, isVarName_NAMESPACE, isVarName_SELF, isVarName_SELECTED, isVarName_PARAM, isVarName_RCVD_EVT, isVarName_DOUBLECOLON, isVarName_LPAREN, isVarName_RPAREN, LP_kind, hu, Bool.false_eq_true, ↓reduceIte, hin, hk_cons, RP_kind, List.drop_succ_cons,
    List.drop_zero]

theorem p3_of_q2 {t : Tbl} (wf : t.WF) (e : Expr) (h2 : Q2 t e) : P3 t e := by
  intro need rest hs f hf
  by_cases hl : e.level t < need
  · rw [render_paren t hl]
    obtain ⟨f', rfl⟩ := fuel_succ (f := f) (n := 0) (by omega)
    have hp := prefix_paren wf h2 rest f' (by omega)
    simp only [List.cons_append, List.append_assoc, List.nil_append, parseExpr, hp]
    exact loop_stops t hs.2 f' (by omega)
  · rw [render_raw t hl]
    exact h2 need rest (e, rest) 1 (by omega) (stopsAfter_of_stops t (by omega) hs)
      (loop_stops t hs.2) f (by omega)

/-- an operand that the operand parser reads back gives the continuation form -/
theorem q2_of_p1 {t : Tbl} {e : Expr} (hna : e.naFlag t = none) (h1 : P1 t e) : Q2 t e := by
  intro m rest r G _ hsa hk f hf
  have hc := cost_ge e
  obtain ⟨f', rfl⟩ := fuel_succ (f := f) (n := 0) (by omega)
  have hp : parsePrefix t f' (renderRaw t e ++ rest) = some (e, rest) := h1 rest hsa.noExt f' (by omega)
  simp only [parseExpr, hp]
  rw [hna] at hk
  exact hk f' (by omega)

theorem p1_of_ch {rd : Rend} {t : Tbl} {e : Expr} (h : CHg rd t e) : P1g rd t e := by
  intro rest hne f hf
  exact h rest (e, rest) 1 hne.2.2 (suffix_stops t hne) f (by omega)

/-! #### operands (for any renderer with the atom layer of `Rend`) -/

section atoms
variable {rd : Rend} {t : Tbl}

theorem p1_int (wf : t.WF) (v : String) : P1g rd t (.int v) := by
  intro rest _ f hf
  obtain ⟨f', rfl⟩ := fuel_succ (f := f) (n := 0) (by simp only [cost] at hf; omega)
  have hu : t.un Kind.NUMBER = false := wf.unAtom _ rfl
  rw [rd.int]
  simp only [List.cons_append, List.nil_append, parsePrefix, isVarName_NUMBER, isVarName_FRACTION, isVarName_STRING, isVarName_TRUE, isVarName_FALSE, isVarName_NAMESPACE, isVarName_SELF, isVarName_SELECTED, isVarName_PARAM, isVarName_RCVD_EVT, isVarName_DOUBLECOLON, isVarName_LPAREN, isVarName_RPAREN, tk_kind, tk_lex, hu, Bool.false_eq_true,
    ↓reduceIte]

theorem p1_real (wf : t.WF) (v : String) : P1g rd t (.real v) := by
  intro rest _ f hf
  obtain ⟨f', rfl⟩ := fuel_succ (f := f) (n := 0) (by simp only [cost] at hf; omega)
  have hu : t.un Kind.FRACTION = false := wf.unAtom _ rfl
  rw [rd.real]
  simp only [List.cons_append, List.nil_append, parsePrefix, isVarName_NUMBER, isVarName_FRACTION, isVarName_STRING, isVarName_TRUE, isVarName_FALSE, isVarName_NAMESPACE, isVarName_SELF, isVarName_SELECTED, isVarName_PARAM, isVarName_RCVD_EVT, isVarName_DOUBLECOLON, isVarName_LPAREN, isVarName_RPAREN, tk_kind, tk_lex, hu, Bool.false_eq_true,
    ↓reduceIte]

theorem p1_str (wf : t.WF) (v : String) : P1g rd t (.str v) := by
  intro rest _ f hf
  obtain ⟨f', rfl⟩ := fuel_succ (f := f) (n := 0) (by simp only [cost] at hf; omega)
  have hu : t.un Kind.STRING = false := wf.unAtom _ rfl
  rw [rd.str]
  simp only [List.cons_append, List.nil_append, parsePrefix, isVarName_NUMBER, isVarName_FRACTION, isVarName_STRING, isVarName_TRUE, isVarName_FALSE, isVarName_NAMESPACE, isVarName_SELF, isVarName_SELECTED, isVarName_PARAM, isVarName_RCVD_EVT, isVarName_DOUBLECOLON, isVarName_LPAREN, isVarName_RPAREN, tk_kind, tk_lex, hu, Bool.false_eq_true,
    ↓reduceIte]

theorem p1_bool (wf : t.WF) (b : Bool) (v : String) : P1g rd t (.bool b v) := by
  intro rest _ f hf
  obtain ⟨f', rfl⟩ := fuel_succ (f := f) (n := 0) (by simp only [cost] at hf; omega)
  have hu1 : t.un Kind.TRUE = false := wf.unAtom _ rfl
  have hu2 : t.un Kind.FALSE = false := wf.unAtom _ rfl
  rw [rd.bool]
  cases b <;>
  simp only [List.cons_append, List.nil_append, parsePrefix, isVarName_NUMBER, isVarName_FRACTION, isVarName_STRING, isVarName_TRUE, isVarName_FALSE, isVarName_NAMESPACE, isVarName_SELF, isVarName_SELECTED, isVarName_PARAM, isVarName_RCVD_EVT, isVarName_DOUBLECOLON, isVarName_LPAREN, isVarName_RPAREN, tk_kind, tk_lex, hu1, hu2, Bool.false_eq_true,
    ↓reduceIte]

theorem isAtomStart_of_isVarName {k : Kind} (h : k.isVarName = true) : k.isAtomStart = true := by
  cases k <;> first | rfl | (simp [Kind.isVarName] at h)

theorem p1_enumc (wf : t.WF) (ns : String) (n : Tok) (hn : n.kind.isIdent = true) : P1g rd t (.enumc ns n) := by
  intro rest hne f hf
  obtain ⟨f', rfl⟩ := fuel_succ (f := f) (n := 0) (by simp only [cost] at hf; omega)
  have hu : t.un Kind.NAMESPACE = false := wf.unAtom _ rfl
  have hlp := hne.2.2
  rw [rd.enumc]
  simp only [List.cons_append, List.nil_append, parsePrefix, isVarName_NUMBER, isVarName_FRACTION, isVarName_STRING, isVarName_TRUE, isVarName_FALSE, isVarName_NAMESPACE, isVarName_SELF, isVarName_SELECTED, isVarName_PARAM, isVarName_RCVD_EVT, isVarName_DOUBLECOLON, isVarName_LPAREN, isVarName_RPAREN, tk_kind, tk_lex, hu, Bool.false_eq_true,
    ↓reduceIte, and_self, hlp, hn]

theorem ch_var (wf : t.WF) (n : Tok) (hn : n.kind.isVarName = true) : CHg rd t (.var n) := by
  intro rest r G _ hk f hf
  obtain ⟨f', rfl⟩ := fuel_succ (f := f) (n := 0) (by simp only [cost] at hf; omega)
  have hu : t.un n.kind = false := wf.unAtom _ (isAtomStart_of_isVarName hn)
  rw [rd.var]
  simp only [List.cons_append, List.nil_append, parsePrefix, hu, Bool.false_eq_true, ↓reduceIte, hn]
  exact hk f' (by simp only [cost] at hf; omega)

theorem ch_self (wf : t.WF) : CHg rd t .self := by
  intro rest r G _ hk f hf
  obtain ⟨f', rfl⟩ := fuel_succ (f := f) (n := 0) (by simp only [cost] at hf; omega)
  have hu : t.un Kind.SELF = false := wf.unAtom _ rfl
  rw [rd.self]
  simp only [List.cons_append, List.nil_append, parsePrefix, isVarName_NUMBER, isVarName_FRACTION, isVarName_STRING, isVarName_TRUE, isVarName_FALSE, isVarName_NAMESPACE, isVarName_SELF, isVarName_SELECTED, isVarName_PARAM, isVarName_RCVD_EVT, isVarName_DOUBLECOLON, isVarName_LPAREN, isVarName_RPAREN, tk_kind, hu, Bool.false_eq_true,
    ↓reduceIte]
  exact hk f' (by simp only [cost] at hf; omega)

theorem ch_selected (wf : t.WF) : CHg rd t .selected := by
  intro rest r G _ hk f hf
  obtain ⟨f', rfl⟩ := fuel_succ (f := f) (n := 0) (by simp only [cost] at hf; omega)
  have hu : t.un Kind.SELECTED = false := wf.unAtom _ rfl
  rw [rd.selected]
  simp only [List.cons_append, List.nil_append, parsePrefix, isVarName_NUMBER, isVarName_FRACTION, isVarName_STRING, isVarName_TRUE, isVarName_FALSE, isVarName_NAMESPACE, isVarName_SELF, isVarName_SELECTED, isVarName_PARAM, isVarName_RCVD_EVT, isVarName_DOUBLECOLON, isVarName_LPAREN, isVarName_RPAREN, tk_kind, hu, Bool.false_eq_true,
    ↓reduceIte]
  exact hk f' (by simp only [cost] at hf; omega)

theorem ch_param (wf : t.WF) (n : Tok) (hn : n.kind.isVarName = true) : CHg rd t (.param n) := by
  intro rest r G _ hk f hf
  obtain ⟨f', rfl⟩ := fuel_succ (f := f) (n := 0) (by simp only [cost] at hf; omega)
  have hu : t.un Kind.PARAM = false := wf.unAtom _ rfl
  rw [rd.param]
  simp only [List.cons_append, List.nil_append, parsePrefix, isVarName_NUMBER, isVarName_FRACTION, isVarName_STRING, isVarName_TRUE, isVarName_FALSE, isVarName_NAMESPACE, isVarName_SELF, isVarName_SELECTED, isVarName_PARAM, isVarName_RCVD_EVT, isVarName_DOUBLECOLON, isVarName_LPAREN, isVarName_RPAREN, tk_kind, tk_lex, hu, Bool.false_eq_true,
    ↓reduceIte, and_self, hn]
  exact hk f' (by simp only [cost] at hf; omega)

theorem ch_field {h : Expr} (n : Tok) (hn : n.kind.isIdent = true) (hc : h.isChain = true) (ih : CHg rd t h) :
    CHg rd t (.field h n) := by
  intro rest r G hlp hk f hf
  rw [rd.field, List.append_assoc]
  simp only [cost] at hf
  refine ih (tk .DOT "." :: n :: rest) r (G + 1) (by simp) ?_ f (by omega)
  intro g hg
  obtain ⟨g', rfl⟩ := fuel_succ hg
  simp only [parseSuffix, tk_kind, tk_lex, ↓reduceIte, hlp, hc, hn]
  exact hk g' (by omega)

theorem ch_index (wf : t.WF) {h i : Expr} (hc : h.isIndexable = true) (ih : CHg rd t h) (p3i : P3I rd t i) :
    CHg rd t (.index h i) := by
  intro rest r G _ hk f hf
  rw [rd.index, List.append_assoc]
  simp only [cost] at hf
  refine ih (tk .LSQBR "[" :: (rd.RI i ++ [tk .RSQBR "]"]) ++ rest) r (G + cost i + 4) (by simp) ?_ f (by omega)
  intro g hg
  obtain ⟨g', rfl⟩ := fuel_succ (f := g) (n := 0) (by omega)
  have hi := p3i (tk .RSQBR "]" :: rest) (stops_rsq wf 0 _ rfl rest) g' (by omega)
  simp only [List.cons_append, List.append_assoc, List.nil_append, parseSuffix, tk_kind, hc, ↓reduceIte, hi, hk_cons,
    List.drop_succ_cons, List.drop_zero]
  exact hk g' (by omega)

theorem p1_fcall (wf : t.WF) (n : Tok) (hn : n.kind.isIdent = true) {ps : Params} (pp : PPg rd t ps) :
    P1g rd t (.fcall n ps) := by
  intro rest _ f hf
  simp only [cost] at hf
  obtain ⟨f', rfl⟩ := fuel_succ (f := f) (n := 0) (by omega)
  have hu : t.un Kind.DOUBLECOLON = false := wf.unAtom _ rfl
  have hp := pp RP rest rfl f' (by omega)
  rw [rd.fcall]
  simp only [List.cons_append, List.append_assoc, List.nil_append, parsePrefix, isVarName_NUMBER, isVarName_FRACTION, isVarName_STRING, isVarName_TRUE, isVarName_FALSE, isVarName_NAMESPACE, isVarName_SELF, isVarName_SELECTED, isVarName_PARAM, isVarName_RCVD_EVT, isVarName_DOUBLECOLON, isVarName_LPAREN, isVarName_RPAREN, tk_kind, tk_lex, LP_kind, hu,
    Bool.false_eq_true, ↓reduceIte, and_self, hp, hk_cons, RP_kind, List.drop_succ_cons, List.drop_zero, hn]

theorem p1_icall (wf : t.WF) (ns : String) (n : Tok) (hn : n.kind.isIdent = true) {ps : Params} (pp : PPg rd t ps) :
    P1g rd t (.icall ns n ps) := by
  intro rest _ f hf
  simp only [cost] at hf
  obtain ⟨f', rfl⟩ := fuel_succ (f := f) (n := 0) (by omega)
  have hu : t.un Kind.NAMESPACE = false := wf.unAtom _ rfl
  have hp := pp RP rest rfl f' (by omega)
  rw [rd.icall]
  simp only [List.cons_append, List.append_assoc, List.nil_append, parsePrefix, isVarName_NUMBER, isVarName_FRACTION, isVarName_STRING, isVarName_TRUE, isVarName_FALSE, isVarName_NAMESPACE, isVarName_SELF, isVarName_SELECTED, isVarName_PARAM, isVarName_RCVD_EVT, isVarName_DOUBLECOLON, isVarName_LPAREN, isVarName_RPAREN, tk_kind, tk_lex, LP_kind, hu,
    Bool.false_eq_true, ↓reduceIte, and_self, hp, hk_cons, RP_kind, List.drop_succ_cons, List.drop_zero, hn]

theorem p1_ocall {h : Expr} (n : Tok) (hn : n.kind.isIdent = true) {ps : Params} (hs : h.isStruct = true) (ih : CHg rd t h)
    (pp : PPg rd t ps) : P1g rd t (.ocall h n ps) := by
  intro rest _ f hf
  simp only [cost] at hf
  rw [rd.ocall, List.append_assoc]
  refine ih (tk .DOT "." :: n :: LP :: (rd.RPs ps ++ [RP]) ++ rest) _ (costP ps + 1) (by simp) ?_ f
    (by omega)
  intro g hg
  obtain ⟨g', rfl⟩ := fuel_succ hg
  have hp := pp RP rest rfl g' (by omega)
  simp only [List.cons_append, List.append_assoc, List.nil_append, parseSuffix, tk_kind, tk_lex, ↓reduceIte, hk_cons,
    LP_kind, hs, List.drop_succ_cons, List.drop_zero, hp, RP_kind, hn]

theorem ch_of_struct (wf : t.WF) {h : Expr} (hs : h.isStruct = true) (hok : h.Ok t) : CHg rd t h := by
  cases h with
  | var n => exact ch_var wf n (by simpa only [Expr.Ok] using hok)
  | self => exact ch_self wf
  | selected => exact ch_selected wf
  | _ => simp [Expr.isStruct] at hs

/-! #### parameter lists -/

theorem pp_nil : PPg rd t .nil := by
  intro rp rest hrp f hf
  simp only [costP] at hf
  obtain ⟨f', rfl⟩ := fuel_succ (f := f) (n := 0) (by omega)
  rw [rd.pnil, List.nil_append]
  cases rest with
  | nil => simp only [parseParams]
  | cons c ts => simp only [parseParams, hrp, isIdent_RPAREN, Bool.false_eq_true, false_and, ↓reduceIte]

theorem pp_cons (wf : t.WF) (n : Tok) (hn : n.kind.isIdent = true) {e : Expr} {ps : Params} (p3 : P3I rd t e)
    (pp : PPg rd t ps) :
    PPg rd t (.cons n e ps) := by
  intro rp rest hrp f hf
  simp only [costP] at hf
  obtain ⟨f', rfl⟩ := fuel_succ (f := f) (n := 0) (by omega)
  cases ps with
  | nil =>
    have he := p3 (rp :: rest) (stops_rp wf 0 rp hrp rest) f' (by omega)
    rw [rd.pone]
    simp only [List.cons_append, parseParams, tk_kind, tk_lex, and_self, ↓reduceIte, he, hk_cons, hrp, Option.some.injEq,
      reduceCtorEq, hn]
  | cons n' e' ps' =>
    have he := p3 (tk .COMMA "," :: (rd.RPs (.cons n' e' ps') ++ rp :: rest))
      (stops_comma wf 0 _ rfl _) f' (by omega)
    have hps := pp rp rest hrp f' (by omega)
    rw [rd.pmore]
    simp only [List.cons_append, List.append_assoc, parseParams, tk_kind, tk_lex, and_self, ↓reduceIte, he, hk_cons,
      List.drop_succ_cons, List.drop_zero, hps, hn]

end atoms

/-! #### operators -/

theorem q2_un {t : Tbl} (wf : t.WF) {op : Tok} {e : Expr} (hu : t.un op.kind = true) (p3 : P3 t e) :
    Q2 t (.un op e) := by
  intro m rest r G _ hsa hk f hf
  simp only [cost] at hf
  obtain ⟨f1, rfl⟩ := fuel_succ (f := f) (n := 0) (by omega)
  obtain ⟨f2, rfl⟩ := fuel_succ (f := f1) (n := 0) (by omega)
  have hs : Stops t t.ulevel rest := ⟨hsa, fun k l a _ hb => wf.binLt k l a hb⟩
  have he := p3 t.ulevel rest hs f2 (by omega)
  rw [renderRaw_un]
  simp only [List.cons_append, parseExpr, parsePrefix, hu, ↓reduceIte, he]
  exact hk (f2 + 1) (by omega)

theorem naFlag_bin (t : Tbl) {l r : Expr} {op : Tok} {lv a} (hb : t.bin op.kind = some (lv, a)) :
    (Expr.bin l op r).naFlag t = (if a = .nonassoc then some lv else none) := by
  simp only [Expr.naFlag, hb]
  cases a <;> simp

theorem rmin_ge (l : Nat) (a : Assoc) : l ≤ rmin l a := by cases a <;> simp [rmin]
theorem lmin_ge (l : Nat) (a : Assoc) : l ≤ lmin l a := by cases a <;> simp [lmin]

theorem noExt_op {t : Tbl} (wf : t.WF) {tok : Tok} {x} (hb : t.bin tok.kind = some x) (ts : List Tok) :
    NoExt (tok :: ts) := by
  refine ⟨?_, ?_, ?_⟩ <;>
  · intro h
    simp only [hk_cons, Option.some.injEq] at h
    rw [h, wf.structural _ rfl] at hb
    cases hb

/-- how an operand may be written where level `need` is required: as it is (if its level allows) or in
    one pair of parentheses (always) -/
def OperandText (t : Tbl) (e : Expr) (need : Nat) (ts : List Tok) : Prop :=
  (ts = renderRaw t e ∧ need ≤ e.level t) ∨ ts = LP :: (renderRaw t e ++ [RP])

theorem operandText_render (t : Tbl) (e : Expr) (need : Nat) : OperandText t e need (render t e need) := by
  by_cases h : e.level t < need
  · exact Or.inr (render_paren t h)
  · exact Or.inl ⟨render_raw t h, by omega⟩

/-- `P3` for any admissible way of writing the operand -/
theorem p3_operandText {t : Tbl} (wf : t.WF) {e : Expr} (h2 : Q2 t e) {need : Nat} {ts : List Tok}
    (ht : OperandText t e need ts) {rest : List Tok} (hs : Stops t need rest) :
    ∀ f, cost e + 3 ≤ f → parseExpr t f need (ts ++ rest) = some (e, rest) := by
  intro f hf
  rcases ht with ⟨rfl, hge⟩ | rfl
  · exact h2 need rest (e, rest) 1 hge (stopsAfter_of_stops t hge hs) (loop_stops t hs.2) f (by omega)
  · obtain ⟨f', rfl⟩ := fuel_succ (f := f) (n := 0) (by omega)
    have hp := prefix_paren wf h2 rest f' (by omega)
    simp only [List.cons_append, List.append_assoc, List.nil_append, parseExpr, hp]
    exact loop_stops t hs.2 f' (by omega)

/-- the binary case for any admissible way of writing the two operands -/
theorem q2_bin_gen {t : Tbl} (wf : t.WF) {l r : Expr} {op : Tok} {lv a} (hb : t.bin op.kind = some (lv, a))
    (q2l : Q2 t l) (q2r : Q2 t r) {L R : List Tok} (hL : OperandText t l (lmin lv a) L)
    (hR : OperandText t r (rmin lv a) R) :
    ∀ m rest res G, m ≤ lv → Stops t (rmin lv a) rest →
      (∀ g, G ≤ g → parseLoop t g m ((Expr.bin l op r).naFlag t) (.bin l op r) rest = some res) →
      ∀ f, G + (cost l + cost r + 6) ≤ f → parseExpr t f m (L ++ op :: (R ++ rest)) = some res := by
  intro m rest res G hm hsr hk f hf
  -- one turn of the loop over `op` and the right operand
  have hstep : ∀ na, na ≠ some lv → ∀ g, G + cost r + 4 ≤ g →
      parseLoop t g m na l (op :: (R ++ rest)) = some res := by
    intro na hna g hg
    obtain ⟨g', rfl⟩ := fuel_succ (f := g) (n := 0) (by omega)
    have h1 : ¬ lv < m := by omega
    simp only [parseLoop, hb, h1, ↓reduceIte, hna, p3_operandText wf q2r hR hsr g' (by omega)]
    rw [naFlag_bin t hb] at hk
    exact hk g' (by omega)
  rcases hL with ⟨rfl, hge⟩ | rfl
  · -- left operand as it is: its own loop continues over `op`
    have hsal : StopsAfter t l (op :: (R ++ rest)) := by
      cases l with
      | bin l' op' r' =>
        refine ⟨noExt_op wf hb _, ?_⟩
        intro lv' a' hb' k l2 a2 hk2 hb2
        simp only [hk_cons, Option.some.injEq] at hk2
        subst hk2
        rw [hb] at hb2
        cases hb2
        simp only [Expr.level, hb'] at hge
        have h1 := lmin_ge lv a
        have h2 := rmin_ge lv' a'
        by_cases hlt : lv < lv'
        · omega
        · have heq : lv' = lv := by omega
          subst heq
          have ha : a = .left := by
            cases a with
            | left => rfl
            | right => exfalso; simp only [lmin] at hge; omega
            | nonassoc => exfalso; simp only [lmin] at hge; omega
          have ha' : a' = a := wf.sameAssoc _ _ lv' a' a hb' hb
          subst ha'; subst ha
          simp [rmin]
      | _ => exact noExt_op wf hb _
    have hna : l.naFlag t ≠ some lv := by
      cases l with
      | bin l' op' r' =>
        cases hb' : t.bin op'.kind with
        | none => simp [Expr.naFlag, hb']
        | some la' =>
          obtain ⟨lv', a'⟩ := la'
          simp only [Expr.level, hb'] at hge
          rw [naFlag_bin t hb']
          by_cases hna' : a' = .nonassoc
          · simp only [hna', ↓reduceIte, ne_eq, Option.some.injEq]
            intro heq
            subst heq
            have ha' : a' = a := wf.sameAssoc _ _ lv' a' a hb' hb
            subst ha'; subst hna'
            simp only [lmin] at hge
            omega
          · simp [hna']
      | _ => simp [Expr.naFlag]
    exact q2l m _ res (G + cost r + 4) (Nat.le_trans hm (Nat.le_trans (lmin_ge lv a) hge)) hsal
      (hstep _ hna) f (by omega)
  · -- left operand parenthesised
    obtain ⟨f', rfl⟩ := fuel_succ (f := f) (n := 0) (by omega)
    have hp := prefix_paren wf q2l (op :: (R ++ rest)) f' (by omega)
    simp only [List.cons_append, List.append_assoc, List.nil_append, parseExpr, hp]
    exact hstep none (by simp) f' (by omega)

theorem q2_bin {t : Tbl} (wf : t.WF) {l r : Expr} {op : Tok} {lv a} (hb : t.bin op.kind = some (lv, a))
    (q2l : Q2 t l) (q2r : Q2 t r) : Q2 t (.bin l op r) := by
  intro m rest res G hm hsa hk f hf
  have hlev : (Expr.bin l op r).level t = lv := by simp only [Expr.level, hb]
  rw [hlev] at hm
  rw [renderRaw_bin t l op r hb]
  simp only [cost] at hf
  have := q2_bin_gen wf hb q2l q2r (operandText_render t l _) (operandText_render t r _) m rest res G hm
    ⟨hsa.1, hsa.2 lv a hb⟩ hk f hf
  simpa only [List.append_assoc, List.cons_append] using this

/-! #### the induction -/

/-- a unary or binary operation (everything else is an operand that the operand parser reads) -/
def Expr.isOp : Expr → Bool
  | .un _ _ | .bin _ _ _ => true
  | _ => false

structure Good (t : Tbl) (e : Expr) : Prop where
  q2 : Q2 t e
  p3 : P3 t e
  ch : e.isChain = true → CH t e
  p1 : e.isOp = false → P1 t e

theorem good_of_p1 {t : Tbl} (wf : t.WF) {e : Expr} (hna : e.naFlag t = none) (hc : e.isChain = false)
    (h1 : P1 t e) : Good t e :=
  have h2 := q2_of_p1 hna h1
  ⟨h2, p3_of_q2 wf e h2, (fun h => by rw [hc] at h; cases h), fun _ => h1⟩

theorem good_of_ch {t : Tbl} (wf : t.WF) {e : Expr} (hna : e.naFlag t = none) (h : CH t e) : Good t e :=
  have h2 := q2_of_p1 hna (p1_of_ch h)
  ⟨h2, p3_of_q2 wf e h2, fun _ => h, fun _ => p1_of_ch h⟩

theorem good_of_q2 {t : Tbl} (wf : t.WF) {e : Expr} (hc : e.isChain = false) (ho : e.isOp = true) (h2 : Q2 t e) :
    Good t e :=
  ⟨h2, p3_of_q2 wf e h2, (fun h => by rw [hc] at h; cases h), (fun h => by rw [ho] at h; cases h)⟩

theorem isChain_of_isIndexable {h : Expr} (hi : h.isIndexable = true) : h.isChain = true := by
  cases h <;> simp_all [Expr.isIndexable, Expr.isChain]

mutual
theorem good {t : Tbl} (wf : t.WF) : (e : Expr) → e.Ok t → Good t e
  | .int v, _ => good_of_p1 wf rfl rfl (p1_int wf v)
  | .real v, _ => good_of_p1 wf rfl rfl (p1_real wf v)
  | .str v, _ => good_of_p1 wf rfl rfl (p1_str wf v)
  | .bool b v, _ => good_of_p1 wf rfl rfl (p1_bool wf b v)
  | .enumc ns n, hok => good_of_p1 wf rfl rfl (p1_enumc wf ns n (by simpa only [Expr.Ok] using hok))
  | .var n, hok => good_of_ch wf rfl (ch_var wf n (by simpa only [Expr.Ok] using hok))
  | .self, _ => good_of_ch wf rfl (ch_self wf)
  | .selected, _ => good_of_ch wf rfl (ch_selected wf)
  | .param n, hok => good_of_ch wf rfl (ch_param wf n (by simpa only [Expr.Ok] using hok))
  | .field h n, hok => by
    simp only [Expr.Ok] at hok
    exact good_of_ch wf rfl (ch_field n hok.2.2 hok.1 ((good wf h hok.2.1).ch hok.1))
  | .index h i, hok => by
    simp only [Expr.Ok] at hok
    exact good_of_ch wf rfl
      (ch_index wf hok.1 ((good wf h hok.2.1).ch (isChain_of_isIndexable hok.1)) ((good wf i hok.2.2).p3 0))
  | .fcall n ps, hok => by
    simp only [Expr.Ok] at hok
    exact good_of_p1 wf rfl rfl (p1_fcall wf n hok.1 (goodP wf ps hok.2))
  | .icall ns n ps, hok => by
    simp only [Expr.Ok] at hok
    exact good_of_p1 wf rfl rfl (p1_icall wf ns n hok.1 (goodP wf ps hok.2))
  | .ocall h n ps, hok => by
    simp only [Expr.Ok] at hok
    exact good_of_p1 wf rfl rfl (p1_ocall n hok.2.2.1 hok.1 (ch_of_struct wf hok.1 hok.2.1) (goodP wf ps hok.2.2.2))
  | .un op e, hok => by
    simp only [Expr.Ok] at hok
    exact good_of_q2 wf rfl rfl (q2_un wf hok.1 (good wf e hok.2).p3)
  | .bin l op r, hok => by
    simp only [Expr.Ok] at hok
    obtain ⟨hs, hl, hr⟩ := hok
    cases hb : t.bin op.kind with
    | none => simp [hb] at hs
    | some la =>
      obtain ⟨lv, a⟩ := la
      exact good_of_q2 wf rfl rfl (q2_bin wf hb (good wf l hl).q2 (good wf r hr).q2)
theorem goodP {t : Tbl} (wf : t.WF) : (ps : Params) → ps.Ok t → PP t ps
  | .nil, _ => pp_nil
  | .cons n e ps, hok => by
    simp only [Params.Ok] at hok
    exact pp_cons wf n hok.1 ((good wf e hok.2.1).p3 0) (goodP wf ps hok.2.2)
end

/-! #### fuel: `fuelFor` is enough -/

theorem wrap_length_ge (b : Bool) (ts : List Tok) : ts.length ≤ (wrap b ts).length := by
  cases b <;> simp [wrap, LP, RP] <;> omega

mutual
theorem cost_le_len (t : Tbl) : (e : Expr) → e.Ok t → cost e ≤ 6 * (renderRaw t e).length
  | .int v, _ => by simp [cost, renderRaw]
  | .real v, _ => by simp [cost, renderRaw]
  | .str v, _ => by simp [cost, renderRaw]
  | .bool b v, _ => by simp [cost, renderRaw]
  | .enumc ns n, _ => by simp [cost, renderRaw]
  | .var n, _ => by simp [cost, renderRaw]
  | .self, _ => by simp [cost, renderRaw]
  | .selected, _ => by simp [cost, renderRaw]
  | .param n, _ => by simp [cost, renderRaw]
  | .field h n, hok => by
    simp only [Expr.Ok] at hok
    have := cost_le_len t h hok.2.1
    simp only [cost, renderRaw_field, List.length_append, List.length_cons, List.length_nil]
    omega
  | .index h i, hok => by
    simp only [Expr.Ok] at hok
    have := cost_le_len t h hok.2.1
    have := cost_le_len t i hok.2.2
    simp only [cost, renderRaw_index, render_zero, List.length_append, List.length_cons, List.length_nil]
    omega
  | .fcall n ps, hok => by
    simp only [Expr.Ok] at hok
    have := costP_le_len t ps hok.2
    simp only [cost, renderRaw_fcall, List.length_append, List.length_cons, List.length_nil]
    omega
  | .icall ns n ps, hok => by
    simp only [Expr.Ok] at hok
    have := costP_le_len t ps hok.2
    simp only [cost, renderRaw_icall, List.length_append, List.length_cons, List.length_nil]
    omega
  | .ocall h n ps, hok => by
    simp only [Expr.Ok] at hok
    have := costP_le_len t ps hok.2.2.2
    have hh : cost h ≤ 6 * (renderRaw t h).length := by
      have hs := hok.1
      cases h <;> simp [Expr.isStruct] at hs <;> simp [cost, renderRaw]
    simp only [cost, renderRaw_ocall, List.length_append, List.length_cons, List.length_nil]
    omega
  | .un op e, hok => by
    simp only [Expr.Ok] at hok
    have := cost_le_len t e hok.2
    have := wrap_length_ge (decide (e.level t < t.ulevel)) (renderRaw t e)
    simp only [cost, renderRaw_un, render, List.length_cons]
    omega
  | .bin l op r, hok => by
    simp only [Expr.Ok] at hok
    obtain ⟨hs, hl, hr⟩ := hok
    cases hb : t.bin op.kind with
    | none => simp [hb] at hs
    | some la =>
      obtain ⟨lv, a⟩ := la
      have := cost_le_len t l hl
      have := cost_le_len t r hr
      have := wrap_length_ge (decide (l.level t < lmin lv a)) (renderRaw t l)
      have := wrap_length_ge (decide (r.level t < rmin lv a)) (renderRaw t r)
      simp only [cost, renderRaw_bin t l op r hb, render, List.length_append, List.length_cons]
      omega
theorem costP_le_len (t : Tbl) : (ps : Params) → ps.Ok t → costP ps ≤ 6 * (renderParams t ps).length + 1
  | .nil, _ => by simp [costP]
  | .cons n e .nil, hok => by
    simp only [Params.Ok] at hok
    have := cost_le_len t e hok.2.1
    simp only [costP, renderParams_one, render_zero, List.length_cons]
    omega
  | .cons n e (.cons n' e' ps), hok => by
    simp only [Params.Ok] at hok
    have := cost_le_len t e hok.2.1
    have := costP_le_len t (.cons n' e' ps) (by simp only [Params.Ok]; exact hok.2.2)
    simp only [renderParams_more, render_zero, List.length_cons, List.length_append]
    simp only [costP] at this ⊢
    omega
end

theorem fuel_enough (t : Tbl) {e : Expr} (hok : e.Ok t) (need : Nat) (rest : List Tok) :
    cost e + 3 ≤ fuelFor (render t e need ++ rest) := by
  have h1 := cost_le_len t e hok
  have h2 := wrap_length_ge (decide (e.level t < need)) (renderRaw t e)
  simp only [fuelFor, render, List.length_append]
  omega

/-- the round trip with explicit fuel, and for the fuel-free top-level parser -/
theorem roundtrip_fuel {t : Tbl} (wf : t.WF) {e : Expr} (hok : e.Ok t) (need : Nat) {rest : List Tok}
    (hs : Stops t need rest) (f : Nat) (hf : cost e + 3 ≤ f) :
    parseExpr t f need (render t e need ++ rest) = some (e, rest) :=
  (good wf e hok).p3 need rest hs f hf

/-- an operand (anything but a unary / binary operation) is read back by the operand parser -/
theorem roundtrip_prefix {t : Tbl} (wf : t.WF) {e : Expr} (hok : e.Ok t) (hop : e.isOp = false) {rest : List Tok}
    (hne : NoExt rest) (f : Nat) (hf : cost e ≤ f + 1) :
    parsePrefix t f (renderRaw t e ++ rest) = some (e, rest) :=
  (good wf e hok).p1 hop rest hne f hf

/-- an argument list up to the closing parenthesis -/
theorem roundtrip_params {t : Tbl} (wf : t.WF) {ps : Params} (hok : ps.Ok t) (rp : Tok) (hrp : rp.kind = .RPAREN)
    (rest : List Tok) (f : Nat) (hf : costP ps ≤ f) :
    parseParams t f (renderParams t ps ++ rp :: rest) = some (ps, rp :: rest) :=
  goodP wf ps hok rp rest hrp f hf

theorem roundtrip_top {t : Tbl} (wf : t.WF) {e : Expr} (hok : e.Ok t) {rest : List Tok} (hs : Stops t 0 rest) :
    parseExprTop t (render t e 0 ++ rest) = some (e, rest) :=
  roundtrip_fuel wf hok 0 hs _ (fuel_enough t hok 0 rest)

theorem operandText_length {t : Tbl} {e : Expr} {need : Nat} {ts : List Tok} (h : OperandText t e need ts) :
    (renderRaw t e).length ≤ ts.length := by
  rcases h with ⟨rfl, _⟩ | rfl
  · exact Nat.le_refl _
  · simp only [List.length_cons, List.length_append, List.length_nil]; omega

/-- `l op r` with each operand written in any admissible way (as it is when its level allows, or in
    parentheses) parses to the binary node -/
theorem parse_bin_texts {t : Tbl} (wf : t.WF) {l r : Expr} {op : Tok} {lv a} (hb : t.bin op.kind = some (lv, a))
    (hl : l.Ok t) (hr : r.Ok t) {L R : List Tok} (hL : OperandText t l (lmin lv a) L)
    (hR : OperandText t r (rmin lv a) R) {rest : List Tok} (hs : Stops t 0 rest) :
    parseExprTop t (L ++ op :: (R ++ rest)) = some (.bin l op r, rest) := by
  have h1 := cost_le_len t l hl
  have h2 := cost_le_len t r hr
  have h3 := operandText_length hL
  have h4 := operandText_length hR
  have hs' : Stops t (rmin lv a) rest := hs.mono (Nat.zero_le _)
  refine q2_bin_gen wf hb (good wf l hl).q2 (good wf r hr).q2 hL hR 0 rest _ 1 (Nat.zero_le _) hs'
    (loop_stops t hs.2) _ ?_
  simp only [fuelFor, List.length_append, List.length_cons]
  omega

/-! ### the fully parenthesised rendering -/

theorem renderFull_un (op : Tok) (e : Expr) : renderFull (.un op e) = LP :: op :: (renderFull e ++ [RP]) := by
  rw [renderFull]
theorem renderFull_bin (l : Expr) (op : Tok) (r : Expr) :
    renderFull (.bin l op r) = LP :: (renderFull l ++ op :: (renderFull r ++ [RP])) := by
  rw [renderFull]

theorem parsePrefix_lp {t : Tbl} (wf : t.WF) (f : Nat) (ts : List Tok) :
    parsePrefix t (f + 1) (LP :: ts) =
      match parseExpr t f 0 ts with
      | some (e, ts') => if hk ts' = some .RPAREN then some (e, ts'.drop 1) else none
      | none => none := by
  have hul : t.un Kind.LPAREN = false := wf.unAtom _ rfl
  simp only [parsePrefix, isVarName_NUMBER, isVarName_FRACTION, isVarName_STRING, isVarName_TRUE, isVarName_FALSE, isVarName_NAMESPACE, isVarName_SELF, isVarName_SELECTED, isVarName_PARAM, isVarName_RCVD_EVT, isVarName_DOUBLECOLON, isVarName_LPAREN, isVarName_RPAREN, LP_kind, hul, Bool.false_eq_true, ↓reduceIte]
  cases parseExpr t f 0 ts with
  | none => rfl
  | some x => rfl

/-- an operand that is read back is read back as an expression at any level -/
theorem p3f_of_p1 {t : Tbl} {e : Expr} (h1 : P1g fullRend t e) :
    ∀ need rest, Stops t need rest → ∀ f, cost e + 1 ≤ f →
      parseExpr t f need (renderFull e ++ rest) = some (e, rest) := by
  intro need rest hs f hf
  obtain ⟨f', rfl⟩ := fuel_succ (f := f) (n := 0) (by omega)
  have hc := cost_ge e
  have hp : parsePrefix t f' (renderFull e ++ rest) = some (e, rest) := h1 rest hs.1 f' (by omega)
  simp only [parseExpr, hp]
  exact loop_stops t hs.2 f' (by omega)

theorem p1f_un {t : Tbl} (wf : t.WF) {op : Tok} {e : Expr} (hu : t.un op.kind = true)
    (h1 : P1g fullRend t e) : P1g fullRend t (.un op e) := by
  intro rest _ f hf
  simp only [cost] at hf
  show parsePrefix t f (renderFull (.un op e) ++ rest) = _
  obtain ⟨f1, rfl⟩ := fuel_succ (f := f) (n := 0) (by omega)
  obtain ⟨f2, rfl⟩ := fuel_succ (f := f1) (n := 0) (by omega)
  obtain ⟨f3, rfl⟩ := fuel_succ (f := f2) (n := 0) (by omega)
  have hul : t.un Kind.LPAREN = false := wf.unAtom _ rfl
  have hs : Stops t t.ulevel (RP :: rest) := stops_rp wf _ RP rfl rest
  have he := p3f_of_p1 h1 t.ulevel (RP :: rest) hs f3 (by omega)
  have hl := loop_stops t (m := 0) (na := none) (e := .un op e) (stops_rp wf 0 RP rfl rest).2 (f3 + 1) (by omega)
  rw [renderFull_un]
  simp only [List.cons_append, List.append_assoc, List.nil_append, parsePrefix, parseExpr, LP_kind, hul,
    isVarName_LPAREN, Bool.false_eq_true, ↓reduceIte, hu, he, hl, hk_cons, RP_kind, List.drop_succ_cons, List.drop_zero]

theorem p1f_bin {t : Tbl} (wf : t.WF) {l r : Expr} {op : Tok} {lv a} (hb : t.bin op.kind = some (lv, a))
    (hl1 : P1g fullRend t l) (hr1 : P1g fullRend t r) : P1g fullRend t (.bin l op r) := by
  intro rest _ f hf
  simp only [cost] at hf
  show parsePrefix t f (renderFull (.bin l op r) ++ rest) = _
  obtain ⟨f1, rfl⟩ := fuel_succ (f := f) (n := 0) (by omega)
  obtain ⟨f2, rfl⟩ := fuel_succ (f := f1) (n := 0) (by omega)
  obtain ⟨f3, rfl⟩ := fuel_succ (f := f2) (n := 0) (by omega)
  have hul : t.un Kind.LPAREN = false := wf.unAtom _ rfl
  have hpl : parsePrefix t (f3 + 1) (renderFull l ++ op :: (renderFull r ++ RP :: rest)) =
      some (l, op :: (renderFull r ++ RP :: rest)) := hl1 _ (noExt_op wf hb _) (f3 + 1) (by omega)
  have her := p3f_of_p1 hr1 (rmin lv a) (RP :: rest) (stops_rp wf _ RP rfl rest) f3 (by omega)
  have hlp := loop_stops t (m := 0) (na := if a = .nonassoc then some lv else none) (e := .bin l op r)
    (stops_rp wf 0 RP rfl rest).2 f3 (by omega)
  have hin : parseExpr t (f3 + 1 + 1) 0 (renderFull l ++ op :: (renderFull r ++ RP :: rest)) =
      some (.bin l op r, RP :: rest) := by
    rw [parseExpr, hpl]
    simp only [parseLoop, hb, Nat.not_lt_zero, ↓reduceIte, reduceCtorEq, her, hlp]
  rw [renderFull_bin]
  simp only [List.cons_append, List.append_assoc, List.nil_append]
  rw [parsePrefix_lp wf, hin]
  simp only [hk_cons, RP_kind, ↓reduceIte, List.drop_succ_cons, List.drop_zero]

structure GoodF (t : Tbl) (e : Expr) : Prop where
  p1 : P1g fullRend t e
  ch : e.isChain = true → CHg fullRend t e

theorem p3i_full {t : Tbl} {e : Expr} (h : P1g fullRend t e) : P3I fullRend t e := by
  intro rest hs f hf
  exact p3f_of_p1 h 0 rest hs f (by omega)

mutual
theorem goodF {t : Tbl} (wf : t.WF) : (e : Expr) → e.Ok t → GoodF t e
  | .int v, _ => ⟨p1_int wf v, fun h => by cases h⟩
  | .real v, _ => ⟨p1_real wf v, fun h => by cases h⟩
  | .str v, _ => ⟨p1_str wf v, fun h => by cases h⟩
  | .bool b v, _ => ⟨p1_bool wf b v, fun h => by cases h⟩
  | .enumc ns n, hok => ⟨p1_enumc wf ns n (by simpa only [Expr.Ok] using hok), fun h => by cases h⟩
  | .var n, hok =>
    have hn : n.kind.isVarName = true := by simpa only [Expr.Ok] using hok
    ⟨p1_of_ch (ch_var wf n hn), fun _ => ch_var wf n hn⟩
  | .self, _ => ⟨p1_of_ch (ch_self wf), fun _ => ch_self wf⟩
  | .selected, _ => ⟨p1_of_ch (ch_selected wf), fun _ => ch_selected wf⟩
  | .param n, hok =>
    have hn : n.kind.isVarName = true := by simpa only [Expr.Ok] using hok
    ⟨p1_of_ch (ch_param wf n hn), fun _ => ch_param wf n hn⟩
  | .field h n, hok => by
    simp only [Expr.Ok] at hok
    have c := ch_field (rd := fullRend) n hok.2.2 hok.1 ((goodF wf h hok.2.1).ch hok.1)
    exact ⟨p1_of_ch c, fun _ => c⟩
  | .index h i, hok => by
    simp only [Expr.Ok] at hok
    have c := ch_index (rd := fullRend) wf hok.1 ((goodF wf h hok.2.1).ch (isChain_of_isIndexable hok.1))
      (p3i_full (goodF wf i hok.2.2).p1)
    exact ⟨p1_of_ch c, fun _ => c⟩
  | .fcall n ps, hok => by
    simp only [Expr.Ok] at hok
    exact ⟨p1_fcall wf n hok.1 (goodFP wf ps hok.2), fun h => by cases h⟩
  | .icall ns n ps, hok => by
    simp only [Expr.Ok] at hok
    exact ⟨p1_icall wf ns n hok.1 (goodFP wf ps hok.2), fun h => by cases h⟩
  | .ocall h n ps, hok => by
    simp only [Expr.Ok] at hok
    exact ⟨p1_ocall n hok.2.2.1 hok.1 (ch_of_struct wf hok.1 hok.2.1) (goodFP wf ps hok.2.2.2), fun h => by cases h⟩
  | .un op e, hok => by
    simp only [Expr.Ok] at hok
    exact ⟨p1f_un wf hok.1 (goodF wf e hok.2).p1, fun h => by cases h⟩
  | .bin l op r, hok => by
    simp only [Expr.Ok] at hok
    obtain ⟨hs, hl, hr⟩ := hok
    cases hb : t.bin op.kind with
    | none => simp [hb] at hs
    | some la =>
      obtain ⟨lv, a⟩ := la
      exact ⟨p1f_bin wf hb (goodF wf l hl).p1 (goodF wf r hr).p1, fun h => by cases h⟩
theorem goodFP {t : Tbl} (wf : t.WF) : (ps : Params) → ps.Ok t → PPg fullRend t ps
  | .nil, _ => pp_nil
  | .cons n e ps, hok => by
    simp only [Params.Ok] at hok
    exact pp_cons wf n hok.1 (p3i_full (goodF wf e hok.2.1).p1) (goodFP wf ps hok.2.2)
end

mutual
theorem costF_le_len (t : Tbl) : (e : Expr) → e.Ok t → cost e ≤ 6 * (renderFull e).length
  | .int v, _ => by simp [cost, renderFull]
  | .real v, _ => by simp [cost, renderFull]
  | .str v, _ => by simp [cost, renderFull]
  | .bool b v, _ => by simp [cost, renderFull]
  | .enumc ns n, _ => by simp [cost, renderFull]
  | .var n, _ => by simp [cost, renderFull]
  | .self, _ => by simp [cost, renderFull]
  | .selected, _ => by simp [cost, renderFull]
  | .param n, _ => by simp [cost, renderFull]
  | .field h n, hok => by
    simp only [Expr.Ok] at hok
    have := costF_le_len t h hok.2.1
    rw [show renderFull (.field h n) = renderFull h ++ [tk .DOT ".", n] from fullRend.field h n]
    simp only [cost, List.length_append, List.length_cons, List.length_nil]
    omega
  | .index h i, hok => by
    simp only [Expr.Ok] at hok
    have := costF_le_len t h hok.2.1
    have := costF_le_len t i hok.2.2
    rw [show renderFull (.index h i) = renderFull h ++ tk .LSQBR "[" :: (renderFull i ++ [tk .RSQBR "]"])
      from fullRend.index h i]
    simp only [cost, List.length_append, List.length_cons, List.length_nil]
    omega
  | .fcall n ps, hok => by
    simp only [Expr.Ok] at hok
    have := costFP_le_len t ps hok.2
    rw [show renderFull (.fcall n ps) = tk .DOUBLECOLON "::" :: n :: LP :: (renderFullParams ps ++ [RP])
      from fullRend.fcall n ps]
    simp only [cost, List.length_append, List.length_cons, List.length_nil]
    omega
  | .icall ns n ps, hok => by
    simp only [Expr.Ok] at hok
    have := costFP_le_len t ps hok.2
    rw [show renderFull (.icall ns n ps) =
      tk .NAMESPACE ns :: tk .DOUBLECOLON "::" :: n :: LP :: (renderFullParams ps ++ [RP])
      from fullRend.icall ns n ps]
    simp only [cost, List.length_append, List.length_cons, List.length_nil]
    omega
  | .ocall h n ps, hok => by
    simp only [Expr.Ok] at hok
    have := costFP_le_len t ps hok.2.2.2
    have hh : cost h ≤ 6 * (renderFull h).length := by
      have hs := hok.1
      cases h <;> simp [Expr.isStruct] at hs <;> simp [cost, renderFull]
    rw [show renderFull (.ocall h n ps) =
      renderFull h ++ tk .DOT "." :: n :: LP :: (renderFullParams ps ++ [RP]) from fullRend.ocall h n ps]
    simp only [cost, List.length_append, List.length_cons, List.length_nil]
    omega
  | .un op e, hok => by
    simp only [Expr.Ok] at hok
    have := costF_le_len t e hok.2
    simp only [cost, renderFull_un, List.length_cons, List.length_append, List.length_nil]
    omega
  | .bin l op r, hok => by
    simp only [Expr.Ok] at hok
    have := costF_le_len t l hok.2.1
    have := costF_le_len t r hok.2.2
    simp only [cost, renderFull_bin, List.length_cons, List.length_append, List.length_nil]
    omega
theorem costFP_le_len (t : Tbl) : (ps : Params) → ps.Ok t → costP ps ≤ 6 * (renderFullParams ps).length + 1
  | .nil, _ => by simp [costP]
  | .cons n e .nil, hok => by
    simp only [Params.Ok] at hok
    have := costF_le_len t e hok.2.1
    rw [show renderFullParams (.cons n e .nil) = n :: tk .COLON ":" :: renderFull e from fullRend.pone n e]
    simp only [costP, List.length_cons]
    omega
  | .cons n e (.cons n' e' ps), hok => by
    simp only [Params.Ok] at hok
    have := costF_le_len t e hok.2.1
    have := costFP_le_len t (.cons n' e' ps) (by simp only [Params.Ok]; exact hok.2.2)
    rw [show renderFullParams (.cons n e (.cons n' e' ps)) =
      n :: tk .COLON ":" :: (renderFull e ++ tk .COMMA "," :: renderFullParams (.cons n' e' ps))
      from fullRend.pmore n e n' e' ps]
    simp only [List.length_cons, List.length_append]
    simp only [costP] at this ⊢
    omega
end

/-- the fully parenthesised rendering parses back (explicit fuel, then the fuel-free parser) -/
theorem roundtripFull_fuel {t : Tbl} (wf : t.WF) {e : Expr} (hok : e.Ok t) (need : Nat) {rest : List Tok}
    (hs : Stops t need rest) (f : Nat) (hf : cost e + 1 ≤ f) :
    parseExpr t f need (renderFull e ++ rest) = some (e, rest) :=
  p3f_of_p1 (goodF wf e hok).p1 need rest hs f hf

theorem roundtripFull_top {t : Tbl} (wf : t.WF) {e : Expr} (hok : e.Ok t) {rest : List Tok} (hs : Stops t 0 rest) :
    parseExprTop t (renderFull e ++ rest) = some (e, rest) := by
  have h1 := costF_le_len t e hok
  exact roundtripFull_fuel wf hok 0 hs _ (by simp only [fuelFor, List.length_append]; omega)

/-! ### well-formedness of a table given by association lists is a finite check -/

def wfCheck (bins : List (Kind × Nat × Assoc)) (uns : List Kind) (ulevel : Nat) : Bool :=
  bins.all (fun x => decide (x.2.1 < ulevel) && !x.1.isStructural) &&
  bins.all (fun x => bins.all (fun y => decide (x.2.1 = y.2.1 → x.2.2 = y.2.2))) &&
  uns.all (fun k => !k.isAtomStart)

theorem lookup_mem {bins : List (Kind × Nat × Assoc)} {k : Kind} {v : Nat × Assoc}
    (h : bins.lookup k = some v) : (k, v) ∈ bins := by
  induction bins with
  | nil => simp [List.lookup] at h
  | cons x xs ih =>
    obtain ⟨k', v'⟩ := x
    simp only [List.lookup] at h
    split at h
    · next heq =>
      simp only [beq_iff_eq] at heq
      cases h
      subst heq
      exact List.mem_cons_self
    · exact List.mem_cons_of_mem _ (ih h)

theorem wf_ofLists {bins : List (Kind × Nat × Assoc)} {uns : List Kind} {ul : Nat}
    (h : wfCheck bins uns ul = true) : (Tbl.ofLists bins uns ul).WF := by
  simp only [wfCheck, Bool.and_eq_true, List.all_eq_true, decide_eq_true_eq, Bool.not_eq_true'] at h
  obtain ⟨⟨h1, h2⟩, h3⟩ := h
  refine ⟨?_, ?_, ?_, ?_⟩
  · intro k l a hb
    exact (h1 _ (lookup_mem hb)).1
  · intro k k' l a a' hb hb'
    exact h2 _ (lookup_mem hb) _ (lookup_mem hb') rfl
  · intro k hs
    cases hb : (Tbl.ofLists bins uns ul).bin k with
    | none => rfl
    | some v =>
      have := (h1 _ (lookup_mem hb)).2
      simp only at this
      rw [hs] at this
      cases this
  · intro k ha
    cases hu : (Tbl.ofLists bins uns ul).un k with
    | false => rfl
    | true =>
      simp only [Tbl.ofLists, List.contains_eq_mem, decide_eq_true_eq] at hu
      have := h3 _ hu
      rw [ha] at this
      cases this

/-! ### all token kinds (to decide statements of the form `∀ k : Kind, …` on a generated table) -/

-- `Kind.all` (the list of all token kinds) is in PyxModel/Oal/Expr.lean

theorem Kind.mem_all (k : Kind) : k ∈ Kind.all := by
  cases k <;> decide

theorem forall_kind {p : Kind → Prop} [DecidablePred p] (h : Kind.all.all (fun k => decide (p k)) = true) :
    ∀ k, p k := by
  intro k
  have := List.all_eq_true.mp h k (Kind.mem_all k)
  simpa using this

/-! ### a unary operator with its operand written in any admissible way -/

/-- `op X` where `X` is the operand as it is (when its level allows) or in parentheses (always) parses to the
    unary node — in particular `op ( e )` is `op` applied to `e` whatever `e` is -/
theorem parse_un_text {t : Tbl} (wf : t.WF) {op : Tok} {e : Expr} (hu : t.un op.kind = true) (he : e.Ok t)
    {T : List Tok} (hT : OperandText t e t.ulevel T) {rest : List Tok} (hs : Stops t 0 rest) :
    parseExprTop t (op :: (T ++ rest)) = some (.un op e, rest) := by
  have h1 := cost_le_len t e he
  have h3 := operandText_length hT
  have hsu : Stops t t.ulevel rest := hs.mono (Nat.zero_le _)
  have hf : cost e + 5 ≤ fuelFor (op :: (T ++ rest)) := by
    simp only [fuelFor, List.length_cons, List.length_append]
    omega
  obtain ⟨f1, h1'⟩ := fuel_succ (f := fuelFor (op :: (T ++ rest))) (n := 0) (by omega)
  obtain ⟨f2, h2'⟩ := fuel_succ (f := f1) (n := 0) (by omega)
  have hin := p3_operandText wf (good wf e he).q2 hT hsu f2 (by omega)
  simp only [parseExprTop, h1', h2', parseExpr, parsePrefix, hu, ↓reduceIte, hin]
  exact loop_stops t hs.2 (f2 + 1) (by omega)

end Pyx.Oal
