import PyxModel.Interp.Spec
import Proofs.InterpStore
import Proofs.OSet

/-!
  Chain navigation over the refined store.

  `Pyx.Query.navigate` (one step: the direct link stored under (kind, rel, phrase), else the two-hop
  `_find_assoc_links` through an association class with its `OrderedSet` union), `Pyx.Query.navStep` (one step over
  a sequence, duplicates kept) and `Pyx.Query.navSeq` (a chain `a->B[R1]->C[R2]…`) return — instance for instance,
  in the same order — what `Spec`'s `navStep` / `navStepList` / `navChain` return on the named instances.
  Guard: distinct link keys per class (`KeysDistinct`: no dict overwrite), handles of created instances.
-/
set_option linter.unusedSectionVars false
namespace Pyx.Interp
open Pyx.Query (LinkEntry)

section
variable {kname : Nat → String} {ι : Nat → Inst} {s : MState} {st : State}

def toStep (kname : Nat → String) (stp : Pyx.Query.Step) : NavStep := ⟨kname stp.toKind, stp.rel, stp.phrase⟩

/-! ### QuerySet de-duplication commutes with an injective naming -/

/-- `QuerySet(iterable)` of the named instances = the named `OrderedSet` of the instances, if the naming is injective
    on them -/
theorem dedup_map_of_inj (l : List Nat) (hinj : ∀ a ∈ l, ∀ b ∈ l, ι a = ι b → a = b) :
    dedup (l.map ι) = (Pyx.Query.dedupFirst l).map ι := by
  have key : ∀ (r acc : List Nat), (∀ a, a ∈ acc ∨ a ∈ r → a ∈ l) →
      (r.map ι).foldl (fun acc x => if x ∈ acc then acc else acc ++ [x]) (acc.map ι) =
        (r.foldl (fun acc k => Pyx.OSet.add k acc) acc).map ι := by
    intro r
    induction r with
    | nil => intro acc _; rfl
    | cons x rest ih =>
      intro acc hsub
      simp only [List.map_cons, List.foldl_cons]
      have hxl : x ∈ l := hsub x (Or.inr List.mem_cons_self)
      have hmem : ι x ∈ acc.map ι ↔ x ∈ acc := by
        constructor
        · intro h
          obtain ⟨z, hz, hzx⟩ := List.mem_map.1 h
          rw [← hinj z (hsub z (Or.inl hz)) x hxl hzx]; exact hz
        · intro h; exact List.mem_map.2 ⟨x, h, rfl⟩
      unfold Pyx.OSet.add
      by_cases hx : x ∈ acc
      · rw [if_pos (hmem.2 hx), if_pos hx]
        apply ih acc
        rintro a (ha | ha)
        · exact hsub a (Or.inl ha)
        · exact hsub a (Or.inr (List.mem_cons_of_mem _ ha))
      · rw [if_neg (fun h => hx (hmem.1 h)), if_neg hx]
        have : acc.map ι ++ [ι x] = (acc ++ [x]).map ι := by simp
        rw [this]
        apply ih (acc ++ [x])
        rintro a (ha | ha)
        · rcases List.mem_append.1 ha with h | h
          · exact hsub a (Or.inl h)
          · rw [List.mem_singleton.1 h]; exact hxl
        · exact hsub a (Or.inr (List.mem_cons_of_mem _ ha))
  have h1 := key l [] (by intro a ha; rcases ha with ha | ha; exact absurd ha List.not_mem_nil; exact ha)
  have h2 : Pyx.OSet.fromIter l = Pyx.Query.dedupFirst l := Pyx.OSet.fromIter_eq_dedupFirst l
  unfold dedup
  rw [← h2]
  exact h1

/-! ### one step, direct or through an association class -/

theorem filterMap_head_findSome {α β : Type} (f : α → Option β) : ∀ (l : List α),
    (l.filterMap f).head? = l.findSome? f
  | [] => rfl
  | a :: rest => by
    cases h : f a with
    | none => simp [List.filterMap_cons, List.findSome?_cons, h, filterMap_head_findSome f rest]
    | some b => simp [List.filterMap_cons, List.findSome?_cons, h]

theorem flatMap_congr' {α β : Type} {f g : α → List β} : ∀ (l : List α), (∀ a ∈ l, f a = g a) → l.flatMap f = l.flatMap g
  | [], _ => rfl
  | a :: rest, h => by
    rw [List.flatMap_cons, List.flatMap_cons, h a List.mem_cons_self,
      flatMap_congr' rest (fun b hb => h b (List.mem_cons_of_mem _ hb))]

theorem followEntry_lt {sch : MSchema} (A : Pyx.Meta.AllInv sch s) (e : LinkEntry) {x y : Nat}
    (h : y ∈ Pyx.Query.followEntry s e x) : y < s.count := by
  unfold Pyx.Query.followEntry at h
  by_cases he : e.isSrc = true
  · rw [if_pos he] at h; exact ((links_lt A).1 h).2
  · rw [if_neg he] at h; exact ((links_lt A).2 h).1

theorem lookup_corr (hk : Function.Injective kname) (sch : MSchema) (k toKind : Nat) (rel phrase : String)
    (hd : Pyx.Query.KeysDistinct (Pyx.Query.linkEntriesFrom k 0 sch)) (kinds : List Nat) :
    (linksOf (ctxOf kname kinds sch) (kname k)).find? (fun l => decide (l.to = kname toKind ∧ l.rel = rel ∧ l.phrase = phrase)) =
      (Pyx.Query.lookupKey (Pyx.Query.linkDict sch k) toKind rel phrase).map (toRef kname) := by
  rw [Pyx.Query.linkDict_distinct sch k hd]
  unfold linksOf ctxOf
  simp only
  rw [linksOfFrom_corr hk k sch 0, List.find?_map]
  have hpred : ((fun l : LinkRef => decide (l.to = kname toKind ∧ l.rel = rel ∧ l.phrase = phrase)) ∘ toRef kname) =
      (fun e : LinkEntry => e.toKind == toKind && e.rel == rel && e.phrase == phrase) := by
    funext e'
    simp only [Function.comp, toRef, hk.eq_iff]
    by_cases h1 : e'.toKind = toKind <;> by_cases h2 : e'.rel = rel <;> by_cases h3 : e'.phrase = phrase <;>
      simp [h1, h2, h3]
  rw [hpred]
  rfl

/-- **one navigation step** (`MetaClass.navigate`), direct or two-hop: the Spec step on the named instance returns the
    named result, in the same order; an unknown link is rejected on both sides -/
theorem navigate_step_refines (hk : Function.Injective kname) (kinds : List Nat) {sch : MSchema}
    (R : Refines kname ι s st) (A : Pyx.Meta.AllInv sch s)
    (hd : ∀ k, Pyx.Query.KeysDistinct (Pyx.Query.linkEntriesFrom k 0 sch))
    {x : Nat} (hx : x < s.count) (stp : Pyx.Query.Step) :
    (∀ l, Pyx.Query.navigate sch s x stp.toKind stp.rel stp.phrase = some l →
        navStep (ctxOf kname kinds sch) st (ι x) (toStep kname stp) = .ok (l.map ι) ∧ ∀ y ∈ l, y < s.count) ∧
    (Pyx.Query.navigate sch s x stp.toKind stp.rel stp.phrase = none →
        ∃ e, navStep (ctxOf kname kinds sch) st (ι x) (toStep kname stp) = .error e) := by
  have hlook := lookup_corr hk sch (s.kindOf x) stp.toKind stp.rel stp.phrase (hd _) kinds
  cases hl : Pyx.Query.lookupKey (Pyx.Query.linkDict sch (s.kindOf x)) stp.toKind stp.rel stp.phrase with
  | some e =>
    have hnav := Pyx.Query.navigate_direct' sch s x stp.toKind stp.rel stp.phrase e hl
    rw [hnav]
    refine ⟨fun l hle => ?_, fun h => by cases h⟩
    simp only [Option.some.injEq] at hle
    subst hle
    refine ⟨?_, fun y hy => followEntry_lt A e hy⟩
    unfold navStep toStep
    simp only
    rw [R.cls x hx, hlook, hl]
    simp only [Option.map_some]
    rw [follow_corr (sch := sch) R e hx]
  | none =>
    have hnav := Pyx.Query.navigate_indirect sch s x stp.toKind stp.rel stp.phrase hl
    rw [hnav]
    -- the Spec side: no direct link either, then the same probe over the same entries
    have hdict := Pyx.Query.linkDict_distinct sch (s.kindOf x) (hd _)
    have hls : linksOf (ctxOf kname kinds sch) (kname (s.kindOf x)) =
        (Pyx.Query.linkEntriesFrom (s.kindOf x) 0 sch).map (toRef kname) := by
      unfold linksOf ctxOf; simp only; exact linksOfFrom_corr hk _ sch 0
    have hprobe : ∀ e1 : LinkEntry, viaProbe (ctxOf kname kinds sch) (toStep kname stp) (toRef kname e1) =
        (Pyx.Query.assocHop sch stp.toKind stp.rel stp.phrase e1).map (fun p => (toRef kname p.1, toRef kname p.2)) := by
      intro e1
      unfold Pyx.Query.assocHop viaProbe toStep
      have hl2 := lookup_corr hk sch e1.toKind stp.toKind stp.rel stp.phrase (hd _) kinds
      by_cases hc : e1.rel = stp.rel ∧ e1.phrase = stp.phrase
      · have hc' : (e1.rel == stp.rel && e1.phrase == stp.phrase) = true := by simp [hc.1, hc.2]
        rw [if_pos (by simpa [toRef] using hc), if_pos hc']
        show (match (linksOf (ctxOf kname kinds sch) (kname e1.toKind)).find? _ with | some l2 => _ | none => none) = _
        rw [hl2]
        cases Pyx.Query.lookupKey (Pyx.Query.linkDict sch e1.toKind) stp.toKind stp.rel stp.phrase <;> rfl
      · have hc' : ¬ ((e1.rel == stp.rel && e1.phrase == stp.phrase) = true) := by
          simpa using fun h1 => (fun h2 => hc ⟨h1, h2⟩)
        rw [if_neg (by simpa [toRef] using hc), if_neg hc']
        rfl
    unfold navStep
    simp only
    rw [R.cls x hx]
    have hlook' : (linksOf (ctxOf kname kinds sch) (kname (s.kindOf x))).find?
        (fun l => decide (l.to = (toStep kname stp).kl ∧ l.rel = (toStep kname stp).rel ∧ l.phrase = (toStep kname stp).phrase)) = none := by
      show (linksOf _ _).find? (fun l => decide (l.to = kname stp.toKind ∧ l.rel = stp.rel ∧ l.phrase = stp.phrase)) = none
      rw [hlook, hl]; rfl
    rw [hlook']
    simp only
    rw [hls, List.filterMap_map]
    have hfm : (Pyx.Query.linkEntriesFrom (s.kindOf x) 0 sch).filterMap
        (viaProbe (ctxOf kname kinds sch) (toStep kname stp) ∘ toRef kname) =
        ((Pyx.Query.linkEntriesFrom (s.kindOf x) 0 sch).filterMap (Pyx.Query.assocHop sch stp.toKind stp.rel stp.phrase)).map
          (fun p => (toRef kname p.1, toRef kname p.2)) := by
      rw [List.map_filterMap]
      congr 1
      funext e1
      exact hprobe e1
    rw [hfm]
    have hhead := filterMap_head_findSome (Pyx.Query.assocHop sch stp.toKind stp.rel stp.phrase)
      (Pyx.Query.linkEntriesFrom (s.kindOf x) 0 sch)
    rw [hdict]
    cases hfs : (Pyx.Query.linkEntriesFrom (s.kindOf x) 0 sch).filterMap (Pyx.Query.assocHop sch stp.toKind stp.rel stp.phrase) with
    | nil =>
      rw [hfs] at hhead
      rw [← hhead]
      simp only [List.head?_nil, List.map_nil]
      exact ⟨fun l h => (by cases h), fun _ => ⟨_, rfl⟩⟩
    | cons p rest =>
      rw [hfs] at hhead
      rw [← hhead]
      obtain ⟨e1, e2⟩ := p
      simp only [List.head?_cons, List.map_cons]
      refine ⟨fun l hle => ?_, fun h => by cases h⟩
      simp only [Option.some.injEq] at hle
      subst hle
      have hL : ∀ y ∈ Pyx.Query.followEntry s e1 x, y < s.count := fun y hy => followEntry_lt A e1 hy
      have hflat : (follow st (toRef kname e1) (ι x)).flatMap (follow st (toRef kname e2)) =
          ((Pyx.Query.followEntry s e1 x).flatMap (Pyx.Query.followEntry s e2)).map ι := by
        rw [follow_corr (sch := sch) R e1 hx, List.flatMap_map, List.map_flatMap]
        apply flatMap_congr'
        intro y hy
        exact follow_corr (sch := sch) R e2 (hL y hy)
      have hlt : ∀ y ∈ (Pyx.Query.followEntry s e1 x).flatMap (Pyx.Query.followEntry s e2), y < s.count := by
        intro y hy
        obtain ⟨z, _, hz⟩ := List.mem_flatMap.1 hy
        exact followEntry_lt A e2 hz
      constructor
      · show Except.ok (dedup ((follow st (toRef kname e1) (ι x)).flatMap (follow st (toRef kname e2)))) = _
        rw [hflat, Pyx.Query.unionAll_map]
        congr 1
        exact dedup_map_of_inj _ (fun a ha b hb e => R.inj a b (hlt a ha) (hlt b hb) e)
      · intro y hy
        rw [Pyx.Query.unionAll_map] at hy
        exact hlt y (Pyx.OSet.mem_dedupFirst.1 hy)

/-! ### a step over a sequence, and chains -/

theorem foldl_navAcc_none (sch : MSchema) (s : MState) (stp : Pyx.Query.Step) : ∀ (l : List Nat),
    l.foldl (Pyx.Query.navAcc sch s stp) none = none
  | [] => rfl
  | x :: rest => by
    simp only [List.foldl_cons, Pyx.Query.navAcc]
    exact foldl_navAcc_none sch s stp rest

theorem navStepList_refines (hk : Function.Injective kname) (kinds : List Nat) {sch : MSchema}
    (R : Refines kname ι s st) (A : Pyx.Meta.AllInv sch s)
    (hd : ∀ k, Pyx.Query.KeysDistinct (Pyx.Query.linkEntriesFrom k 0 sch)) (stp : Pyx.Query.Step) :
    ∀ (l a r : List Nat), (∀ x ∈ l, x < s.count) →
      l.foldl (Pyx.Query.navAcc sch s stp) (some a) = some r →
      ∃ r', r = a ++ r' ∧ navStepList (ctxOf kname kinds sch) st (l.map ι) (toStep kname stp) = .ok (r'.map ι) ∧
        ∀ y ∈ r', y < s.count
  | [], a, r, _, h => by
    simp only [List.foldl_nil, Option.some.injEq] at h
    exact ⟨[], by simp [h], rfl, fun _ hy => by cases hy⟩
  | x :: rest, a, r, hl, h => by
    have hx : x < s.count := hl x List.mem_cons_self
    have hstep := navigate_step_refines hk kinds R A hd hx stp
    simp only [List.foldl_cons, Pyx.Query.navAcc] at h
    cases hn : Pyx.Query.navigate sch s x stp.toKind stp.rel stp.phrase with
    | none =>
      rw [hn] at h
      simp only at h
      rw [foldl_navAcc_none] at h
      cases h
    | some rx =>
      rw [hn] at h
      simp only at h
      obtain ⟨hsx, hltx⟩ := hstep.1 rx hn
      obtain ⟨r', hr, hspec, hlt⟩ := navStepList_refines hk kinds R A hd stp rest (a ++ rx) r
        (fun y hy => hl y (List.mem_cons_of_mem _ hy)) h
      refine ⟨rx ++ r', by rw [hr, List.append_assoc], ?_, ?_⟩
      · simp only [List.map_cons, navStepList]
        rw [hsx, hspec]
        simp
      · intro y hy
        rcases List.mem_append.1 hy with h1 | h1
        · exact hltx y h1
        · exact hlt y h1

/-- **a navigation step over a sequence** (`NavChain._nav`, duplicates kept) -/
theorem navStep_seq_refines (hk : Function.Injective kname) (kinds : List Nat) {sch : MSchema}
    (R : Refines kname ι s st) (A : Pyx.Meta.AllInv sch s)
    (hd : ∀ k, Pyx.Query.KeysDistinct (Pyx.Query.linkEntriesFrom k 0 sch)) (stp : Pyx.Query.Step)
    (l r : List Nat) (hl : ∀ x ∈ l, x < s.count) (h : Pyx.Query.navStep sch s l stp = some r) :
    navStepList (ctxOf kname kinds sch) st (l.map ι) (toStep kname stp) = .ok (r.map ι) ∧ ∀ y ∈ r, y < s.count := by
  unfold Pyx.Query.navStep at h
  obtain ⟨r', hr, hspec, hlt⟩ := navStepList_refines hk kinds R A hd stp l [] r hl h
  simp only [List.nil_append] at hr
  subst hr
  exact ⟨hspec, hlt⟩

theorem foldl_none_of_absorb {α β : Type} (f : Option α → β → Option α) (hf : ∀ b, f none b = none) :
    ∀ (l : List β), l.foldl f none = none
  | [] => rfl
  | b :: rest => by
    simp only [List.foldl_cons, hf]
    exact foldl_none_of_absorb f hf rest

/-- **chain navigation** `h->K1[R1]->K2[R2]…` (`Pyx.Query.navSeq`): the Spec chain over the named handle returns the
    named result, in the same order (duplicates included — de-duplication is the select's business) -/
theorem navChain_refines (hk : Function.Injective kname) (kinds : List Nat) {sch : MSchema}
    (R : Refines kname ι s st) (A : Pyx.Meta.AllInv sch s)
    (hd : ∀ k, Pyx.Query.KeysDistinct (Pyx.Query.linkEntriesFrom k 0 sch)) :
    ∀ (steps : List Pyx.Query.Step) (h r : List Nat), (∀ x ∈ h, x < s.count) →
      Pyx.Query.navSeq sch s h steps = some r →
      navChain (ctxOf kname kinds sch) st (h.map ι) (steps.map (toStep kname)) = .ok (r.map ι)
  | [], h, r, _, hq => by
    simp only [Pyx.Query.navSeq, List.foldl_nil, Option.some.injEq] at hq
    subst hq; rfl
  | stp :: rest, h, r, hl, hq => by
    unfold Pyx.Query.navSeq at hq
    simp only [List.foldl_cons] at hq
    cases hn : Pyx.Query.navStep sch s h stp with
    | none =>
      rw [hn] at hq
      rw [foldl_none_of_absorb _ (fun _ => rfl)] at hq
      cases hq
    | some l1 =>
      rw [hn] at hq
      obtain ⟨hs1, hlt1⟩ := navStep_seq_refines hk kinds R A hd stp h l1 hl hn
      simp only [List.map_cons, navChain]
      rw [hs1]
      exact navChain_refines hk kinds R A hd rest l1 r hlt1 hq

/-- the select over a chain: `select many` = `QuerySet(chain result)`, on both sides -/
theorem navMany_refines (hk : Function.Injective kname) (kinds : List Nat) {sch : MSchema}
    (R : Refines kname ι s st) (A : Pyx.Meta.AllInv sch s)
    (hd : ∀ k, Pyx.Query.KeysDistinct (Pyx.Query.linkEntriesFrom k 0 sch))
    (steps : List Pyx.Query.Step) (h r : List Nat) (hl : ∀ x ∈ h, x < s.count)
    (hq : Pyx.Query.navSeq sch s h steps = some r) :
    (navChain (ctxOf kname kinds sch) st (h.map ι) (steps.map (toStep kname))).map dedup =
      .ok ((Pyx.Query.dedupFirst r).map ι) := by
  rw [navChain_refines hk kinds R A hd steps h r hl hq]
  show Except.ok (dedup (r.map ι)) = _
  congr 1
  -- the elements of r are created instances
  have hlt : ∀ y ∈ r, y < s.count := by
    revert h r
    induction steps with
    | nil =>
      intro h r hl hq
      simp only [Pyx.Query.navSeq, List.foldl_nil, Option.some.injEq] at hq
      subst hq; exact hl
    | cons stp rest ih =>
      intro h r hl hq
      unfold Pyx.Query.navSeq at hq
      simp only [List.foldl_cons] at hq
      cases hn : Pyx.Query.navStep sch s h stp with
      | none => rw [hn, foldl_none_of_absorb _ (fun _ => rfl)] at hq; cases hq
      | some l1 =>
        rw [hn] at hq
        exact ih l1 r (navStep_seq_refines hk kinds R A hd stp h l1 hl hn).2 hq
  exact dedup_map_of_inj r (fun a ha b hb e => R.inj a b (hlt a ha) (hlt b hb) e)

end

end Pyx.Interp
