import PyxModel.OSet

/-! helper lemmas for C17 (abstract level) -/
namespace Pyx.OSet

theorem mem_add {k x : Nat} {l : T} : x ∈ add k l ↔ x ∈ l ∨ x = k := by
  unfold add; split
  · constructor
    · exact Or.inl
    · rintro (h | rfl) <;> assumption
  · simp

theorem nodup_add {k : Nat} {l : T} (h : l.Nodup) : (add k l).Nodup := by
  unfold add; split
  · exact h
  · rename_i hk
    rw [List.nodup_append]
    refine ⟨h, by simp, ?_⟩
    intro a ha b hb
    simp at hb; subst hb
    intro hab; subst hab; exact hk ha

theorem mem_discard {k x : Nat} {l : T} (h : l.Nodup) : x ∈ discard k l ↔ x ∈ l ∧ x ≠ k := by
  unfold discard
  rw [h.mem_erase_iff]; exact And.comm

theorem nodup_discard {k : Nat} {l : T} (h : l.Nodup) : (discard k l).Nodup := h.erase k

theorem discard_eq_filter {k : Nat} {l : T} (h : l.Nodup) : discard k l = l.filter (fun x => x != k) := by
  unfold discard
  rw [h.erase_eq_filter]

theorem mem_foldl_add (it : List Nat) : ∀ (l : T) (x : Nat),
    x ∈ it.foldl (fun acc k => add k acc) l ↔ x ∈ l ∨ x ∈ it := by
  induction it with
  | nil => intro l x; simp
  | cons a it ih =>
    intro l x
    simp only [List.foldl_cons, ih, mem_add, List.mem_cons]
    constructor
    · rintro ((h | h) | h)
      · exact Or.inl h
      · exact Or.inr (Or.inl h)
      · exact Or.inr (Or.inr h)
    · rintro (h | h | h)
      · exact Or.inl (Or.inl h)
      · exact Or.inl (Or.inr h)
      · exact Or.inr h

theorem nodup_foldl_add (it : List Nat) : ∀ (l : T), l.Nodup → (it.foldl (fun acc k => add k acc) l).Nodup := by
  induction it with
  | nil => intro l h; exact h
  | cons a it ih => intro l h; exact ih _ (nodup_add h)

theorem mem_fromIter {it : List Nat} {x : Nat} : x ∈ fromIter it ↔ x ∈ it := by
  unfold fromIter; rw [mem_foldl_add]; simp

theorem nodup_fromIter (it : List Nat) : (fromIter it).Nodup :=
  nodup_foldl_add it [] List.nodup_nil

theorem mem_ior {l : T} {it : List Nat} {x : Nat} : x ∈ ior l it ↔ x ∈ l ∨ x ∈ it := mem_foldl_add it l x
theorem nodup_ior {l : T} {it : List Nat} (h : l.Nodup) : (ior l it).Nodup := nodup_foldl_add it l h

theorem mem_foldl_discard (it : List Nat) : ∀ (l : T), l.Nodup → ∀ x,
    (x ∈ it.foldl (fun acc v => discard v acc) l ↔ x ∈ l ∧ x ∉ it) := by
  induction it with
  | nil => intro l _ x; simp
  | cons a it ih =>
    intro l h x
    simp only [List.foldl_cons]
    rw [ih _ (nodup_discard h), mem_discard h]
    simp only [List.mem_cons, not_or]
    constructor
    · rintro ⟨⟨h1, h2⟩, h3⟩; exact ⟨h1, h2, h3⟩
    · rintro ⟨h1, h2, h3⟩; exact ⟨⟨h1, h2⟩, h3⟩

theorem nodup_foldl_discard (it : List Nat) : ∀ (l : T), l.Nodup → (it.foldl (fun acc v => discard v acc) l).Nodup := by
  induction it with
  | nil => intro l h; exact h
  | cons a it ih => intro l h; exact ih _ (nodup_discard h)

theorem foldl_discard_eq_filter (it : List Nat) : ∀ (l : T), l.Nodup →
    it.foldl (fun acc v => discard v acc) l = l.filter (fun x => !(decide (x ∈ it))) := by
  induction it with
  | nil => intro l _; exact (List.filter_eq_self.mpr (fun _ _ => by simp)).symm
  | cons a it ih =>
    intro l h
    simp only [List.foldl_cons]
    rw [ih _ (nodup_discard h), discard_eq_filter h, List.filter_filter]
    congr 1
    funext x
    by_cases hx : x = a <;> simp [hx]

/-- adding elements that are all new, in order, appends them -/
theorem foldl_add_append (it : List Nat) : ∀ (l : T), it.Nodup → (∀ x ∈ it, x ∉ l) →
    it.foldl (fun acc k => add k acc) l = l ++ it := by
  induction it with
  | nil => intro l _ _; simp
  | cons a it ih =>
    intro l hnd hnew
    have ha : a ∉ l := hnew a (by simp)
    simp only [List.foldl_cons]
    have : add a l = l ++ [a] := by unfold add; simp [ha]
    rw [this, ih (l ++ [a]) (List.nodup_cons.mp hnd).2]
    · simp
    · intro x hx
      simp only [List.mem_append, List.mem_singleton, not_or]
      refine ⟨hnew x (by simp [hx]), ?_⟩
      intro hxa; subst hxa
      exact (List.nodup_cons.mp hnd).1 hx

theorem mem_dedupFirst {x : Nat} : ∀ {it : List Nat}, x ∈ dedupFirst it ↔ x ∈ it
  | [] => by simp [dedupFirst]
  | a :: it => by
    simp only [dedupFirst, List.mem_cons, List.mem_filter, bne_iff_ne, ne_eq]
    rw [mem_dedupFirst (it := it)]
    constructor
    · rintro (h | ⟨h, _⟩)
      · exact Or.inl h
      · exact Or.inr h
    · intro h
      by_cases hx : x = a
      · exact Or.inl hx
      · rcases h with h | h
        · exact Or.inl h
        · exact Or.inr ⟨h, hx⟩

theorem nodup_dedupFirst : ∀ (it : List Nat), (dedupFirst it).Nodup
  | [] => by simp [dedupFirst]
  | a :: it => by
    simp only [dedupFirst, List.nodup_cons, List.mem_filter, bne_iff_ne, ne_eq, not_true_eq_false,
      and_false, not_false_eq_true, true_and]
    exact (nodup_dedupFirst it).filter _

/-- `l |= it` keeps `l` and appends the unseen elements of `it` in `it`'s first-occurrence order -/
theorem ior_eq (it : List Nat) : ∀ (l : T), ior l it = l ++ (dedupFirst it).filter (fun x => !(decide (x ∈ l))) := by
  induction it with
  | nil => intro l; simp [ior, dedupFirst]
  | cons a it ih =>
    intro l
    unfold ior at ih ⊢
    simp only [List.foldl_cons, dedupFirst]
    rw [ih]
    by_cases ha : a ∈ l
    · have : add a l = l := by unfold add; simp [ha]
      rw [this]
      simp only [List.filter_cons, ha, decide_true, Bool.not_true, Bool.false_eq_true, ↓reduceIte,
        List.filter_filter]
      congr 1
      apply List.filter_congr
      intro x _
      by_cases hx : x = a
      · subst hx; simp [ha]
      · simp [hx]
    · have : add a l = l ++ [a] := by unfold add; simp [ha]
      rw [this]
      simp only [List.filter_cons, ha, decide_false, Bool.not_false, ↓reduceIte, List.append_assoc,
        List.singleton_append, List.filter_filter]
      congr 2
      apply List.filter_congr
      intro x _
      by_cases hx : x = a
      · subst hx; simp
      · simp [hx, List.mem_append]

theorem fromIter_eq_dedupFirst (it : List Nat) : fromIter it = dedupFirst it := by
  have := ior_eq it []
  unfold ior at this
  unfold fromIter
  rw [this]; simp

theorem fromIter_of_nodup {it : List Nat} (h : it.Nodup) : fromIter it = it := by
  unfold fromIter
  rw [foldl_add_append it [] h (by simp)]; simp


theorem mem_sub {l t : T} {x : Nat} : x ∈ sub l t ↔ x ∈ l ∧ x ∉ t := by
  unfold sub; rw [mem_fromIter]; simp

theorem mem_and {l t : T} {x : Nat} : x ∈ OSet.and l t ↔ x ∈ l ∧ x ∈ t := by
  unfold OSet.and; rw [mem_fromIter]; simp [And.comm]

theorem mem_or {l t : T} {x : Nat} : x ∈ OSet.or l t ↔ x ∈ l ∨ x ∈ t := by
  unfold OSet.or; rw [mem_fromIter]; simp

theorem mem_xor {l t : T} {x : Nat} : x ∈ xor l t ↔ (x ∈ l ∧ x ∉ t) ∨ (x ∈ t ∧ x ∉ l) := by
  unfold xor; rw [mem_or, mem_sub, mem_sub]

theorem sub_eq_filter {l t : T} (h : l.Nodup) : sub l t = l.filter (fun v => !(decide (v ∈ t))) := by
  unfold sub; exact fromIter_of_nodup (h.filter _)

theorem or_eq {l t : T} (h : l.Nodup) : OSet.or l t = l ++ (dedupFirst t).filter (fun x => !(decide (x ∈ l))) := by
  have h1 : OSet.or l t = ior (fromIter l) t := by
    unfold OSet.or fromIter ior; rw [List.foldl_append]
  rw [h1, fromIter_of_nodup h, ior_eq]

theorem mem_iand {l t : T} (h : l.Nodup) {x : Nat} : x ∈ iand l t ↔ x ∈ l ∧ x ∈ t := by
  unfold iand
  rw [mem_foldl_discard _ _ h, mem_sub]
  constructor
  · rintro ⟨h1, h2⟩
    refine ⟨h1, ?_⟩
    apply Classical.byContradiction
    intro h3; exact h2 ⟨h1, h3⟩
  · rintro ⟨h1, h2⟩; exact ⟨h1, fun h3 => h3.2 h2⟩

theorem iand_eq_filter {l t : T} (h : l.Nodup) : iand l t = l.filter (fun x => decide (x ∈ t)) := by
  unfold iand
  rw [foldl_discard_eq_filter _ _ h]
  apply List.filter_congr
  intro x hx
  by_cases ht : x ∈ t <;> simp [mem_sub, hx, ht]

theorem nodup_toggle (t : List Nat) : ∀ (l : T), l.Nodup →
    (t.foldl (fun acc v => if v ∈ acc then discard v acc else add v acc) l).Nodup := by
  induction t with
  | nil => intro l h; exact h
  | cons a t ih =>
    intro l h
    simp only [List.foldl_cons]
    apply ih
    split
    · exact nodup_discard h
    · exact nodup_add h

theorem mem_toggle (t : List Nat) : ∀ (l : T), l.Nodup → t.Nodup → ∀ x,
    (x ∈ t.foldl (fun acc v => if v ∈ acc then discard v acc else add v acc) l ↔
      (x ∈ l ∧ x ∉ t) ∨ (x ∉ l ∧ x ∈ t)) := by
  induction t with
  | nil => intro l _ _ x; simp
  | cons a t ih =>
    intro l h ht x
    have hat : a ∉ t := (List.nodup_cons.mp ht).1
    have ht' : t.Nodup := (List.nodup_cons.mp ht).2
    simp only [List.foldl_cons]
    by_cases ha : a ∈ l
    · simp only [ha, ↓reduceIte]
      rw [ih _ (nodup_discard h) ht', mem_discard h]
      by_cases hx : x = a
      · subst hx; simp [ha, hat]
      · simp [hx]
    · simp only [ha, ↓reduceIte]
      rw [ih _ (nodup_add h) ht', mem_add]
      by_cases hx : x = a
      · subst hx; simp [ha, hat]
      · simp [hx]

theorem mem_ixor {l : T} {it : List Nat} (h : l.Nodup) {x : Nat} :
    x ∈ ixor l it ↔ (x ∈ l ∧ x ∉ it) ∨ (x ∉ l ∧ x ∈ it) := by
  unfold ixor
  rw [mem_toggle _ _ h (nodup_fromIter it), mem_fromIter]

theorem nodup_ixor {l : T} {it : List Nat} (h : l.Nodup) : (ixor l it).Nodup := nodup_toggle _ _ h

theorem nodup_apply (op : Op) {l : T} (h : l.Nodup) : (apply op l).Nodup := by
  cases op with
  | add k => exact nodup_add h
  | discard k => exact nodup_discard h
  | remove k =>
    simp only [apply, remove]; split
    · exact nodup_discard h
    · exact h
  | popLast =>
    simp only [apply, popLast]
    cases l.getLast? with
    | none => exact h
    | some k => exact nodup_discard h
  | popFirst =>
    simp only [apply, popFirst]
    cases l.head? with
    | none => exact h
    | some k => exact nodup_discard h
  | clear => exact List.nodup_nil
  | ior it => exact nodup_ior h
  | iand it => exact nodup_foldl_discard _ _ h
  | isub it => exact nodup_foldl_discard _ _ h
  | ixor it => exact nodup_ixor h
  | iterRm ks => exact h.filter _

theorem nodup_run_from (ops : List Op) : ∀ (l : T), l.Nodup → (ops.foldl (fun l op => apply op l) l).Nodup := by
  induction ops with
  | nil => intro l h; exact h
  | cons op ops ih => intro l h; exact ih _ (nodup_apply op h)

end Pyx.OSet
