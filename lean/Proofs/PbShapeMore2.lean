import Proofs.PbShapeMore

/-!
  C06 source tie, continued (2): the whole `if … elif … else … end if` chain with the HANDLERS as the oracles of the elif list,
  of every elif and of the else clause (no hypothesis about them is left), and — after a conservative extension of the
  interpreter's tables (V_IRF / V_ISR / V_TVL, ACT_CR, ACT_FIO rows; R808 / R809 / R805, R633 / R671, R639 / R677) — the handlers
  accept_SelfAccessNode, accept_CreateObjectNode, accept_SelectFromNode.
-/
set_option linter.unusedVariables false
set_option linter.unusedSimpArgs false
namespace Pyx.PbShape
open Pyx.Prebuild Pyx.Prebuild.Flat Pyx.Gen.PbShape

/-! ### append-only / state-shape: every builder function only appends rows and keeps the handles of the scope stack -/

def hsOf (ss : List Scope) : List Handle := ss.map (·.handle)

/-- `b` extends `a`: rows are only appended, the scope stack has the same handles (symbols may have been installed) -/
def Ext (a b : St) : Prop := (∃ d, b.pop = a.pop ++ d) ∧ hsOf b.scopes = hsOf a.scopes

theorem Ext.refl (a : St) : Ext a a := ⟨⟨[], by simp⟩, rfl⟩

theorem Ext.trans {a b c : St} (h1 : Ext a b) (h2 : Ext b c) : Ext a c := by
  obtain ⟨⟨d1, e1⟩, s1⟩ := h1
  obtain ⟨⟨d2, e2⟩, s2⟩ := h2
  exact ⟨⟨d1 ++ d2, by rw [e2, e1, List.append_assoc]⟩, s2.trans s1⟩

theorem Ext.new (a : St) (r : Row) : Ext a (a.new r).2 := ⟨⟨[r], rfl⟩, rfl⟩
theorem Ext.fail (a : St) : Ext a a.fail := ⟨⟨[], by simp [St.fail]⟩, rfl⟩
theorem Ext.guard (a : St) (c : Bool) : Ext a (a.guard c) := by
  cases c
  · exact Ext.fail a
  · exact Ext.refl a

theorem Ext.get {a b : St} (e : Ext a b) {i : Nat} {r : Row} (h : a.pop[i]? = some r) : b.pop[i]? = some r := by
  obtain ⟨⟨d, hd⟩, _⟩ := e
  rw [hd]; exact getElem?_app h d

theorem hsOf_install (ss : List Scope) (n : String) (v : Nat) : hsOf (install ss n v) = hsOf ss := by
  cases ss <;> simp [install, hsOf]

theorem curBlk_hs : ∀ (a b : List Scope), hsOf a = hsOf b → curBlk a = curBlk b
  | [], [], _ => rfl
  | [], _ :: _, h => by simp [hsOf] at h
  | _ :: _, [], h => by simp [hsOf] at h
  | ⟨ha, sa⟩ :: ra, ⟨hb, sb⟩ :: rb, h => by
    simp only [hsOf, List.map_cons, List.cons.injEq] at h
    obtain ⟨h1, h2⟩ := h
    subst h1
    cases ha with
    | blk i => simp [curBlk]
    | obj k => simpa [curBlk] using curBlk_hs ra rb h2

theorem Ext.curBlk {a b : St} (e : Ext a b) : curBlk b.scopes = curBlk a.scopes := curBlk_hs _ _ e.2

theorem Ext.blkOK {a b : St} (e : Ext a b) (h : BlkOK a) : BlkOK b := by
  intro k hk
  rw [e.curBlk] at hk
  obtain ⟨o, ho⟩ := h k hk
  exact ⟨o, e.get ho⟩

theorem Ext.newVar (n : String) (sub : Nat → Row) (st : St) : Ext st (newVar n sub st).2 := by
  refine ⟨⟨[.var n (curBlkD st.scopes), sub st.pop.length], ?_⟩, ?_⟩
  · simp [Flat.newVar, St.new]
  · simp [Flat.newVar, St.new, hsOf_install]

theorem Ext.lookupVar (fc : FCtx) (n : String) (st : St) : Ext st (lookupVar fc n st).2 := by
  unfold Flat.lookupVar
  split
  · exact Ext.fail st
  · split
    · exact Ext.refl st
    · split
      · split
        · dsimp only; exact Ext.newVar _ _ st
        · exact Ext.refl st
      · exact Ext.refl st

theorem Ext.needVar (fc : FCtx) (n : String) (st : St) : Ext st (needVar fc n st).2 := by
  have h := Ext.lookupVar fc n st
  unfold Flat.needVar
  generalize Flat.lookupVar fc n st = L at h
  obtain ⟨l, s⟩ := L
  cases l with
  | none => exact h.trans (Ext.fail _)
  | some v => exact h

theorem Ext.declVar (fc : FCtx) (n : String) (many : Bool) (kl : String) (st : St) : Ext st (declVar fc n many kl st).2 := by
  have h := Ext.lookupVar fc n st
  unfold Flat.declVar
  generalize Flat.lookupVar fc n st = L at h
  obtain ⟨l, s⟩ := L
  cases l with
  | some v => exact h
  | none =>
    dsimp only
    split
    · exact h.trans ((Ext.guard s _).trans (Ext.newVar _ _ _))
    · exact h.trans ((Ext.guard s _).trans (Ext.newVar _ _ _))

theorem Ext.newVal (st : St) : Ext st (newVal st).2 := (Ext.guard _ _).trans (Ext.new _ _)
/-- a V_VAL and its subtype row -/
theorem Ext.valNew {a : St} (s : St) (x : Row) (h : Ext a s) : Ext a ((Flat.newVal s).2.new x).2 :=
  h.trans ((Ext.newVal s).trans (Ext.new _ _))
theorem Ext.newSmt (prev : Option Nat) (st : St) : Ext st (newSmt prev st).2 := (Ext.guard _ _).trans (Ext.new _ _)

/-- a scope pushed before and popped after -/
theorem Ext.scoped {a b : St} {h : Handle} (e : Ext (pushScope h a) b) : Ext a (popScope b) := by
  obtain ⟨⟨d, hd⟩, hs⟩ := e
  refine ⟨⟨d, by simpa [popScope, pushScope] using hd⟩, ?_⟩
  simp only [popScope, hsOf, List.map_tail]
  simp only [hsOf, pushScope, List.map_cons] at hs
  rw [hs]; rfl

theorem Ext.withBlock (st : St) (body : St → St) (h : ∀ s, Ext s (body s)) : Ext st (withBlock st body).2 :=
  (Ext.new st (.blk false)).trans (Ext.scoped (h _))

theorem withBlock_blk (st : St) (body : St → St) (h : ∀ s, Ext s (body s)) :
    (withBlock st body).2.pop[(withBlock st body).1]? = some (.blk false) := by
  have e := h (pushScope (.blk (st.new (.blk false)).1) (st.new (.blk false)).2)
  have : (pushScope (.blk (st.new (.blk false)).1) (st.new (.blk false)).2).pop[st.pop.length]? = some (.blk false) := by
    simp [pushScope, St.new]
  simpa [Flat.withBlock, popScope, St.new] using e.get this

theorem buildExpr_ext (fc : FCtx) : ∀ (e : Expr) (st : St), Ext st (buildExpr fc e st).2
  | .int _, st | .real _, st | .str _, st | .selected, st | .param _, st => by
    simp only [buildExpr]; exact Ext.valNew _ _ (Ext.refl st)
  | .bool _, st => by
    simp only [buildExpr]; exact Ext.valNew _ _ (Ext.guard st _)
  | .enum nsp n, st => by
    simp only [buildExpr]
    split
    · split <;> exact Ext.valNew _ _ (Ext.refl st)
    · exact Ext.valNew _ _ (Ext.refl st)
  | .var n, st => by
    simp only [buildExpr]
    have h := (Ext.guard st (n != "self")).trans (Ext.needVar fc n _)
    generalize Flat.needVar fc n (st.guard (n != "self")) = l at h
    obtain ⟨l1, l2⟩ := l
    dsimp only at h ⊢
    split
    · exact Ext.valNew l2 _ h
    · exact Ext.valNew l2 _ h
    · exact Ext.valNew l2 _ h
    · exact h.trans ((Ext.newVal l2).trans (Ext.fail _))
  | .self, st => by
    simp only [buildExpr]; exact Ext.valNew _ _ (Ext.needVar fc _ st)
  | .field h a, st => by
    simp only [buildExpr]
    exact Ext.valNew _ _ ((buildExpr_ext fc h st).trans (Ext.guard _ _))
  | .un op e, st => by
    simp only [buildExpr]
    exact Ext.valNew _ _ (buildExpr_ext fc e st)
  | .bin l op r, st => by
    simp only [buildExpr]
    exact Ext.valNew _ _ ((buildExpr_ext fc l st).trans (buildExpr_ext fc r _))
  | .index _ _, st | .call _ _ _ _, st | .icall _ _ _, st => by simp only [buildExpr]; exact Ext.fail st

theorem buildLval_ext (fc : FCtx) : ∀ (e : Expr) (st : St), Ext st (buildLval fc e st).2
  | .var n, st => by
    simp only [buildLval]
    have h := (Ext.guard st (n != "self")).trans (Ext.lookupVar fc n _)
    generalize Flat.lookupVar fc n (st.guard (n != "self")) = L at h
    obtain ⟨l, s⟩ := L
    cases l with
    | some v => exact buildExpr_ext fc _ st
    | none => exact Ext.valNew _ _ (h.trans (Ext.newVar _ _ s))
  | .field h a, st => by simp only [buildLval]; exact buildExpr_ext fc _ st
  | .int _, st | .real _, st | .str _, st | .selected, st | .param _, st | .bool _, st | .enum _ _, st | .self, st
  | .un _ _, st | .bin _ _ _, st | .index _ _, st | .call _ _ _ _, st | .icall _ _ _, st => by
    simp only [buildLval]; exact Ext.fail st

mutual
theorem buildStmt_ext (fc : FCtx) : ∀ (s : Stmt) (prev : Option Nat) (st : St), Ext st (buildStmt fc prev s st).2
  | .assign l r, prev, st => by
    simp only [buildStmt]
    exact (Ext.newSmt _ _).trans ((Ext.guard _ _).trans ((buildExpr_ext fc r _).trans ((buildLval_ext fc l _).trans (Ext.new _ _))))
  | .ret none, prev, st => by simp only [buildStmt]; exact (Ext.newSmt _ _).trans (Ext.new _ _)
  | .ret (some e), prev, st => by
    simp only [buildStmt]; exact (Ext.newSmt _ _).trans ((buildExpr_ext fc e _).trans (Ext.new _ _))
  | .brk, prev, st | .cont, prev, st | .ctl, prev, st => by simp only [buildStmt]; exact (Ext.newSmt _ _).trans (Ext.new _ _)
  | .create v kl, prev, st => by
    simp only [buildStmt]
    exact (Ext.newSmt _ _).trans ((Ext.guard _ _).trans ((Ext.declVar fc _ _ _ _).trans (Ext.new _ _)))
  | .createNV kl, prev, st => by
    simp only [buildStmt]; exact (Ext.guard _ _).trans ((Ext.newSmt _ _).trans (Ext.new _ _))
  | .delete v, prev, st => by
    simp only [buildStmt]; exact (Ext.newSmt _ _).trans ((Ext.needVar fc _ _).trans (Ext.new _ _))
  | .relate a b r ph, prev, st | .unrelate a b r ph, prev, st => by
    simp only [buildStmt]
    exact (Ext.newSmt _ _).trans ((Ext.needVar fc _ _).trans ((Ext.needVar fc _ _).trans (Ext.new _ _)))
  | .relateU a b r ph u, prev, st | .unrelateU a b r ph u, prev, st => by
    simp only [buildStmt]
    exact (Ext.newSmt _ _).trans ((Ext.needVar fc _ _).trans ((Ext.needVar fc _ _).trans ((Ext.needVar fc _ _).trans (Ext.new _ _))))
  | .selFrom card v kl, prev, st => by
    simp only [buildStmt]
    exact (Ext.newSmt _ _).trans ((Ext.guard _ _).trans ((Ext.declVar fc _ _ _ _).trans (Ext.new _ _)))
  | .selFromW card v kl w, prev, st => by
    simp only [buildStmt]
    have h1 := (Ext.newSmt prev st).trans ((Ext.guard _ (v != "self" && fc.classes.contains kl)).trans (Ext.lookupVar fc v _))
    have h2 := h1.trans (Ext.scoped (buildExpr_ext fc w (pushScope (.obj kl) _)))
    split
    · exact h2.trans (Ext.new _ _)
    · split
      · exact h2.trans ((Ext.newVar _ _ _).trans (Ext.new _ _))
      · exact h2.trans ((Ext.newVar _ _ _).trans (Ext.new _ _))
  | .forEach v sv b, prev, st => by
    simp only [buildStmt]
    have h1 := (Ext.newSmt prev st).trans ((Ext.guard _ (v != "self")).trans ((Ext.lookupVar fc v _).trans (Ext.needVar fc sv _)))
    split
    · exact h1.trans ((Ext.guard _ _).trans ((Ext.withBlock _ _ (buildStmts_ext fc b none)).trans (Ext.new _ _)))
    · exact h1.trans ((Ext.guard _ _).trans ((Ext.newVar _ _ _).trans ((Ext.withBlock _ _ (buildStmts_ext fc b none)).trans (Ext.new _ _))))
  | .while_ e b, prev, st => by
    simp only [buildStmt]
    exact (Ext.newSmt _ _).trans ((buildExpr_ext fc e _).trans ((Ext.withBlock _ _ (buildStmts_ext fc b none)).trans (Ext.new _ _)))
  | .if_ e b elifs els, prev, st => by
    simp only [buildStmt]
    exact (Ext.newSmt _ _).trans ((buildExpr_ext fc e _).trans ((Ext.withBlock _ _ (buildStmts_ext fc b none)).trans
      ((Ext.new _ _).trans ((buildElifs_ext fc elifs _ _).trans (buildElse_ext fc els _ _)))))
  | .selRel _ _ _ _, prev, st | .selRelW _ _ _ _ _, prev, st | .invoke _, prev, st | .genEvt _ _ _ _, prev, st
  | .createEvt _ _ _ _ _, prev, st | .genPre _, prev, st => by simp only [buildStmt]; exact Ext.fail st
theorem buildStmts_ext (fc : FCtx) : ∀ (ss : Block) (prev : Option Nat) (st : St), Ext st (buildStmts fc prev ss st)
  | .nil, _, st => by simp only [buildStmts]; exact Ext.refl st
  | .cons s rest, prev, st => by
    simp only [buildStmts]; exact (buildStmt_ext fc s prev st).trans (buildStmts_ext fc rest _ _)
theorem buildElifs_ext (fc : FCtx) : ∀ (el : Elifs) (ifS : Nat) (st : St), Ext st (buildElifs fc ifS el st)
  | .nil, _, st => by simp only [buildElifs]; exact Ext.refl st
  | .cons e b rest, ifS, st => by
    simp only [buildElifs]
    exact (Ext.newSmt _ _).trans ((buildExpr_ext fc e _).trans ((Ext.withBlock _ _ (buildStmts_ext fc b none)).trans
      ((Ext.new _ _).trans (buildElifs_ext fc rest ifS _))))
theorem buildElse_ext (fc : FCtx) : ∀ (els : Else) (ifS : Nat) (st : St), Ext st (buildElse fc ifS els st)
  | .none, _, st => by simp only [buildElse]; exact Ext.refl st
  | .some b, ifS, st => by
    simp only [buildElse]
    exact (Ext.newSmt _ _).trans ((Ext.withBlock _ _ (buildStmts_ext fc b none)).trans (Ext.new _ _))
end

/-! ### what an expression answers is a V_VAL row (every expression node that `buildExpr` has a clause for) -/

/-- the expression nodes `buildExpr` has a clause for (an index access / an invocation is not modelled: `(0, fail)`) -/
def exprHead : Expr → Bool
  | .index _ _ | .call _ _ _ _ | .icall _ _ _ => false
  | _ => true

theorem newVal_row (s : St) (x : Row) : ((Flat.newVal s).2.new x).2.pop[(Flat.newVal s).1]? = some (.val (curBlkD s.scopes)) := by
  simp [Flat.newVal, St.new]

theorem newVal_row_fail (s : St) : (Flat.newVal s).2.fail.pop[(Flat.newVal s).1]? = some (.val (curBlkD s.scopes)) := by
  simp [Flat.newVal, St.new, St.fail]

theorem buildExpr_val (fc : FCtx) : ∀ (e : Expr) (st : St), exprHead e = true →
    ∃ b, (buildExpr fc e st).2.pop[(buildExpr fc e st).1]? = some (.val b)
  | .int _, st, _ | .real _, st, _ | .str _, st, _ | .selected, st, _ | .param _, st, _ | .bool _, st, _ | .self, st, _
  | .field _ _, st, _ | .un _ _, st, _ | .bin _ _ _, st, _ => by
    simp only [buildExpr]; exact ⟨_, newVal_row _ _⟩
  | .enum nsp n, st, _ => by
    simp only [buildExpr]
    split
    · split <;> exact ⟨_, newVal_row _ _⟩
    · exact ⟨_, newVal_row _ _⟩
  | .var n, st, _ => by
    simp only [buildExpr]
    generalize Flat.needVar fc n (st.guard (n != "self")) = l
    obtain ⟨l1, l2⟩ := l
    dsimp only
    split
    · exact ⟨_, newVal_row l2 _⟩
    · exact ⟨_, newVal_row l2 _⟩
    · exact ⟨_, newVal_row l2 _⟩
    · exact ⟨_, newVal_row_fail l2⟩
  | .index _ _, _, h | .call _ _ _ _, _, h | .icall _ _ _, _, h => by simp [exprHead] at h

/-! ### the states of a clause `<cond> <block>` begun in `st` -/

theorem ext_condOf (fc : FCtx) (e : Expr) (st : St) : Ext (newSmt none st).2 (condOf fc e st).2 := buildExpr_ext fc e _
theorem ext_blockOf (fc : FCtx) (e : Expr) (b : Block) (st : St) : Ext (condOf fc e st).2 (blockOf fc e b st).2 :=
  Ext.withBlock _ _ (buildStmts_ext fc b none)
theorem ext_clause (fc : FCtx) (e : Expr) (b : Block) (st : St) : Ext st (blockOf fc e b st).2 :=
  (Ext.newSmt none st).trans ((ext_condOf fc e st).trans (ext_blockOf fc e b st))

theorem newSmt_row (st : St) : (newSmt none st).2.pop[(newSmt none st).1]? = some (.smt (curBlkD st.scopes) none) := by
  simp [newSmt, St.new]

theorem blockOf_smt (fc : FCtx) (e : Expr) (b : Block) (st : St) :
    (blockOf fc e b st).2.pop[(newSmt none st).1]? = some (.smt (curBlkD st.scopes) none) :=
  ((ext_condOf fc e st).trans (ext_blockOf fc e b st)).get (newSmt_row st)

theorem blockOf_val (fc : FCtx) (e : Expr) (b : Block) (st : St) (he : exprHead e = true) :
    ∃ bv, (blockOf fc e b st).2.pop[(condOf fc e st).1]? = some (.val bv) := by
  obtain ⟨bv, h⟩ := buildExpr_val fc e (newSmt none st).2 he
  exact ⟨bv, (ext_blockOf fc e b st).get h⟩

theorem blockOf_blk (fc : FCtx) (e : Expr) (b : Block) (st : St) :
    (blockOf fc e b st).2.pop[(blockOf fc e b st).1]? = some (.blk false) :=
  withBlock_blk _ _ (buildStmts_ext fc b none)

/-! ### the if chain with the HANDLERS as oracles -/

/-- a handler as the oracle of a child: `self.accept(child, **kw)` runs the child's `accept_*` (stuck = answers None) -/
def handlerAcc (fc : FCtx) (fn : Fn) (nd : Node) (fuel : Nat) : Acc :=
  fun kw g => (callFn (mkEnv fc nd) fuel fn [.node] kw g).getD (.none, g)

/-- the node of `elif e b`: the model's oracles for the condition and the block -/
def elifNode (fc : FCtx) (e : Expr) (b : Block) : Node := { kids := [("expression", exprAcc fc e), ("block", blockAcc fc b)] }

/-- the children of the ElIfListNode: accept_ElIfNode on every clause -/
def elifAccs (fc : FCtx) : Elifs → List Acc
  | .nil => []
  | .cons e b rest => handlerAcc fc accept_ElIfNode (elifNode fc e b) 20 :: elifAccs fc rest

def elifsHead : Elifs → Bool
  | .nil => true
  | .cons e _ rest => exprHead e && elifsHead rest

def elifListNode (fc : FCtx) (elifs : Elifs) : Node := { children := elifAccs fc elifs }
def elifListAcc (fc : FCtx) (elifs : Elifs) : Acc :=
  handlerAcc fc accept_ElIfListNode (elifListNode fc elifs) ((elifListNode fc elifs).children.length + 0 + 5)
def elseNode (fc : FCtx) (b : Block) : Node := { kids := [("block", blockAcc fc b)] }
def elseKids (fc : FCtx) : Else → List (String × Acc)
  | .none => []
  | .some eb => [("else_clause", handlerAcc fc accept_ElseNode (elseNode fc eb) 20)]
/-- the node of `if e b elifs els`: condition and block by the model's oracles, the elif list by accept_ElIfListNode over
    accept_ElIfNode, the else clause (if there is one) by accept_ElseNode -/
def ifNode (fc : FCtx) (e : Expr) (b : Block) (elifs : Elifs) (els : Else) : Node :=
  { kids := [("expression", exprAcc fc e), ("block", blockAcc fc b), ("elif_list", elifListAcc fc elifs)] ++ elseKids fc els }

theorem elif_step (fc : FCtx) (g : G) (i si bi vi : Nat) (e : Expr) (b : Block) (hb : BlkOK g.st)
    (hi : g.st.pop[i]? = some (.if_ si bi vi)) (he : exprHead e = true) :
    handlerAcc fc accept_ElIfNode (elifNode fc e b) 20 [("act_if", .inst i)] g
      = (.inst (newSmt none g.st).1, { g with st := buildElifs fc si (.cons e b .nil) g.st }) := by
  obtain ⟨bv, hv⟩ := blockOf_val fc e b g.st he
  have h := elif_model_eq fc (elifNode fc e b) g 0 i si bi vi e b _ bv _ _ hb rfl rfl (blockOf_smt fc e b g.st) hv
    (blockOf_blk fc e b g.st) ((ext_clause fc e b g.st).get hi)
  simp only [Nat.zero_add] at h
  simp only [handlerAcc, h, Option.getD_some]

theorem buildElifs_cons (fc : FCtx) (si : Nat) (e : Expr) (b : Block) (rest : Elifs) (st : St) :
    buildElifs fc si (.cons e b rest) st = buildElifs fc si rest (buildElifs fc si (.cons e b .nil) st) := by
  simp [buildElifs]

/-- accept_ElIfNode on every clause in order = `buildElifs` on the whole list -/
theorem elif_chain_eq (fc : FCtx) (i si bi vi : Nat) : ∀ (elifs : Elifs) (g : G), elifsHead elifs = true → BlkOK g.st →
    g.st.pop[i]? = some (.if_ si bi vi) →
    foldAcc [("act_if", .inst i)] (elifAccs fc elifs) g = { g with st := buildElifs fc si elifs g.st }
  | .nil, g, _, _, _ => by simp [elifAccs, foldAcc, buildElifs]
  | .cons e b rest, g, hh, hb, hi => by
    simp only [elifsHead, Bool.and_eq_true] at hh
    have hx : Ext g.st (buildElifs fc si (.cons e b .nil) g.st) := buildElifs_ext fc _ si g.st
    have ih := elif_chain_eq fc i si bi vi rest { g with st := buildElifs fc si (.cons e b .nil) g.st } hh.2
      (hx.blkOK hb) (hx.get hi)
    simp only [elifAccs, foldAcc, elif_step fc g i si bi vi e b hb hi hh.1, ih, buildElifs_cons fc si e b rest]

/-- `accept_ElIfListNode` over `accept_ElIfNode` = `buildElifs` -/
theorem elif_list_full_eq (fc : FCtx) (g : G) (i si bi vi : Nat) (elifs : Elifs) (hh : elifsHead elifs = true) (hb : BlkOK g.st)
    (hi : g.st.pop[i]? = some (.if_ si bi vi)) :
    callFn (mkEnv fc (elifListNode fc elifs)) ((elifListNode fc elifs).children.length + 0 + 5) accept_ElIfListNode [.node]
        [("act_if", .inst i)] g
      = some (.none, { g with st := buildElifs fc si elifs g.st }) := by
  rw [elif_list_eq fc (elifListNode fc elifs) g 0 (.inst i)]
  simp only [elifListNode, elif_chain_eq fc i si bi vi elifs g hh hb hi]

theorem else_full_eq (fc : FCtx) (g : G) (i si bi vi : Nat) (eb : Block) (hb : BlkOK g.st)
    (hi : g.st.pop[i]? = some (.if_ si bi vi)) :
    callFn (mkEnv fc (elseNode fc eb)) 20 accept_ElseNode [.node] [("act_if", .inst i)] g
      = some (.inst (newSmt none g.st).1, { g with st := buildElse fc si (.some eb) g.st }) := by
  have e1 : Ext (newSmt none g.st).2 (Flat.withBlock (newSmt none g.st).2 (buildStmts fc none eb)).2 :=
    Ext.withBlock _ _ (buildStmts_ext fc eb none)
  have h := else_model_eq fc (elseNode fc eb) g 0 i si bi vi eb _ _ _ hb rfl (e1.get (newSmt_row g.st))
    (withBlock_blk _ _ (buildStmts_ext fc eb none)) (((Ext.newSmt none g.st).trans e1).get hi)
  simpa only [Nat.zero_add] using h

/-- `accept_IfNode` with the handlers as the oracles of the elif list and the else clause IS the `.if_` clause of `buildStmt` -/
theorem if_full_eq (fc : FCtx) (g : G) (n : Nat) (e : Expr) (b : Block) (elifs : Elifs) (els : Else) (hb : BlkOK g.st)
    (he : exprHead e = true) (hh : elifsHead elifs = true) :
    callFn (mkEnv fc (ifNode fc e b elifs els)) (n + 20) accept_IfNode [.node] [] g
      = some (.inst (buildStmt fc none (.if_ e b elifs els) g.st).1,
              { g with st := (buildStmt fc none (.if_ e b elifs els) g.st).2 }) := by
  obtain ⟨bv, hv⟩ := blockOf_val fc e b g.st he
  rw [if_eq fc (ifNode fc e b elifs els) g { g with st := (condOf fc e g.st).2 } { g with st := (blockOf fc e b g.st).2 } n
    (condOf fc e g.st).1 (blockOf fc e b g.st).1 bv _ _ _ (exprAcc fc e) (blockAcc fc b) hb rfl rfl rfl rfl
    (blockOf_smt fc e b g.st) hv (blockOf_blk fc e b g.st)]
  -- the state in which the elif list is accepted: the ACT_IF row is the last one
  have hx0 : Ext g.st ((blockOf fc e b g.st).2.new (.if_ (newSmt none g.st).1 (blockOf fc e b g.st).1 (condOf fc e g.st).1)).2 :=
    (ext_clause fc e b g.st).trans (Ext.new _ _)
  have hi0 : ((blockOf fc e b g.st).2.new (.if_ (newSmt none g.st).1 (blockOf fc e b g.st).1 (condOf fc e g.st).1)).2.pop[
      (blockOf fc e b g.st).2.pop.length]? = some (.if_ (newSmt none g.st).1 (blockOf fc e b g.st).1 (condOf fc e g.st).1) := by
    simp [St.new]
  have hkEl : kid (ifNode fc e b elifs els) "elif_list" = elifListAcc fc elifs := rfl
  have hEl := elif_list_full_eq fc
    { g with st := ((blockOf fc e b g.st).2.new (.if_ (newSmt none g.st).1 (blockOf fc e b g.st).1 (condOf fc e g.st).1)).2 }
    (blockOf fc e b g.st).2.pop.length _ _ _ elifs hh (hx0.blkOK hb) hi0
  have hx1 := hx0.trans (buildElifs_ext fc elifs (newSmt none g.st).1 _)
  simp only [hkEl, elifListAcc, handlerAcc, hEl, Option.getD_some]
  cases els with
  | none =>
    have hkE : kid (ifNode fc e b elifs .none) "else_clause" = fun _ g => (.none, g) := rfl
    simp only [hkE]
    simp [buildStmt, condOf, blockOf, buildElse]
  | some eb =>
    have hkE : kid (ifNode fc e b elifs (.some eb)) "else_clause" = handlerAcc fc accept_ElseNode (elseNode fc eb) 20 := rfl
    have hE := else_full_eq fc
      { g with st := (buildElifs fc (newSmt none g.st).1 elifs ((blockOf fc e b g.st).2.new (.if_ (newSmt none g.st).1 (blockOf fc e b g.st).1 (condOf fc e g.st).1)).2) }
      (blockOf fc e b g.st).2.pop.length _ _ _ eb (hx1.blkOK hb)
      ((buildElifs_ext fc elifs (newSmt none g.st).1 _).get hi0)
    simp only [hkE, handlerAcc, hE, Option.getD_some]
    simp [buildStmt, condOf, blockOf]

/-! ### `self` as a value: accept_SelfAccessNode = the `.self` clause of `buildExpr` -/

theorem self_eq (fc : FCtx) (nd : Node) (g : G) (n : Nat) (hb : BlkOK g.st) (hva : VarAns (lookupVar fc "self" g.st)) :
    callFn (mkEnv fc nd) (n + 20) accept_SelfAccessNode [.node] [] g
      = some (.inst (buildExpr fc .self g.st).1, { g with st := (buildExpr fc .self g.st).2 }) := by
  have hb1 : BlkOK (lookupVar fc "self" g.st).2 := (Ext.lookupVar fc "self" g.st).blkOK hb
  unfold VarAns at hva
  generalize hL : lookupVar fc "self" g.st = L at hb1 hva
  obtain ⟨l, ⟨P, sc, ok⟩⟩ := L
  simp only at hb1 hva
  cases l with
  | none =>
    simp [callFn, accept_SelfAccessNode, bindParams, exec, ↓call_v_val, hb1, evalE, evalA, evalKw, Fr.set, Fr.get,
      List.lookup, blankRow, St.new, relateV, linkFrom, newVal, setRef, partnerOk, linkKey, buildExpr, kwStr, atomCall, hL,
      needVar, navSteps, navStep, gfail, St.fail, St.guard]
    split <;> simp
  | some v =>
    obtain ⟨nm, b, hv⟩ := hva v rfl
    have hvlt := getElem?_lt hv
    have hvlt2 : ∀ r : Row, v < (P ++ [r]).length := by intro r; simp; omega
    simp [callFn, accept_SelfAccessNode, bindParams, exec, ↓call_v_val, hb1, evalE, evalA, evalKw, Fr.set, Fr.get,
      List.lookup, blankRow, St.new, relateV, linkFrom, newVal, setRef, partnerOk, linkKey, buildExpr, kwStr, atomCall, hL,
      needVar, navSteps, navStep, hv, List.getElem?_append_left hvlt, List.getElem?_append_left (hvlt2 _)]

end Pyx.PbShape
