import PyxModel.Interp.Spec
import Proofs.InterpStore
import Proofs.InterpEnum

/-!
  Attribute values in the store refinement.

  The mechanism side: `Pyx.Meta.State` carries the value of an instance's own id attribute (`idOf`) and resolves
  referential attributes through the links (`Pyx.Meta.getAttr` / `readLayers`, lemmas `getAttr_own`, `getAttr_single`
  in Proofs/MetaState.lean — reused here, not duplicated); the plain attributes live in the instances' `__dict__`,
  modelled here as `MDict` (a valuation keyed by the GLOBAL instance index).  `mGet` / `mSet` / `mNewDict` are
  `getattr` / `setattr` / the defaults of `MetaClass.new` on that pair.
  The Spec side: `getAttr` / `setAttr` / `newInst` of PyxModel/Interp/State.lean over its own valuation keyed by
  (class, index in class), a referential attribute reading as the referred identifier of the related instance.

  `RefinesA` extends `Refines` by: equal plain values, id attribute = `idOf`, equal id generators.  Theorems: reads
  (plain, id, referential with one formalisation) agree; a write of a plain attribute corresponds and a write of a
  referential attribute is rejected on both sides; new / relate / unrelate / delete keep the correspondence; hence
  every history of these operations AND attribute writes refines (`attr_refines`).
-/
set_option linter.unusedSectionVars false
namespace Pyx.Interp

/-! ### the relation `Refines` only looks at pools, counters and links -/

theorem refines_store_congr {kname : Nat → String} {ι : Nat → Inst} {s : MState} {st st' : State}
    (R : Refines kname ι s st) (h1 : st'.live = st.live) (h2 : st'.next = st.next) (h3 : st'.links = st.links) :
    Refines kname ι s st' := by
  refine ⟨R.cls, ?_, R.inj, ?_, ?_, ?_, ?_, ?_⟩
  · intro x hx; rw [h2]; exact R.below x hx
  · intro k; rw [h1]; exact R.pool k
  · intro i p; rw [h3]; exact R.pairs i p
  · intro i; rw [h3]; exact R.nodup i
  · intro i x hx; rw [h3]; exact R.srcOrd i x hx
  · intro i y hy; rw [h3]; exact R.tgtOrd i y hy

/-- the Spec context with attribute declarations per kind -/
def ctxOfA (kname : Nat → String) (decl : Nat → List AttrDecl) (kinds : List Nat) (sch : MSchema) : Ctx :=
  { classes := kinds.map (fun k => ⟨kname k, decl k⟩), assocs := sch.map (toAssoc kname) }

theorem relate_assocs {C C' : Ctx} (h : C.assocs = C'.assocs) (x y : Inst) (r p : String) (st : State) :
    relate C x y r p st = relate C' x y r p st := by
  unfold relate findLink; rw [h]

theorem unrelate_assocs {C C' : Ctx} (h : C.assocs = C'.assocs) (x y : Inst) (r p : String) (st : State) :
    unrelate C x y r p st = unrelate C' x y r p st := by
  unfold unrelate findLink; rw [h]

theorem navStep_assocs {C C' : Ctx} (h : C.assocs = C'.assocs) (st : State) (i : Inst) (stp : NavStep) :
    navStep C st i stp = navStep C' st i stp := by
  unfold navStep viaProbe linksOf; rw [h]

theorem findClass_ctxOfA {kname : Nat → String} (hk : Function.Injective kname) (decl : Nat → List AttrDecl)
    (sch : MSchema) (k : Nat) : ∀ (kinds : List Nat), k ∈ kinds →
    findClass (ctxOfA kname decl kinds sch) (kname k) = some ⟨kname k, decl k⟩
  | [], h => by cases h
  | k0 :: rest, h => by
    unfold findClass ctxOfA
    simp only [List.map_cons, List.find?_cons]
    by_cases h0 : kname k0 = kname k
    · have := hk h0
      subst this
      simp
    · have hne : k ≠ k0 := fun e => h0 (by rw [e])
      have hmem : k ∈ rest := by
        rcases List.mem_cons.1 h with e | e
        · exact absurd e hne
        · exact e
      have ih := findClass_ctxOfA hk decl sch k rest hmem
      unfold findClass ctxOfA at ih
      simp only [h0, decide_false]
      exact ih

theorem findAttr_ctxOfA {kname : Nat → String} (hk : Function.Injective kname) (decl : Nat → List AttrDecl)
    (sch : MSchema) (k : Nat) (kinds : List Nat) (hkin : k ∈ kinds) (n : String) :
    findAttr (ctxOfA kname decl kinds sch) (kname k) n = (decl k).find? (fun a => a.name = n) := by
  unfold findAttr
  rw [findClass_ctxOfA hk decl sch k kinds hkin]

/-! ### the mechanism's attribute store -/

/-- the `__dict__` entries of the plain attributes, keyed by the global instance index -/
structure MDict where
  vals : Nat → String → Val

def ofOpt : Option Nat → Val
  | some n => .int n
  | none => .none

/-- is `name` neither formalised by an association nor the class's own id attribute: a plain `__dict__` attribute -/
def isPlain (sch : MSchema) (at_ : Pyx.Meta.Attrs) (k : Nat) (name : String) : Prop :=
  Pyx.Meta.formalFrom k name 0 sch = [] ∧ at_.idName k ≠ some name

instance (sch : MSchema) (at_ : Pyx.Meta.Attrs) (k : Nat) (name : String) : Decidable (isPlain sch at_ k name) := by
  unfold isPlain; exact inferInstance

/-- `getattr(inst, name)`: a plain attribute from the dict, the id attribute and the referential attributes through
    `Pyx.Meta.getAttr` -/
def mGet (sch : MSchema) (at_ : Pyx.Meta.Attrs) (s : MState) (d : MDict) (fuel : Nat) (x : Nat) (name : String) : Val :=
  if isPlain sch at_ (s.kindOf x) name then d.vals x name
  else ofOpt (Pyx.Meta.getAttr sch at_ s fuel x name)

/-- `setattr(inst, name, value)`: `none` = MetaException (a referential attribute cannot be assigned); the id attribute
    is kept in `idOf` (the model holds non-negative ids only) -/
def mSet (sch : MSchema) (at_ : Pyx.Meta.Attrs) (s : MState) (d : MDict) (x : Nat) (name : String) (v : Val) :
    Option (MState × MDict) :=
  if Pyx.Meta.formalFrom (s.kindOf x) name 0 sch ≠ [] then none
  else if at_.idName (s.kindOf x) = some name then
    match v with
    | .int i => if 0 ≤ i then some ({ s with idOf := Pyx.Meta.upd s.idOf x i.toNat }, d) else none
    | _ => none
  else some (s, { vals := fun y n => if y = x ∧ n = name then v else d.vals y n })

/-- the defaults `MetaClass.new` puts into the new instance's dict (the id attribute is `Pyx.Meta.new`'s business) -/
def mNewDict (x : Nat) (idn : Option String) : List AttrDecl → (Nat → String → Val) → (Nat → String → Val)
  | [], g => g
  | a :: rest, g =>
    if a.referential = true ∨ idn = some a.name then mNewDict x idn rest g
    else mNewDict x idn rest (fun y n => if y = x ∧ n = a.name then (defaultOf a.ty 0).1 else g y n)

/-! ### the extended refinement -/

/-- the declarations of kind `k` are consistent with the mechanism's schema: distinct names; an attribute is declared
    referential iff an association formalises it; the class's own id attribute is declared as a stored unique_id and is
    the only stored unique_id -/
structure DeclOk (decl : Nat → List AttrDecl) (at_ : Pyx.Meta.Attrs) (sch : MSchema) (k : Nat) : Prop where
  nodup : ((decl k).map (fun a => a.name)).Nodup
  refs : ∀ a ∈ decl k, (a.referential = true ↔ Pyx.Meta.formalFrom k a.name 0 sch ≠ [])
  idDecl : ∀ n, at_.idName k = some n → ∃ a ∈ decl k, a.name = n ∧ a.ty = .uniqueId ∧ a.referential = false
  oneId : ∀ a ∈ decl k, a.referential = false → a.ty = .uniqueId → at_.idName k = some a.name
  idCount : ((decl k).filter (fun a => !a.referential && decide (a.ty = .uniqueId))).length =
    if (at_.idName k).isSome then 1 else 0

structure RefinesA (kname : Nat → String) (decl : Nat → List AttrDecl) (at_ : Pyx.Meta.Attrs) (sch : MSchema)
    (ι : Nat → Inst) (s : MState) (d : MDict) (st : State) : Prop where
  store : Refines kname ι s st
  idv : ∀ x, x < s.count → ∀ n, at_.idName (s.kindOf x) = some n → st.attr (ι x) n = .int (s.idOf x)
  plain : ∀ x, x < s.count → ∀ n, isPlain sch at_ (s.kindOf x) n → (∃ a ∈ decl (s.kindOf x), a.name = n) →
    st.attr (ι x) n = d.vals x n
  nextId : st.nextId = (s.nextId : Int)

theorem refinesA_init (kname : Nat → String) (decl : Nat → List AttrDecl) (at_ : Pyx.Meta.Attrs) (sch : MSchema)
    (ι : Nat → Inst) (d : MDict) : RefinesA kname decl at_ sch ι Pyx.Meta.init d initState :=
  ⟨refines_init kname ι, fun x h => by simp [Pyx.Meta.init] at h, fun x h => by simp [Pyx.Meta.init] at h, rfl⟩

section
variable {kname : Nat → String} {decl : Nat → List AttrDecl} {at_ : Pyx.Meta.Attrs} {sch : MSchema}
variable {ι : Nat → Inst} {s : MState} {d : MDict} {st : State}

/-! ### reads -/

theorem formalsFrom_corr (hk : Function.Injective kname) (k : Nat) (name : String) : ∀ (sch : MSchema) (n : Nat),
    formalsFrom (kname k) name n (sch.map (toAssoc kname)) = Pyx.Meta.formalFrom k name n sch
  | [], _ => rfl
  | a :: rest, n => by
    simp only [List.map_cons, formalsFrom, Pyx.Meta.formalFrom, Pyx.Meta.keyPairs]
    rw [formalsFrom_corr hk k name rest (n + 1)]
    by_cases h : a.srcKind = k
    · simp [toAssoc, h]
    · simp [toAssoc, h, hk.eq_iff]

/-- a stored plain attribute reads the same on both sides -/
theorem read_plain (hk : Function.Injective kname) (kinds : List Nat)
    (R : RefinesA kname decl at_ sch ι s d st) (A : Pyx.Meta.AllInv sch s) {x : Nat} (hx : Pyx.Meta.live s x)
    (hkin : s.kindOf x ∈ kinds) {name : String} {a : AttrDecl}
    (hfa : (decl (s.kindOf x)).find? (fun a => a.name = name) = some a) (hnr : a.referential = false)
    (hpl : isPlain sch at_ (s.kindOf x) name) (fuel : Nat) :
    getAttr (ctxOfA kname decl kinds sch) (ι x) name st = .ok (mGet sch at_ s d fuel x name) := by
  unfold getAttr
  rw [(live_iff R.store A.pool hx.1).2 hx]
  simp only [if_true]
  rw [R.store.cls x hx.1, findAttr_ctxOfA hk decl sch _ kinds hkin, hfa]
  simp only [hnr, Bool.false_eq_true, if_false]
  unfold mGet
  have hmem : ∃ b ∈ decl (s.kindOf x), b.name = name :=
    ⟨a, List.mem_of_find?_eq_some hfa, by simpa using List.find?_some hfa⟩
  rw [if_pos hpl, R.plain x hx.1 name hpl hmem]

/-- the class's own id attribute reads as `idOf` -/
theorem read_id (hk : Function.Injective kname) (kinds : List Nat)
    (R : RefinesA kname decl at_ sch ι s d st) (A : Pyx.Meta.AllInv sch s) {x : Nat} (hx : Pyx.Meta.live s x)
    (hkin : s.kindOf x ∈ kinds) (D : DeclOk decl at_ sch (s.kindOf x)) {name : String}
    (hid : at_.idName (s.kindOf x) = some name) (fuel : Nat) :
    getAttr (ctxOfA kname decl kinds sch) (ι x) name st = .ok (mGet sch at_ s d (fuel + 1) x name) ∧
    mGet sch at_ s d (fuel + 1) x name = .int (s.idOf x) := by
  obtain ⟨a, ha, han, _, hanr⟩ := D.idDecl name hid
  have hform : Pyx.Meta.formalFrom (s.kindOf x) name 0 sch = [] := by
    apply Classical.byContradiction
    intro hne
    have := (D.refs a ha).2 (by rw [han]; exact hne)
    rw [hanr] at this; cases this
  have hm : mGet sch at_ s d (fuel + 1) x name = .int (s.idOf x) := by
    unfold mGet
    rw [if_neg (fun h : isPlain sch at_ (s.kindOf x) name => h.2 hid), Pyx.Meta.getAttr_own sch at_ s fuel x name hform]
    simp [hid, ofOpt]
  refine ⟨?_, hm⟩
  rw [hm]
  have hfa : (decl (s.kindOf x)).find? (fun b => b.name = name) = some a := by
    apply find?_unique ha (by simp [han])
    intro b hb hbn
    simp only [decide_eq_true_eq] at hbn
    exact nodup_map_inj D.nodup b hb a ha (hbn.trans han.symm)
  unfold getAttr
  rw [(live_iff R.store A.pool hx.1).2 hx]
  simp only [if_true]
  rw [R.store.cls x hx.1, findAttr_ctxOfA hk decl sch _ kinds hkin, hfa]
  simp only [hanr, Bool.false_eq_true, if_false]
  rw [R.idv x hx.1 name hid]

/-- a referential attribute formalised by exactly one association reads, on both sides, as the identifier of the
    instance related across it (`Pyx.Meta.getAttr_single`, `getAttr_own`), and as nothing when there is none.
    Guard: the referred attribute `pk` is the own id attribute of the related instance's class. -/
theorem read_ref (hk : Function.Injective kname) (kinds : List Nat)
    (R : RefinesA kname decl at_ sch ι s d st) (A : Pyx.Meta.AllInv sch s) {x : Nat} (hx : Pyx.Meta.live s x)
    (hkin : s.kindOf x ∈ kinds) {name pk : String} {i : Nat} {a : AttrDecl}
    (hfa : (decl (s.kindOf x)).find? (fun a => a.name = name) = some a) (hr : a.referential = true)
    (hform : Pyx.Meta.formalFrom (s.kindOf x) name 0 sch = [(i, pk)])
    (hpk : ∀ o, o ∈ (s.links i).tgt x → s.kindOf o ∈ kinds ∧ DeclOk decl at_ sch (s.kindOf o) ∧
        at_.idName (s.kindOf o) = some pk) (fuel : Nat) :
    getAttr (ctxOfA kname decl kinds sch) (ι x) name st = .ok (mGet sch at_ s d (fuel + 3) x name) := by
  have hnp : ¬ isPlain sch at_ (s.kindOf x) name := fun h => by rw [h.1] at hform; cases hform
  unfold mGet
  rw [if_neg hnp, Pyx.Meta.getAttr_single sch at_ s (fuel + 1) x name pk i hform]
  unfold getAttr
  rw [(live_iff R.store A.pool hx.1).2 hx]
  simp only [if_true]
  rw [R.store.cls x hx.1, findAttr_ctxOfA hk decl sch _ kinds hkin, hfa]
  simp only [hr, if_true]
  unfold refRead
  rw [R.store.cls x hx.1]
  have hfc : formalsFrom (kname (s.kindOf x)) name 0 (ctxOfA kname decl kinds sch).assocs = [(i, pk)] := by
    show formalsFrom _ _ 0 (sch.map (toAssoc kname)) = _
    rw [formalsFrom_corr hk, hform]
  rw [hfc]
  simp only
  have hproj : ((st.links i).filterMap (fun p => if p.1 = ι x then some p.2 else none)) = ((s.links i).tgt x).map ι :=
    R.store.tgtOrd i x hx.1
  rw [hproj, List.head?_map]
  cases hh : ((s.links i).tgt x).head? with
  | none => rfl
  | some o =>
    have ho : o ∈ (s.links i).tgt x := List.mem_of_head? hh
    obtain ⟨hokin, Do, hoid⟩ := hpk o ho
    have holt : o < s.count := ((links_lt A).2 ho).1
    obtain ⟨b, hb, hbn, _, hbnr⟩ := Do.idDecl pk hoid
    have hformo : Pyx.Meta.formalFrom (s.kindOf o) pk 0 sch = [] := by
      apply Classical.byContradiction
      intro hne
      have := (Do.refs b hb).2 (by rw [hbn]; exact hne)
      rw [hbnr] at this; cases this
    have hfb : (decl (s.kindOf o)).find? (fun c => c.name = pk) = some b := by
      apply find?_unique hb (by simp [hbn])
      intro c hc hcn
      simp only [decide_eq_true_eq] at hcn
      exact nodup_map_inj Do.nodup c hc b hb (hcn.trans hbn.symm)
    simp only [Option.map_some]
    rw [R.store.cls o holt, findAttr_ctxOfA hk decl sch _ kinds hokin, hfb]
    simp only [hbnr, Bool.false_eq_true, if_false]
    rw [R.idv o holt pk hoid, Pyx.Meta.getAttr_own sch at_ s fuel o pk hformo]
    simp [hoid, ofOpt]

/-! ### writes -/

theorem setAttr_frame {C : Ctx} {i : Inst} {name : String} {v : Val} {st st' : State} (h : setAttr C i name v st = .ok st') :
    st'.live = st.live ∧ st'.next = st.next ∧ st'.links = st.links ∧ st'.nextId = st.nextId ∧
    st'.attr = fun j n => if j = i ∧ n = name then v else st.attr j n := by
  unfold setAttr at h
  split at h
  · split at h
    · split at h
      · cases h
      · split at h
        · simp only [Except.ok.injEq] at h
          subst h
          exact ⟨rfl, rfl, rfl, rfl, rfl⟩
        · cases h
    · cases h
  · cases h

/-- **write of a plain attribute**: accepted on both sides, and the results correspond.
    Guard (Spec's, the code does not check): live instance, declared attribute, value of the declared type. -/
theorem write_plain (hk : Function.Injective kname) (kinds : List Nat)
    (R : RefinesA kname decl at_ sch ι s d st) (A : Pyx.Meta.AllInv sch s) {x : Nat} (hx : Pyx.Meta.live s x)
    (hkin : s.kindOf x ∈ kinds) {name : String} {a : AttrDecl} {v : Val}
    (hfa : (decl (s.kindOf x)).find? (fun a => a.name = name) = some a) (hnr : a.referential = false)
    (hty : tyMatches a.ty v = true) (hpl : isPlain sch at_ (s.kindOf x) name) :
    ∃ st' d', setAttr (ctxOfA kname decl kinds sch) (ι x) name v st = .ok st' ∧
      mSet sch at_ s d x name v = some (s, d') ∧ RefinesA kname decl at_ sch ι s d' st' := by
  refine ⟨{ st with attr := fun j n => if j = ι x ∧ n = name then v else st.attr j n },
    { vals := fun y n => if y = x ∧ n = name then v else d.vals y n }, ?_, ?_, ?_⟩
  · unfold setAttr
    rw [(live_iff R.store A.pool hx.1).2 hx]
    simp only [if_true]
    rw [R.store.cls x hx.1, findAttr_ctxOfA hk decl sch _ kinds hkin, hfa]
    simp only [hnr, Bool.false_eq_true, if_false, hty, if_true]
  · unfold mSet
    rw [if_neg (fun h => h hpl.1), if_neg hpl.2]
  · refine ⟨refines_store_congr R.store rfl rfl rfl, ?_, ?_, R.nextId⟩
    · intro y hy n hn
      show (if ι y = ι x ∧ n = name then v else st.attr (ι y) n) = _
      by_cases hc : ι y = ι x ∧ n = name
      · exfalso
        have hyx := R.store.inj y x hy hx.1 hc.1
        rw [hyx, hc.2] at hn
        exact hpl.2 hn
      · rw [if_neg hc]; exact R.idv y hy n hn
    · intro y hy n hn hdn
      show (if ι y = ι x ∧ n = name then v else st.attr (ι y) n) = (if y = x ∧ n = name then v else d.vals y n)
      by_cases hyx : y = x
      · subst hyx
        by_cases hn' : n = name
        · simp [hn']
        · simp [hn']; exact R.plain y hy n hn hdn
      · have : ι y ≠ ι x := fun e => hyx (R.store.inj y x hy hx.1 e)
        simp [hyx, this]; exact R.plain y hy n hn hdn

/-- **write of a referential attribute**: rejected on both sides (MetaException / Spec error), nothing changes -/
theorem write_ref (hk : Function.Injective kname) (kinds : List Nat)
    (R : RefinesA kname decl at_ sch ι s d st) (A : Pyx.Meta.AllInv sch s) {x : Nat} (hx : Pyx.Meta.live s x)
    (hkin : s.kindOf x ∈ kinds) {name : String} {a : AttrDecl} (v : Val)
    (hfa : (decl (s.kindOf x)).find? (fun a => a.name = name) = some a) (hr : a.referential = true)
    (hform : Pyx.Meta.formalFrom (s.kindOf x) name 0 sch ≠ []) :
    (∃ e, setAttr (ctxOfA kname decl kinds sch) (ι x) name v st = .error e) ∧ mSet sch at_ s d x name v = none := by
  constructor
  · unfold setAttr
    rw [(live_iff R.store A.pool hx.1).2 hx]
    simp only [if_true]
    rw [R.store.cls x hx.1, findAttr_ctxOfA hk decl sch _ kinds hkin, hfa]
    simp only [hr, if_true]
    exact ⟨_, rfl⟩
  · unfold mSet
    rw [if_pos hform]

/-- **write of the class's own id attribute** (`x.ID = i`, i ≥ 0 — the mechanism model keeps ids in `idOf : Inst → Nat`):
    accepted on both sides; the mechanism updates `idOf`, Spec the valuation, and the states correspond again — so the
    referential attributes of the instances related to `x` read alike afterwards (`read_ref` applies to the new states) -/
theorem write_id (hk : Function.Injective kname) (kinds : List Nat)
    (R : RefinesA kname decl at_ sch ι s d st) (A : Pyx.Meta.AllInv sch s) {x : Nat} (hx : Pyx.Meta.live s x)
    (hkin : s.kindOf x ∈ kinds) {name : String} {a : AttrDecl} {i : Int}
    (hfa : (decl (s.kindOf x)).find? (fun a => a.name = name) = some a) (hnr : a.referential = false)
    (hty : tyMatches a.ty (.int i) = true) (hform : Pyx.Meta.formalFrom (s.kindOf x) name 0 sch = [])
    (hid : at_.idName (s.kindOf x) = some name) (hi : 0 ≤ i) :
    ∃ st', setAttr (ctxOfA kname decl kinds sch) (ι x) name (.int i) st = .ok st' ∧
      mSet sch at_ s d x name (.int i) = some ({ s with idOf := Pyx.Meta.upd s.idOf x i.toNat }, d) ∧
      RefinesA kname decl at_ sch ι { s with idOf := Pyx.Meta.upd s.idOf x i.toNat } d st' := by
  refine ⟨{ st with attr := fun j n => if j = ι x ∧ n = name then .int i else st.attr j n }, ?_, ?_, ?_⟩
  · unfold setAttr
    rw [(live_iff R.store A.pool hx.1).2 hx]
    simp only [if_true]
    rw [R.store.cls x hx.1, findAttr_ctxOfA hk decl sch _ kinds hkin, hfa]
    simp only [hnr, Bool.false_eq_true, if_false, hty, if_true]
  · unfold mSet
    rw [if_neg (fun h => h hform), if_pos hid]
    simp only [hi, if_true]
  · have R0 : Refines kname ι s { st with attr := fun j n => if j = ι x ∧ n = name then .int i else st.attr j n } :=
      refines_store_congr R.store rfl rfl rfl
    refine ⟨⟨R0.cls, R0.below, R0.inj, R0.pool, R0.pairs, R0.nodup, R0.srcOrd, R0.tgtOrd⟩, ?_, ?_, R.nextId⟩
    · intro y hy n hn
      show (if ι y = ι x ∧ n = name then Val.int i else st.attr (ι y) n) = .int ((Pyx.Meta.upd s.idOf x i.toNat y : Nat) : Int)
      by_cases hyx : y = x
      · subst hyx
        have hn' : n = name := by
          have h1 : at_.idName (s.kindOf y) = some n := hn
          rw [hid] at h1; exact (Option.some.inj h1).symm
        subst hn'
        simp only [and_self, if_true, Pyx.Meta.upd]
        rw [Int.toNat_of_nonneg hi]
      · have hne : ι y ≠ ι x := fun e => hyx (R.store.inj y x hy hx.1 e)
        have hu : Pyx.Meta.upd s.idOf x i.toNat y = s.idOf y := Pyx.Meta.upd_other s.idOf i.toNat hyx
        rw [hu]
        simp only [hne, false_and, if_false]
        exact R.idv y hy n hn
    · intro y hy n hn hdn
      show (if ι y = ι x ∧ n = name then Val.int i else st.attr (ι y) n) = d.vals y n
      by_cases hc : ι y = ι x ∧ n = name
      · exfalso
        have hyx := R.store.inj y x hy hx.1 hc.1
        have hn2 : isPlain sch at_ (s.kindOf y) n := hn
        rw [hyx, hc.2] at hn2
        exact hn2.2 hid
      · rw [if_neg hc]; exact R.plain y hy n hn hdn

/-! ### new: the defaults -/

def isGenId (a : AttrDecl) : Bool := !a.referential && decide (a.ty = .uniqueId)

theorem defaultOf_fst_of_ne (ty : Ty) (h : ty ≠ .uniqueId) (n m : Int) :
    (defaultOf ty n).1 = (defaultOf ty m).1 ∧ (defaultOf ty n).2 = n := by
  cases ty <;> first | exact ⟨rfl, rfl⟩ | exact absurd rfl h

/-- `initAttrs` only touches the valuation of the new instance -/
theorem initAttrs_other (i : Inst) : ∀ (l : List AttrDecl) (f : Inst → String → Val) (nid : Int) (j : Inst) (n : String),
    j ≠ i → (initAttrs i l (f, nid)).1 j n = f j n
  | [], _, _, _, _, _ => rfl
  | a :: rest, f, nid, j, n, hj => by
    unfold initAttrs
    split
    · exact initAttrs_other i rest f nid j n hj
    · simp only
      rw [initAttrs_other i rest _ _ j n hj]
      simp [hj]

/-- the id generator advances once per stored unique_id attribute -/
theorem initAttrs_nid (i : Inst) : ∀ (l : List AttrDecl) (f : Inst → String → Val) (nid : Int),
    (initAttrs i l (f, nid)).2 = nid + ((l.filter isGenId).length : Nat)
  | [], _, _ => by simp [initAttrs]
  | a :: rest, f, nid => by
    unfold initAttrs
    by_cases hr : a.referential = true
    · rw [if_pos hr, initAttrs_nid i rest f nid]
      have : isGenId a = false := by simp [isGenId, hr]
      simp [List.filter_cons, this]
    · rw [if_neg hr]
      simp only
      rw [initAttrs_nid i rest _ _]
      by_cases hu : a.ty = .uniqueId
      · have : isGenId a = true := by simp [isGenId, hr, hu]
        simp only [List.filter_cons, this, if_true, List.length_cons, hu, defaultOf]
        omega
      · have : isGenId a = false := by simp [isGenId, hu]
        rw [(defaultOf_fst_of_ne a.ty hu nid 0).2]
        simp [List.filter_cons, this]

/-- an attribute no stored declaration of the list names keeps its value -/
theorem initAttrs_untouched (i : Inst) : ∀ (l : List AttrDecl) (f : Inst → String → Val) (nid : Int) (n : String),
    (∀ a ∈ l, a.referential = false → a.name ≠ n) → (initAttrs i l (f, nid)).1 i n = f i n
  | [], _, _, _, _ => rfl
  | a :: rest, f, nid, n, h => by
    unfold initAttrs
    by_cases hr : a.referential = true
    · rw [if_pos hr]
      exact initAttrs_untouched i rest f nid n (fun b hb => h b (List.mem_cons_of_mem _ hb))
    · rw [if_neg hr]
      simp only
      rw [initAttrs_untouched i rest _ _ n (fun b hb => h b (List.mem_cons_of_mem _ hb))]
      have : a.name ≠ n := h a List.mem_cons_self (by simpa using hr)
      simp [this.symm]

/-- a stored attribute of the list gets its default; the unique_id one (the only one, by `hone`) the current id -/
theorem initAttrs_value (i : Inst) : ∀ (l : List AttrDecl) (f : Inst → String → Val) (nid : Int),
    (l.map (fun a => a.name)).Nodup → ((l.filter isGenId).length ≤ 1) →
    ∀ a ∈ l, a.referential = false →
      (initAttrs i l (f, nid)).1 i a.name = if a.ty = .uniqueId then .int nid else (defaultOf a.ty 0).1
  | [], _, _, _, _, a, ha, _ => by cases ha
  | b :: rest, f, nid, hnd, hone, a, ha, hnr => by
    simp only [List.map_cons, List.nodup_cons] at hnd
    unfold initAttrs
    by_cases hr : b.referential = true
    · rw [if_pos hr]
      have hab : a ∈ rest := by
        rcases List.mem_cons.1 ha with e | e
        · rw [e] at hnr; rw [hnr] at hr; cases hr
        · exact e
      have hone' : (rest.filter isGenId).length ≤ 1 := by
        have : isGenId b = false := by simp [isGenId, hr]
        simpa [List.filter_cons, this] using hone
      exact initAttrs_value i rest f nid hnd.2 hone' a hab hnr
    · rw [if_neg hr]
      simp only
      rcases List.mem_cons.1 ha with e | hab
      · subst e
        rw [initAttrs_untouched i rest _ _ a.name (fun c hc _ hcn => hnd.1 (List.mem_map.2 ⟨c, hc, hcn⟩))]
        by_cases hu : a.ty = .uniqueId
        · simp [hu, defaultOf]
        · simp only [if_true, and_self, hu, if_false]
          exact (defaultOf_fst_of_ne a.ty hu nid 0).1
      · by_cases hub : b.ty = .uniqueId
        · -- b is the unique_id attribute: a is not
          have hb1 : isGenId b = true := by simp [isGenId, hr, hub]
          have hrest0 : (rest.filter isGenId).length = 0 := by
            have : (rest.filter isGenId).length + 1 ≤ 1 := by simpa [List.filter_cons, hb1] using hone
            omega
          have hau : a.ty ≠ .uniqueId := by
            intro hau
            have : a ∈ rest.filter isGenId := List.mem_filter.2 ⟨hab, by simp [isGenId, hnr, hau]⟩
            rw [List.length_eq_zero_iff.1 hrest0] at this
            cases this
          rw [initAttrs_value i rest _ _ hnd.2 (by omega) a hab hnr]
          simp [hau]
        · have hb0 : isGenId b = false := by simp [isGenId, hub]
          have hone' : (rest.filter isGenId).length ≤ 1 := by simpa [List.filter_cons, hb0] using hone
          rw [initAttrs_value i rest _ _ hnd.2 hone' a hab hnr, (defaultOf_fst_of_ne b.ty hub nid 0).2]

theorem mNewDict_other (x : Nat) (idn : Option String) : ∀ (l : List AttrDecl) (g : Nat → String → Val) (y : Nat) (n : String),
    y ≠ x → mNewDict x idn l g y n = g y n
  | [], _, _, _, _ => rfl
  | a :: rest, g, y, n, hy => by
    unfold mNewDict
    split
    · exact mNewDict_other x idn rest g y n hy
    · rw [mNewDict_other x idn rest _ y n hy]
      simp [hy]

theorem mNewDict_untouched (x : Nat) (idn : Option String) : ∀ (l : List AttrDecl) (g : Nat → String → Val) (n : String),
    (∀ a ∈ l, a.name ≠ n) → mNewDict x idn l g x n = g x n
  | [], _, _, _ => rfl
  | a :: rest, g, n, h => by
    unfold mNewDict
    split
    · exact mNewDict_untouched x idn rest g n (fun b hb => h b (List.mem_cons_of_mem _ hb))
    · rw [mNewDict_untouched x idn rest _ n (fun b hb => h b (List.mem_cons_of_mem _ hb))]
      have : a.name ≠ n := h a List.mem_cons_self
      simp [this.symm]

theorem mNewDict_value (x : Nat) (idn : Option String) : ∀ (l : List AttrDecl) (g : Nat → String → Val),
    (l.map (fun a => a.name)).Nodup → ∀ a ∈ l, a.referential = false → idn ≠ some a.name →
      mNewDict x idn l g x a.name = (defaultOf a.ty 0).1
  | [], _, _, a, ha, _, _ => by cases ha
  | b :: rest, g, hnd, a, ha, hnr, hid => by
    simp only [List.map_cons, List.nodup_cons] at hnd
    unfold mNewDict
    rcases List.mem_cons.1 ha with e | hab
    · subst e
      rw [if_neg (by simp [hnr, hid])]
      rw [mNewDict_untouched x idn rest _ a.name (fun c hc hcn => hnd.1 (List.mem_map.2 ⟨c, hc, hcn⟩))]
      simp
    · split
      · exact mNewDict_value x idn rest g hnd.2 a hab hnr hid
      · exact mNewDict_value x idn rest _ hnd.2 a hab hnr hid

/-- **new with attributes**: the new instance gets the same defaults on both sides — the id attribute the next id of
    the (equal) generators, every plain attribute the default of its type — and nothing else changes.
    Guard: the kind is known to the Spec context, declared consistently, and `hasId` says whether it has an id attribute. -/
theorem new_refinesA (hk : Function.Injective kname) (kinds : List Nat)
    (R : RefinesA kname decl at_ sch ι s d st) (A : Pyx.Meta.AllInv sch s) (k : Nat) (hkin : k ∈ kinds)
    (D : DeclOk decl at_ sch k) (hasId : Bool) (hhas : hasId = (at_.idName k).isSome) :
    ∃ st', newInst (ctxOfA kname decl kinds sch) (kname k) st = .ok (⟨kname k, st.next (kname k)⟩, st') ∧
      RefinesA kname decl at_ sch (extend ι s.count ⟨kname k, st.next (kname k)⟩) (Pyx.Meta.new s k hasId).1
        ⟨mNewDict s.count (at_.idName k) (decl k) d.vals⟩ st' := by
  obtain ⟨st0, h0, R0⟩ := new_refines hk kinds sch R.store A k hkin hasId
  let i0 : Inst := ⟨kname k, st.next (kname k)⟩
  have hone : ((decl k).filter isGenId).length ≤ 1 := by
    have := D.idCount
    unfold isGenId
    split at this <;> omega
  refine ⟨{ st with live := upd st.live (kname k) (st.live (kname k) ++ [st.next (kname k)]),
                     next := upd st.next (kname k) (st.next (kname k) + 1),
                     attr := (initAttrs i0 (decl k) (st.attr, st.nextId)).1,
                     nextId := (initAttrs i0 (decl k) (st.attr, st.nextId)).2 }, ?_, ?_⟩
  · unfold newInst
    rw [findClass_ctxOfA hk decl sch k kinds hkin]
  · have hst0 : st0 = { st with live := upd st.live (kname k) (st.live (kname k) ++ [st.next (kname k)]),
                                 next := upd st.next (kname k) (st.next (kname k) + 1) } := by
      obtain ⟨c, hc, hca⟩ := findClass_ctxOf kname sch k kinds hkin
      unfold newInst at h0
      rw [hc] at h0
      simp only [hca, initAttrs, Except.ok.injEq, Prod.mk.injEq, true_and] at h0
      exact h0.symm
    have hold : ∀ z, z < s.count → extend ι s.count i0 z = ι z := fun z hz => extend_old (Nat.ne_of_lt hz)
    have hfresh : ∀ z, z < s.count → ι z ≠ i0 := by
      intro z hz e
      have hb := R.store.below z hz
      rw [e] at hb
      exact Nat.lt_irrefl _ hb
    have hkindNew : (Pyx.Meta.new s k hasId).1.kindOf s.count = k := by
      show Pyx.Meta.upd s.kindOf s.count k s.count = k
      exact Pyx.Meta.upd_same _ _ _
    have hkindOld : ∀ z, z < s.count → (Pyx.Meta.new s k hasId).1.kindOf z = s.kindOf z := by
      intro z hz
      show Pyx.Meta.upd s.kindOf s.count k z = s.kindOf z
      exact Pyx.Meta.upd_other _ _ (Nat.ne_of_lt hz)
    refine ⟨?_, ?_, ?_, ?_⟩
    · rw [hst0] at R0
      exact refines_store_congr R0 rfl rfl rfl
    · -- id values
      intro y hy n hn
      have hy' : y < s.count + 1 := hy
      show (initAttrs i0 (decl k) (st.attr, st.nextId)).1 (extend ι s.count i0 y) n = .int ((Pyx.Meta.new s k hasId).1.idOf y)
      by_cases hyc : y = s.count
      · subst hyc
        rw [extend_new]
        rw [hkindNew] at hn
        obtain ⟨a, ha, han, hat, hanr⟩ := D.idDecl n hn
        have hv := initAttrs_value i0 (decl k) st.attr st.nextId D.nodup hone a ha hanr
        rw [han, hat] at hv
        simp only [if_true] at hv
        rw [hv]
        show Val.int st.nextId = Val.int ((Pyx.Meta.upd s.idOf s.count (if hasId then s.nextId else 0) s.count : Nat) : Int)
        rw [Pyx.Meta.upd_same, hhas, hn, R.nextId]
        rfl
      · have hy'' : y < s.count := by omega
        rw [hold y hy'', initAttrs_other i0 _ _ _ _ _ (hfresh y hy'')]
        rw [hkindOld y hy''] at hn
        rw [R.idv y hy'' n hn]
        show Val.int (s.idOf y) = Val.int ((Pyx.Meta.upd s.idOf s.count _ y : Nat) : Int)
        rw [Pyx.Meta.upd_other _ _ hyc]
    · -- plain values
      intro y hy n hn hdn
      have hy' : y < s.count + 1 := hy
      show (initAttrs i0 (decl k) (st.attr, st.nextId)).1 (extend ι s.count i0 y) n = mNewDict s.count (at_.idName k) (decl k) d.vals y n
      by_cases hyc : y = s.count
      · subst hyc
        rw [extend_new]
        rw [hkindNew] at hn hdn
        obtain ⟨a, ha, han⟩ := hdn
        have hanr : a.referential = false := by
          cases hr : a.referential
          · rfl
          · have := (D.refs a ha).1 hr
            rw [han] at this
            exact absurd hn.1 this
        have hidn : at_.idName k ≠ some a.name := by rw [han]; exact hn.2
        have hau : a.ty ≠ .uniqueId := fun hu => hidn (D.oneId a ha hanr hu)
        have hv := initAttrs_value i0 (decl k) st.attr st.nextId D.nodup hone a ha hanr
        rw [han] at hv
        rw [hv, if_neg hau]
        have hm := mNewDict_value s.count (at_.idName k) (decl k) d.vals D.nodup a ha hanr hidn
        rw [han] at hm
        rw [hm]
      · have hy'' : y < s.count := by omega
        rw [hold y hy'', initAttrs_other i0 _ _ _ _ _ (hfresh y hy''), mNewDict_other _ _ _ _ _ _ hyc]
        rw [hkindOld y hy''] at hn hdn
        exact R.plain y hy'' n hn hdn
    · -- the id generators
      show (initAttrs i0 (decl k) (st.attr, st.nextId)).2 = (((Pyx.Meta.new s k hasId).1.nextId : Nat) : Int)
      rw [initAttrs_nid, R.nextId]
      have hc : ((decl k).filter isGenId).length = if (at_.idName k).isSome then 1 else 0 := D.idCount
      rw [hc]
      show _ = (((if hasId then s.nextId + 1 else s.nextId) : Nat) : Int)
      rw [hhas]
      cases (at_.idName k).isSome <;> simp

/-! ### the store operations keep the attribute correspondence -/

theorem refinesA_of_store {s' : MState} {st' : State} (R : RefinesA kname decl at_ sch ι s d st)
    (R' : Refines kname ι s' st') (h1 : s'.kindOf = s.kindOf) (h2 : s'.count = s.count) (h3 : s'.idOf = s.idOf)
    (h4 : s'.nextId = s.nextId) (h5 : st'.attr = st.attr) (h6 : st'.nextId = st.nextId) :
    RefinesA kname decl at_ sch ι s' d st' := by
  refine ⟨R', ?_, ?_, by rw [h6, h4]; exact R.nextId⟩
  · intro x hx n hn
    rw [h2] at hx; rw [h1] at hn
    rw [h5, h3]; exact R.idv x hx n hn
  · intro x hx n hn hdn
    rw [h2] at hx; rw [h1] at hn hdn
    rw [h5]; exact R.plain x hx n hn hdn

theorem relate_frame_spec {C : Ctx} {x y : Inst} {r p : String} {st st' : State} (h : relate C x y r p st = .ok st') :
    st'.attr = st.attr ∧ st'.nextId = st.nextId := by
  unfold relate at h
  split at h
  · split at h
    · cases h
    · simp only at h
      split at h
      · cases h; exact ⟨rfl, rfl⟩
      · split at h
        · cases h
        · cases h; exact ⟨rfl, rfl⟩
  · cases h

theorem unrelate_frame_spec {C : Ctx} {x y : Inst} {r p : String} {st st' : State} (h : unrelate C x y r p st = .ok st') :
    st'.attr = st.attr ∧ st'.nextId = st.nextId := by
  unfold unrelate at h
  split at h
  · split at h
    · cases h
    · simp only at h
      split at h
      · cases h; exact ⟨rfl, rfl⟩
      · cases h
  · cases h

theorem deleteInst_frame_spec {i : Inst} {st st' : State} (h : deleteInst i st = .ok st') :
    st'.attr = st.attr ∧ st'.nextId = st.nextId := by
  unfold deleteInst at h
  split at h
  · cases h; exact ⟨rfl, rfl⟩
  · cases h

theorem relate_nextId (sch : MSchema) (s : MState) (x y : Nat) (r p : String) :
    (Pyx.Meta.relate sch s x y r p).1.nextId = s.nextId := by
  unfold Pyx.Meta.relate; split
  · rfl
  · split <;> rfl

theorem unrelate_nextId (sch : MSchema) (s : MState) (x y : Nat) (r p : String) :
    (Pyx.Meta.unrelate sch s x y r p).1.nextId = s.nextId := by
  unfold Pyx.Meta.unrelate; split <;> rfl

theorem unrelateAll_nextId (sch : MSchema) (x : Nat) (r p : String) : ∀ (ys : List Nat) (s : MState),
    (Pyx.Meta.unrelateAll sch x r p ys s).1.nextId = s.nextId
  | [], _ => rfl
  | y :: ys, s => by
    rw [Pyx.Meta.unrelateAll]
    by_cases hc : (Pyx.Meta.unrelate sch s x y r p).2 = .ok
    · simp only [hc, ↓reduceIte]
      rw [unrelateAll_nextId sch x r p ys _, unrelate_nextId]
    · simp only [hc, ↓reduceIte]; exact unrelate_nextId sch s x y r p

theorem deleteLinks_nextId (sch : MSchema) (x : Nat) : ∀ (ls : List (Nat × Bool × String)) (s : MState),
    (Pyx.Meta.deleteLinks sch x ls s).1.nextId = s.nextId
  | [], _ => rfl
  | (i, isSrc, ph) :: rest, s => by
    rw [Pyx.Meta.deleteLinks]
    by_cases hc : (Pyx.Meta.unrelateAll sch x (Pyx.Meta.specAt sch i).rel ph
        (if isSrc then (s.links i).src x else (s.links i).tgt x) s).2 = .ok
    · simp only [hc, ↓reduceIte]
      rw [deleteLinks_nextId sch x rest _, unrelateAll_nextId]
    · simp only [hc, ↓reduceIte]; exact unrelateAll_nextId sch x _ ph _ s

theorem delete_frame_all (sch : MSchema) (s : MState) (x : Nat) :
    (Pyx.Meta.delete sch s x).1.kindOf = s.kindOf ∧ (Pyx.Meta.delete sch s x).1.count = s.count ∧
    (Pyx.Meta.delete sch s x).1.idOf = s.idOf ∧ (Pyx.Meta.delete sch s x).1.nextId = s.nextId := by
  unfold Pyx.Meta.delete
  split
  · have hf := Pyx.Meta.deleteLinks_frame sch x (Pyx.Meta.linksOf sch (s.kindOf x))
      { s with pool := Pyx.Meta.upd s.pool (s.kindOf x) ((s.pool (s.kindOf x)).erase x) }
    exact ⟨hf.2.1, hf.2.2.1, hf.2.2.2, deleteLinks_nextId sch x _ _⟩
  · exact ⟨rfl, rfl, rfl, rfl⟩

/-! ### histories with attribute writes -/

inductive AOp where
  | store (op : Pyx.Meta.Op)
  | set (x : Nat) (name : String) (v : Val)

/-- the mechanism: the store operation on `Pyx.Meta.State` (new also fills the new instance's dict), `setattr` -/
def mStepA (decl : Nat → List AttrDecl) (at_ : Pyx.Meta.Attrs) (sch : MSchema) (s : MState) (d : MDict) : AOp → MState × MDict
  | .store (.new k h) => ((Pyx.Meta.new s k h).1, ⟨mNewDict s.count (at_.idName k) (decl k) d.vals⟩)
  | .store op => ((Pyx.Meta.step sch s op).1, d)
  | .set x name v =>
    match mSet sch at_ s d x name v with
    | some r => r
    | none => (s, d)

def specStepA (kname : Nat → String) (C : Ctx) (ι : Nat → Inst) (s : MState) (st : State) : AOp → (Nat → Inst) × State
  | .store op => specStep kname C ι s st op
  | .set x name v =>
    match setAttr C (ι x) name v st with
    | .ok st' => (ι, st')
    | .error _ => (ι, st)

/-- the domain: a store operation as in `OpOk'` (new on a consistently declared kind); a write to a live instance of a
    known kind, of a declared attribute that is either referential (rejected on both sides), or plain with a value of
    the declared type, or the class's own id attribute with a non-negative integer (the model keeps ids as `Nat`) -/
def OpOkA (decl : Nat → List AttrDecl) (at_ : Pyx.Meta.Attrs) (sch : MSchema) (kinds : List Nat) (s : MState) : AOp → Prop
  | .store (.new k h) => k ∈ kinds ∧ DeclOk decl at_ sch k ∧ h = (at_.idName k).isSome
  | .store op => OpOk' kinds s op
  | .set x name v => Pyx.Meta.live s x ∧ s.kindOf x ∈ kinds ∧
      ∃ a, (decl (s.kindOf x)).find? (fun a => a.name = name) = some a ∧
        ((a.referential = true ∧ Pyx.Meta.formalFrom (s.kindOf x) name 0 sch ≠ []) ∨
         (a.referential = false ∧ isPlain sch at_ (s.kindOf x) name ∧ tyMatches a.ty v = true) ∨
         (a.referential = false ∧ Pyx.Meta.formalFrom (s.kindOf x) name 0 sch = [] ∧
            at_.idName (s.kindOf x) = some name ∧ tyMatches a.ty v = true ∧ ∃ i : Int, v = .int i ∧ 0 ≤ i))

theorem opOk'_of_opOkA {kinds : List Nat} {s : MState} {op : Pyx.Meta.Op}
    (h : OpOkA decl at_ sch kinds s (.store op)) : OpOk' kinds s op := by
  cases op with
  | new k hh => exact h.1
  | relate x y r p => exact h
  | unrelate x y r p => exact h
  | delete x => exact h

theorem mStepA_store_fst (s : MState) (d : MDict) (op : Pyx.Meta.Op) :
    (mStepA decl at_ sch s d (.store op)).1 = (Pyx.Meta.step sch s op).1 := by
  cases op <;> rfl

theorem stepA_refines (hk : Function.Injective kname) (kinds : List Nat) (hok : Pyx.Meta.SchemaOk sch)
    (R : RefinesA kname decl at_ sch ι s d st) (A : Pyx.Meta.AllInv sch s) (op : AOp)
    (hop : OpOkA decl at_ sch kinds s op) :
    RefinesA kname decl at_ sch (specStepA kname (ctxOfA kname decl kinds sch) ι s st op).1
      (mStepA decl at_ sch s d op).1 (mStepA decl at_ sch s d op).2
      (specStepA kname (ctxOfA kname decl kinds sch) ι s st op).2 := by
  have hass : (ctxOfA kname decl kinds sch).assocs = (ctxOf kname kinds sch).assocs := rfl
  cases op with
  | set x name v =>
    obtain ⟨hx, hkin, a, hfa, hcase⟩ := hop
    rcases hcase with ⟨hr, hform⟩ | ⟨hnr, hpl, hty⟩ | ⟨hnr, hform, hid, hty, i, rfl, hi⟩
    · obtain ⟨⟨e, he⟩, hm⟩ := write_ref hk kinds R A hx hkin v hfa hr hform
      simp only [specStepA, mStepA, he, hm]
      exact R
    · obtain ⟨st', d', h1, h2, h3⟩ := write_plain hk kinds R A hx hkin hfa hnr hty hpl
      simp only [specStepA, mStepA, h1, h2]
      exact h3
    · obtain ⟨st', h1, h2, h3⟩ := write_id hk kinds R A hx hkin hfa hnr hty hform hid hi
      simp only [specStepA, mStepA, h1, h2]
      exact h3
  | store op =>
    cases op with
    | new k hasId =>
      obtain ⟨hkin, D, hhas⟩ := hop
      obtain ⟨st', h1, h2⟩ := new_refinesA hk kinds R A k hkin D hasId hhas
      simp only [specStepA, specStep, mStepA, h1]
      exact h2
    | relate x y r p =>
      have hop' : x < s.count ∧ y < s.count := hop
      have h := relate_refines' hk kinds sch R.store A hop'.1 hop'.2 r p
      simp only [specStepA, specStep, mStepA, Pyx.Meta.step]
      rw [relate_assocs hass]
      by_cases hc : (Pyx.Meta.relate sch s x y r p).2 = .ok
      · obtain ⟨st', h1, h2⟩ := h.1 hc
        rw [h1]
        have hf := Pyx.Meta.relate_frame sch s x y r p
        have hs := relate_frame_spec h1
        exact refinesA_of_store R h2 hf.2.1 hf.2.2.1 hf.2.2.2 (relate_nextId sch s x y r p) hs.1 hs.2
      · obtain ⟨h1, e, h2⟩ := h.2 hc
        rw [h2, h1]; exact R
    | unrelate x y r p =>
      have hop' : x < s.count ∧ y < s.count := hop
      have h := unrelate_refines hk kinds sch R.store A hop'.1 hop'.2 r p
      simp only [specStepA, specStep, mStepA, Pyx.Meta.step]
      rw [unrelate_assocs hass]
      by_cases hc : (Pyx.Meta.unrelate sch s x y r p).2 = .ok
      · obtain ⟨st', h1, h2⟩ := h.1 hc
        rw [h1]
        have hf := Pyx.Meta.unrelate_frame sch s x y r p
        have hs := unrelate_frame_spec h1
        exact refinesA_of_store R h2 hf.2.1 hf.2.2.1 hf.2.2.2 (unrelate_nextId sch s x y r p) hs.1 hs.2
      · obtain ⟨h1, e, h2⟩ := h.2 hc
        rw [h2, h1]; exact R
    | delete x =>
      have hop' : x < s.count := hop
      have h := delete_refines hk hok R.store A hop'
      simp only [specStepA, specStep, mStepA, Pyx.Meta.step]
      by_cases hc : (Pyx.Meta.delete sch s x).2 = .ok
      · obtain ⟨st', h1, h2⟩ := h.1 hc
        rw [h1]
        have hf := delete_frame_all sch s x
        have hs := deleteInst_frame_spec h1
        exact refinesA_of_store R h2 hf.1 hf.2.1 hf.2.2.1 hf.2.2.2 hs.1 hs.2
      · obtain ⟨h1, e, h2⟩ := h.2 hc
        rw [h2, h1]; exact R

def DomA (decl : Nat → List AttrDecl) (at_ : Pyx.Meta.Attrs) (sch : MSchema) (kinds : List Nat) :
    MState → MDict → List AOp → Prop
  | _, _, [] => True
  | s, d, op :: ops => OpOkA decl at_ sch kinds s op ∧
      DomA decl at_ sch kinds (mStepA decl at_ sch s d op).1 (mStepA decl at_ sch s d op).2 ops

def mRunA (decl : Nat → List AttrDecl) (at_ : Pyx.Meta.Attrs) (sch : MSchema) : List AOp → MState → MDict → MState × MDict
  | [], s, d => (s, d)
  | op :: ops, s, d => mRunA decl at_ sch ops (mStepA decl at_ sch s d op).1 (mStepA decl at_ sch s d op).2

def specRunA (kname : Nat → String) (decl : Nat → List AttrDecl) (at_ : Pyx.Meta.Attrs) (C : Ctx) (sch : MSchema) :
    List AOp → MState → MDict → (Nat → Inst) → State → (Nat → Inst) × State
  | [], _, _, ι, st => (ι, st)
  | op :: ops, s, d, ι, st =>
    specRunA kname decl at_ C sch ops (mStepA decl at_ sch s d op).1 (mStepA decl at_ sch s d op).2
      (specStepA kname C ι s st op).1 (specStepA kname C ι s st op).2

theorem allInv_stepA (hok : Pyx.Meta.SchemaOk sch) (kinds : List Nat) (A : Pyx.Meta.AllInv sch s) (d : MDict) (op : AOp)
    (hop : OpOkA decl at_ sch kinds s op) :
    Pyx.Meta.AllInv sch (mStepA decl at_ sch s d op).1 := by
  cases op with
  | store op =>
    rw [mStepA_store_fst]
    exact Pyx.Meta.step_allInv' hok A op
  | set x name v =>
    obtain ⟨hx, hkin, a, hfa, hcase⟩ := hop
    rcases hcase with ⟨hr, hform⟩ | ⟨hnr, hpl, hty⟩ | ⟨hnr, hform, hid, hty, i, rfl, hi⟩
    · have : mSet sch at_ s d x name v = none := by unfold mSet; rw [if_pos hform]
      simp only [mStepA, this]; exact A
    · have : mSet sch at_ s d x name v = some (s, { vals := fun y n => if y = x ∧ n = name then v else d.vals y n }) := by
        unfold mSet; rw [if_neg (fun h => h hpl.1), if_neg hpl.2]
      simp only [mStepA, this]; exact A
    · have : mSet sch at_ s d x name (.int i) = some ({ s with idOf := Pyx.Meta.upd s.idOf x i.toNat }, d) := by
        unfold mSet; rw [if_neg (fun h => h hform), if_pos hid]; simp only [hi, if_true]
      simp only [mStepA, this]
      -- none of the invariants looks at `idOf`
      exact ⟨A.inv, A.typed, A.liveOnly, A.pool⟩

theorem runA_refines_from (hk : Function.Injective kname) (kinds : List Nat) (hok : Pyx.Meta.SchemaOk sch) :
    ∀ (ops : List AOp) (s : MState) (d : MDict) (ι : Nat → Inst) (st : State),
      RefinesA kname decl at_ sch ι s d st → Pyx.Meta.AllInv sch s → DomA decl at_ sch kinds s d ops →
      RefinesA kname decl at_ sch (specRunA kname decl at_ (ctxOfA kname decl kinds sch) sch ops s d ι st).1
        (mRunA decl at_ sch ops s d).1 (mRunA decl at_ sch ops s d).2
        (specRunA kname decl at_ (ctxOfA kname decl kinds sch) sch ops s d ι st).2
  | [], _, _, _, _, R, _, _ => R
  | op :: ops, s, d, ι, st, R, A, hd => by
    simp only [specRunA, mRunA]
    exact runA_refines_from hk kinds hok ops _ _ _ _ (stepA_refines hk kinds hok R A op hd.1)
      (allInv_stepA hok kinds A d op hd.1) hd.2

/-- **histories with attribute writes refine**: new (with defaults) / relate / unrelate / delete / `x.attr = v` in the
    domain, run by the mechanism and by Spec on the named instances, end in corresponding stores AND valuations -/
theorem attr_refines (hk : Function.Injective kname) (kinds : List Nat) (hok : Pyx.Meta.SchemaOk sch)
    (ι0 : Nat → Inst) (d0 : MDict) (ops : List AOp) (hd : DomA decl at_ sch kinds Pyx.Meta.init d0 ops) :
    RefinesA kname decl at_ sch (specRunA kname decl at_ (ctxOfA kname decl kinds sch) sch ops Pyx.Meta.init d0 ι0 initState).1
      (mRunA decl at_ sch ops Pyx.Meta.init d0).1 (mRunA decl at_ sch ops Pyx.Meta.init d0).2
      (specRunA kname decl at_ (ctxOfA kname decl kinds sch) sch ops Pyx.Meta.init d0 ι0 initState).2 :=
  runA_refines_from hk kinds hok ops _ _ _ _ (refinesA_init kname decl at_ sch ι0 d0) (Pyx.Meta.allInv_init sch) hd

end

end Pyx.Interp
