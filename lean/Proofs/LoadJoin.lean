import Proofs.Load

/-! Helper lemmas for C03, part 2: the key predicate, hash join = nested join, the index cache. -/

namespace Pyx.Load

/-- the guard of the join theorems: no attribute name is repeated inside a key list
    (with repeats `dict(zip(..))` collapses pairs and "corresponding" is ambiguous) -/
structure KeysOk (a : AssocStmt) : Prop where
  src : a.srcKeys.Nodup
  tgt : a.tgtKeys.Nodup

theorem mem_of_mem_zip_fst {α β : Type} {l1 : List α} {l2 : List β} {x : α}
    (h : x ∈ (l1.zip l2).map (·.1)) : x ∈ l1 := by
  simp only [List.mem_map] at h
  obtain ⟨p, hp, rfl⟩ := h
  exact (List.of_mem_zip hp).1

theorem mem_of_mem_zip_snd {α β : Type} {l1 : List α} {l2 : List β} {y : β}
    (h : y ∈ (l1.zip l2).map (·.2)) : y ∈ l2 := by
  simp only [List.mem_map] at h
  obtain ⟨p, hp, rfl⟩ := h
  exact (List.of_mem_zip hp).2

theorem zip_fst_nodup {α β : Type} (l1 : List α) (l2 : List β) (h : l1.Nodup) :
    ((l1.zip l2).map (·.1)).Nodup := by
  induction l1 generalizing l2 with
  | nil => simp
  | cons x xs ih =>
    cases l2 with
    | nil => simp
    | cons y ys =>
      simp only [List.zip_cons_cons, List.map_cons, List.nodup_cons]
      rw [List.nodup_cons] at h
      exact ⟨fun hm => h.1 (mem_of_mem_zip_fst hm), ih ys h.2⟩

theorem zip_snd_nodup {α β : Type} (l1 : List α) (l2 : List β) (h : l2.Nodup) :
    ((l1.zip l2).map (·.2)).Nodup := by
  induction l1 generalizing l2 with
  | nil => simp
  | cons x xs ih =>
    cases l2 with
    | nil => simp
    | cons y ys =>
      simp only [List.zip_cons_cons, List.map_cons, List.nodup_cons]
      rw [List.nodup_cons] at h
      exact ⟨fun hm => h.1 (mem_of_mem_zip_snd hm), ih ys h.2⟩

/-- the (referential attribute, identifying attribute) pairs of an association -/
def keyPairs (a : AssocStmt) : List (String × String) := a.srcKeys.zip a.tgtKeys

theorem keyMap_eq (a : AssocStmt) (h : a.srcKeys.Nodup) : keyMap a = keyPairs a :=
  dictOfPairs_eq_self _ (zip_fst_nodup _ _ h)

theorem keyNames_nodup (a : AssocStmt) (h : KeysOk a) : (keyNames a).Nodup := by
  unfold keyNames
  rw [keyMap_eq a h.src]
  exact zip_snd_nodup _ _ h.tgt

theorem matchesB_iff (a : AssocStmt) (s t : Row) :
    matchesB a s t = true ↔ ∀ p ∈ keyPairs a, isNull (s.get p.1) = false ∧ s.get p.1 = t.get p.2 := by
  unfold matchesB keyPairs
  simp only [List.all_eq_true, Bool.and_eq_true, Bool.not_eq_true', beq_iff_eq]

theorem lookupKey_none (a : AssocStmt) (h : KeysOk a) (s t : Row) (hk : lookupKey a s = none) :
    matchesB a s t = false := by
  unfold lookupKey at hk
  rw [keyMap_eq a h.src] at hk
  by_cases hn : (keyPairs a).any (fun p => isNull (s.get p.1))
  · simp only [List.any_eq_true] at hn
    obtain ⟨p, hp, hnull⟩ := hn
    cases hm : matchesB a s t with
    | false => rfl
    | true =>
      have := ((matchesB_iff a s t).mp hm p hp).1
      simp [hnull] at this
  · simp [hn] at hk

theorem lookupKey_some (a : AssocStmt) (h : KeysOk a) (s : Row) (k : Key) (hk : lookupKey a s = some k) :
    (∀ p ∈ keyPairs a, isNull (s.get p.1) = false) ∧ k = (keyPairs a).map (fun p => (p.2, s.get p.1)) := by
  unfold lookupKey at hk
  rw [keyMap_eq a h.src] at hk
  by_cases hn : (keyPairs a).any (fun p => isNull (s.get p.1))
  · simp [hn] at hk
  · simp only [hn, Bool.false_eq_true, if_false, Option.some.injEq] at hk
    constructor
    · intro p hp
      cases hq : isNull (s.get p.1) with
      | false => rfl
      | true =>
        exfalso
        apply hn
        simp only [List.any_eq_true]
        exact ⟨p, hp, hq⟩
    · rw [← hk]
      apply dictOfPairs_eq_self
      simp only [List.map_map]
      have : ((fun x : String × Val => x.1) ∘ fun p : String × String => (p.2, s.get p.1)) = (·.2) := by
        funext p; rfl
      rw [this]
      exact zip_snd_nodup _ _ h.tgt

theorem indexKey_eq (names : List String) (hn : names.Nodup) (t : Row) :
    indexKey names t = if names.any (fun n => isNull (t.get n)) then none
                       else some (names.map (fun n => (n, t.get n))) := by
  unfold indexKey
  by_cases h : names.any (fun n => isNull (t.get n))
  · simp [h]
  · simp only [h, Bool.false_eq_true, if_false, Option.some.injEq]
    apply dictOfPairs_eq_self
    simp only [List.map_map]
    have : ((fun x : String × Val => x.1) ∘ fun n : String => (n, t.get n)) = id := by
      funext n; rfl
    rw [this, List.map_id]
    exact hn

/-- the heart of `join_exact`: a target row is found under the lookup key of a source row exactly when the
    key predicate of the property holds; `names` is the key set the index was built for -/
theorem hit_eq_matchesB (a : AssocStmt) (h : KeysOk a) (names : List String) (hn : names.Nodup)
    (hset : ∀ x, x ∈ names ↔ x ∈ keyNames a) (s t : Row) (k : Key) (hk : lookupKey a s = some k) :
    hit names t k = matchesB a s t := by
  obtain ⟨hnn, rfl⟩ := lookupKey_some a h s k hk
  have hset' : ∀ x, x ∈ names ↔ ∃ p ∈ keyPairs a, p.2 = x := by
    intro x
    rw [hset x]
    unfold keyNames
    rw [keyMap_eq a h.src]
    simp only [List.mem_map]
  rw [Bool.eq_iff_iff]
  unfold hit
  rw [indexKey_eq names hn t]
  constructor
  · intro hh
    by_cases hnull : names.any (fun n => isNull (t.get n))
    · simp [hnull] at hh
    · simp only [hnull, Bool.false_eq_true, if_false] at hh
      rw [keyEq_iff] at hh
      rw [matchesB_iff]
      intro p hp
      refine ⟨hnn p hp, ?_⟩
      have hm : (p.2, s.get p.1) ∈ (keyPairs a).map (fun p => (p.2, s.get p.1)) :=
        List.mem_map.mpr ⟨p, hp, rfl⟩
      have := (hh _).mpr hm
      simp only [List.mem_map, Prod.mk.injEq] at this
      obtain ⟨n, _, hn1, hn2⟩ := this
      subst hn1
      exact hn2.symm
  · intro hm
    rw [matchesB_iff] at hm
    have hnull : ¬ names.any (fun n => isNull (t.get n)) = true := by
      simp only [List.any_eq_true, not_exists, not_and]
      intro n hnm
      obtain ⟨p, hp, rfl⟩ := (hset' n).mp hnm
      have := hm p hp
      rw [← this.2, this.1]
      simp
    simp only [hnull, Bool.false_eq_true, if_false]
    rw [keyEq_iff]
    intro x
    simp only [List.mem_map]
    constructor
    · rintro ⟨n, hnm, rfl⟩
      obtain ⟨p, hp, rfl⟩ := (hset' n).mp hnm
      exact ⟨p, hp, by rw [(hm p hp).2]⟩
    · rintro ⟨p, hp, rfl⟩
      exact ⟨p.2, (hset' p.2).mpr ⟨p, hp, rfl⟩, by rw [(hm p hp).2]⟩

/-- what `populate_connections` needs of an index: a lookup yields, in storage order, the positions of the
    rows carrying the key -/
def IndexSpec (idx : Index) (names : List String) (T : List Row) : Prop :=
  ∀ k, bucketOf idx k = selectIdx 0 T (fun t => hit names t k)

theorem indexSpec_mkIndex (names : List String) (T : List Row) : IndexSpec (mkIndex names T) names T :=
  fun k => bucketOf_mkIndex names T k

theorem partners_eq (a : AssocStmt) (h : KeysOk a) (idx : Index) (names : List String) (T : List Row)
    (hn : names.Nodup) (hset : ∀ x, x ∈ names ↔ x ∈ keyNames a) (hidx : IndexSpec idx names T) (s : Row) :
    partners a idx s = selectIdx 0 T (fun t => matchesB a s t) := by
  unfold partners
  cases hk : lookupKey a s with
  | none =>
    simp only
    rw [selectIdx_congr 0 T (fun t => matchesB a s t) (fun _ => false)
      (fun t _ => lookupKey_none a h s t hk), selectIdx_false]
  | some k =>
    simp only
    have := hidx k
    unfold bucketOf at this
    rw [selectIdx_congr 0 T _ (fun t => matchesB a s t)
      (fun t _ => hit_eq_matchesB a h names hn hset s t k hk)] at this
    cases hb : findBucket idx k with
    | none => simpa [hb] using this
    | some b => simpa [hb] using this

theorem Links.ext' {L1 L2 : Links} (hs : ∀ z, L1.src z = L2.src z) (ht : ∀ z, L1.tgt z = L2.tgt z) : L1 = L2 := by
  cases L1; cases L2
  simp only [Links.mk.injEq]
  exact ⟨funext hs, funext ht⟩

/-- any index meeting the specification makes the loader's join loop compute the nested-loop join -/
theorem joinWith_eq_nested (a : AssocStmt) (h : KeysOk a) (idx : Index) (names : List String) (S T : List Row)
    (hn : names.Nodup) (hset : ∀ x, x ∈ names ↔ x ∈ keyNames a) (hidx : IndexSpec idx names T) :
    joinWith a idx S = nestedJoin a S T := by
  have hp := partners_eq a h idx names T hn hset hidx
  apply Links.ext'
  · intro z
    unfold joinWith nestedJoin
    simp only [joinLoop_src, Links.empty]
    have hcongr : (enumFrom 0 S).filterMap (fun p => if z ∈ partners a idx p.2 then some p.1 else none)
        = selectIdx 0 S (fun s => decide (z ∈ partners a idx s)) := by
      unfold selectIdx
      induction enumFrom 0 S with
      | nil => rfl
      | cons p ps ih =>
        simp only [List.filterMap_cons, ih]
        by_cases hz : z ∈ partners a idx p.2 <;> simp [hz]
    rw [hcongr, osetAddAll_nil_nodup _ (selectIdx_nodup _ _ _)]
    cases hz : T[z]? with
    | none =>
      simp only
      rw [selectIdx_congr 0 S _ (fun _ => false), selectIdx_false]
      intro s _
      rw [hp s]
      simp only [decide_eq_false_iff_not, mem_selectIdx_zero, hz]
      rintro ⟨x, hx, _⟩
      cases hx
    | some t =>
      simp only
      show _ = selectIdx 0 S (fun s => matchesB a s t)
      apply selectIdx_congr
      intro s _
      rw [hp s, Bool.eq_iff_iff]
      simp only [decide_eq_true_eq, mem_selectIdx_zero, hz, Option.some.injEq]
      constructor
      · rintro ⟨x, rfl, hx⟩; exact hx
      · intro hx; exact ⟨t, rfl, hx⟩
  · intro z
    unfold joinWith nestedJoin
    simp only [joinLoop_tgt, Links.empty, flatMap_enumFrom_zero]
    cases hz : S[z]? with
    | none => simp [osetAddAll]
    | some s =>
      simp only
      rw [hp s, osetAddAll_nil_nodup _ (selectIdx_nodup _ _ _)]
      rfl

theorem hashJoin_eq_nested (a : AssocStmt) (h : KeysOk a) (S T : List Row) :
    hashJoin a S T = nestedJoin a S T :=
  joinWith_eq_nested a h _ (keyNames a) S T (keyNames_nodup a h) (fun _ => Iff.rfl) (indexSpec_mkIndex _ _)

/-! ### the index cache of `populate_connections` is transparent -/

theorem hit_congr_names (n1 n2 : List String) (h1 : n1.Nodup) (h2 : n2.Nodup) (hset : ∀ x, x ∈ n1 ↔ x ∈ n2)
    (t : Row) (k : Key) : hit n1 t k = hit n2 t k := by
  unfold hit
  rw [indexKey_eq n1 h1, indexKey_eq n2 h2]
  have hany : n1.any (fun n => isNull (t.get n)) = n2.any (fun n => isNull (t.get n)) := by
    rw [Bool.eq_iff_iff]
    simp only [List.any_eq_true]
    constructor
    · rintro ⟨x, hx, hq⟩; exact ⟨x, (hset x).mp hx, hq⟩
    · rintro ⟨x, hx, hq⟩; exact ⟨x, (hset x).mpr hx, hq⟩
  rw [hany]
  by_cases hq : n2.any (fun n => isNull (t.get n))
  · simp [hq]
  · simp only [hq, Bool.false_eq_true, if_false]
    apply keyEq_congr_left
    rw [keyEq_iff]
    intro x
    simp only [List.mem_map]
    constructor
    · rintro ⟨n, hn, rfl⟩; exact ⟨n, (hset n).mp hn, rfl⟩
    · rintro ⟨n, hn, rfl⟩; exact ⟨n, (hset n).mpr hn, rfl⟩

/-- every cached index is the index of its class's rows for its (duplicate-free) key set -/
def CacheOk (rows : String → List Row) (c : Cache) : Prop :=
  ∀ e ∈ c, e.1.2.Nodup ∧ IndexSpec e.2 e.1.2 (rows e.1.1)

theorem cacheFind_some {c : Cache} {kind : String} {names : List String} {idx : Index}
    (h : cacheFind c kind names = some idx) :
    ∃ e ∈ c, e.1.1 = kind ∧ (∀ x, x ∈ e.1.2 ↔ x ∈ names) ∧ e.2 = idx := by
  unfold cacheFind at h
  cases hf : c.find? (fun e => decide (e.1.1 = kind) && namesEq e.1.2 names) with
  | none => simp [hf] at h
  | some e =>
    simp only [hf, Option.some.injEq] at h
    have hm := List.mem_of_find?_eq_some hf
    have hp := List.find?_some hf
    simp only [Bool.and_eq_true, decide_eq_true_eq] at hp
    exact ⟨e, hm, hp.1, (namesEq_iff _ _).mp hp.2, h⟩

theorem connectAll_eq_nested (rows : String → List Row) (c : Cache) (as : List AssocStmt)
    (hc : CacheOk rows c) (hk : ∀ a ∈ as, KeysOk a) :
    connectAll rows c as = as.map (fun a => nestedJoin a (rows a.srcKind) (rows a.tgtKind)) := by
  induction as generalizing c with
  | nil => rfl
  | cons a rest ih =>
    have ha := hk a List.mem_cons_self
    have hrest : ∀ b ∈ rest, KeysOk b := fun b hb => hk b (List.mem_cons_of_mem _ hb)
    simp only [connectAll, List.map_cons]
    cases hf : cacheFind c a.tgtKind (keyNames a) with
    | some idx =>
      simp only
      obtain ⟨e, hm, hkind, hset, hidx⟩ := cacheFind_some hf
      obtain ⟨hnd, hspec⟩ := hc e hm
      rw [hkind, hidx] at hspec
      rw [joinWith_eq_nested a ha idx e.1.2 _ _ hnd hset hspec, ih c hc hrest]
    | none =>
      simp only
      rw [joinWith_eq_nested a ha _ (keyNames a) _ _ (keyNames_nodup a ha) (fun _ => Iff.rfl)
        (indexSpec_mkIndex _ _)]
      rw [ih _ _ hrest]
      intro e he
      simp only [List.mem_append, List.mem_singleton] at he
      rcases he with he | rfl
      · exact hc e he
      · exact ⟨keyNames_nodup a ha, indexSpec_mkIndex _ _⟩

end Pyx.Load
