import Proofs.RelateShape

/-!
  Addition to the C02 source tie: whole HISTORIES.  The invariants of C02 are stated about `run sch ops` (a fold of
  `step` over operations); here `step` and `run` are shown to be the generic interpretation of the generated IR
  (every `new` through `iNew newPhases`, every `relate` / `unrelate` through `iPair … relateProg / unrelateProg`,
  every `delete` through `iDelete … deleteBody` calling the interpreted `unrelate`).
-/
namespace Pyx.Shape
open Pyx.Meta Pyx.Gen.RelateShape

/-- one operation of a history, executed by the interpreter of the IR -/
def iStep (defs : List LinkDef) (body : List (BExp FindAtom × FindAct)) (els : Exc) (dbody : List DStmt)
    (rel unrel : PairProg) (phases : List NewPhase) (sch : Schema) (s : State) : Op → State × Out
  | .new k h => ((iNew phases s k h).1, .ok)
  | .relate x y r p => iPair defs body els dbody rel sch s x y r p
  | .unrelate x y r p => iPair defs body els dbody unrel sch s x y r p
  | .delete x => iDelete defs (iPair defs body els dbody unrel sch) sch x true dbody s

/-- a history: the state after each operation is handed to the next whatever the outcome was (an exception leaves
    the state it had reached) -/
def iRun (defs : List LinkDef) (body : List (BExp FindAtom × FindAct)) (els : Exc) (dbody : List DStmt)
    (rel unrel : PairProg) (phases : List NewPhase) (sch : Schema) (ops : List Op) : State :=
  ops.foldl (fun s op => (iStep defs body els dbody rel unrel phases sch s op).1) init

theorem step_eq (sch : Schema) (s : State) (op : Op) :
    step sch s op = iStep linkDefs findBody findElse deleteBody relateProg unrelateProg newPhases sch s op := by
  cases op with
  | new k h => simp only [step, iStep, new_eq]
  | relate x y r p => exact relate_eq sch s x y r p
  | unrelate x y r p => exact unrelate_eq sch s x y r p
  | delete x => exact delete_eq sch s x

theorem run_eq (sch : Schema) (ops : List Op) :
    run sch ops = iRun linkDefs findBody findElse deleteBody relateProg unrelateProg newPhases sch ops := by
  unfold run iRun
  congr 1
  funext s op
  rw [step_eq]

end Pyx.Shape
