import PyxModel.Prebuild.Chain

/-
  C06 helper lemmas: the chaining loops designate exactly the neighbour in source order.
-/
namespace Pyx.Prebuild

theorem refOf_cons_ne {a b x : Nat} {ls : List (Nat × Nat)} (h : a ≠ x) :
    refOf ((a, b) :: ls) x = refOf ls x := by
  unfold refOf
  simp [List.find?, beq_false_of_ne h]

theorem refOf_cons_eq {b x : Nat} {ls : List (Nat × Nat)} : refOf ((x, b) :: ls) x = some b := by
  unfold refOf
  simp [List.find?]

/-- holders of `chainLoop p xs` are elements of `xs` -/
theorem chainLoop_holder : ∀ (xs : List Nat) (p : Option Nat) (l : Nat × Nat), l ∈ chainLoop p xs → l.1 ∈ xs
  | [], p, l, h => by cases p <;> simp [chainLoop] at h
  | x :: xs, none, l, h => by
      simp only [chainLoop] at h
      exact List.mem_cons_of_mem _ (chainLoop_holder xs (some x) l h)
  | x :: xs, some q, l, h => by
      simp only [chainLoop, List.mem_cons] at h
      rcases h with rfl | h
      · exact List.mem_cons_self
      · exact List.mem_cons_of_mem _ (chainLoop_holder xs (some x) l h)

theorem refOf_not_holder {ls : List (Nat × Nat)} {x : Nat} (h : ∀ l ∈ ls, l.1 ≠ x) : refOf ls x = none := by
  unfold refOf
  have : ls.find? (fun l => l.1 == x) = none := by
    rw [List.find?_eq_none]
    intro l hl
    simpa using h l hl
  rw [this]

/-- the loop started with `p`: element i holds a reference to element i-1, element 0 to `p` -/
theorem chainLoop_ref : ∀ (xs : List Nat) (p : Option Nat), xs.Nodup → ∀ (i : Nat) (hi : i < xs.length),
    refOf (chainLoop p xs) xs[i] = (if i = 0 then p else xs[i-1]?)
  | [], _, _, i, hi => by simp at hi
  | x :: xs, p, hn, i, hi => by
      have hx : x ∉ xs := (List.nodup_cons.mp hn).1
      have hn' : xs.Nodup := (List.nodup_cons.mp hn).2
      have hnot : refOf (chainLoop (some x) xs) x = none :=
        refOf_not_holder (fun l hl he => hx (he ▸ chainLoop_holder xs (some x) l hl))
      cases i with
      | zero =>
        cases p with
        | none => simpa [chainLoop] using hnot
        | some q => simp [chainLoop, refOf_cons_eq]
      | succ j =>
        have hj : j < xs.length := by simpa using hi
        have hne : x ≠ xs[j] := fun he => hx (he ▸ List.getElem_mem hj)
        have ih := chainLoop_ref xs (some x) hn' j hj
        have hstep : refOf (chainLoop p (x :: xs)) xs[j] = refOf (chainLoop (some x) xs) xs[j] := by
          cases p with
          | none => simp [chainLoop]
          | some q => simp only [chainLoop]; exact refOf_cons_ne hne
        simp only [List.getElem_cons_succ, Nat.add_one_ne_zero, ↓reduceIte, Nat.add_sub_cancel]
        rw [hstep, ih]
        cases j with
        | zero => simp
        | succ k => simp

/-- R661: a statement's `Previous_Statement_ID` designates its predecessor in source order, none for the first -/
theorem prevStatement_spec (xs : List Nat) (hn : xs.Nodup) (i : Nat) (hi : i < xs.length) :
    prevStatement xs xs[i] = (if i = 0 then none else xs[i-1]?) :=
  chainLoop_ref xs none hn i hi

/-- R816 / R604: `Next_Value_ID` / `Next_Link_ID` designates the successor in source order, none for the last -/
theorem nextInChain_spec (xs : List Nat) (hn : xs.Nodup) (i : Nat) (hi : i < xs.length) :
    nextInChain xs xs[i] = xs[i+1]? := by
  unfold nextInChain
  have hr : xs.reverse.Nodup := (List.reverse_perm xs).nodup_iff.mpr hn
  have hlen : xs.reverse.length = xs.length := List.length_reverse
  have hj : xs.length - 1 - i < xs.reverse.length := by omega
  have hget : xs.reverse[xs.length - 1 - i] = xs[i] := by
    rw [List.getElem_reverse]; congr 1; omega
  have := chainLoop_ref xs.reverse none hr (xs.length - 1 - i) hj
  rw [hget] at this
  rw [this]
  by_cases hlast : i + 1 < xs.length
  · have h0 : xs.length - 1 - i ≠ 0 := by omega
    simp only [h0, ↓reduceIte]
    have hk : xs.length - 1 - i - 1 < xs.reverse.length := by omega
    rw [List.getElem?_eq_getElem hk, List.getElem_reverse, List.getElem?_eq_getElem hlast]
    congr 2; omega
  · have h0 : xs.length - 1 - i = 0 := by omega
    have : xs[i+1]? = none := List.getElem?_eq_none (by omega)
    simp [h0, this]

/-- holders of the forward loop are `p` or elements of `xs` except the last -/
theorem chainLoopFwd_ref : ∀ (xs : List Nat) (p : Nat), (p :: xs).Nodup → ∀ (i : Nat) (hi : i < (p :: xs).length),
    refOf (chainLoopFwd (some p) xs) (p :: xs)[i] = (p :: xs)[i+1]?
  | [], p, _, i, hi => by
      have : i = 0 := by simpa using hi
      subst this; simp [chainLoopFwd, refOf]
  | x :: xs, p, hn, i, hi => by
      have hp : p ∉ x :: xs := (List.nodup_cons.mp hn).1
      have hn' : (x :: xs).Nodup := (List.nodup_cons.mp hn).2
      cases i with
      | zero => simp [chainLoopFwd, refOf_cons_eq]
      | succ j =>
        have hj : j < (x :: xs).length := by simpa using hi
        have hne : p ≠ (x :: xs)[j] := fun he => hp (he ▸ List.getElem_mem hj)
        have ih := chainLoopFwd_ref xs x hn' j hj
        simp only [chainLoopFwd, List.getElem_cons_succ]
        rw [refOf_cons_ne hne, ih]
        simp

/-- R816 for event data: same specification -/
theorem nextEventDatum_spec (xs : List Nat) (hn : xs.Nodup) (i : Nat) (hi : i < xs.length) :
    nextEventDatum xs xs[i] = xs[i+1]? := by
  unfold nextEventDatum
  cases xs with
  | nil => simp at hi
  | cons p rest =>
    simp only [chainLoopFwd]
    exact chainLoopFwd_ref rest p hn i hi

end Pyx.Prebuild
