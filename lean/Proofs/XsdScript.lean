import Proofs.XsdComplete

/-!
  C20 — all XSD edits together, preservation of well-formedness, scripts.
-/

namespace Pyx.Extract

/-- when an XSD edit is applicable:
    * rename: the new name is not the name of another attribute of the class
    * retype (of a base / derived attribute): the old and the new data type have a base type name
    * add attribute: Attr_ID and name are new in the class and nothing refers to the new Attr_ID
    * add type: DT_ID and name are new and nothing refers to the new DT_ID -/
def XEditOk (d : ClassDiagram) : XEdit → Prop
  | .renameAttr c a new => ∀ kc, findClass d c = some kc → ∀ x ∈ kc.attrs, x.name = new → x.id = a
  | .retypeAttr c a dt => ∀ kc xa, findClass d c = some kc → kc.findAttr a = some xa →
      (∀ c' b, xa.kind ≠ .ref c' b) →
      (baseTypeName d.dts dt).isSome = true ∧ ((attrDt d xa).bind (baseTypeName d.dts)).isSome = true
  | .addAttr c x => FreshAttr d c x ∧
      ∀ kc, findClass d c = some kc → (∀ y ∈ kc.attrs, y.id ≠ x.id) ∧ (∀ y ∈ kc.attrs, y.name ≠ x.name)
  | .addType t => FreshType d t ∧ ∀ x ∈ d.dts, x.name ≠ t.name
  | _ => True

theorem xedit_commutes_all {d : ClassDiagram} (xwf : XWF d) (e : XEdit) (ok : XEditOk d e) (comp : Nat) :
    xsdSpec (applyXEdit e d) comp = specEdit (xresolve d comp e) (xsdSpec d comp) := by
  cases e with
  | renameAttr c a new => exact xrename_commutes xwf.wf c a new comp
  | retypeAttr c a dt => exact xretype_commutes xwf.wf c a dt comp ok
  | addAttr c x => exact xaddAttr_commutes xwf.wf c x comp ok.1
  | addEnum t name => exact xaddEnum_commutes xwf t name comp
  | permEnums t perm => exact xpermEnums_commutes xwf t perm comp
  | addType t => exact xaddType_commutes ok.1 comp
  | moveClass c p => exact xmoveClass_commutes xwf.wf c p comp

theorem applyXEdit_xwf {d : ClassDiagram} (xwf : XWF d) (e : XEdit) (ok : XEditOk d e) : XWF (applyXEdit e d) := by
  have wf := xwf.wf
  cases e with
  | renameAttr c a new =>
    exact ⟨applyEdit_wf wf (.renameAttr c a new) ok, xwf.dtIds, xwf.dtNames⟩
  | retypeAttr c a dt =>
    refine ⟨?_, xwf.dtIds, xwf.dtNames⟩
    show WF { d with classes := d.classes.map (rtG c a dt) }
    apply wf_mapClasses wf rtG_keepsId rtG_kl
    · intro k hk
      unfold rtG
      split
      · simp only [List.map_map]
        have : ((fun (x : Attr) => x.id) ∘ rtH a dt) = fun (x : Attr) => x.id := by funext x; exact rtH_id x
        rw [this]; exact wf.attrIds k hk
      · exact wf.attrIds k hk
    · intro k hk
      unfold rtG
      split
      · simp only [List.map_map]
        have : ((fun (x : Attr) => x.name) ∘ rtH a dt) = fun (x : Attr) => x.name := by funext x; exact rtH_name x
        rw [this]; exact wf.attrNames k hk
      · exact wf.attrNames k hk
  | addAttr c x =>
    refine ⟨?_, xwf.dtIds, xwf.dtNames⟩
    show WF { d with classes := d.classes.map (adG c x) }
    apply wf_mapClasses wf adG_keepsId adG_kl
    · intro k hk
      unfold adG
      split
      · rename_i hkc
        have hkc' : k.id = c := by simpa using hkc
        have hfc : findClass d c = some k := by rw [← hkc']; exact findClass_of_mem wf hk
        simp only [List.map_append, List.map_cons, List.map_nil]
        apply List.nodup_append.mpr
        refine ⟨wf.attrIds k hk, by simp, ?_⟩
        intro i hi j hj
        simp only [List.mem_cons, List.not_mem_nil, or_false] at hj
        subst hj
        obtain ⟨y, hy, rfl⟩ := List.mem_map.mp hi
        exact (ok.2 k hfc).1 y hy
      · exact wf.attrIds k hk
    · intro k hk
      unfold adG
      split
      · rename_i hkc
        have hkc' : k.id = c := by simpa using hkc
        have hfc : findClass d c = some k := by rw [← hkc']; exact findClass_of_mem wf hk
        simp only [List.map_append, List.map_cons, List.map_nil]
        apply List.nodup_append.mpr
        refine ⟨wf.attrNames k hk, by simp, ?_⟩
        intro i hi j hj
        simp only [List.mem_cons, List.not_mem_nil, or_false] at hj
        subst hj
        obtain ⟨y, hy, rfl⟩ := List.mem_map.mp hi
        exact (ok.2 k hfc).2 y hy
      · exact wf.attrNames k hk
  | addEnum t name =>
    refine ⟨⟨wf.clsIds, wf.kls, wf.attrIds, wf.attrNames, wf.relIds, wf.relNumbs⟩, ?_, ?_⟩
    · show ((d.dts.map (enG t (fun es => es ++ [name]))).map (·.id)).Nodup
      simp only [List.map_map]
      have : ((fun (x : DataType) => x.id) ∘ enG t (fun es => es ++ [name])) = fun x => x.id := by
        funext x; exact enG_id x
      rw [this]; exact xwf.dtIds
    · show ((d.dts.map (enG t (fun es => es ++ [name]))).map (·.name)).Nodup
      simp only [List.map_map]
      have : ((fun (x : DataType) => x.name) ∘ enG t (fun es => es ++ [name])) = fun x => x.name := by
        funext x; exact enG_name x
      rw [this]; exact xwf.dtNames
  | permEnums t perm =>
    refine ⟨⟨wf.clsIds, wf.kls, wf.attrIds, wf.attrNames, wf.relIds, wf.relNumbs⟩, ?_, ?_⟩
    · show ((d.dts.map (enG t (permute perm))).map (·.id)).Nodup
      simp only [List.map_map]
      have : ((fun (x : DataType) => x.id) ∘ enG t (permute perm)) = fun x => x.id := by
        funext x; exact enG_id x
      rw [this]; exact xwf.dtIds
    · show ((d.dts.map (enG t (permute perm))).map (·.name)).Nodup
      simp only [List.map_map]
      have : ((fun (x : DataType) => x.name) ∘ enG t (permute perm)) = fun x => x.name := by
        funext x; exact enG_name x
      rw [this]; exact xwf.dtNames
  | addType t =>
    refine ⟨⟨wf.clsIds, wf.kls, wf.attrIds, wf.attrNames, wf.relIds, wf.relNumbs⟩, ?_, ?_⟩
    · show ((d.dts ++ [t]).map (·.id)).Nodup
      simp only [List.map_append, List.map_cons, List.map_nil]
      apply List.nodup_append.mpr
      refine ⟨xwf.dtIds, by simp, ?_⟩
      intro i hi j hj
      simp only [List.mem_cons, List.not_mem_nil, or_false] at hj
      subst hj
      obtain ⟨y, hy, rfl⟩ := List.mem_map.mp hi
      exact ok.1.noDt y hy
    · show ((d.dts ++ [t]).map (·.name)).Nodup
      simp only [List.map_append, List.map_cons, List.map_nil]
      apply List.nodup_append.mpr
      refine ⟨xwf.dtNames, by simp, ?_⟩
      intro i hi j hj
      simp only [List.mem_cons, List.not_mem_nil, or_false] at hj
      subst hj
      obtain ⟨y, hy, rfl⟩ := List.mem_map.mp hi
      exact ok.2 y hy
  | moveClass c p =>
    exact ⟨applyEdit_wf wf (.moveClass c p) trivial, xwf.dtIds, xwf.dtNames⟩

def XScriptOk : ClassDiagram → List XEdit → Prop
  | _, [] => True
  | d, e :: es => XEditOk d e ∧ XScriptOk (applyXEdit e d) es

theorem xscript_commutes {d : ClassDiagram} (xwf : XWF d) (es : List XEdit) (ok : XScriptOk d es) (comp : Nat) :
    xsdSpec (applyXEdits es d) comp = specEdits (xresolveAll d comp es) (xsdSpec d comp) := by
  induction es generalizing d with
  | nil => rfl
  | cons e es ih =>
    show xsdSpec (applyXEdits es (applyXEdit e d)) comp =
      specEdits (xresolveAll (applyXEdit e d) comp es) (specEdit (xresolve d comp e) (xsdSpec d comp))
    rw [← xedit_commutes_all xwf e ok.1 comp]
    exact ih (applyXEdit_xwf xwf e ok.1) ok.2

end Pyx.Extract
