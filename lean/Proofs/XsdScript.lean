import Proofs.XsdComplete

/-!
  C20 — all XSD edits together, preservation of well-formedness, scripts.
-/

namespace Pyx.Extract

/-- when an XSD edit is applicable:
    * rename: the new name is not the name of another attribute of the class
    * retype (of a base / derived attribute): the old and the new data type have a base type name
    * add attribute: Attr_ID and name are new in the class and nothing refers to the new Attr_ID
    * add type: DT_ID and name are new and nothing refers to the new DT_ID
    * permute enumerators: the positions are a permutation of 0 … n-1 -/
def XEditOk (d : ClassDiagram) : XEdit → Prop
  | .renameAttr c a new => ∀ kc, findClass d c = some kc → ∀ x ∈ kc.attrs, x.name = new → x.id = a
  | .retypeAttr c a dt => ∀ kc xa, findClass d c = some kc → kc.findAttr a = some xa →
      (∀ c' b, xa.kind ≠ .ref c' b) →
      (baseTypeName d.dts dt).isSome = true ∧ ((attrDt d xa).bind (baseTypeName d.dts)).isSome = true
  | .addAttr c x => FreshAttr d c x ∧
      ∀ kc, findClass d c = some kc → (∀ y ∈ kc.attrs, y.id ≠ x.id) ∧ (∀ y ∈ kc.attrs, y.name ≠ x.name)
  | .addType t => FreshType d t ∧ ∀ x ∈ d.dts, x.name ≠ t.name
  | .permEnums t perm => ∀ x es, findDt d.dts t = some x → x.kind = .enum es → perm.Perm (List.range es.length)
  | _ => True

theorem chain_enG {dts : List DataType} {t : Nat} {F : List String → List String} (chain : DtChainOk dts) :
    DtChainOk (dts.map (enG t F)) := by
  obtain ⟨depth, hdec, hb⟩ := chain.ex
  refine ⟨depth, ?_, by intro i; rw [List.length_map]; exact hb i⟩
  intro x' hx' b hk
  obtain ⟨x, hx, rfl⟩ := List.mem_map.mp hx'
  rw [enG_id]
  obtain ⟨h1, h2, h3, h4⟩ := enG_kind_cases (t := t) (F := F) x
  cases hxk : x.kind with
  | core n => rw [h1 n hxk] at hk; cases hk
  | user b' => rw [h2 b' hxk] at hk; cases hk; exact hdec x hx _ hxk
  | other => rw [h3 hxk] at hk; cases hk
  | enum es => obtain ⟨es', he⟩ := h4 es hxk; rw [he] at hk; cases hk

theorem chain_addType {d : ClassDiagram} {t : DataType} (chain : DtChainOk d.dts) (fr : FreshType d t) :
    DtChainOk (d.dts ++ [t]) := by
  obtain ⟨depth, hdec, hb⟩ := chain.ex
  refine ⟨fun i => if i = t.id then (match t.kind with | .user b => depth b + 1 | _ => 0) else depth i, ?_, ?_⟩
  · intro x hx b hk
    rcases List.mem_append.mp hx with hx | hx
    · have h1 : x.id ≠ t.id := fr.noDt x hx
      have h2 : b ≠ t.id := by intro e; exact fr.noBase x hx (by rw [hk, e])
      simp only [h1, h2, if_false]
      exact hdec x hx b hk
    · simp only [List.mem_singleton] at hx
      subst hx
      have h2 : b ≠ x.id := by intro e; exact fr.noSelf (by rw [hk, e])
      simp only [h2, if_false, if_true, hk]
      omega
  · intro i
    rw [List.length_append, List.length_singleton]
    by_cases hi : i = t.id
    · simp only [hi, if_true]
      cases t.kind with
      | user b => have := hb b; simp only; omega
      | _ => simp
    · simp only [hi, if_false]
      have := hb i; omega

theorem xedit_commutes_all {d : ClassDiagram} (xwf : XWF d) (e : XEdit) (ok : XEditOk d e) (comp : Nat) :
    xsdSpec (applyXEdit e d) comp = specEdit (xresolve d comp e) (xsdSpec d comp) := by
  rw [xsdSpec_chained xwf.noLoose, xsdSpec_chained (by rw [applyXEdit_loose]; exact xwf.noLoose)]
  cases e with
  | renameAttr c a new => exact xrename_commutes xwf.wf c a new comp
  | retypeAttr c a dt => exact xretype_commutes xwf.wf c a dt comp ok
  | addAttr c x => exact xaddAttr_commutes xwf.wf c x comp ok.1
  | addEnum t name => exact xaddEnum_commutes xwf t name comp
  | permEnums t perm => exact xpermEnums_commutes xwf t perm comp
  | addType t => exact xaddType_commutes xwf.chain ok.1 comp
  | moveClass c p => exact xmoveClass_commutes xwf.wf c p comp

theorem applyXEdit_xwf {d : ClassDiagram} (xwf : XWF d) (e : XEdit) (ok : XEditOk d e) : XWF (applyXEdit e d) := by
  have wf := xwf.wf
  cases e with
  | renameAttr c a new =>
    exact ⟨applyEdit_wf wf (.renameAttr c a new) ok, xwf.dtIds, xwf.dtNames, xwf.tree, xwf.chain, xwf.noLoose⟩
  | retypeAttr c a dt =>
    refine ⟨?_, xwf.dtIds, xwf.dtNames, xwf.tree, xwf.chain, xwf.noLoose⟩
    show WF { d with classes := d.classes.map (rtG c a dt) }
    apply wf_mapClasses wf rtG_keepsId rtG_kl
    · intro k hk
      unfold rtG
      split
      · simp only [List.map_map]
        have : ((fun (x : Attr) => x.id) ∘ rtH a dt) = fun (x : Attr) => x.id := by funext x; exact rtH_id x
        rw [this]; exact wf.attrIds k hk
      · exact wf.attrIds k hk
    · intro k hk
      unfold rtG
      split
      · simp only [List.map_map]
        have : ((fun (x : Attr) => x.name) ∘ rtH a dt) = fun (x : Attr) => x.name := by funext x; exact rtH_name x
        rw [this]; exact wf.attrNames k hk
      · exact wf.attrNames k hk
  | addAttr c x =>
    refine ⟨?_, xwf.dtIds, xwf.dtNames, xwf.tree, xwf.chain, xwf.noLoose⟩
    show WF { d with classes := d.classes.map (adG c x) }
    apply wf_mapClasses wf adG_keepsId adG_kl
    · intro k hk
      unfold adG
      split
      · rename_i hkc
        have hkc' : k.id = c := by simpa using hkc
        have hfc : findClass d c = some k := by rw [← hkc']; exact findClass_of_mem wf hk
        simp only [List.map_append, List.map_cons, List.map_nil]
        apply List.nodup_append.mpr
        refine ⟨wf.attrIds k hk, by simp, ?_⟩
        intro i hi j hj
        simp only [List.mem_cons, List.not_mem_nil, or_false] at hj
        subst hj
        obtain ⟨y, hy, rfl⟩ := List.mem_map.mp hi
        exact (ok.2 k hfc).1 y hy
      · exact wf.attrIds k hk
    · intro k hk
      unfold adG
      split
      · rename_i hkc
        have hkc' : k.id = c := by simpa using hkc
        have hfc : findClass d c = some k := by rw [← hkc']; exact findClass_of_mem wf hk
        simp only [List.map_append, List.map_cons, List.map_nil]
        apply List.nodup_append.mpr
        refine ⟨wf.attrNames k hk, by simp, ?_⟩
        intro i hi j hj
        simp only [List.mem_cons, List.not_mem_nil, or_false] at hj
        subst hj
        obtain ⟨y, hy, rfl⟩ := List.mem_map.mp hi
        exact (ok.2 k hfc).2 y hy
      · exact wf.attrNames k hk
  | addEnum t name =>
    refine ⟨⟨wf.clsIds, wf.kls, wf.attrIds, wf.attrNames, wf.relIds, wf.relNumbs⟩, ?_, ?_, xwf.tree, chain_enG xwf.chain, xwf.noLoose⟩
    · show ((d.dts.map (enG t (fun es => es ++ [name]))).map (·.id)).Nodup
      simp only [List.map_map]
      have : ((fun (x : DataType) => x.id) ∘ enG t (fun es => es ++ [name])) = fun x => x.id := by
        funext x; exact enG_id x
      rw [this]; exact xwf.dtIds
    · show ((d.dts.map (enG t (fun es => es ++ [name]))).map (·.name)).Nodup
      simp only [List.map_map]
      have : ((fun (x : DataType) => x.name) ∘ enG t (fun es => es ++ [name])) = fun x => x.name := by
        funext x; exact enG_name x
      rw [this]; exact xwf.dtNames
  | permEnums t perm =>
    refine ⟨⟨wf.clsIds, wf.kls, wf.attrIds, wf.attrNames, wf.relIds, wf.relNumbs⟩, ?_, ?_, xwf.tree, chain_enG xwf.chain, xwf.noLoose⟩
    · show ((d.dts.map (enG t (permute perm))).map (·.id)).Nodup
      simp only [List.map_map]
      have : ((fun (x : DataType) => x.id) ∘ enG t (permute perm)) = fun x => x.id := by
        funext x; exact enG_id x
      rw [this]; exact xwf.dtIds
    · show ((d.dts.map (enG t (permute perm))).map (·.name)).Nodup
      simp only [List.map_map]
      have : ((fun (x : DataType) => x.name) ∘ enG t (permute perm)) = fun x => x.name := by
        funext x; exact enG_name x
      rw [this]; exact xwf.dtNames
  | addType t =>
    refine ⟨⟨wf.clsIds, wf.kls, wf.attrIds, wf.attrNames, wf.relIds, wf.relNumbs⟩, ?_, ?_, xwf.tree, chain_addType xwf.chain ok.1, xwf.noLoose⟩
    · show ((d.dts ++ [t]).map (·.id)).Nodup
      simp only [List.map_append, List.map_cons, List.map_nil]
      apply List.nodup_append.mpr
      refine ⟨xwf.dtIds, by simp, ?_⟩
      intro i hi j hj
      simp only [List.mem_cons, List.not_mem_nil, or_false] at hj
      subst hj
      obtain ⟨y, hy, rfl⟩ := List.mem_map.mp hi
      exact ok.1.noDt y hy
    · show ((d.dts ++ [t]).map (·.name)).Nodup
      simp only [List.map_append, List.map_cons, List.map_nil]
      apply List.nodup_append.mpr
      refine ⟨xwf.dtNames, by simp, ?_⟩
      intro i hi j hj
      simp only [List.mem_cons, List.not_mem_nil, or_false] at hj
      subst hj
      obtain ⟨y, hy, rfl⟩ := List.mem_map.mp hi
      exact ok.2 y hy
  | moveClass c p =>
    exact ⟨applyEdit_wf wf (.moveClass c p) trivial, xwf.dtIds, xwf.dtNames, xwf.tree, xwf.chain, xwf.noLoose⟩

def XScriptOk : ClassDiagram → List XEdit → Prop
  | _, [] => True
  | d, e :: es => XEditOk d e ∧ XScriptOk (applyXEdit e d) es

theorem xscript_commutes {d : ClassDiagram} (xwf : XWF d) (es : List XEdit) (ok : XScriptOk d es) (comp : Nat) :
    xsdSpec (applyXEdits es d) comp = specEdits (xresolveAll d comp es) (xsdSpec d comp) := by
  induction es generalizing d with
  | nil => rfl
  | cons e es ih =>
    show xsdSpec (applyXEdits es (applyXEdit e d)) comp =
      specEdits (xresolveAll (applyXEdit e d) comp es) (specEdit (xresolve d comp e) (xsdSpec d comp))
    rw [← xedit_commutes_all xwf e ok.1 comp]
    exact ih (applyXEdit_xwf xwf e ok.1) ok.2

end Pyx.Extract
