import Proofs.SqlSort
import Proofs.SqlLinks

set_option linter.unusedSimpArgs false

/-! model-level text fixed point: the reloaded metamodel reloads to itself, so the text written from it is reproduced
    exactly by one more round -/
namespace Pyx.Sql
open Gen.Persist (Ty)

/-! ### canonicalisation is idempotent (core type names) -/

theorem upper_of_tyOfName (u : UC) (ty : Name) (t : Ty) (h : tyOfName u ty = some t) : u.upper ty = t.chars := by
  have := List.find?_some h
  have h2 : t.chars = u.upper ty := by simpa using this
  exact h2.symm

theorem upper_upper_of_core (u : UC) (ty : Name) (h : (tyOfName u ty).isSome = true) : u.upper (u.upper ty) = u.upper ty := by
  cases ht : tyOfName u ty with
  | none => rw [ht] at h; simp at h
  | some t =>
    rw [upper_of_tyOfName u ty t ht]
    exact upper_of_tyOfName u t.chars t (tyOfName_chars u t)

theorem upAttrs_idem (u : UC) (attrs : List (Name × Name)) (h : ∀ a ∈ attrs, (tyOfName u a.2).isSome = true) :
    upAttrs u (upAttrs u attrs) = upAttrs u attrs := by
  simp only [upAttrs, List.map_map]
  apply List.map_congr_left
  intro a ha
  simp only [Function.comp, upper_upper_of_core u a.2 (h a ha)]

theorem canonVal_idem_core (u : UC) (ty : Name) (h : (tyOfName u ty).isSome = true) (v : Option Val) :
    canonVal u (u.upper ty) (canonVal u ty v) = canonVal u ty v := by
  cases ht : tyOfName u ty with
  | none => rw [ht] at h; simp at h
  | some t =>
    simp only [canonVal, tyOfName_upper_of_some u ty t ht, ht]
    exact resolveVal_idem t v

theorem canonVals_idem_core (u : UC) : ∀ (attrs : List (Name × Name)) (vals : List (Option Val)),
    (∀ a ∈ attrs, (tyOfName u a.2).isSome = true) →
    canonVals u (upAttrs u attrs) (canonVals u attrs vals) = canonVals u attrs vals := by
  intro attrs
  induction attrs with
  | nil => intro vals _; cases vals <;> rfl
  | cons a attrs ih =>
    intro vals h
    cases vals with
    | nil => rfl
    | cons v vs =>
      simp only [upAttrs, List.map_cons, canonVals, canonVal_idem_core u a.2 (h a (by simp)) v]
      exact congrArg _ (ih vs (fun a ha => h a (by simp [ha])))

theorem canonClass_idem_core (u : UC) (c : ClassM) (h : ∀ a ∈ c.attrs, (tyOfName u a.2).isSome = true) :
    canonClass u (canonClass u c) = canonClass u c := by
  simp only [canonClass, upAttrs_idem u c.attrs h, List.map_map, ClassM.mk.injEq, true_and]
  apply List.map_congr_left
  intro r _
  exact canonVals_idem_core u c.attrs r h

/-! ### the reloaded metamodel reloads to itself -/

def classLe (u : UC) (a b : ClassM) : Bool := textLe (u.upper a.kind) (u.upper b.kind)

theorem classLe_preorder (u : UC) : TotalPreorder (classLe u) :=
  preorder_comap textLe textLe_preorder (fun c : ClassM => u.upper c.kind)

theorem sortedClasses_reloaded (u : UC) (m : MM) (A : List AssocM) :
    (m.reloaded u A).sortedClasses u = (m.sortedClasses u).map (canonClass u) := by
  unfold MM.sortedClasses MM.reloaded
  simp only
  apply sortBy_of_sorted
  exact sorted_map (classLe u) _ (canonClass u) (fun a b => rfl) _ (sortBy_sorted (classLe u) (classLe_preorder u) m.classes)

theorem assocsByIdKind_idem (m : MM) : (⟨m.classes, m.assocsByIdKind⟩ : MM).assocsByIdKind = m.assocsByIdKind := by
  unfold MM.assocsByIdKind
  exact sortBy_idem _ (preorder_comap pairLe pairLe_preorder (fun a : AssocM => (a.relId, a.src.kind))) m.assocs

theorem assocsById_idem (m : MM) : (⟨m.classes, m.assocsById⟩ : MM).assocsById = m.assocsById := by
  unfold MM.assocsById
  exact sortBy_idem _ (preorder_comap textLe textLe_preorder (fun a : AssocM => a.relId)) m.assocs

/-- reloading the reloaded metamodel through `serialize_database` gives the same metamodel -/
theorem reloaded_reloaded_byIdKind (u : UC) (m : MM) (hm : m.Closed u) :
    (m.reloaded u m.assocsByIdKind).reloaded u (m.reloaded u m.assocsByIdKind).assocsByIdKind = m.reloaded u m.assocsByIdKind := by
  have hA : (m.reloaded u m.assocsByIdKind).assocsByIdKind = m.assocsByIdKind := by
    have := assocsByIdKind_idem m
    simpa [MM.assocsByIdKind, MM.reloaded] using this
  rw [hA]
  unfold MM.reloaded
  simp only [MM.mk.injEq, and_true]
  have hs := sortedClasses_reloaded u m m.assocsByIdKind
  unfold MM.reloaded at hs
  rw [hs, List.map_map]
  apply List.map_congr_left
  intro c hc
  exact canonClass_idem_core u c (hm.types c ((mem_sortBy _ _ _).mp hc))

theorem reloaded_reloaded_byId (u : UC) (m : MM) (hm : m.Closed u) :
    (m.reloaded u m.assocsById).reloaded u (m.reloaded u m.assocsById).assocsById = m.reloaded u m.assocsById := by
  have hA : (m.reloaded u m.assocsById).assocsById = m.assocsById := by
    have := assocsById_idem m
    simpa [MM.assocsById, MM.reloaded] using this
  rw [hA]
  unfold MM.reloaded
  simp only [MM.mk.injEq, and_true]
  have hs := sortedClasses_reloaded u m m.assocsById
  unfold MM.reloaded at hs
  rw [hs, List.map_map]
  apply List.map_congr_left
  intro c hc
  exact canonClass_idem_core u c (hm.types c ((mem_sortBy _ _ _).mp hc))

/-! ### the reloaded metamodel is again in the domain -/

theorem identOk_tyChars (t : Ty) : IdentOk t.chars := by
  cases t <;> exact ⟨by decide, by decide, by decide, by decide⟩

theorem noNewline_tyChars (t : Ty) : NoNewline t.chars := by
  cases t <;> (intro c hc; revert c; decide)

theorem closed_reloaded (u : UC) (m : MM) (hm : m.Closed u) (A : List AssocM) (hA : ∀ a ∈ A, a ∈ m.assocs) :
    (m.reloaded u A).Closed u := by
  have hperm : (m.sortedClasses u).Perm m.classes := sortBy_perm _ _
  have hcls : ∀ c' ∈ (m.reloaded u A).classes, ∃ c ∈ m.classes, c' = canonClass u c := by
    intro c' hc'
    obtain ⟨c, hc, rfl⟩ := List.mem_map.mp hc'
    exact ⟨c, hperm.mem_iff.mp hc, rfl⟩
  refine ⟨?_, ?_, ?_, ?_, ?_, ?_, ?_, ?_⟩
  · show ((m.sortedClasses u).map (canonClass u)).map (fun c => u.upper c.kind) |>.Nodup
    rw [List.map_map]
    exact ((hperm.map _).nodup_iff).mpr hm.distinct
  · intro c' hc' a ha
    obtain ⟨c, hc, rfl⟩ := hcls c' hc'
    simp only [canonClass, upAttrs, List.mem_map] at ha
    obtain ⟨a0, ha0, rfl⟩ := ha
    have := hm.types c hc a0 ha0
    cases ht : tyOfName u a0.2 with
    | none => rw [ht] at this; simp at this
    | some t => simp only [tyOfName_upper_of_some u a0.2 t ht, Option.isSome_some]
  · intro c' hc'
    obtain ⟨c, hc, rfl⟩ := hcls c' hc'
    exact hm.idents c hc
  · intro a ha
    obtain ⟨⟨c1, hc1, hk1⟩, hl, c2, hc2, hk2, hkeys⟩ := hm.ends a (hA a ha)
    refine ⟨⟨canonClass u c1, List.mem_map.mpr ⟨c1, hperm.mem_iff.mpr hc1, rfl⟩, hk1⟩, hl,
      canonClass u c2, List.mem_map.mpr ⟨c2, hperm.mem_iff.mpr hc2, rfl⟩, hk2, ?_⟩
    intro k hk
    have := hkeys k hk
    have e : (canonClass u c2).attrs.map (fun x => u.upper x.1) = c2.attrs.map (fun x => u.upper x.1) := by
      simp only [canonClass, upAttrs, List.map_map]; rfl
    rw [e]; exact this
  · intro c' hc' r hr
    obtain ⟨c, hc, rfl⟩ := hcls c' hc'
    simp only [canonClass, List.mem_map] at hr
    obtain ⟨r0, hr0, rfl⟩ := hr
    have hl := hm.rows c hc r0 hr0
    have : ∀ (attrs : List (Name × Name)) (vals : List (Option Val)), vals.length = attrs.length →
        (canonVals u attrs vals).length = attrs.length := by
      intro attrs
      induction attrs with
      | nil => intro vals h; cases vals with
        | nil => rfl
        | cons _ _ => simp at h
      | cons a as ih => intro vals h; cases vals with
        | nil => simp at h
        | cons v vs => simp only [canonVals, List.length_cons, ih vs (by simpa using h)]
    show (canonVals u c.attrs r0).length = (upAttrs u c.attrs).length
    rw [this c.attrs r0 hl]; simp [upAttrs]
  · intro c' hc'
    obtain ⟨c, hc, rfl⟩ := hcls c' hc'
    show attrNamesOk u (upAttrs u c.attrs) = true
    rw [attrNamesOk_upAttrs]; exact hm.attrNames c hc
  · intro c' hc' a ha
    obtain ⟨c, hc, rfl⟩ := hcls c' hc'
    simp only [canonClass, upAttrs, List.mem_map] at ha
    obtain ⟨a0, ha0, rfl⟩ := ha
    exact hm.plainAttrs c hc a0 ha0
  · intro a ha; exact hm.plainKeys a (hA a ha)

theorem wf_reloaded (u : UC) (m : MM) (hw : m.WF u) (hm : m.Closed u) (A : List AssocM) (hA : ∀ a ∈ A, a ∈ m.assocs) :
    (m.reloaded u A).WF u := by
  have hperm : (m.sortedClasses u).Perm m.classes := sortBy_perm _ _
  have hcls : ∀ c' ∈ (m.reloaded u A).classes, ∃ c ∈ m.classes, c' = canonClass u c := by
    intro c' hc'
    obtain ⟨c, hc, rfl⟩ := List.mem_map.mp hc'
    exact ⟨c, hperm.mem_iff.mp hc, rfl⟩
  refine ⟨?_, ?_, ?_, ?_⟩
  · intro c' hc'
    obtain ⟨c, hc, rfl⟩ := hcls c' hc'
    obtain ⟨hk, hattrs⟩ := hw.classes c hc
    refine ⟨hk, ?_⟩
    intro a ha
    simp only [ClassM.item, canonClass, upAttrs, List.mem_map] at ha
    obtain ⟨a0, ha0, rfl⟩ := ha
    obtain ⟨h1, h2⟩ := hattrs a0 ha0
    exact ⟨h1, by simp only [upper_upper_of_core u a0.2 (hm.types c hc a0 ha0)]; exact h2⟩
  · intro c' hc' it hit
    obtain ⟨c, hc, rfl⟩ := hcls c' hc'
    exact hw.indices c hc it hit
  · intro c' hc' it hit
    obtain ⟨c, hc, rfl⟩ := hcls c' hc'
    simp only [ClassM.instItems, canonClass, List.mem_map] at hit
    obtain ⟨r', ⟨r, hr, rfl⟩, rfl⟩ := hit
    have hwi := hw.rows c hc (.inst c.kind c.attrs r) (by simp only [ClassM.instItems, List.mem_map]; exact ⟨r, hr, rfl⟩)
    obtain ⟨hk, hnn⟩ := hwi
    refine ⟨hk, ?_⟩
    intro a ha
    simp only [upAttrs, List.mem_map] at ha
    obtain ⟨a0, ha0, rfl⟩ := ha
    refine ⟨(hnn a0 ha0).1, ?_⟩
    have hs := hm.types c hc a0 ha0
    cases ht : tyOfName u a0.2 with
    | none => rw [ht] at hs; simp at hs
    | some t => simp only [upper_of_tyOfName u a0.2 t ht]; exact noNewline_tyChars t
  · intro a ha
    exact hw.assocs a (hA a ha)

/-- where the items of the writer routes come from -/
theorem MM.route_items_all_cases (u : UC) (m : MM) (r : List Item) (hr : r ∈ m.routes u) (it : Item) (hit : it ∈ r) :
    (∃ c ∈ m.classes, it = c.item) ∨ (∃ a ∈ m.assocs, it = a.item) ∨ (∃ c ∈ m.classes, it ∈ c.indexItems) ∨
    (∃ c ∈ m.classes, it ∈ c.instItems) := by
  have hc : ∀ x ∈ (m.sortedClasses u).map ClassM.item, ∃ c ∈ m.classes, x = c.item := by
    intro x hx
    simp only [List.mem_map, MM.sortedClasses, mem_sortBy] at hx
    obtain ⟨c, hcm, rfl⟩ := hx; exact ⟨c, hcm, rfl⟩
  have ha1 : ∀ x ∈ m.assocsByIdKind.map AssocM.item, ∃ a ∈ m.assocs, x = a.item := by
    intro x hx
    simp only [List.mem_map, MM.assocsByIdKind, mem_sortBy] at hx
    obtain ⟨a, ham, rfl⟩ := hx; exact ⟨a, ham, rfl⟩
  have ha2 : ∀ x ∈ m.assocsById.map AssocM.item, ∃ a ∈ m.assocs, x = a.item := by
    intro x hx
    simp only [List.mem_map, MM.assocsById, mem_sortBy] at hx
    obtain ⟨a, ham, rfl⟩ := hx; exact ⟨a, ham, rfl⟩
  have hi : ∀ x ∈ m.classes.flatMap ClassM.instItems, ∃ c ∈ m.classes, x ∈ c.instItems := by
    intro x hx; simp only [List.mem_flatMap] at hx; exact hx
  have hx1 : ∀ x ∈ (m.sortedClasses u).flatMap ClassM.indexItems, ∃ c ∈ m.classes, x ∈ c.indexItems := by
    intro x hx
    simp only [List.mem_flatMap, MM.sortedClasses, mem_sortBy] at hx; exact hx
  have hx2 : ∀ x ∈ m.classes.flatMap ClassM.indexItems, ∃ c ∈ m.classes, x ∈ c.indexItems := by
    intro x hx; simp only [List.mem_flatMap] at hx; exact hx
  simp only [MM.routes, List.mem_cons, List.mem_nil_iff, or_false] at hr
  rcases hr with rfl | rfl | rfl | rfl | rfl | rfl | rfl | rfl
  · simp only [MM.serializeDatabase, MM.serializeSchema, MM.serializeClasses, MM.serializeAssociations, MM.serializeInstances,
      MM.serializeUniqueIdentifiers, List.mem_append] at hit
    rcases hit with ((h | h) | h) | h
    · exact Or.inl (hc it h)
    · exact Or.inr (Or.inl (ha1 it h))
    · exact Or.inr (Or.inr (Or.inr (hi it h)))
    · exact Or.inr (Or.inr (Or.inl (hx1 it h)))
  · simp only [MM.serializeSchema, MM.serializeClasses, MM.serializeAssociations, List.mem_append] at hit
    rcases hit with h | h
    · exact Or.inl (hc it h)
    · exact Or.inr (Or.inl (ha1 it h))
  · exact Or.inr (Or.inr (Or.inr (hi it hit)))
  · exact Or.inr (Or.inr (Or.inl (hx1 it hit)))
  · simp only [MM.persistDatabase, List.mem_append, List.mem_flatMap, List.mem_cons] at hit
    rcases hit with (⟨c, hcm, (rfl | hin)⟩ | h) | h
    · exact Or.inl ⟨c, (mem_sortBy _ _ _).mp hcm, rfl⟩
    · exact Or.inr (Or.inr (Or.inl ⟨c, (mem_sortBy _ _ _).mp hcm, hin⟩))
    · exact Or.inr (Or.inl (ha2 it h))
    · exact Or.inr (Or.inr (Or.inr (by simpa only [List.mem_flatMap] using h)))
  · simp only [MM.persistSchema, List.mem_append] at hit
    rcases hit with h | h
    · exact Or.inl (hc it h)
    · exact Or.inr (Or.inl (ha2 it h))
  · exact Or.inr (Or.inr (Or.inr (hi it hit)))
  · exact Or.inr (Or.inr (Or.inl (hx2 it hit)))

/-! ### the reloaded metamodel can be written -/

theorem printItems_some_of_all (u : UC) : ∀ (items : List Item), (∀ it ∈ items, (it.print u).isSome = true) →
    ∃ text, printItems u items = some text := by
  intro items
  induction items with
  | nil => intro _; exact ⟨[], rfl⟩
  | cons it rest ih =>
    intro h
    obtain ⟨t2, ht2⟩ := ih (fun x hx => h x (by simp [hx]))
    have h1 := h it (by simp)
    cases hp : it.print u with
    | none => rw [hp] at h1; simp at h1
    | some t1 => exact ⟨t1 ++ t2, by simp only [printItems, hp, ht2]⟩

theorem print_isSome_of_printItems (u : UC) : ∀ (items : List Item) (text : Text), printItems u items = some text →
    ∀ it ∈ items, (it.print u).isSome = true := by
  intro items
  induction items with
  | nil => intro _ _ it hit; simp at hit
  | cons x rest ih =>
    intro text h it hit
    simp only [printItems] at h
    cases hx : x.print u with
    | none => simp [hx] at h
    | some tx =>
      cases hr : printItems u rest with
      | none => simp [hx, hr] at h
      | some tr =>
        simp only [List.mem_cons] at hit
        rcases hit with rfl | hit
        · simp [hx]
        · exact ih tr hr it hit

theorem valueLines_isSome (u : UC) : ∀ (attrs : List (Name × Name)) (vals : List (Option Val)),
    (valueLines u attrs vals).isSome = (rowTexts u attrs vals).isSome := by
  intro attrs
  induction attrs with
  | nil => intro vals; rfl
  | cons a attrs ih =>
    intro vals
    obtain ⟨nm, ty⟩ := a
    cases vals with
    | nil => rfl
    | cons v vs =>
      simp only [valueLines, rowTexts]
      have := ih vs
      cases cellText u ty v with
      | none => rfl
      | some txt =>
        cases h1 : valueLines u attrs vs with
        | none =>
          rw [h1] at this
          cases h2 : rowTexts u attrs vs with
          | none => rfl
          | some _ => rw [h2] at this; simp at this
        | some _ =>
          rw [h1] at this
          cases h2 : rowTexts u attrs vs with
          | none => rw [h2] at this; simp at this
          | some _ => rfl

theorem cellText_canon_core (u : UC) (ty : Name) (h : (tyOfName u ty).isSome = true) (v : Option Val) :
    cellText u (u.upper ty) (canonVal u ty v) = cellText u ty v := by
  cases ht : tyOfName u ty with
  | none => rw [ht] at h; simp at h
  | some t => simp only [cellText, canonVal, tyOfName_upper_of_some u ty t ht, ht, printValue_eq, resolveVal_idem]

theorem rowTexts_canon_core (u : UC) : ∀ (attrs : List (Name × Name)) (vals : List (Option Val)),
    (∀ a ∈ attrs, (tyOfName u a.2).isSome = true) →
    rowTexts u (upAttrs u attrs) (canonVals u attrs vals) = rowTexts u attrs vals := by
  intro attrs
  induction attrs with
  | nil => intro vals _; rfl
  | cons a attrs ih =>
    intro vals h
    obtain ⟨nm, ty⟩ := a
    cases vals with
    | nil => rfl
    | cons v vs =>
      simp only [upAttrs, List.map_cons, canonVals, rowTexts, cellText_canon_core u ty (h (nm, ty) (by simp)) v]
      have := ih vs (fun a ha => h a (by simp [ha]))
      simp only [upAttrs] at this
      rw [this]

theorem inst_print_isSome (u : UC) (kind : Name) (attrs : List (Name × Name)) (vals : List (Option Val)) :
    ((Item.inst kind attrs vals).print u).isSome = (rowTexts u attrs vals).isSome := by
  simp only [Item.print]
  rw [← valueLines_isSome]
  cases valueLines u attrs vals <;> rfl

/-- every route of the reloaded metamodel prints when the rows of the original print -/
theorem reloaded_prints_of_rows (u : UC) (m : MM) (hm : m.Closed u) (A : List AssocM)
    (hrow : ∀ c ∈ m.classes, ∀ row ∈ c.rows, (rowTexts u c.attrs row).isSome = true)
    (r : List Item) (hr : r ∈ (m.reloaded u A).routes u) : ∃ text', printItems u r = some text' := by
  apply printItems_some_of_all
  have hperm : (m.sortedClasses u).Perm m.classes := sortBy_perm _ _
  intro it hit
  have key : ∀ c' ∈ (m.reloaded u A).classes, ∀ x ∈ c'.instItems, (x.print u).isSome = true := by
    intro c' hc' x hx
    obtain ⟨c, hc, rfl⟩ := List.mem_map.mp hc'
    have hc0 := hperm.mem_iff.mp hc
    simp only [ClassM.instItems, canonClass, List.mem_map] at hx
    obtain ⟨r', ⟨r0, hr0, rfl⟩, rfl⟩ := hx
    rw [inst_print_isSome, rowTexts_canon_core u c.attrs r0 (hm.types c hc0)]
    exact hrow c hc0 r0 hr0
  have hitem := MM.route_items_all_cases u (m.reloaded u A) r hr it hit
  rcases hitem with ⟨c, hc, rfl⟩ | ⟨a, _, rfl⟩ | ⟨c, hc, hx⟩ | ⟨c, hc, hx⟩
  · rfl
  · rfl
  · simp only [ClassM.indexItems, List.mem_map] at hx
    obtain ⟨e, _, rfl⟩ := hx; rfl
  · exact key c hc it hx

/-- the rows of a metamodel print when one of its database routes does -/
theorem rows_print_of_route (u : UC) (m : MM) (r : List Item) (text : Text) (hp : printItems u r = some text)
    (hall : ∀ c ∈ m.classes, ∀ row ∈ c.rows, Item.inst c.kind c.attrs row ∈ r) :
    ∀ c ∈ m.classes, ∀ row ∈ c.rows, (rowTexts u c.attrs row).isSome = true := by
  intro c hc row hrow
  have := print_isSome_of_printItems u r text hp _ (hall c hc row hrow)
  rwa [inst_print_isSome] at this

theorem inst_mem_serializeDatabase (u : UC) (m : MM) : ∀ c ∈ m.classes, ∀ row ∈ c.rows,
    Item.inst c.kind c.attrs row ∈ m.serializeDatabase u := by
  intro c hc row hrow
  simp only [MM.serializeDatabase, MM.serializeInstances, List.mem_append, List.mem_flatMap]
  exact Or.inl (Or.inr ⟨c, hc, by simp only [ClassM.instItems, List.mem_map]; exact ⟨row, hrow, rfl⟩⟩)

theorem inst_mem_persistDatabase (u : UC) (m : MM) : ∀ c ∈ m.classes, ∀ row ∈ c.rows,
    Item.inst c.kind c.attrs row ∈ m.persistDatabase u := by
  intro c hc row hrow
  simp only [MM.persistDatabase, List.mem_append, List.mem_flatMap]
  exact Or.inr ⟨c, hc, by simp only [ClassM.instItems, List.mem_map]; exact ⟨row, hrow, rfl⟩⟩

/-! ### text fixed point -/

/-- TEXT FIXED POINT, `serialize_database`: let R be the metamodel reloaded from the text of m.  The text written from R
    is accepted, builds, and the metamodel built from it is R again — so writing it once more gives the same text -/
theorem text_fixed_point_serializeDatabase (u : UC) (m : MM) (hw : m.WF u) (hm : m.Closed u) (text1 : Text)
    (hp : printItems u (m.serializeDatabase u) = some text1) :
    ∃ text2, printItems u ((m.reloaded u m.assocsByIdKind).serializeDatabase u) = some text2 ∧
      ∃ stmts2 bs2, classify u text2 = .accepted stmts2 ∧ build u stmts2 = .ok bs2 ∧
        bs2.toMM u = m.reloaded u m.assocsByIdKind ∧
        printItems u ((bs2.toMM u).serializeDatabase u) = some text2 := by
  have hA : ∀ a ∈ m.assocsByIdKind, a ∈ m.assocs := fun a ha => (mem_sortBy _ _ _).mp ha
  have hwR := wf_reloaded u m hw hm m.assocsByIdKind hA
  have hmR := closed_reloaded u m hm m.assocsByIdKind hA
  obtain ⟨text2, h2⟩ := reloaded_prints_of_rows u m hm m.assocsByIdKind
    (rows_print_of_route u m _ text1 hp (inst_mem_serializeDatabase u m)) _
    (by simp [MM.routes] : (m.reloaded u m.assocsByIdKind).serializeDatabase u ∈ (m.reloaded u m.assocsByIdKind).routes u)
  obtain ⟨stmts2, bs2, hc, hb, he⟩ := reload_serializeDatabase u _ hwR hmR text2 h2
  rw [reloaded_reloaded_byIdKind u m hm] at he
  exact ⟨text2, h2, stmts2, bs2, hc, hb, he, by rw [he]; exact h2⟩

/-- TEXT FIXED POINT, `persist_database` -/
theorem text_fixed_point_persistDatabase (u : UC) (m : MM) (hw : m.WF u) (hm : m.Closed u) (text1 : Text)
    (hp : printItems u (m.persistDatabase u) = some text1) :
    ∃ text2, printItems u ((m.reloaded u m.assocsById).persistDatabase u) = some text2 ∧
      ∃ stmts2 bs2, classify u text2 = .accepted stmts2 ∧ build u stmts2 = .ok bs2 ∧
        bs2.toMM u = m.reloaded u m.assocsById ∧
        printItems u ((bs2.toMM u).persistDatabase u) = some text2 := by
  have hA : ∀ a ∈ m.assocsById, a ∈ m.assocs := fun a ha => (mem_sortBy _ _ _).mp ha
  have hwR := wf_reloaded u m hw hm m.assocsById hA
  have hmR := closed_reloaded u m hm m.assocsById hA
  obtain ⟨text2, h2⟩ := reloaded_prints_of_rows u m hm m.assocsById
    (rows_print_of_route u m _ text1 hp (inst_mem_persistDatabase u m)) _
    (by simp [MM.routes] : (m.reloaded u m.assocsById).persistDatabase u ∈ (m.reloaded u m.assocsById).routes u)
  obtain ⟨stmts2, bs2, hc, hb, he⟩ := reload_persistDatabase u _ hwR hmR text2 h2
  rw [reloaded_reloaded_byId u m hm] at he
  exact ⟨text2, h2, stmts2, bs2, hc, hb, he, by rw [he]; exact h2⟩

/-! ### when the first text is already the fixed point -/

theorem flatMap_congr_mem {α β : Type} (f g : α → List β) : ∀ (l : List α), (∀ x ∈ l, f x = g x) → l.flatMap f = l.flatMap g := by
  intro l
  induction l with
  | nil => intro _; rfl
  | cons x xs ih => intro h; simp only [List.flatMap_cons, h x (by simp), ih (fun y hy => h y (by simp [hy]))]

theorem printItems_congr (u : UC) : ∀ (l1 l2 : List Item), l1.map (fun it => it.print u) = l2.map (fun it => it.print u) →
    printItems u l1 = printItems u l2 := by
  intro l1
  induction l1 with
  | nil => intro l2 h; cases l2 with
    | nil => rfl
    | cons _ _ => simp at h
  | cons x xs ih =>
    intro l2 h
    cases l2 with
    | nil => simp at h
    | cons y ys =>
      simp only [List.map_cons, List.cons.injEq] at h
      simp only [printItems, h.1, ih ys h.2]

theorem cellText_canonVal (u : UC) (ty : Name) (v : Option Val) : cellText u ty (canonVal u ty v) = cellText u ty v := by
  cases ht : tyOfName u ty with
  | none => simp only [canonVal, ht]
  | some t => simp only [cellText, canonVal, ht, printValue_eq, resolveVal_idem]

theorem valueLines_canonVals (u : UC) : ∀ (attrs : List (Name × Name)) (vals : List (Option Val)),
    valueLines u attrs (canonVals u attrs vals) = valueLines u attrs vals := by
  intro attrs
  induction attrs with
  | nil => intro vals; cases vals <;> rfl
  | cons a attrs ih =>
    intro vals
    obtain ⟨nm, ty⟩ := a
    cases vals with
    | nil => rfl
    | cons v vs => simp only [canonVals, valueLines, cellText_canonVal, ih vs]

theorem cls_print_canon (u : UC) (c : ClassM) (h : ∀ a ∈ c.attrs, (tyOfName u a.2).isSome = true) :
    (canonClass u c).item.print u = c.item.print u := by
  simp only [ClassM.item, canonClass, Item.print, upAttrs, List.map_map]
  congr 4
  apply List.map_congr_left
  intro a ha
  simp only [Function.comp, upper_upper_of_core u a.2 (h a ha)]

/-- the text written from the reloaded metamodel IS the text written from the original when the classes are already in
    sorted order and the attribute type names are already upper-case.  (Unset values never matter — they are written as
    the null value either way — nor do reals, whose model value is the six-decimal numeral; what can differ between the
    first and the second text is the order of the INSERT blocks, which follows the class dict order, and the type names in
    the per-value comments.) -/
theorem serialize_reload_eq (u : UC) (m : MM) (hm : m.Closed u) (hsorted : SortedBy (classLe u) m.classes)
    (hup : ∀ c ∈ m.classes, ∀ a ∈ c.attrs, u.upper a.2 = a.2) :
    printItems u ((m.reloaded u m.assocsByIdKind).serializeDatabase u) = printItems u (m.serializeDatabase u) := by
  have hs : m.sortedClasses u = m.classes := sortBy_of_sorted _ _ hsorted
  have hA : (m.reloaded u m.assocsByIdKind).assocsByIdKind = m.assocsByIdKind := by
    have := assocsByIdKind_idem m
    simpa [MM.assocsByIdKind, MM.reloaded] using this
  have hup' : ∀ c ∈ m.classes, upAttrs u c.attrs = c.attrs := by
    intro c hc
    simp only [upAttrs]
    conv => rhs; rw [← List.map_id c.attrs]
    apply List.map_congr_left
    intro a ha
    simp only [hup c hc a ha, id]
  apply printItems_congr
  simp only [MM.serializeDatabase, MM.serializeSchema, MM.serializeClasses, MM.serializeAssociations, MM.serializeInstances,
    MM.serializeUniqueIdentifiers, sortedClasses_reloaded, hA, hs, List.map_append, List.map_map, List.map_flatMap]
  simp only [MM.reloaded, List.flatMap_map, hs]
  congr 1
  congr 1
  congr 1
  · apply List.map_congr_left
    intro c hc
    exact cls_print_canon u c (hm.types c hc)
  · apply flatMap_congr_mem
    intro c hc
    simp only [ClassM.instItems, canonClass, List.map_map, hup' c hc]
    apply List.map_congr_left
    intro r _
    simp only [Function.comp, Item.print, valueLines_canonVals]

end Pyx.Sql
