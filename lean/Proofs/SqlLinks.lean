import PyxModel.Sql.Links
import Proofs.SqlReloadRoutes

set_option linter.unusedSimpArgs false

/-! the links of the reloaded metamodel are the links of the original (spec join of PyxModel/Sql/Links.lean) -/
namespace Pyx.Sql
open Gen.Persist (Ty)

/-! ### cells before and after a reload -/

theorem nullOf_eq (t : Ty) : nullOf t = some (documentedNull t) := by cases t <;> rfl

/-- a key cell as it is after a reload: an unset value has become the null value of the column type -/
def canonCell (c : Option Ty × Option Val) : Option Ty × Option Val :=
  (c.1, match c.1 with
        | some t => resolveVal t c.2
        | none => c.2)

theorem canonCell_some (t : Option Ty) (x : Val) : canonCell (t, some x) = (t, some x) := by
  cases t <;> rfl

/-- for the types that HAVE a null value (UNIQUE_ID: 0, STRING: ''), an unset cell stays null -/
theorem isNull_canon_nullable (t : Ty) (h : t = .UNIQUE_ID ∨ t = .STRING) :
    isNullL (canonCell (some t, none)).1 (canonCell (some t, none)).2 = true := by
  rcases h with rfl | rfl <;> rfl

theorem cellMatch_canon_both (s t : Option Ty × Option Val) (x y : Val) (hs : s.2 = some x) (ht : t.2 = some y) :
    cellMatch (canonCell s) (canonCell t) = cellMatch s t := by
  obtain ⟨s1, s2⟩ := s; obtain ⟨t1, t2⟩ := t
  simp only at hs ht; subst hs; subst ht
  rw [canonCell_some, canonCell_some]

theorem cellMatch_none_left (t : Option Ty × Option Val) (ty : Option Ty) : cellMatch (ty, none) t = false := by
  simp [cellMatch, isNullL]

theorem cellMatch_none_right (s : Option Ty × Option Val) (ty : Option Ty) : cellMatch s (ty, none) = false := by
  simp [cellMatch, isNullL]

/-- a pair of cells one of which is unset does not match before the reload; it does not match afterwards either
    unless the typed default it turns into meets an equal value on the other side -/
theorem cellMatch_canon (s t : Option Ty × Option Val)
    (h : (s.2 = none ∨ t.2 = none) → cellMatch (canonCell s) (canonCell t) = false) :
    cellMatch (canonCell s) (canonCell t) = cellMatch s t := by
  obtain ⟨s1, s2⟩ := s; obtain ⟨t1, t2⟩ := t
  cases s2 with
  | none => rw [h (Or.inl rfl), cellMatch_none_left]
  | some x =>
    cases t2 with
    | none => rw [h (Or.inr rfl), cellMatch_none_right]
    | some y => exact cellMatch_canon_both _ _ x y rfl rfl

/-- an unset cell of a type that has a null value (or of an unknown type) matches nothing after the reload either -/
theorem cellMatch_canon_unset_left (t : Option Ty) (h : t = some .UNIQUE_ID ∨ t = some .STRING ∨ t = none)
    (c : Option Ty × Option Val) : cellMatch (canonCell (t, none)) c = false := by
  rcases h with rfl | rfl | rfl <;> simp [cellMatch, canonCell, resolveVal, nullOf, litToVal, Gen.Persist.nullValue, isNullL]

theorem cellMatch_canon_unset_right (t : Option Ty) (h : t = some .UNIQUE_ID ∨ t = some .STRING ∨ t = none)
    (c : Option Ty × Option Val) : cellMatch c (canonCell (t, none)) = false := by
  rcases h with rfl | rfl | rfl <;> simp [cellMatch, canonCell, resolveVal, nullOf, litToVal, Gen.Persist.nullValue, isNullL]

/-! ### columns of the canonical class -/

theorem findIdx?_map_fst (p : Name → Bool) (g : Name → Name) : ∀ (attrs : List (Name × Name)),
    (attrs.map fun a => (a.1, g a.2)).findIdx? (fun a => p a.1) = attrs.findIdx? (fun a => p a.1) := by
  intro attrs
  rw [List.findIdx?_map]
  rfl

theorem colExact_up (u : UC) (attrs : List (Name × Name)) (k : Name) : colExact (upAttrs u attrs) k = colExact attrs k := by
  unfold colExact upAttrs
  exact findIdx?_map_fst (fun n => n == k) u.upper attrs

theorem colCI_up (u : UC) (attrs : List (Name × Name)) (k : Name) : colCI u (upAttrs u attrs) k = colCI u attrs k := by
  unfold colCI
  rw [colExact_up]
  cases colExact attrs k with
  | some i => rfl
  | none =>
    simp only [upAttrs]
    exact findIdx?_map_fst (fun n => u.upper n == u.upper k) u.upper attrs

theorem canonVals_get (u : UC) : ∀ (attrs : List (Name × Name)) (row : List (Option Val)) (i : Nat),
    row.length = attrs.length →
    (canonVals u attrs row)[i]? = (attrs[i]?).bind (fun a => (row[i]?).map (fun v => canonVal u a.2 v)) := by
  intro attrs
  induction attrs with
  | nil => intro row i h; cases row with
    | nil => simp [canonVals]
    | cons v vs => simp at h
  | cons a attrs ih =>
    intro row i h
    cases row with
    | nil => simp at h
    | cons v vs =>
      cases i with
      | zero => simp [canonVals]
      | succ i => simpa [canonVals] using ih vs i (by simpa using h)

/-- the key cell of a canonical row is the canonical form of the key cell of the original row -/
theorem keyCell_canon (u : UC) (c : ClassM) (htypes : ∀ a ∈ c.attrs, (tyOfName u a.2).isSome = true)
    (row : List (Option Val)) (hlen : row.length = c.attrs.length) (col : Option Nat) :
    keyCell u (canonClass u c) (canonVals u c.attrs row) col = canonCell (keyCell u c row col) := by
  cases col with
  | none => rfl
  | some i =>
    simp only [keyCell, canonClass, canonCell]
    rw [canonVals_get u c.attrs row i hlen]
    cases ha : c.attrs[i]? with
    | none =>
      have hr : row[i]? = none := by
        rw [List.getElem?_eq_none_iff] at ha ⊢; omega
      simp [upAttrs, ha, hr]
    | some a =>
      have hmem : a ∈ c.attrs := List.mem_of_getElem? ha
      have hsome := htypes a hmem
      cases ht : tyOfName u a.2 with
      | none => rw [ht] at hsome; simp at hsome
      | some t =>
        have hup : tyOfName u (u.upper a.2) = some t := tyOfName_upper_of_some u a.2 t ht
        simp only [upAttrs, List.getElem?_map, ha, Option.map_some, Option.bind_some, hup, ht]
        cases hv : row[i]? with
        | none =>
          exfalso
          have : i < c.attrs.length := (List.getElem?_eq_some_iff.mp ha).1
          rw [List.getElem?_eq_none_iff] at hv; omega
        | some v => simp [canonVal, ht]

/-! ### rows -/

/-- an unset key cell never meets its own typed default: whenever one cell of a key pair is unset, the pair does not
    match after the reload either.  Automatic for key columns of type UNIQUE_ID or STRING (their null value IS null);
    for INTEGER, REAL and BOOLEAN key columns it says that no row on the other side carries 0 / 0.0 / False (or is
    unset too) in that key column. -/
def UnsetSafe (u : UC) (m : MM) : Prop :=
  ∀ a ∈ m.assocs, ∀ sc tc, m.findClass u a.src.kind = some sc → m.findClass u a.tgt.kind = some tc →
    ∀ s ∈ sc.rows, ∀ t ∈ tc.rows, ∀ kk ∈ a.src.keys.zip a.tgt.keys,
      ((keyCell u sc s (colExact sc.attrs kk.1)).2 = none ∨ (keyCell u tc t (colCI u tc.attrs kk.2)).2 = none) →
      cellMatch (canonCell (keyCell u sc s (colExact sc.attrs kk.1))) (canonCell (keyCell u tc t (colCI u tc.attrs kk.2))) = false

/-- FIXED POINT OF READING THROUGH LINKS: what `getattr` returns for every cell after the load (`readRow`: referential
    attributes are read from the partner across the association, `None` without partner) is the stored cell, up to unset ≡
    null value of the type.  This is the condition under which the model's `BState.toMM` (which keeps the INSERT value of a
    referential cell) is what the implementation shows.  A hand-written `INSERT INTO B VALUES (7, 5)` whose 5 refers to no
    `A` violates it (the implementation reads 0, the model 5). -/
def MM.ReadsFixed (u : UC) (m : MM) : Prop :=
  ∀ c ∈ m.classes, ∀ s ∈ c.rows, canonVals u c.attrs (readRow u m c s) = canonVals u c.attrs s

/-- what makes a metamodel a fixed point, in terms of its links: (partner) whenever a row has a partner across an
    association, the partner's identifying value IS the row's stored referential value; (alone) a referential cell of a
    row that has no partner across any of the associations it belongs to holds nothing or the null value of its type -/
structure ReadsResolved (u : UC) (m : MM) : Prop where
  partner : ∀ c ∈ m.classes, ∀ s ∈ c.rows, ∀ (i : Nat) (a : Name × Name), c.attrs[i]? = some a →
    ∀ ap ∈ refOccurrences u m c.kind a.1, ∀ tc t, m.findClass u ap.1.tgt.kind = some tc →
      tc.rows.find? (rowsMatch u ap.1 c tc s) = some t →
      canonVal u a.2 (keyCell u tc t (colCI u tc.attrs ap.2)).2 = canonVal u a.2 ((s[i]?).join)
  alone : ∀ c ∈ m.classes, ∀ s ∈ c.rows, ∀ (i : Nat) (a : Name × Name), c.attrs[i]? = some a →
    refOccurrences u m c.kind a.1 ≠ [] →
    (∀ ap ∈ refOccurrences u m c.kind a.1, ∀ tc, m.findClass u ap.1.tgt.kind = some tc →
      tc.rows.find? (rowsMatch u ap.1 c tc s) = none) →
    canonVal u a.2 none = canonVal u a.2 ((s[i]?).join)

theorem readRef_canon (u : UC) (m : MM) (c : ClassM) (s : List (Option Val)) (ty : Name) (v : Option Val) :
    ∀ (occ : List (AssocM × Name)),
    (∀ ap ∈ occ, ∀ tc t, m.findClass u ap.1.tgt.kind = some tc → tc.rows.find? (rowsMatch u ap.1 c tc s) = some t →
      canonVal u ty (keyCell u tc t (colCI u tc.attrs ap.2)).2 = canonVal u ty v) →
    ((∀ ap ∈ occ, ∀ tc, m.findClass u ap.1.tgt.kind = some tc → tc.rows.find? (rowsMatch u ap.1 c tc s) = none) →
      canonVal u ty none = canonVal u ty v) →
    canonVal u ty (readRef u m c s occ) = canonVal u ty v := by
  intro occ
  induction occ with
  | nil => intro _ h2; exact h2 (by intro ap h; cases h)
  | cons ap rest ih =>
    intro h1 h2
    obtain ⟨a, p⟩ := ap
    simp only [readRef]
    have ih' := fun hx => ih (fun ap hap => h1 ap (List.mem_cons_of_mem _ hap)) hx
    cases hf : m.findClass u a.tgt.kind with
    | none =>
      apply ih'
      intro hrest
      apply h2
      intro ap hap tc htc
      simp only [List.mem_cons] at hap
      rcases hap with rfl | hap
      · rw [hf] at htc; cases htc
      · exact hrest ap hap tc htc
    | some tc =>
      simp only
      cases hp : tc.rows.find? (rowsMatch u a c tc s) with
      | some t => exact h1 (a, p) (by simp) tc t hf hp
      | none =>
        apply ih'
        intro hrest
        apply h2
        intro ap hap tc' htc
        simp only [List.mem_cons] at hap
        rcases hap with rfl | hap
        · rw [hf] at htc; simp only [Option.some.injEq] at htc; subst htc; exact hp
        · exact hrest ap hap tc' htc

theorem readCells_canon (u : UC) (m : MM) (c : ClassM) (s : List (Option Val)) :
    ∀ (as : List (Name × Name)) (vs : List (Option Val)),
    (∀ (j : Nat) (a : Name × Name) (v : Option Val), as[j]? = some a → vs[j]? = some v →
      canonVal u a.2 (readCell u m c s a.1 v) = canonVal u a.2 v) →
    canonVals u as (readCells u m c s as vs) = canonVals u as vs := by
  intro as
  induction as with
  | nil => intro vs _; cases vs <;> rfl
  | cons a as ih =>
    intro vs h
    cases vs with
    | nil => rfl
    | cons v vs =>
      simp only [readCells, canonVals]
      rw [h 0 a v rfl rfl, ih vs (fun j a' v' ha hv => h (j + 1) a' v' (by simpa using ha) (by simpa using hv))]

/-- a metamodel whose links and referential cells agree is a fixed point of reading through links -/
theorem readsFixed_of_resolved (u : UC) (m : MM) (h : ReadsResolved u m) : m.ReadsFixed u := by
  intro c hc s hs
  unfold readRow
  apply readCells_canon
  intro j a v ha hv
  have hvj : (s[j]?).join = v := by rw [hv]; rfl
  unfold readCell
  by_cases he : (refOccurrences u m c.kind a.1).isEmpty = true
  · simp [he]
  · simp only [he, Bool.false_eq_true, if_false]
    have hne : refOccurrences u m c.kind a.1 ≠ [] := by intro e; rw [e] at he; simp at he
    apply readRef_canon
    · intro ap hap tc t htc ht
      rw [← hvj]; exact h.partner c hc s hs j a ha ap hap tc t htc ht
    · intro hall
      rw [← hvj]; exact h.alone c hc s hs j a ha hne hall

/-- without associations nothing is read through links -/
theorem readsFixed_no_assocs (u : UC) (m : MM) (h : m.assocs = []) : m.ReadsFixed u := by
  intro c _ s _
  unfold readRow
  apply readCells_canon
  intro j a v _ _
  simp [readCell, refOccurrences, h]

/-- the type a key column resolves to -/
def colType (u : UC) (c : ClassM) (col : Option Nat) : Option Ty :=
  match col with
  | none => none
  | some i => (c.attrs[i]?).bind (fun a => tyOfName u a.2)

theorem keyCell_fst (u : UC) (c : ClassM) (row : List (Option Val)) (col : Option Nat) :
    (keyCell u c row col).1 = colType u c col := by
  cases col <;> rfl

/-- associations whose key columns all have type UNIQUE_ID or STRING need no side condition -/
theorem unsetSafe_of_nullable_keys (u : UC) (m : MM)
    (h : ∀ a ∈ m.assocs, ∀ sc tc, m.findClass u a.src.kind = some sc → m.findClass u a.tgt.kind = some tc →
      ∀ kk ∈ a.src.keys.zip a.tgt.keys,
        (colType u sc (colExact sc.attrs kk.1) = some .UNIQUE_ID ∨ colType u sc (colExact sc.attrs kk.1) = some .STRING ∨
          colType u sc (colExact sc.attrs kk.1) = none) ∧
        (colType u tc (colCI u tc.attrs kk.2) = some .UNIQUE_ID ∨ colType u tc (colCI u tc.attrs kk.2) = some .STRING ∨
          colType u tc (colCI u tc.attrs kk.2) = none)) : UnsetSafe u m := by
  intro a ha sc tc hsc htc s _ t _ kk hkk hnone
  obtain ⟨h1, h2⟩ := h a ha sc tc hsc htc kk hkk
  rcases hnone with hn | hn
  · have e : keyCell u sc s (colExact sc.attrs kk.1) = (colType u sc (colExact sc.attrs kk.1), none) := by
      rw [← keyCell_fst u sc s, ← hn]
    rw [e]; exact cellMatch_canon_unset_left _ h1 _
  · have e : keyCell u tc t (colCI u tc.attrs kk.2) = (colType u tc (colCI u tc.attrs kk.2), none) := by
      rw [← keyCell_fst u tc t, ← hn]
    rw [e]; exact cellMatch_canon_unset_right _ h2 _

theorem all_congr_mem {α : Type} (f g : α → Bool) : ∀ (l : List α), (∀ x ∈ l, f x = g x) → l.all f = l.all g := by
  intro l
  induction l with
  | nil => intro _; rfl
  | cons x xs ih => intro h; simp only [List.all_cons, h x (by simp), ih (fun y hy => h y (by simp [hy]))]

theorem rowsMatch_canon (u : UC) (a : AssocM) (sc tc : ClassM)
    (hs : ∀ x ∈ sc.attrs, (tyOfName u x.2).isSome = true) (ht : ∀ x ∈ tc.attrs, (tyOfName u x.2).isSome = true)
    (s t : List (Option Val)) (hls : s.length = sc.attrs.length) (hlt : t.length = tc.attrs.length)
    (hsafe : ∀ kk ∈ a.src.keys.zip a.tgt.keys,
      ((keyCell u sc s (colExact sc.attrs kk.1)).2 = none ∨ (keyCell u tc t (colCI u tc.attrs kk.2)).2 = none) →
      cellMatch (canonCell (keyCell u sc s (colExact sc.attrs kk.1))) (canonCell (keyCell u tc t (colCI u tc.attrs kk.2))) = false) :
    rowsMatch u a (canonClass u sc) (canonClass u tc) (canonVals u sc.attrs s) (canonVals u tc.attrs t) =
      rowsMatch u a sc tc s t := by
  unfold rowsMatch
  apply all_congr_mem
  intro kk hkk
  have e1 : (canonClass u sc).attrs = upAttrs u sc.attrs := rfl
  have e2 : (canonClass u tc).attrs = upAttrs u tc.attrs := rfl
  rw [e1, e2, colExact_up, colCI_up, keyCell_canon u sc hs s hls, keyCell_canon u tc ht t hlt]
  exact cellMatch_canon _ _ (hsafe kk hkk)

theorem partnersOf_congr (p q : List (Option Val) → Bool) (g : List (Option Val) → List (Option Val)) :
    ∀ (T : List (List (Option Val))) (j : Nat), (∀ t ∈ T, q (g t) = p t) → partnersOf q j (T.map g) = partnersOf p j T := by
  intro T
  induction T with
  | nil => intro j _; rfl
  | cons t ts ih =>
    intro j h
    simp only [List.map_cons, partnersOf, h t (by simp), ih (j + 1) (fun x hx => h x (by simp [hx]))]

theorem joinRows_congr (f f' : List (Option Val) → List (Option Val) → Bool) (g h : List (Option Val) → List (Option Val))
    (T : List (List (Option Val))) : ∀ (S : List (List (Option Val))) (i : Nat),
    (∀ s ∈ S, ∀ t ∈ T, f' (h s) (g t) = f s t) → joinRows f' (T.map g) i (S.map h) = joinRows f T i S := by
  intro S
  induction S with
  | nil => intro i _; rfl
  | cons s ss ih =>
    intro i hst
    simp only [List.map_cons, joinRows]
    rw [partnersOf_congr (f s) (f' (h s)) g T 0 (fun t ht => hst s (by simp) t ht),
      ih (i + 1) (fun s' hs' t ht => hst s' (by simp [hs']) t ht)]

/-! ### classes of the reloaded metamodel -/

theorem find?_perm_unique {α : Type} (p : α → Bool) : ∀ (L1 L2 : List α), L1.Perm L2 →
    (∀ a ∈ L1, ∀ b ∈ L1, p a = true → p b = true → a = b) → L1.find? p = L2.find? p := by
  intro L1 L2 hperm huniq
  cases h1 : L1.find? p with
  | none =>
    symm
    rw [List.find?_eq_none] at h1 ⊢
    intro x hx; exact h1 x (hperm.mem_iff.mpr hx)
  | some a =>
    have ha : a ∈ L1 := List.mem_of_find?_eq_some h1
    have hpa : p a = true := List.find?_some h1
    cases h2 : L2.find? p with
    | none =>
      rw [List.find?_eq_none] at h2
      exact absurd hpa (h2 a (hperm.mem_iff.mp ha))
    | some b =>
      have hb : b ∈ L2 := List.mem_of_find?_eq_some h2
      have hpb : p b = true := List.find?_some h2
      rw [huniq a ha b (hperm.mem_iff.mpr hb) hpa hpb]

theorem findClass_reloaded (u : UC) (m : MM) (hm : m.Closed u) (A : List AssocM) (kind : Name) :
    (m.reloaded u A).findClass u kind = (m.findClass u kind).map (canonClass u) := by
  unfold MM.findClass MM.reloaded
  simp only
  rw [List.find?_map]
  have hperm : (m.sortedClasses u).Perm m.classes := sortBy_perm _ _
  have e : ((fun c : ClassM => u.upper c.kind == u.upper kind) ∘ canonClass u) = fun c => u.upper c.kind == u.upper kind := by
    funext c; rfl
  rw [e]
  rw [find?_perm_unique _ (m.sortedClasses u) m.classes hperm (by
    intro a ha b hb hpa hpb
    have ha' := hperm.mem_iff.mp ha
    have hb' := hperm.mem_iff.mp hb
    simp only [beq_iff_eq] at hpa hpb
    exact eq_of_nodup_map (fun c : ClassM => u.upper c.kind) m.classes hm.distinct a ha' b hb' (hpa.trans hpb.symm))]

/-! ### the link clause -/

/-- LINKS SURVIVE THE RELOAD: for a closed metamodel in which no unset key cell meets its typed default, every
    association has, in the reloaded metamodel, exactly the link pairs (source row, target row) it has in the original -/
theorem linksOfAssoc_reloaded (u : UC) (m : MM) (hm : m.Closed u) (hsafe : UnsetSafe u m) (A : List AssocM) (a : AssocM)
    (ha : a ∈ m.assocs) : linksOfAssoc u (m.reloaded u A) a = linksOfAssoc u m a := by
  unfold linksOfAssoc
  rw [findClass_reloaded u m hm A, findClass_reloaded u m hm A]
  cases hsc : m.findClass u a.src.kind with
  | none => rfl
  | some sc =>
    cases htc : m.findClass u a.tgt.kind with
    | none => rfl
    | some tc =>
      have hscm : sc ∈ m.classes := List.mem_of_find?_eq_some hsc
      have htcm : tc ∈ m.classes := List.mem_of_find?_eq_some htc
      simp only [Option.map_some, canonClass]
      exact joinRows_congr (rowsMatch u a sc tc) (rowsMatch u a (canonClass u sc) (canonClass u tc))
        (canonVals u tc.attrs) (canonVals u sc.attrs) tc.rows sc.rows 0 (by
          intro s hs t ht
          exact rowsMatch_canon u a sc tc (hm.types sc hscm) (hm.types tc htcm) s t (hm.rows sc hscm s hs) (hm.rows tc htcm t ht)
            (fun kk hkk => hsafe a ha sc tc hsc htc s hs t ht kk hkk))

theorem linksOf_reloaded (u : UC) (m : MM) (hm : m.Closed u) (hsafe : UnsetSafe u m) (A : List AssocM)
    (hA : ∀ a ∈ A, a ∈ m.assocs) : linksOf u (m.reloaded u A) = A.map (fun a => (a, linksOfAssoc u m a)) := by
  unfold linksOf
  show A.map _ = _
  apply List.map_congr_left
  intro a ha
  rw [linksOfAssoc_reloaded u m hm hsafe A a (hA a ha)]

end Pyx.Sql
