import Proofs.ExtractShapeAssoc

/-!
  C14 — `mk_linked_association` of the generated IR (Gen/ExtractShape.lean) on ANY rows of a linked relationship: the
  AttributeError endings (an end row R_AONE / R_AOTH / R_ASSR missing, a class or an attribute of an O_REF row that does not
  resolve) next to `linked_resolved` (Proofs/ExtractShapeAssoc.lean), in the order in which the IR evaluates:

    r_rgo = one(r_assoc).R_ASSR[211].R_RGO[205]()          None without R_ASSR
    source_o_obj = one(r_rgo).R_OIR[203].O_OBJ[201]()      None without R_ASSR / link class
    _mk_assoc(r_aone, r_aoth); _mk_assoc(r_aoth, r_aone):
      r_rto = one(side1).R_RTO[204]()                      None without side1
      _get_related_attributes(r_rgo, r_rto)                ([], []) when r_rto is None; `r_rgo.OIR_ID` raises when r_rgo is None and
                                                           an O_REF hangs on r_rto; `o_attr.Name` raises on an unresolved O_REF
      side1.Obj_ID != side2.Obj_ID                         raises when side1 or side2 is None
      source_o_obj.Key_Lett, target_o_obj.Key_Lett         raise when the link class / side1's class is missing
-/

namespace Pyx.XShape
open Pyx.Extract Pyx.Gen.ExtractShape

/-- `mk_linked_association` without one of its three end rows: AttributeError -/
theorem linked_degenerate (d : ClassDiagram) (numb : Nat) (w : RelRows)
    (h : w.aone = none ∨ w.aoth = none ∨ w.assr = none) (Lc : Loc RI) :
    assocsOf (callAt (relWorld d numb w) defs 5 "mk_linked_association" [.opaque, .inst (some .assoc)] Lc []) =
      .error .attributeError := by
  have hr0 := fun xo Lc C => relattrs_none_rto d numb w 2 xo Lc C
  have hr1 := fun Lc C => relattrs_none_rgo d numb w 2 .aone Lc C
  have hr2 := fun Lc C => relattrs_none_rgo d numb w 2 .aoth Lc C
  have hrel1 := fun Lc C => relattrs d numb w 2 .assr .aone (.rgo .assr) (by simp [relAttr]) Lc C
  have hrel2 := fun Lc C => relattrs d numb w 2 .assr .aoth (.rgo .assr) (by simp [relAttr]) Lc C
  simp only [Nat.reduceAdd] at hr0 hr1 hr2 hrel1 hrel2
  rw [callAt_def _ _ 4 _ _ _ _ _ rfl lookup_mk_linked_association rfl]
  cases hone : w.aone with
  | none =>
    cases hoth : w.aoth <;> cases hassr : w.assr <;>
      xsM [mk_linked_association, hone, hoth, hassr, hr0, plainEnd]
  | some o =>
    cases hoth : w.aoth with
    | none =>
      cases hassr : w.assr with
      | none =>
        cases hrefs : w.refsOne <;>
          xsM [mk_linked_association, hone, hoth, hassr, hr0, hr1, plainEnd, refsOn, hrefs]
      | some l =>
        cases hres : resolvedAt d w .assr .aone (refsFor w .assr .aone) <;>
          xsM [mk_linked_association, hone, hoth, hassr, hr0, hrel1, hres, plainEnd]
    | some t =>
      cases hassr : w.assr with
      | some l => simp [hone, hoth, hassr] at h
      | none =>
        cases hb1 : (o.cls != t.cls) <;> cases hrefs : w.refsOne <;>
          xsM [mk_linked_association, hone, hoth, hassr, hr0, hr1, plainEnd, refsOn, hrefs, hb1]

/-- the O_REF rows of (R_ASSR, side) all lead to attributes: in the model's terms -/
theorem resolvedAt_assr (d : ClassDiagram) (w : RelRows) (side : EndId) (s : End) (l : Nat) (lc sc : Class) (refs : List Ref)
    (hside : endOf w side = some s) (hassr : w.assr = some l) (hlc : findClass d l = some lc)
    (hsc : findClass d s.cls = some sc) : resolvedAt d w .assr side refs = refsResolved lc sc refs := by
  have h1 : classOfEnd d w .assr = some lc := by simp [classOfEnd, endOf, hassr, plainEnd, hlc]
  have h2 : classOfEnd d w side = some sc := by simp [classOfEnd, hside, hsc]
  simp [resolvedAt, refsResolved, attrAt, h1, h2]

/-- `mk_linked_association` with its three end rows, the link class missing: `source_o_obj.Key_Lett` (or, before it, `o_attr.Name`
    of an O_REF row) raises -/
theorem linked_no_link_class (d : ClassDiagram) (numb : Nat) (w : RelRows) (o t : End) (l : Nat)
    (hone : w.aone = some o) (hoth : w.aoth = some t) (hassr : w.assr = some l) (hlc : findClass d l = none) (Lc : Loc RI) :
    assocsOf (callAt (relWorld d numb w) defs 5 "mk_linked_association" [.opaque, .inst (some .assoc)] Lc []) =
      .error .attributeError := by
  have hrf1 : refsFor w .assr .aone = w.refsOne := refsFor_tagged w _ _ _ (by simp [refsOn])
  have hrf2 : refsFor w .assr .aoth = w.refsOth := refsFor_tagged w _ _ _ (by simp [refsOn])
  have hrel1 := fun Lc C => relattrs d numb w 2 .assr .aone (.rgo .assr) (by simp [relAttr]) Lc C
  have hrel2 := fun Lc C => relattrs d numb w 2 .assr .aoth (.rgo .assr) (by simp [relAttr]) Lc C
  simp only [Nat.reduceAdd, hrf1, hrf2] at hrel1 hrel2
  rw [callAt_def _ _ 4 _ _ _ _ _ rfl lookup_mk_linked_association rfl]
  -- the first `_mk_assoc` raises already: the second one is never reached
  cases hoc : findClass d o.cls <;> cases hres1 : resolvedAt d w .assr .aone w.refsOne <;> cases hb1 : (o.cls != t.cls) <;>
    xsM [mk_linked_association, hone, hoth, hassr, hrel1, hlc, hoc, hres1, hb1, plainEnd]

/-- `mk_linked_association` with its three end rows and the link class, a side's class or an attribute of an O_REF row missing:
    `o_attr.Name` / `target_o_obj.Key_Lett` raises, in the first or in the second `_mk_assoc` -/
theorem linked_unresolved_side (d : ClassDiagram) (numb : Nat) (w : RelRows) (o t : End) (l : Nat) (lc : Class)
    (hone : w.aone = some o) (hoth : w.aoth = some t) (hassr : w.assr = some l) (hlc : findClass d l = some lc)
    (hr : resolvedRel d (RelKind.linked o t l w.refsOne w.refsOth).asRel = false) (Lc : Loc RI) :
    assocsOf (callAt (relWorld d numb w) defs 5 "mk_linked_association" [.opaque, .inst (some .assoc)] Lc []) =
      .error .attributeError := by
  have hrf1 : refsFor w .assr .aone = w.refsOne := refsFor_tagged w _ _ _ (by simp [refsOn])
  have hrf2 : refsFor w .assr .aoth = w.refsOth := refsFor_tagged w _ _ _ (by simp [refsOn])
  have hrel1 := fun Lc C => relattrs d numb w 2 .assr .aone (.rgo .assr) (by simp [relAttr]) Lc C
  have hrel2 := fun Lc C => relattrs d numb w 2 .assr .aoth (.rgo .assr) (by simp [relAttr]) Lc C
  simp only [Nat.reduceAdd, hrf1, hrf2] at hrel1 hrel2
  rw [callAt_def _ _ 4 _ _ _ _ _ rfl lookup_mk_linked_association rfl]
  have hb3 : (t.cls != o.cls) = (o.cls != t.cls) := bne_comm
  cases hoc : findClass d o.cls <;> cases hres1 : resolvedAt d w .assr .aone w.refsOne
  case some.true oc =>
    -- the first `_mk_assoc` defines; the second one raises
    cases htc : findClass d t.cls <;> cases hres2 : resolvedAt d w .assr .aoth w.refsOth
    case some.true tc =>
      exfalso
      rw [resolvedAt_assr d w .aone o l lc oc _ (by simp [endOf, hone]) hassr hlc hoc] at hres1
      rw [resolvedAt_assr d w .aoth t l lc tc _ (by simp [endOf, hoth]) hassr hlc htc] at hres2
      simp [resolvedRel, RelKind.asRel, pairResolved, hlc, hoc, htc, hres1, hres2] at hr
    all_goals
      cases hb1 : (o.cls != t.cls) <;>
        xsM [mk_linked_association, hone, hoth, hassr, hrel1, hrel2, hlc, hoc, htc, hres1, hres2, hb1, hb3, plainEnd]
  all_goals
    cases hb1 : (o.cls != t.cls) <;>
      xsM [mk_linked_association, hone, hoth, hassr, hrel1, hlc, hoc, hres1, hb1, plainEnd]

/-- `mk_linked_association` with its three end rows, a class or an attribute of an O_REF row missing: AttributeError -/
theorem linked_unresolved (d : ClassDiagram) (numb : Nat) (w : RelRows) (o t : End) (l : Nat)
    (hone : w.aone = some o) (hoth : w.aoth = some t) (hassr : w.assr = some l)
    (hr : resolvedRel d (RelKind.linked o t l w.refsOne w.refsOth).asRel = false) (Lc : Loc RI) :
    assocsOf (callAt (relWorld d numb w) defs 5 "mk_linked_association" [.opaque, .inst (some .assoc)] Lc []) =
      .error .attributeError := by
  cases hlc : findClass d l with
  | none => exact linked_no_link_class d numb w o t l hone hoth hassr hlc Lc
  | some lc => exact linked_unresolved_side d numb w o t l lc hone hoth hassr hlc hr Lc

end Pyx.XShape
