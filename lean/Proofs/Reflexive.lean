import PyxModel.Reflexive
import Proofs.Query
import Proofs.Meta

/-! helper lemmas for C16 -/
namespace Pyx.Reflexive
open Pyx.Meta Pyx.Query

/-- consecutive members of the list are related by `R` -/
def Adj {α : Type} (R : α → α → Prop) : List α → Prop
  | a :: b :: rest => R a b ∧ Adj R (b :: rest)
  | _ => True

theorem adj_append_singleton {α : Type} (R : α → α → Prop) : ∀ (l : List α) (x : α),
    Adj R (l ++ [x]) ↔ Adj R l ∧ (∀ y, l.getLast? = some y → R y x)
  | [], x => by simp [Adj]
  | [a], x => by simp [Adj]
  | a :: b :: rest, x => by
    have ih := adj_append_singleton R (b :: rest) x
    simp only [List.cons_append, Adj] at ih ⊢
    rw [ih]
    have hl : (a :: b :: rest).getLast? = (b :: rest).getLast? := by simp [List.getLast?_cons_cons]
    rw [hl]
    exact and_assoc.symm

theorem adj_reverse {α : Type} (R : α → α → Prop) : ∀ (l : List α), Adj R l.reverse ↔ Adj (fun a b => R b a) l
  | [] => by simp [Adj]
  | [a] => by simp [Adj]
  | a :: b :: rest => by
    have ih := adj_reverse R (b :: rest)
    rw [List.reverse_cons, adj_append_singleton, ih]
    simp only [Adj]
    constructor
    · rintro ⟨h1, h2⟩
      refine ⟨h2 b ?_, h1⟩
      simp
    · rintro ⟨h1, h2⟩
      refine ⟨h2, ?_⟩
      intro y hy
      simp at hy; subst hy; exact h1

/-- the link relation between consecutive chain members: `back a = b` and `across b = a` -/
def Succ (across back : Inst → Option Inst) (a b : Inst) : Prop := back a = some b ∧ across b = some a

/-- the `while` loop over a linked run of instances ending either at the end of a chain
    (`back last = none`) or back at the start of a ring (`back last = some first`) -/
theorem walk_run (across back : Inst → Option Inst) (set : List Inst) (first : Inst) :
    ∀ (l : List Inst) (a : Inst) (fuel : Nat), Adj (Succ across back) (a :: l) →
    (∀ y, (a :: l).getLast? = some y → back y = none ∨ back y = some first) →
    first ∉ l → l.length < fuel →
    walk back set first fuel a = (a :: l).filter (fun x => decide (x ∈ set))
  | [], a, fuel, _, hend, _, hf => by
    obtain ⟨f, rfl⟩ : ∃ f, fuel = f + 1 := ⟨fuel - 1, by simp at hf; omega⟩
    have := hend a (by simp)
    unfold walk
    rcases this with h | h
    · by_cases ha : a ∈ set <;> simp [h, ha]
    · by_cases ha : a ∈ set <;> simp [h, ha]
  | b :: rest, a, fuel, hadj, hend, hnf, hf => by
    obtain ⟨f, rfl⟩ : ∃ f, fuel = f + 1 := ⟨fuel - 1, by simp at hf; omega⟩
    have hab : back a = some b := hadj.1.1
    have hb : b ≠ first := fun h => hnf (by simp [h])
    have ih := walk_run across back set first rest b f hadj.2
      (fun y hy => hend y (by simpa [List.getLast?_cons_cons] using hy))
      (fun h => hnf (by simp [h])) (by simp at hf ⊢; omega)
    unfold walk
    simp only [hab, hb, ↓reduceIte, ih]
    by_cases ha : a ∈ set <;> simp [ha, List.filter_cons]

/-- a chain: non-empty, consecutive members linked, nothing across the phrase before the head,
    nothing along the opposite phrase after the last -/
structure IsChain (across back : Inst → Option Inst) (c : List Inst) : Prop where
  ne : c ≠ []
  adj : Adj (Succ across back) c
  head : ∀ a, c.head? = some a → across a = none
  last : ∀ z, c.getLast? = some z → back z = none

theorem IsChain.reverse {across back : Inst → Option Inst} {c : List Inst} (h : IsChain across back c) :
    IsChain back across c.reverse := by
  refine ⟨by simpa using h.ne, ?_, ?_, ?_⟩
  · rw [adj_reverse]
    have : (fun a b => Succ back across b a) = Succ across back := by
      funext a b; simp only [Succ]; exact propext ⟨fun ⟨x, y⟩ => ⟨y, x⟩, fun ⟨x, y⟩ => ⟨y, x⟩⟩
    rw [this]; exact h.adj
  · intro a ha; exact h.last a (by simpa using ha)
  · intro z hz; exact h.head z (by simpa using hz)

/-- sorting a set made up of whole chains -/
theorem flatMap_walk_chains (across back : Inst → Option Inst) (set : List Inst) (fuel : Nat) :
    ∀ (chains : List (List Inst)), (∀ c ∈ chains, IsChain across back c) → (∀ c ∈ chains, c.Nodup) →
    (∀ c ∈ chains, c.length ≤ fuel) → (∀ c ∈ chains, ∀ x ∈ c, x ∈ set) →
    (chains.filterMap List.head?).flatMap (fun first => walk back set first fuel first) = chains.flatten
  | [], _, _, _, _ => rfl
  | c :: cs, hch, hnd, hlen, hin => by
    have hc := hch c (by simp)
    obtain ⟨a, l, rfl⟩ : ∃ a l, c = a :: l := by
      cases c with
      | nil => exact absurd rfl hc.ne
      | cons a l => exact ⟨a, l, rfl⟩
    have hw := walk_run across back set a l a fuel hc.adj
      (fun y hy => Or.inl (hc.last y hy)) (List.nodup_cons.mp (hnd _ (by simp))).1
      (by have := hlen (a :: l) (by simp); simp at this; omega)
    have hfil : (a :: l).filter (fun x => decide (x ∈ set)) = a :: l := by
      apply List.filter_eq_self.mpr
      intro x hx; simpa using hin (a :: l) (by simp) x hx
    simp only [List.filterMap_cons, List.head?_cons, List.flatMap_cons, List.flatten_cons, hw, hfil]
    congr 1
    exact flatMap_walk_chains across back set fuel cs (fun c' h' => hch c' (by simp [h']))
      (fun c' h' => hnd c' (by simp [h'])) (fun c' h' => hlen c' (by simp [h']))
      (fun c' h' => hin c' (by simp [h']))

theorem filterMap_head_ne_nil {cs : List (List Inst)} (h : cs ≠ []) (hne : ∀ c ∈ cs, c ≠ []) :
    cs.filterMap List.head? ≠ [] := by
  cases cs with
  | nil => exact absurd rfl h
  | cons c cs =>
    cases c with
    | nil => exact absurd rfl (hne [] (by simp))
    | cons a l => simp

end Pyx.Reflexive

namespace Pyx.Reflexive
open Pyx.Meta

/-- a duplicate-free list of naturals below `N` has at most `N` elements -/
theorem nodup_bound : ∀ (N : Nat) (l : List Nat), l.Nodup → (∀ x ∈ l, x < N) → l.length ≤ N
  | 0, l, _, h => by
    cases l with
    | nil => simp
    | cons a l => exact absurd (h a (by simp)) (by omega)
  | N + 1, l, hnd, h => by
    have h1 := nodup_bound N (l.erase N) (hnd.erase N) (by
      intro x hx
      have hx' := (hnd.mem_erase_iff.1 hx)
      have := h x hx'.2
      have hne : x ≠ N := hx'.1
      omega)
    have := List.length_erase_le (a := N) (l := l)
    by_cases hN : N ∈ l
    · rw [List.length_erase_of_mem hN] at h1; omega
    · rw [List.erase_of_not_mem hN] at h1; omega

/-- the visited part of a walk: duplicate-free, below `N`, containing the start and the current end,
    every visited node other than the start having its predecessor among the visited nodes other than
    the current end -/
structure WalkInv (back : Inst → Option Inst) (N : Nat) (first x : Inst) (visited : List Inst) : Prop where
  nodup : visited.Nodup
  bound : ∀ v ∈ visited, v < N
  cur : x ∈ visited
  pred : ∀ v ∈ visited, v ≠ first → ∃ p ∈ visited, p ≠ x ∧ back p = some v

/-- with injective links over `N` instances the loop ends: more fuel than the number of instances
    still unvisited never changes the result -/
theorem walk_stable (back : Inst → Option Inst) (set : List Inst) (N : Nat) (first : Inst)
    (hinj : ∀ a b c, back a = some c → back b = some c → a = b) (hbound : ∀ a b, back a = some b → b < N) :
    ∀ (d : Nat) (visited : List Inst) (x : Inst), WalkInv back N first x visited → N - visited.length ≤ d →
    ∀ fuel, d + 1 ≤ fuel → walk back set first fuel x = walk back set first (d + 1) x
  | d, visited, x, inv, hd, fuel, hf => by
    obtain ⟨f, rfl⟩ : ∃ f, fuel = f + 1 := ⟨fuel - 1, by omega⟩
    rw [walk, walk]
    congr 1
    cases hb : back x with
    | none => rfl
    | some y =>
      simp only
      by_cases hy : y = first
      · simp [hy]
      · simp only [hy, ↓reduceIte]
        have hynv : y ∉ visited := by
          intro hyv
          obtain ⟨p, _, hpx, hp⟩ := inv.pred y hyv hy
          exact hpx (hinj p x y hp hb)
        have inv' : WalkInv back N first y (y :: visited) := by
          refine ⟨List.nodup_cons.mpr ⟨hynv, inv.nodup⟩, ?_, by simp, ?_⟩
          · intro v hv
            rcases List.mem_cons.mp hv with rfl | hv
            · exact hbound x _ hb
            · exact inv.bound v hv
          · intro v hv hvf
            rcases List.mem_cons.mp hv with rfl | hv
            · exact ⟨x, by simp [inv.cur], fun h => hynv (h ▸ inv.cur), hb⟩
            · obtain ⟨p, hpv, _, hp⟩ := inv.pred v hv hvf
              exact ⟨p, by simp [hpv], fun h => hynv (h ▸ hpv), hp⟩
        have hlen := nodup_bound N (y :: visited) inv'.nodup inv'.bound
        simp only [List.length_cons] at hlen
        cases d with
        | zero => omega
        | succ d' =>
          exact walk_stable back set N first hinj hbound d' (y :: visited) y inv'
            (by simp only [List.length_cons]; omega) f (by omega)

end Pyx.Reflexive

namespace Pyx.Reflexive
open Pyx.Meta

/-- C02's invariant makes the partner functions of a one-to-one association injective: two instances with
    the same partner across the target link are the same instance (the partner's source list is
    duplicate-free, symmetric and holds at most one element) -/
theorem tgt_head_injective {a : AssocSpec} {l : ALinks} (hinv : AInv a l) (hone : a.srcMany = false)
    (x y c : Inst) (hx : (l.tgt x).head? = some c) (hy : (l.tgt y).head? = some c) : x = y := by
  have hxc : c ∈ l.tgt x := List.mem_of_mem_head? hx
  have hyc : c ∈ l.tgt y := List.mem_of_mem_head? hy
  have h1 : x ∈ l.src c := (hinv.1 c x).2 hxc
  have h2 : y ∈ l.src c := (hinv.1 c y).2 hyc
  have hlen := hinv.2.2.1 hone c
  match hl : l.src c, hlen, h1, h2 with
  | [], _, h1, _ => simp [hl] at h1
  | [z], _, h1, h2 => simp [hl] at h1 h2; rw [h1, h2]
  | _ :: _ :: _, hlen, _, _ => simp [hl] at hlen

theorem src_head_injective {a : AssocSpec} {l : ALinks} (hinv : AInv a l) (hone : a.tgtMany = false)
    (x y c : Inst) (hx : (l.src x).head? = some c) (hy : (l.src y).head? = some c) : x = y := by
  have hxc : c ∈ l.src x := List.mem_of_mem_head? hx
  have hyc : c ∈ l.src y := List.mem_of_mem_head? hy
  have h1 : x ∈ l.tgt c := (hinv.1 x c).1 hxc
  have h2 : y ∈ l.tgt c := (hinv.1 y c).1 hyc
  have hlen := hinv.2.2.2 hone c
  match hl : l.tgt c, hlen, h1, h2 with
  | [], _, h1, _ => simp [hl] at h1
  | [z], _, h1, h2 => simp [hl] at h1 h2; rw [h1, h2]
  | _ :: _ :: _, hlen, _, _ => simp [hl] at hlen

end Pyx.Reflexive

/-! ### extension: the state-level sort computes the abstract one (link to C09's key resolution and C02's invariant) -/
namespace Pyx.Reflexive
open Pyx.Meta Pyx.Query

/-- association number `i` of the schema is a reflexive association `a` on class `k`, with two different
    phrases; the link keys of class `k` are pairwise distinct and no other association carries its rel id -/
structure ReflexiveAt (sch : Schema) (i : Nat) (a : AssocSpec) (k : Kind) : Prop where
  get : sch[i]? = some a
  src : a.srcKind = k
  tgt : a.tgtKind = k
  phr : a.srcPhrase ≠ a.tgtPhrase
  keys : KeysDistinct (linkEntriesFrom k 0 sch)
  relUnique : ∀ j b, sch[j]? = some b → b.rel = a.rel → j = i

theorem lookup_srcPhrase {sch : Schema} {i : Nat} {a : AssocSpec} {k : Kind} (h : ReflexiveAt sch i a k) :
    lookupKey (linkDict sch k) k a.rel a.srcPhrase =
      some { toKind := k, rel := a.rel, phrase := a.srcPhrase, assoc := i, isSrc := false } := by
  have hm := (mem_linkEntriesFrom k sch 0 i a h.get).2 h.src
  rw [Nat.zero_add, h.tgt] at hm
  rw [linkDict_distinct sch k h.keys]
  exact lookupKey_of_mem _ _ h.keys hm

theorem lookup_tgtPhrase {sch : Schema} {i : Nat} {a : AssocSpec} {k : Kind} (h : ReflexiveAt sch i a k) :
    lookupKey (linkDict sch k) k a.rel a.tgtPhrase =
      some { toKind := k, rel := a.rel, phrase := a.tgtPhrase, assoc := i, isSrc := true } := by
  have hm := (mem_linkEntriesFrom k sch 0 i a h.get).1 h.tgt
  rw [Nat.zero_add, h.src] at hm
  rw [linkDict_distinct sch k h.keys]
  exact lookupKey_of_mem _ _ h.keys hm

/-- across the source phrase the partner is the head of the instance's target-link list, across the target
    phrase the head of its source-link list -/
theorem partner_srcPhrase {sch : Schema} {i : Nat} {a : AssocSpec} {k : Kind} (h : ReflexiveAt sch i a k)
    (s : State) (x : Inst) (hx : s.kindOf x = k) :
    partner sch s k a.rel a.srcPhrase x = ((s.links i).tgt x).head? := by
  unfold partner
  rw [navigate_direct' sch s x k a.rel a.srcPhrase _ (by rw [hx]; exact lookup_srcPhrase h)]
  simp [followEntry]

theorem partner_tgtPhrase {sch : Schema} {i : Nat} {a : AssocSpec} {k : Kind} (h : ReflexiveAt sch i a k)
    (s : State) (x : Inst) (hx : s.kindOf x = k) :
    partner sch s k a.rel a.tgtPhrase x = ((s.links i).src x).head? := by
  unfold partner
  rw [navigate_direct' sch s x k a.rel a.tgtPhrase _ (by rw [hx]; exact lookup_tgtPhrase h)]
  simp [followEntry]

theorem linkEntriesFrom_origin (k : Kind) : ∀ (sch : Schema) (j : Nat) (e : LinkEntry), e ∈ linkEntriesFrom k j sch →
    ∃ (i' : Nat) (b : AssocSpec), sch[i']? = some b ∧ e.rel = b.rel ∧ (e.phrase = b.tgtPhrase ∨ e.phrase = b.srcPhrase)
  | [], _, _, h => by simp [linkEntriesFrom] at h
  | b :: rest, j, e, h => by
    simp only [linkEntriesFrom, List.mem_append] at h
    rcases h with (h | h) | h
    · split at h
      · simp only [List.mem_singleton] at h; subst h
        exact ⟨0, b, rfl, rfl, Or.inl rfl⟩
      · simp at h
    · split at h
      · simp only [List.mem_singleton] at h; subst h
        exact ⟨0, b, rfl, rfl, Or.inr rfl⟩
      · simp at h
    · obtain ⟨i', b', hg, hr, hp⟩ := linkEntriesFrom_origin k rest (j + 1) e h
      exact ⟨i' + 1, b', by simp only [List.getElem?_cons_succ]; exact hg, hr, hp⟩

theorem otherPhrase_of {sch : Schema} {i : Nat} {a : AssocSpec} {k : Kind} (h : ReflexiveAt sch i a k)
    (p q : String) (hpq : (p = a.srcPhrase ∧ q = a.tgtPhrase) ∨ (p = a.tgtPhrase ∧ q = a.srcPhrase)) :
    otherPhrase sch k a.rel p = some q := by
  have hpq' : p ≠ q := by
    rcases hpq with ⟨rfl, rfl⟩ | ⟨rfl, rfl⟩
    · exact h.phr
    · exact fun e => h.phr e.symm
  unfold otherPhrase
  rw [linkDict_distinct sch k h.keys]
  -- the entry under phrase `q` exists and matches
  have hq : ∃ e ∈ linkEntriesFrom k 0 sch, e.toKind = k ∧ e.rel = a.rel ∧ e.phrase = q := by
    rcases hpq with ⟨_, rfl⟩ | ⟨_, rfl⟩
    · have hm := (mem_linkEntriesFrom k sch 0 i a h.get).1 h.tgt
      exact ⟨_, hm, h.src, rfl, rfl⟩
    · have hm := (mem_linkEntriesFrom k sch 0 i a h.get).2 h.src
      exact ⟨_, hm, h.tgt, rfl, rfl⟩
  cases hf : (linkEntriesFrom k 0 sch).find? (fun e => e.toKind == k && e.rel == a.rel && e.phrase != p) with
  | none =>
    exfalso
    obtain ⟨e, he, h1, h2, h3⟩ := hq
    have := List.find?_eq_none.mp hf e he
    have hqp : ¬ q = p := fun e' => hpq' e'.symm
    simp [h1, h2, h3, hqp] at this
  | some e =>
    have hpred := List.find?_some hf
    have hmem := List.mem_of_find?_eq_some hf
    simp only [Bool.and_eq_true, beq_iff_eq, bne_iff_ne, ne_eq] at hpred
    obtain ⟨i', b, hg, hr, hp⟩ := linkEntriesFrom_origin k sch 0 e hmem
    have hi : i' = i := h.relUnique i' b hg (hr ▸ hpred.1.2)
    subst hi
    have hb : b = a := by rw [h.get] at hg; exact (Option.some.inj hg).symm
    subst hb
    simp only [Option.map_some, Option.some.injEq]
    rcases hpq with ⟨rfl, rfl⟩ | ⟨rfl, rfl⟩
    · rcases hp with hp | hp
      · exact hp
      · exact absurd hp hpred.2
    · rcases hp with hp | hp
      · exact absurd hp hpred.2
      · exact hp

/-! congruence: the sort only looks at the partner functions on a set closed under `back` -/

theorem walk_congr (back back' : Inst → Option Inst) (P : Inst → Prop) (set : List Inst) (first : Inst)
    (hclosed : ∀ x y, P x → back x = some y → P y) (heq : ∀ x, P x → back' x = back x) :
    ∀ (fuel : Nat) (x : Inst), P x → walk back' set first fuel x = walk back set first fuel x
  | 0, _, _ => rfl
  | fuel + 1, x, hx => by
    unfold walk
    rw [heq x hx]
    cases hb : back x with
    | none => rfl
    | some y =>
      simp only
      by_cases hy : y = first
      · simp [hy]
      · simp only [hy, ↓reduceIte]
        rw [walk_congr back back' P set first hclosed heq fuel y (hclosed x y hx hb)]

theorem firsts_subset (across : Inst → Option Inst) (set : List Inst) : ∀ x ∈ firsts across set, x ∈ set := by
  intro first hfirst
  simp only [firsts] at hfirst
  by_cases he : (set.filter (fun x => (across x).isNone)).isEmpty = true
  · simp only [he, ↓reduceIte] at hfirst; exact List.mem_of_mem_take hfirst
  · simp only [he, ↓reduceIte] at hfirst; exact (List.mem_filter.mp hfirst).1

theorem flatMap_congr' {α β : Type} (f g : α → List β) : ∀ (l : List α), (∀ x ∈ l, f x = g x) →
    l.flatMap f = l.flatMap g
  | [], _ => rfl
  | a :: l, h => by
    simp only [List.flatMap_cons, h a (by simp), flatMap_congr' f g l (fun x hx => h x (by simp [hx]))]

theorem sortReflexive_congr (across across' back back' : Inst → Option Inst) (P : Inst → Prop) (set : List Inst)
    (hset : ∀ x ∈ set, P x) (hclosed : ∀ x y, P x → back x = some y → P y)
    (hacross : ∀ x, P x → across' x = across x) (hback : ∀ x, P x → back' x = back x) (fuel : Nat) :
    sortReflexive across' back' set fuel = sortReflexive across back set fuel := by
  have hf : firsts across' set = firsts across set := by
    unfold firsts
    have : set.filter (fun x => (across' x).isNone) = set.filter (fun x => (across x).isNone) := by
      apply List.filter_congr
      intro x hx; rw [hacross x (hset x hx)]
    rw [this]
  unfold sortReflexive
  rw [hf]
  congr 1
  apply flatMap_congr'
  intro first hfirst
  exact walk_congr back back' P set first hclosed hback fuel first (hset first (firsts_subset across set first hfirst))

end Pyx.Reflexive
