import PyxModel.Reflexive
import Proofs.Query
import Proofs.Meta

/-! helper lemmas for C16 -/
namespace Pyx.Reflexive
open Pyx.Meta Pyx.Query

/-- consecutive members of the list are related by `R` -/
def Adj {α : Type} (R : α → α → Prop) : List α → Prop
  | a :: b :: rest => R a b ∧ Adj R (b :: rest)
  | _ => True

theorem adj_append_singleton {α : Type} (R : α → α → Prop) : ∀ (l : List α) (x : α),
    Adj R (l ++ [x]) ↔ Adj R l ∧ (∀ y, l.getLast? = some y → R y x)
  | [], x => by simp [Adj]
  | [a], x => by simp [Adj]
  | a :: b :: rest, x => by
    have ih := adj_append_singleton R (b :: rest) x
    simp only [List.cons_append, Adj] at ih ⊢
    rw [ih]
    have hl : (a :: b :: rest).getLast? = (b :: rest).getLast? := by simp [List.getLast?_cons_cons]
    rw [hl]
    exact and_assoc.symm

theorem adj_reverse {α : Type} (R : α → α → Prop) : ∀ (l : List α), Adj R l.reverse ↔ Adj (fun a b => R b a) l
  | [] => by simp [Adj]
  | [a] => by simp [Adj]
  | a :: b :: rest => by
    have ih := adj_reverse R (b :: rest)
    rw [List.reverse_cons, adj_append_singleton, ih]
    simp only [Adj]
    constructor
    · rintro ⟨h1, h2⟩
      refine ⟨h2 b ?_, h1⟩
      simp
    · rintro ⟨h1, h2⟩
      refine ⟨h2, ?_⟩
      intro y hy
      simp at hy; subst hy; exact h1

/-- the link relation between consecutive chain members: `back a = b` and `across b = a` -/
def Succ (across back : Inst → Option Inst) (a b : Inst) : Prop := back a = some b ∧ across b = some a

/-- the `while` loop over a linked run of instances ending either at the end of a chain
    (`back last = none`) or back at the start of a ring (`back last = some first`) -/
theorem walk_run (across back : Inst → Option Inst) (set : List Inst) (first : Inst) :
    ∀ (l : List Inst) (a : Inst) (fuel : Nat), Adj (Succ across back) (a :: l) →
    (∀ y, (a :: l).getLast? = some y → back y = none ∨ back y = some first) →
    first ∉ l → l.length < fuel →
    walk back set first fuel a = (a :: l).filter (fun x => decide (x ∈ set))
  | [], a, fuel, _, hend, _, hf => by
    obtain ⟨f, rfl⟩ : ∃ f, fuel = f + 1 := ⟨fuel - 1, by simp at hf; omega⟩
    have := hend a (by simp)
    unfold walk
    rcases this with h | h
    · by_cases ha : a ∈ set <;> simp [h, ha]
    · by_cases ha : a ∈ set <;> simp [h, ha]
  | b :: rest, a, fuel, hadj, hend, hnf, hf => by
    obtain ⟨f, rfl⟩ : ∃ f, fuel = f + 1 := ⟨fuel - 1, by simp at hf; omega⟩
    have hab : back a = some b := hadj.1.1
    have hb : b ≠ first := fun h => hnf (by simp [h])
    have ih := walk_run across back set first rest b f hadj.2
      (fun y hy => hend y (by simpa [List.getLast?_cons_cons] using hy))
      (fun h => hnf (by simp [h])) (by simp at hf ⊢; omega)
    unfold walk
    simp only [hab, hb, ↓reduceIte, ih]
    by_cases ha : a ∈ set <;> simp [ha, List.filter_cons]

/-- a chain: non-empty, consecutive members linked, nothing across the phrase before the head,
    nothing along the opposite phrase after the last -/
structure IsChain (across back : Inst → Option Inst) (c : List Inst) : Prop where
  ne : c ≠ []
  adj : Adj (Succ across back) c
  head : ∀ a, c.head? = some a → across a = none
  last : ∀ z, c.getLast? = some z → back z = none

theorem IsChain.reverse {across back : Inst → Option Inst} {c : List Inst} (h : IsChain across back c) :
    IsChain back across c.reverse := by
  refine ⟨by simpa using h.ne, ?_, ?_, ?_⟩
  · rw [adj_reverse]
    have : (fun a b => Succ back across b a) = Succ across back := by
      funext a b; simp only [Succ]; exact propext ⟨fun ⟨x, y⟩ => ⟨y, x⟩, fun ⟨x, y⟩ => ⟨y, x⟩⟩
    rw [this]; exact h.adj
  · intro a ha; exact h.last a (by simpa using ha)
  · intro z hz; exact h.head z (by simpa using hz)

/-- sorting a set made up of whole chains -/
theorem flatMap_walk_chains (across back : Inst → Option Inst) (set : List Inst) (fuel : Nat) :
    ∀ (chains : List (List Inst)), (∀ c ∈ chains, IsChain across back c) → (∀ c ∈ chains, c.Nodup) →
    (∀ c ∈ chains, c.length ≤ fuel) → (∀ c ∈ chains, ∀ x ∈ c, x ∈ set) →
    (chains.filterMap List.head?).flatMap (fun first => walk back set first fuel first) = chains.flatten
  | [], _, _, _, _ => rfl
  | c :: cs, hch, hnd, hlen, hin => by
    have hc := hch c (by simp)
    obtain ⟨a, l, rfl⟩ : ∃ a l, c = a :: l := by
      cases c with
      | nil => exact absurd rfl hc.ne
      | cons a l => exact ⟨a, l, rfl⟩
    have hw := walk_run across back set a l a fuel hc.adj
      (fun y hy => Or.inl (hc.last y hy)) (List.nodup_cons.mp (hnd _ (by simp))).1
      (by have := hlen (a :: l) (by simp); simp at this; omega)
    have hfil : (a :: l).filter (fun x => decide (x ∈ set)) = a :: l := by
      apply List.filter_eq_self.mpr
      intro x hx; simpa using hin (a :: l) (by simp) x hx
    simp only [List.filterMap_cons, List.head?_cons, List.flatMap_cons, List.flatten_cons, hw, hfil]
    congr 1
    exact flatMap_walk_chains across back set fuel cs (fun c' h' => hch c' (by simp [h']))
      (fun c' h' => hnd c' (by simp [h'])) (fun c' h' => hlen c' (by simp [h']))
      (fun c' h' => hin c' (by simp [h']))

theorem filterMap_head_ne_nil {cs : List (List Inst)} (h : cs ≠ []) (hne : ∀ c ∈ cs, c ≠ []) :
    cs.filterMap List.head? ≠ [] := by
  cases cs with
  | nil => exact absurd rfl h
  | cons c cs =>
    cases c with
    | nil => exact absurd rfl (hne [] (by simp))
    | cons a l => simp

end Pyx.Reflexive

namespace Pyx.Reflexive
open Pyx.Meta

/-- a duplicate-free list of naturals below `N` has at most `N` elements -/
theorem nodup_bound : ∀ (N : Nat) (l : List Nat), l.Nodup → (∀ x ∈ l, x < N) → l.length ≤ N
  | 0, l, _, h => by
    cases l with
    | nil => simp
    | cons a l => exact absurd (h a (by simp)) (by omega)
  | N + 1, l, hnd, h => by
    have h1 := nodup_bound N (l.erase N) (hnd.erase N) (by
      intro x hx
      have hx' := (hnd.mem_erase_iff.1 hx)
      have := h x hx'.2
      have hne : x ≠ N := hx'.1
      omega)
    have := List.length_erase_le (a := N) (l := l)
    by_cases hN : N ∈ l
    · rw [List.length_erase_of_mem hN] at h1; omega
    · rw [List.erase_of_not_mem hN] at h1; omega

/-- the visited part of a walk: duplicate-free, below `N`, containing the start and the current end,
    every visited node other than the start having its predecessor among the visited nodes other than
    the current end -/
structure WalkInv (back : Inst → Option Inst) (N : Nat) (first x : Inst) (visited : List Inst) : Prop where
  nodup : visited.Nodup
  bound : ∀ v ∈ visited, v < N
  cur : x ∈ visited
  pred : ∀ v ∈ visited, v ≠ first → ∃ p ∈ visited, p ≠ x ∧ back p = some v

/-- with injective links over `N` instances the loop ends: more fuel than the number of instances
    still unvisited never changes the result -/
theorem walk_stable (back : Inst → Option Inst) (set : List Inst) (N : Nat) (first : Inst)
    (hinj : ∀ a b c, back a = some c → back b = some c → a = b) (hbound : ∀ a b, back a = some b → b < N) :
    ∀ (d : Nat) (visited : List Inst) (x : Inst), WalkInv back N first x visited → N - visited.length ≤ d →
    ∀ fuel, d + 1 ≤ fuel → walk back set first fuel x = walk back set first (d + 1) x
  | d, visited, x, inv, hd, fuel, hf => by
    obtain ⟨f, rfl⟩ : ∃ f, fuel = f + 1 := ⟨fuel - 1, by omega⟩
    rw [walk, walk]
    congr 1
    cases hb : back x with
    | none => rfl
    | some y =>
      simp only
      by_cases hy : y = first
      · simp [hy]
      · simp only [hy, ↓reduceIte]
        have hynv : y ∉ visited := by
          intro hyv
          obtain ⟨p, _, hpx, hp⟩ := inv.pred y hyv hy
          exact hpx (hinj p x y hp hb)
        have inv' : WalkInv back N first y (y :: visited) := by
          refine ⟨List.nodup_cons.mpr ⟨hynv, inv.nodup⟩, ?_, by simp, ?_⟩
          · intro v hv
            rcases List.mem_cons.mp hv with rfl | hv
            · exact hbound x _ hb
            · exact inv.bound v hv
          · intro v hv hvf
            rcases List.mem_cons.mp hv with rfl | hv
            · exact ⟨x, by simp [inv.cur], fun h => hynv (h ▸ inv.cur), hb⟩
            · obtain ⟨p, hpv, _, hp⟩ := inv.pred v hv hvf
              exact ⟨p, by simp [hpv], fun h => hynv (h ▸ hpv), hp⟩
        have hlen := nodup_bound N (y :: visited) inv'.nodup inv'.bound
        simp only [List.length_cons] at hlen
        cases d with
        | zero => omega
        | succ d' =>
          exact walk_stable back set N first hinj hbound d' (y :: visited) y inv'
            (by simp only [List.length_cons]; omega) f (by omega)

end Pyx.Reflexive

namespace Pyx.Reflexive
open Pyx.Meta

/-- C02's invariant makes the partner functions of a one-to-one association injective: two instances with
    the same partner across the target link are the same instance (the partner's source list is
    duplicate-free, symmetric and holds at most one element) -/
theorem tgt_head_injective {a : AssocSpec} {l : ALinks} (hinv : AInv a l) (hone : a.srcMany = false)
    (x y c : Inst) (hx : (l.tgt x).head? = some c) (hy : (l.tgt y).head? = some c) : x = y := by
  have hxc : c ∈ l.tgt x := List.mem_of_mem_head? hx
  have hyc : c ∈ l.tgt y := List.mem_of_mem_head? hy
  have h1 : x ∈ l.src c := (hinv.1 c x).2 hxc
  have h2 : y ∈ l.src c := (hinv.1 c y).2 hyc
  have hlen := hinv.2.2.1 hone c
  match hl : l.src c, hlen, h1, h2 with
  | [], _, h1, _ => simp [hl] at h1
  | [z], _, h1, h2 => simp [hl] at h1 h2; rw [h1, h2]
  | _ :: _ :: _, hlen, _, _ => simp [hl] at hlen

theorem src_head_injective {a : AssocSpec} {l : ALinks} (hinv : AInv a l) (hone : a.tgtMany = false)
    (x y c : Inst) (hx : (l.src x).head? = some c) (hy : (l.src y).head? = some c) : x = y := by
  have hxc : c ∈ l.src x := List.mem_of_mem_head? hx
  have hyc : c ∈ l.src y := List.mem_of_mem_head? hy
  have h1 : x ∈ l.tgt c := (hinv.1 x c).1 hxc
  have h2 : y ∈ l.tgt c := (hinv.1 y c).1 hyc
  have hlen := hinv.2.2.2 hone c
  match hl : l.tgt c, hlen, h1, h2 with
  | [], _, h1, _ => simp [hl] at h1
  | [z], _, h1, h2 => simp [hl] at h1 h2; rw [h1, h2]
  | _ :: _ :: _, hlen, _, _ => simp [hl] at hlen

end Pyx.Reflexive
