import Proofs.ExtractScript
import Proofs.XsdFuel
import PyxModel.Extract.Xsd

/-!
  C20 — helper lemmas: the XSD declarations under the edits rename / retype / move class
  (the class updates of C14) .
-/

namespace Pyx.Extract

/-- well-formedness needed for the XSD theorems: C14's, unique DT_IDs and data type names, acyclic containment and
    acyclic user-type chains (where Python would not terminate) -/
structure XWF (d : ClassDiagram) : Prop where
  wf : WF d
  dtIds : (d.dts.map (·.id)).Nodup
  dtNames : (d.dts.map (·.name)).Nodup
  /-- acyclic containment: the fuel of `is_contained_in` / `is_global` is never exhausted -/
  tree : TreeOk d.containers d.pkgrefs
  /-- acyclic user-type chains: the fuel of the `while S_UDT` loop is never exhausted -/
  chain : DtChainOk d.dts
  /-- every attribute is on the R103 chain of its class (the edit theorems address attributes through the class) -/
  noLoose : d.loose = []

theorem xclassAll_chained {d : ClassDiagram} (h : d.loose = []) (c : Class) : xclassAll d c = xclassOf d c := by
  unfold xclassAll looseOf
  rw [h]
  rfl

theorem xsdSpec_chained {d : ClassDiagram} (h : d.loose = []) (comp : Nat) : xsdSpec d comp = xsdSpecChained d comp := by
  unfold xsdSpec xsdSpecChained
  rw [funext (xclassAll_chained h)]

theorem applyXEdit_loose (e : XEdit) (d : ClassDiagram) : (applyXEdit e d).loose = d.loose := by
  cases e <;> rfl

theorem xattr_name {d : ClassDiagram} {x : Attr} {s : XAttr} (h : xattr d x = some s) : s.name = x.name := by
  unfold xattr at h
  split at h
  · cases h
  · cases hb : (attrDt d x).bind (baseTypeName d.dts) with
    | none => simp [hb] at h
    | some n => simp [hb] at h; rw [← h]

theorem xattr_of_kind {d d' : ClassDiagram} {x x' : Attr} (hk : x'.kind = x.kind)
    (ht : (attrDt d' x').bind (baseTypeName d'.dts) = (attrDt d x).bind (baseTypeName d.dts)) :
    xattr d' x' = (xattr d x).map (fun s => { s with name := x'.name }) := by
  unfold xattr
  rw [isDerived_congr hk, ht]
  split
  · rfl
  · cases (attrDt d x).bind (baseTypeName d.dts) <;> simp

theorem xattr_same {d d' : ClassDiagram} {x : Attr}
    (ht : (attrDt d' x).bind (baseTypeName d'.dts) = (attrDt d x).bind (baseTypeName d.dts)) :
    xattr d' x = xattr d x := by
  unfold xattr; rw [ht]

theorem xspec_ext {s s' : XsdSpec} (h1 : s.types = s'.types) (h2 : s.comp = s'.comp) (h3 : s.classes = s'.classes) :
    s = s' := by
  cases s; cases s'; simp_all

/-! ### rename -/

section rename
variable {d : ClassDiagram} (wf : WF d) {c a : Nat} {new : String} {kc : Class} {xa : Attr}
  (hc : findClass d c = some kc) (ha : kc.findAttr a = some xa)

theorem rn_attrDt (x x' : Attr) (hk : x'.kind = x.kind) :
    attrDt { d with classes := d.classes.map (rnG c a new) } x' = attrDt d x :=
  attrDt_congr hk (fun c' b => rn_attrKindAt c' b)

include wf hc ha in
theorem rn_xattr {x : Attr} (hx : x ∈ kc.attrs) :
    xattr { d with classes := d.classes.map (rnG c a new) } (rnH a new x) =
      (xattr d x).map (fun s => { s with name := renameKey xa.name new s.name }) := by
  rw [xattr_of_kind (d := d) (x := x) (rnH_kind x) (by rw [rn_attrDt x _ (rnH_kind x)])]
  cases hs : xattr d x with
  | none => rfl
  | some s =>
    simp only [Option.map_some, Option.some.injEq]
    rw [rnH_name wf hc ha hx, xattr_name hs]

include wf hc ha in
theorem rn_xclassOf {k : Class} (hk : k ∈ d.classes) :
    xclassOf { d with classes := d.classes.map (rnG c a new) } (rnG c a new k) =
      (fun (s : XClass) => if s.kl == kc.kl then
        { s with attrs := s.attrs.map (fun a => { a with name := renameKey xa.name new a.name }) } else s)
        (xclassOf d k) := by
  have hkl : (xclassOf d k).kl = k.kl := rfl
  simp only [hkl]
  rw [← id_eq_iff_kl_eq wf hc hk]
  by_cases h : k.id = c
  · have hkk : k = kc := wf.id_inj hk (findClass_mem hc) (by rw [h, findClass_id hc])
    subst hkk
    have hg : rnG c a new k = { k with attrs := k.attrs.map (rnH a new) } := by
      unfold rnG Class.mapAttr rnH; simp [h]
    rw [hg]
    simp only [h, beq_self_eq_true, if_true]
    unfold xclassOf
    simp only [XClass.mk.injEq, true_and]
    rw [List.filterMap_map, List.map_filterMap]
    apply filterMap_congr'
    intro x hx
    exact rn_xattr wf hc ha hx
  · have hg : rnG c a new k = k := by unfold rnG; simp [h]
    rw [hg]
    have : (k.id == c) = false := by simp [h]
    simp only [this]
    unfold xclassOf
    simp only [Bool.false_eq_true, if_false, XClass.mk.injEq, true_and]
    apply filterMap_congr'
    intro x _
    exact xattr_same (by rw [rn_attrDt x x rfl])

include wf in
theorem xrename_commutes (c a : Nat) (new : String) (comp : Nat) :
    xsdSpecChained (applyXEdit (.renameAttr c a new) d) comp =
      specEdit (xresolve d comp (.renameAttr c a new)) (xsdSpecChained d comp) := by
  simp only [xresolve]
  cases hc : findClass d c with
  | none =>
    have : applyXEdit (.renameAttr c a new) d = d := by
      unfold applyXEdit applyEdit
      exact mapClass_self (fun k hk he => absurd he (findClass_none_ne hc k hk))
    rw [this]; rfl
  | some kc =>
    dsimp only
    cases ha : kc.findAttr a with
    | none =>
      have : applyXEdit (.renameAttr c a new) d = d := by
        unfold applyXEdit applyEdit
        apply mapClass_self
        intro k hk he
        have hkk : k = kc := wf.id_inj hk (findClass_mem hc) (by rw [he, findClass_id hc])
        subst hkk
        exact mapAttr_self (findAttr_none_ne ha)
      rw [this]; rfl
    | some xa =>
      have happ : applyXEdit (.renameAttr c a new) d = { d with classes := d.classes.map (rnG c a new) } := rfl
      rw [happ]
      dsimp only
      apply xspec_ext
      · rfl
      · rfl
      · show ((d.classes.map (rnG c a new)).filter (fun k => containedIn d.containers d.pkgrefs comp k.parent)).map
            (xclassOf { d with classes := d.classes.map (rnG c a new) }) = _
        rw [List.filter_map, List.map_map]
        have hpar : ((fun (k : Class) => containedIn d.containers d.pkgrefs comp k.parent) ∘ rnG c a new) =
            (fun (k : Class) => containedIn d.containers d.pkgrefs comp k.parent) := by
          funext k; simp only [Function.comp]; unfold rnG Class.mapAttr; split <;> rfl
        rw [hpar]
        show _ = ((d.classes.filter (fun k => containedIn d.containers d.pkgrefs comp k.parent)).map (xclassOf d)).map _
        rw [List.map_map]
        apply List.map_congr_left
        intro k hk
        exact rn_xclassOf wf hc ha (List.mem_filter.mp hk).1

end rename

/-! ### move a class -/

theorem mv_attrDt {d : ClassDiagram} {c : Nat} {p : Parent} (x : Attr) :
    attrDt { d with classes := d.classes.map (mvG c p) } x = attrDt d x :=
  attrDt_congr rfl (attrKindAt_map mvG_keepsId (fun k _ b => by rw [mvG_findAttr]))

theorem mv_xclassOf {d : ClassDiagram} {c : Nat} {p : Parent} (k : Class) :
    xclassOf { d with classes := d.classes.map (mvG c p) } (mvG c p k) = xclassOf d k := by
  unfold xclassOf
  rw [mvG_kl, mvG_attrs]
  simp only [XClass.mk.injEq, true_and]
  apply filterMap_congr'
  intro x _
  exact xattr_same (by rw [mv_attrDt])

theorem xmoveClass_commutes {d : ClassDiagram} (wf : WF d) (c : Nat) (p : Parent) (comp : Nat) :
    xsdSpecChained (applyXEdit (.moveClass c p) d) comp =
      specEdit (xresolve d comp (.moveClass c p)) (xsdSpecChained d comp) := by
  simp only [xresolve]
  cases hc : findClass d c with
  | none =>
    have : applyXEdit (.moveClass c p) d = d := by
      unfold applyXEdit applyEdit
      exact mapClass_self (fun k hk he => absurd he (findClass_none_ne hc k hk))
    rw [this]; rfl
  | some kc =>
    dsimp only
    have happ : applyXEdit (.moveClass c p) d = { d with classes := d.classes.map (mvG c p) } := rfl
    rw [happ]
    obtain ⟨l1, l2, hl, hkc, h1, h2⟩ := split_at_key (fun (k : Class) => k.id) wf.clsIds hc
    have hclasses : (xsdSpecChained { d with classes := d.classes.map (mvG c p) } comp).classes =
        ((l1.filter (fun k => containedIn d.containers d.pkgrefs comp k.parent)).map (xclassOf d)) ++
        (if containedIn d.containers d.pkgrefs comp p then [xclassOf d kc] else []) ++
        ((l2.filter (fun k => containedIn d.containers d.pkgrefs comp k.parent)).map (xclassOf d)) := by
      show ((d.classes.map (mvG c p)).filter (fun k => containedIn d.containers d.pkgrefs comp k.parent)).map
          (xclassOf { d with classes := d.classes.map (mvG c p) }) = _
      rw [List.filter_map, List.map_map]
      have : (xclassOf { d with classes := d.classes.map (mvG c p) } ∘ mvG c p) = xclassOf d := by
        funext k; exact mv_xclassOf k
      rw [this, hl]
      simp only [List.filter_append, List.filter_cons, List.map_append]
      have e1 : l1.filter ((fun (k : Class) => containedIn d.containers d.pkgrefs comp k.parent) ∘ mvG c p) =
          l1.filter (fun k => containedIn d.containers d.pkgrefs comp k.parent) := by
        apply filter_congr'
        intro k hk
        have : (k.id == c) = false := by simp [h1 k hk]
        simp [mvG, this]
      have e2 : l2.filter ((fun (k : Class) => containedIn d.containers d.pkgrefs comp k.parent) ∘ mvG c p) =
          l2.filter (fun k => containedIn d.containers d.pkgrefs comp k.parent) := by
        apply filter_congr'
        intro k hk
        have : (k.id == c) = false := by simp [h2 k hk]
        simp [mvG, this]
      have e3 : ((fun (k : Class) => containedIn d.containers d.pkgrefs comp k.parent) ∘ mvG c p) kc =
          containedIn d.containers d.pkgrefs comp p := by
        simp [mvG, hkc]
      rw [e1, e2, e3]
      split <;> simp
    have hold : (xsdSpecChained d comp).classes =
        ((l1.filter (fun k => containedIn d.containers d.pkgrefs comp k.parent)).map (xclassOf d)) ++
        (if containedIn d.containers d.pkgrefs comp kc.parent then [xclassOf d kc] else []) ++
        ((l2.filter (fun k => containedIn d.containers d.pkgrefs comp k.parent)).map (xclassOf d)) := by
      show (d.classes.filter (fun k => containedIn d.containers d.pkgrefs comp k.parent)).map (xclassOf d) = _
      conv => lhs; rw [hl]
      simp only [List.filter_append, List.filter_cons, List.map_append]
      split <;> simp
    have hkl1 : ∀ k ∈ l1, k.kl ≠ kc.kl := by
      intro k hk he
      have hm : k ∈ d.classes := by rw [hl]; simp [hk]
      exact h1 k hk (by rw [wf.kl_inj hm (findClass_mem hc) he, hkc])
    have hkl2 : ∀ k ∈ l2, k.kl ≠ kc.kl := by
      intro k hk he
      have hm : k ∈ d.classes := by rw [hl]; simp [hk]
      exact h2 k hk (by rw [wf.kl_inj hm (findClass_mem hc) he, hkc])
    cases hin : containedIn d.containers d.pkgrefs comp kc.parent <;> cases hout : containedIn d.containers d.pkgrefs comp p
    · dsimp only
      apply xspec_ext
      · rfl
      · rfl
      rw [hclasses, hout]
      show _ = (xsdSpecChained d comp).classes
      rw [hold, hin]
    · dsimp only
      apply xspec_ext
      · rfl
      · rfl
      rw [hclasses, hout]
      show _ = insertAt _ (xclassOf d kc) (xsdSpecChained d comp).classes
      rw [hold, hin]
      have htw : d.classes.takeWhile (fun x => x.id != c) = l1 := by
        rw [hl]; exact takeWhile_split (fun (k : Class) => k.id) c l1 l2 kc h1 hkc
      have hpos : ((d.classes.takeWhile (fun x => x.id != c)).filter
          (fun x => containedIn d.containers d.pkgrefs comp x.parent)).length =
          ((l1.filter (fun k => containedIn d.containers d.pkgrefs comp k.parent)).map (xclassOf d)).length := by
        rw [htw]; simp
      rw [hpos]
      simp only [if_true, Bool.false_eq_true, if_false, List.append_nil, List.append_assoc, List.singleton_append]
      rw [insertAt_length]
    · dsimp only
      apply xspec_ext
      · rfl
      · rfl
      rw [hclasses, hout]
      show _ = (xsdSpecChained d comp).classes.filter (fun c => c.kl != kc.kl)
      rw [hold, hin]
      simp only [if_true, Bool.false_eq_true, if_false, List.append_nil, List.filter_append, List.filter_cons,
        List.append_assoc, List.singleton_append]
      have f1 : ((l1.filter (fun k => containedIn d.containers d.pkgrefs comp k.parent)).map (xclassOf d)).filter
          (fun s => s.kl != kc.kl) = (l1.filter (fun k => containedIn d.containers d.pkgrefs comp k.parent)).map (xclassOf d) := by
        apply List.filter_eq_self.mpr
        intro s hs
        obtain ⟨k, hk, rfl⟩ := List.mem_map.mp hs
        have := hkl1 k (List.mem_filter.mp hk).1
        simpa [xclassOf] using this
      have f2 : ((l2.filter (fun k => containedIn d.containers d.pkgrefs comp k.parent)).map (xclassOf d)).filter
          (fun s => s.kl != kc.kl) = (l2.filter (fun k => containedIn d.containers d.pkgrefs comp k.parent)).map (xclassOf d) := by
        apply List.filter_eq_self.mpr
        intro s hs
        obtain ⟨k, hk, rfl⟩ := List.mem_map.mp hs
        have := hkl2 k (List.mem_filter.mp hk).1
        simpa [xclassOf] using this
      rw [f1, f2]
      simp [xclassOf]
    · dsimp only
      apply xspec_ext
      · rfl
      · rfl
      rw [hclasses, hout]
      show _ = (xsdSpecChained d comp).classes
      rw [hold, hin]

end Pyx.Extract
