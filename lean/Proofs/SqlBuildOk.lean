import PyxModel.Sql.Build

set_option linter.unusedSimpArgs false

/-! success path of `build` (PyxModel/Sql/Build.lean): under the well-formedness conditions of the persistable domain
    every phase succeeds and the built state is a fold of per-class steps over the statement list -/
namespace Pyx.Sql

/-- kinds are compared after upper-casing (`find_metaclass`) -/
def sameKind (u : UC) (a b : Name) : Bool := u.upper a == u.upper b

/-! ### per-class effect of one statement, phase by phase -/

def identsStep (u : UC) (c : ClassB) : Stmt → ClassB
  | .createIndex kind name attrs =>
    if !attrs.isEmpty && sameKind u c.kind kind then { c with indices := dictSet name attrs c.indices } else c
  | _ => c

def assocStep (u : UC) (c : ClassB) : Stmt → ClassB
  | .createRop _ sk _ skeys _ _ _ _ _ => if sameKind u c.kind sk then { c with referential := c.referential ++ skeys } else c
  | _ => c

/-- the cells a positional INSERT stores when every value can be read -/
def specCells (u : UC) (c : ClassB) : List (Name × Name) → List Text → List Cell
  | [], _ => []
  | attrs, [] => attrs.map (fun a => initialCell c a.1)
  | (_, ty) :: attrs, v :: vs =>
    (match deserialize u ty v with
     | some x => Cell.val x
     | none => Cell.unset) :: specCells u c attrs vs

def instStep (u : UC) (c : ClassB) : Stmt → ClassB
  | .insert kind values _ => if sameKind u c.kind kind then { c with rows := c.rows ++ [specCells u c c.attrs values] } else c
  | _ => c

theorem identsStep_kind (u : UC) (c : ClassB) (st : Stmt) : (identsStep u c st).kind = c.kind := by
  cases st <;> simp only [identsStep] <;> (try split) <;> rfl
theorem identsStep_attrs (u : UC) (c : ClassB) (st : Stmt) : (identsStep u c st).attrs = c.attrs := by
  cases st <;> simp only [identsStep] <;> (try split) <;> rfl
theorem assocStep_kind (u : UC) (c : ClassB) (st : Stmt) : (assocStep u c st).kind = c.kind := by
  cases st <;> simp only [assocStep] <;> (try split) <;> rfl
theorem assocStep_attrs (u : UC) (c : ClassB) (st : Stmt) : (assocStep u c st).attrs = c.attrs := by
  cases st <;> simp only [assocStep] <;> (try split) <;> rfl
theorem instStep_kind (u : UC) (c : ClassB) (st : Stmt) : (instStep u c st).kind = c.kind := by
  cases st <;> simp only [instStep] <;> (try split) <;> rfl
theorem instStep_attrs (u : UC) (c : ClassB) (st : Stmt) : (instStep u c st).attrs = c.attrs := by
  cases st <;> simp only [instStep] <;> (try split) <;> rfl
theorem instStep_referential (u : UC) (c : ClassB) (st : Stmt) : (instStep u c st).referential = c.referential := by
  cases st <;> simp only [instStep] <;> (try split) <;> rfl

theorem foldl_kind (step : ClassB → Stmt → ClassB) (hk : ∀ c st, (step c st).kind = c.kind) :
    ∀ (stmts : List Stmt) (c : ClassB), (stmts.foldl step c).kind = c.kind := by
  intro stmts
  induction stmts with
  | nil => intro c; rfl
  | cons st rest ih => intro c; rw [List.foldl_cons, ih, hk]

theorem foldl_attrs (step : ClassB → Stmt → ClassB) (hk : ∀ c st, (step c st).attrs = c.attrs) :
    ∀ (stmts : List Stmt) (c : ClassB), (stmts.foldl step c).attrs = c.attrs := by
  intro stmts
  induction stmts with
  | nil => intro c; rfl
  | cons st rest ih => intro c; rw [List.foldl_cons, ih, hk]

/-! ### looking classes up -/

theorem find?_some_of_mem (u : UC) (s : BState) (kind : Name) (h : ∃ c ∈ s.classes, sameKind u c.kind kind = true) :
    ∃ c, s.find? u kind = some c ∧ c ∈ s.classes ∧ sameKind u c.kind kind = true := by
  obtain ⟨c, hc, hk⟩ := h
  cases hf : s.find? u kind with
  | none =>
    exfalso
    simp only [BState.find?, List.find?_eq_none] at hf
    exact hf c hc hk
  | some d =>
    refine ⟨d, rfl, ?_, ?_⟩
    · exact List.mem_of_find?_eq_some hf
    · have := List.find?_some hf; exact this

theorem find?_none_of_forall (u : UC) (s : BState) (kind : Name) (h : ∀ c ∈ s.classes, sameKind u c.kind kind = false) :
    s.find? u kind = none := by
  simp only [BState.find?, List.find?_eq_none]
  intro c hc
  have := h c hc
  simp only [sameKind] at this
  simp [this]

/-! ### phase 1 -/

/-- the classes the CREATE TABLE statements declare, in statement order -/
def newTables : List Stmt → List ClassB
  | [] => []
  | .createTable kind attrs :: rest => ⟨kind, attrs, [], [], []⟩ :: newTables rest
  | _ :: rest => newTables rest

/-- no two of the kinds are equal after upper-casing -/
def KindsDistinct (u : UC) (cs : List ClassB) : Prop := (cs.map fun c => u.upper c.kind).Nodup

theorem popClasses_ok (u : UC) : ∀ (stmts : List Stmt) (s : BState), KindsDistinct u (s.classes ++ newTables stmts) →
    (∀ c ∈ newTables stmts, attrNamesOk u c.attrs = true) →
    popClasses u stmts s = .ok { s with classes := s.classes ++ newTables stmts } := by
  intro stmts
  induction stmts with
  | nil => intro s _ _; simp [popClasses, newTables]
  | cons st rest ih =>
    intro s hd hn
    cases st with
    | createTable kind attrs =>
      simp only [newTables] at hd hn ⊢
      have hnames : attrNamesOk u attrs = true := hn ⟨kind, attrs, [], [], []⟩ (by simp)
      have hnone : s.find? u kind = none := by
        apply find?_none_of_forall
        intro c hc
        simp only [KindsDistinct, List.map_append, List.map_cons] at hd
        have := (List.nodup_append.mp hd).2.2 (u.upper c.kind) (List.mem_map.mpr ⟨c, hc, rfl⟩) (u.upper kind) (by simp)
        simp only [sameKind, beq_eq_false_iff_ne]; exact this
      simp only [popClasses, defineClass, hnone, hnames, if_true]
      have := ih { s with classes := s.classes ++ [⟨kind, attrs, [], [], []⟩] } (by simpa [List.append_assoc] using hd)
        (fun c hc => hn c (by simp [hc]))
      simpa [List.append_assoc] using this
    | createRop _ _ _ _ _ _ _ _ _ =>
      simpa [popClasses, newTables] using ih s (by simpa [newTables] using hd) (by simpa [newTables] using hn)
    | createIndex _ _ _ =>
      simpa [popClasses, newTables] using ih s (by simpa [newTables] using hd) (by simpa [newTables] using hn)
    | insert _ _ _ =>
      simpa [popClasses, newTables] using ih s (by simpa [newTables] using hd) (by simpa [newTables] using hn)

/-! ### phase 2 -/

theorem update_eq_map (u : UC) (s : BState) (kind : Name) (f : ClassB → ClassB) :
    (s.update u kind f).classes = s.classes.map (fun c => if sameKind u c.kind kind then f c else c) := rfl

theorem popIdents_ok (u : UC) : ∀ (stmts : List Stmt) (s : BState),
    (∀ kind name attrs, Stmt.createIndex kind name attrs ∈ stmts → attrs ≠ [] → ∃ c ∈ s.classes, sameKind u c.kind kind = true) →
    popIdents u stmts s = .ok { s with classes := s.classes.map (fun c => stmts.foldl (identsStep u) c) } := by
  intro stmts
  induction stmts with
  | nil => intro s _; simp [popIdents]
  | cons st rest ih =>
    intro s h
    have hrest : ∀ kind name attrs, Stmt.createIndex kind name attrs ∈ rest → attrs ≠ [] →
        ∃ c ∈ s.classes, sameKind u c.kind kind = true := fun k n a hm => h k n a (by simp [hm])
    cases st with
    | createIndex kind name attrs =>
      simp only [popIdents]
      by_cases he : attrs.isEmpty
      · simp only [he, if_true]
        rw [ih s hrest]
        simp only [List.foldl_cons, identsStep, he, Bool.not_true, Bool.false_and, Bool.false_eq_true, if_false]
      · simp only [he, Bool.false_eq_true, if_false]
        have hne : attrs ≠ [] := by intro e; subst e; simp at he
        obtain ⟨c0, hf, _, _⟩ := find?_some_of_mem u s kind (h kind name attrs (by simp) hne)
        simp only [hf]
        have hstep : (s.update u kind (fun c => { c with indices := dictSet name attrs c.indices })).classes =
            s.classes.map (fun c => identsStep u c (.createIndex kind name attrs)) := by
          rw [update_eq_map]
          apply List.map_congr_left
          intro c _
          simp only [identsStep, he, Bool.not_false, Bool.true_and]
        rw [ih _ (by
          intro k n a hm hna
          obtain ⟨c, hc, hk⟩ := hrest k n a hm hna
          refine ⟨identsStep u c (.createIndex kind name attrs), ?_, by rw [identsStep_kind]; exact hk⟩
          rw [hstep]; exact List.mem_map.mpr ⟨c, hc, rfl⟩)]
        simp only [hstep, List.map_map, List.foldl_cons, Function.comp]
        rfl
    | createTable _ _ => simpa [popIdents, identsStep] using ih s hrest
    | createRop _ _ _ _ _ _ _ _ _ => simpa [popIdents, identsStep] using ih s hrest
    | insert _ _ _ => simpa [popIdents, identsStep] using ih s hrest

/-! ### phase 3 -/

def ropsOf : List Stmt → List AssocB
  | [] => []
  | .createRop rel sk sc skeys sp tk tc tkeys tp :: rest => ⟨rel, sk, sc, skeys, sp, tk, tc, tkeys, tp⟩ :: ropsOf rest
  | _ :: rest => ropsOf rest

/-- what `define_association` checks, for one CREATE ROP statement against the declared classes (both classes exist, no
    source key of the form `__x__`, key lists of equal length, every target key an attribute of the target class) -/
def RopOk (u : UC) (classes : List ClassB) (sk : Name) (skeys : List Name) (tk : Name) (tkeys : List Name) : Prop :=
  (∃ c ∈ classes, sameKind u c.kind sk = true) ∧ (∃ c ∈ classes, sameKind u c.kind tk = true) ∧
  skeys.any isDunder = false ∧ skeys.length = tkeys.length ∧
  ∀ c ∈ classes, sameKind u c.kind tk = true → ∀ k ∈ tkeys, (c.attrs.map fun a => u.upper a.1).contains (u.upper k) = true

theorem RopOk.map (u : UC) (g : ClassB → ClassB) (hk : ∀ c, (g c).kind = c.kind) (ha : ∀ c, (g c).attrs = c.attrs)
    {classes : List ClassB} {sk tk : Name} {skeys tkeys : List Name} (h : RopOk u classes sk skeys tk tkeys) :
    RopOk u (classes.map g) sk skeys tk tkeys := by
  obtain ⟨⟨c1, hc1, hk1⟩, ⟨c2, hc2, hk2⟩, hpl, hl, hall⟩ := h
  refine ⟨⟨g c1, List.mem_map.mpr ⟨c1, hc1, rfl⟩, by rw [hk]; exact hk1⟩,
    ⟨g c2, List.mem_map.mpr ⟨c2, hc2, rfl⟩, by rw [hk]; exact hk2⟩, hpl, hl, ?_⟩
  intro c hc hs k hkm
  obtain ⟨c0, hc0, rfl⟩ := List.mem_map.mp hc
  rw [ha]; rw [hk] at hs
  exact hall c0 hc0 hs k hkm

theorem popAssocs_ok (u : UC) : ∀ (stmts : List Stmt) (s : BState),
    (∀ rel sk sc skeys sp tk tc tkeys tp, Stmt.createRop rel sk sc skeys sp tk tc tkeys tp ∈ stmts →
      RopOk u s.classes sk skeys tk tkeys) →
    popAssocs u stmts s = .ok { classes := s.classes.map (fun c => stmts.foldl (assocStep u) c),
                                assocs := s.assocs ++ ropsOf stmts } := by
  intro stmts
  induction stmts with
  | nil => intro s _; simp [popAssocs, ropsOf]
  | cons st rest ih =>
    intro s h
    have hrest : ∀ rel sk sc skeys sp tk tc tkeys tp, Stmt.createRop rel sk sc skeys sp tk tc tkeys tp ∈ rest →
        RopOk u s.classes sk skeys tk tkeys := fun a b c d e f g i j hm => h a b c d e f g i j (by simp [hm])
    cases st with
    | createRop rel sk sc skeys sp tk tc tkeys tp =>
      obtain ⟨h1, h2, hpl, hl, hall⟩ := h rel sk sc skeys sp tk tc tkeys tp (by simp)
      obtain ⟨c1, hf1, _, _⟩ := find?_some_of_mem u s sk h1
      obtain ⟨c2, hf2, hm2, hk2⟩ := find?_some_of_mem u s tk h2
      have hkeys : tkeys.all (fun k => (c2.attrs.map (fun a => u.upper a.1)).contains (u.upper k)) = true := by
        rw [List.all_eq_true]; intro k hk; exact hall c2 hm2 hk2 k hk
      have hstep : (s.update u sk (fun c => { c with referential := c.referential ++ skeys })).classes =
          s.classes.map (fun c => assocStep u c (.createRop rel sk sc skeys sp tk tc tkeys tp)) := by
        rw [update_eq_map]; rfl
      simp only [popAssocs, hf1, hf2, hpl, hl, bne_self_eq_false, Bool.false_eq_true, if_false, hkeys, if_true]
      rw [ih _ (by
        intro a b c d e f g i j hm
        have := RopOk.map u (fun c => assocStep u c (.createRop rel sk sc skeys sp tk tc tkeys tp))
          (fun c => assocStep_kind u c _) (fun c => assocStep_attrs u c _) (hrest a b c d e f g i j hm)
        simpa [hstep] using this)]
      simp only [hstep, List.map_map, List.foldl_cons, Function.comp, ropsOf, List.append_assoc, List.singleton_append]
      rfl
    | createTable _ _ => simpa [popAssocs, assocStep, ropsOf] using ih s hrest
    | createIndex _ _ _ => simpa [popAssocs, assocStep, ropsOf] using ih s hrest
    | insert _ _ _ => simpa [popAssocs, assocStep, ropsOf] using ih s hrest

/-! ### phase 4 -/

/-- every value of a positional row can be read for the type of its column -/
def CellsOk (u : UC) : List (Name × Name) → List Text → Prop
  | [], _ => True
  | _ :: _, [] => True
  | (_, ty) :: attrs, v :: vs => (deserialize u ty v).isSome = true ∧ CellsOk u attrs vs

theorem positionalCells_ok (u : UC) (c : ClassB) : ∀ (attrs : List (Name × Name)) (values : List Text), CellsOk u attrs values →
    positionalCells u c attrs values = .ok (specCells u c attrs values) := by
  intro attrs
  induction attrs with
  | nil => intro values _; simp [positionalCells, specCells]
  | cons a attrs ih =>
    intro values h
    obtain ⟨nm, ty⟩ := a
    cases values with
    | nil => simp [positionalCells, specCells]
    | cons v vs =>
      obtain ⟨h1, h2⟩ := h
      cases hd : deserialize u ty v with
      | none => rw [hd] at h1; simp at h1
      | some x => simp only [positionalCells, specCells, hd, ih vs h2]

/-- what one positional INSERT needs: its class is declared, all attribute types are known to `default_value`
    (or the attribute is referential), all values can be read -/
def InsertOk (u : UC) (classes : List ClassB) (kind : Name) (values : List Text) : Prop :=
  (∃ c ∈ classes, sameKind u c.kind kind = true) ∧
  ∀ c ∈ classes, sameKind u c.kind kind = true → newRowOk u c = true ∧ CellsOk u c.attrs values

theorem eq_of_nodup_map {α β : Type} (f : α → β) : ∀ (l : List α), (l.map f).Nodup → ∀ a ∈ l, ∀ b ∈ l, f a = f b → a = b := by
  intro l
  induction l with
  | nil => intro _ a ha; simp at ha
  | cons x xs ih =>
    intro hn a ha b hb hab
    simp only [List.map_cons, List.nodup_cons, List.mem_map, not_exists, not_and] at hn
    simp only [List.mem_cons] at ha hb
    rcases ha with rfl | ha <;> rcases hb with rfl | hb
    · rfl
    · exact absurd hab.symm (hn.1 b hb)
    · exact absurd hab (hn.1 a ha)
    · exact ih hn.2 a ha b hb hab

theorem eq_of_sameKind (u : UC) {classes : List ClassB} (hd : KindsDistinct u classes) {c d : ClassB} (hc : c ∈ classes)
    (hdm : d ∈ classes) {kind : Name} (h1 : sameKind u c.kind kind = true) (h2 : sameKind u d.kind kind = true) : c = d := by
  simp only [sameKind, beq_iff_eq] at h1 h2
  exact eq_of_nodup_map (fun c : ClassB => u.upper c.kind) classes hd c hc d hdm (h1.trans h2.symm)

theorem popInstances_ok (u : UC) : ∀ (stmts : List Stmt) (s : BState), KindsDistinct u s.classes →
    (∀ kind values names, Stmt.insert kind values names ∈ stmts → isNamed names = false ∧ InsertOk u s.classes kind values) →
    popInstances u stmts s = .ok { s with classes := s.classes.map (fun c => stmts.foldl (instStep u) c) } := by
  intro stmts
  induction stmts with
  | nil => intro s _ _; simp [popInstances]
  | cons st rest ih =>
    intro s hd h
    have hrest : ∀ kind values names, Stmt.insert kind values names ∈ rest → isNamed names = false ∧ InsertOk u s.classes kind values :=
      fun k v n hm => h k v n (by simp [hm])
    cases st with
    | insert kind values names =>
      obtain ⟨hnamed, ⟨hex, hall⟩⟩ := h kind values names (by simp)
      obtain ⟨c0, hf, hm0, hk0⟩ := find?_some_of_mem u s kind hex
      obtain ⟨hrow, hcells⟩ := hall c0 hm0 hk0
      have hens : ensureClass u s kind false (names.getD []) values = s := by simp [ensureClass, hf]
      have hinf : inferOk u s kind false (names.getD []) values = true := by simp [inferOk, hf]
      have hgs : guessOk u s kind values = true := by simp [guessOk, hf]
      have hstep : (s.update u kind (fun c => { c with rows := c.rows ++ [specCells u c0 c0.attrs values] })).classes =
          s.classes.map (fun c => instStep u c (.insert kind values names)) := by
        rw [update_eq_map]
        apply List.map_congr_left
        intro c hc
        simp only [instStep]
        by_cases hk : sameKind u c.kind kind = true
        · have : c = c0 := eq_of_sameKind u hd hc hm0 hk hk0
          subst this; simp [hk]
        · simp [hk]
      have hpop : popInstance u s kind values names =
          .ok (s.update u kind (fun c => { c with rows := c.rows ++ [specCells u c0 c0.attrs values] })) := by
        simp only [popInstance, hnamed, Bool.false_and, Bool.false_eq_true, if_false, hinf, hgs, hens, hf, hrow, Bool.not_true,
          cellsOf, positionalCells_ok u c0 c0.attrs values hcells]
      simp only [popInstances, hpop]
      have hd' : KindsDistinct u (s.classes.map (fun c => instStep u c (.insert kind values names))) := by
        unfold KindsDistinct at hd ⊢
        rw [List.map_map]
        have : (fun c => u.upper c.kind) ∘ (fun c => instStep u c (.insert kind values names)) = fun c => u.upper c.kind := by
          funext c; simp only [Function.comp, instStep_kind]
        rw [this]; exact hd
      rw [ih _ (by rw [hstep]; exact hd') (by
        intro k v n hm
        obtain ⟨hn, ⟨c, hc, hk⟩, hal⟩ := hrest k v n hm
        refine ⟨hn, ⟨instStep u c (.insert kind values names), ?_, by rw [instStep_kind]; exact hk⟩, ?_⟩
        · rw [hstep]; exact List.mem_map.mpr ⟨c, hc, rfl⟩
        · intro c' hc' hk'
          rw [hstep] at hc'
          obtain ⟨c1, hc1, rfl⟩ := List.mem_map.mp hc'
          rw [instStep_kind] at hk'
          have := hal c1 hc1 hk'
          simpa [newRowOk, instStep_attrs, instStep_referential] using this)]
      simp only [hstep, List.map_map, List.foldl_cons, Function.comp]
      rfl
    | createTable _ _ => simpa [popInstances, instStep] using ih s hd hrest
    | createIndex _ _ _ => simpa [popInstances, instStep] using ih s hd hrest
    | createRop _ _ _ _ _ _ _ _ _ => simpa [popInstances, instStep] using ih s hd hrest

/-! ### the whole build -/

/-- the well-formedness of a statement list under which `build` succeeds: class names distinct after upper-casing,
    and so are the attribute names within each class;
    identifiers (with attributes) and associations name declared classes, key lists of equal length, target keys
    attributes of the target class; every INSERT is positional, into a declared class whose attribute types are core
    types, with values that can be read for the type of their column; no attribute name and no source key of the form
    `__x__` (part of `attrNamesOk` and `RopOk`: `define_class` / `define_association` raise for them) -/
structure BuildOk (u : UC) (stmts : List Stmt) : Prop where
  distinct : KindsDistinct u (newTables stmts)
  attrNames : ∀ c ∈ newTables stmts, attrNamesOk u c.attrs = true
  idents : ∀ kind name attrs, Stmt.createIndex kind name attrs ∈ stmts → attrs ≠ [] →
    ∃ c ∈ newTables stmts, sameKind u c.kind kind = true
  rops : ∀ rel sk sc skeys sp tk tc tkeys tp, Stmt.createRop rel sk sc skeys sp tk tc tkeys tp ∈ stmts →
    RopOk u (newTables stmts) sk skeys tk tkeys
  inserts : ∀ kind values names, Stmt.insert kind values names ∈ stmts → isNamed names = false ∧
    (∃ c ∈ newTables stmts, sameKind u c.kind kind = true) ∧
    ∀ c ∈ newTables stmts, sameKind u c.kind kind = true →
      (∀ a ∈ c.attrs, (tyOfName u a.2).isSome = true) ∧ CellsOk u c.attrs values

/-- a declared class after the identifier, association and instance phases -/
def builtClass (u : UC) (stmts : List Stmt) (c : ClassB) : ClassB :=
  stmts.foldl (instStep u) (stmts.foldl (assocStep u) (stmts.foldl (identsStep u) c))

theorem builtClass_kind (u : UC) (stmts : List Stmt) (c : ClassB) : (builtClass u stmts c).kind = c.kind := by
  unfold builtClass
  rw [foldl_kind _ (instStep_kind u), foldl_kind _ (assocStep_kind u), foldl_kind _ (identsStep_kind u)]

theorem builtClass_attrs (u : UC) (stmts : List Stmt) (c : ClassB) : (builtClass u stmts c).attrs = c.attrs := by
  unfold builtClass
  rw [foldl_attrs _ (instStep_attrs u), foldl_attrs _ (assocStep_attrs u), foldl_attrs _ (identsStep_attrs u)]

/-- phases 1–4 of a well-formed statement list succeed, and the state holds exactly the declared classes in
    statement order (attributes as declared), each with the identifiers, referential attributes and rows its statements
    give it in statement order, and the associations in statement order -/
theorem buildCore_ok (u : UC) (stmts : List Stmt) (h : BuildOk u stmts) :
    buildCore u stmts = .ok { classes := (newTables stmts).map (builtClass u stmts), assocs := ropsOf stmts } := by
  unfold buildCore
  have h1 := popClasses_ok u stmts BState.empty (by simpa [BState.empty] using h.distinct) h.attrNames
  simp only [BState.empty, List.nil_append] at h1
  simp only [BState.empty, h1]
  -- phase 2
  have h2 := popIdents_ok u stmts { classes := newTables stmts, assocs := [] } h.idents
  simp only [h2]
  -- phase 3
  let g2 : ClassB → ClassB := fun c => stmts.foldl (identsStep u) c
  have h3 := popAssocs_ok u stmts { classes := (newTables stmts).map g2, assocs := [] } (by
    intro a b c d e f g i j hm
    exact RopOk.map u g2 (fun c => foldl_kind _ (identsStep_kind u) stmts c) (fun c => foldl_attrs _ (identsStep_attrs u) stmts c)
      (h.rops a b c d e f g i j hm))
  simp only [g2] at h3
  simp only [h3, List.nil_append, List.map_map]
  -- phase 4
  let g3 : ClassB → ClassB := (fun c => stmts.foldl (assocStep u) c) ∘ (fun c => stmts.foldl (identsStep u) c)
  have hk3 : ∀ c, (g3 c).kind = c.kind := fun c => by
    simp only [g3, Function.comp]; rw [foldl_kind _ (assocStep_kind u), foldl_kind _ (identsStep_kind u)]
  have ha3 : ∀ c, (g3 c).attrs = c.attrs := fun c => by
    simp only [g3, Function.comp]; rw [foldl_attrs _ (assocStep_attrs u), foldl_attrs _ (identsStep_attrs u)]
  have hd3 : KindsDistinct u ((newTables stmts).map g3) := by
    have := h.distinct
    unfold KindsDistinct at this ⊢
    rw [List.map_map]
    have e : (fun c => u.upper c.kind) ∘ g3 = fun c : ClassB => u.upper c.kind := by
      funext c; simp only [Function.comp]; rw [hk3]
    rw [e]; exact this
  have h4 := popInstances_ok u stmts { classes := (newTables stmts).map g3, assocs := ropsOf stmts } hd3 (by
    intro k v n hm
    obtain ⟨hn, ⟨c, hc, hk⟩, hall⟩ := h.inserts k v n hm
    refine ⟨hn, ⟨g3 c, List.mem_map.mpr ⟨c, hc, rfl⟩, by rw [hk3]; exact hk⟩, ?_⟩
    intro c' hc' hk'
    obtain ⟨c0, hc0, rfl⟩ := List.mem_map.mp hc'
    rw [hk3] at hk'
    obtain ⟨hty, hcells⟩ := hall c0 hc0 hk'
    refine ⟨?_, by rw [ha3]; exact hcells⟩
    simp only [newRowOk, ha3, List.all_eq_true, Bool.or_eq_true]
    intro a ha; exact Or.inr (hty a ha))
  simp only [g3] at h4
  rw [h4]
  simp only [List.map_map]
  rfl

end Pyx.Sql
