import Proofs.CallShapeMore

/-!
  C15 source tie, round 3 (continues Proofs/CallShapeMore.lean): the name-space forms `NS::f()` / `bridge NS::f()` and the
  enumerator access `E::name` WITHOUT a found hypothesis, against the domain exactly as the source builds it (`srcDom C`), and the
  untyped dictionary of `Domain.add_symbol` for every registration order.
-/
set_option linter.unusedSimpArgs false
set_option linter.unusedVariables false
namespace Pyx.CShape
open Pyx.Interp Pyx.Interp.M Pyx.Gen.CallShape
open Pyx.IShape (bind_run pure_run fail_run bnd_ok noMsg)

/-- an instance-based operation fetched from the class and called WITHOUT an instance (`KL::op()` on an instance-based `op`):
    the lambda's `self` is not supplied -/
theorem call_opInst_noinst (rec : Oracle) (f : Callable) (kl : Option String) (kw : List (String × Val)) :
    callCallee gen rec ⟨mk_operation_instance_based, f, kl⟩ [] (some kw) = fail "arguments of the call" := by
  simp [callCallee, mk_operation_instance_based, bindParams]

theorem iFind_implicit_noEE (C : Ctx) (ns : String) (hee : hasBridges C ns = false) (hcls : (findClass C ns).isSome = false) :
    iFind gen.domain (srcDom C) ns ["external entity", "class"] =
      untypedOf C ns := by
  show iFind domain _ _ _ = _
  rw [iFind_skip _ _ _ _ (by simp [srcDom, domOf, hee]) (.inl (by decide)),
    iFind_skip _ _ _ _ (by simp [srcDom, domOf]) (.inr (by simp [srcDom, domOf, hcls])), iFind_nil]
  simp only [srcDom, domOf, hcls, Bool.false_eq_true, ↓reduceIte]
  cases untypedOf C ns <;> rfl

theorem untypedOf_noEE (C : Ctx) (ns : String) (hee : hasBridges C ns = false) :
    untypedOf C ns = (match C.consts.lookup ns with
      | some v => some (.const v)
      | none =>
        match C.enums.find? (fun d => d.name = ns) with
        | some d => some (.enum d)
        | none => (findCallable C (fun f => f.kind = .function ∧ f.name = ns)).map Sym.fn) := by
  simp only [untypedOf, hee, Bool.false_eq_true, ↓reduceIte]
  cases C.consts.lookup ns with
  | some v => rfl
  | none => cases C.enums.find? (fun d => d.name = ns) <;> rfl

/-- `NS::name(args)` for every model, found or not, against the domain as the source builds it.  `hwf`: class-based operations
    belong to declared classes.  `hsep`: the one case where `Spec` and the source DISAGREE is excluded — an external entity NS
    that has no bridge `name` while a class NS has a class-based operation `name` (`Spec` runs the operation, the source finds the
    external entity first and fails at `getattr`): `implicit_call_disagreement_witness` in Props/C15.lean.  Up to the error text. -/
theorem implicit_call_total (C : Ctx) (rec : Oracle) (ns name : String) (args : List (String × Expr)) (c : Cfg)
    (hwf : (findClass C ns).isSome = false → findCallable C (fun f => f.kind = .classOp ns ∧ f.name = name) = none)
    (hsep : hasBridges C ns = true → findCallable C (fun f => f.kind = .bridge ns ∧ f.name = name) = none →
      findCallable C (fun f => f.kind = .classOp ns ∧ f.name = name) = none) :
    noMsg (evalStep C rec (.call (.implicit ns) name args) c) =
      noMsg (handlerE C gen (srcDom C) rec (invNode C gen (srcDom C) rec [("namespace", ns), ("action_name", name)] none args)
        accept_ImplicitInvocationNode c) := by
  cases hb : findCallable C (fun f => f.kind = .bridge ns ∧ f.name = name) with
  | some f => rw [srcDom, implicit_bridge_call_eq C (untypedOf C) rec ns name args f hb]
  | none =>
    cases hee : hasBridges C ns with
    | true =>
      have hc := hsep hee hb
      have hfind : iFind gen.domain (srcDom C) ns ["external entity", "class"] = some (.ee ns) :=
        iFind_hit _ _ _ _ _ (by simp only [srcDom, domOf, ↓reduceIte, String.reduceEq, hee])
      simp only [invNode]
      rw [← paramList_eq C gen (srcDom C) rec args]
      cshape [accept_ImplicitInvocationNode, hfind, resolveNs, hb, hc, getattrSym]
      exact noMsg_bind_fail _ _ _ c
    | false =>
      cases hcls : (findClass C ns).isSome with
      | false =>
        have hc := hwf hcls
        have hfind := iFind_implicit_noEE C ns hee hcls
        rw [untypedOf_noEE C ns hee] at hfind
        simp only [invNode]
        rw [← paramList_eq C gen (srcDom C) rec args]
        cases hk : C.consts.lookup ns with
        | some v =>
          simp only [hk] at hfind
          cshape [accept_ImplicitInvocationNode, hfind, resolveNs, hb, hc, getattrSym]
          exact noMsg_bind_fail _ _ _ c
        | none =>
          cases he : C.enums.find? (fun d => d.name = ns) with
          | some d =>
            simp only [hk, he] at hfind
            have hn : gen.enumNumbering = .rangeLen := rfl
            cases hp : posOf name d.enumerators with
            | none =>
              cshape [accept_ImplicitInvocationNode, hfind, resolveNs, hb, hc, getattrSym, hn, hp]
              exact noMsg_bind_fail _ _ _ c
            | some k =>
              cshape [accept_ImplicitInvocationNode, hfind, resolveNs, hb, hc, getattrSym, hn, hp]
              exact noMsg_bind_fail _ _ _ c
          | none =>
            cases hf : findCallable C (fun f => f.kind = .function ∧ f.name = ns) with
            | some f =>
              simp only [hk, he, hf, Option.map_some] at hfind
              cshape [accept_ImplicitInvocationNode, hfind, resolveNs, hb, hc, getattrSym]
              exact noMsg_bind_fail _ _ _ c
            | none =>
              simp only [hk, he, hf, Option.map_none] at hfind
              cshape [accept_ImplicitInvocationNode, hfind, resolveNs, hb, hc, getattrSym]
              exact noMsg_bind_fail _ _ _ c
      | true =>
        cases hc : findCallable C (fun f => f.kind = .classOp ns ∧ f.name = name) with
        | some f => rw [srcDom, implicit_classOp_call_eq C (untypedOf C) rec ns name args f hee hcls hc]
        | none =>
          have hfind : iFind gen.domain (srcDom C) ns ["external entity", "class"] = some (.cls ns) := by
            show iFind domain _ _ _ = _
            rw [iFind_skip _ _ _ _ (by simp [srcDom, domOf, hee]) (.inl (by decide))]
            exact iFind_class _ _ _ _ (by simp [srcDom, domOf]) (by simp [srcDom, domOf, hcls]) (by simp [srcDom, domOf, hcls])
          simp only [invNode]
          rw [← paramList_eq C gen (srcDom C) rec args]
          cases hi : findCallable C (fun f => f.kind = .instOp ns ∧ f.name = name) with
          | none =>
            cshape [accept_ImplicitInvocationNode, hfind, resolveNs, hb, hc, hi, getattrSym, classAttr]
            exact noMsg_bind_fail _ _ _ c
          | some f =>
            have hfn : gen.opInst = mk_operation_instance_based := rfl
            cshape [accept_ImplicitInvocationNode, hfind, resolveNs, hb, hc, hi, getattrSym, classAttr, hfn, call_opInst_noinst]
            exact noMsg_bind_fail _ _ _ c

theorem iFind_bridge_noEE (C : Ctx) (ns : String) (hee : hasBridges C ns = false) :
    iFind gen.domain (srcDom C) ns ["external entity"] =
      (match untypedOf C ns with
       | some s => some s
       | none => if (findClass C ns).isSome then some (.cls ns) else none) := by
  show iFind domain _ _ _ = _
  rw [iFind_skip _ _ _ _ (by simp [srcDom, domOf, hee]) (.inl (by decide)), iFind_nil]
  simp only [srcDom, domOf]
  cases untypedOf C ns <;> rfl

/-- `bridge NS::name(args)` for every model, found or not, against the domain as the source builds it: a bridge of the external
    entity NS; else — when NS names nothing in the untyped dictionary — the class NS through find_class and its class-based
    operation.  `hwf`: class-based operations belong to declared classes.  `hsep` excludes where `Spec` and the source DISAGREE:
    NS names something in the untyped dictionary (an external entity without a bridge `name`, a constant, an enumeration, a
    function) while a class NS has a class-based operation `name` — `Spec` runs the operation, the source stops at the symbol
    found first (`bridge_call_disagreement_witness` in Props/C15.lean).  Up to the error text. -/
theorem bridge_call_total (C : Ctx) (rec : Oracle) (ns name : String) (args : List (String × Expr)) (c : Cfg)
    (hwf : (findClass C ns).isSome = false → findCallable C (fun f => f.kind = .classOp ns ∧ f.name = name) = none)
    (hsep : untypedOf C ns ≠ none → findCallable C (fun f => f.kind = .bridge ns ∧ f.name = name) = none →
      findCallable C (fun f => f.kind = .classOp ns ∧ f.name = name) = none) :
    noMsg (evalStep C rec (.call (.bridge ns) name args) c) =
      noMsg (handlerE C gen (srcDom C) rec (invNode C gen (srcDom C) rec [("namespace", ns), ("action_name", name)] none args)
        accept_BridgeInvocationNode c) := by
  cases hb : findCallable C (fun f => f.kind = .bridge ns ∧ f.name = name) with
  | some f => rw [srcDom, bridge_call_eq C (untypedOf C) rec ns name args f hb]
  | none =>
    cases hee : hasBridges C ns with
    | true =>
      have hc := hsep (by simp [untypedOf, hee]) hb
      have hfind : iFind gen.domain (srcDom C) ns ["external entity"] = some (.ee ns) :=
        iFind_hit _ _ _ _ _ (by simp only [srcDom, domOf, ↓reduceIte, String.reduceEq, hee])
      simp only [invNode]
      rw [← paramList_eq C gen (srcDom C) rec args]
      cshape [accept_BridgeInvocationNode, hfind, resolveNs, hb, hc, getattrSym]
      exact noMsg_bind_fail _ _ _ c
    | false =>
      have hfind := iFind_bridge_noEE C ns hee
      have hu := untypedOf_noEE C ns hee
      cases hk : C.consts.lookup ns with
      | some v =>
        simp only [hk] at hu
        have hc := hsep (by rw [hu]; simp) hb
        simp only [hu] at hfind
        simp only [invNode]
        rw [← paramList_eq C gen (srcDom C) rec args]
        cshape [accept_BridgeInvocationNode, hfind, resolveNs, hb, hc, getattrSym]
        exact noMsg_bind_fail _ _ _ c
      | none =>
        cases he : C.enums.find? (fun d => d.name = ns) with
        | some d =>
          simp only [hk, he] at hu
          have hc := hsep (by rw [hu]; simp) hb
          simp only [hu] at hfind
          have hn : gen.enumNumbering = .rangeLen := rfl
          simp only [invNode]
          rw [← paramList_eq C gen (srcDom C) rec args]
          cases hp : posOf name d.enumerators with
          | none =>
            cshape [accept_BridgeInvocationNode, hfind, resolveNs, hb, hc, getattrSym, hn, hp]
            exact noMsg_bind_fail _ _ _ c
          | some k =>
            cshape [accept_BridgeInvocationNode, hfind, resolveNs, hb, hc, getattrSym, hn, hp]
            exact noMsg_bind_fail _ _ _ c
        | none =>
          cases hf : findCallable C (fun f => f.kind = .function ∧ f.name = ns) with
          | some f =>
            simp only [hk, he, hf, Option.map_some] at hu
            have hc := hsep (by rw [hu]; simp) hb
            simp only [hu] at hfind
            simp only [invNode]
            rw [← paramList_eq C gen (srcDom C) rec args]
            cshape [accept_BridgeInvocationNode, hfind, resolveNs, hb, hc, getattrSym]
            exact noMsg_bind_fail _ _ _ c
          | none =>
            simp only [hk, he, hf, Option.map_none] at hu
            cases hcls : (findClass C ns).isSome with
            | false =>
              have hc := hwf hcls
              simp only [hu, hcls, Bool.false_eq_true, ↓reduceIte] at hfind
              simp only [invNode]
              rw [← paramList_eq C gen (srcDom C) rec args]
              cshape [accept_BridgeInvocationNode, hfind, resolveNs, hb, hc, getattrSym]
              exact noMsg_bind_fail _ _ _ c
            | true =>
              cases hc : findCallable C (fun f => f.kind = .classOp ns ∧ f.name = name) with
              | some f => rw [bridge_falls_back_to_class_eq C rec ns name args f hee hu hcls hc]
              | none =>
                simp only [hu, hcls, ↓reduceIte] at hfind
                simp only [invNode]
                rw [← paramList_eq C gen (srcDom C) rec args]
                cases hi : findCallable C (fun f => f.kind = .instOp ns ∧ f.name = name) with
                | none =>
                  cshape [accept_BridgeInvocationNode, hfind, resolveNs, hb, hc, hi, getattrSym, classAttr]
                  exact noMsg_bind_fail _ _ _ c
                | some f =>
                  have hfn : gen.opInst = mk_operation_instance_based := rfl
                  cshape [accept_BridgeInvocationNode, hfind, resolveNs, hb, hc, hi, getattrSym, classAttr, hfn, call_opInst_noinst]
                  exact noMsg_bind_fail _ _ _ c

/-! ### `E::name` without the found hypothesis -/

def enumNode (ns name : String) : CNode := { str := fun f => ([("namespace", ns), ("name", name)].lookup f).getD "" }

/-- `NS::name` (no parentheses) for every model: the enumeration NS — its enumerator's position; NS no enumeration — the source
    falls back to the untyped dictionary (an external entity, a constant or a function NS has no such attribute) and to the class
    NS, and raises; `Spec` reports the unknown enumeration.  The hypotheses keep NS::name from denoting a bridge or an operation
    (Python would then deliver the function OBJECT as a value: outside the value domain of the reference semantics).  Up to the
    error text. -/
theorem enumerator_total (C : Ctx) (rec : Oracle) (ns name : String) (c : Cfg)
    (hnb : findCallable C (fun f => f.kind = .bridge ns ∧ f.name = name) = none)
    (hnc : findCallable C (fun f => f.kind = .classOp ns ∧ f.name = name) = none)
    (hni : findCallable C (fun f => f.kind = .instOp ns ∧ f.name = name) = none) :
    noMsg (evalStep C rec (.enumOrConst ns name) c) =
      noMsg (handlerE C gen (srcDom C) rec (enumNode ns name) accept_EnumOrNamedConstantNode c) := by
  cases hd : C.enums.find? (fun d => d.name = ns) with
  | some d => rw [srcDom, enumNode, enumerator_eq C (untypedOf C) rec ns name d hd]
  | none =>
    have hfind : iFind gen.domain (srcDom C) ns ["enumeration"] =
        (match untypedOf C ns with
         | some s => some s
         | none => if (findClass C ns).isSome then some (.cls ns) else none) := by
      show iFind domain _ _ _ = _
      rw [iFind_skip _ _ _ _ (by simp [srcDom, domOf, hd]) (.inl (by decide)), iFind_nil]
      simp only [srcDom, domOf]
      cases untypedOf C ns <;> rfl
    cases hee : hasBridges C ns with
    | true =>
      have hu : untypedOf C ns = some (.ee ns) := by simp [untypedOf, hee]
      simp only [hu] at hfind
      cshape [accept_EnumOrNamedConstantNode, enumNode, hfind, hd, getattrSym, hnb]
      rfl
    | false =>
      have hu := untypedOf_noEE C ns hee
      simp only [hd] at hu
      cases hk : C.consts.lookup ns with
      | some v =>
        simp only [hk] at hu
        simp only [hu] at hfind
        cshape [accept_EnumOrNamedConstantNode, enumNode, hfind, hd, getattrSym]
        rfl
      | none =>
        cases hf : findCallable C (fun f => f.kind = .function ∧ f.name = ns) with
        | some f =>
          simp only [hk, hf, Option.map_some] at hu
          simp only [hu] at hfind
          cshape [accept_EnumOrNamedConstantNode, enumNode, hfind, hd, getattrSym]
          rfl
        | none =>
          simp only [hk, hf, Option.map_none] at hu
          cases hcls : (findClass C ns).isSome with
          | false =>
            simp only [hu, hcls, Bool.false_eq_true, ↓reduceIte] at hfind
            cshape [accept_EnumOrNamedConstantNode, enumNode, hfind, hd, getattrSym]
            rfl
          | true =>
            simp only [hu, hcls, ↓reduceIte] at hfind
            cshape [accept_EnumOrNamedConstantNode, enumNode, hfind, hd, getattrSym, classAttr, hnc, hni]
            rfl

/-! ### `transform KL::op()` where KL is no class -/

/-- `transform KL::op(args)` where the model has NO class KL and the untyped dictionary holds nothing under KL: the source raises
    'Unknown symbol' BEFORE the parameters are evaluated, `Spec` reports the unknown operation, before the parameters too
    (`hwf`: class-based operations belong to declared classes).  Up to the error text. -/
theorem class_call_no_class (C : Ctx) (rec : Oracle) (ns name : String) (args : List (String × Expr)) (c : Cfg)
    (hcls : (findClass C ns).isSome = false) (hu : untypedOf C ns = none)
    (hwf : (findClass C ns).isSome = false → findCallable C (fun f => f.kind = .classOp ns ∧ f.name = name) = none) :
    noMsg (evalStep C rec (.call (.classOp ns) name args) c) =
      noMsg (handlerE C gen (srcDom C) rec (invNode C gen (srcDom C) rec [("key_letter", ns), ("action_name", name)] none args)
        accept_ClassInvocationNode c) := by
  have hc := hwf hcls
  have hfind : iFind gen.domain (srcDom C) ns ["class"] = none := by
    show iFind domain _ _ _ = _
    rw [iFind_skip _ _ _ _ (by simp [srcDom, domOf]) (.inr (by simp [srcDom, domOf, hcls])), iFind_nil]
    simp [srcDom, domOf, hu, hcls]
  cshape [accept_ClassInvocationNode, invNode, hfind, hc]
  rfl

/-! ### `Domain.add_symbol`: the untyped dictionary, for every registration order -/

theorem foldl_untyped (name : String) : ∀ (regs : List Reg) (D : Dom),
    (regs.foldl (addSymbol domain) D).untyped name =
      (match regs.reverse.find? (fun r => decide (r.name = name)) with
       | some r => some r.sym
       | none => D.untyped name)
  | [], D => rfl
  | r :: rest, D => by
    rw [List.foldl_cons, foldl_untyped name rest, List.reverse_cons, List.find?_append]
    cases rest.reverse.find? (fun r => decide (r.name = name)) with
    | some r' => rfl
    | none =>
      simp only [Option.none_or, List.find?_cons, List.find?_nil]
      by_cases h : r.name = name
      · simp [addSymbol, domain, h]
      · have h' : ¬ name = r.name := fun e => h e.symm
        simp [addSymbol, domain, h, h']

/-- the untyped dictionary: `find_symbol(name)` without a kind — and with kinds under none of which the name is registered —
    delivers the symbol registered LAST under the name, whatever its kind -/
theorem find_symbol_untyped (regs : List Reg) (name : String) (ks : List String)
    (hks : ∀ k ∈ ks, regs.reverse.find? (fun r => decide (r.kind = some k ∧ r.name = name)) = none) :
    iFind domain (regAll domain regs) name ks = (regs.reverse.find? (fun r => decide (r.name = name))).map Reg.sym := by
  induction ks with
  | nil =>
    rw [iFind_nil, regAll, foldl_untyped]
    cases regs.reverse.find? (fun r => decide (r.name = name)) with
    | some r => rfl
    | none =>
      have : ∀ (regs : List Reg) (D : Dom), (regs.foldl (addSymbol domain) D).findClass = D.findClass := by
        intro regs
        induction regs with
        | nil => intro D; rfl
        | cons r rest ih => intro D; rw [List.foldl_cons, ih]; rfl
      simp [this, emptyDom]
  | cons k ks ih =>
    have hm : ∀ (regs : List Reg) (D : Dom), (regs.foldl (addSymbol domain) D).isMetaclass = D.isMetaclass := by
      intro regs
      induction regs with
      | nil => intro D; rfl
      | cons r rest ih => intro D; rw [List.foldl_cons, ih]; rfl
    rw [iFind_skip _ _ _ _ (by rw [regAll_byKind, hks k (List.mem_cons_self ..)]; rfl)
      (.inr (by rw [regAll, hm]; rfl))]
    exact ih (fun k' hk' => hks k' (List.mem_cons_of_mem _ hk'))

end Pyx.CShape
