import Proofs.ExtractFuel

/-!
  C14 — frame theorems, completed: identifiers under a rename, nothing lost by a reorder, which field an end edit
  changes.
-/

namespace Pyx.Extract

/-- a rename keeps the identifiers' numbers and sizes (only the names inside are renamed) -/
theorem frame_rename_idents (kl old new : String) (s : Schema) :
    (schemaEdit (.renameAttr kl old new) s).classes.map (fun c => c.idents.map (fun i => (i.num, i.names.length))) =
      s.classes.map (fun c => c.idents.map (fun i => (i.num, i.names.length))) ∧
    (∀ c ∈ s.classes, c.kl = kl → c.rename old new ∈ (schemaEdit (.renameAttr kl old new) s).classes) := by
  unfold schemaEdit
  constructor
  · simp only [List.map_map]
    apply List.map_congr_left
    intro c _
    simp only [Function.comp]
    split
    · simp [SClass.rename, List.map_map, Function.comp]
    · rfl
  · intro c hc hk
    apply List.mem_map.mpr
    refine ⟨c, hc, ?_⟩
    have : (c.kl == kl) = true := by simp [hk]
    simp [this]

theorem find?_name_of_mem {l : List SAttr} (nd : (l.map (·.name)).Nodup) {x : SAttr} (hx : x ∈ l) :
    l.find? (fun a => a.name == x.name) = some x := by
  induction l with
  | nil => cases hx
  | cons a t ih =>
    simp only [List.map_cons, List.nodup_cons] at nd
    simp only [List.find?_cons]
    rcases List.mem_cons.mp hx with rfl | hxt
    · simp
    · have hne : a.name ≠ x.name := fun he => nd.1 (he ▸ List.mem_map_of_mem hxt)
      have : (a.name == x.name) = false := by simp [hne]
      rw [this]
      exact ih nd.2 hxt

/-- a reorder by a permutation of the attribute names loses nothing and adds nothing: the new attribute list is a
    permutation of the old one -/
theorem frame_reorder_perm (names : List String) (c : SClass) (nd : (c.attrs.map (·.name)).Nodup)
    (hp : names.Perm (c.attrs.map (·.name))) : (c.reorder names).attrs.Perm c.attrs := by
  unfold SClass.reorder
  simp only
  have h1 := hp.filterMap (fun n => c.attrs.find? (fun a => a.name == n))
  have h2 : (c.attrs.map (·.name)).filterMap (fun n => c.attrs.find? (fun a => a.name == n)) = c.attrs := by
    rw [List.filterMap_map]
    have : ∀ x ∈ c.attrs, ((fun n => c.attrs.find? (fun a => a.name == n)) ∘ fun (a : SAttr) => a.name) x = some x := by
      intro x hx; exact find?_name_of_mem nd hx
    rw [filterMap_congr' this]
    simp
  rw [h2] at h1
  exact h1

/-- WHICH field an end edit changes (everything else of the association is literally kept):
    simple relationship: R_FORM -> the source end, R_PART -> the target end of the one association;
    linked relationship: R_AONE -> the source end of the SECOND association, R_AOTH -> of the FIRST -/
theorem end_edit_table (a b : SAssoc) (v : Bool) :
    itemsSetMult .form v [a] = [{ a with src := { a.src with many := v } }] ∧
    itemsSetMult .part v [a] = [{ a with tgt := { a.tgt with many := v } }] ∧
    itemsSetMult .one v [a, b] = [a, { b with src := { b.src with many := v } }] ∧
    itemsSetMult .oth v [a, b] = [{ a with src := { a.src with many := v } }, b] ∧
    itemsSetCond .form v [a] = [{ a with src := { a.src with cond := v } }] ∧
    itemsSetCond .part v [a] = [{ a with tgt := { a.tgt with cond := v } }] ∧
    itemsSetCond .one v [a, b] = [a, { b with src := { b.src with cond := v } }] ∧
    itemsSetCond .oth v [a, b] = [{ a with src := { a.src with cond := v } }, b] :=
  ⟨rfl, rfl, rfl, rfl, rfl, rfl, rfl, rfl⟩

/-- phrases: only on reflexive relationships; R_FORM.Txt_Phrs is the TARGET phrase and R_PART.Txt_Phrs the SOURCE
    phrase of the one association; R_AONE.Txt_Phrs is the source phrase of the first and the target phrase of the second
    association, R_AOTH.Txt_Phrs the other way round; a non-reflexive relationship is left alone -/
theorem phrase_edit_table (a b : SAssoc) (v : String) :
    (a.src.kind = a.tgt.kind →
      itemsSetPhrase .form v [a] = [{ a with tgt := { a.tgt with phrase := v } }] ∧
      itemsSetPhrase .part v [a] = [{ a with src := { a.src with phrase := v } }]) ∧
    (a.src.kind ≠ a.tgt.kind → ∀ sel, itemsSetPhrase sel v [a] = [a]) ∧
    (a.tgt.kind = b.tgt.kind →
      itemsSetPhrase .one v [a, b] =
        [{ a with src := { a.src with phrase := v } }, { b with tgt := { b.tgt with phrase := v } }] ∧
      itemsSetPhrase .oth v [a, b] =
        [{ a with tgt := { a.tgt with phrase := v } }, { b with src := { b.src with phrase := v } }]) ∧
    (a.tgt.kind ≠ b.tgt.kind → ∀ sel, itemsSetPhrase sel v [a, b] = [a, b]) := by
  refine ⟨?_, ?_, ?_, ?_⟩
  · intro h; simp [itemsSetPhrase, h, SAssoc.mapSrc, SAssoc.mapTgt]
  · intro h sel; simp [itemsSetPhrase, h]
  · intro h; simp [itemsSetPhrase, h, SAssoc.mapSrc, SAssoc.mapTgt]
  · intro h sel; simp [itemsSetPhrase, h]

/-! ### type rules on `dtTypeName` / `attrTy` themselves -/

theorem dtTypeName_core {dts : List DataType} {t : DataType} {n : Nat} (hf : findDt dts t.id = some t)
    (hk : t.kind = .core n) : dtTypeName dts t.id = if 1 ≤ n ∧ n ≤ 5 ∧ t.name ≠ "" then some (upper t.name) else none := by
  unfold dtTypeName
  simp only [dtTypeFuel, hf, hk]

theorem dtTypeName_enum {dts : List DataType} {t : DataType} {es : List String} (hf : findDt dts t.id = some t)
    (hk : t.kind = .enum es) : dtTypeName dts t.id = some "INTEGER" := by
  unfold dtTypeName
  simp only [dtTypeFuel, hf, hk]

theorem dtTypeName_other {dts : List DataType} (i : Nat) :
    (findDt dts i = none → dtTypeName dts i = none) ∧
    (∀ t, findDt dts i = some t → t.kind = .other → dtTypeName dts i = none) := by
  unfold dtTypeName
  constructor
  · intro h; simp only [dtTypeFuel, h]
  · intro t h hk; simp only [dtTypeFuel, h, hk]

end Pyx.Extract
