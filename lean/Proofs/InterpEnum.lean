import PyxModel.Interp.Model
import PyxModel.Interp.Spec
import Proofs.InterpCalls

/-!
  Enumerations and constants do not depend on the order of the rows in the model files:
  `mk_enum` delivers the modeled (R56) order for every permutation of the S_ENUM rows; a named constant
  reads as its modeled value converted by its type whatever the order of the CNST rows.
-/
namespace Pyx.Interp

/-- the S_ENUM rows that encode the enumerators `L` (id, name) in modeled order, after predecessor id `p` -/
def mkRows : Nat → List (Nat × String) → List EnumRow
  | _, [] => []
  | p, (i, nm) :: rest => ⟨i, nm, p⟩ :: mkRows i rest

theorem mkRows_ids : ∀ (p : Nat) (L : List (Nat × String)), (mkRows p L).map EnumRow.id = L.map Prod.fst
  | _, [] => rfl
  | p, (i, nm) :: rest => by simp [mkRows, mkRows_ids i rest]

theorem mkRows_prevs : ∀ (p : Nat) (L : List (Nat × String)), L ≠ [] →
    (mkRows p L).map EnumRow.prev = p :: (L.map Prod.fst).dropLast
  | _, [], h => absurd rfl h
  | p, [(i, nm)], _ => by simp [mkRows]
  | p, (i, nm) :: (j, nm2) :: rest, _ => by
    have ih := mkRows_prevs i ((j, nm2) :: rest) (by simp)
    simp only [mkRows, List.map_cons] at ih ⊢
    rw [ih]
    simp [List.dropLast]

theorem find?_unique {α : Type} {p : α → Bool} {a : α} : ∀ {l : List α}, a ∈ l → p a = true →
    (∀ x ∈ l, p x = true → x = a) → l.find? p = some a
  | [], h, _, _ => by cases h
  | x :: rest, h, hp, hu => by
    by_cases hx : p x = true
    · have := hu x List.mem_cons_self hx
      subst this
      simp [List.find?, hx]
    · have hx' : p x = false := by cases hpx : p x <;> simp_all
      have hne : a ≠ x := by intro h'; subst h'; rw [hp] at hx'; cases hx'
      have hmem : a ∈ rest := by
        rcases List.mem_cons.1 h with h' | h'
        · exact absurd h' hne
        · exact h'
      simp only [List.find?, hx']
      exact find?_unique hmem hp (fun y hy => hu y (List.mem_cons_of_mem _ hy))

theorem find?_none_of_all_false {α : Type} {p : α → Bool} : ∀ {l : List α}, (∀ x ∈ l, p x = false) → l.find? p = none
  | [], _ => rfl
  | x :: rest, h => by
    simp only [List.find?, h x List.mem_cons_self]
    exact find?_none_of_all_false (fun y hy => h y (List.mem_cons_of_mem _ hy))

theorem enumChain_none (rows : List EnumRow) : ∀ n, enumChain rows n none = []
  | 0 => rfl
  | _ + 1 => rfl

theorem mkRows_sub_tail (p i : Nat) (nm : String) (rest : List (Nat × String)) :
    ∀ r ∈ mkRows i rest, r ∈ mkRows p ((i, nm) :: rest) := fun r hr => List.mem_cons_of_mem _ hr

/-- following the chain from the row of the head of `L` yields the names of `L`, provided the rows of `L` are
    among `rows`, no two rows of `rows` name the same predecessor, and nothing succeeds the last one -/
theorem enumChain_follow (rows : List EnumRow)
    (hinj : ∀ r ∈ rows, ∀ r' ∈ rows, r.prev = r'.prev → r = r') :
    ∀ (L : List (Nat × String)) (p i : Nat) (nm : String) (fuel : Nat),
      (∀ r ∈ mkRows p ((i, nm) :: L), r ∈ rows) →
      (∀ r' ∈ rows, r'.prev ≠ (((i, nm) :: L).map Prod.fst).getLast (by simp)) →
      L.length < fuel →
      enumChain rows fuel (some ⟨i, nm, p⟩) = nm :: L.map Prod.snd
  | [], p, i, nm, fuel, _, hlast, hf => by
    cases fuel with
    | zero => cases hf
    | succ f =>
      simp only [enumChain, List.map_nil]
      have : enumNext rows ⟨i, nm, p⟩ = none := by
        unfold enumNext
        apply find?_none_of_all_false
        intro x hx
        have := hlast x hx
        simp at this
        simp [this]
      rw [this, enumChain_none]
  | (j, nm2) :: rest, p, i, nm, fuel, hsub, hlast, hf => by
    cases fuel with
    | zero => cases hf
    | succ f =>
      simp only [enumChain, List.map_cons]
      have hmem : (⟨j, nm2, i⟩ : EnumRow) ∈ rows := hsub _ (by simp [mkRows])
      have hnext : enumNext rows ⟨i, nm, p⟩ = some ⟨j, nm2, i⟩ := by
        unfold enumNext
        apply find?_unique hmem (by simp)
        intro x hx hpx
        simp at hpx
        exact hinj x hx _ hmem (by simp [hpx])
      rw [hnext]
      have ih := enumChain_follow rows hinj rest i j nm2 f
        (fun r hr => hsub r (mkRows_sub_tail p i nm _ r hr))
        (by
          intro r' hr'
          have := hlast r' hr'
          simpa [List.getLast_cons] using this)
        (by simp at hf; omega)
      rw [ih]

theorem nodup_map_inj {α β : Type} {f : α → β} : ∀ {l : List α}, (l.map f).Nodup →
    ∀ a ∈ l, ∀ b ∈ l, f a = f b → a = b
  | [], _, a, ha, _, _, _ => by cases ha
  | x :: rest, h, a, ha, b, hb, hab => by
    simp only [List.map_cons, List.nodup_cons] at h
    rcases List.mem_cons.1 ha with rfl | ha'
    · rcases List.mem_cons.1 hb with rfl | hb'
      · rfl
      · exact absurd (List.mem_map.2 ⟨b, hb', hab.symm⟩) h.1
    · rcases List.mem_cons.1 hb with rfl | hb'
      · exact absurd (List.mem_map.2 ⟨a, ha', hab⟩) h.1
      · exact nodup_map_inj h.2 a ha' b hb' hab

theorem dropLast_sublist' {α : Type} (l : List α) : l.dropLast.Sublist l := List.dropLast_sublist l

theorem getLast_not_mem_dropLast {α : Type} : ∀ (l : List α) (h : l ≠ []), l.Nodup → l.getLast h ∉ l.dropLast
  | [], h, _ => absurd rfl h
  | [a], _, _ => by simp
  | a :: b :: rest, _, hnd => by
    simp only [List.nodup_cons] at hnd
    have ih := getLast_not_mem_dropLast (b :: rest) (by simp) (List.nodup_cons.2 hnd.2)
    simp only [List.getLast_cons (show b :: rest ≠ [] by simp), List.dropLast_cons₂, List.mem_cons, not_or]
    constructor
    · intro h
      apply hnd.1
      rw [← h]
      exact List.getLast_mem _
    · exact ih

/-- **row order does not matter**: for every permutation `rows` of the rows that encode the enumerators `L`
    (distinct non-null ids, chained by Previous_Enum_ID), `mk_enum` numbers them in the modeled order -/
theorem enumOrder_perm (L : List (Nat × String)) (hnd : (0 :: L.map Prod.fst).Nodup)
    (rows : List EnumRow) (hperm : rows.Perm (mkRows 0 L)) : enumOrder rows = L.map Prod.snd := by
  cases L with
  | nil =>
    have : rows = [] := List.Perm.eq_nil hperm
    subst this; rfl
  | cons hd rest =>
    obtain ⟨i, nm⟩ := hd
    have hmem : ∀ r, r ∈ rows ↔ r ∈ mkRows 0 ((i, nm) :: rest) := fun r => hperm.mem_iff
    have hlen : rows.length = (rest.length + 1) := by
      rw [hperm.length_eq]
      have := congrArg List.length (mkRows_ids 0 ((i, nm) :: rest))
      simpa using this
    have hprevs := mkRows_prevs 0 ((i, nm) :: rest) (by simp)
    have hids := mkRows_ids 0 ((i, nm) :: rest)
    have hnd' := List.nodup_cons.1 hnd
    -- the predecessor ids of the modeled rows are pairwise distinct
    have hprev_nd : ((mkRows 0 ((i, nm) :: rest)).map EnumRow.prev).Nodup := by
      rw [hprevs]
      apply List.nodup_cons.2
      constructor
      · intro h0
        exact hnd'.1 ((List.dropLast_sublist _).subset h0)
      · exact List.Nodup.sublist (List.dropLast_sublist _) hnd'.2
    have hinj : ∀ r ∈ rows, ∀ r' ∈ rows, r.prev = r'.prev → r = r' := by
      intro r hr r' hr' h
      exact nodup_map_inj hprev_nd r ((hmem r).1 hr) r' ((hmem r').1 hr') h
    -- the head is the only row without a predecessor
    have hhead_mem : (⟨i, nm, 0⟩ : EnumRow) ∈ rows := (hmem _).2 (by simp [mkRows])
    have hno0 : ∀ r ∈ rows, r.id ≠ 0 := by
      intro r hr h0
      have : r.id ∈ (mkRows 0 ((i, nm) :: rest)).map EnumRow.id := List.mem_map.2 ⟨r, (hmem r).1 hr, rfl⟩
      rw [hids, h0] at this
      exact hnd'.1 this
    have hfirst : rows.find? (EnumRow.isFirst rows) = some ⟨i, nm, 0⟩ := by
      apply find?_unique hhead_mem
      · unfold EnumRow.isFirst
        simp only [Bool.not_eq_true', List.any_eq_false, decide_eq_true_eq]
        intro x hx; exact hno0 x hx
      · intro x hx hfx
        unfold EnumRow.isFirst at hfx
        simp only [Bool.not_eq_true', List.any_eq_false, decide_eq_true_eq] at hfx
        -- x.prev is 0 or one of the ids; the latter is carried by a row
        have hxp : x.prev ∈ (mkRows 0 ((i, nm) :: rest)).map EnumRow.prev := List.mem_map.2 ⟨x, (hmem x).1 hx, rfl⟩
        rw [hprevs] at hxp
        rcases List.mem_cons.1 hxp with h0 | hin
        · exact hinj x hx _ hhead_mem (by simpa using h0)
        · exfalso
          have hin' : x.prev ∈ (mkRows 0 ((i, nm) :: rest)).map EnumRow.id := by
            rw [hids]; exact (List.dropLast_sublist _).subset hin
          obtain ⟨y, hy, hyid⟩ := List.mem_map.1 hin'
          exact hfx y ((hmem y).2 hy) hyid
    unfold enumOrder
    rw [hfirst, hlen]
    have := enumChain_follow rows hinj rest 0 i nm (rest.length + 1)
      (fun r hr => (hmem r).2 hr)
      (by
        intro r' hr' hlast
        have hxp : r'.prev ∈ (mkRows 0 ((i, nm) :: rest)).map EnumRow.prev := List.mem_map.2 ⟨r', (hmem r').1 hr', rfl⟩
        rw [hprevs, hlast] at hxp
        rcases List.mem_cons.1 hxp with h0 | hin
        · apply hnd'.1
          rw [← h0]
          exact List.getLast_mem _
        · exact getLast_not_mem_dropLast _ (by simp) hnd'.2 hin)
      (Nat.lt_succ_self _)
    simpa using this

/-- an enumerator reads as its position in the enumeration -/
theorem posOf_getElem : ∀ (l : List String), l.Nodup → ∀ (k : Nat) (h : k < l.length), posOf l[k] l = some k
  | [], _, k, h => by cases h
  | x :: rest, hnd, 0, _ => by simp [posOf]
  | x :: rest, hnd, k + 1, h => by
    simp only [List.nodup_cons] at hnd
    have hlt : k < rest.length := by simpa using h
    have hne : x ≠ rest[k] := by
      intro hx; apply hnd.1; rw [hx]; exact List.getElem_mem _
    simp only [List.getElem_cons_succ, posOf, hne, if_false]
    rw [posOf_getElem rest hnd.2 k hlt]
    rfl

/-! ### constants -/

theorem constTable_lookup_perm {rows rows' : List ConstRow} (hp : rows.Perm rows')
    (hnd : (rows.map ConstRow.name).Nodup) (x : String) :
    (constTable rows).lookup x = (constTable rows').lookup x := by
  unfold constTable
  let f := fun r : ConstRow => (constVal r.tyName r.text).map (fun v => (r.name, v))
  have hp' : (rows.filterMap f).reverse.Perm (rows'.filterMap f).reverse :=
    (List.reverse_perm _).trans ((hp.filterMap f).trans (List.reverse_perm _).symm)
  apply lookup_perm hp'
  rw [List.map_reverse]
  apply (List.reverse_perm _).nodup_iff.2
  -- the keys of the table are a sublist of the row names
  have hsub : ((rows.filterMap f).map Prod.fst).Sublist (rows.map ConstRow.name) := by
    clear hp hp' hnd
    induction rows with
    | nil => exact List.Sublist.slnil
    | cons r rest ih =>
      simp only [List.filterMap_cons, List.map_cons]
      cases hv : f r with
      | none => simp only []; exact List.Sublist.cons _ ih
      | some q =>
        have hq : q.1 = r.name := by
          simp only [f] at hv
          cases hc : constVal r.tyName r.text with
          | none => rw [hc] at hv; cases hv
          | some v => rw [hc] at hv; simp at hv; rw [← hv]
        simp only [List.map_cons, hq]
        exact List.Sublist.cons₂ _ ih
  exact List.Nodup.sublist hsub hnd

theorem constTable_lookup {rows : List ConstRow} (hnd : (rows.map ConstRow.name).Nodup) {r : ConstRow} (hr : r ∈ rows)
    {v : Val} (hv : constVal r.tyName r.text = some v) : (constTable rows).lookup r.name = some v := by
  unfold constTable
  apply lookup_some_of_mem
  · rw [List.map_reverse]
    apply (List.reverse_perm _).nodup_iff.2
    have hsub : ((rows.filterMap (fun r : ConstRow => (constVal r.tyName r.text).map (fun v => (r.name, v)))).map Prod.fst).Sublist
        (rows.map ConstRow.name) := by
      clear hnd hr
      induction rows with
      | nil => exact List.Sublist.slnil
      | cons r0 rest ih =>
        simp only [List.filterMap_cons, List.map_cons]
        cases hc : constVal r0.tyName r0.text with
        | none => simp only [Option.map_none]; exact List.Sublist.cons _ ih
        | some v0 => simp only [Option.map_some, List.map_cons]; exact List.Sublist.cons₂ _ ih
    exact List.Nodup.sublist hsub hnd
  · apply List.mem_reverse.2
    apply List.mem_filterMap.2
    exact ⟨r, hr, by simp [hv]⟩

/-! ## the conversions of `mk_constant`, universally -/

theorem digitVal_of_isDigit {c : Char} (h : c.isDigit = true) : digitVal c = some (c.toNat - '0'.toNat) := by
  unfold digitVal
  simp only [Char.isDigit, Bool.and_eq_true, decide_eq_true_eq] at h
  have h1 : '0' ≤ c := by
    show (48 : UInt32) ≤ c.val
    exact h.1
  have h2 : c ≤ '9' := by
    show c.val ≤ (57 : UInt32)
    exact h.2
  simp [h1, h2]

theorem parseNatChars_digits : ∀ (cs : List Char) (acc : Nat), (∀ c ∈ cs, c.isDigit = true) →
    parseNatChars cs acc = some (Nat.ofDigitChars 10 cs acc)
  | [], acc, _ => by simp [parseNatChars]
  | c :: rest, acc, h => by
    simp only [parseNatChars, digitVal_of_isDigit (h c List.mem_cons_self), Nat.ofDigitChars_cons]
    rw [Nat.mul_comm]
    exact parseNatChars_digits rest _ (fun x hx => h x (List.mem_cons_of_mem _ hx))

theorem parseNatChars_repr (n : Nat) : parseNatChars (Nat.toDigits 10 n) 0 = some n := by
  rw [parseNatChars_digits _ _ (fun c hc => Nat.isDigit_of_mem_toDigits (by decide) (by decide) hc),
    Nat.ofDigitChars_ten_toDigits]

theorem parseInt_repr_nat (n : Nat) : parseInt (Nat.repr n) = some (n : Int) := by
  unfold parseInt
  rw [Nat.toList_repr]
  have hne : Nat.toDigits 10 n ≠ [] := Nat.toDigits_ne_nil
  cases hcs : Nat.toDigits 10 n with
  | nil => exact absurd hcs hne
  | cons d rest =>
    have hd : d.isDigit = true := Nat.isDigit_of_mem_toDigits (b := 10) (n := n) (by decide) (by decide) (by rw [hcs]; exact List.mem_cons_self)
    have hdm : d ≠ '-' := by intro h; subst h; revert hd; decide
    have := parseNatChars_repr n
    rw [hcs] at this
    split
    · rename_i heq; cases heq
    · rename_i heq; cases heq; exact absurd rfl hdm
    · simp [this]

theorem parseInt_repr_neg (n : Nat) : parseInt ("-" ++ Nat.repr (n + 1)) = some (-((n + 1 : Nat) : Int)) := by
  unfold parseInt
  have : ("-" ++ Nat.repr (n + 1)).toList = '-' :: Nat.toDigits 10 (n + 1) := by
    rw [String.toList_append, Nat.toList_repr]; rfl
  rw [this]
  simp only
  rw [if_neg Nat.toDigits_ne_nil, parseNatChars_repr]
  rfl

/-- `mk_constant`, for every text: a string constant is its text, a boolean is whether the text spelled in lower case
    is `true`, an integer is the number its decimal numeral denotes (for every integer), any other type name is not
    supported -/
theorem constVal_universal :
    (∀ t, constVal "string" t = some (.str t)) ∧
    (∀ t, constVal "boolean" t = some (.bool (t.map Char.toLower == "true"))) ∧
    (∀ n : Nat, constVal "integer" (Nat.repr n) = some (.int n)) ∧
    (∀ n : Nat, constVal "integer" ("-" ++ Nat.repr (n + 1)) = some (.int (-((n + 1 : Nat) : Int)))) ∧
    (∀ ty t, ty ≠ "boolean" → ty ≠ "integer" → ty ≠ "string" → constVal ty t = none) := by
  refine ⟨fun t => by simp [constVal], fun t => by simp [constVal], fun n => ?_, fun n => ?_, fun ty t h1 h2 h3 => by simp [constVal, h1, h2, h3]⟩
  · simp [constVal, parseInt_repr_nat]
  · simp [constVal, parseInt_repr_neg]

/-! ## the tables reach the interpreter -/
open M

/-- reading the NAME of a constant (a name no local variable carries and that is not `self`): its modeled value
    converted by its data type, whatever the order of the CNST rows the table was built from -/
theorem const_read {C : Ctx} {rec : Oracle} {rows rows' : List ConstRow} (hC : C.consts = constTable rows')
    (hp : rows.Perm rows') (hnd : (rows.map ConstRow.name).Nodup) {r : ConstRow} (hr : r ∈ rows) {v : Val}
    (hv : constVal r.tyName r.text = some v) {c : Cfg} (hself : selfHit c.fr r.name = false)
    (henv : envLookup c.fr.env r.name = none) :
    evalStep C rec (.var r.name) c = some (.ok (v, c)) := by
  have hl : C.consts.lookup r.name = some v := by
    rw [hC, ← constTable_lookup_perm hp hnd]; exact constTable_lookup hnd hr hv
  simp only [evalStep]
  unfold lookupVar
  rw [bind_ok (show getFr c = some (.ok (c.fr, c)) from rfl), hself]
  simp only [Bool.false_eq_true, if_false, henv, hl]
  rfl

/-- a local variable of that name hides the constant -/
theorem const_hidden {C : Ctx} {rec : Oracle} {x : String} {c : Cfg} {w : Val} (hself : selfHit c.fr x = false)
    (henv : envLookup c.fr.env x = some w) : evalStep C rec (.var x) c = some (.ok (w, c)) := by
  simp only [evalStep]; exact lookupVar_env hself henv

/-- `E::name` where the context carries `mk_enum`'s order of the rows of `E`: the modeled position of the enumerator,
    whatever the order of the S_ENUM rows -/
theorem enum_read {C : Ctx} {rec : Oracle} {ns : String} {rows : List EnumRow} {L : List (Nat × String)}
    (hC : C.enums.find? (fun d => d.name = ns) = some ⟨ns, enumOrder rows⟩)
    (hnd : (0 :: L.map Prod.fst).Nodup) (hperm : rows.Perm (mkRows 0 L)) (hn : (L.map Prod.snd).Nodup)
    (k : Nat) (hk : k < (L.map Prod.snd).length) (c : Cfg) :
    evalStep C rec (.enumOrConst ns (L.map Prod.snd)[k]) c = some (.ok (.int k, c)) := by
  have hpos : posOf (L.map Prod.snd)[k] (enumOrder rows) = some k := by
    rw [enumOrder_perm L hnd rows hperm]; exact posOf_getElem _ hn k hk
  simp only [evalStep, hC, hpos]; rfl

end Pyx.Interp
