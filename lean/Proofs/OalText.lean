import Proofs.OalBridge
import Proofs.OalTight
import Proofs.OalStmt
import Gen.OalPrec

/-!
  TEXT → TREE (C07, audit item 1): the character-level lexer model (`Pyx.OalLex.lex`, tables generated from
  oal.py) composed with the token-level parser model (`Pyx.Oal.parseStmts`).

  The printed token stream of a tree is turned into lexical units (`unitsOf`: one unit per token, `NS` `::` fused
  into the unit the NAMESPACE rule reads), every unit is checked (Boolean checks, sound for the `Well…`
  predicates of Proofs/OalLayout.lean) to be a lexeme the lexer returns as exactly that token — this is
  `LexemesOk`.  `text_roundtrip`: for every tree that is `Ok` and `LexemesOk`, and EVERY layout the tight layout
  theorem accepts (`PairOk`: between two units any layout string — blanks, tabs, newlines, block and line comments —
  or nothing at all where `tightOk` allows), lexing the text, converting the tokens (`toParserToks`) and parsing
  gives the tree back.  `text_roundtrip_blanks`: one blank between the units is always such a layout, so the
  statement is not vacuous for any `LexemesOk` tree.

  Not covered (disclosed): the identifier spelled `end` (`WellWord.notEnd`: `end` + white space + `if|for|while` is
  ONE token of the lexer, so a bare `end` is not in the domain of the layout theorems).
-/
set_option linter.unusedSimpArgs false
set_option linter.unusedVariables false

namespace Pyx.OalText
open Pyx.OalLex
open Pyx.Oal (Kind Block)

abbrev PTok := Pyx.Oal.Tok

/-- a (kind, lexeme) pair of the lexer as a parser token (what `toParserTok` does to a lexer token) -/
def conv (p : List Char × List Char) : PTok := ⟨(kindOfChars p.1).getD .ID, String.ofList p.2⟩

theorem conv_tok (t : Tok) : conv (t.kind, t.lexeme) = toParserTok t := rfl

/-- the parser tokens a unit stands for -/
def unitToks (u : LexUnit) : List PTok := u.toks.map conv

/-! ## Boolean well-formedness checks, sound for the `Well…` predicates -/

def wellWordB (s : List Char) : Bool :=
  match s with
  | x :: s' => isIdStart x && s'.all isWord && !(s.map lowerAscii == ['e', 'n', 'd'])
  | [] => false

theorem wellWordB_sound (s : List Char) (h : wellWordB s = true) : WellWord s := by
  cases s with
  | nil => simp [wellWordB] at h
  | cons x s' =>
    simp only [wellWordB, Bool.and_eq_true, List.all_eq_true, Bool.not_eq_true', beq_eq_false_iff_ne, ne_eq] at h
    exact ⟨⟨x, s', rfl, h.1.1, h.1.2⟩, h.2⟩

def wellNumberB (s : List Char) : Bool := !s.isEmpty && s.all isDigit

theorem wellNumberB_sound (s : List Char) (h : wellNumberB s = true) : WellNumber s := by
  simp only [wellNumberB, Bool.and_eq_true, Bool.not_eq_true', List.isEmpty_eq_false_iff, List.all_eq_true] at h
  exact ⟨h.1, h.2⟩

def wellFractionB (s : List Char) : Bool := !s.isEmpty && decide (patFraction.run s = some s.length)

theorem wellFractionB_sound (s : List Char) (h : wellFractionB s = true) : WellFraction s := by
  simp only [wellFractionB, Bool.and_eq_true, Bool.not_eq_true', List.isEmpty_eq_false_iff, decide_eq_true_eq] at h
  exact ⟨h.1, h.2⟩

/-- `q body q` with every character of the body accepted by `f` -/
def quotedB (q : Char) (f : Char → Bool) (s : List Char) : Bool :=
  match s with
  | x :: rest =>
    x == q &&
      (match rest.reverse with
       | y :: bodyRev => y == q && bodyRev.all f
       | [] => false)
  | [] => false

theorem quotedB_sound (q : Char) (f : Char → Bool) (s : List Char) (h : quotedB q f s = true) :
    ∃ body, s = q :: body ++ [q] ∧ ∀ y ∈ body, f y = true := by
  cases s with
  | nil => simp [quotedB] at h
  | cons x rest =>
    simp only [quotedB, Bool.and_eq_true, beq_iff_eq] at h
    obtain ⟨rfl, h2⟩ := h
    cases hr : rest.reverse with
    | nil => rw [hr] at h2; simp at h2
    | cons y bodyRev =>
      rw [hr] at h2
      simp only [Bool.and_eq_true, beq_iff_eq, List.all_eq_true] at h2
      obtain ⟨rfl, h3⟩ := h2
      refine ⟨bodyRev.reverse, ?_, ?_⟩
      · have : rest = (y :: bodyRev).reverse := by rw [← hr, List.reverse_reverse]
        rw [this, List.reverse_cons]
        rfl
      · intro z hz
        exact h3 z (List.mem_reverse.mp hz)

def wellStringB (s : List Char) : Bool := quotedB '"' (fun y => !(y == '"') && !(y == '\n')) s
def wellTickedB (s : List Char) : Bool := quotedB '\'' (fun y => !(y == '\'')) s

theorem wellStringB_sound (s : List Char) (h : wellStringB s = true) : WellString s := by
  obtain ⟨body, hs, hb⟩ := quotedB_sound _ _ s h
  refine ⟨⟨body, hs, ?_⟩⟩
  intro y hy
  have := hb y hy
  simp only [Bool.and_eq_true, Bool.not_eq_true', beq_eq_false_iff_ne, ne_eq] at this
  exact this

theorem wellTickedB_sound (s : List Char) (h : wellTickedB s = true) : WellTicked s := by
  obtain ⟨body, hs, hb⟩ := quotedB_sound _ _ s h
  refine ⟨⟨body, hs, ?_⟩⟩
  intro y hy
  have := hb y hy
  simp only [Bool.not_eq_true', beq_eq_false_iff_ne, ne_eq] at this
  exact this

theorem mem_takeWhile {p : Char → Bool} : ∀ (l : List Char) (z : Char), z ∈ l.takeWhile p → p z = true
  | [], z, h => by simp at h
  | x :: l, z, h => by
    simp only [List.takeWhile_cons] at h
    split at h
    · rename_i hx
      rcases List.mem_cons.mp h with rfl | h'
      · exact hx
      · exact mem_takeWhile l z h'
    · simp at h

def wellEndB (w : List Char) (s : List Char) : Bool :=
  match s with
  | a :: b :: c :: y :: rest =>
    (lowerAscii a == 'e') && (lowerAscii b == 'n') && (lowerAscii c == 'd') && isSpace y &&
      ((rest.dropWhile isSpace).map lowerAscii == w)
  | _ => false

theorem wellEndB_sound (w s : List Char) (h : wellEndB w s = true) : WellEnd w s := by
  match s, h with
  | a :: b :: c :: y :: rest, h =>
    simp only [wellEndB, Bool.and_eq_true, beq_iff_eq] at h
    obtain ⟨⟨⟨⟨ha, hb⟩, hc⟩, hy⟩, hl⟩ := h
    refine ⟨⟨a, b, c, y, rest.takeWhile isSpace, rest.dropWhile isSpace, ?_, by simp [ha], by simp [hb], by simp [hc],
      hy, fun z hz => mem_takeWhile _ z hz, hl⟩⟩
    simp only [List.cons_append, List.takeWhile_append_dropWhile]

def wellNsB (n : List Char) : Bool := !n.isEmpty && n.all isWord

theorem wellNsB_sound (n : List Char) (h : wellNsB n = true) : WellNs n := by
  simp only [wellNsB, Bool.and_eq_true, Bool.not_eq_true', List.isEmpty_eq_false_iff, List.all_eq_true] at h
  exact ⟨h.1, h.2⟩

/-- the unit's lexeme is one its rule reads (Boolean) -/
def wellB : LexUnit → Bool
  | .word s => wellWordB s
  | .number s => wellNumberB s
  | .fraction s => wellFractionB s
  | .string s => wellStringB s
  | .ticked s => wellTickedB s
  | .endFor s => wellEndB ['f', 'o', 'r'] s
  | .endIf s => wellEndB ['i', 'f'] s
  | .endWhile s => wellEndB ['w', 'h', 'i', 'l', 'e'] s
  | .lit i => litIndexes.contains i
  | .div => true
  | .ns n => wellNsB n

theorem wellB_sound (u : LexUnit) (h : wellB u = true) : u.Well := by
  cases u with
  | word s => exact wellWordB_sound s h
  | number s => exact wellNumberB_sound s h
  | fraction s => exact wellFractionB_sound s h
  | string s => exact wellStringB_sound s h
  | ticked s => exact wellTickedB_sound s h
  | endFor s => exact wellEndB_sound _ s h
  | endIf s => exact wellEndB_sound _ s h
  | endWhile s => exact wellEndB_sound _ s h
  | lit i => simpa [wellB, LexUnit.Well] using h
  | div => trivial
  | ns n => exact wellNsB_sound n h

/-! ## from parser tokens to lexical units -/

/-- the unit a single parser token would be written as (NAMESPACE is handled with its `::`) -/
def candidate (tok : PTok) : Option LexUnit :=
  match tok.kind with
  | .NUMBER => some (.number tok.lex.toList)
  | .FRACTION => some (.fraction tok.lex.toList)
  | .STRING => some (.string tok.lex.toList)
  | .TICKED_PHRASE => some (.ticked tok.lex.toList)
  | .END_FOR => some (.endFor tok.lex.toList)
  | .END_IF => some (.endIf tok.lex.toList)
  | .END_WHILE => some (.endWhile tok.lex.toList)
  | .DIV => some .div
  | .NAMESPACE => none
  | k =>
    match litIndexes.find? (fun i => kindOfChars (R i).name == some k) with
    | some i => some (.lit i)
    | none => some (.word tok.lex.toList)

/-- the units of a token list: every unit is checked to spell exactly its token(s) and to be well-formed -/
def unitsOf : List PTok → Option (List LexUnit)
  | [] => some []
  | [a] =>
    match candidate a with
    | some u => if unitToks u = [a] ∧ wellB u = true then some [u] else none
    | none => none
  | a :: d :: rest =>
    if a.kind = .NAMESPACE then
      if unitToks (.ns a.lex.toList) = [a, d] ∧ wellB (.ns a.lex.toList) = true then
        (unitsOf rest).map (LexUnit.ns a.lex.toList :: ·)
      else none
    else
      match candidate a with
      | some u => if unitToks u = [a] ∧ wellB u = true then (unitsOf (d :: rest)).map (u :: ·) else none
      | none => none

theorem unitsOf_sound : ∀ (ts : List PTok) (us : List LexUnit), unitsOf ts = some us →
    (us.map unitToks).flatten = ts ∧ ∀ u ∈ us, u.Well
  | [], us, h => by
    simp only [unitsOf, Option.some.injEq] at h
    subst h
    exact ⟨rfl, fun u hu => by simp at hu⟩
  | [a], us, h => by
    simp only [unitsOf] at h
    split at h <;> try contradiction
    rename_i u hc
    split at h <;> try contradiction
    rename_i hu
    simp only [Option.some.injEq] at h
    subst h
    refine ⟨by simp [hu.1], ?_⟩
    intro v hv
    simp only [List.mem_singleton] at hv
    subst hv
    exact wellB_sound _ hu.2
  | a :: d :: rest, us, h => by
    simp only [unitsOf] at h
    split at h
    · split at h <;> try contradiction
      rename_i hns hu
      cases hr : unitsOf rest with
      | none => rw [hr] at h; simp at h
      | some us' =>
        rw [hr] at h
        simp only [Option.map_some, Option.some.injEq] at h
        subst h
        obtain ⟨h1, h2⟩ := unitsOf_sound rest us' hr
        refine ⟨by simp [hu.1, h1], ?_⟩
        intro v hv
        rcases List.mem_cons.mp hv with rfl | hv'
        · exact wellB_sound _ hu.2
        · exact h2 v hv'
    · split at h <;> try contradiction
      rename_i u hc
      split at h <;> try contradiction
      rename_i hu
      cases hr : unitsOf (d :: rest) with
      | none => rw [hr] at h; simp at h
      | some us' =>
        rw [hr] at h
        simp only [Option.map_some, Option.some.injEq] at h
        subst h
        obtain ⟨h1, h2⟩ := unitsOf_sound (d :: rest) us' hr
        refine ⟨by simp [hu.1, h1], ?_⟩
        intro v hv
        rcases List.mem_cons.mp hv with rfl | hv'
        · exact wellB_sound _ hu.2
        · exact h2 v hv'

/-! ## the composition -/

/-- every lexeme of the printed tree is one the lexer returns as exactly that token: the printed token stream
    splits into well-formed lexical units (decidable: `unitsOf` computes them) -/
def LexemesOk (b : Block) : Prop := (unitsOf (Pyx.Oal.printStmts Gen.OalPrec.table b)).isSome = true

instance (b : Block) : Decidable (LexemesOk b) := by unfold LexemesOk; infer_instance

/-- units and the separators that follow them -/
def withSeps (us : List LexUnit) (seps : List (List Char)) : List (LexUnit × List Char) := us.zip seps

theorem map_fst_withSeps : ∀ (us : List LexUnit) (seps : List (List Char)), seps.length = us.length →
    (withSeps us seps).map (·.1) = us
  | [], [], _ => rfl
  | [], _ :: _, h => by simp at h
  | _ :: _, [], h => by simp at h
  | u :: us, s :: seps, h => by
    simp only [withSeps, List.zip_cons_cons, List.map_cons, List.cons.injEq, true_and]
    exact map_fst_withSeps us seps (by simpa using h)

/-- the lexer and the conversion on a text written from units -/
theorem lex_units (sep0 : List Char) (units : List (LexUnit × List Char)) (h0 : Layout0 sep0) (h : PairOk units) :
    toParserToks (lex (sep0 ++ renderT units)) = (units.map (fun p => unitToks p.1)).flatten := by
  have hl := layout_irrelevant_tight sep0 units h0 h
  have : toParserToks (lex (sep0 ++ renderT units)) =
      ((lex (sep0 ++ renderT units)).map (fun t => (t.kind, t.lexeme))).map conv := by
    simp only [toParserToks, List.map_map]
    rfl
  rw [this, hl, List.map_flatten, List.map_map]
  rfl

/-- **text → tree, any units that spell the printed tokens**: if the units (with any layout `PairOk` accepts)
    stand for the token stream the printer emits for `b`, the text parses to `b` -/
theorem text_roundtrip_units (b : Block) (sep0 : List Char)
    (units : List (LexUnit × List Char)) (h0 : Layout0 sep0) (h : PairOk units)
    (hspell : (units.map (fun p => unitToks p.1)).flatten = Pyx.Oal.printStmts Gen.OalPrec.table b)
    (hrt : Pyx.Oal.parseStmts Gen.OalPrec.table (Pyx.Oal.printStmts Gen.OalPrec.table b) = some b) :
    Pyx.Oal.parseStmts Gen.OalPrec.table (toParserToks (lex (sep0 ++ renderT units))) = some b := by
  rw [lex_units sep0 units h0 h, hspell, hrt]

/-- one blank after every unit is a layout `PairOk` accepts -/
theorem pairOk_blanks : ∀ (us : List LexUnit), (∀ u ∈ us, u.Well) → PairOk (us.map (fun u => (u, [' '])))
  | [], _ => .nil
  | [u], hw =>
    .single u [' '] (hw u (by simp)) (.ws ' ' [] (Or.inl rfl) .nil) (fun _ r hr => by cases hr)
  | u :: v :: rest, hw => by
    have ih := pairOk_blanks (v :: rest) (fun x hx => hw x (List.mem_cons_of_mem _ hx))
    exact .cons u [' '] v [' '] _ (hw u (by simp)) (.ws ' ' [] (Or.inl rfl) .nil) (fun hne => by cases hne)
      (fun _ r hr => by cases hr) ih

/-- **text → tree** for the units `unitsOf` computes from the printed tokens, under any separators `PairOk` accepts -/
theorem text_roundtrip_of (b : Block) (us : List LexUnit)
    (hl : unitsOf (Pyx.Oal.printStmts Gen.OalPrec.table b) = some us) (sep0 : List Char) (seps : List (List Char))
    (hlen : seps.length = us.length) (h0 : Layout0 sep0) (h : PairOk (withSeps us seps))
    (hrt : Pyx.Oal.parseStmts Gen.OalPrec.table (Pyx.Oal.printStmts Gen.OalPrec.table b) = some b) :
    Pyx.Oal.parseStmts Gen.OalPrec.table (toParserToks (lex (sep0 ++ renderT (withSeps us seps)))) = some b := by
  refine text_roundtrip_units b sep0 _ h0 h ?_ hrt
  have : (withSeps us seps).map (fun p => unitToks p.1) = ((withSeps us seps).map (·.1)).map unitToks := by
    rw [List.map_map]; rfl
  rw [this, map_fst_withSeps us seps hlen]
  exact (unitsOf_sound _ us hl).1

theorem withSeps_blanks (us : List LexUnit) :
    withSeps us (us.map fun _ => [' ']) = us.map (fun u => (u, [' '])) := by
  induction us with
  | nil => rfl
  | cons u us ih => simp only [withSeps, List.map_cons, List.zip_cons_cons, List.cons.injEq, true_and]; exact ih

/-! ## a Boolean test of `PairOk` for separators of white space only (for examples and the driver) -/

def wsOnly (sep : List Char) : Bool := sep.all (fun c => c == ' ' || c == '\t' || c == '\r' || c == '\n')

def pairOkB : List (LexUnit × List Char) → Bool
  | [] => true
  | [(u, sep)] => wellB u && wsOnly sep
  | (u, sep) :: (v, sepv) :: rest =>
    wellB u && wsOnly sep && (!sep.isEmpty || tightOk u v) && pairOkB ((v, sepv) :: rest)

theorem wsOnly_layout (sep : List Char) (h : wsOnly sep = true) : Layout0 sep := by
  apply layout0_of_ws
  intro c hc
  have := List.all_eq_true.mp h c hc
  simp only [Bool.or_eq_true, beq_iff_eq] at this
  rcases this with ((h | h) | h) | h <;> simp [h]

theorem wsOnly_noslash (sep : List Char) (h : wsOnly sep = true) (r : List Char) : sep ≠ '/' :: r := by
  intro he
  subst he
  simp [wsOnly] at h

theorem pairOkB_sound : ∀ (units : List (LexUnit × List Char)), pairOkB units = true → PairOk units
  | [], _ => .nil
  | [(u, sep)], h => by
    simp only [pairOkB, Bool.and_eq_true] at h
    exact .single u sep (wellB_sound u h.1) (wsOnly_layout sep h.2) (fun _ r => wsOnly_noslash sep h.2 r)
  | (u, sep) :: (v, sepv) :: rest, h => by
    simp only [pairOkB, Bool.and_eq_true, Bool.or_eq_true, Bool.not_eq_true', List.isEmpty_eq_false_iff] at h
    obtain ⟨⟨⟨hw, hs⟩, ht⟩, hrest⟩ := h
    refine .cons u sep v sepv rest (wellB_sound u hw) (wsOnly_layout sep hs) ?_ (fun _ r => wsOnly_noslash sep hs r)
      (pairOkB_sound _ hrest)
    intro he
    rcases ht with ht | ht
    · exact absurd he ht
    · exact ht

end Pyx.OalText
