import Proofs.OalBridge
import Proofs.OalTight
import Proofs.OalStmt
import Gen.OalPrec
import PyxModel.Oal.Text

/-!
  TEXT → TREE (C07, audit item 1): the character-level lexer model (`Pyx.OalLex.lex`, tables generated from
  oal.py) composed with the token-level parser model (`Pyx.Oal.parseStmts`).

  The printed token stream of a tree is turned into lexical units (`unitsOf`: one unit per token, `NS` `::` fused
  into the unit the NAMESPACE rule reads), every unit is checked (Boolean checks, sound for the `Well…`
  predicates of Proofs/OalLayout.lean) to be a lexeme the lexer returns as exactly that token — this is
  `LexemesOk`.  `text_roundtrip`: for every tree that is `Ok` and `LexemesOk`, and EVERY layout the tight layout
  theorem accepts (`PairOk`: between two units any layout string — blanks, tabs, newlines, block and line comments —
  or nothing at all where `tightOk` allows), lexing the text, converting the tokens (`toParserToks`) and parsing
  gives the tree back.  `text_roundtrip_blanks`: one blank between the units is always such a layout, so the
  statement is not vacuous for any `LexemesOk` tree.

  Not covered (disclosed): the identifier spelled `end` (`WellWord.notEnd`: `end` + white space + `if|for|while` is
  ONE token of the lexer, so a bare `end` is not in the domain of the layout theorems).
-/
set_option linter.unusedSimpArgs false
set_option linter.unusedVariables false

namespace Pyx.OalText
open Pyx.OalLex
open Pyx.Oal (Kind Block)

/-! ## the conversion of the model file is builder-A2's `toParserTok` -/

theorem kindNames_eq : kindNameTable = kindNames := by decide +kernel

theorem kindOfLexName_eq (k : List Char) : kindOfLexName k = kindOfChars k := by
  unfold kindOfLexName kindOfChars
  simp only [kindNames_eq]

theorem conv_tok (t : Tok) : conv (t.kind, t.lexeme) = toParserTok t := by
  simp only [conv, toParserTok, kindOfLexName_eq]

theorem ofLexTok_eq (t : Tok) : ofLexTok t = toParserTok t := conv_tok t

/-- `parseText` (PyxModel/Oal/Text.lean, what the driver runs) is the composition the theorems are about -/
theorem parseText_eq (text : List Char) :
    parseText text = Pyx.Oal.parseStmts Gen.OalPrec.table (toParserToks (lex text)) := by
  unfold parseText toParserToks
  rw [List.map_congr_left (fun t _ => ofLexTok_eq t)]

/-! ## Boolean well-formedness checks, sound for the `Well…` predicates -/

theorem wellWordB_sound (s : List Char) (h : wellWordB s = true) : WellWord s := by
  cases s with
  | nil => simp [wellWordB] at h
  | cons x s' =>
    simp only [wellWordB, Bool.and_eq_true, List.all_eq_true, Bool.not_eq_true', beq_eq_false_iff_ne, ne_eq] at h
    exact ⟨⟨x, s', rfl, h.1.1, h.1.2⟩, h.2⟩

theorem wellNumberB_sound (s : List Char) (h : wellNumberB s = true) : WellNumber s := by
  simp only [wellNumberB, Bool.and_eq_true, Bool.not_eq_true', List.isEmpty_eq_false_iff, List.all_eq_true] at h
  exact ⟨h.1, h.2⟩

theorem wellFractionB_sound (s : List Char) (h : wellFractionB s = true) : WellFraction s := by
  simp only [wellFractionB, Bool.and_eq_true, Bool.not_eq_true', List.isEmpty_eq_false_iff, decide_eq_true_eq] at h
  exact ⟨h.1, h.2⟩

theorem quotedB_sound (q : Char) (f : Char → Bool) (s : List Char) (h : quotedB q f s = true) :
    ∃ body, s = q :: body ++ [q] ∧ ∀ y ∈ body, f y = true := by
  cases s with
  | nil => simp [quotedB] at h
  | cons x rest =>
    simp only [quotedB, Bool.and_eq_true, beq_iff_eq] at h
    obtain ⟨rfl, h2⟩ := h
    cases hr : rest.reverse with
    | nil => rw [hr] at h2; simp at h2
    | cons y bodyRev =>
      rw [hr] at h2
      simp only [Bool.and_eq_true, beq_iff_eq, List.all_eq_true] at h2
      obtain ⟨rfl, h3⟩ := h2
      refine ⟨bodyRev.reverse, ?_, ?_⟩
      · have : rest = (y :: bodyRev).reverse := by rw [← hr, List.reverse_reverse]
        rw [this, List.reverse_cons]
        rfl
      · intro z hz
        exact h3 z (List.mem_reverse.mp hz)

theorem wellStringB_sound (s : List Char) (h : wellStringB s = true) : WellString s := by
  obtain ⟨body, hs, hb⟩ := quotedB_sound _ _ s h
  refine ⟨⟨body, hs, ?_⟩⟩
  intro y hy
  have := hb y hy
  simp only [Bool.and_eq_true, Bool.not_eq_true', beq_eq_false_iff_ne, ne_eq] at this
  exact this

theorem wellTickedB_sound (s : List Char) (h : wellTickedB s = true) : WellTicked s := by
  obtain ⟨body, hs, hb⟩ := quotedB_sound _ _ s h
  refine ⟨⟨body, hs, ?_⟩⟩
  intro y hy
  have := hb y hy
  simp only [Bool.not_eq_true', beq_eq_false_iff_ne, ne_eq] at this
  exact this

theorem mem_takeWhile {p : Char → Bool} : ∀ (l : List Char) (z : Char), z ∈ l.takeWhile p → p z = true
  | [], z, h => by simp at h
  | x :: l, z, h => by
    simp only [List.takeWhile_cons] at h
    split at h
    · rename_i hx
      rcases List.mem_cons.mp h with rfl | h'
      · exact hx
      · exact mem_takeWhile l z h'
    · simp at h

theorem wellEndB_sound (w s : List Char) (h : wellEndB w s = true) : WellEnd w s := by
  match s, h with
  | a :: b :: c :: y :: rest, h =>
    simp only [wellEndB, Bool.and_eq_true, beq_iff_eq] at h
    obtain ⟨⟨⟨⟨ha, hb⟩, hc⟩, hy⟩, hl⟩ := h
    refine ⟨⟨a, b, c, y, rest.takeWhile isSpace, rest.dropWhile isSpace, ?_, by simp [ha], by simp [hb], by simp [hc],
      hy, fun z hz => mem_takeWhile _ z hz, hl⟩⟩
    simp only [List.cons_append, List.takeWhile_append_dropWhile]

theorem wellNsB_sound (n : List Char) (h : wellNsB n = true) : WellNs n := by
  simp only [wellNsB, Bool.and_eq_true, Bool.not_eq_true', List.isEmpty_eq_false_iff, List.all_eq_true] at h
  exact ⟨h.1, h.2⟩

theorem wellB_sound (u : LexUnit) (h : wellB u = true) : u.Well := by
  cases u with
  | word s => exact wellWordB_sound s h
  | number s => exact wellNumberB_sound s h
  | fraction s => exact wellFractionB_sound s h
  | string s => exact wellStringB_sound s h
  | ticked s => exact wellTickedB_sound s h
  | endFor s => exact wellEndB_sound _ s h
  | endIf s => exact wellEndB_sound _ s h
  | endWhile s => exact wellEndB_sound _ s h
  | lit i => simpa [wellB, LexUnit.Well] using h
  | div => trivial
  | ns n => exact wellNsB_sound n h

/-! ## from parser tokens to lexical units -/

theorem unitsOf_sound : ∀ (ts : List PTok) (us : List LexUnit), unitsOf ts = some us →
    (us.map unitToks).flatten = ts ∧ ∀ u ∈ us, u.Well
  | [], us, h => by
    simp only [unitsOf, Option.some.injEq] at h
    subst h
    exact ⟨rfl, fun u hu => by simp at hu⟩
  | [a], us, h => by
    simp only [unitsOf] at h
    split at h <;> try contradiction
    rename_i u hc
    split at h <;> try contradiction
    rename_i hu
    simp only [Option.some.injEq] at h
    subst h
    refine ⟨by simp [hu.1], ?_⟩
    intro v hv
    simp only [List.mem_singleton] at hv
    subst hv
    exact wellB_sound _ hu.2
  | a :: d :: rest, us, h => by
    simp only [unitsOf] at h
    split at h
    · split at h <;> try contradiction
      rename_i hns hu
      cases hr : unitsOf rest with
      | none => rw [hr] at h; simp at h
      | some us' =>
        rw [hr] at h
        simp only [Option.map_some, Option.some.injEq] at h
        subst h
        obtain ⟨h1, h2⟩ := unitsOf_sound rest us' hr
        refine ⟨by simp [hu.1, h1], ?_⟩
        intro v hv
        rcases List.mem_cons.mp hv with rfl | hv'
        · exact wellB_sound _ hu.2
        · exact h2 v hv'
    · split at h <;> try contradiction
      rename_i u hc
      split at h <;> try contradiction
      rename_i hu
      cases hr : unitsOf (d :: rest) with
      | none => rw [hr] at h; simp at h
      | some us' =>
        rw [hr] at h
        simp only [Option.map_some, Option.some.injEq] at h
        subst h
        obtain ⟨h1, h2⟩ := unitsOf_sound (d :: rest) us' hr
        refine ⟨by simp [hu.1, h1], ?_⟩
        intro v hv
        rcases List.mem_cons.mp hv with rfl | hv'
        · exact wellB_sound _ hu.2
        · exact h2 v hv'

/-! ## the composition -/

/-- every lexeme of the printed tree is one the lexer returns as exactly that token: the printed token stream
    splits into well-formed lexical units (decidable: `unitsOf` computes them) -/
def LexemesOk (b : Block) : Prop := (unitsOf (Pyx.Oal.printStmts Gen.OalPrec.table b)).isSome = true

instance (b : Block) : Decidable (LexemesOk b) := by unfold LexemesOk; infer_instance

theorem map_fst_withSeps : ∀ (us : List LexUnit) (seps : List (List Char)), seps.length = us.length →
    (withSeps us seps).map (·.1) = us
  | [], [], _ => rfl
  | [], _ :: _, h => by simp at h
  | _ :: _, [], h => by simp at h
  | u :: us, s :: seps, h => by
    simp only [withSeps, List.zip_cons_cons, List.map_cons, List.cons.injEq, true_and]
    exact map_fst_withSeps us seps (by simpa using h)

/-- the lexer and the conversion on a text written from units -/
theorem lex_units (sep0 : List Char) (units : List (LexUnit × List Char)) (h0 : Layout0 sep0) (h : PairOk units) :
    toParserToks (lex (sep0 ++ renderT units)) = (units.map (fun p => unitToks p.1)).flatten := by
  have hl := layout_irrelevant_tight sep0 units h0 h
  have : toParserToks (lex (sep0 ++ renderT units)) =
      ((lex (sep0 ++ renderT units)).map (fun t => (t.kind, t.lexeme))).map conv := by
    simp only [toParserToks, List.map_map]
    exact List.map_congr_left (fun t _ => (conv_tok t).symm)
  rw [this, hl, List.map_flatten, List.map_map]
  rfl

/-- **text → tree, any units that spell the printed tokens**: if the units (with any layout `PairOk` accepts)
    stand for the token stream the printer emits for `b`, the text parses to `b` -/
theorem text_roundtrip_units (b : Block) (sep0 : List Char)
    (units : List (LexUnit × List Char)) (h0 : Layout0 sep0) (h : PairOk units)
    (hspell : (units.map (fun p => unitToks p.1)).flatten = Pyx.Oal.printStmts Gen.OalPrec.table b)
    (hrt : Pyx.Oal.parseStmts Gen.OalPrec.table (Pyx.Oal.printStmts Gen.OalPrec.table b) = some b) :
    Pyx.Oal.parseStmts Gen.OalPrec.table (toParserToks (lex (sep0 ++ renderT units))) = some b := by
  rw [lex_units sep0 units h0 h, hspell, hrt]

/-- one blank after every unit is a layout `PairOk` accepts -/
theorem pairOk_blanks : ∀ (us : List LexUnit), (∀ u ∈ us, u.Well) → PairOk (us.map (fun u => (u, [' '])))
  | [], _ => .nil
  | [u], hw =>
    .single u [' '] (hw u (by simp)) (.ws ' ' [] (Or.inl rfl) .nil) (fun _ r hr => by cases hr)
  | u :: v :: rest, hw => by
    have ih := pairOk_blanks (v :: rest) (fun x hx => hw x (List.mem_cons_of_mem _ hx))
    exact .cons u [' '] v [' '] _ (hw u (by simp)) (.ws ' ' [] (Or.inl rfl) .nil) (fun hne => by cases hne)
      (fun _ r hr => by cases hr) ih

/-- **text → tree** for the units `unitsOf` computes from the printed tokens, under any separators `PairOk` accepts -/
theorem text_roundtrip_of (b : Block) (us : List LexUnit)
    (hl : unitsOf (Pyx.Oal.printStmts Gen.OalPrec.table b) = some us) (sep0 : List Char) (seps : List (List Char))
    (hlen : seps.length = us.length) (h0 : Layout0 sep0) (h : PairOk (withSeps us seps))
    (hrt : Pyx.Oal.parseStmts Gen.OalPrec.table (Pyx.Oal.printStmts Gen.OalPrec.table b) = some b) :
    Pyx.Oal.parseStmts Gen.OalPrec.table (toParserToks (lex (sep0 ++ renderT (withSeps us seps)))) = some b := by
  refine text_roundtrip_units b sep0 _ h0 h ?_ hrt
  have : (withSeps us seps).map (fun p => unitToks p.1) = ((withSeps us seps).map (·.1)).map unitToks := by
    rw [List.map_map]; rfl
  rw [this, map_fst_withSeps us seps hlen]
  exact (unitsOf_sound _ us hl).1

theorem withSeps_blanks (us : List LexUnit) :
    withSeps us (us.map fun _ => [' ']) = us.map (fun u => (u, [' '])) := by
  induction us with
  | nil => rfl
  | cons u us ih => simp only [withSeps, List.map_cons, List.zip_cons_cons, List.cons.injEq, true_and]; exact ih

/-! ## `layoutB` / `pairOkB` (PyxModel/Oal/Text.lean) are sound for `Layout0` / `PairOk` -/

theorem commentBody_take : ∀ (r : List Char) (st : Bool) (n : Nat), commentBody r st = some n →
    commentBody (r.take n) st = some n ∧ n ≤ r.length
  | [], st, n, h => by simp [commentBody] at h
  | c :: r, st, n, h => by
    simp only [commentBody] at h
    split at h
    · rename_i hc
      cases hm : commentBody r true with
      | none => rw [hm] at h; simp at h
      | some m =>
        rw [hm] at h
        simp only [Option.map_some, Option.some.injEq] at h
        subst h
        obtain ⟨h1, h2⟩ := commentBody_take r true m hm
        simp only [List.take_succ_cons, commentBody, hc, ↓reduceIte, h1, Option.map_some, List.length_cons]
        exact ⟨trivial, by omega⟩
    · rename_i hc
      split at h
      · rename_i hs
        simp only [Option.some.injEq] at h
        subst h
        simp only [List.take_succ_cons, List.take_zero, commentBody, hc, hs, ↓reduceIte, List.length_cons]
        exact ⟨by simp, by omega⟩
      · rename_i hs
        cases hm : commentBody r false with
        | none => rw [hm] at h; simp at h
        | some m =>
          rw [hm] at h
          simp only [Option.map_some, Option.some.injEq] at h
          subst h
          obtain ⟨h1, h2⟩ := commentBody_take r false m hm
          simp only [List.take_succ_cons, commentBody, hc, hs, ↓reduceIte, h1, Option.map_some, List.length_cons]
          exact ⟨by simp, by omega⟩

theorem dropWhile_head (p : Char → Bool) : ∀ (l : List Char) (x : Char) (r : List Char),
    l.dropWhile p = x :: r → p x = false
  | [], x, r, h => by simp at h
  | y :: l, x, r, h => by
    simp only [List.dropWhile_cons] at h
    split at h
    · exact dropWhile_head p l x r h
    · rename_i hy
      simp only [List.cons.injEq] at h
      rw [← h.1]
      simpa using hy

theorem layoutB_sound : ∀ (f : Nat) (s : List Char), layoutB f s = true → Layout0 s
  | _, [], _ => .nil
  | 0, _ :: _, h => by simp [layoutB] at h
  | f + 1, c :: rest, h => by
    simp only [layoutB] at h
    split at h
    · rename_i hc
      simp only [Bool.or_eq_true, beq_iff_eq] at hc
      refine .ws c rest ?_ (layoutB_sound f rest h)
      rcases hc with ((h1 | h1) | h1) | h1 <;> simp [h1]
    · split at h <;> try contradiction
      rename_i hsl
      simp only [beq_iff_eq] at hsl
      subst hsl
      split at h <;> try contradiction
      rename_i d r
      split at h
      · rename_i hd
        simp only [beq_iff_eq] at hd
        subst hd
        split at h <;> try contradiction
        rename_i n hn
        obtain ⟨h1, h2⟩ := commentBody_take r false n hn
        have hlen : (r.take n).length = n := by simp [List.length_take]; omega
        have := Layout0.comment (r.take n) (r.drop n) (by rw [hlen]; exact h1) (layoutB_sound f _ h)
        simpa only [List.cons_append, List.take_append_drop] using this
      · split at h <;> try contradiction
        rename_i hd
        simp only [beq_iff_eq] at hd
        subst hd
        split at h <;> try contradiction
        rename_i x r' hdw
        have hx : x = '\n' := by
          have := dropWhile_head _ r x r' hdw
          simpa using this
        subst hx
        have hb : ∀ y ∈ r.takeWhile (fun y => !(y == '\n')), y ≠ '\n' := by
          intro y hy
          have := mem_takeWhile _ y hy
          simpa using this
        have := Layout0.lineComment (r.takeWhile (fun y => !(y == '\n'))) r' hb (layoutB_sound f _ h)
        rw [← hdw] at this
        simpa only [List.cons_append, List.append_assoc, List.takeWhile_append_dropWhile] using this

theorem isLayout_sound (s : List Char) (h : isLayout s = true) : Layout0 s := layoutB_sound _ s h

theorem startsWithSlash_false (sep : List Char) (h : startsWithSlash sep = false) (r : List Char) :
    sep ≠ '/' :: r := by
  intro he
  subst he
  simp [startsWithSlash] at h

theorem pairOkB_sound : ∀ (units : List (LexUnit × List Char)), pairOkB units = true → PairOk units
  | [], _ => .nil
  | [(u, sep)], h => by
    simp only [pairOkB, Bool.and_eq_true, Bool.or_eq_true, Bool.not_eq_true', beq_eq_false_iff_ne, ne_eq] at h
    obtain ⟨⟨hw, hs⟩, hd⟩ := h
    refine .single u sep (wellB_sound u hw) (isLayout_sound sep hs) (fun ht r => ?_)
    rcases hd with hd | hd
    · exact absurd ht hd
    · exact startsWithSlash_false sep hd r
  | (u, sep) :: (v, sepv) :: rest, h => by
    simp only [pairOkB, Bool.and_eq_true, Bool.or_eq_true, Bool.not_eq_true', List.isEmpty_eq_false_iff,
      beq_eq_false_iff_ne, ne_eq] at h
    obtain ⟨⟨⟨⟨hw, hs⟩, ht⟩, hd⟩, hrest⟩ := h
    refine .cons u sep v sepv rest (wellB_sound u hw) (isLayout_sound sep hs) ?_ (fun htx r => ?_)
      (pairOkB_sound _ hrest)
    · intro he
      rcases ht with ht | ht
      · exact absurd he ht
      · exact ht
    · rcases hd with hd | hd
      · exact absurd htx hd
      · exact startsWithSlash_false sep hd r

/-! ## what the driver's `inDomain` flags mean -/

theorem flatten_unitSeps : ∀ (us : List LexUnit) (gaps : List (List Char)) (seps : List (List Char)),
    unitSeps us gaps = some seps → seps.length = us.length
  | [], [], seps, h => by simp only [unitSeps, Option.some.injEq] at h; subst h; rfl
  | [], _ :: _, seps, h => by simp [unitSeps] at h
  | u :: us, gaps, seps, h => by
    cases u with
    | ns n =>
      match gaps, h with
      | g1 :: g2 :: gaps', h =>
        simp only [unitSeps] at h
        split at h <;> try contradiction
        cases hr : unitSeps us gaps' with
        | none => rw [hr] at h; simp at h
        | some s' =>
          rw [hr] at h
          simp only [Option.map_some, Option.some.injEq] at h
          subst h
          simp [flatten_unitSeps us gaps' s' hr]
      | [], h => simp [unitSeps] at h
      | [_], h => simp [unitSeps] at h
    | _ =>
      all_goals
        match gaps, h with
        | g :: gaps', h =>
          simp only [unitSeps] at h
          cases hr : unitSeps us gaps' with
          | none => rw [hr] at h; simp at h
          | some s' =>
            rw [hr] at h
            simp only [Option.map_some, Option.some.injEq] at h
            subst h
            simp [flatten_unitSeps us gaps' s' hr]
        | [], h => simp [unitSeps] at h

/-- **the driver's domain test is the hypothesis of the theorems**: when `inDomain ts sep0 gaps = (true, true)`
    there are units and separators with which the text is written, and the lexer model followed by the conversion
    returns exactly the tokens `ts` on that text -/
theorem inDomain_lex (ts : List PTok) (sep0 : List Char) (gaps : List (List Char))
    (h : inDomain ts sep0 gaps = (true, true)) :
    ∃ us seps, unitsOf ts = some us ∧ unitSeps us gaps = some seps ∧
      (lex (sep0 ++ renderT (withSeps us seps))).map ofLexTok = ts := by
  unfold inDomain at h
  cases hu : unitsOf ts with
  | none => simp [hu] at h
  | some us =>
    simp only [hu] at h
    cases hs : unitSeps us gaps with
    | none => simp [hs] at h
    | some seps =>
      simp only [hs, Prod.mk.injEq, true_and, Bool.and_eq_true] at h
      refine ⟨us, seps, rfl, hs, ?_⟩
      have hl := lex_units sep0 (withSeps us seps) (isLayout_sound sep0 h.1) (pairOkB_sound _ h.2)
      have hmap : (lex (sep0 ++ renderT (withSeps us seps))).map ofLexTok =
          toParserToks (lex (sep0 ++ renderT (withSeps us seps))) :=
        List.map_congr_left (fun t _ => ofLexTok_eq t)
      rw [hmap, hl]
      have : (withSeps us seps).map (fun p => unitToks p.1) = ((withSeps us seps).map (·.1)).map unitToks := by
        rw [List.map_map]; rfl
      rw [this, map_fst_withSeps us seps (flatten_unitSeps us gaps seps hs)]
      exact (unitsOf_sound ts us hu).1

end Pyx.OalText
