import Proofs.SqlParser

set_option linter.unusedSimpArgs false

/-! every statement consumes at least one token, so the parser's fuel `toks.length` always suffices -/
namespace Pyx.Sql

theorem expectK_shorter (k : Kind) (toks r : List Tok) (h : expectK k toks = some r) : r.length < toks.length := by
  cases toks with
  | nil => simp [expectK] at h
  | cons t ts =>
    simp only [expectK] at h
    split at h
    · simp only [Option.some.injEq] at h; subst h; simp
    · simp at h

theorem identAt_shorter (toks : List Tok) (x : Name × List Tok) (h : identAt toks = some x) : x.2.length < toks.length := by
  cases toks with
  | nil => simp [identAt] at h
  | cons t ts =>
    simp only [identAt] at h
    split at h
    · simp only [Option.some.injEq] at h; subst h; simp
    · simp at h

theorem relidAt_shorter (toks : List Tok) (x : Name × List Tok) (h : relidAt toks = some x) : x.2.length < toks.length := by
  cases toks with
  | nil => simp [relidAt] at h
  | cons t ts =>
    simp only [relidAt] at h
    split at h
    · simp only [Option.some.injEq] at h; subst h; simp
    · simp at h

theorem cardAt_shorter (toks : List Tok) (x : Text × List Tok) (h : cardAt toks = some x) : x.2.length < toks.length := by
  cases toks with
  | nil => simp [cardAt] at h
  | cons t ts =>
    simp only [cardAt] at h
    split at h
    · split at h
      · simp only [Option.some.injEq] at h; subst h; simp
      · simp at h
    · split at h
      · simp only [Option.some.injEq] at h; subst h; simp
      · simp at h
    · simp only [Option.some.injEq] at h; subst h; simp
    · simp at h

theorem attrAt_le (toks : List Tok) (x : (Name × Name) × List Tok) (h : attrAt toks = some x) : x.2.length ≤ toks.length := by
  unfold attrAt at h
  split at h
  · split at h
    · simp only [Option.some.injEq] at h; subst h; simp; omega
    · simp at h
  · simp at h

theorem identAt_le (toks : List Tok) (x : Name × List Tok) (h : identAt toks = some x) : x.2.length ≤ toks.length :=
  Nat.le_of_lt (identAt_shorter toks x h)

theorem valueAt_le (toks : List Tok) (x : Text × List Tok) (h : valueAt toks = some x) : x.2.length ≤ toks.length := by
  unfold valueAt at h
  split at h
  · split at h
    · simp only [Option.some.injEq] at h; subst h; simp
    · split at h
      · split at h
        · split at h
          · simp only [Option.some.injEq] at h; subst h; simp; omega
          · simp at h
        · simp at h
      · simp at h
  · simp at h

theorem seqTail_le {α : Type} (elem : List Tok → Option (α × List Tok))
    (he : ∀ toks x, elem toks = some x → x.2.length ≤ toks.length) :
    ∀ (fuel : Nat) (toks : List Tok) (x : List α × List Tok), seqTail elem fuel toks = some x → x.2.length ≤ toks.length := by
  intro fuel
  induction fuel with
  | zero =>
    intro toks x h
    cases toks with
    | nil => rw [seqTail.eq_def] at h; simp only [Option.some.injEq] at h; subst h; simp
    | cons t r =>
      rw [seqTail.eq_def] at h
      by_cases hk : t.kind = Kind.COMMA
      · simp [hk] at h
      · simp only [hk, if_false, Option.some.injEq] at h; subst h; simp
  | succ f ih =>
    intro toks x h
    cases toks with
    | nil => rw [seqTail.eq_def] at h; simp only [Option.some.injEq] at h; subst h; simp
    | cons t r =>
      rw [seqTail.eq_def] at h
      by_cases hk : t.kind = Kind.COMMA
      · simp only [hk, if_true] at h
        cases hy : elem r with
        | none => simp [hy] at h
        | some y =>
          simp only [hy] at h
          cases hs : seqTail elem f y.2 with
          | none => simp [hs] at h
          | some z =>
            simp only [hs, Option.some.injEq] at h; subst h
            have h1 := he r y hy
            have h2 := ih y.2 z hs
            simp at h1 h2 ⊢; omega
      · simp only [hk, if_false, Option.some.injEq] at h; subst h; simp

/-- FUEL of `(COMMA x)*`: one unit per remaining token always suffices -- every round consumes the comma, and the element
    parser never returns more tokens than it got -- so `none` from `seqTail` (hence from `seqP`, which starts it with the
    number of remaining tokens) is always a syntax error, never exhaustion -/
theorem seqTail_fuel_stable {α : Type} (elem : List Tok → Option (α × List Tok))
    (he : ∀ toks x, elem toks = some x → x.2.length ≤ toks.length) :
    ∀ (fuel fuel' : Nat) (toks : List Tok), toks.length ≤ fuel → toks.length ≤ fuel' →
      seqTail elem fuel toks = seqTail elem fuel' toks := by
  intro fuel
  induction fuel with
  | zero =>
    intro fuel' toks h _
    have : toks = [] := by cases toks with
      | nil => rfl
      | cons _ _ => simp at h
    subst this
    rw [seqTail.eq_def, seqTail.eq_def]
  | succ f ih =>
    intro fuel' toks h h'
    cases toks with
    | nil => rw [seqTail.eq_def, seqTail.eq_def]
    | cons t r =>
      cases fuel' with
      | zero => simp at h'
      | succ f' =>
        rw [seqTail.eq_def elem (f + 1), seqTail.eq_def elem (f' + 1)]
        simp only
        split
        · cases hel : elem r with
          | none => rfl
          | some y =>
            obtain ⟨x, r'⟩ := y
            have hl := he r (x, r') hel
            simp only at hl
            simp only [List.length_cons] at h h'
            simp only [ih f' r' (by omega) (by omega)]
        · rfl

theorem seqP_le {α : Type} (elem : List Tok → Option (α × List Tok))
    (he : ∀ toks x, elem toks = some x → x.2.length ≤ toks.length)
    (toks : List Tok) (x : List α × List Tok) (h : seqP elem toks = some x) : x.2.length ≤ toks.length := by
  unfold seqP at h
  split at h
  · rename_i y r hy
    split at h
    · rename_i xs r' hs
      simp only [Option.some.injEq] at h; subst h
      have h1 := he toks (y, r) hy
      have h2 := seqTail_le elem he _ r (xs, r') hs
      simp at h1 h2 ⊢; omega
    · simp at h
  · exact seqTail_le elem he _ toks x h

theorem endAt_shorter (toks : List Tok) (x : EndP × List Tok) (h : endAt toks = some x) : x.2.length < toks.length := by
  simp only [endAt, Option.bind_eq_bind, Option.bind_eq_some_iff] at h
  obtain ⟨a, h1, b, h2, c, h3, d, h4, e, h5, h6⟩ := h
  have l1 := cardAt_shorter _ _ h1
  have l2 := identAt_shorter _ _ h2
  have l3 := expectK_shorter _ _ _ h3
  have l4 := seqP_le identAt identAt_le _ _ h4
  have l5 := expectK_shorter _ _ _ h5
  split at h6
  · simp only [Option.some.injEq] at h6; subst h6
    simp at l5 ⊢; omega
  · simp only [Option.some.injEq] at h6; subst h6; simp; omega

theorem pCreateTable_shorter (toks : List Tok) (x : Stmt × List Tok) (h : pCreateTable toks = some x) :
    x.2.length < toks.length := by
  simp only [pCreateTable, Option.bind_eq_bind, Option.bind_eq_some_iff] at h
  obtain ⟨a, h1, b, h2, c, h3, d, h4, e, h5, f, h6, g, h7, h8⟩ := h
  simp only [Option.some.injEq] at h8; subst h8
  have := expectK_shorter _ _ _ h1; have := expectK_shorter _ _ _ h2; have := identAt_shorter _ _ h3
  have := expectK_shorter _ _ _ h4; have := seqP_le attrAt attrAt_le _ _ h5
  have := expectK_shorter _ _ _ h6; have := expectK_shorter _ _ _ h7
  simp; omega

theorem pCreateRop_shorter (toks : List Tok) (x : Stmt × List Tok) (h : pCreateRop toks = some x) :
    x.2.length < toks.length := by
  simp only [pCreateRop, Option.bind_eq_bind, Option.bind_eq_some_iff] at h
  obtain ⟨a, h1, b, h2, c, h3, d, h4, e, h5, f, h6, g, h7, i, h8, j, h9, h10⟩ := h
  simp only [Option.some.injEq] at h10; subst h10
  have := expectK_shorter _ _ _ h1; have := expectK_shorter _ _ _ h2; have := expectK_shorter _ _ _ h3
  have := relidAt_shorter _ _ h4; have := expectK_shorter _ _ _ h5; have := endAt_shorter _ _ h6
  have := expectK_shorter _ _ _ h7; have := endAt_shorter _ _ h8; have := expectK_shorter _ _ _ h9
  simp; omega

theorem pCreateIndex_shorter (toks : List Tok) (x : Stmt × List Tok) (h : pCreateIndex toks = some x) :
    x.2.length < toks.length := by
  simp only [pCreateIndex, Option.bind_eq_bind, Option.bind_eq_some_iff] at h
  obtain ⟨a, h1, b, h2, c, h3, d, h4, e, h5, f, h6, g, h7, i, h8, j, h9, k, h10, h11⟩ := h
  simp only [Option.some.injEq] at h11; subst h11
  have := expectK_shorter _ _ _ h1; have := expectK_shorter _ _ _ h2; have := expectK_shorter _ _ _ h3
  have := identAt_shorter _ _ h4; have := expectK_shorter _ _ _ h5; have := identAt_shorter _ _ h6
  have := expectK_shorter _ _ _ h7; have := seqP_le identAt identAt_le _ _ h8
  have := expectK_shorter _ _ _ h9; have := expectK_shorter _ _ _ h10
  simp; omega

theorem pInsertOrdered_shorter (toks : List Tok) (x : Stmt × List Tok) (h : pInsertOrdered toks = some x) :
    x.2.length < toks.length := by
  simp only [pInsertOrdered, Option.bind_eq_bind, Option.bind_eq_some_iff] at h
  obtain ⟨a, h1, b, h2, c, h3, d, h4, e, h5, f, h6, g, h7, i, h8, h9⟩ := h
  simp only [Option.some.injEq] at h9; subst h9
  have := expectK_shorter _ _ _ h1; have := expectK_shorter _ _ _ h2; have := identAt_shorter _ _ h3
  have := expectK_shorter _ _ _ h4; have := expectK_shorter _ _ _ h5; have := seqP_le valueAt valueAt_le _ _ h6
  have := expectK_shorter _ _ _ h7; have := expectK_shorter _ _ _ h8
  simp; omega

theorem pInsertNamed_shorter (toks : List Tok) (x : Stmt × List Tok) (h : pInsertNamed toks = some x) :
    x.2.length < toks.length := by
  simp only [pInsertNamed, Option.bind_eq_bind, Option.bind_eq_some_iff] at h
  obtain ⟨a, h1, b, h2, c, h3, d, h4, e, h5, f, h6, g, h7, i, h8, j, h9, k, h10, l, h11, h12⟩ := h
  simp only [Option.some.injEq] at h12; subst h12
  have := expectK_shorter _ _ _ h1; have := expectK_shorter _ _ _ h2; have := identAt_shorter _ _ h3
  have := expectK_shorter _ _ _ h4; have := seqP_le identAt identAt_le _ _ h5
  have := expectK_shorter _ _ _ h6; have := expectK_shorter _ _ _ h7; have := expectK_shorter _ _ _ h8
  have := seqP_le valueAt valueAt_le _ _ h9; have := expectK_shorter _ _ _ h10; have := expectK_shorter _ _ _ h11
  simp; omega

theorem stmtAt_shorter (toks : List Tok) (x : Stmt × List Tok) (h : stmtAt toks = some x) : x.2.length < toks.length := by
  unfold stmtAt at h
  cases h1 : pCreateTable toks with
  | some y => simp [h1] at h; subst h; exact pCreateTable_shorter toks y h1
  | none =>
    cases h2 : pCreateRop toks with
    | some y => simp [h1, h2] at h; subst h; exact pCreateRop_shorter toks y h2
    | none =>
      cases h3 : pCreateIndex toks with
      | some y => simp [h1, h2, h3] at h; subst h; exact pCreateIndex_shorter toks y h3
      | none =>
        cases h4 : pInsertOrdered toks with
        | some y => simp [h1, h2, h3, h4] at h; subst h; exact pInsertOrdered_shorter toks y h4
        | none => simp [h1, h2, h3, h4] at h; exact pInsertNamed_shorter toks x h

theorem parseFuel_eq : ∀ (n m : Nat) (toks : List Tok), toks.length ≤ n → toks.length ≤ m → parseFuel n toks = parseFuel m toks := by
  intro n
  induction n with
  | zero =>
    intro m toks hn _
    cases toks with
    | nil => cases m <;> rfl
    | cons t r => simp at hn
  | succ n ih =>
    intro m toks hn hm
    cases toks with
    | nil => cases m <;> rfl
    | cons t r =>
      cases m with
      | zero => simp at hm
      | succ m =>
        simp only [parseFuel]
        cases hs : stmtAt (t :: r) with
        | none => rfl
        | some x =>
          have := stmtAt_shorter (t :: r) x hs
          simp only [List.length_cons] at this hn hm
          simp only [ih m x.2 (by omega) (by omega)]

/-- fuel `toks.length` is always enough: more fuel never changes the parser's answer -/
theorem parseFuel_stable (toks : List Tok) (n : Nat) (h : toks.length ≤ n) : parseFuel n toks = parse toks :=
  parseFuel_eq n toks.length toks h (Nat.le_refl _)

end Pyx.Sql
