import Proofs.ExtractFuel
import PyxModel.Extract.Xsd

/-!
  C20 — the `while S_UDT` loop of build_class: relational spec `BaseName`, the fuel is never exhausted on acyclic
  user-type chains.
-/

namespace Pyx.Extract

/-- the name of the base data type of a data type: user types followed over R18, then a core type 1..5 or an
    enumeration, with a non-empty name (Python tests `if type_name`) -/
inductive BaseName (dts : List DataType) : Nat → String → Prop where
  | core {i : Nat} {t : DataType} {n : Nat} : findDt dts i = some t → t.kind = .core n → 1 ≤ n → n ≤ 5 → t.name ≠ "" →
      BaseName dts i t.name
  | enum {i : Nat} {t : DataType} {es : List String} : findDt dts i = some t → t.kind = .enum es → t.name ≠ "" →
      BaseName dts i t.name
  | user {i b : Nat} {t : DataType} {s : String} : findDt dts i = some t → t.kind = .user b → BaseName dts b s →
      BaseName dts i s

theorem baseTypeFuel_sound (dts : List DataType) : ∀ (f i : Nat) (s : String), baseTypeFuel dts f i = some s →
    BaseName dts i s := by
  intro f
  induction f with
  | zero => intro i s h; simp [baseTypeFuel] at h
  | succ f ih =>
    intro i s h
    simp only [baseTypeFuel] at h
    cases hf : findDt dts i with
    | none => simp [hf] at h
    | some t =>
      rw [hf] at h
      simp only at h
      cases hk : t.kind with
      | core n =>
        rw [hk] at h
        simp only at h
        split at h
        · rename_i hn; cases h; exact .core hf hk hn.1 hn.2.1 hn.2.2
        · cases h
      | enum es =>
        rw [hk] at h
        simp only at h
        split at h
        · cases h
        · rename_i hn; cases h; exact .enum hf hk hn
      | user b => rw [hk] at h; exact .user hf hk (ih b s h)
      | other => rw [hk] at h; cases h

theorem baseTypeFuel_complete {dts : List DataType} (depth : Nat → Nat)
    (hdec : ∀ t ∈ dts, ∀ b, t.kind = .user b → depth b < depth t.id) {i : Nat} {s : String} (h : BaseName dts i s) :
    ∀ f, depth i < f → baseTypeFuel dts f i = some s := by
  induction h with
  | @core i t n hf hk h1 h5 hne =>
    intro f hlt
    cases f with
    | zero => omega
    | succ f => simp [baseTypeFuel, hf, hk, h1, h5, hne]
  | @enum i t es hf hk hne =>
    intro f hlt
    cases f with
    | zero => omega
    | succ f => simp [baseTypeFuel, hf, hk, hne]
  | @user i b t s hf hk _ ih =>
    intro f hlt
    cases f with
    | zero => omega
    | succ f =>
      simp only [baseTypeFuel, hf, hk]
      obtain ⟨hm, hid⟩ := findDt_mem' hf
      have := hdec t hm b hk
      rw [hid] at this
      exact ih f (by omega)

theorem baseTypeName_iff {dts : List DataType} (chain : DtChainOk dts) (i : Nat) (s : String) :
    baseTypeName dts i = some s ↔ BaseName dts i s := by
  constructor
  · exact baseTypeFuel_sound dts _ i s
  · intro h
    obtain ⟨depth, hdec, hb⟩ := chain.ex
    exact baseTypeFuel_complete depth hdec h _ (by have := hb i; omega)

/-- more fuel than the depth of the chain changes nothing -/
theorem baseTypeFuel_stable {dts : List DataType} (depth : Nat → Nat)
    (hdec : ∀ t ∈ dts, ∀ b, t.kind = .user b → depth b < depth t.id) :
    ∀ (f f' i : Nat), depth i < f → depth i < f' → baseTypeFuel dts f i = baseTypeFuel dts f' i := by
  intro f
  induction f with
  | zero => intro f' i h; omega
  | succ f ih =>
    intro f' i h h'
    cases f' with
    | zero => omega
    | succ f' =>
      simp only [baseTypeFuel]
      cases hf : findDt dts i with
      | none => rfl
      | some t =>
        simp only
        cases hk : t.kind with
        | user b =>
          obtain ⟨hm, hid⟩ := findDt_mem' hf
          have := hdec t hm b hk
          rw [hid] at this
          exact ih f' b (by omega) (by omega)
        | _ => rfl

end Pyx.Extract
