import Proofs.SqlTextFixed
import Proofs.SqlAttrNames

set_option linter.unusedSimpArgs false

/-! the INSERT-only route: classes inferred by `_populate_matching_class` from the first row of each kind
    (names `_0 … _n`, types guessed by `guess_type_name`) -/
namespace Pyx.Sql
open Gen.Persist (Ty)
open Gen.SqlLex (Kw)

/-- the type `guess_type_name` gives to the printed values of a column declared with type `t`: booleans are written
    `0` / `1` and are therefore guessed INTEGER; every other type is guessed as itself -/
def guessedTy : Ty → Ty
  | .BOOLEAN => .INTEGER
  | t => t

/-- the value read back under the guessed type -/
def inferVal : Ty → Val → Val
  | .BOOLEAN, .bool b => .int (if b then 1 else 0)
  | _, v => v

theorem upper_cons_ascii (u : UC) (c : Char) (rest : Text) (h : c.toNat < 128) :
    u.upper (c :: rest) = asciiUpper c :: u.upper rest := by
  simp only [UC.upper, List.flatMap_cons, UC.up, h, if_true, List.singleton_append]

/-- a text whose first character is an ASCII character other than a letter is not `TRUE` / `FALSE` in any spelling -/
theorem not_bool_word (u : UC) (c : Char) (rest : Text) (h : c.toNat < 128) (hl : isAsciiLower c = false)
    (hT : c ≠ 'T') (hF : c ≠ 'F') :
    ¬ (u.upper (c :: rest) = Kw.TRUE.chars ∨ u.upper (c :: rest) = Kw.FALSE.chars) := by
  rw [upper_cons_ascii u c rest h]
  have : asciiUpper c = c := by simp [asciiUpper, hl]
  rw [this]
  intro hh
  rcases hh with hh | hh
  · have := (List.cons.inj hh).1; exact hT this
  · have := (List.cons.inj hh).1; exact hF this

theorem digit_facts {c : Char} (h : isAsciiDigit c = true) :
    c.toNat < 128 ∧ isAsciiLower c = false ∧ c ≠ 'T' ∧ c ≠ 'F' ∧ c ≠ '-' := by
  refine ⟨isAsciiDigit_lt_128 h, ?_, ne_of_isAsciiDigit h (by decide), ne_of_isAsciiDigit h (by decide),
    ne_of_isAsciiDigit h (by decide)⟩
  simp only [isAsciiDigit, Bool.and_eq_true, decide_eq_true_eq] at h
  simp only [isAsciiLower, Bool.and_eq_false_iff, decide_eq_false_iff_not]; omega

/-- the digits-then-optional-fraction part of `guess_type_name` on a text of ASCII digits -/
theorem guess_body_int (u : UC) (ds : Text) (hne : ds ≠ []) (hd : ∀ c ∈ ds, isAsciiDigit c = true) :
    (!(ds.takeWhile u.isDigit).isEmpty) = true ∧ ds.dropWhile u.isDigit = [] := by
  obtain ⟨t1, t2⟩ := takeWhile_digits_run u ds [] hd (by simp)
  simp only [List.append_nil] at t1 t2
  rw [t1, t2]
  cases ds with
  | nil => exact absurd rfl hne
  | cons _ _ => exact ⟨rfl, rfl⟩

theorem guessType_natText (u : UC) (n : Nat) : guessType u (natText n) = some .INTEGER := by
  obtain ⟨d, ds, h⟩ := natText_cons n
  have hall : ∀ c ∈ d :: ds, isAsciiDigit c = true := by rw [← h]; exact natText_all_digit n
  obtain ⟨f1, f2, f3, f4, f5⟩ := digit_facts (hall d (by simp))
  obtain ⟨g1, g2⟩ := guess_body_int u (d :: ds) (by simp) hall
  unfold guessType
  rw [h]
  simp only [not_bool_word u d ds f1 f2 f3 f4, if_false]
  have hb : stripMinus (d :: ds) = d :: ds := by simp [stripMinus, f5]
  simp only [hb, g1, if_true, g2]

theorem guessType_neg_natText (u : UC) (n : Nat) : guessType u ('-' :: natText n) = some .INTEGER := by
  obtain ⟨g1, g2⟩ := guess_body_int u (natText n) (natText_ne_nil n) (natText_all_digit n)
  unfold guessType
  have hb : stripMinus ('-' :: natText n) = natText n := by simp [stripMinus]
  simp only [not_bool_word u '-' (natText n) (by decide) (by decide) (by decide) (by decide), if_false, hb, g1, if_true, g2]

theorem guessType_realText (u : UC) (neg : Bool) (micro : Nat) : guessType u (realText neg micro) = some .REAL := by
  rw [realText_eq]
  have hdot : ∀ c, ('.' :: fracText micro).head? = some c → u.isDigit c = false := by
    intro c hc; simp at hc; subst hc; simp [UC.isDigit, isAsciiDigit]
  obtain ⟨t1, t2⟩ := takeWhile_digits_run u (natText (micro / 1000000)) ('.' :: fracText micro) (natText_all_digit _) hdot
  have s1 : (fracText micro).takeWhile u.isDigit = fracText micro := by
    have := (takeWhile_digits_run u (fracText micro) [] (fracText_all_digit micro) (by simp)).1; simpa using this
  obtain ⟨d, ds, h⟩ := natText_cons (micro / 1000000)
  obtain ⟨e, es, h'⟩ := fracText_cons micro
  have hall : ∀ c ∈ d :: ds, isAsciiDigit c = true := by rw [← h]; exact natText_all_digit _
  obtain ⟨f1, f2, f3, f4, f5⟩ := digit_facts (hall d (by simp))
  unfold guessType
  cases neg with
  | true =>
    simp only [if_true, List.cons_append, List.nil_append]
    have hb : ∀ r : Text, stripMinus ('-' :: r) = r := fun r => by simp [stripMinus]
    simp only [not_bool_word u '-' _ (by decide) (by decide) (by decide) (by decide), if_false, hb, t1, t2, s1]
    rw [h, h']; simp
  | false =>
    simp only [Bool.false_eq_true, if_false, List.nil_append]
    rw [h] at t1 t2 ⊢
    simp only [List.cons_append] at t1 t2 ⊢
    simp only [not_bool_word u d _ f1 f2 f3 f4, if_false]
    have hb : stripMinus (d :: (ds ++ '.' :: fracText micro)) = d :: (ds ++ '.' :: fracText micro) := by simp [stripMinus, f5]
    simp only [hb, t1, t2, s1]
    rw [h']; simp

theorem guessType_strText (u : UC) (s : Text) : guessType u (strText s) = some .STRING := by
  unfold guessType
  have hv : strText s = '\'' :: (escapeQ s ++ ['\'']) := rfl
  rw [hv]
  simp only [not_bool_word u '\'' _ (by decide) (by decide) (by decide) (by decide), if_false]
  have h1 : ((stripMinus ('\'' :: (escapeQ s ++ ['\'']))).takeWhile u.isDigit) = [] := by
    simp [stripMinus, List.takeWhile_cons, UC.isDigit, isAsciiDigit]
  have h2 : (mString ('\'' :: (escapeQ s ++ ['\'']))).isSome = true := by
    simp only [mString, if_true, scanStr_escapeQ s [] (by simp)]; rfl
  simp only [h1, List.isEmpty_nil, Bool.not_true, Bool.false_eq_true, if_false, h2, if_true]

theorem guessType_guidText (u : UC) (n : Nat) : guessType u (guidText n) = some .UNIQUE_ID := by
  unfold guessType
  have hv : guidText n = '"' :: (guidBody n ++ ['"']) := rfl
  rw [hv]
  simp only [not_bool_word u '"' _ (by decide) (by decide) (by decide) (by decide), if_false]
  have h1 : ((stripMinus ('"' :: (guidBody n ++ ['"']))).takeWhile u.isDigit) = [] := by
    simp [stripMinus, List.takeWhile_cons, UC.isDigit, isAsciiDigit]
  have h2 : (mString ('"' :: (guidBody n ++ ['"']))).isSome = false := by simp [mString]
  have h3 : (mGuid ('"' :: (guidBody n ++ ['"']))).isSome = true := by
    simp only [mGuid, if_true, scanGuid_plain (guidBody n) [] (guidBody_plain n)]; rfl
  simp only [h1, List.isEmpty_nil, Bool.not_true, Bool.false_eq_true, if_false, h2, h3, if_true]

/-- G1: the guessed type of a printed value depends only on the declared type of its column -/
theorem guessType_fmt (u : UC) (t : Ty) (x : Val) (txt : Text) (h : fmtValue t x = some txt) :
    guessType u txt = some (guessedTy t) := by
  cases t <;> cases x <;> simp only [fmtValue] at h <;> (first | (exfalso; simp at h; done) | skip)
  · simp only [Option.some.injEq] at h; subst h; exact guessType_natText u _
  · rename_i z
    simp only [Option.some.injEq] at h; subst h
    cases z with
    | ofNat n => exact guessType_natText u n
    | negSucc n => exact guessType_neg_natText u (n + 1)
  · simp only [Option.some.injEq] at h; subst h; exact guessType_realText u _ _
  · simp only [Option.some.injEq] at h; subst h; exact guessType_strText u _
  · split at h
    · simp only [Option.some.injEq] at h; subst h; exact guessType_guidText u _
    · simp at h

/-- G2: … and it is read back under the guessed type as the same value (a boolean as the integer 0 / 1) -/
theorem deserialize_guessed (u : UC) (t : Ty) (x : Val) (txt : Text) (h : fmtValue t x = some txt) :
    deserialize u (guessedTy t).chars txt = some (inferVal t x) := by
  cases t <;> cases x <;> simp only [fmtValue] at h <;> (first | (exfalso; simp at h; done) | skip)
  · rename_i b
    simp only [Option.some.injEq] at h; subst h
    have := deserialize_integer u Ty.INTEGER.chars (tyOfName_chars u .INTEGER) (Int.ofNat (if b then 1 else 0))
    cases b <;> simpa [intText, guessedTy, inferVal] using this
  · exact deserialize_fmt u .INTEGER _ txt _ (tyOfName_chars u .INTEGER) (by simp only [fmtValue]; exact h)
  · exact deserialize_fmt u .REAL _ txt _ (tyOfName_chars u .REAL) (by simp only [fmtValue]; exact h)
  · exact deserialize_fmt u .STRING _ txt _ (tyOfName_chars u .STRING) (by simp only [fmtValue]; exact h)
  · exact deserialize_fmt u .UNIQUE_ID _ txt _ (tyOfName_chars u .UNIQUE_ID) (by simp only [fmtValue]; exact h)

/-- G3: the inferred value prints, under the guessed type, as the same text -/
theorem fmt_inferVal (t : Ty) (x : Val) (txt : Text) (h : fmtValue t x = some txt) :
    fmtValue (guessedTy t) (inferVal t x) = some txt := by
  cases t <;> cases x <;> simp only [fmtValue] at h <;> (first | (exfalso; simp at h; done) | skip)
  · rename_i b
    simp only [Option.some.injEq] at h; subst h
    cases b <;> rfl
  all_goals (simp only [guessedTy, inferVal, fmtValue]; exact h)

/-! ### rows -/

/-- the type name `_populate_matching_class` gives a column whose values were printed under the declared type `ty` -/
def guessedName (u : UC) (ty : Name) : Name :=
  match tyOfName u ty with
  | some t => (guessedTy t).chars
  | none => []

/-- attributes of the inferred class: `_0 … _n` with the guessed types -/
def inferAttrs (u : UC) (attrs : List (Name × Name)) : List (Name × Name) :=
  (positionalNames attrs.length).zip (attrs.map fun a => guessedName u a.2)

/-- a cell of the inferred class: the null value for an unset cell, 0 / 1 for a boolean -/
def inferCell (u : UC) (ty : Name) (v : Option Val) : Option Val :=
  match tyOfName u ty with
  | some t => (resolveVal t v).map (inferVal t)
  | none => v

def inferVals (u : UC) : List (Name × Name) → List (Option Val) → List (Option Val)
  | a :: attrs, v :: vs => inferCell u a.2 v :: inferVals u attrs vs
  | _, vs => vs

theorem rowTexts_length (u : UC) : ∀ (attrs : List (Name × Name)) (vals : List (Option Val)) (texts : List Text),
    rowTexts u attrs vals = some texts → texts.length = attrs.length := by
  intro attrs
  induction attrs with
  | nil => intro vals texts h; simp only [rowTexts, Option.some.injEq] at h; subst h; rfl
  | cons a attrs ih =>
    intro vals texts h
    obtain ⟨nm, ty⟩ := a
    cases vals with
    | nil => simp [rowTexts] at h
    | cons v vs =>
      simp only [rowTexts] at h
      cases hc : cellText u ty v with
      | none => simp [hc] at h
      | some txt =>
        cases hr : rowTexts u attrs vs with
        | none => simp [hc, hr] at h
        | some rest =>
          simp only [hc, hr, Option.some.injEq] at h; subst h
          simp [ih vs rest hr]

/-- one printed cell: its text is guessed as `guessedName`, and read back under that name as `inferCell` -/
theorem cell_infer (u : UC) (ty : Name) (v : Option Val) (txt : Text) (hcore : (tyOfName u ty).isSome = true)
    (h : cellText u ty v = some txt) :
    (match guessType u txt with | some t => t.chars | none => []) = guessedName u ty ∧
    ∃ x, deserialize u (guessedName u ty) txt = some x ∧ inferCell u ty v = some x ∧
      (tyOfName u (guessedName u ty)).isSome = true := by
  unfold cellText at h
  cases ht : tyOfName u ty with
  | none => rw [ht] at hcore; simp at hcore
  | some t =>
    simp only [ht, printValue_eq] at h
    cases hx : resolveVal t v with
    | none => simp [hx] at h
    | some x =>
      simp only [hx, Option.bind_some] at h
      refine ⟨by simp only [guessType_fmt u t x txt h, guessedName, ht], inferVal t x, ?_, ?_, ?_⟩
      · simp only [guessedName, ht]; exact deserialize_guessed u t x txt h
      · simp only [inferCell, ht, hx, Option.map_some]
      · simp only [guessedName, ht, tyOfName_chars, Option.isSome_some]

/-- a printed row against ANY column names: the guessed attribute list, readability, and the cells stored -/
theorem row_infer (u : UC) (c : ClassB) : ∀ (attrs : List (Name × Name)) (names : List Name) (vals : List (Option Val))
    (texts : List Text), names.length = attrs.length → vals.length = attrs.length →
    (∀ a ∈ attrs, (tyOfName u a.2).isSome = true) → rowTexts u attrs vals = some texts →
    inferredAttrs u names texts = names.zip (attrs.map fun a => guessedName u a.2) ∧
    CellsOk u (names.zip (attrs.map fun a => guessedName u a.2)) texts ∧
    (specCells u c (names.zip (attrs.map fun a => guessedName u a.2)) texts).map cellVal = inferVals u attrs vals ∧
    (∀ a ∈ names.zip (attrs.map fun a => guessedName u a.2), (tyOfName u a.2).isSome = true) := by
  intro attrs
  induction attrs with
  | nil =>
    intro names vals texts hn hv _ h
    simp only [rowTexts, Option.some.injEq] at h; subst h
    cases names with
    | nil => cases vals with
      | nil => exact ⟨rfl, trivial, rfl, by simp⟩
      | cons _ _ => simp at hv
    | cons _ _ => simp at hn
  | cons a attrs ih =>
    intro names vals texts hn hv hcore h
    obtain ⟨nm, ty⟩ := a
    cases names with
    | nil => simp at hn
    | cons n ns =>
      cases vals with
      | nil => simp at hv
      | cons v vs =>
        simp only [rowTexts] at h
        cases hc : cellText u ty v with
        | none => simp [hc] at h
        | some txt =>
          cases hr : rowTexts u attrs vs with
          | none => simp [hc, hr] at h
          | some rest =>
            simp only [hc, hr, Option.some.injEq] at h; subst h
            obtain ⟨g1, x, g2, g3, g4⟩ := cell_infer u ty v txt (hcore (nm, ty) (by simp)) hc
            obtain ⟨i1, i2, i3, i4⟩ := ih ns vs rest (by simpa using hn) (by simpa using hv)
              (fun a ha => hcore a (by simp [ha])) hr
            refine ⟨?_, ?_, ?_, ?_⟩
            · have e : inferredAttrs u (n :: ns) (txt :: rest) =
                  (n, match guessType u txt with | some t => t.chars | none => []) :: inferredAttrs u ns rest := rfl
              rw [e, g1, i1]; rfl
            · exact ⟨by simp [g2], i2⟩
            · simp only [List.map_cons, List.zip_cons_cons, specCells, g2, cellVal, inferVals, g3]
              exact congrArg _ i3
            · intro a ha
              simp only [List.map_cons, List.zip_cons_cons, List.mem_cons] at ha
              rcases ha with rfl | ha
              · exact g4
              · exact i4 a ha

/-! ### one block of INSERT statements of one kind -/

theorem find?_pre_last (u : UC) (k : Name) (pre : List ClassB) (cls : ClassB) (as : List AssocB)
    (hpre : ∀ c ∈ pre, sameKind u c.kind k = false) (hk : cls.kind = k) :
    (⟨pre ++ [cls], as⟩ : BState).find? u k = some cls := by
  simp only [BState.find?, List.find?_append]
  have h1 : pre.find? (fun c => u.upper c.kind == u.upper k) = none := by
    rw [List.find?_eq_none]; intro c hc
    have := hpre c hc; simp only [sameKind] at this; simp [this]
  rw [h1]
  simp [hk]

theorem update_pre_last (u : UC) (k : Name) (pre : List ClassB) (cls : ClassB) (as : List AssocB) (f : ClassB → ClassB)
    (hpre : ∀ c ∈ pre, sameKind u c.kind k = false) (hk : cls.kind = k) :
    (⟨pre ++ [cls], as⟩ : BState).update u k f = ⟨pre ++ [f cls], as⟩ := by
  simp only [BState.update, List.map_append, List.map_cons, List.map_nil, BState.mk.injEq, and_true]
  congr 1
  · conv => rhs; rw [← List.map_id pre]
    apply List.map_congr_left
    intro c hc
    have := hpre c hc; simp only [sameKind] at this; simp [this]
  · simp [hk]

theorem tyOfName_nil (u : UC) : tyOfName u [] = none := by
  simp [tyOfName, UC.upper, Gen.Persist.Ty.all, Gen.Persist.Ty.chars]

/-- if every inferred attribute has a known type, `guess_type_name` knew a type for every value -/
theorem guessAll_of_inferred (u : UC) : ∀ (names : List Name) (values : List Text), names.length = values.length →
    (∀ a ∈ inferredAttrs u names values, (tyOfName u a.2).isSome = true) →
    values.all (fun v => (guessType u v).isSome) = true := by
  intro names
  induction names with
  | nil => intro values h _; cases values with
    | nil => rfl
    | cons _ _ => simp at h
  | cons n ns ih =>
    intro values h hall
    cases values with
    | nil => simp at h
    | cons v vs =>
      have htail := ih vs (by simpa using h) (fun a ha => hall a (by
        simp only [inferredAttrs, List.zip_cons_cons, List.map_cons, List.mem_cons]; right
        simpa [inferredAttrs] using ha))
      have hhead := hall (n, match guessType u v with | some t => t.chars | none => []) (by
        simp only [inferredAttrs, List.zip_cons_cons, List.map_cons, List.mem_cons]; left; trivial)
      simp only [List.all_cons, htail, Bool.and_true]
      cases hg : guessType u v with
      | some t => rfl
      | none => rw [hg] at hhead; simp [tyOfName_nil] at hhead

/-- one more positional row for the class that stands last in the state -/
theorem popInstance_last (u : UC) (k : Name) (attrs' : List (Name × Name)) (pre : List ClassB) (R : List (List Cell))
    (as : List AssocB) (t : List Text) (hpre : ∀ c ∈ pre, sameKind u c.kind k = false)
    (hrow : ∀ a ∈ attrs', (tyOfName u a.2).isSome = true) (hcells : CellsOk u attrs' t) :
    popInstance u ⟨pre ++ [⟨k, attrs', [], [], R⟩], as⟩ k t none =
      .ok ⟨pre ++ [⟨k, attrs', [], [], R ++ [specCells u ⟨k, attrs', [], [], []⟩ attrs' t]⟩], as⟩ := by
  have hf := find?_pre_last u k pre ⟨k, attrs', [], [], R⟩ as hpre rfl
  have hnew : newRowOk u ⟨k, attrs', [], [], R⟩ = true := by
    simp only [newRowOk, List.all_eq_true, Bool.or_eq_true]
    intro a ha; exact Or.inr (hrow a ha)
  have hc := positionalCells_ok u ⟨k, attrs', [], [], R⟩ attrs' t hcells
  have hcong : specCells u ⟨k, attrs', [], [], R⟩ attrs' t = specCells u ⟨k, attrs', [], [], []⟩ attrs' t := by
    apply specCells_congr; rfl
  have hgs : guessOk u ⟨pre ++ [⟨k, attrs', [], [], R⟩], as⟩ k t = true := by simp [guessOk, hf]
  simp only [popInstance, isNamed, Bool.false_and, Bool.false_eq_true, if_false, inferOk_positional, hgs, ensureClass, hf, hnew,
    Bool.not_true, cellsOf, hc, hcong]
  rw [update_pre_last u k pre _ as _ hpre rfl]

theorem popInstances_block_tail (u : UC) (k : Name) (attrs' : List (Name × Name))
    (hrow : ∀ a ∈ attrs', (tyOfName u a.2).isSome = true) :
    ∀ (rows : List (List Text)) (pre : List ClassB) (R : List (List Cell)) (as : List AssocB) (rest : List Stmt),
    (∀ c ∈ pre, sameKind u c.kind k = false) → (∀ t ∈ rows, CellsOk u attrs' t) →
    popInstances u (rows.map (fun t => Stmt.insert k t none) ++ rest) ⟨pre ++ [⟨k, attrs', [], [], R⟩], as⟩ =
      popInstances u rest ⟨pre ++ [⟨k, attrs', [], [], R ++ rows.map (specCells u ⟨k, attrs', [], [], []⟩ attrs')⟩], as⟩ := by
  intro rows
  induction rows with
  | nil => intro pre R as rest _ _; simp
  | cons t ts ih =>
    intro pre R as rest hpre hcells
    simp only [List.map_cons, List.cons_append, popInstances,
      popInstance_last u k attrs' pre R as t hpre hrow (hcells t (by simp))]
    rw [ih pre _ as rest hpre (fun x hx => hcells x (by simp [hx]))]
    simp [List.append_assoc]

/-- a whole block: the first row creates the class from its values, the others fill it -/
theorem popInstances_block (u : UC) (k : Name) (t1 : List Text) (ts : List (List Text)) (pre : List ClassB)
    (as : List AssocB) (rest : List Stmt) (hpre : ∀ c ∈ pre, sameKind u c.kind k = false)
    (hrow : ∀ a ∈ inferredAttrs u (positionalNames t1.length) t1, (tyOfName u a.2).isSome = true)
    (hcells : ∀ t ∈ t1 :: ts, CellsOk u (inferredAttrs u (positionalNames t1.length) t1) t) :
    popInstances u ((t1 :: ts).map (fun t => Stmt.insert k t none) ++ rest) ⟨pre, as⟩ =
      popInstances u rest ⟨pre ++ [⟨k, inferredAttrs u (positionalNames t1.length) t1, [], [],
        (t1 :: ts).map (specCells u ⟨k, inferredAttrs u (positionalNames t1.length) t1, [], [], []⟩
          (inferredAttrs u (positionalNames t1.length) t1))⟩], as⟩ := by
  have hnone : (⟨pre, as⟩ : BState).find? u k = none := find?_none_of_forall u ⟨pre, as⟩ k hpre
  -- the first statement: the class is inferred and appended, then it is the `last class` situation with no rows yet
  have hfirst : popInstance u ⟨pre, as⟩ k t1 none =
      popInstance u ⟨pre ++ [⟨k, inferredAttrs u (positionalNames t1.length) t1, [], [], []⟩], as⟩ k t1 none := by
    have hf := find?_pre_last u k pre ⟨k, inferredAttrs u (positionalNames t1.length) t1, [], [], []⟩ as hpre rfl
    have hg1 : guessOk u ⟨pre, as⟩ k t1 = true := by
      simp only [guessOk, hnone]
      exact guessAll_of_inferred u (positionalNames t1.length) t1 (by simp [positionalNames]) hrow
    have hg2 : guessOk u ⟨pre ++ [⟨k, inferredAttrs u (positionalNames t1.length) t1, [], [], []⟩], as⟩ k t1 = true := by
      simp [guessOk, hf]
    simp only [popInstance, isNamed, Bool.false_and, Bool.false_eq_true, if_false, inferOk_positional, Bool.not_true, hg1, hg2,
      ensureClass, inferredFor, hnone, hf]
  simp only [List.map_cons, List.cons_append, popInstances, hfirst,
    popInstance_last u k _ pre [] as t1 hpre hrow (hcells t1 (by simp))]
  rw [popInstances_block_tail u k _ hrow ts pre _ as rest hpre (fun x hx => hcells x (by simp [hx]))]
  simp

/-! ### all classes -/

def inferClass (u : UC) (c : ClassM) : ClassM := ⟨c.kind, inferAttrs u c.attrs, [], c.rows.map (inferVals u c.attrs)⟩

/-- the metamodel the INSERT statements alone build: one class per kind that has rows, in the order of first
    appearance, attributes `_0 … _n` with the guessed types, no identifiers, no associations -/
def MM.inferred (u : UC) (m : MM) : MM := ⟨(m.classes.filter fun c => !c.rows.isEmpty).map (inferClass u), []⟩

theorem positionalNames_length (n : Nat) : (positionalNames n).length = n := by simp [positionalNames]

theorem itemsStmts_append_inv (u : UC) : ∀ (a b : List Item) (s : List Stmt), itemsStmts u (a ++ b) = some s →
    ∃ sa sb, itemsStmts u a = some sa ∧ itemsStmts u b = some sb ∧ s = sa ++ sb := by
  intro a
  induction a with
  | nil => intro b s h; exact ⟨[], s, rfl, h, rfl⟩
  | cons x xs ih =>
    intro b s h
    obtain ⟨st, rest, h1, h2, rfl⟩ := itemsStmts_cons u x (xs ++ b) s h
    obtain ⟨sa, sb, ha, hb, rfl⟩ := ih b rest h2
    exact ⟨st :: sa, sb, by simp only [itemsStmts, h1, ha], hb, rfl⟩

theorem instItems_stmts (u : UC) (kind : Name) (attrs : List (Name × Name)) : ∀ (rows : List (List (Option Val))) (sa : List Stmt),
    itemsStmts u (rows.map fun r => Item.inst kind attrs r) = some sa →
    ∃ textsL : List (List Text), sa = textsL.map (fun t => Stmt.insert kind t none) ∧
      textsL.map some = rows.map (rowTexts u attrs) := by
  intro rows
  induction rows with
  | nil => intro sa h; simp only [List.map_nil, itemsStmts, Option.some.injEq] at h; subst h; exact ⟨[], rfl, rfl⟩
  | cons r rs ih =>
    intro sa h
    obtain ⟨st, rest, h1, h2, rfl⟩ := itemsStmts_cons u _ _ sa h
    obtain ⟨tl, rfl, htl⟩ := ih rest h2
    simp only [Item.stmt] at h1
    cases hr : rowTexts u attrs r with
    | none => simp [hr] at h1
    | some t =>
      simp only [hr, Option.some.injEq] at h1; subst h1
      exact ⟨t :: tl, rfl, by simp only [List.map_cons, hr, htl]⟩

theorem popInstances_classes (u : UC) : ∀ (L : List ClassM) (pre : List ClassB) (as : List AssocB) (stmts : List Stmt),
    (L.map fun c => u.upper c.kind).Nodup →
    (∀ c ∈ L, ∀ p ∈ pre, sameKind u p.kind c.kind = false) →
    (∀ c ∈ L, (∀ a ∈ c.attrs, (tyOfName u a.2).isSome = true) ∧ ∀ r ∈ c.rows, r.length = c.attrs.length) →
    itemsStmts u (L.flatMap ClassM.instItems) = some stmts →
    ∃ new, popInstances u stmts ⟨pre, as⟩ = .ok ⟨pre ++ new, as⟩ ∧
      new.map ClassB.toM = (L.filter fun c => !c.rows.isEmpty).map (inferClass u) := by
  intro L
  induction L with
  | nil =>
    intro pre as stmts _ _ _ h
    simp only [List.flatMap_nil, itemsStmts, Option.some.injEq] at h; subst h
    exact ⟨[], by simp [popInstances], rfl⟩
  | cons c cs ih =>
    intro pre as stmts hnd hpre hcl hs
    simp only [List.flatMap_cons] at hs
    obtain ⟨sa, sb, hsa, hsb, rfl⟩ := itemsStmts_append_inv u _ _ stmts hs
    obtain ⟨textsL, rfl, htl⟩ := instItems_stmts u c.kind c.attrs c.rows sa hsa
    simp only [List.map_cons, List.nodup_cons, List.mem_map, not_exists, not_and] at hnd
    obtain ⟨hcore, hlen⟩ := hcl c (by simp)
    cases hrows : c.rows with
    | nil =>
      rw [hrows] at htl
      have : textsL = [] := by cases textsL with
        | nil => rfl
        | cons _ _ => simp at htl
      subst this
      obtain ⟨new, h1, h2⟩ := ih pre as sb hnd.2 (fun c' hc' => hpre c' (by simp [hc'])) (fun c' hc' => hcl c' (by simp [hc'])) hsb
      refine ⟨new, by simpa using h1, ?_⟩
      simp only [List.filter_cons, hrows, List.isEmpty_nil, Bool.not_true, Bool.false_eq_true, if_false]
      exact h2
    | cons r1 rs =>
      rw [hrows] at htl
      cases textsL with
      | nil => simp at htl
      | cons t1 ts =>
        simp only [List.map_cons, List.cons.injEq] at htl
        obtain ⟨ht1, hts⟩ := htl
        have hlen1 : t1.length = c.attrs.length := rowTexts_length u c.attrs r1 t1 ht1.symm
        have hattrs : inferredAttrs u (positionalNames t1.length) t1 = inferAttrs u c.attrs := by
          rw [hlen1]
          exact (row_infer u ⟨c.kind, [], [], [], []⟩ c.attrs (positionalNames c.attrs.length) r1 t1
            (positionalNames_length _) (hlen r1 (by rw [hrows]; simp)) hcore ht1.symm).1
        -- every row of the class
        have hrowsAll : ∀ (rr : List (List (Option Val))) (tt : List (List Text)), tt.map some = rr.map (rowTexts u c.attrs) →
            (∀ r ∈ rr, r.length = c.attrs.length) →
            (∀ t ∈ tt, CellsOk u (inferAttrs u c.attrs) t) ∧
            (tt.map (specCells u ⟨c.kind, inferAttrs u c.attrs, [], [], []⟩ (inferAttrs u c.attrs))).map (fun r => r.map cellVal) =
              rr.map (inferVals u c.attrs) := by
          intro rr
          induction rr with
          | nil => intro tt h _; cases tt with
            | nil => exact ⟨by simp, rfl⟩
            | cons _ _ => simp at h
          | cons r rr' ihr =>
            intro tt h hl
            cases tt with
            | nil => simp at h
            | cons t tt' =>
              simp only [List.map_cons, List.cons.injEq] at h
              obtain ⟨i1, i2, i3, _⟩ := row_infer u ⟨c.kind, inferAttrs u c.attrs, [], [], []⟩ c.attrs (positionalNames c.attrs.length)
                r t (positionalNames_length _) (hl r (by simp)) hcore h.1.symm
              obtain ⟨j1, j2⟩ := ihr tt' h.2 (fun x hx => hl x (by simp [hx]))
              refine ⟨?_, ?_⟩
              · intro x hx
                simp only [List.mem_cons] at hx
                rcases hx with rfl | hx
                · exact i2
                · exact j1 x hx
              · simp only [List.map_cons, List.cons.injEq]
                exact ⟨i3, j2⟩
        obtain ⟨hcellsAll, hvals⟩ := hrowsAll (r1 :: rs) (t1 :: ts) (by simp only [List.map_cons, ht1, hts])
          (fun r hr => hlen r (by rw [hrows]; exact hr))
        have hrowOk : ∀ a ∈ inferAttrs u c.attrs, (tyOfName u a.2).isSome = true :=
          (row_infer u ⟨c.kind, [], [], [], []⟩ c.attrs (positionalNames c.attrs.length) r1 t1
            (positionalNames_length _) (hlen r1 (by rw [hrows]; simp)) hcore ht1.symm).2.2.2
        have hblock := popInstances_block u c.kind t1 ts pre as sb (fun p hp => hpre c (by simp) p hp)
          (by rw [hattrs]; exact hrowOk) (by rw [hattrs]; exact hcellsAll)
        rw [hattrs] at hblock
        -- the remaining classes
        obtain ⟨new, h1, h2⟩ := ih (pre ++ [⟨c.kind, inferAttrs u c.attrs, [], [],
            (t1 :: ts).map (specCells u ⟨c.kind, inferAttrs u c.attrs, [], [], []⟩ (inferAttrs u c.attrs))⟩]) as sb hnd.2
          (by
            intro c' hc' p hp
            simp only [List.mem_append, List.mem_singleton] at hp
            rcases hp with hp | rfl
            · exact hpre c' (by simp [hc']) p hp
            · simp only [sameKind, beq_eq_false_iff_ne]
              exact fun e => hnd.1 c' hc' e.symm)
          (fun c' hc' => hcl c' (by simp [hc'])) hsb
        refine ⟨(⟨c.kind, inferAttrs u c.attrs, [], [],
            (t1 :: ts).map (specCells u ⟨c.kind, inferAttrs u c.attrs, [], [], []⟩ (inferAttrs u c.attrs))⟩ : ClassB) :: new, ?_, ?_⟩
        · rw [hblock, h1]; simp [List.append_assoc]
        · simp only [List.filter_cons, hrows, List.isEmpty_cons, Bool.not_false, if_true, List.map_cons, h2, List.cons.injEq, and_true]
          simp only [ClassB.toM, inferClass, hrows, ClassM.mk.injEq, true_and]
          exact hvals

/-! ### the whole build on INSERT statements alone -/

def IsInsert : Stmt → Prop
  | .insert _ _ none => True
  | _ => False

theorem popClasses_inserts (u : UC) : ∀ (stmts : List Stmt) (s : BState), (∀ st ∈ stmts, IsInsert st) → popClasses u stmts s = .ok s := by
  intro stmts
  induction stmts with
  | nil => intro s _; rfl
  | cons st rest ih =>
    intro s h
    have h0 := h st (by simp)
    cases st with
    | insert _ _ _ => simp only [popClasses]; exact ih s (fun x hx => h x (by simp [hx]))
    | createTable _ _ => exact absurd h0 (by simp [IsInsert])
    | createRop _ _ _ _ _ _ _ _ _ => exact absurd h0 (by simp [IsInsert])
    | createIndex _ _ _ => exact absurd h0 (by simp [IsInsert])

theorem popIdents_inserts (u : UC) : ∀ (stmts : List Stmt) (s : BState), (∀ st ∈ stmts, IsInsert st) → popIdents u stmts s = .ok s := by
  intro stmts
  induction stmts with
  | nil => intro s _; rfl
  | cons st rest ih =>
    intro s h
    have h0 := h st (by simp)
    cases st with
    | insert _ _ _ => simp only [popIdents]; exact ih s (fun x hx => h x (by simp [hx]))
    | createTable _ _ => exact absurd h0 (by simp [IsInsert])
    | createRop _ _ _ _ _ _ _ _ _ => exact absurd h0 (by simp [IsInsert])
    | createIndex _ _ _ => exact absurd h0 (by simp [IsInsert])

theorem popAssocs_inserts (u : UC) : ∀ (stmts : List Stmt) (s : BState), (∀ st ∈ stmts, IsInsert st) → popAssocs u stmts s = .ok s := by
  intro stmts
  induction stmts with
  | nil => intro s _; rfl
  | cons st rest ih =>
    intro s h
    have h0 := h st (by simp)
    cases st with
    | insert _ _ _ => simp only [popAssocs]; exact ih s (fun x hx => h x (by simp [hx]))
    | createTable _ _ => exact absurd h0 (by simp [IsInsert])
    | createRop _ _ _ _ _ _ _ _ _ => exact absurd h0 (by simp [IsInsert])
    | createIndex _ _ _ => exact absurd h0 (by simp [IsInsert])

theorem build_inserts (u : UC) (stmts : List Stmt) (h : ∀ st ∈ stmts, IsInsert st) :
    build u stmts = popInstances u stmts BState.empty := by
  rw [build_eq_core u stmts]
  unfold buildCore
  simp only [popClasses_inserts u stmts _ h, popIdents_inserts u stmts _ h, popAssocs_inserts u stmts _ h]

theorem instances_stmts_are_inserts (u : UC) (m : MM) (stmts : List Stmt) (hs : itemsStmts u m.serializeInstances = some stmts) :
    ∀ st ∈ stmts, IsInsert st := by
  intro st hst
  obtain ⟨it, hit, hst'⟩ := mem_itemsStmts u _ stmts hs st hst
  simp only [MM.serializeInstances, List.mem_flatMap, ClassM.instItems, List.mem_map] at hit
  obtain ⟨c, _, r, _, rfl⟩ := hit
  simp only [Item.stmt] at hst'
  cases hr : rowTexts u c.attrs r with
  | none => simp [hr] at hst'
  | some t => simp only [hr, Option.some.injEq] at hst'; subst hst'; trivial

/-- WITHOUT CREATE TABLE: the INSERT statements of a closed metamodel alone build, and the built metamodel is
    `m.inferred`: per kind that has rows (in the order of first appearance) a class with attributes `_0 … _n` whose types
    are guessed from the first row — the declared core type, except BOOLEAN which is guessed INTEGER — and the rows in
    order with their values (unset ≡ null; a boolean as 0 / 1) -/
theorem reload_instances_only (u : UC) (m : MM) (hm : m.Closed u) (stmts : List Stmt)
    (hs : itemsStmts u m.serializeInstances = some stmts) :
    ∃ bs, build u stmts = .ok bs ∧ bs.toMM u = m.inferred u := by
  rw [build_inserts u stmts (instances_stmts_are_inserts u m stmts hs)]
  obtain ⟨new, h1, h2⟩ := popInstances_classes u m.classes [] [] stmts hm.distinct (by simp)
    (fun c hc => ⟨hm.types c hc, hm.rows c hc⟩) hs
  refine ⟨_, h1, ?_⟩
  simp only [BState.toMM, List.nil_append, h2, MM.inferred, List.map_nil]

/-! ### one more round changes nothing -/

theorem guessedTy_idem (t : Ty) : guessedTy (guessedTy t) = guessedTy t := by cases t <;> rfl

theorem inferVal_guessed (t : Ty) (x : Val) : inferVal (guessedTy t) x = x := by
  cases t <;> cases x <;> rfl

theorem guessedName_core (u : UC) (ty : Name) (t : Ty) (h : tyOfName u ty = some t) :
    guessedName u ty = (guessedTy t).chars ∧ tyOfName u (guessedName u ty) = some (guessedTy t) := by
  simp only [guessedName, h, tyOfName_chars, and_self]

theorem guessedName_idem (u : UC) (ty : Name) (h : (tyOfName u ty).isSome = true) :
    guessedName u (guessedName u ty) = guessedName u ty := by
  cases ht : tyOfName u ty with
  | none => rw [ht] at h; simp at h
  | some t =>
    obtain ⟨e1, e2⟩ := guessedName_core u ty t ht
    rw [(guessedName_core u (guessedName u ty) (guessedTy t) e2).1, guessedTy_idem, e1]

theorem inferCell_idem (u : UC) (ty : Name) (h : (tyOfName u ty).isSome = true) (v : Option Val) :
    inferCell u (guessedName u ty) (inferCell u ty v) = inferCell u ty v := by
  cases ht : tyOfName u ty with
  | none => rw [ht] at h; simp at h
  | some t =>
    obtain ⟨_, e2⟩ := guessedName_core u ty t ht
    have hres : ∃ x, resolveVal t v = some x := by
      cases v with
      | some x => exact ⟨x, rfl⟩
      | none => exact ⟨documentedNull t, by simp only [resolveVal, nullOf_eq]⟩
    obtain ⟨x, hx⟩ := hres
    have h1 : inferCell u ty v = some (inferVal t x) := by simp only [inferCell, ht, hx, Option.map_some]
    rw [h1]
    simp only [inferCell, e2, resolveVal, Option.map_some, inferVal_guessed]

theorem inferVals_idem_zip (u : UC) : ∀ (attrs : List (Name × Name)) (names : List Name) (vals : List (Option Val)),
    names.length = attrs.length → vals.length = attrs.length → (∀ a ∈ attrs, (tyOfName u a.2).isSome = true) →
    inferVals u (names.zip (attrs.map fun a => guessedName u a.2)) (inferVals u attrs vals) = inferVals u attrs vals := by
  intro attrs
  induction attrs with
  | nil => intro names vals _ hv _; cases vals with
    | nil => cases names <;> rfl
    | cons _ _ => simp at hv
  | cons a attrs ih =>
    intro names vals hn hv hcore
    cases names with
    | nil => simp at hn
    | cons n ns =>
      cases vals with
      | nil => simp at hv
      | cons v vs =>
        simp only [List.map_cons, List.zip_cons_cons, inferVals, inferCell_idem u a.2 (hcore a (by simp)) v]
        exact congrArg _ (ih ns vs (by simpa using hn) (by simpa using hv) (fun x hx => hcore x (by simp [hx])))

theorem inferAttrs_length (u : UC) (attrs : List (Name × Name)) : (inferAttrs u attrs).length = attrs.length := by
  simp [inferAttrs, positionalNames_length]

theorem inferAttrs_snd (u : UC) (attrs : List (Name × Name)) :
    (inferAttrs u attrs).map (fun a => a.2) = attrs.map (fun a => guessedName u a.2) := by
  unfold inferAttrs
  rw [List.map_snd_zip]
  simp [positionalNames_length]

theorem inferAttrs_idem (u : UC) (attrs : List (Name × Name)) (h : ∀ a ∈ attrs, (tyOfName u a.2).isSome = true) :
    inferAttrs u (inferAttrs u attrs) = inferAttrs u attrs := by
  have e : (inferAttrs u attrs).map (fun a => guessedName u a.2) = attrs.map (fun a => guessedName u a.2) := by
    have := inferAttrs_snd u attrs
    calc (inferAttrs u attrs).map (fun a => guessedName u a.2)
        = ((inferAttrs u attrs).map (fun a => a.2)).map (guessedName u) := by rw [List.map_map]; rfl
      _ = (attrs.map (fun a => guessedName u a.2)).map (guessedName u) := by rw [this]
      _ = attrs.map (fun a => guessedName u a.2) := by
          rw [List.map_map]
          apply List.map_congr_left
          intro a ha
          exact guessedName_idem u a.2 (h a ha)
  have hl := inferAttrs_length u attrs
  show (positionalNames (inferAttrs u attrs).length).zip ((inferAttrs u attrs).map fun a => guessedName u a.2) = inferAttrs u attrs
  rw [hl, e]; rfl

theorem inferVals_length (u : UC) : ∀ (attrs : List (Name × Name)) (vals : List (Option Val)), vals.length = attrs.length →
    (inferVals u attrs vals).length = attrs.length := by
  intro attrs
  induction attrs with
  | nil => intro vals h; cases vals with
    | nil => rfl
    | cons _ _ => simp at h
  | cons a as ih => intro vals h; cases vals with
    | nil => simp at h
    | cons v vs => simp only [inferVals, List.length_cons, ih vs (by simpa using h)]

theorem inferClass_idem (u : UC) (c : ClassM) (hcore : ∀ a ∈ c.attrs, (tyOfName u a.2).isSome = true)
    (hlen : ∀ r ∈ c.rows, r.length = c.attrs.length) : inferClass u (inferClass u c) = inferClass u c := by
  simp only [inferClass, inferAttrs_idem u c.attrs hcore, List.map_map, ClassM.mk.injEq, true_and]
  apply List.map_congr_left
  intro r hr
  simp only [Function.comp]
  exact inferVals_idem_zip u c.attrs (positionalNames c.attrs.length) r (positionalNames_length _) (hlen r hr) hcore

theorem inferAttrs_core (u : UC) (attrs : List (Name × Name)) (h : ∀ a ∈ attrs, (tyOfName u a.2).isSome = true) :
    ∀ a ∈ inferAttrs u attrs, (tyOfName u a.2).isSome = true := by
  intro a ha
  have : a.2 ∈ (inferAttrs u attrs).map (fun a => a.2) := List.mem_map.mpr ⟨a, ha, rfl⟩
  rw [inferAttrs_snd] at this
  obtain ⟨a0, ha0, he⟩ := List.mem_map.mp this
  rw [← he]
  have hs := h a0 ha0
  cases ht : tyOfName u a0.2 with
  | none => rw [ht] at hs; simp at hs
  | some t => simp only [(guessedName_core u a0.2 t ht).2, Option.isSome_some]

/-- the inferred metamodel is closed again -/
theorem closed_inferred (u : UC) (m : MM) (hm : m.Closed u) : (m.inferred u).Closed u := by
  have hmem : ∀ c' ∈ (m.inferred u).classes, ∃ c ∈ m.classes, c' = inferClass u c := by
    intro c' hc'
    simp only [MM.inferred, List.mem_map, List.mem_filter] at hc'
    obtain ⟨c, ⟨hc, _⟩, rfl⟩ := hc'; exact ⟨c, hc, rfl⟩
  have hplain : ∀ c' ∈ (m.inferred u).classes, ∀ a ∈ c'.attrs, isDunder a.1 = false := by
    intro c' hc' a ha
    obtain ⟨c, _, rfl⟩ := hmem c' hc'
    have : a.1 ∈ positionalNames c.attrs.length := by
      have h2 : (inferAttrs u c.attrs).map (fun a => a.1) = positionalNames c.attrs.length := by
        unfold inferAttrs
        exact List.map_fst_zip (by simp [positionalNames])
      rw [← h2]; exact List.mem_map.mpr ⟨a, ha, rfl⟩
    simp only [positionalNames, List.mem_map] at this
    obtain ⟨i, _, hi⟩ := this
    rw [← hi]; exact isDunder_positional i
  refine ⟨?_, ?_, ?_, ?_, ?_, ?_, ?_, ?_⟩
  · simp only [MM.inferred, List.map_map]
    have : (m.classes.filter fun c => !c.rows.isEmpty).map ((fun c => u.upper c.kind) ∘ inferClass u) =
        (m.classes.filter fun c => !c.rows.isEmpty).map (fun c => u.upper c.kind) := rfl
    rw [this]
    exact (List.filter_sublist.map _).nodup hm.distinct
  · intro c' hc' a ha
    obtain ⟨c, hc, rfl⟩ := hmem c' hc'
    exact inferAttrs_core u c.attrs (hm.types c hc) a ha
  · intro c' hc'
    obtain ⟨c, hc, rfl⟩ := hmem c' hc'
    exact ⟨List.nodup_nil, by intro e he; simp [inferClass] at he⟩
  · intro a ha; simp [MM.inferred] at ha
  · intro c' hc' r hr
    obtain ⟨c, hc, rfl⟩ := hmem c' hc'
    simp only [inferClass, List.mem_map] at hr
    obtain ⟨r0, hr0, rfl⟩ := hr
    show (inferVals u c.attrs r0).length = (inferAttrs u c.attrs).length
    rw [inferVals_length u c.attrs r0 (hm.rows c hc r0 hr0), inferAttrs_length]
  · intro c' hc'
    obtain ⟨c, _, rfl⟩ := hmem c' hc'
    show attrNamesOk u (inferAttrs u c.attrs) = true
    rw [attrNamesOk_iff]
    have : (inferAttrs u c.attrs).map (fun a => u.upper a.1) = (positionalNames c.attrs.length).map u.upper := by
      have h1 : (inferAttrs u c.attrs).map (fun a => u.upper a.1) = ((inferAttrs u c.attrs).map (fun a => a.1)).map u.upper := by
        rw [List.map_map]; rfl
      rw [h1]
      have h2 : (inferAttrs u c.attrs).map (fun a => a.1) = positionalNames c.attrs.length := by
        unfold inferAttrs
        exact List.map_fst_zip (by simp [positionalNames])
      rw [h2]
    rw [this]
    exact ⟨positionalNames_upper_nodup u c.attrs.length, hplain _ hc'⟩
  · exact hplain
  · intro a ha; simp [MM.inferred] at ha

/-- inferring again changes nothing -/
theorem inferred_idem (u : UC) (m : MM) (hm : m.Closed u) : (m.inferred u).inferred u = m.inferred u := by
  simp only [MM.inferred, MM.mk.injEq, and_true]
  have hf : ((m.classes.filter fun c => !c.rows.isEmpty).map (inferClass u)).filter (fun c => !c.rows.isEmpty) =
      (m.classes.filter fun c => !c.rows.isEmpty).map (inferClass u) := by
    rw [List.filter_eq_self]
    intro c' hc'
    obtain ⟨c, hc, rfl⟩ := List.mem_map.mp hc'
    have := (List.mem_filter.mp hc).2
    cases hr : c.rows with
    | nil => rw [hr] at this; simp at this
    | cons _ _ => simp [inferClass, hr]
  rw [hf, List.map_map]
  apply List.map_congr_left
  intro c hc
  have hc0 := (List.mem_filter.mp hc).1
  exact inferClass_idem u c (hm.types c hc0) (hm.rows c hc0)

/-- FIXED POINT of the INSERT-only route: the INSERT statements of the inferred metamodel build to the inferred
    metamodel again -/
theorem instances_only_fixed_point (u : UC) (m : MM) (hm : m.Closed u) (stmts2 : List Stmt)
    (hs : itemsStmts u (m.inferred u).serializeInstances = some stmts2) :
    ∃ bs2, build u stmts2 = .ok bs2 ∧ bs2.toMM u = m.inferred u := by
  obtain ⟨bs2, hb, he⟩ := reload_instances_only u (m.inferred u) (closed_inferred u m hm) stmts2 hs
  exact ⟨bs2, hb, by rw [he, inferred_idem u m hm]⟩

/-! ### text level -/

theorem cellText_infer (u : UC) (ty : Name) (v : Option Val) (txt : Text) (h : cellText u ty v = some txt) :
    cellText u (guessedName u ty) (inferCell u ty v) = some txt := by
  unfold cellText at h
  cases ht : tyOfName u ty with
  | none => simp [ht] at h
  | some t =>
    obtain ⟨_, e2⟩ := guessedName_core u ty t ht
    simp only [ht, printValue_eq] at h
    cases hx : resolveVal t v with
    | none => simp [hx] at h
    | some x =>
      simp only [hx, Option.bind_some] at h
      have h1 : inferCell u ty v = some (inferVal t x) := by simp only [inferCell, ht, hx, Option.map_some]
      rw [h1]
      simp only [cellText, e2, printValue_eq, resolveVal, Option.bind_some]
      exact fmt_inferVal t x txt h

theorem rowTexts_infer_zip (u : UC) : ∀ (attrs : List (Name × Name)) (names : List Name) (vals : List (Option Val))
    (texts : List Text), names.length = attrs.length → rowTexts u attrs vals = some texts →
    rowTexts u (names.zip (attrs.map fun a => guessedName u a.2)) (inferVals u attrs vals) = some texts := by
  intro attrs
  induction attrs with
  | nil => intro names vals texts hn h; cases names with
    | nil => simp only [rowTexts, Option.some.injEq] at h; subst h; rfl
    | cons _ _ => simp at hn
  | cons a attrs ih =>
    intro names vals texts hn h
    obtain ⟨nm, ty⟩ := a
    cases names with
    | nil => simp at hn
    | cons n ns =>
      cases vals with
      | nil => simp [rowTexts] at h
      | cons v vs =>
        simp only [rowTexts] at h
        cases hc : cellText u ty v with
        | none => simp [hc] at h
        | some txt =>
          cases hr : rowTexts u attrs vs with
          | none => simp [hc, hr] at h
          | some rest =>
            simp only [hc, hr, Option.some.injEq] at h; subst h
            simp only [List.map_cons, List.zip_cons_cons, inferVals, rowTexts, cellText_infer u ty v txt hc,
              ih ns vs rest (by simpa using hn) hr]

theorem identOk_positional (i : Nat) : IdentOk ('_' :: natText i) := by
  refine ⟨by simp, by intro c hc; simp at hc; subst hc; decide, ?_, by intro h; simp at h⟩
  intro x hx
  exact isAsciiWord_of_digit (natText_all_digit i x hx)

theorem noNewline_of_identOk (w : Text) (h : IdentOk w) : NoNewline w := by
  intro c hc
  cases w with
  | nil => simp at hc
  | cons x xs =>
    simp only [List.mem_cons] at hc
    rcases hc with rfl | hc
    · exact ne_of_isIdStart (h.start _ rfl) (by decide)
    · intro e; subst e
      have := h.tail _ hc
      simp [isAsciiWord, isAsciiAlpha, isAsciiUpper, isAsciiLower, isAsciiDigit] at this

/-- the INSERT statements of the inferred metamodel are well-formed items and print -/
theorem inferred_instances_wf (u : UC) (m : MM) (hw : m.WF u) (hm : m.Closed u) :
    ∀ it ∈ (m.inferred u).serializeInstances, it.WF u := by
  intro it hit
  simp only [MM.serializeInstances, MM.inferred, List.mem_flatMap, List.mem_map, List.mem_filter] at hit
  obtain ⟨c', ⟨c, ⟨hc, hne⟩, rfl⟩, hx⟩ := hit
  simp only [ClassM.instItems, inferClass, List.mem_map] at hx
  obtain ⟨r', ⟨r, hr, rfl⟩, rfl⟩ := hx
  have hk : IdentOk c.kind := (hw.rows c hc (.inst c.kind c.attrs r) (by
    simp only [ClassM.instItems, List.mem_map]; exact ⟨r, hr, rfl⟩)).1
  refine ⟨hk, ?_⟩
  intro a ha
  have hmem := List.of_mem_zip ha
  refine ⟨?_, ?_⟩
  · obtain ⟨i, _, hi⟩ := List.mem_map.mp hmem.1
    rw [← hi]; exact noNewline_of_identOk _ (identOk_positional i)
  · obtain ⟨a0, ha0, he⟩ := List.mem_map.mp hmem.2
    rw [← he]
    have hs := hm.types c hc a0 ha0
    cases ht : tyOfName u a0.2 with
    | none => rw [ht] at hs; simp at hs
    | some t => rw [(guessedName_core u a0.2 t ht).1]; exact noNewline_tyChars _

theorem inferred_instances_print (u : UC) (m : MM) (hm : m.Closed u)
    (hrow : ∀ c ∈ m.classes, ∀ row ∈ c.rows, (rowTexts u c.attrs row).isSome = true) :
    ∃ text, printItems u (m.inferred u).serializeInstances = some text := by
  apply printItems_some_of_all
  intro it hit
  simp only [MM.serializeInstances, MM.inferred, List.mem_flatMap, List.mem_map, List.mem_filter] at hit
  obtain ⟨c', ⟨c, ⟨hc, hne⟩, rfl⟩, hx⟩ := hit
  simp only [ClassM.instItems, inferClass, List.mem_map] at hx
  obtain ⟨r', ⟨r, hr, rfl⟩, rfl⟩ := hx
  rw [inst_print_isSome]
  have hsome := hrow c hc r hr
  cases hrt : rowTexts u c.attrs r with
  | none => rw [hrt] at hsome; simp at hsome
  | some texts =>
    have := rowTexts_infer_zip u c.attrs (positionalNames c.attrs.length) r texts (positionalNames_length _) hrt
    simp only [inferAttrs]
    rw [this]; rfl

/-- TEXT LEVEL, INSERT-only route, both rounds: the instance text of a closed metamodel is accepted and builds to
    `m.inferred`; the instance text written from `m.inferred` is accepted and builds to `m.inferred` again -/
theorem instances_only_text (u : UC) (m : MM) (hw : m.WF u) (hm : m.Closed u) (text1 : Text)
    (hp : printItems u m.serializeInstances = some text1) :
    (∃ stmts bs, classify u text1 = .accepted stmts ∧ build u stmts = .ok bs ∧ bs.toMM u = m.inferred u) ∧
    ∃ text2, printItems u (m.inferred u).serializeInstances = some text2 ∧
      ∃ stmts2 bs2, classify u text2 = .accepted stmts2 ∧ build u stmts2 = .ok bs2 ∧ bs2.toMM u = m.inferred u := by
  obtain ⟨stmts, hs, hc⟩ := route_roundtrip u m hw m.serializeInstances (by simp [MM.routes]) text1 hp
  obtain ⟨bs, hb, he⟩ := reload_instances_only u m hm stmts hs
  refine ⟨⟨stmts, bs, hc, hb, he⟩, ?_⟩
  have hrow : ∀ c ∈ m.classes, ∀ row ∈ c.rows, (rowTexts u c.attrs row).isSome = true :=
    rows_print_of_route u m _ text1 hp (by
      intro c hc' row hr
      simp only [MM.serializeInstances, List.mem_flatMap]
      exact ⟨c, hc', by simp only [ClassM.instItems, List.mem_map]; exact ⟨row, hr, rfl⟩⟩)
  obtain ⟨text2, h2⟩ := inferred_instances_print u m hm hrow
  obtain ⟨stmts2, hs2, hc2⟩ := classify_items u _ text2 (inferred_instances_wf u m hw hm) h2
  obtain ⟨bs2, hb2, he2⟩ := instances_only_fixed_point u m hm stmts2 hs2
  exact ⟨text2, h2, stmts2, bs2, hc2, hb2, he2⟩

end Pyx.Sql
