import Proofs.InterpStore
import Proofs.InterpAttr

/-!
  Concrete instances of the hypotheses of the refinement theorems (used by the non-vacuity examples of Props/C04.lean):
  a 1:M schema that is `SchemaOk`, injective class names, declarations that are `DeclOk`, histories in the domains.
-/
namespace Pyx.Interp

/-- store refinement, non-vacuity: a 1:M schema that is `SchemaOk`, class names that are injective, and a history in the
    domain with an accepted relate, a rejected relate, an unrelate and a delete -/
def schS : Pyx.Meta.Schema :=
  [{ rel := "R2", srcKind := 0, srcKeys := ["A_ID"], srcMany := true, srcCond := true, srcPhrase := "",
     tgtKind := 1, tgtKeys := ["ID"], tgtMany := false, tgtCond := true, tgtPhrase := "" }]
def histS : List Pyx.Meta.Op :=
  [.new 0 true, .new 1 true, .new 1 true, .relate 0 1 "R2" "", .relate 0 2 "R2" "", .unrelate 1 0 "R2" "", .delete 1]
def knameS (k : Nat) : String := String.ofList (List.replicate (k + 1) 'K')

theorem schS_ok : Pyx.Meta.SchemaOk schS ∧ Dom' [0, 1] schS Pyx.Meta.init histS := by
  refine ⟨?_, ?_⟩
  · intro i a h
    match i, h with
    | 0, h => simp [schS] at h; subst h; decide
    | i + 1, h => simp [schS] at h
  · simp only [histS, Dom', OpOk', and_true]
    decide

theorem knameS_inj : Function.Injective knameS := by
  intro a b h
  have h1 := congrArg String.toList h
  simp only [knameS, String.toList_ofList] at h1
  have := congrArg List.length h1
  simpa using this

/-- attribute refinement, non-vacuity: declarations consistent with the schema (`DeclOk`), and a history with attribute
    writes in the domain `DomA` -/
def declS (k : Nat) : List AttrDecl :=
  if k = 0 then [⟨"ID", .uniqueId, false⟩, ⟨"A_ID", .uniqueId, true⟩, ⟨"n", .integer, false⟩]
  else [⟨"ID", .uniqueId, false⟩, ⟨"n", .integer, false⟩]
def atS : Pyx.Meta.Attrs := { idName := fun _ => some "ID" }

theorem declS_ok : DeclOk declS atS schS 0 ∧ DeclOk declS atS schS 1 := by
  constructor
  · refine ⟨by decide, ?_, ?_, ?_, by decide⟩
    · intro a ha
      have ha' : a ∈ ([⟨"ID", .uniqueId, false⟩, ⟨"A_ID", .uniqueId, true⟩, ⟨"n", .integer, false⟩] : List AttrDecl) := ha
      simp only [List.mem_cons, List.not_mem_nil, or_false] at ha'
      rcases ha' with rfl | rfl | rfl <;> decide
    · intro n hn
      simp only [atS, Option.some.injEq] at hn
      subst hn
      exact ⟨⟨"ID", .uniqueId, false⟩, by simp [declS], rfl, rfl, rfl⟩
    · intro a ha hnr hu
      have ha' : a ∈ ([⟨"ID", .uniqueId, false⟩, ⟨"A_ID", .uniqueId, true⟩, ⟨"n", .integer, false⟩] : List AttrDecl) := ha
      simp only [List.mem_cons, List.not_mem_nil, or_false] at ha'
      rcases ha' with rfl | rfl | rfl
      · rfl
      · cases hnr
      · cases hu
  · refine ⟨by decide, ?_, ?_, ?_, by decide⟩
    · intro a ha
      have ha' : a ∈ ([⟨"ID", .uniqueId, false⟩, ⟨"n", .integer, false⟩] : List AttrDecl) := ha
      simp only [List.mem_cons, List.not_mem_nil, or_false] at ha'
      rcases ha' with rfl | rfl <;> decide
    · intro n hn
      simp only [atS, Option.some.injEq] at hn
      subst hn
      exact ⟨⟨"ID", .uniqueId, false⟩, by simp [declS], rfl, rfl, rfl⟩
    · intro a ha hnr hu
      have ha' : a ∈ ([⟨"ID", .uniqueId, false⟩, ⟨"n", .integer, false⟩] : List AttrDecl) := ha
      simp only [List.mem_cons, List.not_mem_nil, or_false] at ha'
      rcases ha' with rfl | rfl
      · rfl
      · cases hu

theorem declS_all : ∀ k ∈ [0, 1], DeclOk declS atS schS k := by
  intro k hk
  simp only [List.mem_cons, List.not_mem_nil, or_false] at hk
  rcases hk with rfl | rfl
  · exact declS_ok.1
  · exact declS_ok.2

end Pyx.Interp
