import Proofs.SqlRoutes
import Proofs.SqlFixedPoint
import Proofs.ExtractShape
import PyxModel.Extract.ToSql

/-!
  C14, last clause — the SQL written for an extracted component is accepted by the loader and parses back to
  exactly the statements of its definitions (connection of `Pyx.Extract.extract` with the SQL model `Pyx.Sql`).
-/

namespace Pyx.Extract
open Pyx.Sql

/-! ### what must be true of the names for the text to be loadable -/

/-- the lexical domain of the SQL dialect (C01): key letters, attribute names and (upper-cased) core type names
    are identifiers `[A-Za-z_][A-Za-z0-9_]*` that do not begin with `R<digit>` -/
structure NamesOk (u : UC) (d : ClassDiagram) : Prop where
  kls : ∀ c ∈ d.classes, IdentOk c.kl.toList
  attrs : ∀ c ∈ d.classes, ∀ a ∈ c.attrs, IdentOk a.name.toList
  types : ∀ t ∈ d.dts, ∀ n, t.kind = .core n → 1 ≤ n → n ≤ 5 → IdentOk (u.upper (upper t.name).toList)

theorem asciiWord_of_digit (c : Char) (h : isAsciiDigit c = true) : isAsciiWord c = true := by
  unfold isAsciiWord; simp [h]

theorem identOk_indexName (n : Nat) : IdentOk (indexName n) := by
  refine ⟨by simp [indexName], ?_, ?_, ?_⟩
  · intro c hc
    simp only [indexName, List.head?_cons, Option.some.injEq] at hc
    subst hc; decide
  · intro x hx
    simp only [indexName, List.tail_cons] at hx
    exact asciiWord_of_digit x (natText_all_digit n x hx)
  · intro h
    simp only [indexName, List.head?_cons, Option.some.injEq] at h
    exact absurd h (by decide)

theorem relOk_relName (n : Nat) : RelOk (relName n) := by
  obtain ⟨d, ds, h⟩ := natText_cons n
  refine ⟨d, ds, by simp [relName, h], ?_⟩
  rw [← h]; exact natText_all_digit n

theorem identOk_INTEGER (u : UC) : IdentOk (u.upper "INTEGER".toList) := by
  have : u.upper "INTEGER".toList = "INTEGER".toList := by
    rw [upper_ascii u _ (by unfold AsciiText; decide)]; decide
  rw [this]; exact ⟨by decide, by decide, by decide, by decide⟩

/-- a mapped type is INTEGER or the upper-cased name of a core type 1..5 -/
theorem dtTypeFuel_origin (dts : List DataType) : ∀ (f id : Nat) (ty : String), dtTypeFuel dts f id = some ty →
    ty = "INTEGER" ∨ ∃ t ∈ dts, ∃ n, t.kind = .core n ∧ 1 ≤ n ∧ n ≤ 5 ∧ ty = upper t.name := by
  intro f
  induction f with
  | zero => intro id ty h; simp [dtTypeFuel] at h
  | succ f ih =>
    intro id ty h
    simp only [dtTypeFuel] at h
    cases hf : findDt dts id with
    | none => simp [hf] at h
    | some t =>
      rw [hf] at h
      simp only at h
      have htm : t ∈ dts := List.mem_of_find?_eq_some hf
      cases hk : t.kind with
      | core n =>
        rw [hk] at h
        simp only at h
        split at h
        · rename_i hn
          simp only [Option.some.injEq] at h
          exact Or.inr ⟨t, htm, n, hk, hn.1, hn.2.1, h.symm⟩
        · cases h
      | enum es => rw [hk] at h; simp only [Option.some.injEq] at h; exact Or.inl h.symm
      | user b => rw [hk] at h; exact ih b ty h
      | other => rw [hk] at h; cases h

theorem typeOk_of_attrTy {u : UC} {d : ClassDiagram} (names : NamesOk u d) {a : Attr} {ty : String}
    (h : attrTy d a = some ty) : IdentOk (u.upper ty.toList) := by
  unfold attrTy at h
  cases hd : attrDt d a with
  | none => simp [hd] at h
  | some dt =>
    rw [hd] at h
    simp only [Option.bind_some] at h
    rcases dtTypeFuel_origin d.dts _ dt ty h with rfl | ⟨t, ht, n, hk, h1, h5, rfl⟩
    · exact identOk_INTEGER u
    · exact names.types t ht n hk h1 h5

/-! ### the items of an extracted schema are well-formed -/

theorem classItem_wf {u : UC} {d : ClassDiagram} (names : NamesOk u d) (drv : Bool) {c : Class} (hc : c ∈ d.classes) :
    ((classOf d drv c).toM).item.WF u := by
  refine ⟨names.kls c hc, ?_⟩
  intro p hp
  simp only [SClass.toM, List.mem_map] at hp
  obtain ⟨s, hs, rfl⟩ := hp
  obtain ⟨a, ha, hn, _, hty⟩ := classOf_attr_mem.mp hs
  exact ⟨by rw [← hn]; exact names.attrs c hc a ha, typeOk_of_attrTy names hty⟩

theorem indexItems_wf {u : UC} {d : ClassDiagram} (names : NamesOk u d) (drv : Bool) {c : Class} (hc : c ∈ d.classes) :
    ∀ it ∈ ((classOf d drv c).toM).indexItems, it.WF u := by
  intro it hit
  simp only [ClassM.indexItems, SClass.toM, List.mem_map] at hit
  obtain ⟨ix, ⟨si, hsi, rfl⟩, rfl⟩ := hit
  refine ⟨identOk_indexName _, names.kls c hc, ?_⟩
  intro nm hnm
  obtain ⟨i, _, _, hnames, _, _⟩ := classOf_ident_mem.mp hsi
  simp only [List.mem_map] at hnm
  obtain ⟨s, hs, rfl⟩ := hnm
  rw [hnames] at hs
  obtain ⟨a, ha, rfl⟩ := List.mem_map.mp hs
  obtain ⟨j, _, hj⟩ := List.mem_filterMap.mp ha
  exact names.attrs c hc a (findAttr_mem hj)

/-- the end was built from a class of the diagram and names attributes of it -/
def EndFrom (d : ClassDiagram) (e : SEnd) : Prop :=
  ∃ k ∈ d.classes, e.kind = k.kl ∧ ∀ key ∈ e.keys, ∃ a ∈ k.attrs, key = a.name

theorem endFrom_mk {d : ClassDiagram} {k : Class} (hk : k ∈ d.classes) (ids : List Nat) (m cd : Bool) (ph : String) :
    EndFrom d { kind := k.kl, keys := keyNames k ids, many := m, cond := cd, phrase := ph } := by
  refine ⟨k, hk, rfl, ?_⟩
  intro key hkey
  simp only [keyNames] at hkey
  obtain ⟨i, _, hi⟩ := List.mem_filterMap.mp hkey
  cases hf : k.findAttr i with
  | none => simp [hf] at hi
  | some a =>
    simp only [hf, Option.map_some, Option.some.injEq] at hi
    exact ⟨a, findAttr_mem hf, hi.symm⟩

theorem groupOf_ends {d : ClassDiagram} {r : Rel} {g : SGroup} (h : groupOf d r = some g) :
    ∀ a ∈ g.items, EndFrom d a.src ∧ EndFrom d a.tgt := by
  unfold groupOf at h
  cases hk : r.kind with
  | simple form part refs =>
    simp only [hk] at h
    cases hf : findClass d form.cls <;> cases hp : findClass d part.cls <;> simp [hf, hp] at h
    subst h
    intro a ha
    simp only [List.mem_singleton] at ha
    subst ha
    exact ⟨endFrom_mk (findClass_mem hf) _ _ _ _, endFrom_mk (findClass_mem hp) _ _ _ _⟩
  | linked one oth link r1 r2 =>
    simp only [hk] at h
    cases hl : findClass d link <;> cases ho : findClass d one.cls <;> cases ht : findClass d oth.cls <;>
      simp [hl, ho, ht] at h
    subst h
    intro a ha
    simp only [List.mem_cons, List.not_mem_nil, or_false] at ha
    rcases ha with rfl | rfl
    · exact ⟨endFrom_mk (findClass_mem hl) _ _ _ _, endFrom_mk (findClass_mem ho) _ _ _ _⟩
    · exact ⟨endFrom_mk (findClass_mem hl) _ _ _ _, endFrom_mk (findClass_mem ht) _ _ _ _⟩
  | subsup sup subs =>
    simp only [hk] at h
    cases hs : findClass d sup <;> simp [hs] at h
    subst h
    intro a ha
    simp only at ha
    obtain ⟨s, _, hsa⟩ := List.mem_filterMap.mp ha
    cases hb : findClass d s.1 with
    | none => simp [hb] at hsa
    | some sc =>
      simp only [hb, Option.map_some, Option.some.injEq] at hsa
      subst hsa
      exact ⟨endFrom_mk (findClass_mem hb) _ _ _ _, endFrom_mk (findClass_mem hs) _ _ _ _⟩
  | derived =>
    simp only [hk] at h
    simp at h
    subst h
    intro a ha; cases ha

theorem endOk_of_from {u : UC} {d : ClassDiagram} (names : NamesOk u d) {e : SEnd} (h : EndFrom d e) : EndOk e.toM := by
  obtain ⟨k, hk, hkind, hkeys⟩ := h
  refine ⟨by simp only [SEnd.toM, hkind]; exact names.kls k hk, ?_⟩
  intro key hkey
  simp only [SEnd.toM, List.mem_map] at hkey
  obtain ⟨s, hs, rfl⟩ := hkey
  obtain ⟨a, ha, rfl⟩ := hkeys s hs
  exact names.attrs k hk a ha

theorem toMM_wf {u : UC} {d : ClassDiagram} (names : NamesOk u d) (comp : Option Nat) (drv : Bool) :
    ((extract d comp drv).toMM).WF u := by
  have hcls : ∀ cm ∈ ((extract d comp drv).toMM).classes, ∃ c ∈ d.classes, cm = (classOf d drv c).toM := by
    intro cm hcm
    simp only [Schema.toMM, extract, List.mem_map] at hcm
    obtain ⟨s, ⟨c, hc, rfl⟩, rfl⟩ := hcm
    exact ⟨c, (List.mem_filter.mp hc).1, rfl⟩
  refine ⟨?_, ?_, ?_, ?_⟩
  · intro cm hcm
    obtain ⟨c, hc, rfl⟩ := hcls cm hcm
    exact classItem_wf names drv hc
  · intro cm hcm
    obtain ⟨c, hc, rfl⟩ := hcls cm hcm
    exact indexItems_wf names drv hc
  · intro cm hcm it hit
    obtain ⟨c, _, rfl⟩ := hcls cm hcm
    simp [ClassM.instItems, SClass.toM] at hit
  · intro am ham
    simp only [Schema.toMM, extract, List.mem_flatMap] at ham
    obtain ⟨g, hg, hag⟩ := ham
    obtain ⟨r, _, hr⟩ := List.mem_filterMap.mp hg
    simp only [SGroup.toM, List.mem_map] at hag
    obtain ⟨a, ha, rfl⟩ := hag
    obtain ⟨h1, h2⟩ := groupOf_ends hr a ha
    exact ⟨relOk_relName _, endOk_of_from names h1, endOk_of_from names h2⟩

/-! ### every route of a metamodel without rows can be printed -/

theorem route_items_all (u : UC) (m : MM) (P : Item → Prop)
    (hcl : ∀ c ∈ m.classes, P c.item) (hix : ∀ c ∈ m.classes, ∀ it ∈ c.indexItems, P it)
    (hrw : ∀ c ∈ m.classes, ∀ it ∈ c.instItems, P it) (hasc : ∀ a ∈ m.assocs, P a.item) :
    ∀ r ∈ m.routes u, ∀ it ∈ r, P it := by
  have hc : ∀ it ∈ (m.sortedClasses u).map ClassM.item, P it := by
    intro it hit
    simp only [List.mem_map, MM.sortedClasses, mem_sortBy] at hit
    obtain ⟨c, hcm, rfl⟩ := hit; exact hcl c hcm
  have ha1 : ∀ it ∈ m.assocsByIdKind.map AssocM.item, P it := by
    intro it hit
    simp only [List.mem_map, MM.assocsByIdKind, mem_sortBy] at hit
    obtain ⟨a, ham, rfl⟩ := hit; exact hasc a ham
  have ha2 : ∀ it ∈ m.assocsById.map AssocM.item, P it := by
    intro it hit
    simp only [List.mem_map, MM.assocsById, mem_sortBy] at hit
    obtain ⟨a, ham, rfl⟩ := hit; exact hasc a ham
  have hi : ∀ it ∈ m.classes.flatMap ClassM.instItems, P it := by
    intro it hit
    simp only [List.mem_flatMap] at hit
    obtain ⟨c, hcm, hin⟩ := hit; exact hrw c hcm it hin
  have hx1 : ∀ it ∈ (m.sortedClasses u).flatMap ClassM.indexItems, P it := by
    intro it hit
    simp only [List.mem_flatMap, MM.sortedClasses, mem_sortBy] at hit
    obtain ⟨c, hcm, hin⟩ := hit; exact hix c hcm it hin
  have hx2 : ∀ it ∈ m.classes.flatMap ClassM.indexItems, P it := by
    intro it hit
    simp only [List.mem_flatMap] at hit
    obtain ⟨c, hcm, hin⟩ := hit; exact hix c hcm it hin
  have hcx : ∀ it ∈ (m.sortedClasses u).flatMap (fun c => c.item :: c.indexItems), P it := by
    intro it hit
    simp only [List.mem_flatMap, MM.sortedClasses, mem_sortBy, List.mem_cons] at hit
    obtain ⟨c, hcm, (rfl | hin)⟩ := hit
    · exact hcl c hcm
    · exact hix c hcm it hin
  intro r hr it hit
  simp only [MM.routes, List.mem_cons, List.mem_nil_iff, or_false] at hr
  rcases hr with rfl | rfl | rfl | rfl | rfl | rfl | rfl | rfl
  · simp only [MM.serializeDatabase, MM.serializeSchema, MM.serializeClasses, MM.serializeAssociations, MM.serializeInstances,
      MM.serializeUniqueIdentifiers, List.mem_append] at hit
    rcases hit with ((h | h) | h) | h
    · exact hc it h
    · exact ha1 it h
    · exact hi it h
    · exact hx1 it h
  · simp only [MM.serializeSchema, MM.serializeClasses, MM.serializeAssociations, List.mem_append] at hit
    rcases hit with h | h
    · exact hc it h
    · exact ha1 it h
  · exact hi it hit
  · exact hx1 it hit
  · simp only [MM.persistDatabase, List.mem_append] at hit
    rcases hit with (h | h) | h
    · exact hcx it h
    · exact ha2 it h
    · exact hi it h
  · simp only [MM.persistSchema, List.mem_append] at hit
    rcases hit with h | h
    · exact hc it h
    · exact ha2 it h
  · exact hi it hit
  · exact hx2 it hit

/-- not an INSERT statement -/
def isDefItem : Item → Bool
  | .inst _ _ _ => false
  | _ => true

theorem printItems_defs (u : UC) : ∀ items : List Item, (∀ it ∈ items, isDefItem it = true) →
    ∃ text, printItems u items = some text := by
  intro items
  induction items with
  | nil => intro _; exact ⟨[], rfl⟩
  | cons it rest ih =>
    intro h
    obtain ⟨t, ht⟩ := ih (fun x hx => h x (by simp [hx]))
    have hd := h it (by simp)
    cases it with
    | inst k a v => simp [isDefItem] at hd
    | cls k a => simp only [printItems, Item.print, ht]; exact ⟨_, rfl⟩
    | assoc r s t' => simp only [printItems, Item.print, ht]; exact ⟨_, rfl⟩
    | index n k a => simp only [printItems, Item.print, ht]; exact ⟨_, rfl⟩

theorem toMM_routes_defs (u : UC) (s : Schema) : ∀ r ∈ (s.toMM).routes u, ∀ it ∈ r, isDefItem it = true := by
  apply route_items_all u s.toMM (fun it => isDefItem it = true)
  · intro c _; rfl
  · intro c _ it hit
    simp only [ClassM.indexItems, List.mem_map] at hit
    obtain ⟨ix, _, rfl⟩ := hit; rfl
  · intro c hc it hit
    simp only [Schema.toMM, List.mem_map] at hc
    obtain ⟨sc, _, rfl⟩ := hc
    simp [ClassM.instItems, SClass.toM] at hit
  · intro a _; rfl

/-! ### reading the definitions back off the statements -/

/-- what `populate_classes` / `populate_unique_identifiers` / `populate_associations` pass on to `define_class`,
    `define_unique_identifier` and `define_association` for one statement (`'M' in cardinality`,
    `'C' in cardinality`), as an item again -/
def stmtDef : Stmt → Option Item
  | .createTable kind attrs => some (.cls kind attrs)
  | .createRop rel sk sc skeys sp tk tc tkeys tp =>
    some (.assoc rel ⟨sc.contains 'M', sc.contains 'C', sk, skeys, sp⟩ ⟨tc.contains 'M', tc.contains 'C', tk, tkeys, tp⟩)
  | .createIndex kind name attrs => some (.index name kind attrs)
  | .insert _ _ _ => none

theorem cardText_decode (many cond : Bool) :
    (cardText many cond).contains 'M' = many ∧ (cardText many cond).contains 'C' = cond := by
  cases many <;> cases cond <;> decide

/-- a definition item is recovered from its statement, with the type names upper-cased (`canonItem`) -/
theorem stmtDef_stmt (u : UC) (it : Item) (h : isDefItem it = true) :
    (it.stmt u).bind stmtDef = some (canonItem u it) := by
  cases it with
  | inst k a v => simp [isDefItem] at h
  | cls k a => rfl
  | index n k a => rfl
  | assoc r s t =>
    cases s; cases t
    simp only [Item.stmt, Option.bind_some, stmtDef, canonItem, (cardText_decode _ _).1, (cardText_decode _ _).2]

theorem itemsStmts_defs (u : UC) : ∀ (items : List Item) (stmts : List Stmt), (∀ it ∈ items, isDefItem it = true) →
    itemsStmts u items = some stmts → stmts.filterMap stmtDef = items.map (canonItem u) := by
  intro items
  induction items with
  | nil => intro stmts _ h; simp only [itemsStmts, Option.some.injEq] at h; subst h; rfl
  | cons it rest ih =>
    intro stmts hd h
    simp only [itemsStmts] at h
    cases hs : it.stmt u with
    | none => simp [hs] at h
    | some st =>
      cases hr : itemsStmts u rest with
      | none => simp [hs, hr] at h
      | some sr =>
        simp only [hs, hr, Option.some.injEq] at h
        subst h
        have h1 := stmtDef_stmt u it (hd it (by simp))
        rw [hs] at h1
        simp only [Option.bind_some] at h1
        simp only [List.filterMap_cons, h1, List.map_cons, List.cons.injEq, true_and]
        exact ih sr (fun x hx => hd x (by simp [hx])) hr

/-- THE RELOAD THEOREM at statement level: every writer route of an extracted component prints, the loader accepts
    the text, the statements are those of the route's items, and the definitions they carry are the route's items
    (type names upper-cased) -/
theorem reload_routes {u : UC} {d : ClassDiagram} (names : NamesOk u d) (comp : Option Nat) (drv : Bool)
    (r : List Item) (hr : r ∈ ((extract d comp drv).toMM).routes u) :
    ∃ text stmts, printItems u r = some text ∧ itemsStmts u r = some stmts ∧ classify u text = .accepted stmts ∧
      stmts.filterMap stmtDef = r.map (canonItem u) := by
  have hdefs := toMM_routes_defs u (extract d comp drv) r hr
  obtain ⟨text, ht⟩ := printItems_defs u r hdefs
  obtain ⟨stmts, hs, hc⟩ := Pyx.Sql.route_roundtrip u _ (toMM_wf names comp drv) r hr text ht
  exact ⟨text, stmts, ht, hs, hc, itemsStmts_defs u r stmts hdefs hs⟩

end Pyx.Extract
