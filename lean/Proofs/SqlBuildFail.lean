import Proofs.SqlBuildTotal
import Proofs.SqlLoader

set_option linter.unusedSimpArgs false

/-! completeness direction of the build outcomes: each documented cause makes the build fail with its exception -/
namespace Pyx.Sql

/-! ### phase 1: a duplicate class name, or a class with two attribute names equal after upper-casing -/

/-- what `define_class` checks over the CREATE TABLE statements: class names distinct after upper-casing, and within
    each class the attribute names distinct after upper-casing -/
def TablesOk (u : UC) (pre : List ClassB) (cs : List ClassB) : Prop :=
  KindsDistinct u (pre ++ cs) ∧ ∀ c ∈ cs, attrNamesOk u c.attrs = true

theorem popClasses_dup (u : UC) : ∀ (stmts : List Stmt) (s : BState), KindsDistinct u s.classes →
    ¬ TablesOk u s.classes (newTables stmts) → popClasses u stmts s = .error .metaErr := by
  intro stmts
  induction stmts with
  | nil =>
    intro s hd hnd
    exact absurd ⟨by simpa [newTables] using hd, by simp [newTables]⟩ hnd
  | cons st rest ih =>
    intro s hd hnd
    cases st with
    | createTable kind attrs =>
      simp only [popClasses, defineClass]
      cases hf : s.find? u kind with
      | some c => rfl
      | none =>
        simp only
        by_cases hn : attrNamesOk u attrs = true
        · simp only [hn, if_true]
          have hnone : ∀ c ∈ s.classes, u.upper c.kind ≠ u.upper kind := by
            intro c hc
            simp only [BState.find?, List.find?_eq_none] at hf
            have := hf c hc
            simpa using this
          apply ih
          · unfold KindsDistinct at hd ⊢
            simp only [List.map_append, List.map_cons, List.map_nil]
            rw [List.nodup_append]
            refine ⟨hd, by simp, ?_⟩
            intro a ha b hb
            simp only [List.mem_singleton] at hb; subst hb
            obtain ⟨c, hc, rfl⟩ := List.mem_map.mp ha
            exact hnone c hc
          · intro ⟨h1, h2⟩
            apply hnd
            refine ⟨by simpa [newTables, List.append_assoc] using h1, ?_⟩
            intro c hc
            simp only [newTables, List.mem_cons] at hc
            rcases hc with rfl | hc
            · exact hn
            · exact h2 c hc
        · simp only [hn, Bool.false_eq_true, if_false]
    | createRop _ _ _ _ _ _ _ _ _ => simpa [popClasses, newTables] using ih s hd (by simpa [newTables] using hnd)
    | createIndex _ _ _ => simpa [popClasses, newTables] using ih s hd (by simpa [newTables] using hnd)
    | insert _ _ _ => simpa [popClasses, newTables] using ih s hd (by simpa [newTables] using hnd)

/-- phase 1 succeeds exactly when the declared class names are distinct after upper-casing and no class declares two
    attribute names that coincide after upper-casing -/
theorem popClasses_ok_iff (u : UC) (stmts : List Stmt) :
    (∃ s, popClasses u stmts BState.empty = .ok s) ↔
      (KindsDistinct u (newTables stmts) ∧ ∀ c ∈ newTables stmts, attrNamesOk u c.attrs = true) := by
  constructor
  · intro ⟨s, hs⟩
    by_cases hd : TablesOk u [] (newTables stmts)
    · exact ⟨by simpa using hd.1, hd.2⟩
    · have := popClasses_dup u stmts BState.empty (by simp [KindsDistinct, BState.empty]) (by simpa [BState.empty] using hd)
      rw [this] at hs; cases hs
  · intro ⟨hd, hn⟩
    exact ⟨_, popClasses_ok u stmts BState.empty (by simpa [BState.empty] using hd) hn⟩

/-! ### phase 2: an identifier for an undeclared class -/

theorem popIdents_unknown (u : UC) : ∀ (stmts : List Stmt) (s : BState),
    (∃ kind name attrs, Stmt.createIndex kind name attrs ∈ stmts ∧ attrs ≠ [] ∧ ∀ c ∈ s.classes, sameKind u c.kind kind = false) →
    popIdents u stmts s = .error .metaErr := by
  intro stmts
  induction stmts with
  | nil => intro s ⟨_, _, _, h, _⟩; simp at h
  | cons st rest ih =>
    intro s ⟨kind, name, attrs, hmem, hne, hno⟩
    have keep : ∀ (s' : BState), (∀ c ∈ s'.classes, ∃ c0 ∈ s.classes, c.kind = c0.kind) →
        Stmt.createIndex kind name attrs ∈ rest → popIdents u rest s' = .error .metaErr := by
      intro s' hs' hm
      exact ih s' ⟨kind, name, attrs, hm, hne, fun c hc => by
        obtain ⟨c0, hc0, hk⟩ := hs' c hc; rw [hk]; exact hno c0 hc0⟩
    simp only [List.mem_cons] at hmem
    cases st with
    | createIndex k n a =>
      simp only [popIdents]
      by_cases he : a.isEmpty
      · simp only [he, if_true]
        rcases hmem with h | h
        · simp only [Stmt.createIndex.injEq] at h; obtain ⟨_, _, rfl⟩ := h
          exact absurd (by simpa using he) hne
        · exact keep s (fun c hc => ⟨c, hc, rfl⟩) h
      · simp only [he, Bool.false_eq_true, if_false]
        cases hf : s.find? u k with
        | none => rfl
        | some c0 =>
          simp only
          rcases hmem with h | h
          · simp only [Stmt.createIndex.injEq] at h; obtain ⟨rfl, _, _⟩ := h
            have := find?_none_of_forall u s kind hno
            rw [this] at hf; cases hf
          · apply keep _ _ h
            intro c hc
            rw [update_eq_map] at hc
            obtain ⟨c1, hc1, rfl⟩ := List.mem_map.mp hc
            exact ⟨c1, hc1, by split <;> rfl⟩
    | createTable _ _ =>
      simp only [popIdents]; rcases hmem with h | h
      · cases h
      · exact keep s (fun c hc => ⟨c, hc, rfl⟩) h
    | createRop _ _ _ _ _ _ _ _ _ =>
      simp only [popIdents]; rcases hmem with h | h
      · cases h
      · exact keep s (fun c hc => ⟨c, hc, rfl⟩) h
    | insert _ _ _ =>
      simp only [popIdents]; rcases hmem with h | h
      · cases h
      · exact keep s (fun c hc => ⟨c, hc, rfl⟩) h

/-! ### phase 3: an association that `define_association` rejects -/

/-- why `define_association` rejects a CREATE ROP statement: unknown source class, unknown target class, a source key
    of the form `__x__`, key lists of different length, or a target key that is not an attribute of the target class -/
def RopBad (u : UC) (classes : List ClassB) (sk : Name) (skeys : List Name) (tk : Name) (tkeys : List Name) : Prop :=
  (∀ c ∈ classes, sameKind u c.kind sk = false) ∨ (∀ c ∈ classes, sameKind u c.kind tk = false) ∨
  skeys.any isDunder = true ∨ skeys.length ≠ tkeys.length ∨
  (∀ c ∈ classes, sameKind u c.kind tk = true → ∃ k ∈ tkeys, (c.attrs.map fun a => u.upper a.1).contains (u.upper k) = false)

theorem RopBad.map (u : UC) (g : ClassB → ClassB) (hk : ∀ c, (g c).kind = c.kind) (ha : ∀ c, (g c).attrs = c.attrs)
    {classes : List ClassB} {sk tk : Name} {skeys tkeys : List Name} (h : RopBad u classes sk skeys tk tkeys) :
    RopBad u (classes.map g) sk skeys tk tkeys := by
  rcases h with h | h | h | h | h
  · left; intro c hc; obtain ⟨c0, hc0, rfl⟩ := List.mem_map.mp hc; rw [hk]; exact h c0 hc0
  · right; left; intro c hc; obtain ⟨c0, hc0, rfl⟩ := List.mem_map.mp hc; rw [hk]; exact h c0 hc0
  · right; right; left; exact h
  · right; right; right; left; exact h
  · right; right; right; right
    intro c hc hs
    obtain ⟨c0, hc0, rfl⟩ := List.mem_map.mp hc
    rw [hk] at hs; rw [ha]; exact h c0 hc0 hs

theorem popAssocs_step_bad (u : UC) (s : BState) (rel sk sc : Name) (skeys : List Name) (sp tk tc : Name) (tkeys : List Name)
    (tp : Name) (rest : List Stmt) (h : RopBad u s.classes sk skeys tk tkeys) :
    popAssocs u (.createRop rel sk sc skeys sp tk tc tkeys tp :: rest) s = .error .metaErr := by
  simp only [popAssocs]
  cases h1 : s.find? u sk with
  | none => rfl
  | some c1 =>
    cases h2 : s.find? u tk with
    | none => rfl
    | some c2 =>
      simp only
      have hm2 : c2 ∈ s.classes := List.mem_of_find?_eq_some h2
      have hk2 : sameKind u c2.kind tk = true := by have := List.find?_some h2; exact this
      have hm1 : c1 ∈ s.classes := List.mem_of_find?_eq_some h1
      have hk1 : sameKind u c1.kind sk = true := by have := List.find?_some h1; exact this
      by_cases hdu : skeys.any isDunder = true
      · simp only [hdu, if_true]
      simp only [hdu, Bool.false_eq_true, if_false]
      rcases h with h | h | h | h | h
      · have := h c1 hm1; rw [hk1] at this; cases this
      · have := h c2 hm2; rw [hk2] at this; cases this
      · exact absurd h hdu
      · have : (skeys.length != tkeys.length) = true := by simpa using h
        simp only [this, if_true]
      · by_cases hl : (skeys.length != tkeys.length) = true
        · simp only [hl, if_true]
        · simp only [hl, Bool.false_eq_true, if_false]
          obtain ⟨k, hk, hc⟩ := h c2 hm2 hk2
          have : tkeys.all (fun k => (c2.attrs.map (fun a => u.upper a.1)).contains (u.upper k)) = false := by
            rw [List.all_eq_false]; exact ⟨k, hk, by rw [hc]; simp⟩
          simp only [this, Bool.false_eq_true, if_false]

theorem popAssocs_bad (u : UC) : ∀ (stmts : List Stmt) (s : BState),
    (∃ rel sk sc skeys sp tk tc tkeys tp, Stmt.createRop rel sk sc skeys sp tk tc tkeys tp ∈ stmts ∧
      RopBad u s.classes sk skeys tk tkeys) →
    popAssocs u stmts s = .error .metaErr := by
  intro stmts
  induction stmts with
  | nil => intro s ⟨_, _, _, _, _, _, _, _, _, h, _⟩; simp at h
  | cons st rest ih =>
    intro s ⟨rel, sk, sc, skeys, sp, tk, tc, tkeys, tp, hmem, hbad⟩
    simp only [List.mem_cons] at hmem
    cases st with
    | createRop r2 sk2 sc2 skeys2 sp2 tk2 tc2 tkeys2 tp2 =>
      rcases hmem with h | h
      · simp only [Stmt.createRop.injEq] at h
        obtain ⟨rfl, rfl, rfl, rfl, rfl, rfl, rfl, rfl, rfl⟩ := h
        exact popAssocs_step_bad u s _ _ _ _ _ _ _ _ _ rest hbad
      · -- either this statement is rejected itself, or the later one is reached with the same classes up to `referential`
        simp only [popAssocs]
        cases h1 : s.find? u sk2 with
        | none => rfl
        | some c1 =>
          cases h2 : s.find? u tk2 with
          | none => rfl
          | some c2 =>
            simp only
            split
            · rfl
            split
            · rfl
            · split
              · apply ih
                refine ⟨rel, sk, sc, skeys, sp, tk, tc, tkeys, tp, h, ?_⟩
                have := RopBad.map u (fun c => if sameKind u c.kind sk2 then { c with referential := c.referential ++ skeys2 } else c)
                  (fun c => by split <;> rfl) (fun c => by split <;> rfl) hbad
                simpa [update_eq_map] using this
              · rfl
    | createTable _ _ =>
      simp only [popAssocs]; rcases hmem with h | h
      · cases h
      · exact ih s ⟨rel, sk, sc, skeys, sp, tk, tc, tkeys, tp, h, hbad⟩
    | createIndex _ _ _ =>
      simp only [popAssocs]; rcases hmem with h | h
      · cases h
      · exact ih s ⟨rel, sk, sc, skeys, sp, tk, tc, tkeys, tp, h, hbad⟩
    | insert _ _ _ =>
      simp only [popAssocs]; rcases hmem with h | h
      · cases h
      · exact ih s ⟨rel, sk, sc, skeys, sp, tk, tc, tkeys, tp, h, hbad⟩

/-! ### phase 4: one INSERT -/

/-- a named INSERT with different numbers of names and values raises the parsing exception, whatever the state -/
theorem popInstance_arity (u : UC) (s : BState) (kind : Name) (values : List Text) (n : Name) (ns : List Name)
    (h : (n :: ns).length ≠ values.length) : popInstance u s kind values (some (n :: ns)) = .error .parseErr := by
  have h' : ((some (n :: ns)).getD []).length ≠ values.length := h
  simp only [popInstance, isNamed, Bool.true_and, bne_iff_ne, ne_eq, h', not_false_eq_true, if_true]

/-- a positional INSERT into a declared class with an attribute of unknown type raises the metamodel exception -/
theorem popInstance_unknown_type (u : UC) (s : BState) (kind : Name) (values : List Text) (c : ClassB)
    (hf : s.find? u kind = some c) (hrow : newRowOk u c = false) : popInstance u s kind values none = .error .metaErr := by
  simp [popInstance, isNamed, inferOk, guessOk, ensureClass, hf, hrow]

/-- a named INSERT (as many names as values) into an undeclared class, two of whose names coincide after upper-casing,
    raises the metamodel exception: `define_class` rejects the inferred class -/
theorem popInstance_name_clash (u : UC) (s : BState) (kind : Name) (values : List Text) (n : Name) (ns : List Name)
    (hl : (n :: ns).length = values.length) (hf : s.find? u kind = none)
    (hc : attrNamesOk u (inferredAttrs u (n :: ns) values) = false) :
    popInstance u s kind values (some (n :: ns)) = .error .metaErr := by
  have h' : ns.length + 1 = values.length := by simpa using hl
  simp [popInstance, isNamed, h', inferOk, hf, inferredFor, hc]

/-- a positional INSERT into a declared class with known types and a value that cannot be read raises the parsing exception -/
theorem popInstance_bad_value (u : UC) (s : BState) (kind : Name) (values : List Text) (c : ClassB)
    (hf : s.find? u kind = some c) (hrow : newRowOk u c = true) (e : BuildErr)
    (hcells : positionalCells u c c.attrs values = .error e) : popInstance u s kind values none = .error e := by
  simp [popInstance, isNamed, inferOk, guessOk, ensureClass, hf, hrow, cellsOf, hcells]

theorem positionalCells_bad (u : UC) (c : ClassB) : ∀ (attrs : List (Name × Name)) (values : List Text),
    ¬ CellsOk u attrs values → positionalCells u c attrs values = .error .parseErr := by
  intro attrs
  induction attrs with
  | nil => intro values h; exact absurd trivial h
  | cons a attrs ih =>
    intro values h
    obtain ⟨nm, ty⟩ := a
    cases values with
    | nil => exact absurd trivial h
    | cons v vs =>
      simp only [positionalCells]
      cases hd : deserialize u ty v with
      | none => rfl
      | some x =>
        have : ¬ CellsOk u attrs vs := fun hc => h ⟨by simp [hd], hc⟩
        simp only [ih vs this]

/-- the first failing INSERT decides the outcome of phase 4 -/
theorem popInstances_first_failure (u : UC) : ∀ (pre : List Stmt) (s s' : BState) (kind : Name) (values : List Text)
    (names : Option (List Name)) (post : List Stmt) (e : BuildErr),
    popInstances u pre s = .ok s' → popInstance u s' kind values names = .error e →
    popInstances u (pre ++ Stmt.insert kind values names :: post) s = .error e := by
  intro pre
  induction pre with
  | nil =>
    intro s s' kind values names post e h1 h2
    simp only [popInstances, Except.ok.injEq] at h1; subst h1
    simp only [List.nil_append, popInstances, h2]
  | cons st rest ih =>
    intro s s' kind values names post e h1 h2
    cases st with
    | insert k v n =>
      simp only [popInstances, List.cons_append] at h1 ⊢
      cases hp : popInstance u s k v n with
      | error e' => rw [hp] at h1; cases h1
      | ok s1 => rw [hp] at h1; simp only [hp]; exact ih s1 s' kind values names post e h1 h2
    | createTable _ _ => simp only [popInstances, List.cons_append] at h1 ⊢; exact ih s s' kind values names post e h1 h2
    | createIndex _ _ _ => simp only [popInstances, List.cons_append] at h1 ⊢; exact ih s s' kind values names post e h1 h2
    | createRop _ _ _ _ _ _ _ _ _ => simp only [popInstances, List.cons_append] at h1 ⊢; exact ih s s' kind values names post e h1 h2

/-! ### the whole build -/

theorem buildCore_fails_tables (u : UC) (stmts : List Stmt) (h : ¬ TablesOk u [] (newTables stmts)) :
    buildCore u stmts = .error .metaErr := by
  unfold buildCore
  rw [popClasses_dup u stmts BState.empty (by simp [KindsDistinct, BState.empty]) (by simpa [BState.empty] using h)]

theorem buildCore_fails_duplicate (u : UC) (stmts : List Stmt) (h : ¬ KindsDistinct u (newTables stmts)) :
    buildCore u stmts = .error .metaErr :=
  buildCore_fails_tables u stmts (fun ht => h (by simpa using ht.1))

/-- a declared class with two attribute names that coincide after upper-casing -/
theorem buildCore_fails_attr_names (u : UC) (stmts : List Stmt) (h : ∃ c ∈ newTables stmts, attrNamesOk u c.attrs = false) :
    buildCore u stmts = .error .metaErr := by
  obtain ⟨c, hc, hn⟩ := h
  exact buildCore_fails_tables u stmts (fun ht => by have := ht.2 c hc; rw [hn] at this; cases this)

theorem buildCore_fails_index (u : UC) (stmts : List Stmt) (hd : KindsDistinct u (newTables stmts))
    (hn : ∀ c ∈ newTables stmts, attrNamesOk u c.attrs = true)
    (h : ∃ kind name attrs, Stmt.createIndex kind name attrs ∈ stmts ∧ attrs ≠ [] ∧
      ∀ c ∈ newTables stmts, sameKind u c.kind kind = false) : buildCore u stmts = .error .metaErr := by
  unfold buildCore
  have h1 := popClasses_ok u stmts BState.empty (by simpa [BState.empty] using hd) hn
  simp only [BState.empty, List.nil_append] at h1
  simp only [BState.empty, h1]
  rw [popIdents_unknown u stmts ⟨newTables stmts, []⟩ h]

theorem buildCore_fails_rop (u : UC) (stmts : List Stmt) (hd : KindsDistinct u (newTables stmts))
    (hn : ∀ c ∈ newTables stmts, attrNamesOk u c.attrs = true)
    (hi : ∀ kind name attrs, Stmt.createIndex kind name attrs ∈ stmts → attrs ≠ [] → ∃ c ∈ newTables stmts, sameKind u c.kind kind = true)
    (h : ∃ rel sk sc skeys sp tk tc tkeys tp, Stmt.createRop rel sk sc skeys sp tk tc tkeys tp ∈ stmts ∧
      RopBad u (newTables stmts) sk skeys tk tkeys) : buildCore u stmts = .error .metaErr := by
  unfold buildCore
  have h1 := popClasses_ok u stmts BState.empty (by simpa [BState.empty] using hd) hn
  simp only [BState.empty, List.nil_append] at h1
  simp only [BState.empty, h1]
  have h2 := popIdents_ok u stmts ⟨newTables stmts, []⟩ hi
  simp only [h2]
  obtain ⟨rel, sk, sc, skeys, sp, tk, tc, tkeys, tp, hm, hbad⟩ := h
  rw [popAssocs_bad u stmts _ ⟨rel, sk, sc, skeys, sp, tk, tc, tkeys, tp, hm,
    RopBad.map u (fun c => stmts.foldl (identsStep u) c) (fun c => foldl_kind _ (identsStep_kind u) stmts c)
      (fun c => foldl_attrs _ (identsStep_attrs u) stmts c) hbad⟩]

/-- if the definition phases succeed, the first INSERT that fails decides the outcome -/
theorem buildCore_fails_insert (u : UC) (pre post : List Stmt) (kind : Name) (values : List Text) (names : Option (List Name))
    (s1 s2 s3 s' : BState) (e : BuildErr)
    (h1 : popClasses u (pre ++ Stmt.insert kind values names :: post) BState.empty = .ok s1)
    (h2 : popIdents u (pre ++ Stmt.insert kind values names :: post) s1 = .ok s2)
    (h3 : popAssocs u (pre ++ Stmt.insert kind values names :: post) s2 = .ok s3)
    (hpre : popInstances u pre s3 = .ok s') (hins : popInstance u s' kind values names = .error e) :
    buildCore u (pre ++ Stmt.insert kind values names :: post) = .error e := by
  unfold buildCore
  simp only [h1, h2, h3]
  exact popInstances_first_failure u pre s3 s' kind values names post e hpre hins

/-! ### … lifted to `build` (the fifth phase never raises) -/

theorem build_of_core_error (u : UC) (stmts : List Stmt) (e : BuildErr) (h : buildCore u stmts = .error e) :
    build u stmts = .error e := by rw [build_eq_core u stmts]; exact h

theorem build_fails_duplicate (u : UC) (stmts : List Stmt)
    (h : ¬ KindsDistinct u (newTables stmts)) : build u stmts = .error .metaErr :=
  build_of_core_error u stmts _ (buildCore_fails_duplicate u stmts h)

theorem build_fails_attr_names (u : UC) (stmts : List Stmt)
    (h : ∃ c ∈ newTables stmts, attrNamesOk u c.attrs = false) : build u stmts = .error .metaErr :=
  build_of_core_error u stmts _ (buildCore_fails_attr_names u stmts h)

theorem build_fails_index (u : UC) (stmts : List Stmt)
    (hd : KindsDistinct u (newTables stmts)) (hn : ∀ c ∈ newTables stmts, attrNamesOk u c.attrs = true)
    (h : ∃ kind name attrs, Stmt.createIndex kind name attrs ∈ stmts ∧ attrs ≠ [] ∧
      ∀ c ∈ newTables stmts, sameKind u c.kind kind = false) : build u stmts = .error .metaErr :=
  build_of_core_error u stmts _ (buildCore_fails_index u stmts hd hn h)

theorem build_fails_rop (u : UC) (stmts : List Stmt)
    (hd : KindsDistinct u (newTables stmts)) (hn : ∀ c ∈ newTables stmts, attrNamesOk u c.attrs = true)
    (hi : ∀ kind name attrs, Stmt.createIndex kind name attrs ∈ stmts → attrs ≠ [] → ∃ c ∈ newTables stmts, sameKind u c.kind kind = true)
    (h : ∃ rel sk sc skeys sp tk tc tkeys tp, Stmt.createRop rel sk sc skeys sp tk tc tkeys tp ∈ stmts ∧
      RopBad u (newTables stmts) sk skeys tk tkeys) : build u stmts = .error .metaErr :=
  build_of_core_error u stmts _ (buildCore_fails_rop u stmts hd hn hi h)

theorem build_fails_insert (u : UC) (pre post : List Stmt) (kind : Name) (values : List Text) (names : Option (List Name))
    (s1 s2 s3 s' : BState) (e : BuildErr)
    (h1 : popClasses u (pre ++ Stmt.insert kind values names :: post) BState.empty = .ok s1)
    (h2 : popIdents u (pre ++ Stmt.insert kind values names :: post) s1 = .ok s2)
    (h3 : popAssocs u (pre ++ Stmt.insert kind values names :: post) s2 = .ok s3)
    (hpre : popInstances u pre s3 = .ok s') (hins : popInstance u s' kind values names = .error e) :
    build u (pre ++ Stmt.insert kind values names :: post) = .error e :=
  build_of_core_error u _ _ (buildCore_fails_insert u pre post kind values names s1 s2 s3 s' e h1 h2 h3 hpre hins)

end Pyx.Sql
