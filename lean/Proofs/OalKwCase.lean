import Proofs.OalLayout

/-!
  Every entry of the GENERATED reserved-word table (`Gen.OalLex.keywords`, read from `OALParser.keywords`), written
  in ANY letter case, is a word the lexer model returns as exactly that keyword token.

  The only facts about the table that are decided (`kwTableOk`) are shape facts of its ENTRIES (each is an upper-case
  word `[A-Z_][0-9A-Z_]*` other than `END`); the statement over all spellings is proved by induction over the
  characters of the spelling.
-/
namespace Pyx.OalLex

/-- shape of the entries of a reserved-word table: non-empty, first character `[a-zA-Z_]`, all characters
    `[0-9a-zA-Z_]`, unchanged by upper-casing, and not the word `END` -/
def kwTableOk (kws : List (List Char)) : Bool :=
  kws.all fun k =>
    (match k with
      | [] => false
      | x :: r => isIdStart x && r.all isWord) &&
    (k.map upperAscii == k) && !(k == ['E', 'N', 'D'])

theorem isLowerA_isLetterA (c : Char) (h : isLowerA c = true) : isLetterA c = true := by
  simp [isLetterA, h]

/-- upper-casing does not turn a non-word character into a word character -/
theorem isWord_of_upper (c : Char) (h : isWord (upperAscii c) = true) : isWord c = true := by
  unfold upperAscii at h
  split at h
  · next hl => simp [isWord, isLowerA_isLetterA c hl]
  · exact h

theorem isIdStart_of_upper (c : Char) (h : isIdStart (upperAscii c) = true) : isIdStart c = true := by
  unfold upperAscii at h
  split at h
  · next hl => simp [isIdStart, isLowerA_isLetterA c hl]
  · exact h

theorem all_isWord_of_upper : ∀ (s k : List Char), s.map upperAscii = k → (∀ y ∈ k, isWord y = true) →
    ∀ y ∈ s, isWord y = true
  | [], _, _, _ => by intro y hy; cases hy
  | x :: s', k, hs, hk => by
    intro y hy
    cases k with
    | nil => simp at hs
    | cons x' k' =>
      simp only [List.map_cons, List.cons.injEq] at hs
      rcases List.mem_cons.mp hy with rfl | hy'
      · exact isWord_of_upper _ (by rw [hs.1]; exact hk x' (by simp))
      · exact all_isWord_of_upper s' k' hs.2 (fun z hz => hk z (by simp [hz])) y hy'

theorem map_upper_map_lower (s : List Char) : (s.map lowerAscii).map upperAscii = s.map upperAscii := by
  rw [List.map_map]
  apply List.map_congr_left
  intro c _
  exact upper_lower c

/-- a spelling that equals the table entry up to ASCII letter case upper-cases to the entry -/
theorem upper_of_caseVariant (k s : List Char) (hk : k.map upperAscii = k)
    (hs : s.map lowerAscii = k.map lowerAscii) : s.map upperAscii = k := by
  rw [← map_upper_map_lower s, hs, map_upper_map_lower, hk]

/-- every spelling of an entry of a well-shaped table is an identifier-shaped word other than `end` -/
theorem wellWord_of_spelling (kws : List (List Char)) (hT : kwTableOk kws = true) (k : List Char) (hk : k ∈ kws)
    (s : List Char) (hs : s.map upperAscii = k) : WellWord s := by
  have hT' := List.all_eq_true.mp hT k hk
  simp only [Bool.and_eq_true, Bool.not_eq_true', beq_iff_eq, beq_eq_false_iff_ne] at hT'
  obtain ⟨⟨hshape, _⟩, hne⟩ := hT'
  refine ⟨?_, ?_⟩
  · cases k with
    | nil => simp at hshape
    | cons x' k' =>
      cases s with
      | nil => simp at hs
      | cons x s' =>
        simp only [List.map_cons, List.cons.injEq] at hs
        simp only [Bool.and_eq_true, List.all_eq_true] at hshape
        refine ⟨x, s', rfl, isIdStart_of_upper x (by rw [hs.1]; exact hshape.1), ?_⟩
        exact all_isWord_of_upper s' k' hs.2 hshape.2
  · intro hend
    apply hne
    rw [← hs, ← map_upper_map_lower s, hend]
    decide

/-- the kind `t_ID` gives such a spelling is the table entry -/
theorem wordKind_of_spelling (k : List Char) (hk : k ∈ Gen.OalLex.keywords) (s : List Char)
    (hs : s.map upperAscii = k) : wordKind s = k := by
  unfold wordKind
  rw [hs, if_pos (List.contains_iff_mem.mpr hk)]

theorem gen_kwTableOk : kwTableOk Gen.OalLex.keywords = true := by decide

/-- ONE step of the lexer: at any spelling of any entry of the generated table, followed by the end of the text or
    by layout, the rule that matches is `t_ID` (rule 8 of the generated table), it matches exactly the spelling,
    and the token type it assigns is the table entry -/
theorem keyword_step (k : List Char) (hk : k ∈ Gen.OalLex.keywords) (s : List Char)
    (hs : s.map lowerAscii = k.map lowerAscii) (t : List Char) (ht : TailOk t) :
    firstMatch Gen.OalLex.rules (s ++ t) = some (R 8, s.length) ∧ kindOf Gen.OalLex.cfg (R 8) s = k := by
  have hT := List.all_eq_true.mp gen_kwTableOk k hk
  simp only [Bool.and_eq_true, beq_iff_eq] at hT
  have hu := upper_of_caseVariant k s hT.1.2 hs
  exact ⟨step_word s (wellWord_of_spelling _ gen_kwTableOk k hk s hu) t ht,
    by rw [kindOf_R8]; exact wordKind_of_spelling k hk s hu⟩

/-- a list of (table entry, spelling, layout after it): every spelling is a case variant of its entry, the
    layout between two words is not empty -/
inductive KwItemsOk : List (List Char × List Char × List Char) → Prop
  | nil : KwItemsOk []
  | cons (k s sep : List Char) (rest : List (List Char × List Char × List Char)) :
      k ∈ Gen.OalLex.keywords → s.map lowerAscii = k.map lowerAscii → Layout0 sep → (sep = [] → rest = []) →
      KwItemsOk rest → KwItemsOk ((k, s, sep) :: rest)

theorem kwItems_items (items : List (List Char × List Char × List Char)) (h : KwItemsOk items) : ItemsOk items := by
  induction h with
  | nil => exact .nil
  | cons k s sep rest hk hs hsep hne _ ih =>
    have hT := List.all_eq_true.mp gen_kwTableOk k hk
    simp only [Bool.and_eq_true, beq_iff_eq] at hT
    have hu := upper_of_caseVariant k s hT.1.2 hs
    have hw := wellWord_of_spelling _ gen_kwTableOk k hk s hu
    refine .cons k s sep rest ?_ hsep hne ?_ ih
    · have := WellLexeme.word s hw
      rwa [wordKind_of_spelling k hk s hu] at this
    · intro hsl
      exfalso
      obtain ⟨x, s', hxs, hx, _⟩ := hw.shape
      rw [hsl] at hxs
      simp only [List.cons.injEq] at hxs
      rw [← hxs.1] at hx
      revert hx; decide

/-- the WHOLE lexer: keywords of the generated table, each in any letter case, separated by any layout, come back
    as exactly the keyword tokens of the table entries, with the lexemes as written -/
theorem keywords_lexed (sep0 : List Char) (items : List (List Char × List Char × List Char))
    (h0 : Layout0 sep0) (h : KwItemsOk items) :
    (lex (sep0 ++ render items)).map (fun t => (t.kind, t.lexeme)) = items.map (fun i => (i.1, i.2.1)) :=
  layout_irrelevant sep0 items h0 (kwItems_items items h)

end Pyx.OalLex
