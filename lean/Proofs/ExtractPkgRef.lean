import Proofs.ExtractFuel

/-!
  C14 / C20 — package references (EP_PKGREF, R1402) in `is_contained_in`: what a reference adds, what it does not add,
  and that nothing is selected twice however many chains lead to the component.
-/

namespace Pyx.Extract

/-- ONE STEP over a reference: package `r.referring` lies inside the component (its OWN PE_PE is contained — by its
    containment chain or, higher up, by further references) and refers to the package `r.referred`: every element directly
    inside `r.referred` is contained in the component -/
theorem contained_of_reference {cs : List Container} {rf : List PkgRef} (tree : TreeOk cs rf) {root : Nat} {r : PkgRef}
    {k kq : Container} (hr : r ∈ rf) (hk : findContainer cs false r.referred = some k)
    (hq : findContainer cs false r.referring = some kq) (hc : containedIn cs rf root kq.parent = true) :
    containedIn cs rf root (.pkg r.referred) = true :=
  (contained_iff tree root _).mpr (.ref hk hr rfl hq ((contained_iff tree root _).mp hc))

/-- … and everything BELOW: an element of a package nested (at any depth) inside a package that is inside the component
    is inside the component — so the whole content of the referred package, sub-packages included, comes along -/
theorem contained_of_parent {cs : List Container} {rf : List PkgRef} (tree : TreeOk cs rf) {root p : Nat} {k : Container}
    (hk : findContainer cs false p = some k) (hc : containedIn cs rf root k.parent = true) :
    containedIn cs rf root (.pkg p) = true :=
  (contained_iff tree root _).mpr (.pkg hk ((contained_iff tree root _).mp hc))

/-- what `is_contained_in` answers for an element of a package, unfolded once (on the domain): its package is inside the
    component, or some package that refers to its package is -/
theorem contained_pkg_iff {cs : List Container} {rf : List PkgRef} (tree : TreeOk cs rf) (root p : Nat) :
    containedIn cs rf root (.pkg p) = true ↔
      ∃ k, findContainer cs false p = some k ∧
        (containedIn cs rf root k.parent = true ∨
          ∃ r ∈ rf, r.referred = p ∧ ∃ kq, findContainer cs false r.referring = some kq ∧
            containedIn cs rf root kq.parent = true) := by
  constructor
  · intro h
    have hr := (contained_iff tree root _).mp h
    cases hr with
    | pkg hk h' => exact ⟨_, hk, Or.inl ((contained_iff tree root _).mpr h')⟩
    | ref hk hr hrp hq h' => exact ⟨_, hk, Or.inr ⟨_, hr, hrp, _, hq, (contained_iff tree root _).mpr h'⟩⟩
  · rintro ⟨k, hk, h | ⟨r, hr, hrp, kq, hq, h⟩⟩
    · exact contained_of_parent tree hk h
    · subst hrp; exact contained_of_reference tree hr hk hq h

/-- package `q` lies on the element's own containment chain (the EP_PKG rows passed on the way up, through components too) -/
inductive OnChain (cs : List Container) : Parent → Nat → Prop where
  | here {p : Nat} {k : Container} : findContainer cs false p = some k → OnChain cs (.pkg p) p
  | up {p q : Nat} {k : Container} : findContainer cs false p = some k → OnChain cs k.parent q → OnChain cs (.pkg p) q
  | upComp {c q : Nat} {k : Container} : findContainer cs true c = some k → OnChain cs k.parent q → OnChain cs (.comp c) q

/-- a reference is followed from the package the element's chain PASSES, towards a referring package that is itself
    CONTAINED: being referred to is not being contained.  If no reference row targets a package on the element's own
    containment chain, the references change nothing for that element. -/
theorem containedFuel_untargeted (cs : List Container) (rf : List PkgRef) (root : Nat) :
    ∀ (f : Nat) (p : Parent), (∀ q, OnChain cs p q → ∀ r ∈ rf, r.referred ≠ q) →
      containedFuel cs rf root f p = containedFuelPlain cs root f p := by
  intro f
  induction f with
  | zero => intro p _; rfl
  | succ f ih =>
    intro p h
    cases p with
    | none => rfl
    | pkg q =>
      simp only [containedFuel, containedFuelPlain]
      cases hk : findContainer cs false q with
      | none => rfl
      | some k =>
        simp only
        have hany : ∀ (g : PkgRef → Bool), (rf.any fun r => r.referred == q && g r) = false := by
          intro g
          rw [List.any_eq_false]
          intro r hr
          have := h q (.here hk) r hr
          simp [this]
        rw [hany, Bool.or_false]
        exact ih k.parent (fun q' hq' => h q' (.up hk hq'))
    | comp c =>
      simp only [containedFuel, containedFuelPlain]
      cases hk : findContainer cs true c with
      | none => rfl
      | some k =>
        simp only
        rw [ih k.parent (fun q' hq' => h q' (.upComp hk hq'))]

/-! ### nothing is selected twice -/

/-- `mk_component` filters the O_OBJ rows: a class that is in scope — along however many chains (its own containment, one
    or several package references) — is defined exactly once -/
theorem extract_class_once {d : ClassDiagram} (wf : WF d) (comp : Option Nat) (drv : Bool) {k : Class} (hk : k ∈ d.classes)
    (hs : inScope d.containers d.pkgrefs comp k.parent = true) :
    ((extract d comp drv).classes.map (·.kl)).count k.kl = 1 := by
  have hm : (extract d comp drv).classes.map (·.kl) =
      (d.classes.filter (fun c => inScope d.containers d.pkgrefs comp c.parent)).map (·.kl) := by
    unfold extract; simp only [List.map_map]; rfl
  rw [hm]
  have hnd : ((d.classes.filter (fun c => inScope d.containers d.pkgrefs comp c.parent)).map (·.kl)).Nodup :=
    List.Nodup.sublist (List.Sublist.map _ List.filter_sublist) wf.kls
  rw [hnd.count, if_pos]
  exact List.mem_map.mpr ⟨k, List.mem_filter.mpr ⟨hk, hs⟩, rfl⟩

/-- … and so is a relationship: at most one association group carries its number, exactly one when it is in scope and
    `groupOf` is defined for it -/
theorem extract_group_once {d : ClassDiagram} (wf : WF d) (comp : Option Nat) (drv : Bool) {r : Rel} {g : SGroup}
    (hr : r ∈ d.rels) (hs : inScope d.containers d.pkgrefs comp r.parent = true) (hg : groupOf d r = some g) :
    ((extract d comp drv).groups.map (·.rel)).count r.numb = 1 := by
  have hsub : ∀ l : List Rel, ((l.filterMap (groupOf d)).map (·.rel)).Sublist (l.map (·.numb)) := by
    intro l
    induction l with
    | nil => exact List.Sublist.slnil
    | cons a t ih =>
      simp only [List.filterMap_cons, List.map_cons]
      cases ha : groupOf d a with
      | none => exact List.Sublist.cons _ ih
      | some ga =>
        simp only [List.map_cons, groupOf_rel ha]
        exact List.Sublist.cons_cons _ ih
  have hnd : ((extract d comp drv).groups.map (·.rel)).Nodup := by
    unfold extract
    exact List.Nodup.sublist ((hsub _).trans (List.Sublist.map _ List.filter_sublist)) wf.relNumbs
  rw [hnd.count, if_pos]
  unfold extract
  refine List.mem_map.mpr ⟨g, List.mem_filterMap.mpr ⟨r, List.mem_filter.mpr ⟨hr, hs⟩, hg⟩, groupOf_rel hg⟩

end Pyx.Extract
