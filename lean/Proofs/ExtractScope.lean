import Proofs.ExtractShape

/-!
  C14 — restricting to a component: the scope filter is the containment chain of the PE_PE, restriction is
  monotone and composes, an association follows its R_REL (not its classes), a dangling association makes the
  build raise; derived attributes exactly on request.
-/

namespace Pyx.Extract

/-- the containment chain of a packageable element reaches the component `root`:
    PE_PE -> (EP_PKG | C_C) -> its PE_PE -> … -> C_C `root`; from a package the chain may also continue at the PE_PE of
    a package that REFERS to it (an EP_PKGREF row, R1402: `ref`) -/
inductive Reaches (cs : List Container) (rf : List PkgRef) (root : Nat) : Parent → Prop where
  | here {k : Container} : findContainer cs true root = some k → Reaches cs rf root (.comp root)
  | pkg {p : Nat} {k : Container} : findContainer cs false p = some k → Reaches cs rf root k.parent → Reaches cs rf root (.pkg p)
  | comp {c : Nat} {k : Container} : findContainer cs true c = some k → Reaches cs rf root k.parent → Reaches cs rf root (.comp c)
  | ref {p : Nat} {k : Container} {r : PkgRef} {kq : Container} : findContainer cs false p = some k → r ∈ rf →
      r.referred = p → findContainer cs false r.referring = some kq → Reaches cs rf root kq.parent → Reaches cs rf root (.pkg p)

theorem contained_sound (cs : List Container) (rf : List PkgRef) (root : Nat) : ∀ (f : Nat) (p : Parent),
    containedFuel cs rf root f p = true → Reaches cs rf root p := by
  intro f
  induction f with
  | zero => intro p h; simp [containedFuel] at h
  | succ f ih =>
    intro p h
    cases p with
    | none => simp [containedFuel] at h
    | pkg q =>
      simp only [containedFuel] at h
      cases hf : findContainer cs false q with
      | none => simp [hf] at h
      | some k =>
        rw [hf] at h
        simp only [Bool.or_eq_true, List.any_eq_true, Bool.and_eq_true, beq_iff_eq] at h
        rcases h with h | ⟨r, hr, hrp, h⟩
        · exact .pkg hf (ih k.parent h)
        · cases hq : findContainer cs false r.referring with
          | none => simp [hq] at h
          | some kq => rw [hq] at h; exact .ref hf hr hrp hq (ih kq.parent h)
    | comp c =>
      simp only [containedFuel] at h
      cases hf : findContainer cs true c with
      | none => simp [hf] at h
      | some k =>
        rw [hf] at h
        simp only [Bool.or_eq_true, beq_iff_eq] at h
        rcases h with h | h
        · subst h; exact .here hf
        · exact .comp hf (ih k.parent h)

/-- THE DOMAIN: the container rows together with the package references form an acyclic graph whose depth the fuel of
    `containedIn` covers — a rank that drops from every container to its own parent (no cyclic containment) and from
    every referred package — an EP_PKG row that exists — to the parent of each package referring to it (no reference cycle: a package that refers to a
    package it lies in would make `is_contained_in` recurse for ever), bounded by the number of container rows (a path
    in an acyclic graph passes every container at most once).  With `rf = []` this is the containment forest alone. -/
structure TreeOk (cs : List Container) (rf : List PkgRef) : Prop where
  ex : ∃ depth : Parent → Nat,
    (∀ k ∈ cs, depth k.parent < depth (if k.isComp then .comp k.id else .pkg k.id)) ∧
    (∀ r ∈ rf, ∀ k kq, findContainer cs false r.referred = some k → findContainer cs false r.referring = some kq →
      depth kq.parent < depth (.pkg r.referred)) ∧
    ∀ p, depth p ≤ cs.length

theorem findContainer_spec {cs : List Container} {b : Bool} {i : Nat} {k : Container}
    (h : findContainer cs b i = some k) : k ∈ cs ∧ k.isComp = b ∧ k.id = i := by
  have hm := List.mem_of_find?_eq_some h
  have hp := List.find?_some h
  simp only [Bool.and_eq_true, beq_iff_eq] at hp
  exact ⟨hm, hp.1, hp.2⟩

/-- `TreeOk` from a rank given in decidable form (for concrete diagrams: every clause is then checked by `decide`) -/
theorem TreeOk.of_rank {cs : List Container} {rf : List PkgRef} (depth : Parent → Nat)
    (h1 : ∀ k ∈ cs, depth k.parent < depth (if k.isComp then .comp k.id else .pkg k.id))
    (h2 : ∀ r ∈ rf, (findContainer cs false r.referred).isNone = true ∨
      (findContainer cs false r.referring).all (fun kq => decide (depth kq.parent < depth (.pkg r.referred))) = true)
    (h3 : ∀ p, depth p ≤ cs.length) : TreeOk cs rf := by
  refine ⟨⟨depth, h1, ?_, h3⟩⟩
  intro r hr k kq hk hq
  rcases h2 r hr with h | h
  · rw [hk] at h; cases h
  · rw [hq] at h; simpa using h

/-- without references the domain is the old one: a containment forest -/
theorem TreeOk.no_pkgref {cs : List Container} :
    TreeOk cs [] ↔ ∃ depth : Parent → Nat,
      (∀ k ∈ cs, depth k.parent < depth (if k.isComp then .comp k.id else .pkg k.id)) ∧ ∀ p, depth p ≤ cs.length := by
  constructor
  · rintro ⟨depth, h1, _, h3⟩; exact ⟨depth, h1, h3⟩
  · rintro ⟨depth, h1, h3⟩; exact ⟨⟨depth, h1, (fun r hr => by cases hr), h3⟩⟩

/-- dropping reference rows stays inside the domain -/
theorem TreeOk.mono {cs : List Container} {rf rf' : List PkgRef} (h : ∀ r ∈ rf', r ∈ rf) (t : TreeOk cs rf) : TreeOk cs rf' := by
  obtain ⟨depth, h1, h2, h3⟩ := t.ex
  exact ⟨⟨depth, h1, fun r hr => h2 r (h r hr), h3⟩⟩

theorem contained_complete_fuel {cs : List Container} {rf : List PkgRef} {root : Nat} (depth : Parent → Nat)
    (hdec : ∀ k ∈ cs, depth k.parent < depth (if k.isComp then .comp k.id else .pkg k.id))
    (href : ∀ r ∈ rf, ∀ k kq, findContainer cs false r.referred = some k → findContainer cs false r.referring = some kq →
      depth kq.parent < depth (.pkg r.referred))
    {p : Parent} (h : Reaches cs rf root p) : ∀ f, depth p < f → containedFuel cs rf root f p = true := by
  induction h with
  | @here k hk =>
    intro f hf
    cases f with
    | zero => omega
    | succ f => simp [containedFuel, hk]
  | @pkg q k hk _ ih =>
    intro f hf
    cases f with
    | zero => omega
    | succ f =>
      simp only [containedFuel, hk, Bool.or_eq_true]
      left
      obtain ⟨hm, hb, hi⟩ := findContainer_spec hk
      have := hdec k hm
      rw [hb, hi] at this
      simp only [Bool.false_eq_true, if_false] at this
      exact ih f (by omega)
  | @comp c k hk _ ih =>
    intro f hf
    cases f with
    | zero => omega
    | succ f =>
      simp only [containedFuel, hk, Bool.or_eq_true, beq_iff_eq]
      right
      obtain ⟨hm, hb, hi⟩ := findContainer_spec hk
      have := hdec k hm
      rw [hb, hi] at this
      simp only [if_true] at this
      exact ih f (by omega)
  | @ref q k r kq hk hr hrp hq _ ih =>
    intro f hf
    cases f with
    | zero => omega
    | succ f =>
      simp only [containedFuel, hk, Bool.or_eq_true, List.any_eq_true, Bool.and_eq_true, beq_iff_eq]
      right
      refine ⟨r, hr, hrp, ?_⟩
      rw [hq]
      have := href r hr k kq (hrp ▸ hk) hq
      rw [hrp] at this
      exact ih f (by omega)

/-- `is_contained_in` decides exactly "the containment chain — continued over package references — reaches the
    component"; on the domain `TreeOk` the fuel is never exhausted -/
theorem contained_iff {cs : List Container} {rf : List PkgRef} (tree : TreeOk cs rf) (root : Nat) (p : Parent) :
    containedIn cs rf root p = true ↔ Reaches cs rf root p := by
  constructor
  · exact contained_sound cs rf root _ p
  · intro h
    obtain ⟨depth, hdec, href, hb⟩ := tree.ex
    exact contained_complete_fuel depth hdec href h _ (by have := hb p; omega)

/-- MORE FUEL CHANGES NOTHING on the domain: whatever fuel above the depth the Python recursion is given, the answer is
    the one `containedIn` computes (so `cs.length + 1` is not a cut-off) -/
theorem contained_fuel_irrelevant {cs : List Container} {rf : List PkgRef} (tree : TreeOk cs rf) (root : Nat) (p : Parent)
    (f : Nat) (hf : cs.length < f) : containedFuel cs rf root f p = containedIn cs rf root p := by
  obtain ⟨depth, hdec, href, hb⟩ := tree.ex
  cases h : containedIn cs rf root p with
  | true =>
    exact contained_complete_fuel depth hdec href ((contained_iff tree root p).mp h) f (by have := hb p; omega)
  | false =>
    cases h' : containedFuel cs rf root f p with
    | false => rfl
    | true =>
      have := (contained_iff tree root p).mpr (contained_sound cs rf root f p h')
      rw [h] at this; cases this

/-! ### conservative extension: a diagram without package references behaves as before -/

/-- without EP_PKGREF rows `containedFuel` is the plain walk up the containment (the definition the model had before
    package references entered it) -/
theorem containedFuel_no_pkgref (cs : List Container) (root : Nat) :
    ∀ (f : Nat) (p : Parent), containedFuel cs [] root f p = containedFuelPlain cs root f p := by
  intro f
  induction f with
  | zero => intro p; rfl
  | succ f ih =>
    intro p
    cases p with
    | none => rfl
    | pkg q =>
      simp only [containedFuel, containedFuelPlain, List.any_nil, Bool.or_false]
      cases findContainer cs false q with
      | none => rfl
      | some k => exact ih k.parent
    | comp c =>
      simp only [containedFuel, containedFuelPlain]
      cases findContainer cs true c with
      | none => rfl
      | some k => simp only; rw [ih k.parent]

/-- a reference row that no package is the target of, or whose referring package does not exist, changes nothing; more
    generally only the rows whose both ends exist matter -/
theorem containedFuel_rows_congr (cs : List Container) {rf rf' : List PkgRef} (root : Nat)
    (h : ∀ r, (r ∈ rf ∧ (findContainer cs false r.referring).isSome ∧ (findContainer cs false r.referred).isSome) ↔
              (r ∈ rf' ∧ (findContainer cs false r.referring).isSome ∧ (findContainer cs false r.referred).isSome)) :
    ∀ (f : Nat) (p : Parent), containedFuel cs rf root f p = containedFuel cs rf' root f p := by
  intro f
  induction f with
  | zero => intro p; rfl
  | succ f ih =>
    intro p
    cases p with
    | none => rfl
    | pkg q =>
      simp only [containedFuel]
      cases hk : findContainer cs false q with
      | none => rfl
      | some k =>
        simp only
        rw [ih k.parent]
        congr 1
        rw [Bool.eq_iff_iff]
        simp only [List.any_eq_true, Bool.and_eq_true, beq_iff_eq]
        constructor
        · rintro ⟨r, hr, hrp, hc⟩
          cases hq : findContainer cs false r.referring with
          | none => simp [hq] at hc
          | some kq =>
            rw [hq] at hc
            simp only at hc
            have := (h r).mp ⟨hr, by simp [hq], by simp [hrp, hk]⟩
            exact ⟨r, this.1, hrp, by rw [hq]; simp only; rw [← ih]; exact hc⟩
        · rintro ⟨r, hr, hrp, hc⟩
          cases hq : findContainer cs false r.referring with
          | none => simp [hq] at hc
          | some kq =>
            rw [hq] at hc
            simp only at hc
            have := (h r).mpr ⟨hr, by simp [hq], by simp [hrp, hk]⟩
            exact ⟨r, this.1, hrp, by rw [hq]; simp only; rw [ih]; exact hc⟩
    | comp c =>
      simp only [containedFuel]
      cases findContainer cs true c with
      | none => rfl
      | some k => simp only; rw [ih k.parent]

/-- a relation without references is the containment chain alone -/
theorem reaches_no_pkgref_cases {cs : List Container} {root : Nat} {p : Parent} (h : Reaches cs [] root p) :
    (∃ k, p = .comp root ∧ findContainer cs true root = some k) ∨
    (∃ q k, p = .pkg q ∧ findContainer cs false q = some k ∧ Reaches cs [] root k.parent) ∨
    (∃ c k, p = .comp c ∧ findContainer cs true c = some k ∧ Reaches cs [] root k.parent) := by
  cases h with
  | here hk => exact Or.inl ⟨_, rfl, hk⟩
  | pkg hk h => exact Or.inr (Or.inl ⟨_, _, rfl, hk, h⟩)
  | comp hk h => exact Or.inr (Or.inr ⟨_, _, rfl, hk, h⟩)
  | ref _ hr _ _ _ => cases hr

/-- more reference rows, more reach -/
theorem reaches_mono_rows {cs : List Container} {rf rf' : List PkgRef} (hsub : ∀ r ∈ rf, r ∈ rf') {root : Nat} {p : Parent}
    (h : Reaches cs rf root p) : Reaches cs rf' root p := by
  induction h with
  | here hk => exact .here hk
  | pkg hk _ ih => exact .pkg hk ih
  | comp hk _ ih => exact .comp hk ih
  | ref hk hr hrp hq _ ih => exact .ref hk (hsub _ hr) hrp hq ih

/-- component `c1` lies inside component `c2` (or is `c2`): everything inside `c1` is inside `c2` -/
theorem reaches_trans {cs : List Container} {rf : List PkgRef} {c1 c2 : Nat} (h12 : Reaches cs rf c2 (.comp c1)) {p : Parent}
    (h : Reaches cs rf c1 p) : Reaches cs rf c2 p := by
  induction h with
  | here _ => exact h12
  | pkg hk _ ih => exact .pkg hk ih
  | comp hk _ ih => exact .comp hk ih
  | ref hk hr hrp hq _ ih => exact .ref hk hr hrp hq ih

theorem filter_sublist_of_imp {α : Type} {p q : α → Bool} (h : ∀ x, p x = true → q x = true) :
    ∀ l : List α, (l.filter p).Sublist (l.filter q) := by
  intro l
  induction l with
  | nil => exact List.Sublist.slnil
  | cons a t ih =>
    simp only [List.filter_cons]
    cases hp : p a
    · cases hq : q a
      · exact ih
      · exact List.Sublist.cons _ ih
    · simp only [h a hp, if_true]
      exact List.Sublist.cons₂ _ ih

theorem filter_filter_of_imp {α : Type} {p q : α → Bool} (h : ∀ x, p x = true → q x = true) (l : List α) :
    (l.filter q).filter p = l.filter p := by
  rw [List.filter_filter]
  apply filter_congr'
  intro a _
  cases hp : p a
  · simp
  · simp [h a hp]

section restrict
variable {d : ClassDiagram} (tree : TreeOk d.containers d.pkgrefs)

include tree in
theorem inScope_mono {c1 c2 : Nat} (h12 : Reaches d.containers d.pkgrefs c2 (.comp c1)) (p : Parent)
    (h : inScope d.containers d.pkgrefs (some c1) p = true) : inScope d.containers d.pkgrefs (some c2) p = true := by
  simp only [inScope] at h ⊢
  exact (contained_iff tree c2 p).mpr (reaches_trans h12 ((contained_iff tree c1 p).mp h))

include tree in
/-- restriction is monotone: component ⊆ enclosing component ⊆ whole model, for classes and associations, each
    kept definition being literally the same -/
theorem restrict_monotone' {c1 c2 : Nat} (h12 : Reaches d.containers d.pkgrefs c2 (.comp c1)) (drv : Bool) :
    (extract d (some c1) drv).classes.Sublist (extract d (some c2) drv).classes ∧
    (extract d (some c2) drv).classes.Sublist (extract d none drv).classes ∧
    (extract d (some c1) drv).groups.Sublist (extract d (some c2) drv).groups ∧
    (extract d (some c2) drv).groups.Sublist (extract d none drv).groups := by
  unfold extract
  refine ⟨?_, ?_, ?_, ?_⟩
  · exact List.Sublist.map _ (filter_sublist_of_imp (fun k h => inScope_mono tree h12 k.parent h) _)
  · exact List.Sublist.map _ (filter_sublist_of_imp (fun _ _ => rfl) _)
  · exact List.Sublist.filterMap _ (filter_sublist_of_imp (fun r h => inScope_mono tree h12 r.parent h) _)
  · exact List.Sublist.filterMap _ (filter_sublist_of_imp (fun _ _ => rfl) _)

include tree in
/-- restricting the restriction: filtering the classes / relationships of the enclosing component `c2` by
    containment in `c1` gives the restriction to `c1` (for `c1 = c2`: restricting twice = restricting once) -/
theorem restrict_compose' {c1 c2 : Nat} (h12 : Reaches d.containers d.pkgrefs c2 (.comp c1)) (drv : Bool) :
    ((d.classes.filter (fun k => inScope d.containers d.pkgrefs (some c2) k.parent)).filter
        (fun k => inScope d.containers d.pkgrefs (some c1) k.parent)).map (classOf d drv) = (extract d (some c1) drv).classes ∧
    ((d.rels.filter (fun r => inScope d.containers d.pkgrefs (some c2) r.parent)).filter
        (fun r => inScope d.containers d.pkgrefs (some c1) r.parent)).filterMap (groupOf d) = (extract d (some c1) drv).groups := by
  unfold extract
  constructor
  · rw [filter_filter_of_imp (fun k h => inScope_mono tree h12 k.parent h)]
  · rw [filter_filter_of_imp (fun r h => inScope_mono tree h12 r.parent h)]

include tree in
/-- exactly the classes whose containment chain reaches the component, each defined as in the whole model; an
    association is kept iff the containment chain of its R_REL reaches the component — whatever its classes -/
theorem restrict_exact' (c : Nat) (drv : Bool) :
    (∀ s, s ∈ (extract d (some c) drv).classes ↔
      ∃ k ∈ d.classes, Reaches d.containers d.pkgrefs c k.parent ∧ s = classOf d drv k) ∧
    (∀ g, g ∈ (extract d (some c) drv).groups ↔
      ∃ r ∈ d.rels, Reaches d.containers d.pkgrefs c r.parent ∧ groupOf d r = some g) := by
  unfold extract
  constructor
  · intro s
    simp only [List.mem_map, List.mem_filter, inScope]
    constructor
    · rintro ⟨k, ⟨hk, hs⟩, rfl⟩
      exact ⟨k, hk, (contained_iff tree c _).mp hs, rfl⟩
    · rintro ⟨k, hk, hr, rfl⟩
      exact ⟨k, ⟨hk, (contained_iff tree c _).mpr hr⟩, rfl⟩
  · intro g
    simp only [List.mem_filterMap, List.mem_filter, inScope]
    constructor
    · rintro ⟨r, ⟨hr, hs⟩, hg⟩
      exact ⟨r, hr, (contained_iff tree c _).mp hs, hg⟩
    · rintro ⟨r, hr, hreach, hg⟩
      exact ⟨r, ⟨hr, (contained_iff tree c _).mpr hreach⟩, hg⟩

end restrict

/-! ### dangling associations make the build raise -/

theorem mkComponent_some {d : ClassDiagram} {comp : Option Nat} {drv : Bool} {s : Schema}
    (h : mkComponent d comp drv = some s) :
    s = extract d comp drv ∧ (s.classes.map (fun c => upper c.kl)).Nodup ∧
    ∀ g ∈ s.groups, ∀ a ∈ g.items,
      (∃ c ∈ s.classes, upper c.kl = upper a.src.kind) ∧
      (∃ c ∈ s.classes, upper c.kl = upper a.tgt.kind) ∧
      a.src.keys.length = a.tgt.keys.length ∧
      (∃ c ∈ s.classes, upper c.kl = upper a.tgt.kind ∧
        ∀ k ∈ a.tgt.keys, upper k ∈ c.attrs.map (fun x => upper x.name)) := by
  unfold mkComponent at h
  simp only at h
  split at h
  · rename_i hd
    cases h
    unfold Schema.definable at hd
    simp only [Bool.and_eq_true, decide_eq_true_eq, List.all_eq_true] at hd
    refine ⟨rfl, hd.1, ?_⟩
    intro g hg a ha
    have := hd.2 g hg a ha
    unfold assocDefinable endDefinable targetKeysKnown at this
    simp only [Bool.and_eq_true, List.any_eq_true, beq_iff_eq] at this
    obtain ⟨⟨⟨h1, h2⟩, hlen⟩, h3⟩ := this
    refine ⟨h1, h2, hlen, ?_⟩
    cases hf : (extract d comp drv).classes.find? (fun c => upper c.kl == upper a.tgt.kind) with
    | none => rw [hf] at h3; cases h3
    | some c =>
      rw [hf] at h3
      simp only [List.all_eq_true, List.contains_eq_mem, decide_eq_true_eq] at h3
      have hp := List.find?_some hf
      exact ⟨c, List.mem_of_find?_eq_some hf, by simpa using hp, h3⟩
  · cases h

/-- a relationship inside the scope with an end whose class is not among the extracted classes: `mk_component`
    raises (UnknownClassException); nothing half-defined is returned -/
theorem dangling_raises' {d : ClassDiagram} {comp : Option Nat} {drv : Bool} {g : SGroup} {a : SAssoc}
    (hg : g ∈ (extract d comp drv).groups) (ha : a ∈ g.items)
    (hno : (∀ c ∈ (extract d comp drv).classes, upper c.kl ≠ upper a.src.kind) ∨
           (∀ c ∈ (extract d comp drv).classes, upper c.kl ≠ upper a.tgt.kind)) :
    mkComponent d comp drv = none := by
  cases h : mkComponent d comp drv with
  | none => rfl
  | some s =>
    obtain ⟨rfl, _, hall⟩ := mkComponent_some h
    obtain ⟨⟨c1, hc1, he1⟩, ⟨c2, hc2, he2⟩, _, _⟩ := hall g hg a ha
    rcases hno with hno | hno
    · exact absurd he1 (hno c1 hc1)
    · exact absurd he2 (hno c2 hc2)

/-! ### derived attributes exactly on request -/

theorem derived_off' (d : ClassDiagram) (c : Class) (s : SAttr) (h : s ∈ (classOf d false c).attrs) :
    ∃ a ∈ c.attrs, a.name = s.name ∧ a.isDerived = false ∧ attrTy d a = some s.ty := by
  obtain ⟨a, ha, hn, hd, ht⟩ := classOf_attr_mem.mp h
  rcases hd with hd | hd
  · cases hd
  · exact ⟨a, ha, hn, hd, ht⟩

/-- flag off = flag on applied to the non-derived attributes: the derived ones disappear, everything else stays
    where it was -/
theorem derived_flag' (d : ClassDiagram) (c : Class) :
    (classOf d false c).attrs = (c.attrs.filter (fun a => !a.isDerived)).filterMap (sattr d true) ∧
    (classOf d true c).attrs.map (·.name) = (c.attrs.filter (fun a => (attrTy d a).isSome)).map (·.name) := by
  constructor
  · unfold classOf
    simp only
    induction c.attrs with
    | nil => rfl
    | cons a t ih =>
      simp only [List.filterMap_cons, List.filter_cons]
      cases hd : a.isDerived
      · simp only [Bool.not_false, if_true, List.filterMap_cons]
        have : sattr d false a = sattr d true a := by unfold sattr; simp [hd]
        rw [this, ih]
      · simp only [Bool.not_true, Bool.false_eq_true, if_false]
        have : sattr d false a = none := by unfold sattr; simp [hd]
        rw [this, ih]
  · rw [classOf_attr_names]
    have : c.attrs.filter (Attr.kept d true) = c.attrs.filter (fun a => (attrTy d a).isSome) := by
      apply filter_congr'
      intro a _
      unfold Attr.kept
      simp
    rw [this]

end Pyx.Extract
