import Proofs.ExtractShape

/-!
  C14 — the extracted schema does not depend on the order of the rows: permuting the class, relationship,
  data type, container and package-reference rows permutes the defined classes and association groups and changes nothing else.
-/

namespace Pyx.Extract

theorem find?_perm_unique {α : Type} {p : α → Bool} {l l' : List α} (hp : l.Perm l')
    (uniq : ∀ x ∈ l, ∀ y ∈ l, p x = true → p y = true → x = y) : l.find? p = l'.find? p := by
  cases h : l.find? p with
  | some x =>
    have hx := List.mem_of_find?_eq_some h
    have hpx := List.find?_some h
    cases h' : l'.find? p with
    | some y =>
      have hy := List.mem_of_find?_eq_some h'
      have hpy := List.find?_some h'
      rw [uniq x hx y (hp.mem_iff.mpr hy) hpx hpy]
    | none =>
      have := List.find?_eq_none.mp h' x (hp.mem_iff.mp hx)
      exact absurd hpx this
  | none =>
    symm
    apply List.find?_eq_none.mpr
    intro x hx
    exact List.find?_eq_none.mp h x (hp.mem_iff.mpr hx)

/-- the same rows in another order -/
structure RowPerm (d d' : ClassDiagram) : Prop where
  containers : d.containers.Perm d'.containers
  dts : d.dts.Perm d'.dts
  classes : d.classes.Perm d'.classes
  rels : d.rels.Perm d'.rels
  /-- the EP_PKGREF rows in another order as well -/
  pkgrefs : d.pkgrefs.Perm d'.pkgrefs

/-- identifiers identify rows: Obj_ID, DT_ID, and Package_ID / Id per kind of container -/
structure RowWF (d : ClassDiagram) : Prop where
  clsIds : (d.classes.map (·.id)).Nodup
  dtIds : (d.dts.map (·.id)).Nodup
  contIds : ∀ k₁ ∈ d.containers, ∀ k₂ ∈ d.containers, k₁.isComp = k₂.isComp → k₁.id = k₂.id → k₁ = k₂

section perm
variable {d d' : ClassDiagram} (hp : RowPerm d d') (wf : RowWF d)

include hp wf in
theorem perm_findClass (i : Nat) : findClass d' i = findClass d i :=
  (find?_perm_of_nodup_key (fun (k : Class) => k.id) hp.classes wf.clsIds i).symm

include hp wf in
theorem perm_findDt (i : Nat) : findDt d'.dts i = findDt d.dts i :=
  (find?_perm_of_nodup_key (fun (k : DataType) => k.id) hp.dts wf.dtIds i).symm

include hp wf in
theorem perm_findContainer (b : Bool) (i : Nat) :
    findContainer d'.containers b i = findContainer d.containers b i := by
  unfold findContainer
  symm
  apply find?_perm_unique hp.containers
  intro x hx y hy px py
  simp only [Bool.and_eq_true, beq_iff_eq] at px py
  exact wf.contIds x hx y hy (by rw [px.1, py.1]) (by rw [px.2, py.2])

theorem containedFuel_congr {cs cs' : List Container} {rf rf' : List PkgRef}
    (h : ∀ b i, findContainer cs' b i = findContainer cs b i) (hr : rf.Perm rf')
    (root f : Nat) (p : Parent) : containedFuel cs' rf' root f p = containedFuel cs rf root f p := by
  induction f generalizing p with
  | zero => rfl
  | succ f ih =>
    cases p with
    | none => rfl
    | pkg q =>
      simp only [containedFuel, h]
      cases findContainer cs false q with
      | none => rfl
      | some k =>
        simp only
        rw [ih k.parent]
        congr 1
        rw [Bool.eq_iff_iff]
        simp only [List.any_eq_true, ih]
        constructor
        · rintro ⟨r, hm, hc⟩; exact ⟨r, hr.mem_iff.mpr hm, hc⟩
        · rintro ⟨r, hm, hc⟩; exact ⟨r, hr.mem_iff.mp hm, hc⟩
    | comp c =>
      simp only [containedFuel, h]
      cases findContainer cs true c with
      | none => rfl
      | some k => simp only [ih k.parent]

include hp wf in
theorem perm_inScope (comp : Option Nat) (p : Parent) :
    inScope d'.containers d'.pkgrefs comp p = inScope d.containers d.pkgrefs comp p := by
  unfold inScope
  cases comp with
  | none => rfl
  | some c =>
    unfold containedIn
    rw [hp.containers.length_eq.symm]
    exact containedFuel_congr (perm_findContainer hp wf) hp.pkgrefs c _ p

theorem dtTypeFuel_congr {dts dts' : List DataType} (h : ∀ i, findDt dts' i = findDt dts i) (f i : Nat) :
    dtTypeFuel dts' f i = dtTypeFuel dts f i := by
  induction f generalizing i with
  | zero => rfl
  | succ f ih =>
    simp only [dtTypeFuel, h]
    cases findDt dts i with
    | none => rfl
    | some t =>
      simp only
      cases t.kind with
      | user b => exact ih b
      | _ => rfl

include hp wf in
theorem perm_attrTy (a : Attr) : attrTy d' a = attrTy d a := by
  unfold attrTy
  have h1 : attrDt d' a = attrDt d a := by
    apply attrDt_congr rfl
    intro c b
    unfold attrKindAt
    rw [perm_findClass hp wf]
  rw [h1]
  congr 1
  funext i
  unfold dtTypeName
  rw [hp.dts.length_eq.symm]
  exact dtTypeFuel_congr (perm_findDt hp wf) _ i

include hp wf in
theorem perm_classOf (drv : Bool) (c : Class) : classOf d' drv c = classOf d drv c :=
  classOf_congr rfl rfl rfl (perm_attrTy hp wf)

include hp wf in
theorem perm_groupOf (r : Rel) : groupOf d' r = groupOf d r := by
  unfold groupOf
  simp only [perm_findClass hp wf]

include hp wf in
theorem extract_perm (comp : Option Nat) (drv : Bool) :
    (extract d comp drv).classes.Perm (extract d' comp drv).classes ∧
    (extract d comp drv).groups.Perm (extract d' comp drv).groups := by
  unfold extract
  simp only
  rw [funext (perm_classOf hp wf drv), funext (perm_groupOf hp wf)]
  have hs : (fun (c : Class) => inScope d'.containers d'.pkgrefs comp c.parent) = fun c => inScope d.containers d.pkgrefs comp c.parent := by
    funext c; exact perm_inScope hp wf comp c.parent
  have hr : (fun (r : Rel) => inScope d'.containers d'.pkgrefs comp r.parent) = fun r => inScope d.containers d.pkgrefs comp r.parent := by
    funext r; exact perm_inScope hp wf comp r.parent
  rw [hs, hr]
  exact ⟨(hp.classes.filter _).map _, (hp.rels.filter _).filterMap _⟩

end perm
end Pyx.Extract
