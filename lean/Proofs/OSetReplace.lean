import Proofs.OSetPtr

/-! C17, pointer level: iteration whose body REPLACES the visited element (discard it, add a fresh one) -/
namespace Pyx.OSetPtr

theorem split_unique {a : Nat} : ∀ (l1 l2 m1 m2 : List Nat), (l1 ++ a :: l2).Nodup → l1 ++ a :: l2 = m1 ++ a :: m2 →
    l1 = m1 ∧ l2 = m2
  | [], l2, [], m2, _, h => by simp at h; exact ⟨rfl, h⟩
  | [], l2, b :: m1, m2, hn, h => by
    simp only [List.nil_append, List.cons_append, List.cons.injEq] at h
    obtain ⟨rfl, h2⟩ := h
    have : a ∈ l2 := by rw [h2]; simp
    simp only [List.nil_append, List.nodup_cons] at hn
    exact absurd this hn.1
  | b :: l1, l2, [], m2, hn, h => by
    simp only [List.nil_append, List.cons_append, List.cons.injEq] at h
    obtain ⟨rfl, _⟩ := h
    simp only [List.cons_append, List.nodup_cons, List.mem_append, List.mem_cons, true_or, or_true, not_true_eq_false,
      false_and] at hn
  | b :: l1, l2, c :: m1, m2, hn, h => by
    simp only [List.cons_append, List.cons.injEq] at h
    obtain ⟨rfl, h2⟩ := h
    simp only [List.cons_append, List.nodup_cons] at hn
    obtain ⟨e1, e2⟩ := split_unique l1 l2 m1 m2 hn.2 h2
    exact ⟨by rw [e1], e2⟩

/-- the keys of the cells of the ring are pairwise different -/
theorem reprA_key_inj {s : Store} {as L : List Nat} (h : ReprA s as L) {a b : Nat} (ha : a ∈ as) (hb : b ∈ as)
    (hk : s.key a = s.key b) : a = b := by
  have h1 := h.mapIn a ha
  have h2 := h.mapIn b hb
  rw [hk, h2] at h1
  exact (Option.some.inj h1).symm

/-- discarding the key of a given cell removes exactly that cell from the ring -/
theorem reprA_discard_at {s : Store} {as1 as2 L : List Nat} {a : Nat} (h : ReprA s (as1 ++ a :: as2) L) :
    ReprA (discard (s.key a) s) (as1 ++ as2) (L.erase (s.key a)) := by
  have hk : s.key a ∈ L := by rw [← h.keys]; exact List.mem_map_of_mem (by simp)
  obtain ⟨b1, a', b2, hsplit, hka, hr⟩ := (reprA_discard h (s.key a)).2 hk
  have ha' : a' ∈ as1 ++ a :: as2 := by rw [hsplit]; simp
  have : a' = a := reprA_key_inj h ha' (by simp) hka
  subst this
  obtain ⟨e1, e2⟩ := split_unique as1 as2 b1 b2 h.nodup hsplit
  rw [e1, e2]
  exact hr

theorem linked_at (s : Store) (pre suf : List Nat) (a : Nat) (h : Linked s (0 :: pre ++ a :: suf ++ [0])) :
    s.next a = (suf ++ [0]).head?.getD 0 ∧ s.prev a = (0 :: pre).getLast?.getD 0 := by
  constructor
  · cases suf with
    | nil =>
      have := (linked_split s (0 :: pre) a 0 []).mp (by simpa using h)
      simpa using this.2.1
    | cons b bs =>
      have := (linked_split s (0 :: pre) a b (bs ++ [0])).mp (by simpa using h)
      simpa using this.2.1
  · rcases List.eq_nil_or_concat pre with rfl | ⟨pre', b, rfl⟩
    · have := (linked_split s [] 0 a (suf ++ [0])).mp (by simpa using h)
      simpa using this.2.2.1
    · have := (linked_split s (0 :: pre') b a (suf ++ [0])).mp (by simpa using h)
      have hl : (0 :: (pre' ++ [b])).getLast? = some b := by
        rw [show (0 :: (pre' ++ [b])) = (0 :: pre') ++ [b] from rfl, List.getLast?_append]; simp
      rw [List.concat_eq_append, hl]; exact this.2.2.1

theorem linked_prev0_mem (s : Store) : ∀ (as : List Nat) (x : Nat), Linked s (x :: as ++ [0]) → s.prev 0 ∈ x :: as
  | [], x, h => by
    simp only [List.cons_append, List.nil_append, Linked] at h
    simp [h.2.1]
  | b :: bs, x, h => by
    simp only [List.cons_append, Linked] at h
    have := linked_prev0_mem s bs b (by simpa using h.2.2)
    exact List.mem_cons_of_mem _ this

theorem getLastD_mem : ∀ (l : List Nat) (x : Nat), (x :: l).getLast?.getD 0 ∈ x :: l
  | [], x => by simp
  | y :: l, x => by
    have := getLastD_mem l y
    rw [List.getLast?_cons_cons]
    exact List.mem_cons_of_mem _ this

theorem headD_mem (l : List Nat) : (l ++ [0]).head?.getD 0 ∈ l ++ [0] := by
  cases l <;> simp

theorem discard_fresh (k : Nat) (s : Store) : (discard k s).fresh = s.fresh := by
  unfold discard; split <;> rfl

/-- one execution of the loop body on the cell `a` of the ring `pre ++ a :: suf`: the cell leaves the ring, a fresh cell (at
    the allocator's address) is linked before the sentinel; the two pointer fields of the unlinked cell `a` — which the
    suspended generator reads next — are untouched; old cells keep their keys -/
theorem replaceAt_spec {s : Store} {pre suf L : List Nat} {a : Nat} (h : ReprA s (pre ++ a :: suf) L)
    (fresh added : Nat) (hf : fresh + added ∉ L) :
    ReprA (replaceAt fresh added (s.key a) s) (pre ++ suf ++ [s.fresh]) (L.erase (s.key a) ++ [fresh + added]) ∧
    (replaceAt fresh added (s.key a) s).next a = s.next a ∧
    (replaceAt fresh added (s.key a) s).prev a = s.prev a ∧
    (∀ z, z ≠ s.fresh → (replaceAt fresh added (s.key a) s).key z = s.key z) ∧
    (replaceAt fresh added (s.key a) s).key s.fresh = fresh + added := by
  have h1 : ReprA (discard (s.key a) s) (pre ++ suf) (L.erase (s.key a)) := reprA_discard_at h
  have hf1 : fresh + added ∉ L.erase (s.key a) := fun hm => hf (List.mem_of_mem_erase hm)
  have h2 := (reprA_add h1 (fresh + added)).2 hf1
  rw [discard_fresh] at h2
  have hma : s.map (s.key a) = some a := h.mapIn a (by simp)
  have hdis : discard (s.key a) s = { unlink s a with map := upd s.map (s.key a) none } := by
    unfold discard; rw [hma]
  have hm1 : (discard (s.key a) s).map (fresh + added) = none := h1.mapOut _ hf1
  have ha0 : a ≠ 0 := fun e => h.nz (by simp [e])
  have hanew : a ≠ s.fresh := Nat.ne_of_lt (h.bound a (by simp))
  have hnd := h.nodup
  have ha_pre : a ∉ pre := fun hm => by
    have := (List.nodup_append.mp hnd).2.2 a hm a (by simp)
    exact this rfl
  have ha_suf : a ∉ suf := fun hm => by
    have := (List.nodup_append.mp hnd).2.1
    simp only [List.nodup_cons] at this
    exact this.1 hm
  have hl := h.linked
  have hat := linked_at s pre suf a (by simpa using hl)
  have hp_ne : a ≠ s.prev a := by
    intro e
    have hm := getLastD_mem pre 0
    rw [← hat.2, ← e] at hm
    simp only [List.mem_cons] at hm
    rcases hm with hm | hm
    · exact ha0 hm
    · exact ha_pre hm
  have hn_ne : a ≠ s.next a := by
    intro e
    have hm := headD_mem suf
    rw [← hat.1, ← e] at hm
    simp only [List.mem_append, List.mem_singleton] at hm
    rcases hm with hm | hm
    · exact ha_suf hm
    · exact ha0 hm
  have hlast : a ≠ (discard (s.key a) s).prev 0 := by
    intro e
    have hm := linked_prev0_mem (discard (s.key a) s) (pre ++ suf) 0 (by simpa using h1.linked)
    rw [← e] at hm
    simp only [List.mem_cons, List.mem_append] at hm
    rcases hm with hm | hm | hm
    · exact ha0 hm
    · exact ha_pre hm
    · exact ha_suf hm
  have hadd : replaceAt fresh added (s.key a) s =
      { key := upd (discard (s.key a) s).key s.fresh (fresh + added)
        prev := upd (upd (discard (s.key a) s).prev s.fresh ((discard (s.key a) s).prev 0)) 0 s.fresh
        next := upd (upd (discard (s.key a) s).next s.fresh 0) ((discard (s.key a) s).prev 0) s.fresh
        map := upd (discard (s.key a) s).map (fresh + added) (some s.fresh)
        fresh := s.fresh + 1 } := by
    unfold replaceAt add
    rw [hm1, discard_fresh]
  refine ⟨h2, ?_, ?_, ?_, ?_⟩
  · rw [hadd]
    simp only [upd, hlast, hanew, ↓reduceIte]
    rw [hdis]
    simp only [unlink, hp_ne, ↓reduceIte]
  · rw [hadd]
    simp only [upd, ha0, hanew, ↓reduceIte]
    rw [hdis]
    simp only [unlink, hn_ne, ↓reduceIte]
  · intro z hz
    rw [hadd]
    simp only [upd, hz, ↓reduceIte]
    rw [discard_key]
  · rw [hadd]
    simp [upd]

theorem iterReplace_at_sentinel (p : Nat → Bool) (fresh limit f : Nat) (s : Store) (added : Nat) :
    iterReplace p fresh limit f s 0 added = ([], s) := by
  cases f <;> simp [iterReplace]

theorem reversedReplace_at_sentinel (p : Nat → Bool) (fresh limit f : Nat) (s : Store) (added : Nat) :
    reversedReplace p fresh limit f s 0 added = ([], s) := by
  cases f <;> simp [reversedReplace]

/-- keys of old cells after one loop body -/
theorem replaceAt_map_key {s : Store} {pre suf L : List Nat} {a : Nat} (h : ReprA s (pre ++ a :: suf) L)
    (fresh added : Nat) (hf : fresh + added ∉ L) (l : List Nat) (hl : ∀ z ∈ l, z ∈ pre ++ a :: suf) :
    l.map (replaceAt fresh added (s.key a) s).key = l.map s.key := by
  apply List.map_congr_left
  intro z hz
  exact (replaceAt_spec h fresh added hf).2.2.2.1 z (Nat.ne_of_lt (h.bound z (hl z hz)))

/-- THE forward refinement: from a represented ring `pre ++ suf` with the iterator about to visit the first cell of `suf`, the
    pointer-level loop visits what the list-level loop visits and leaves a represented ring denoting its final content —
    for every fuel (both stop together), every predicate, whenever the fresh elements are not already present -/
theorem iterReplace_refines (p : Nat → Bool) (fresh limit : Nat) : ∀ (f : Nat) (s : Store) (pre suf L : List Nat) (added : Nat),
    ReprA s (pre ++ suf) L → (∀ j, added ≤ j → fresh + j ∉ L) →
    (iterReplace p fresh limit f s ((suf ++ [0]).head?.getD 0) added).1 =
        (absIterReplace p fresh limit f (pre.map s.key) (suf.map s.key) added).1 ∧
    Repr (iterReplace p fresh limit f s ((suf ++ [0]).head?.getD 0) added).2
        (absIterReplace p fresh limit f (pre.map s.key) (suf.map s.key) added).2
  | 0, s, pre, suf, L, added, h, _ => by
    simp only [iterReplace, absIterReplace, true_and]
    refine ⟨pre ++ suf, ?_⟩
    rw [← List.map_append, h.keys]; exact h
  | f + 1, s, pre, [], L, added, h, _ => by
    simp only [List.nil_append, List.head?_cons, Option.getD_some, iterReplace, ↓reduceIte, List.map_nil, absIterReplace,
      true_and]
    refine ⟨pre, ?_⟩
    have := h.keys
    rw [List.append_nil] at this
    rw [this]
    simpa using h
  | f + 1, s, pre, a :: suf', L, added, h, hfresh => by
    have ha0 : a ≠ 0 := fun e => h.nz (by simp [e])
    have hat := linked_at s pre suf' a (by simpa using h.linked)
    simp only [List.cons_append, List.head?_cons, Option.getD_some, List.map_cons]
    unfold iterReplace absIterReplace
    simp only [ha0, ↓reduceIte]
    by_cases hd : (p (s.key a) && decide (added < limit)) = true
    · simp only [hd, ↓reduceIte]
      obtain ⟨h2, hnext, _, hkeyold, hkeynew⟩ := replaceAt_spec h fresh added (hfresh added (Nat.le_refl _))
      rw [hnext, hat.1]
      have hpre : pre.map (replaceAt fresh added (s.key a) s).key = pre.map s.key :=
        replaceAt_map_key h fresh added (hfresh added (Nat.le_refl _)) pre (fun z hz => by simp [hz])
      have hsuf : suf'.map (replaceAt fresh added (s.key a) s).key = suf'.map s.key :=
        replaceAt_map_key h fresh added (hfresh added (Nat.le_refl _)) suf' (fun z hz => by simp [hz])
      have hfresh' : ∀ j, added + 1 ≤ j → fresh + j ∉ L.erase (s.key a) ++ [fresh + added] := by
        intro j hj hm
        simp only [List.mem_append, List.mem_singleton] at hm
        rcases hm with hm | hm
        · exact hfresh j (by omega) (List.mem_of_mem_erase hm)
        · omega
      cases suf' with
      | nil =>
        simp only [List.nil_append, List.head?_cons, Option.getD_some, iterReplace_at_sentinel, List.map_nil]
        refine ⟨trivial, pre ++ [] ++ [s.fresh], ?_⟩
        have hk := h2.keys
        rw [List.map_append, List.map_append, hpre] at hk
        simp only [List.map_nil, List.append_nil, List.map_cons, hkeynew] at hk
        rw [hk]
        exact h2
      | cons b bs =>
        have ih := iterReplace_refines p fresh limit f (replaceAt fresh added (s.key a) s) pre (b :: bs ++ [s.fresh])
          (L.erase (s.key a) ++ [fresh + added]) (added + 1) (by simpa [List.append_assoc] using h2) hfresh'
        rw [hpre, List.map_append, hsuf] at ih
        simp only [List.map_cons, List.map_nil, hkeynew, List.cons_append, List.head?_cons, Option.getD_some] at ih ⊢
        exact ⟨by rw [ih.1], ih.2⟩
    · have hd' : (p (s.key a) && decide (added < limit)) = false := by simpa using hd
      simp only [hd', Bool.false_eq_true, ↓reduceIte]
      rw [hat.1]
      have ih := iterReplace_refines p fresh limit f s (pre ++ [a]) suf' L added (by simpa using h) hfresh
      rw [List.map_append] at ih
      simp only [List.map_cons, List.map_nil] at ih
      exact ⟨by rw [ih.1], ih.2⟩

/-- THE backward refinement: the ring is `preRev.reverse ++ tail`, the iterator is about to visit the last cell of
    `preRev.reverse`; fresh cells are linked behind it (at the end of `tail`) and are never reached -/
theorem reversedReplace_refines (p : Nat → Bool) (fresh limit : Nat) : ∀ (preRev : List Nat) (f : Nat) (s : Store)
    (tail L : List Nat) (added : Nat),
    ReprA s (preRev.reverse ++ tail) L → (∀ j, added ≤ j → fresh + j ∉ L) → preRev.length < f →
    (reversedReplace p fresh limit f s ((0 :: preRev.reverse).getLast?.getD 0) added).1 =
        (absReversedReplace p fresh limit (preRev.map s.key) (tail.map s.key) added).1 ∧
    Repr (reversedReplace p fresh limit f s ((0 :: preRev.reverse).getLast?.getD 0) added).2
        (absReversedReplace p fresh limit (preRev.map s.key) (tail.map s.key) added).2
  | [], f, s, tail, L, added, h, _, _ => by
    simp only [List.reverse_nil, List.getLast?_singleton, Option.getD_some, reversedReplace_at_sentinel, List.map_nil,
      absReversedReplace, true_and]
    refine ⟨tail, ?_⟩
    have := h.keys
    simp only [List.reverse_nil, List.nil_append] at this
    rw [this]
    simpa using h
  | a :: rest, f, s, tail, L, added, h, hfresh, hf => by
    obtain ⟨f', rfl⟩ : ∃ f', f = f' + 1 := ⟨f - 1, by simp at hf; omega⟩
    have hf' : rest.length < f' := by simp at hf; omega
    have h' : ReprA s (rest.reverse ++ a :: tail) L := by simpa [List.append_assoc] using h
    have ha0 : a ≠ 0 := fun e => h'.nz (by simp [e])
    have hat := linked_at s rest.reverse tail a (by simpa using h'.linked)
    have hcur : (0 :: (a :: rest).reverse).getLast?.getD 0 = a := by
      rw [List.reverse_cons, show (0 :: (rest.reverse ++ [a])) = (0 :: rest.reverse) ++ [a] from rfl, List.getLast?_append]
      simp
    rw [hcur]
    simp only [List.map_cons]
    unfold reversedReplace absReversedReplace
    simp only [ha0, ↓reduceIte]
    by_cases hd : (p (s.key a) && decide (added < limit)) = true
    · simp only [hd, ↓reduceIte]
      obtain ⟨h2, _, hprev, _, hkeynew⟩ := replaceAt_spec h' fresh added (hfresh added (Nat.le_refl _))
      rw [hprev, hat.2]
      have hpre : rest.map (replaceAt fresh added (s.key a) s).key = rest.map s.key :=
        replaceAt_map_key h' fresh added (hfresh added (Nat.le_refl _)) rest (fun z hz => by simp [hz])
      have htail : tail.map (replaceAt fresh added (s.key a) s).key = tail.map s.key :=
        replaceAt_map_key h' fresh added (hfresh added (Nat.le_refl _)) tail (fun z hz => by simp [hz])
      have hfresh' : ∀ j, added + 1 ≤ j → fresh + j ∉ L.erase (s.key a) ++ [fresh + added] := by
        intro j hj hm
        simp only [List.mem_append, List.mem_singleton] at hm
        rcases hm with hm | hm
        · exact hfresh j (by omega) (List.mem_of_mem_erase hm)
        · omega
      have ih := reversedReplace_refines p fresh limit rest f' (replaceAt fresh added (s.key a) s) (tail ++ [s.fresh])
        (L.erase (s.key a) ++ [fresh + added]) (added + 1) (by simpa [List.append_assoc] using h2) hfresh' hf'
      rw [hpre, List.map_append, htail] at ih
      simp only [List.map_cons, List.map_nil, hkeynew] at ih
      exact ⟨by rw [ih.1], ih.2⟩
    · have hd' : (p (s.key a) && decide (added < limit)) = false := by simpa using hd
      simp only [hd', Bool.false_eq_true, ↓reduceIte]
      rw [hat.2]
      have ih := reversedReplace_refines p fresh limit rest f' s (a :: tail) L added h' hfresh hf'
      simp only [List.map_cons] at ih
      exact ⟨by rw [ih.1], ih.2⟩

theorem linked_ends (s : Store) (as : List Nat) (h : Linked s (0 :: as ++ [0])) :
    s.next 0 = (as ++ [0]).head?.getD 0 ∧ s.prev 0 = (0 :: as).getLast?.getD 0 := by
  constructor
  · cases as with
    | nil => simp only [List.cons_append, List.nil_append, Linked] at h; simpa using h.1
    | cons b bs => simp only [List.cons_append, Linked] at h; simpa using h.1
  · rcases List.eq_nil_or_concat as with rfl | ⟨as', b, rfl⟩
    · simp only [List.cons_append, List.nil_append, Linked] at h; simpa using h.2.1
    · have := (linked_split s (0 :: as') b 0 []).mp (by simpa using h)
      have hl : (0 :: (as' ++ [b])).getLast? = some b := by
        rw [show (0 :: (as' ++ [b])) = (0 :: as') ++ [b] from rfl, List.getLast?_append]; simp
      rw [List.concat_eq_append, hl]; exact this.2.2.1

/-! ### the list-level loops in closed form -/

/-- the elements the loop keeps (visiting order) and the number it replaces: an element is replaced when `p` holds and fewer
    than `limit` were replaced before it -/
def keptBy (p : Nat → Bool) (limit : Nat) : List Nat → Nat → List Nat
  | [], _ => []
  | k :: r, added => if p k && decide (added < limit) then keptBy p limit r (added + 1) else k :: keptBy p limit r added

def replacedCount (p : Nat → Bool) (limit : Nat) : List Nat → Nat → Nat
  | [], _ => 0
  | k :: r, added => if p k && decide (added < limit) then replacedCount p limit r (added + 1) + 1 else replacedCount p limit r added

/-- the fresh elements `fresh + added, …, fresh + added + n - 1` -/
def freshFrom (fresh added n : Nat) : List Nat := (List.range' added n).map (fun j => fresh + j)

theorem freshFrom_succ (fresh added n : Nat) : freshFrom fresh added (n + 1) = (fresh + added) :: freshFrom fresh (added + 1) n := by
  simp [freshFrom, List.range'_succ]

/-- BACKWARD: every element ahead of the iterator is visited exactly once, nearest first — no fresh element is ever visited —
    and the final content is the kept elements in their old order, then what was behind the iterator, then the fresh ones -/
theorem absReversedReplace_closed (p : Nat → Bool) (fresh limit : Nat) : ∀ (preRev tail : List Nat) (added : Nat),
    absReversedReplace p fresh limit preRev tail added =
      (preRev, (keptBy p limit preRev added).reverse ++ tail ++ freshFrom fresh added (replacedCount p limit preRev added))
  | [], tail, added => by simp [absReversedReplace, keptBy, replacedCount, freshFrom]
  | k :: rest, tail, added => by
    unfold absReversedReplace keptBy replacedCount
    by_cases hd : (p k && decide (added < limit)) = true
    · simp only [hd, ↓reduceIte]
      rw [absReversedReplace_closed p fresh limit rest (tail ++ [fresh + added]) (added + 1), freshFrom_succ]
      simp
    · have hd' : (p k && decide (added < limit)) = false := by simpa using hd
      simp only [hd', Bool.false_eq_true, ↓reduceIte]
      rw [absReversedReplace_closed p fresh limit rest (k :: tail) added]
      simp

/-- the forward walk ends right after its first replacement: that replacement happens at the last element -/
def lostFresh (p : Nat → Bool) (limit : Nat) : List Nat → Nat → Bool
  | [], _ => false
  | [k], added => p k && decide (added < limit)
  | k :: k2 :: r, added => if p k && decide (added < limit) then false else lostFresh p limit (k2 :: r) added

/-- a walk over elements that are not replaced -/
theorem absIterReplace_plain (p : Nat → Bool) (fresh limit : Nat) : ∀ (fr : List Nat) (f : Nat) (pre : List Nat) (added : Nat),
    (∀ x ∈ fr, p x = false) → fr.length < f → absIterReplace p fresh limit f pre fr added = (fr, pre ++ fr)
  | [], f, pre, added, _, hf => by
    obtain ⟨f', rfl⟩ : ∃ f', f = f' + 1 := ⟨f - 1, by simp at hf; omega⟩
    simp [absIterReplace]
  | k :: fr, f, pre, added, hp, hf => by
    obtain ⟨f', rfl⟩ : ∃ f', f = f' + 1 := ⟨f - 1, by simp at hf; omega⟩
    have hk : p k = false := hp k (by simp)
    unfold absIterReplace
    simp only [hk, Bool.false_and, Bool.false_eq_true, ↓reduceIte]
    rw [absIterReplace_plain p fresh limit fr f' (pre ++ [k]) added (fun x hx => hp x (by simp [hx])) (by simp at hf; omega)]
    simp

/-- FORWARD, with `fr` = fresh elements already linked behind (never replaced: `p` is false on them): every element of `suf` is
    visited exactly once, in order; then the fresh elements, old and new — ALL of them, unless the walk ended right after its
    first replacement (`lostFresh`: nothing fresh was linked yet and the replaced element was the last one: its stale `next`
    is the sentinel).  The final content: what was behind the iterator, the kept elements, the fresh ones. -/
theorem absIterReplace_closed (p : Nat → Bool) (fresh limit : Nat) (hp : ∀ j, p (fresh + j) = false) :
    ∀ (suf fr : List Nat) (f : Nat) (pre : List Nat) (added : Nat),
    (∀ x ∈ fr, p x = false) → 2 * suf.length + fr.length < f →
    absIterReplace p fresh limit f pre (suf ++ fr) added =
      (suf ++ (if fr = [] ∧ lostFresh p limit suf added = true then []
               else fr ++ freshFrom fresh added (replacedCount p limit suf added)),
       pre ++ keptBy p limit suf added ++ fr ++ freshFrom fresh added (replacedCount p limit suf added))
  | [], fr, f, pre, added, hfr, hf => by
    simp only [List.nil_append, lostFresh, Bool.false_eq_true, and_false, ↓reduceIte, replacedCount, keptBy, freshFrom,
      List.range'_zero, List.map_nil, List.append_nil]
    exact absIterReplace_plain p fresh limit fr f pre added hfr (by simp at hf; omega)
  | k :: suf, fr, f, pre, added, hfr, hf => by
    obtain ⟨f', rfl⟩ : ∃ f', f = f' + 1 := ⟨f - 1, by simp at hf; omega⟩
    simp only [List.cons_append]
    unfold absIterReplace
    by_cases hd : (p k && decide (added < limit)) = true
    · simp only [hd, ↓reduceIte]
      cases hrem : suf ++ fr with
      | nil =>
        obtain ⟨rfl, rfl⟩ := List.append_eq_nil_iff.mp hrem
        simp [lostFresh, hd, keptBy, replacedCount, freshFrom]
      | cons b bs =>
        simp only
        rw [← hrem, List.append_assoc]
        have hfr' : ∀ x ∈ fr ++ [fresh + added], p x = false := by
          intro x hx
          simp only [List.mem_append, List.mem_singleton] at hx
          rcases hx with hx | rfl
          · exact hfr x hx
          · exact hp added
        rw [absIterReplace_closed p fresh limit hp suf (fr ++ [fresh + added]) f' pre (added + 1) hfr'
          (by simp at hf ⊢; omega)]
        have hne : ¬ (fr ++ [fresh + added] = []) := by simp
        have hlost : (fr = [] ∧ lostFresh p limit (k :: suf) added = true) ↔ False := by
          constructor
          · rintro ⟨rfl, hl⟩
            cases suf with
            | nil => simp at hrem
            | cons c cs => simp [lostFresh, hd] at hl
          · exact False.elim
        simp only [hne, false_and, ↓reduceIte, hlost, keptBy, replacedCount, hd, freshFrom_succ]
        simp
    · have hd' : (p k && decide (added < limit)) = false := by simpa using hd
      simp only [hd', Bool.false_eq_true, ↓reduceIte]
      rw [absIterReplace_closed p fresh limit hp suf fr f' (pre ++ [k]) added hfr (by simp at hf ⊢; omega)]
      have hl : lostFresh p limit (k :: suf) added = lostFresh p limit suf added := by
        cases suf with
        | nil => simp [lostFresh, hd']
        | cons c cs => simp [lostFresh, hd']
      simp only [hl, keptBy, replacedCount, hd', Bool.false_eq_true, ↓reduceIte]
      simp

theorem mem_freshFrom {fresh added n x : Nat} (h : x ∈ freshFrom fresh added n) : ∃ j, x = fresh + j := by
  simp only [freshFrom, List.mem_map] at h
  obtain ⟨j, _, rfl⟩ := h
  exact ⟨j, rfl⟩

/-- FORWARD, from the start of a represented ring -/
theorem reprA_iterReplace (p : Nat → Bool) (fresh limit : Nat) (hp : ∀ j, p (fresh + j) = false)
    {s : Store} {as L : List Nat} (h : ReprA s as L) (hfresh : ∀ j, fresh + j ∉ L) (f : Nat) (hf : 2 * L.length < f) :
    (iterReplace p fresh limit f s (s.next 0) 0).1 =
      L ++ (if lostFresh p limit L 0 = true then [] else freshFrom fresh 0 (replacedCount p limit L 0)) ∧
    Repr (iterReplace p fresh limit f s (s.next 0) 0).2 (keptBy p limit L 0 ++ freshFrom fresh 0 (replacedCount p limit L 0)) ∧
    (iterReplace p fresh limit f s (s.next 0) 0).1.filter (fun x => decide (x ∈ L)) = L := by
  have href := iterReplace_refines p fresh limit f s [] as L 0 (by simpa using h) (fun j _ => hfresh j)
  rw [← (linked_ends s as h.linked).1] at href
  have hcl := absIterReplace_closed p fresh limit hp L [] f [] 0 (by simp) (by simpa using hf)
  simp only [List.map_nil, h.keys] at href
  simp only [List.append_nil, true_and, List.nil_append] at hcl
  rw [hcl] at href
  refine ⟨href.1, href.2, ?_⟩
  rw [href.1, List.filter_append]
  have h1 : L.filter (fun x => decide (x ∈ L)) = L := List.filter_eq_self.mpr (fun x hx => by simpa using hx)
  have h2 : (if lostFresh p limit L 0 = true then [] else freshFrom fresh 0 (replacedCount p limit L 0)).filter
      (fun x => decide (x ∈ L)) = [] := by
    apply List.filter_eq_nil_iff.mpr
    intro x hx
    split at hx
    · simp at hx
    · obtain ⟨j, rfl⟩ := mem_freshFrom hx
      simpa using hfresh j
  rw [h1, h2, List.append_nil]

/-- BACKWARD, from the end of a represented ring -/
theorem reprA_reversedReplace (p : Nat → Bool) (fresh limit : Nat)
    {s : Store} {as L : List Nat} (h : ReprA s as L) (hfresh : ∀ j, fresh + j ∉ L) (f : Nat) (hf : L.length < f) :
    (reversedReplace p fresh limit f s (s.prev 0) 0).1 = L.reverse ∧
    Repr (reversedReplace p fresh limit f s (s.prev 0) 0).2
      ((keptBy p limit L.reverse 0).reverse ++ freshFrom fresh 0 (replacedCount p limit L.reverse 0)) := by
  have hlen : as.reverse.length < f := by
    rw [List.length_reverse, ← h.keys, List.length_map] at *; exact hf
  have href := reversedReplace_refines p fresh limit as.reverse f s [] L 0 (by simpa using h) (fun j _ => hfresh j) hlen
  rw [List.reverse_reverse, ← (linked_ends s as h.linked).2] at href
  rw [absReversedReplace_closed, List.map_reverse, h.keys] at href
  simpa using href

end Pyx.OSetPtr
